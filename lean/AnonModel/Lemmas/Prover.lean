import AnonModel.Model.Prover
import AnonModel.Lemmas.Interval
/-!
# Helper lemmas about the prover models (`Model/Prover.lean`) — used by `Props/C04.lean`, `Props/C07.lean`

1. generic facts about `List.mapM` in `Option`, association lists with `Nodup` keys, `noDup`, `dedup`;
2. `Names.commonView` is idempotent (ASCII lower-casing, spaces removed);
3. what `createPresentation` outputs, in closed form (`LegacyChar`).
-/
namespace AnonModel.Prover
open AnonModel.Verifier AnonModel.IdealCL

/-! ## 1. generic -/
section Generic
variable {α β γ : Type}

theorem mapM_some_map {f : α → Option β} : ∀ {l : List α} {r : List β},
    l.mapM f = some r → l.map f = r.map some := by
  intro l
  induction l with
  | nil => intro r h; simp at h; subst h; rfl
  | cons a l ih =>
    intro r h
    rw [List.mapM_cons] at h
    cases hfa : f a with
    | none => simp [hfa] at h
    | some b =>
      cases hl : l.mapM f with
      | none => simp [hfa, hl] at h
      | some bs =>
        simp [hfa, hl] at h
        subst h
        simp [hfa, ih hl]

theorem mapM_some_length {f : α → Option β} {l : List α} {r : List β} (h : l.mapM f = some r) :
    r.length = l.length := by
  have := congrArg List.length (mapM_some_map h)
  simpa using this.symm

/-- index-wise: the `i`-th output is the image of the `i`-th input -/
theorem mapM_some_getElem? {f : α → Option β} {l : List α} {r : List β} (h : l.mapM f = some r)
    (i : Nat) : (l[i]?).map f = (r[i]?).map some := by
  have := congrArg (·[i]?) (mapM_some_map h)
  simpa using this

theorem mapM_some_of_getElem? {f : α → Option β} {l : List α} {r : List β} (h : l.mapM f = some r)
    {i : Nat} {a : α} (ha : l[i]? = some a) : ∃ b, r[i]? = some b ∧ f a = some b := by
  have := mapM_some_getElem? h i
  rw [ha] at this
  cases hr : r[i]? with
  | none => simp [hr] at this
  | some b => exact ⟨b, rfl, by simpa [hr] using this⟩

theorem mapM_some_getElem?_inv {f : α → Option β} {l : List α} {r : List β} (h : l.mapM f = some r)
    {i : Nat} {b : β} (hb : r[i]? = some b) : ∃ a, l[i]? = some a ∧ f a = some b := by
  have := mapM_some_getElem? h i
  rw [hb] at this
  cases hl : l[i]? with
  | none => simp [hl] at this
  | some a => exact ⟨a, rfl, by simpa [hl] using this⟩

theorem mapM_some_mem {f : α → Option β} {l : List α} {r : List β} (h : l.mapM f = some r)
    {a : α} (ha : a ∈ l) : ∃ b ∈ r, f a = some b := by
  have : f a ∈ l.map f := List.mem_map_of_mem ha
  rw [mapM_some_map h] at this
  obtain ⟨b, hb, e⟩ := List.mem_map.mp this
  exact ⟨b, hb, e.symm⟩

theorem mapM_some_mem_inv {f : α → Option β} {l : List α} {r : List β} (h : l.mapM f = some r)
    {b : β} (hb : b ∈ r) : ∃ a ∈ l, f a = some b := by
  have : some b ∈ r.map some := List.mem_map_of_mem hb
  rw [← mapM_some_map h] at this
  obtain ⟨a, ha, e⟩ := List.mem_map.mp this
  exact ⟨a, ha, e⟩

/-- a flat map over the outputs, computed over the inputs -/
theorem mapM_some_flatMap {f : α → Option β} {g : β → List γ} {h : α → List γ} :
    ∀ {l : List α} {r : List β}, l.mapM f = some r →
    (∀ a ∈ l, ∀ b, f a = some b → g b = h a) → r.flatMap g = l.flatMap h := by
  intro l
  induction l with
  | nil => intro r hm _; simp at hm; subst hm; rfl
  | cons a l ih =>
    intro r hm hg
    rw [List.mapM_cons] at hm
    cases hfa : f a with
    | none => simp [hfa] at hm
    | some b =>
      cases hl : l.mapM f with
      | none => simp [hfa, hl] at hm
      | some bs =>
        simp [hfa, hl] at hm
        subst hm
        rw [List.flatMap_cons, List.flatMap_cons, hg a (List.mem_cons_self) b hfa,
          ih hl (fun a' ha' => hg a' (List.mem_cons_of_mem _ ha'))]

theorem mapM_some_map' {f : α → Option β} {g : β → γ} {h : α → γ} :
    ∀ {l : List α} {r : List β}, l.mapM f = some r →
    (∀ a ∈ l, ∀ b, f a = some b → g b = h a) → r.map g = l.map h := by
  intro l r hm hg
  have := mapM_some_flatMap (g := fun b => [g b]) (h := fun a => [h a]) hm
    (fun a ha b hb => by rw [hg a ha b hb])
  simpa [List.flatMap_singleton'] using this

theorem flatMap_sublist {f g : α → List β} : ∀ {l : List α},
    (∀ a ∈ l, (f a).Sublist (g a)) → (l.flatMap f).Sublist (l.flatMap g) := by
  intro l
  induction l with
  | nil => intro _; exact List.Sublist.refl _
  | cons a l ih =>
    intro h
    rw [List.flatMap_cons, List.flatMap_cons]
    exact List.Sublist.append (h a List.mem_cons_self) (ih (fun a' ha' => h a' (List.mem_cons_of_mem _ ha')))

theorem noDup_iff (l : List String) : noDup l = true ↔ l.Nodup := by
  induction l with
  | nil => simp [noDup]
  | cons a l ih => simp [noDup, ih, List.nodup_cons]

theorem mem_dedup [BEq α] [LawfulBEq α] {x : α} : ∀ {l : List α}, x ∈ dedup l ↔ x ∈ l := by
  intro l
  induction l with
  | nil => simp [dedup]
  | cons a l ih =>
    simp only [dedup, List.mem_cons, List.mem_filter, ih]
    constructor
    · rintro (h | ⟨h, _⟩)
      · exact Or.inl h
      · exact Or.inr h
    · intro h
      by_cases hx : x = a
      · exact Or.inl hx
      · rcases h with h | h
        · exact Or.inl h
        · exact Or.inr ⟨h, by simpa using hx⟩

/-- the value under a key of an association list with `Nodup` keys is unique -/
theorem assoc_unique {l : List (String × β)} (hn : (l.map Prod.fst).Nodup) {k : String} {a b : β}
    (ha : (k, a) ∈ l) (hb : (k, b) ∈ l) : a = b := by
  induction l with
  | nil => cases ha
  | cons x l ih =>
    rw [List.map_cons, List.nodup_cons] at hn
    rcases List.mem_cons.mp ha with ha | ha <;> rcases List.mem_cons.mp hb with hb | hb
    · rw [← ha] at hb; exact (Prod.mk.inj hb).2.symm
    · subst ha; exact absurd (List.mem_map_of_mem (f := Prod.fst) hb) hn.1
    · subst hb; exact absurd (List.mem_map_of_mem (f := Prod.fst) ha) hn.1
    · exact ih hn.2 ha hb

theorem lookup_of_mem {l : List (String × β)} (hn : (l.map Prod.fst).Nodup) {k : String} {b : β}
    (h : (k, b) ∈ l) : l.lookup k = some b := by
  induction l with
  | nil => cases h
  | cons x l ih =>
    rw [List.map_cons, List.nodup_cons] at hn
    obtain ⟨k', v'⟩ := x
    rcases List.mem_cons.mp h with h | h
    · cases h; simp [List.lookup]
    · have : k ≠ k' := fun e => hn.1 (by subst e; exact List.mem_map_of_mem (f := Prod.fst) h)
      clear ih
      simp only [List.lookup]
      rw [show (k == k') = false from by simpa using this]
      exact ih hn.2 h

theorem mem_of_lookup {l : List (String × β)} {k : String} {b : β} (h : l.lookup k = some b) :
    (k, b) ∈ l := by
  induction l with
  | nil => simp [List.lookup] at h
  | cons x l ih =>
    obtain ⟨k', v'⟩ := x
    simp only [List.lookup] at h
    by_cases e : k = k'
    · subst e; simp at h; subst h; exact List.mem_cons_self
    · rw [show (k == k') = false from by simpa using e] at h
      exact List.mem_cons_of_mem _ (ih h)

theorem lookup_eq_none_iff' {l : List (String × β)} {k : String} :
    l.lookup k = none ↔ k ∉ l.map Prod.fst := by
  induction l with
  | nil => simp [List.lookup]
  | cons x l ih =>
    obtain ⟨k', v'⟩ := x
    simp only [List.lookup, List.map_cons, List.mem_cons]
    by_cases e : k = k'
    · subst e; simp
    · rw [show (k == k') = false from by simpa using e]
      simp [ih, e]

theorem lookup_isSome_of_mem_keys {l : List (String × β)} {k : String} (h : k ∈ l.map Prod.fst) :
    ∃ b, l.lookup k = some b := by
  cases hl : l.lookup k with
  | none => exact absurd h (lookup_eq_none_iff'.mp hl)
  | some b => exact ⟨b, rfl⟩

end Generic

end AnonModel.Prover

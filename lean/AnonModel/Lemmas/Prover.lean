import AnonModel.Model.Prover
import AnonModel.Lemmas.Interval
/-!
# Helper lemmas about the prover models (`Model/Prover.lean`) — used by `Props/C04.lean`, `Props/C07.lean`

1. generic facts about `List.mapM` in `Option`, association lists with `Nodup` keys, `noDup`, `dedup`;
2. `Names.commonView` is idempotent (ASCII lower-casing, spaces removed);
3. what `createPresentation` outputs, in closed form (`LegacyChar`).
-/
namespace AnonModel.Prover
open AnonModel.Verifier AnonModel.IdealCL

/-! ## 1. generic -/
section Generic
variable {α β γ : Type}

theorem mapM_some_map {f : α → Option β} : ∀ {l : List α} {r : List β},
    l.mapM f = some r → l.map f = r.map some := by
  intro l
  induction l with
  | nil => intro r h; simp at h; subst h; rfl
  | cons a l ih =>
    intro r h
    rw [List.mapM_cons] at h
    cases hfa : f a with
    | none => simp [hfa] at h
    | some b =>
      cases hl : l.mapM f with
      | none => simp [hfa, hl] at h
      | some bs =>
        simp [hfa, hl] at h
        subst h
        simp [hfa, ih hl]

theorem mapM_some_length {f : α → Option β} {l : List α} {r : List β} (h : l.mapM f = some r) :
    r.length = l.length := by
  have := congrArg List.length (mapM_some_map h)
  simpa using this.symm

/-- index-wise: the `i`-th output is the image of the `i`-th input -/
theorem mapM_some_getElem? {f : α → Option β} {l : List α} {r : List β} (h : l.mapM f = some r)
    (i : Nat) : (l[i]?).map f = (r[i]?).map some := by
  have := congrArg (·[i]?) (mapM_some_map h)
  simpa using this

theorem mapM_some_of_getElem? {f : α → Option β} {l : List α} {r : List β} (h : l.mapM f = some r)
    {i : Nat} {a : α} (ha : l[i]? = some a) : ∃ b, r[i]? = some b ∧ f a = some b := by
  have := mapM_some_getElem? h i
  rw [ha] at this
  cases hr : r[i]? with
  | none => simp [hr] at this
  | some b => exact ⟨b, rfl, by simpa [hr] using this⟩

theorem mapM_some_getElem?_inv {f : α → Option β} {l : List α} {r : List β} (h : l.mapM f = some r)
    {i : Nat} {b : β} (hb : r[i]? = some b) : ∃ a, l[i]? = some a ∧ f a = some b := by
  have := mapM_some_getElem? h i
  rw [hb] at this
  cases hl : l[i]? with
  | none => simp [hl] at this
  | some a => exact ⟨a, rfl, by simpa [hl] using this⟩

theorem mapM_some_mem {f : α → Option β} {l : List α} {r : List β} (h : l.mapM f = some r)
    {a : α} (ha : a ∈ l) : ∃ b ∈ r, f a = some b := by
  have : f a ∈ l.map f := List.mem_map_of_mem ha
  rw [mapM_some_map h] at this
  obtain ⟨b, hb, e⟩ := List.mem_map.mp this
  exact ⟨b, hb, e.symm⟩

theorem mapM_some_mem_inv {f : α → Option β} {l : List α} {r : List β} (h : l.mapM f = some r)
    {b : β} (hb : b ∈ r) : ∃ a ∈ l, f a = some b := by
  have : some b ∈ r.map some := List.mem_map_of_mem hb
  rw [← mapM_some_map h] at this
  obtain ⟨a, ha, e⟩ := List.mem_map.mp this
  exact ⟨a, ha, e⟩

/-- a flat map over the outputs, computed over the inputs -/
theorem mapM_some_flatMap {f : α → Option β} {g : β → List γ} {h : α → List γ} :
    ∀ {l : List α} {r : List β}, l.mapM f = some r →
    (∀ a ∈ l, ∀ b, f a = some b → g b = h a) → r.flatMap g = l.flatMap h := by
  intro l
  induction l with
  | nil => intro r hm _; simp at hm; subst hm; rfl
  | cons a l ih =>
    intro r hm hg
    rw [List.mapM_cons] at hm
    cases hfa : f a with
    | none => simp [hfa] at hm
    | some b =>
      cases hl : l.mapM f with
      | none => simp [hfa, hl] at hm
      | some bs =>
        simp [hfa, hl] at hm
        subst hm
        rw [List.flatMap_cons, List.flatMap_cons, hg a (List.mem_cons_self) b hfa,
          ih hl (fun a' ha' => hg a' (List.mem_cons_of_mem _ ha'))]

theorem mapM_some_map' {f : α → Option β} {g : β → γ} {h : α → γ} {l : List α} {r : List β}
    (hm : l.mapM f = some r) (hg : ∀ a ∈ l, ∀ b, f a = some b → g b = h a) : r.map g = l.map h := by
  have := mapM_some_flatMap (g := fun b => [g b]) (h := fun a => [h a]) hm
    (fun a ha b hb => by rw [hg a ha b hb])
  rw [List.map_eq_flatMap, List.map_eq_flatMap]; exact this

theorem flatMap_sublist {f g : α → List β} : ∀ {l : List α},
    (∀ a ∈ l, (f a).Sublist (g a)) → (l.flatMap f).Sublist (l.flatMap g) := by
  intro l
  induction l with
  | nil => intro _; exact List.Sublist.refl _
  | cons a l ih =>
    intro h
    rw [List.flatMap_cons, List.flatMap_cons]
    exact List.Sublist.append (h a List.mem_cons_self) (ih (fun a' ha' => h a' (List.mem_cons_of_mem _ ha')))

theorem noDup_iff (l : List String) : noDup l = true ↔ l.Nodup := by
  induction l with
  | nil => simp [noDup]
  | cons a l ih => simp [noDup, ih, List.nodup_cons]

theorem mem_dedup [BEq α] [LawfulBEq α] {x : α} : ∀ {l : List α}, x ∈ dedup l ↔ x ∈ l := by
  intro l
  induction l with
  | nil => simp [dedup]
  | cons a l ih =>
    simp only [dedup, List.mem_cons, List.mem_filter, ih]
    constructor
    · rintro (h | ⟨h, _⟩)
      · exact Or.inl h
      · exact Or.inr h
    · intro h
      by_cases hx : x = a
      · exact Or.inl hx
      · rcases h with h | h
        · exact Or.inl h
        · exact Or.inr ⟨h, by simpa using hx⟩

/-- the value under a key of an association list with `Nodup` keys is unique -/
theorem assoc_unique {l : List (String × β)} (hn : (l.map Prod.fst).Nodup) {k : String} {a b : β}
    (ha : (k, a) ∈ l) (hb : (k, b) ∈ l) : a = b := by
  induction l with
  | nil => cases ha
  | cons x l ih =>
    rw [List.map_cons, List.nodup_cons] at hn
    rcases List.mem_cons.mp ha with ha' | ha' <;> rcases List.mem_cons.mp hb with hb' | hb'
    · rw [← ha'] at hb'; exact (Prod.mk.inj hb').2.symm
    · exact absurd (List.mem_map_of_mem (f := Prod.fst) hb') (by rw [← ha'] at hn; exact hn.1)
    · exact absurd (List.mem_map_of_mem (f := Prod.fst) ha') (by rw [← hb'] at hn; exact hn.1)
    · exact ih hn.2 ha' hb'

theorem lookup_of_mem {l : List (String × β)} (hn : (l.map Prod.fst).Nodup) {k : String} {b : β}
    (h : (k, b) ∈ l) : l.lookup k = some b := by
  induction l with
  | nil => cases h
  | cons x l ih =>
    rw [List.map_cons, List.nodup_cons] at hn
    obtain ⟨k', v'⟩ := x
    rcases List.mem_cons.mp h with h' | h'
    · cases h'; simp [List.lookup]
    · have : k ≠ k' := fun e => hn.1 (by
        show k' ∈ _
        rw [← e]; exact List.mem_map_of_mem (f := Prod.fst) h')
      simp only [List.lookup]
      rw [show (k == k') = false from by simpa using this]
      exact ih hn.2 h'

theorem mem_of_lookup {l : List (String × β)} {k : String} {b : β} (h : l.lookup k = some b) :
    (k, b) ∈ l := by
  induction l with
  | nil => simp [List.lookup] at h
  | cons x l ih =>
    obtain ⟨k', v'⟩ := x
    simp only [List.lookup] at h
    by_cases e : k = k'
    · subst e; simp at h; subst h; exact List.mem_cons_self
    · rw [show (k == k') = false from by simpa using e] at h
      exact List.mem_cons_of_mem _ (ih h)

theorem lookup_eq_none_iff' {l : List (String × β)} {k : String} :
    l.lookup k = none ↔ k ∉ l.map Prod.fst := by
  induction l with
  | nil => simp [List.lookup]
  | cons x l ih =>
    obtain ⟨k', v'⟩ := x
    simp only [List.lookup, List.map_cons, List.mem_cons]
    by_cases e : k = k'
    · subst e; simp
    · rw [show (k == k') = false from by simpa using e]
      simp [ih, e]

theorem lookup_isSome_of_mem_keys {l : List (String × β)} {k : String} (h : k ∈ l.map Prod.fst) :
    ∃ b, l.lookup k = some b := by
  cases hl : l.lookup k with
  | none => exact absurd h (lookup_eq_none_iff'.mp hl)
  | some b => exact ⟨b, rfl⟩

end Generic


/-! ## 2. `Names.commonView` is idempotent -/
section NamesLemmas
open AnonModel.Names

theorem toNat_toLower (c : Char) :
    c.toLower.toNat = if 65 ≤ c.toNat ∧ c.toNat ≤ 90 then c.toNat + 32 else c.toNat := by
  have hv : c.toNat < 4294967296 := c.val.toNat_lt
  unfold Char.toLower
  by_cases h : c.val ≥ 'A'.val ∧ c.val ≤ 'Z'.val
  · have h' : 65 ≤ c.toNat ∧ c.toNat ≤ 90 := by
      obtain ⟨a, b⟩ := h
      exact ⟨by simpa using UInt32.le_iff_toNat_le.mp a, by simpa using UInt32.le_iff_toNat_le.mp b⟩
    rw [dif_pos h, if_pos h']
    show (c.val + ('a'.val - 'A'.val)).toNat = _
    rw [UInt32.toNat_add]
    show (c.toNat + 32) % 4294967296 = _
    omega
  · have h' : ¬ (65 ≤ c.toNat ∧ c.toNat ≤ 90) := by
      intro ⟨a, b⟩
      apply h
      exact ⟨UInt32.le_iff_toNat_le.mpr (by simpa using a), UInt32.le_iff_toNat_le.mpr (by simpa using b)⟩
    rw [dif_neg h, if_neg h']

theorem char_eq_of_toNat {c d : Char} (h : c.toNat = d.toNat) : c = d :=
  Char.ext (UInt32.toNat_inj.mp h)

theorem toLower_idem (c : Char) : c.toLower.toLower = c.toLower := by
  apply char_eq_of_toNat
  rw [toNat_toLower c.toLower, toNat_toLower c]
  split <;> (try split) <;> omega

theorem toLower_ne_space (c : Char) (h : c ≠ ' ') : c.toLower ≠ ' ' := by
  intro h2
  have h3 := congrArg Char.toNat h2
  rw [toNat_toLower] at h3
  have h4 : c.toNat ≠ 32 := fun h5 => h (char_eq_of_toNat h5)
  have : (' ' : Char).toNat = 32 := rfl
  split at h3 <;> omega

/-- normalising a normalised name changes nothing -/
theorem commonView_idem (s : String) : commonView (commonView s) = commonView s := by
  unfold commonView
  congr 1
  rw [String.toList_ofList]
  have : ∀ l : List Char, ((l.filter (· ≠ ' ')).map Char.toLower).filter (· ≠ ' ')
      = (l.filter (· ≠ ' ')).map Char.toLower := by
    intro l
    apply List.filter_eq_self.mpr
    intro a ha
    obtain ⟨b, hb, rfl⟩ := List.mem_map.mp ha
    have := (List.mem_filter.mp hb).2
    simp at this
    simpa using toLower_ne_space b this
  rw [this, List.map_map]
  apply List.map_congr_left
  intro a _
  exact toLower_idem a

/-- `lookupNorm` finds an entry whose key has the same normal form -/
theorem lookupNorm_some {β : Type} {kvs : List (String × β)} {name : String} {kv : String × β}
    (h : lookupNorm kvs name = some kv) : kv ∈ kvs ∧ commonView kv.1 = commonView name := by
  unfold lookupNorm at h
  exact ⟨List.mem_of_find?_eq_some h, by simpa using List.find?_some h⟩

/-- in a list whose keys are normal forms, `lookupNorm` is `lookup` of the normal form -/
theorem lookupNorm_of_normal {β : Type} {kvs : List (String × β)} (name : String)
    (hk : ∀ kv ∈ kvs, commonView kv.1 = kv.1) :
    lookupNorm kvs name = (kvs.lookup (commonView name)).map (fun v => (commonView name, v)) := by
  induction kvs with
  | nil => rfl
  | cons x l ih =>
    obtain ⟨k, v⟩ := x
    have hkk : commonView k = k := hk (k, v) List.mem_cons_self
    have ih' := ih (fun kv h => hk kv (List.mem_cons_of_mem _ h))
    unfold lookupNorm at ih' ⊢
    simp only [List.find?, List.lookup, hkk]
    by_cases e : k = commonView name
    · subst e; simp
    · have e1 : (k == commonView name) = false := by simpa using e
      have e2 : (commonView name == k) = false := by simpa using fun h : commonView name = k => e h.symm
      rw [e1, e2]; exact ih'

end NamesLemmas


/-! ## 3. what `createPresentation` outputs -/

/-- the selection entries that serve at least one referent: entry `i` of this list gets sub-proof index `i` -/
def usedOf (sel : List Selected) : List Selected := sel.filter (fun s => !s.isEmpty)

/-- the identifier `create_presentation` emits for a selection entry -/
def identOf (s : Selected) : Identifier :=
  { schemaId := s.cred.schemaId, credDefId := s.cred.credDefId, revRegId := s.cred.revRegId,
    timestamp := s.timestamp }

/-- the non-revocation part `add_sub_proof` builds for a selection entry: the revocation state passed
along, iff a non-revocation interval applies (local on a revealed-attribute or predicate referent
served by the entry, else request-wide) and the credential has a registry id -/
def nrpOf (r : Request) (s : Selected) : Option SymNrp :=
  match requestedAttrs r ((s.attrs.filter (·.2)).map Prod.fst), requestedPreds r s.preds with
  | some (_, aIv), some (_, pIv) =>
    match Interval.proverInterval aIv pIv r.nonRevoked s.cred.revRegId none with
    | some _ => s.revState
    | none => none
  | _, _ => none

/-- contribution of one `(referent, revealed)` to `requested_proof.revealed_attrs` -/
def revOf (r : Request) (c : HeldCred) (i : Nat) (rr : String × Bool) : List (String × RevealedInfo) :=
  (rpEntry r c i rr).elim [] (·.revealed)
/-- … to `revealed_attr_groups` -/
def grpOf (r : Request) (c : HeldCred) (i : Nat) (rr : String × Bool) : List (String × GroupInfo) :=
  (rpEntry r c i rr).elim [] (·.groups)
/-- … to `unrevealed_attrs` -/
def unrOf (r : Request) (c : HeldCred) (i : Nat) (rr : String × Bool) : List (String × Nat) :=
  (rpEntry r c i rr).elim [] (·.unrevealed)

theorem mem_revOf {r : Request} {c : HeldCred} {i : Nat} {rr : String × Bool} {k : String}
    {info : RevealedInfo} (h : (k, info) ∈ revOf r c i rr) :
    rr = (k, true) ∧ ∃ ai name re, r.attrs.lookup k = some ai ∧ ai.name = some name ∧
      credValue c name = some re ∧ info = { idx := i, raw := re.1, encoded := re.2 } := by
  obtain ⟨ref, b⟩ := rr
  unfold revOf rpEntry at h
  cases b with
  | false => simp [RpPart.empty] at h
  | true =>
    simp only [if_true] at h
    cases hl : r.attrs.lookup ref with
    | none => simp [hl] at h
    | some ai =>
      simp only [hl] at h
      cases hn : ai.name with
      | some name =>
        simp only [hn] at h
        cases hc : credValue c name with
        | none => simp [hc] at h
        | some re =>
          simp [hc, RpPart.empty] at h
          obtain ⟨rfl, rfl⟩ := h
          exact ⟨rfl, ai, name, re, hl, hn, hc, rfl⟩
      | none =>
        simp only [hn] at h
        cases hns : ai.names with
        | none => simp [hns, RpPart.empty] at h
        | some names =>
          simp only [hns] at h
          cases hm : names.eraseDups.mapM (fun n => (credValue c n).map (fun re => (n, re))) with
          | none => simp [hm] at h
          | some vals => simp [hm, RpPart.empty] at h

theorem mem_grpOf {r : Request} {c : HeldCred} {i : Nat} {rr : String × Bool} {k : String}
    {g : GroupInfo} (h : (k, g) ∈ grpOf r c i rr) :
    rr = (k, true) ∧ ∃ ai names vals, r.attrs.lookup k = some ai ∧ ai.name = none ∧
      ai.names = some names ∧
      names.eraseDups.mapM (fun n => (credValue c n).map (fun re => (n, re))) = some vals ∧
      g = { idx := i, values := vals } := by
  obtain ⟨ref, b⟩ := rr
  unfold grpOf rpEntry at h
  cases b with
  | false => simp [RpPart.empty] at h
  | true =>
    simp only [if_true] at h
    cases hl : r.attrs.lookup ref with
    | none => simp [hl] at h
    | some ai =>
      simp only [hl] at h
      cases hn : ai.name with
      | some name =>
        simp only [hn] at h
        cases hc : credValue c name with
        | none => simp [hc] at h
        | some re => simp [hc, RpPart.empty] at h
      | none =>
        simp only [hn] at h
        cases hns : ai.names with
        | none => simp [hns, RpPart.empty] at h
        | some names =>
          simp only [hns] at h
          cases hm : names.eraseDups.mapM (fun n => (credValue c n).map (fun re => (n, re))) with
          | none => simp [hm] at h
          | some vals =>
            simp [hm, RpPart.empty] at h
            obtain ⟨rfl, rfl⟩ := h
            exact ⟨rfl, ai, names, vals, hl, hn, hns, hm, rfl⟩

theorem mem_unrOf {r : Request} {c : HeldCred} {i : Nat} {rr : String × Bool} {k : String}
    {j : Nat} (h : (k, j) ∈ unrOf r c i rr) : rr = (k, false) ∧ j = i := by
  obtain ⟨ref, b⟩ := rr
  unfold unrOf rpEntry at h
  cases b with
  | false =>
    simp [RpPart.empty] at h
    obtain ⟨rfl, rfl⟩ := h
    exact ⟨rfl, rfl⟩
  | true =>
    simp only [if_true] at h
    cases hl : r.attrs.lookup ref with
    | none => simp [hl] at h
    | some ai =>
      simp only [hl] at h
      cases hn : ai.name with
      | some name =>
        simp only [hn] at h
        cases hc : credValue c name with
        | none => simp [hc] at h
        | some re => simp [hc, RpPart.empty] at h
      | none =>
        simp only [hn] at h
        cases hns : ai.names with
        | none => simp [hns, RpPart.empty] at h
        | some names =>
          simp only [hns] at h
          cases hm : names.eraseDups.mapM (fun n => (credValue c n).map (fun re => (n, re))) with
          | none => simp [hm] at h
          | some vals => simp [hm, RpPart.empty] at h

theorem unrOf_false (r : Request) (c : HeldCred) (i : Nat) (k : String) :
    unrOf r c i (k, false) = [(k, i)] := by
  simp [unrOf, rpEntry, RpPart.empty]

/-- closed form of one `update_requested_proof` -/
theorem updateRequestedProof_some {r : Request} {s : Selected} {i : Nat} {pt : RpPart}
    (h : updateRequestedProof r s i = some pt) :
    (∀ rr ∈ s.attrs, ∃ e, rpEntry r s.cred i rr = some e) ∧
    pt.revealed = s.attrs.flatMap (revOf r s.cred i) ∧
    pt.groups = s.attrs.flatMap (grpOf r s.cred i) ∧
    pt.unrevealed = s.attrs.flatMap (unrOf r s.cred i) ∧
    pt.predicates = s.preds.map (fun ref => (ref, i)) := by
  unfold updateRequestedProof at h
  cases hm : s.attrs.mapM (rpEntry r s.cred i) with
  | none => simp [hm] at h
  | some parts =>
    simp [hm] at h
    subst h
    refine ⟨fun rr hrr => ?_, ?_, ?_, ?_, rfl⟩
    · obtain ⟨e, _, he⟩ := mapM_some_mem hm hrr
      exact ⟨e, he⟩
    · exact mapM_some_flatMap hm (fun a _ b hb => by simp [revOf, hb])
    · exact mapM_some_flatMap hm (fun a _ b hb => by simp [grpOf, hb])
    · exact mapM_some_flatMap hm (fun a _ b hb => by simp [unrOf, hb])

/-- closed form of the presentation `create_presentation` returns -/
structure LegacyChar (pc : PCtx) (r : Request) (sel : List Selected) (sa : List (String × String))
    (holder session uid0 : Nat) (p : Presentation) : Prop where
  valid : selectionValid sel = true
  entryOk : ∀ si ∈ (usedOf sel).zipIdx, ∀ rr ∈ si.1.attrs, ∃ e, rpEntry r si.1.cred si.2 rr = some e
  revealed : p.revealed = (usedOf sel).zipIdx.flatMap (fun si => si.1.attrs.flatMap (revOf r si.1.cred si.2))
  groups : p.groups = (usedOf sel).zipIdx.flatMap (fun si => si.1.attrs.flatMap (grpOf r si.1.cred si.2))
  unrevealed : p.unrevealed = (usedOf sel).zipIdx.flatMap (fun si => si.1.attrs.flatMap (unrOf r si.1.cred si.2))
  predicates : p.predicates = (usedOf sel).zipIdx.flatMap (fun si => si.1.preds.map (fun ref => (ref, si.2)))
  selfAttested : p.selfAttested = sa
  identifiers : p.identifiers = (usedOf sel).map identOf
  subs : (usedOf sel).zipIdx.mapM (fun si => addSubProof pc r si.1 holder session (uid0 + si.2)) = some p.subs
  agg : p.agg = { nonce := r.nonce, bound := p.subs.map (fun s => (s.uid, s.nrp.isSome)), intact := true }

theorem createPresentation_char {pc : PCtx} {r : Request} {sel : List Selected}
    {sa : List (String × String)} {holder session uid0 : Nat} {p : Presentation}
    (h : createPresentation pc r sel sa holder session uid0 = some p) :
    LegacyChar pc r sel sa holder session uid0 p := by
  unfold createPresentation at h
  simp only [] at h
  split at h
  · cases h
  · split at h
    · cases h
    · rename_i hv
      have hv' : selectionValid sel = true := by simpa using hv
      split at h
      · rename_i parts subs hp hs
        have hparts := fun si hsi => mapM_some_mem hp (a := si) hsi
        injection h with h
        subst h
        refine ⟨hv', ?_, ?_, ?_, ?_, ?_, rfl, rfl, hs, rfl⟩
        · intro si hsi rr hrr
          obtain ⟨pt, _, hpt⟩ := hparts si hsi
          exact (updateRequestedProof_some hpt).1 rr hrr
        · exact mapM_some_flatMap hp (fun si _ pt hpt => (updateRequestedProof_some hpt).2.1)
        · exact mapM_some_flatMap hp (fun si _ pt hpt => (updateRequestedProof_some hpt).2.2.1)
        · exact mapM_some_flatMap hp (fun si _ pt hpt => (updateRequestedProof_some hpt).2.2.2.1)
        · exact mapM_some_flatMap hp (fun si _ pt hpt => (updateRequestedProof_some hpt).2.2.2.2)
      · cases h


/-! ### sub-proofs -/

/-- the predicate a predicate referent asks for, as handed to the CL sub-proof request -/
def predOfInfo (q : PredInfo) : Pred := { attr := q.name, ty := q.ty, value := q.value }

/-- `name` normalised, as `buildSub` does -/
def normPred (p : Pred) : Pred := { p with attr := Names.commonView p.attr }

/-- everything `buildSub` checks, and what it returns -/
theorem buildSub_some {schemaAttrs : List String} {sym : SymCred} {names : List String}
    {preds : List Pred} {nrp : Option SymNrp} {holder session uid : Nat} {sub : SymSub}
    (h : buildSub schemaAttrs sym names preds nrp holder session uid = some sub) :
    (∀ a ∈ schemaAttrs, a ∈ sym.attrs.map Prod.fst) ∧
    (∀ a ∈ sym.attrs.map Prod.fst, a ∈ schemaAttrs) ∧
    (∀ n ∈ names, Names.commonView n ∈ schemaAttrs) ∧
    (∀ p ∈ preds, Names.commonView p.attr ∈ schemaAttrs) ∧
    (∀ p ∈ preds, ∀ n ∈ names, Names.commonView p.attr ≠ Names.commonView n) ∧
    (∀ p ∈ preds, predHolds sym.attrs (normPred p) = true) ∧
    (dedup (names.map Names.commonView)).mapM (fun n => (sym.attrs.lookup n).map (fun v => (n, v)))
      = some sub.revealed ∧
    sub.preds = dedup (preds.map normPred) ∧ sub.cred = sym ∧ sub.nrp = nrp ∧
    sub.ms = (holder, session) ∧ sub.intact = true ∧ sub.uid = uid := by
  unfold buildSub at h
  simp only [] at h
  split at h
  · cases h
  · rename_i h1
    split at h
    · cases h
    · rename_i h2
      split at h
      · cases h
      · rename_i h3
        split at h
        · cases h
        · rename_i h4
          split at h
          · cases h
          · rename_i h5
            split at h
            · cases h
            · rename_i revealed hm
              injection h with h
              subst h
              simp only [Bool.not_eq_true', Bool.not_eq_false, Bool.and_eq_true, List.all_eq_true,
                List.contains_iff_mem] at h1 h2 h3 h5
              simp only [Bool.not_eq_true, List.any_eq_false, List.contains_iff_mem] at h4
              refine ⟨h1.1, h1.2, ?_, ?_, ?_, ?_, hm, rfl, rfl, rfl, rfl, rfl, rfl⟩
              · intro n hn
                exact h2 _ (mem_dedup.mpr (List.mem_map_of_mem hn))
              · intro p hp
                exact h3 (normPred p) (mem_dedup.mpr (List.mem_map_of_mem (f := normPred) hp))
              · intro p hp n hn e
                have := h4 (normPred p) (mem_dedup.mpr (List.mem_map_of_mem (f := normPred) hp))
                apply this
                show Names.commonView p.attr ∈ _
                rw [e]
                exact mem_dedup.mpr (List.mem_map_of_mem hn)
              · intro p hp
                exact h5 (normPred p) (mem_dedup.mpr (List.mem_map_of_mem (f := normPred) hp))

theorem requestedAttrs_some {r : Request} {refs : List String} {names : List String}
    {iv : Option Interval.Ivl} (h : requestedAttrs r refs = some (names, iv)) :
    ∃ infos, refs.mapM (fun ref => r.attrs.lookup ref) = some infos ∧
      names = infos.flatMap (·.allNames) ∧ iv = Interval.foldLocals (infos.map (·.nonRevoked)) := by
  unfold requestedAttrs at h
  cases hm : refs.mapM (fun ref => r.attrs.lookup ref) with
  | none => simp [hm] at h
  | some infos =>
    simp [hm] at h
    exact ⟨infos, rfl, h.1.symm, h.2.symm⟩

theorem requestedPreds_some {r : Request} {refs : List String} {preds : List Pred}
    {iv : Option Interval.Ivl} (h : requestedPreds r refs = some (preds, iv)) :
    ∃ infos, refs.mapM (fun ref => r.preds.lookup ref) = some infos ∧
      preds = infos.map predOfInfo ∧ iv = Interval.foldLocals (infos.map (·.nonRevoked)) := by
  unfold requestedPreds at h
  cases hm : refs.mapM (fun ref => r.preds.lookup ref) with
  | none => simp [hm] at h
  | some infos =>
    simp [hm] at h
    exact ⟨infos, rfl, h.1.symm, h.2.symm⟩

/-- everything `addSubProof` checks, and the `buildSub` call it makes -/
theorem addSubProof_some {pc : PCtx} {r : Request} {s : Selected} {holder session uid : Nat}
    {sub : SymSub} (h : addSubProof pc r s holder session uid = some sub) :
    ∃ schemaAttrs ainfos pinfos,
      pc.schemas.lookup s.cred.schemaId = some schemaAttrs ∧
      s.cred.credDefId ∈ pc.credDefs ∧
      ((s.attrs.filter (·.2)).map Prod.fst).mapM (fun ref => r.attrs.lookup ref) = some ainfos ∧
      s.preds.mapM (fun ref => r.preds.lookup ref) = some pinfos ∧
      buildSub (schemaAttrs.map Names.commonView) s.cred.sym (ainfos.flatMap (·.allNames))
        (pinfos.map predOfInfo) (nrpOf r s) holder session uid = some sub := by
  unfold addSubProof at h
  split at h
  · cases h
  · rename_i schemaAttrs hsc
    split at h
    · cases h
    · rename_i hcd
      split at h
      · rename_i names aIv preds pIv ha hp
        obtain ⟨ainfos, hma, rfl, rfl⟩ := requestedAttrs_some ha
        obtain ⟨pinfos, hmp, rfl, rfl⟩ := requestedPreds_some hp
        refine ⟨schemaAttrs, ainfos, pinfos, hsc, by simpa using hcd, hma, hmp, ?_⟩
        have : nrpOf r s = (match Interval.proverInterval
              (Interval.foldLocals (ainfos.map (·.nonRevoked)))
              (Interval.foldLocals (pinfos.map (·.nonRevoked))) r.nonRevoked s.cred.revRegId none with
            | some _ => s.revState
            | none => none) := by
          unfold nrpOf
          rw [ha, hp]
        rw [this]
        exact h
      · cases h


/-! ### referents are served once -/

theorem sublist_flatMap {α β : Type} {f : α → List β} {l₁ l₂ : List α} (h : l₁.Sublist l₂) :
    (l₁.flatMap f).Sublist (l₂.flatMap f) := by
  induction h with
  | slnil => exact List.Sublist.refl _
  | cons a _ ih =>
    rw [List.flatMap_cons]
    exact ih.trans (List.sublist_append_right _ _)
  | cons_cons a _ ih =>
    rw [List.flatMap_cons, List.flatMap_cons]
    exact List.Sublist.append (List.Sublist.refl _) ih

/-- if the keys produced by the members of a list are all different, a key determines the member -/
theorem keyed_unique {α β : Type} {f : α → List β} : ∀ {U : List α}, (U.flatMap f).Nodup →
    ∀ {a b : α}, a ∈ U → b ∈ U → ∀ {k : β}, k ∈ f a → k ∈ f b → a = b := by
  intro U
  induction U with
  | nil => intro _ a b ha; cases ha
  | cons x U ih =>
    intro hn a b ha hb k hka hkb
    rw [List.flatMap_cons, List.nodup_append] at hn
    obtain ⟨_, hU, hdis⟩ := hn
    rcases List.mem_cons.mp ha with ha' | ha' <;> rcases List.mem_cons.mp hb with hb' | hb'
    · rw [ha', hb']
    · subst ha'
      exact absurd rfl (hdis k hka k (List.mem_flatMap.mpr ⟨b, hb', hkb⟩))
    · subst hb'
      exact absurd rfl (hdis k hkb k (List.mem_flatMap.mpr ⟨a, ha', hka⟩))
    · exact ih hU ha' hb' hka hkb

theorem zipIdx_flatMap_fst {α β : Type} (l : List α) (g : α → List β) :
    l.zipIdx.flatMap (fun si => g si.1) = l.flatMap g := by
  rw [← List.flatMap_map Prod.fst g, List.zipIdx_map_fst]

theorem mem_zipIdx_iff {α : Type} {l : List α} {a : α} {i : Nat} :
    (a, i) ∈ l.zipIdx ↔ l[i]? = some a := List.mem_zipIdx_iff_getElem?

/-- attribute referents of the used entries are pairwise different (`PresentCredentials::validate`) -/
theorem used_attr_keys_nodup {sel : List Selected} (hv : selectionValid sel = true) :
    ((usedOf sel).zipIdx.flatMap (fun si => si.1.attrs.map Prod.fst)).Nodup := by
  rw [zipIdx_flatMap_fst (usedOf sel) (fun s => s.attrs.map Prod.fst)]
  unfold selectionValid at hv
  simp only [Bool.and_eq_true] at hv
  exact ((noDup_iff _).mp hv.1.1).sublist (sublist_flatMap List.filter_sublist)

theorem used_pred_keys_nodup {sel : List Selected} (hv : selectionValid sel = true) :
    ((usedOf sel).zipIdx.flatMap (fun si => si.1.preds)).Nodup := by
  rw [zipIdx_flatMap_fst (usedOf sel) (fun s => s.preds)]
  unfold selectionValid at hv
  simp only [Bool.and_eq_true] at hv
  exact ((noDup_iff _).mp hv.1.2).sublist (sublist_flatMap List.filter_sublist)

theorem used_state_iff {sel : List Selected} (hv : selectionValid sel = true) {s : Selected}
    (hs : s ∈ usedOf sel) : s.timestamp.isSome = s.revState.isSome := by
  unfold selectionValid at hv
  simp only [Bool.and_eq_true, List.all_eq_true] at hv
  simpa using hv.2 s (List.mem_filter.mp hs).1

/-- an attribute referent is served by one entry, with one flag -/
theorem sel_entry_unique {sel : List Selected} (hv : selectionValid sel = true)
    {si si' : Selected × Nat} (h1 : si ∈ (usedOf sel).zipIdx) (h2 : si' ∈ (usedOf sel).zipIdx)
    {k : String} {b b' : Bool} (hb : (k, b) ∈ si.1.attrs) (hb' : (k, b') ∈ si'.1.attrs) :
    si = si' ∧ b = b' := by
  have hn := used_attr_keys_nodup hv
  have e : si = si' := keyed_unique hn h1 h2 (k := k)
    (List.mem_map_of_mem (f := Prod.fst) hb) (List.mem_map_of_mem (f := Prod.fst) hb')
  subst e
  refine ⟨rfl, ?_⟩
  have hn' : (si.1.attrs.map Prod.fst).Nodup :=
    (List.pairwise_flatMap.mp hn).1 si h1
  exact assoc_unique hn' hb hb'

/-- a predicate referent is served by one entry -/
theorem sel_pred_unique {sel : List Selected} (hv : selectionValid sel = true)
    {si si' : Selected × Nat} (h1 : si ∈ (usedOf sel).zipIdx) (h2 : si' ∈ (usedOf sel).zipIdx)
    {k : String} (hb : k ∈ si.1.preds) (hb' : k ∈ si'.1.preds) : si = si' :=
  keyed_unique (used_pred_keys_nodup hv) h1 h2 hb hb'


/-! ## 4. what `createPresentationW3C` outputs -/

/-- the W3C selection entries that serve at least one referent -/
def usedOfW3C (sel : List SelectedW3C) : List SelectedW3C := sel.filter (fun s => !s.isEmpty)

/-- the derived credential `create_presentation` emits for entry `s` with sub-proof `sub` and subject `subj` -/
def credOfW3C (s : SelectedW3C) (sub : SymSub) (subj : List (String × VerifierW3C.SubjVal)) :
    VerifierW3C.Cred :=
  { issuer := s.cred.issuer, subject := subj, proofOk := true, verificationMethod := s.cred.credDefId,
    schemaId := s.cred.schemaId, credDefId := s.cred.credDefId, revRegId := s.cred.revRegId,
    timestamp := s.timestamp, sub := sub }

theorem createPresentationW3C_some {pc : PCtx} {r : Request} {sel : List SelectedW3C}
    {holder session uid0 : Nat} {p : VerifierW3C.Presentation}
    (h : createPresentationW3C pc r sel holder session uid0 = some p) :
    ∃ subs subjects, selectionValid (sel.map w3cAsSelected) = true ∧ usedOfW3C sel ≠ [] ∧
      (usedOfW3C sel).zipIdx.mapM (fun si => addSubProof pc r (w3cAsSelected si.1) holder session (uid0 + si.2))
        = some subs ∧
      (usedOfW3C sel).mapM (buildCredentialAttributes r) = some subjects ∧
      p = { validateOk := true,
            creds := ((usedOfW3C sel).zip (subs.zip subjects)).map (fun x => credOfW3C x.1 x.2.1 x.2.2),
            presProofOk := true,
            agg := { nonce := r.nonce, bound := subs.map (fun s => (s.uid, s.nrp.isSome)), intact := true } } := by
  unfold createPresentationW3C at h
  simp only [] at h
  split at h
  · cases h
  · rename_i hne
    split at h
    · cases h
    · rename_i hv
      have hv' : selectionValid (sel.map w3cAsSelected) = true := by simpa using hv
      split at h
      · rename_i subs subjects hs hj
        injection h with h
        refine ⟨subs, subjects, hv', ?_, hs, hj, h.symm⟩
        intro e; apply hne; show (usedOfW3C sel).isEmpty = true; rw [e]; rfl
      · cases h

/-- closed form of the presentation the W3C `create_presentation` returns -/
structure W3CChar (pc : PCtx) (r : Request) (sel : List SelectedW3C) (holder session uid0 : Nat)
    (p : VerifierW3C.Presentation) : Prop where
  valid : selectionValid (sel.map w3cAsSelected) = true
  nonempty : usedOfW3C sel ≠ []
  validateOk : p.validateOk = true
  presProofOk : p.presProofOk = true
  length : p.creds.length = (usedOfW3C sel).length
  cred : ∀ i c, p.creds[i]? = some c → ∃ s sub subj, (usedOfW3C sel)[i]? = some s ∧
    addSubProof pc r (w3cAsSelected s) holder session (uid0 + i) = some sub ∧
    buildCredentialAttributes r s = some subj ∧ c = credOfW3C s sub subj
  agg : p.agg = { nonce := r.nonce, bound := p.creds.map (fun c => (c.sub.uid, c.sub.nrp.isSome)),
                  intact := true }

theorem zip3_getElem? {α β γ : Type} {l : List α} {m : List β} {n : List γ} (h1 : m.length = l.length)
    (h2 : n.length = l.length) (i : Nat) :
    (l.zip (m.zip n))[i]? = (l[i]?).bind (fun a => (m[i]?).bind (fun b => (n[i]?).map (fun c => (a, b, c)))) := by
  by_cases hi : i < l.length
  · have hz : i < (l.zip (m.zip n)).length := by simp only [List.length_zip]; omega
    rw [List.getElem?_eq_getElem hz, List.getElem?_eq_getElem hi,
      List.getElem?_eq_getElem (show i < m.length by omega),
      List.getElem?_eq_getElem (show i < n.length by omega)]
    simp
  · have hz : (l.zip (m.zip n)).length ≤ i := by simp only [List.length_zip]; omega
    rw [List.getElem?_eq_none hz, List.getElem?_eq_none (show l.length ≤ i by omega)]
    rfl

theorem createPresentationW3C_char {pc : PCtx} {r : Request} {sel : List SelectedW3C}
    {holder session uid0 : Nat} {p : VerifierW3C.Presentation}
    (h : createPresentationW3C pc r sel holder session uid0 = some p) :
    W3CChar pc r sel holder session uid0 p := by
  obtain ⟨subs, subjects, hv, hne, hs, hj, rfl⟩ := createPresentationW3C_some h
  have hl1 := mapM_some_length hs
  have hl2 := mapM_some_length hj
  rw [List.length_zipIdx] at hl1
  refine ⟨hv, hne, rfl, rfl, ?_, ?_, ?_⟩
  · simp only [List.length_map, List.length_zip, hl1, hl2]
    omega
  · intro i c hc
    simp only [List.getElem?_map, zip3_getElem? hl1 hl2] at hc
    cases hs0 : (usedOfW3C sel)[i]? with
    | none => simp [hs0] at hc
    | some s =>
      cases hsb : subs[i]? with
      | none => simp [hs0, hsb] at hc
      | some sb =>
        cases hsj : subjects[i]? with
        | none => simp [hs0, hsb, hsj] at hc
        | some sj =>
          simp [hs0, hsb, hsj] at hc
          subst hc
          obtain ⟨si, hsi, hsub⟩ := mapM_some_getElem?_inv hs hsb
          obtain ⟨s', hs', hsubj⟩ := mapM_some_getElem?_inv hj hsj
          rw [hs0] at hs'; cases hs'
          rw [List.getElem?_zipIdx, hs0] at hsi
          simp at hsi
          subst hsi
          exact ⟨s, sb, sj, rfl, hsub, hsubj, rfl⟩
  · have hb : subs.map (fun s => (s.uid, s.nrp.isSome)) =
        (((usedOfW3C sel).zip (subs.zip subjects)).map (fun x => credOfW3C x.1 x.2.1 x.2.2)).map
          (fun c => (c.sub.uid, c.sub.nrp.isSome)) := by
      rw [List.map_map]
      apply List.ext_getElem?
      intro i
      simp only [List.getElem?_map, zip3_getElem? hl1 hl2]
      cases hs0 : (usedOfW3C sel)[i]? with
      | none =>
        have : subs[i]? = none := by
          apply List.getElem?_eq_none
          have := List.getElem?_eq_none_iff.mp hs0
          omega
        simp [this]
      | some s =>
        have hi : i < (usedOfW3C sel).length := (List.getElem?_eq_some_iff.mp hs0).1
        rw [List.getElem?_eq_getElem (show i < subs.length by omega),
          List.getElem?_eq_getElem (show i < subjects.length by omega)]
        simp [credOfW3C]
    show ({ nonce := r.nonce, bound := subs.map _, intact := true } : SymAgg) = _
    rw [hb]


/-! ## 5. where disclosed items come from (used by C07) -/
section Disclosure
open AnonModel.Names AnonModel.VerifierW3C

/-- the holder marked as revealed a referent served by entry `s` that names attribute `n` -/
def MarkedRevealed (r : Request) (attrs : List (String × Bool)) (n : String) : Prop :=
  ∃ ref info, (ref, true) ∈ attrs ∧ r.attrs.lookup ref = some info ∧ n ∈ info.allNames


theorem mem_allNames_name {ai : AttrInfo} {n : String} (h : ai.name = some n) : n ∈ ai.allNames := by
  simp [AttrInfo.allNames, h]

theorem mem_allNames_names {ai : AttrInfo} {ns : List String} {n : String} (h : ai.names = some ns)
    (hn : n ∈ ns) : n ∈ ai.allNames := by
  simp [AttrInfo.allNames, h, hn]

/-- the names and values in the equality proof of the sub-proof built for a selection entry: each is
the normal form of a name asked for by a referent marked revealed, with the signed value -/
theorem addSubProof_revealed {pc : PCtx} {r : Request} {s : Selected} {holder session uid : Nat}
    {sub : SymSub} (h : addSubProof pc r s holder session uid = some sub) {n v : String}
    (hm : (n, v) ∈ sub.revealed) :
    ∃ n0, MarkedRevealed r s.attrs n0 ∧ commonView n0 = n ∧ s.cred.sym.attrs.lookup n = some v := by
  obtain ⟨schemaAttrs, ainfos, pinfos, _, _, hma, _, hb⟩ := addSubProof_some h
  obtain ⟨_, _, _, _, _, _, hrev, _⟩ := buildSub_some hb
  obtain ⟨a, ha, hav⟩ := mapM_some_mem_inv hrev hm
  cases hl : s.cred.sym.attrs.lookup a with
  | none => simp [hl] at hav
  | some v' =>
    simp [hl] at hav
    obtain ⟨rfl, rfl⟩ := hav
    obtain ⟨n0, hn0, rfl⟩ := List.mem_map.mp (mem_dedup.mp ha)
    obtain ⟨ai, hai, hn0'⟩ := List.mem_flatMap.mp hn0
    obtain ⟨ref, href, hlk⟩ := mapM_some_mem_inv hma hai
    obtain ⟨rr, hrr, rfl⟩ := List.mem_map.mp href
    have hrr' := List.mem_filter.mp hrr
    have : rr = (rr.1, true) := by
      obtain ⟨a, b⟩ := rr
      simp at hrr'
      simp [hrr'.2]
    exact ⟨n0, ⟨rr.1, ai, this ▸ hrr'.1, hlk, hn0'⟩, rfl, hl⟩

/-- a predicate attribute of a sub-proof is never also revealed by it (the CL crate refuses) -/
theorem addSubProof_pred_not_revealed {pc : PCtx} {r : Request} {s : Selected}
    {holder session uid : Nat} {sub : SymSub} (h : addSubProof pc r s holder session uid = some sub)
    {ref : String} (hp : ref ∈ s.preds) :
    ∃ q, r.preds.lookup ref = some q ∧ ∀ n, commonView n = commonView q.name → ¬ MarkedRevealed r s.attrs n := by
  obtain ⟨schemaAttrs, ainfos, pinfos, _, _, hma, hmp, hb⟩ := addSubProof_some h
  obtain ⟨_, _, _, _, hdis, _⟩ := buildSub_some hb
  obtain ⟨q, hq, hlk⟩ := mapM_some_mem hmp hp
  refine ⟨q, hlk, ?_⟩
  rintro n hn ⟨ref', ai, hmem, hlk', hnn⟩
  have href' : ref' ∈ (s.attrs.filter (·.2)).map Prod.fst :=
    List.mem_map.mpr ⟨(ref', true), List.mem_filter.mpr ⟨hmem, rfl⟩, rfl⟩
  obtain ⟨ai', hai', hlk''⟩ := mapM_some_mem hma href'
  rw [hlk'] at hlk''; cases hlk''
  exact hdis (predOfInfo q) (List.mem_map_of_mem hq) n (List.mem_flatMap.mpr ⟨ai, hai', hnn⟩) hn.symm

theorem credValue_mapM_lookup {c : HeldCred} {names : List String}
    {vals : List (String × (String × String))}
    (h : names.mapM (fun n => (credValue c n).map (fun re => (n, re))) = some vals)
    {n : String} {re : String × String} (hm : (n, re) ∈ vals) : n ∈ names ∧ credValue c n = some re := by
  obtain ⟨a, ha, hav⟩ := mapM_some_mem_inv h hm
  cases hc : credValue c a with
  | none => simp [hc] at hav
  | some re' =>
    simp [hc] at hav
    obtain ⟨rfl, rfl⟩ := hav
    exact ⟨ha, hc⟩

theorem foldlM_invariant {α β : Type} {f : β → α → Option β} (P : β → Prop) :
    ∀ {l : List α} {b b' : β}, l.foldlM f b = some b' → P b →
    (∀ a ∈ l, ∀ x y, P x → f x a = some y → P y) → P b' := by
  intro l
  induction l with
  | nil => intro b b' h hb _; simp at h; subst h; exact hb
  | cons a l ih =>
    intro b b' h hb hstep
    rw [List.foldlM_cons] at h
    cases hfa : f b a with
    | none => simp [hfa] at h
    | some y =>
      simp [hfa] at h
      exact ih h (hstep a List.mem_cons_self b y hb hfa)
        (fun a' ha' => hstep a' (List.mem_cons_of_mem _ ha'))

theorem mem_insertKV {β : Type} {m : List (String × β)} {k : String} {v : β} {kv : String × β}
    (h : kv ∈ insertKV m k v) : kv ∈ m ∨ kv = (k, v) := by
  unfold insertKV at h
  split at h
  · obtain ⟨x, hx, e⟩ := List.mem_map.mp h
    split at e
    · exact Or.inr e.symm
    · exact Or.inl (e ▸ hx)
  · rcases List.mem_append.mp h with h | h
    · exact Or.inl h
    · exact Or.inr (List.mem_singleton.mp h)

theorem mem_addPredicate {subj subj' : List (String × SubjVal)} {a : String}
    (h : addPredicate subj a = some subj') {kv : String × SubjVal} (hm : kv ∈ subj') :
    kv ∈ subj ∨ kv = (a, .bool true) := by
  unfold addPredicate at h
  split at h
  · cases h; exact Or.inl hm
  · cases h
  · cases h
    rcases List.mem_append.mp hm with hm | hm
    · exact Or.inl hm
    · exact Or.inr (List.mem_singleton.mp hm)

/-- where an entry of a derived credential's subject comes from: copied from the held credential
for a name asked for by a referent marked revealed, or the marker `true` put under the held
credential's key of a predicate's attribute -/
def SubjectEntryJustified (r : Request) (s : SelectedW3C) (kv : String × SubjVal) : Prop :=
  (∃ n, MarkedRevealed r s.attrs n ∧ lookupNorm s.cred.subject n = some kv) ∨
  (kv.2 = .bool true ∧ ∃ ref q v, ref ∈ s.preds ∧ r.preds.lookup ref = some q ∧
    lookupNorm s.cred.subject q.name = some (kv.1, v))

theorem attrStep_justified {r : Request} {s : SelectedW3C} {rr : String × Bool} (hrr : rr ∈ s.attrs)
    {subj subj' : List (String × SubjVal)} (h : attrStep r s.cred subj rr = some subj')
    (hj : ∀ kv ∈ subj, SubjectEntryJustified r s kv) : ∀ kv ∈ subj', SubjectEntryJustified r s kv := by
  unfold attrStep at h
  split at h
  · cases h
  · rename_i info hlk
    refine foldlM_invariant (fun sj => ∀ kv ∈ sj, SubjectEntryJustified r s kv) h hj ?_
    intro n hn x y hx hxy
    split at hxy
    · cases hxy
    · rename_i av hav
      injection hxy with hxy
      subst hxy
      split
      · rename_i hb
        intro kv hkv
        rcases mem_insertKV hkv with hkv | hkv
        · exact hx kv hkv
        · subst hkv
          refine Or.inl ⟨n, ⟨rr.1, info, ?_, hlk, hn⟩, hav⟩
          obtain ⟨a, b⟩ := rr
          simp at hb; subst hb; exact hrr
      · exact hx

theorem predStep_justified {r : Request} {s : SelectedW3C} {ref : String} (hp : ref ∈ s.preds)
    {subj subj' : List (String × SubjVal)} (h : predStep r s.cred subj ref = some subj')
    (hj : ∀ kv ∈ subj, SubjectEntryJustified r s kv) : ∀ kv ∈ subj', SubjectEntryJustified r s kv := by
  unfold predStep at h
  split at h
  · cases h
  · rename_i q hlk
    split at h
    · cases h
    · rename_i av hav
      intro kv hkv
      rcases mem_addPredicate h hkv with hkv | hkv
      · exact hj kv hkv
      · subst hkv
        exact Or.inr ⟨rfl, ref, q, av.2, hp, hlk, hav⟩

theorem buildCredentialAttributes_justified {r : Request} {s : SelectedW3C}
    {subj : List (String × SubjVal)} (h : buildCredentialAttributes r s = some subj) :
    ∀ kv ∈ subj, SubjectEntryJustified r s kv := by
  unfold buildCredentialAttributes at h
  split at h
  · cases h
  · rename_i sj hsj
    have h1 : ∀ kv ∈ sj, SubjectEntryJustified r s kv :=
      foldlM_invariant (fun sj => ∀ kv ∈ sj, SubjectEntryJustified r s kv) hsj
        (fun kv hkv => by cases hkv)
        (fun rr hrr x y hx hxy => attrStep_justified hrr hxy hx)
    exact foldlM_invariant (fun sj => ∀ kv ∈ sj, SubjectEntryJustified r s kv) h h1
      (fun ref hp x y hx hxy => predStep_justified hp hxy hx)

/-- a referent marked `false` leaves the subject under construction untouched (its names are only
checked to exist in the credential) -/
theorem attrStep_unrevealed {r : Request} {c : HeldW3C} {ref : String}
    {subj subj' : List (String × SubjVal)} (h : attrStep r c subj (ref, false) = some subj') :
    subj' = subj := by
  unfold attrStep at h
  split at h
  · cases h
  · exact foldlM_invariant (fun sj => sj = subj) h rfl (fun n _ x y hx hxy => by
      split at hxy
      · cases hxy
      · simp at hxy; rw [← hxy, hx])

end Disclosure

/-! ## 6. the outputs do not depend on link secret, session, numbering -/

theorem buildSub_indep (schemaAttrs : List String) (sym : SymCred) (names : List String)
    (preds : List Pred) (nrp : Option SymNrp) (h s u h' s' u' : Nat) :
    buildSub schemaAttrs sym names preds nrp h s u =
      (buildSub schemaAttrs sym names preds nrp h' s' u').map
        (fun sub => { sub with ms := (h, s), uid := u }) := by
  unfold buildSub
  simp only []
  split
  · rfl
  · split
    · rfl
    · split
      · rfl
      · split
        · rfl
        · split
          · rfl
          · split <;> rfl

theorem addSubProof_indep (pc : PCtx) (r : Request) (sl : Selected) (h s u h' s' u' : Nat) :
    addSubProof pc r sl h s u =
      (addSubProof pc r sl h' s' u').map (fun sub => { sub with ms := (h, s), uid := u }) := by
  unfold addSubProof
  split
  · rfl
  · split
    · rfl
    · split
      · exact buildSub_indep ..
      · rfl

theorem mapM_indep {α β γ : Type} {f f' : α → Option β} {vis : β → γ}
    (hf : ∀ a, ∃ g : β → β, f' a = (f a).map g ∧ ∀ b, vis (g b) = vis b) :
    ∀ {l : List α} {r : List β}, l.mapM f = some r → ∃ r', l.mapM f' = some r' ∧ r'.map vis = r.map vis := by
  intro l
  induction l with
  | nil => intro r h; simp at h; subst h; exact ⟨[], rfl, rfl⟩
  | cons a l ih =>
    intro r h
    rw [List.mapM_cons] at h
    cases hfa : f a with
    | none => simp [hfa] at h
    | some b =>
      cases hl : l.mapM f with
      | none => simp [hfa, hl] at h
      | some bs =>
        simp [hfa, hl] at h
        subst h
        obtain ⟨g, hg, hv⟩ := hf a
        obtain ⟨r', hr', hvis⟩ := ih hl
        refine ⟨g b :: r', ?_, ?_⟩
        · rw [List.mapM_cons, hg, hfa, hr']; rfl
        · simp [hv, hvis]

end AnonModel.Prover

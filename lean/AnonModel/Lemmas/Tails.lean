import AnonModel.Model.Tails
/-! Helper lemmas for C19: directory algebra, slices of a flattened list, base58 alphabet,
temp name, and the invariant of the writer machine. -/
namespace AnonModel.Tails

/-! ### directory algebra -/

theorem dirGet_dirDel (d : Dir) (x name : String) :
    dirGet (dirDel d x) name = if name = x then none else dirGet d name := by
  induction d with
  | nil => simp [dirGet, dirDel]
  | cons e d ih =>
    obtain ⟨k, v⟩ := e
    simp only [dirGet, dirDel] at ih ⊢
    by_cases hk : k = x
    · subst hk
      by_cases hn : name = k
      · subst hn; simpa [List.filter_cons] using ih
      · have : (name == k) = false := by simpa using hn
        simpa [List.filter_cons, List.lookup_cons, this, hn] using ih
    · have hkx : (k == x) = false := by simpa using hk
      by_cases hn : name = x
      · subst hn
        have : (name == k) = false := by simpa using fun h => hk h.symm
        simpa [List.filter_cons, hkx, List.lookup_cons, this] using ih
      · by_cases hnk : name = k
        · subst hnk; simp [hkx, hn]
        · have : (name == k) = false := by simpa using hnk
          simpa [List.filter_cons, hkx, List.lookup_cons, this, hn] using ih

theorem dirGet_dirPut (d : Dir) (x name : String) (c : List UInt8) :
    dirGet (dirPut d x c) name = if name = x then some c else dirGet d name := by
  by_cases hn : name = x
  · subst hn; simp [dirPut, dirGet]
  · have : (name == x) = false := by simpa using hn
    have h := dirGet_dirDel d x name
    simp only [dirGet] at h
    simp [dirPut, dirGet, List.lookup_cons, this, hn, h]

theorem dirGet_dirRename {d : Dir} {old new : String} {c : List UInt8} (h : dirGet d old = some c)
    (name : String) :
    dirGet (dirRename d old new) name =
      if name = new then some c else if name = old then none else dirGet d name := by
  simp only [dirRename, h, dirGet_dirPut, dirGet_dirDel]

/-! ### slices -/

theorem flatten_drop_uniform (size : Nat) (tails : List (List UInt8)) (k : Nat)
    (hsz : ∀ t ∈ tails, t.length = size) :
    tails.flatten.drop (size * k) = (tails.drop k).flatten := by
  induction k generalizing tails with
  | zero => simp
  | succ k ih =>
    cases tails with
    | nil => simp
    | cons t rest =>
      have ht : t.length = size := hsz t (by simp)
      have hr : ∀ t ∈ rest, t.length = size := fun t h => hsz t (by simp [h])
      have : size * (k + 1) = t.length + size * k := by rw [ht, Nat.mul_succ]; omega
      rw [List.flatten_cons, this, ← List.drop_drop, List.drop_left', List.drop_succ_cons]
      · exact ih rest hr
      · rfl

theorem readSlice_fileBytes (size : Nat) (tails : List (List UInt8)) (k : Nat)
    (hk : k < tails.length) (hsz : ∀ t ∈ tails, t.length = size) :
    readSlice size (fileBytes tails) k = tails[k] := by
  have hd : (fileBytes tails).drop (TAG_SZ + size * k) = (tails.drop k).flatten := by
    simp only [fileBytes, versionTag, TAG_SZ]
    rw [← List.drop_drop]
    simpa using flatten_drop_uniform size tails k hsz
  have hk' : tails.drop k = tails[k] :: tails.drop (k + 1) := List.drop_eq_getElem_cons hk
  have hl : tails[k].length = size := hsz _ (List.getElem_mem hk)
  simp only [readSlice, hd, hk', List.flatten_cons]
  rw [List.take_left' hl]

theorem fileBytes_length (size : Nat) (tails : List (List UInt8))
    (hsz : ∀ t ∈ tails, t.length = size) :
    (fileBytes tails).length = TAG_SZ + size * tails.length := by
  have : tails.flatten.length = size * tails.length := by
    induction tails with
    | nil => simp
    | cons t rest ih =>
      have ht : t.length = size := hsz t (by simp)
      have hr := ih (fun t h => hsz t (by simp [h]))
      simp only [List.flatten_cons, List.length_append, List.length_cons, hr, ht, Nat.mul_succ]
      omega
  simp [fileBytes, versionTag, TAG_SZ, this]; omega

/-! ### base58 output alphabet, temp name -/

theorem base58_chars (bytes : List UInt8) : ∀ c ∈ (base58 bytes).toList, c ∈ alphabet := by
  intro c hc
  simp only [base58, String.toList_ofList, List.mem_reverse, List.mem_map] at hc
  obtain ⟨d, _, rfl⟩ := hc
  exact List.getElem_mem _

theorem dot_mem_tempName (r : Nat) : '.' ∈ (tempName r).toList := by
  simp [tempName]

theorem tempName_ne_base58 (r : Nat) (bytes : List UInt8) : tempName r ≠ base58 bytes := by
  intro h
  have h1 := dot_mem_tempName r
  rw [h] at h1
  have := base58_chars bytes _ h1
  revert this; decide

/-! ### writer invariant -/

/-- what holds at each control point of a running machine -/
def RunClause (e : Env) (dir0 : Dir) (st : WState) : Prop :=
  match st.pc with
  | .create => st.handed = [] ∧ ∀ name, dirGet st.dir name = dirGet dir0 name
  | .header => st.handed = [] ∧ dirGet dir0 e.temp = none ∧
      (∃ c, dirGet st.dir e.temp = some c ∧ c <+: st.handed) ∧
      dirGet st.dir (fileName e.tails) = dirGet dir0 (fileName e.tails)
  | .tail i => i < e.tails.length ∧ st.handed = versionTag ++ (e.tails.take i).flatten ∧
      dirGet dir0 e.temp = none ∧
      (∃ c, dirGet st.dir e.temp = some c ∧ c <+: st.handed) ∧
      dirGet st.dir (fileName e.tails) = dirGet dir0 (fileName e.tails)
  | .flush => st.handed = fileBytes e.tails ∧ dirGet dir0 e.temp = none ∧
      (∃ c, dirGet st.dir e.temp = some c ∧ c <+: st.handed) ∧
      dirGet st.dir (fileName e.tails) = dirGet dir0 (fileName e.tails)
  | .close => st.handed = fileBytes e.tails ∧ dirGet dir0 e.temp = none ∧
      dirGet st.dir e.temp = some st.handed ∧
      dirGet st.dir (fileName e.tails) = dirGet dir0 (fileName e.tails)
  | .rename => st.handed = fileBytes e.tails ∧ dirGet dir0 e.temp = none ∧
      dirGet st.dir e.temp = some st.handed ∧
      dirGet st.dir (fileName e.tails) = dirGet dir0 (fileName e.tails)

/-- everything the property needs to know about a machine state, relative to the initial
directory `dir0`; `rf` = "some `remove_file` of the guard has failed so far" -/
structure Inv (e : Env) (dir0 : Dir) (rf : Prop) (st : WState) : Prop where
  /-- names other than the temp and final names are never touched -/
  frame : ∀ name, name ≠ e.temp → name ≠ fileName e.tails → dirGet st.dir name = dirGet dir0 name
  /-- final name: as found, or the complete file -/
  final : dirGet st.dir (fileName e.tails) = dirGet dir0 (fileName e.tails) ∨
          dirGet st.dir (fileName e.tails) = some (fileBytes e.tails)
  /-- temp name: as found, or removed, or a prefix of the file bytes -/
  temp : dirGet st.dir e.temp = dirGet dir0 e.temp ∨ dirGet st.dir e.temp = none ∨
          ∃ c, dirGet st.dir e.temp = some c ∧ c <+: fileBytes e.tails
  /-- an error return leaves the directory as it was found, unless `remove_file` failed (`rf`) -/
  err : st.status = .err → rf ∨ ∀ name, dirGet st.dir name = dirGet dir0 name
  /-- a successful return -/
  ok : ∀ loc h, st.status = .ok loc h → h = fileName e.tails ∧ loc = ⟨e.root, h⟩ ∧
          dirGet st.dir h = some (fileBytes e.tails) ∧ dirGet st.dir e.temp = none ∧
          dirGet dir0 e.temp = none
  /-- control state while running -/
  run : st.status = .running → RunClause e dir0 st

end AnonModel.Tails

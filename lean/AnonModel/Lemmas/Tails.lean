import AnonModel.Model.Tails
/-! Helper lemmas for C19: directory algebra, slices of a flattened list, base58 alphabet,
temp name, and the invariant of the writer machine. -/
namespace AnonModel.Tails

/-! ### directory algebra -/

theorem dirGet_dirDel (d : Dir) (x name : String) :
    dirGet (dirDel d x) name = if name = x then none else dirGet d name := by
  induction d with
  | nil => simp [dirGet, dirDel]
  | cons e d ih =>
    obtain ⟨k, v⟩ := e
    simp only [dirGet, dirDel] at ih ⊢
    by_cases hk : k = x
    · subst hk
      by_cases hn : name = k
      · subst hn; simpa [List.filter_cons] using ih
      · have : (name == k) = false := by simpa using hn
        simpa [List.filter_cons, List.lookup_cons, this, hn] using ih
    · have hkx : (k == x) = false := by simpa using hk
      by_cases hn : name = x
      · subst hn
        have : (name == k) = false := by simpa using fun h => hk h.symm
        simpa [List.filter_cons, hkx, List.lookup_cons, this] using ih
      · by_cases hnk : name = k
        · subst hnk; simp [hkx, hn]
        · have : (name == k) = false := by simpa using hnk
          simpa [List.filter_cons, hkx, List.lookup_cons, this, hn] using ih

theorem dirGet_dirPut (d : Dir) (x name : String) (c : List UInt8) :
    dirGet (dirPut d x c) name = if name = x then some c else dirGet d name := by
  by_cases hn : name = x
  · subst hn; simp [dirPut, dirGet]
  · have : (name == x) = false := by simpa using hn
    have h := dirGet_dirDel d x name
    simp only [dirGet] at h
    simp [dirPut, dirGet, List.lookup_cons, this, hn, h]

theorem dirGet_dirRename {d : Dir} {old new : String} {c : List UInt8} (h : dirGet d old = some c)
    (name : String) :
    dirGet (dirRename d old new) name =
      if name = new then some c else if name = old then none else dirGet d name := by
  simp only [dirRename, h, dirGet_dirPut, dirGet_dirDel]

/-! ### slices -/

theorem flatten_drop_uniform (size : Nat) (tails : List (List UInt8)) (k : Nat)
    (hsz : ∀ t ∈ tails, t.length = size) :
    tails.flatten.drop (size * k) = (tails.drop k).flatten := by
  induction k generalizing tails with
  | zero => simp
  | succ k ih =>
    cases tails with
    | nil => simp
    | cons t rest =>
      have ht : t.length = size := hsz t (by simp)
      have hr : ∀ t ∈ rest, t.length = size := fun t h => hsz t (by simp [h])
      have : size * (k + 1) = t.length + size * k := by rw [ht, Nat.mul_succ]; omega
      rw [List.flatten_cons, this, ← List.drop_drop, List.drop_left', List.drop_succ_cons]
      · exact ih rest hr
      · rfl

theorem readSlice_fileBytes (size : Nat) (tails : List (List UInt8)) (k : Nat)
    (hk : k < tails.length) (hsz : ∀ t ∈ tails, t.length = size) :
    readSlice size (fileBytes tails) k = tails[k] := by
  have hd : (fileBytes tails).drop (TAG_SZ + size * k) = (tails.drop k).flatten := by
    simp only [fileBytes, versionTag, TAG_SZ]
    rw [← List.drop_drop]
    simpa using flatten_drop_uniform size tails k hsz
  have hk' : tails.drop k = tails[k] :: tails.drop (k + 1) := List.drop_eq_getElem_cons hk
  have hl : tails[k].length = size := hsz _ (List.getElem_mem hk)
  simp only [readSlice, hd, hk', List.flatten_cons]
  rw [List.take_left' hl]

theorem fileBytes_length (size : Nat) (tails : List (List UInt8))
    (hsz : ∀ t ∈ tails, t.length = size) :
    (fileBytes tails).length = TAG_SZ + size * tails.length := by
  have : tails.flatten.length = size * tails.length := by
    induction tails with
    | nil => simp
    | cons t rest ih =>
      have ht : t.length = size := hsz t (by simp)
      have hr := ih (fun t h => hsz t (by simp [h]))
      simp only [List.flatten_cons, List.length_append, List.length_cons, hr, ht, Nat.mul_succ]
      omega
  simp [fileBytes, versionTag, TAG_SZ, this]; omega

/-! ### base58 output alphabet, temp name -/

theorem base58_chars (bytes : List UInt8) : ∀ c ∈ (base58 bytes).toList, c ∈ alphabet := by
  intro c hc
  simp only [base58, String.toList_ofList, List.mem_reverse, List.mem_map] at hc
  obtain ⟨d, _, rfl⟩ := hc
  exact List.getElem_mem _

theorem dot_mem_tempName (r : Nat) : '.' ∈ (tempName r).toList := by
  simp [tempName]

theorem tempName_ne_base58 (r : Nat) (bytes : List UInt8) : tempName r ≠ base58 bytes := by
  intro h
  have h1 := dot_mem_tempName r
  rw [h] at h1
  have := base58_chars bytes _ h1
  revert this; decide

/-! ### writer invariant -/

/-- what holds at each control point of a running machine -/
def RunClause (e : Env) (dir0 : Dir) (st : WState) : Prop :=
  match st.pc with
  | .create => st.handed = [] ∧ ∀ name, dirGet st.dir name = dirGet dir0 name
  | .header => st.handed = [] ∧ dirGet dir0 e.temp = none ∧
      (∃ c, dirGet st.dir e.temp = some c ∧ c <+: st.handed) ∧
      dirGet st.dir (fileName e.tails) = dirGet dir0 (fileName e.tails)
  | .tail i => i < e.tails.length ∧ st.handed = versionTag ++ (e.tails.take i).flatten ∧
      dirGet dir0 e.temp = none ∧
      (∃ c, dirGet st.dir e.temp = some c ∧ c <+: st.handed) ∧
      dirGet st.dir (fileName e.tails) = dirGet dir0 (fileName e.tails)
  | .flush => st.handed = fileBytes e.tails ∧ dirGet dir0 e.temp = none ∧
      (∃ c, dirGet st.dir e.temp = some c ∧ c <+: st.handed) ∧
      dirGet st.dir (fileName e.tails) = dirGet dir0 (fileName e.tails)
  | .close => st.handed = fileBytes e.tails ∧ dirGet dir0 e.temp = none ∧
      dirGet st.dir e.temp = some st.handed ∧
      dirGet st.dir (fileName e.tails) = dirGet dir0 (fileName e.tails)
  | .rename => st.handed = fileBytes e.tails ∧ dirGet dir0 e.temp = none ∧
      dirGet st.dir e.temp = some st.handed ∧
      dirGet st.dir (fileName e.tails) = dirGet dir0 (fileName e.tails)

/-- everything the property needs to know about a machine state, relative to the initial
directory `dir0`; `rf` = "some `remove_file` of the guard has failed so far" -/
structure Inv (e : Env) (dir0 : Dir) (rf : Prop) (st : WState) : Prop where
  /-- names other than the temp and final names are never touched -/
  frame : ∀ name, name ≠ e.temp → name ≠ fileName e.tails → dirGet st.dir name = dirGet dir0 name
  /-- final name: as found, or the complete file -/
  final : dirGet st.dir (fileName e.tails) = dirGet dir0 (fileName e.tails) ∨
          dirGet st.dir (fileName e.tails) = some (fileBytes e.tails)
  /-- temp name: as found, or removed, or a prefix of the file bytes -/
  temp : dirGet st.dir e.temp = dirGet dir0 e.temp ∨ dirGet st.dir e.temp = none ∨
          ∃ c, dirGet st.dir e.temp = some c ∧ c <+: fileBytes e.tails
  /-- an error return leaves the directory as it was found, unless `remove_file` failed (`rf`) -/
  err : st.status = .err → rf ∨ ∀ name, dirGet st.dir name = dirGet dir0 name
  /-- a successful return -/
  ok : ∀ loc h, st.status = .ok loc h → h = fileName e.tails ∧ loc = ⟨e.root, h⟩ ∧
          dirGet st.dir h = some (fileBytes e.tails) ∧ dirGet st.dir e.temp = none ∧
          dirGet dir0 e.temp = none
  /-- control state while running -/
  run : st.status = .running → RunClause e dir0 st

theorem partialContent_prefix (cur handed : List UInt8) (w : Nat) :
    partialContent cur handed w <+: handed := List.take_prefix _ _

theorem Inv.mono {e : Env} {dir0 : Dir} {rf rf' : Prop} {st : WState} (h : rf → rf')
    (i : Inv e dir0 rf st) : Inv e dir0 rf' st :=
  ⟨i.frame, i.final, i.temp, fun hs => (i.err hs).imp h id, i.ok, i.run⟩

theorem inv_init (e : Env) (dir0 : Dir) : Inv e dir0 False (init dir0) := by
  refine ⟨fun _ _ _ => rfl, Or.inl rfl, Or.inl rfl, ?_, ?_, ?_⟩ <;> simp [init, RunClause]

/-- facts shared by all control points after `create` -/
structure Mid (e : Env) (dir0 : Dir) (dir : Dir) (handed : List UInt8) : Prop where
  frame : ∀ name, name ≠ e.temp → name ≠ fileName e.tails → dirGet dir name = dirGet dir0 name
  fresh : dirGet dir0 e.temp = none
  cur : ∃ c, dirGet dir e.temp = some c ∧ c <+: handed
  fin : dirGet dir (fileName e.tails) = dirGet dir0 (fileName e.tails)

theorem Mid.frame' {e : Env} {dir0 dir : Dir} {handed : List UInt8} (m : Mid e dir0 dir handed) :
    ∀ name, name ≠ e.temp → dirGet dir name = dirGet dir0 name := by
  intro n h1
  by_cases h2 : n = fileName e.tails
  · subst h2; exact m.fin
  · exact m.frame n h1 h2

theorem inv_errPath {e : Env} {dir0 : Dir} {rf : Prop} (f : Fault)
    (hne : e.temp ≠ fileName e.tails) (dir : Dir) (handed : List UInt8)
    (hframe : ∀ name, name ≠ e.temp → dirGet dir name = dirGet dir0 name)
    (hfresh : dirGet dir0 e.temp = none)
    (hcur : ∃ c, dirGet dir e.temp = some c ∧ c <+: fileBytes e.tails) :
    Inv e dir0 (rf ∨ f.removeFails = true) (errPath e f dir handed) := by
  unfold errPath
  by_cases hr : f.removeFails = true
  · rw [if_pos hr]
    refine ⟨fun n h1 _ => hframe n h1, Or.inl (hframe _ (Ne.symm hne)), Or.inr (Or.inr hcur),
      fun _ => Or.inl (Or.inr hr), ?_, ?_⟩ <;> simp
  · rw [if_neg hr]
    refine ⟨?_, ?_, ?_, ?_, ?_, ?_⟩
    · intro n h1 _; simp [dirGet_dirDel, h1, hframe n h1]
    · left; simp [dirGet_dirDel, Ne.symm hne, hframe _ (Ne.symm hne)]
    · right; left; simp [dirGet_dirDel]
    · intro _; right; intro n
      by_cases hn : n = e.temp
      · subst hn; simp [dirGet_dirDel, hfresh]
      · simp [dirGet_dirDel, hn, hframe n hn]
    · simp
    · simp

theorem mid_put {e : Env} {dir0 dir : Dir} {handed handed' c : List UInt8}
    (hne : e.temp ≠ fileName e.tails) (m : Mid e dir0 dir handed) (hc : c <+: handed') :
    Mid e dir0 (dirPut dir e.temp c) handed' := by
  refine ⟨?_, m.fresh, ⟨c, by simp [dirGet_dirPut], hc⟩, ?_⟩
  · intro n h1 h2; simp [dirGet_dirPut, h1, m.frame n h1 h2]
  · simp [dirGet_dirPut, Ne.symm hne, m.fin]

theorem inv_bufStep {e : Env} {dir0 : Dir} {rf : Prop} {st : WState} (f : Fault)
    (hne : e.temp ≠ fileName e.tails) (data : List UInt8) (flushAll : Bool) (next : Pc)
    (m : Mid e dir0 st.dir st.handed)
    (hpre : st.handed ++ data <+: fileBytes e.tails)
    (hnext : ∀ dir', Mid e dir0 dir' (st.handed ++ data) →
      (flushAll = true → dirGet dir' e.temp = some (st.handed ++ data)) →
      RunClause e dir0 ⟨dir', st.handed ++ data, next, .running⟩) :
    Inv e dir0 (rf ∨ f.removeFails = true) (bufStep e f data flushAll next st) := by
  unfold bufStep
  have hp := partialContent_prefix ((dirGet st.dir e.temp).getD []) (st.handed ++ data) f.written
  have mP := mid_put hne m hp
  cases ho : f.outcome with
  | ok =>
    simp only
    have mN : Mid e dir0 (if flushAll = true then dirPut st.dir e.temp (st.handed ++ data)
        else dirPut st.dir e.temp (partialContent ((dirGet st.dir e.temp).getD []) (st.handed ++ data) f.written))
        (st.handed ++ data) := by
      split
      · exact mid_put hne m (List.prefix_refl _)
      · exact mP
    obtain ⟨c, hc1, hc2⟩ := mN.cur
    refine ⟨mN.frame, Or.inl mN.fin, Or.inr (Or.inr ⟨c, hc1, hc2.trans hpre⟩), by simp, by simp, ?_⟩
    intro _
    apply hnext _ mN
    intro hf; simp [hf, dirGet_dirPut]
  | error =>
    simp only
    obtain ⟨c, hc1, hc2⟩ := mP.cur
    exact inv_errPath f hne _ _ mP.frame' m.fresh ⟨c, hc1, hc2.trans hpre⟩
  | crash =>
    simp only
    obtain ⟨c, hc1, hc2⟩ := mP.cur
    refine ⟨mP.frame, Or.inl mP.fin, Or.inr (Or.inr ⟨c, hc1, hc2.trans hpre⟩), by simp, by simp, by simp⟩


theorem take_flatten_prefix (tails : List (List UInt8)) (i : Nat) :
    versionTag ++ (tails.take i).flatten <+: fileBytes tails := by
  unfold fileBytes
  refine (List.prefix_append_right_inj _).mpr ?_
  conv => rhs; rw [← List.take_append_drop i tails, List.flatten_append]
  exact List.prefix_append _ _

theorem take_succ_flatten {tails : List (List UInt8)} {i : Nat} {t : List UInt8}
    (h : tails[i]? = some t) : (tails.take (i + 1)).flatten = (tails.take i).flatten ++ t := by
  rw [List.take_add_one, h]; simp

theorem runClause_nextTail {e : Env} {dir0 dir : Dir} (i : Nat) (hi : i ≤ e.tails.length)
    (m : Mid e dir0 dir (versionTag ++ (e.tails.take i).flatten)) :
    RunClause e dir0 ⟨dir, versionTag ++ (e.tails.take i).flatten, nextTail e i, .running⟩ := by
  unfold nextTail
  split
  · rename_i h; exact ⟨h, rfl, m.fresh, m.cur, m.fin⟩
  · rename_i h
    have : e.tails.take i = e.tails := List.take_of_length_le (by omega)
    simp only [RunClause, this, fileBytes]
    exact ⟨trivial, m.fresh, by simpa [this] using m.cur, m.fin⟩

theorem inv_step {e : Env} {dir0 : Dir} {rf : Prop} {st : WState} (f : Fault)
    (hne : e.temp ≠ fileName e.tails) (i : Inv e dir0 rf st) :
    Inv e dir0 (rf ∨ f.removeFails = true) (stepW e f st) := by
  unfold stepW
  split
  next hrun =>
    have rc := i.run hrun
    unfold RunClause at rc
    split
    next hpc =>
      -- create
      rw [hpc] at rc
      obtain ⟨hh, hd⟩ := rc
      split
      next c hc =>
        split
        · refine ⟨i.frame, i.final, i.temp, by simp, by simp, by simp⟩
        · exact ⟨i.frame, i.final, i.temp, fun _ => Or.inr hd, by simp, by simp⟩
      next hc =>
        have hfresh : dirGet dir0 e.temp = none := by rw [← hd]; exact hc
        have m0 : Mid e dir0 (dirPut st.dir e.temp []) [] := by
          refine ⟨?_, hfresh, ⟨[], by simp [dirGet_dirPut], List.prefix_refl _⟩, ?_⟩
          · intro n h1 _; simp [dirGet_dirPut, h1, hd]
          · simp [dirGet_dirPut, Ne.symm hne, hd]
        split
        · refine ⟨m0.frame, Or.inl m0.fin, Or.inr (Or.inr ⟨[], by simp [dirGet_dirPut], List.nil_prefix⟩),
            by simp, by simp, fun _ => ?_⟩
          exact ⟨rfl, hfresh, m0.cur, m0.fin⟩
        · exact ⟨i.frame, i.final, i.temp, fun _ => Or.inr hd, by simp, by simp⟩
        · split
          · exact ⟨i.frame, i.final, i.temp, by simp, by simp, by simp⟩
          · exact ⟨m0.frame, Or.inl m0.fin, Or.inr (Or.inr ⟨[], by simp [dirGet_dirPut], List.nil_prefix⟩),
              by simp, by simp, by simp⟩
    next hpc =>
      -- header
      rw [hpc] at rc
      obtain ⟨hh, hfresh, hcur, hfin⟩ := rc
      have m : Mid e dir0 st.dir st.handed := ⟨i.frame, hfresh, hcur, hfin⟩
      apply inv_bufStep f hne _ _ _ m
      · rw [hh]; simpa using take_flatten_prefix e.tails 0
      · intro dir' m' _
        rw [hh] at m' ⊢
        have := runClause_nextTail (e := e) (dir0 := dir0) (dir := dir') 0 (Nat.zero_le _) (by simpa using m')
        simpa using this
    next j hpc =>
      -- tail j
      rw [hpc] at rc
      obtain ⟨hj, hh, hfresh, hcur, hfin⟩ := rc
      have m : Mid e dir0 st.dir st.handed := ⟨i.frame, hfresh, hcur, hfin⟩
      split
      next t ht =>
        have hts := take_succ_flatten ht
        apply inv_bufStep f hne _ _ _ m
        · rw [hh, List.append_assoc, ← hts]; exact take_flatten_prefix _ _
        · intro dir' m' _
          rw [hh, List.append_assoc, ← hts] at m' ⊢
          exact runClause_nextTail (j + 1) hj m'
      next hn =>
        exfalso
        rw [List.getElem?_eq_none_iff] at hn; omega
    next hpc =>
      -- flush
      rw [hpc] at rc
      obtain ⟨hh, hfresh, hcur, hfin⟩ := rc
      have m : Mid e dir0 st.dir st.handed := ⟨i.frame, hfresh, hcur, hfin⟩
      apply inv_bufStep f hne _ _ _ m
      · rw [hh]; simp
      · intro dir' m' hf
        simp only [List.append_nil] at m' hf ⊢
        exact ⟨hh, hfresh, hf trivial, m'.fin⟩
    next hpc =>
      -- close
      rw [hpc] at rc
      obtain ⟨hh, hfresh, hcur, hfin⟩ := rc
      have m : Mid e dir0 st.dir st.handed := ⟨i.frame, hfresh, ⟨_, hcur, List.prefix_refl _⟩, hfin⟩
      split
      · refine ⟨i.frame, i.final, i.temp, by simp [hrun], by simp [hrun], fun _ => ?_⟩
        exact ⟨hh, hfresh, hcur, hfin⟩
      · exact inv_errPath f hne _ _ m.frame' hfresh ⟨_, hcur, by rw [hh]; exact List.prefix_refl _⟩
      · exact ⟨i.frame, i.final, i.temp, by simp, by simp, by simp⟩
    next hpc =>
      -- rename
      rw [hpc] at rc
      obtain ⟨hh, hfresh, hcur, hfin⟩ := rc
      have m : Mid e dir0 st.dir st.handed := ⟨i.frame, hfresh, ⟨_, hcur, List.prefix_refl _⟩, hfin⟩
      have hname : base58 (sha256 st.handed) = fileName e.tails := by rw [hh]; rfl
      have hren : Inv e dir0 (rf ∨ f.removeFails = true)
          ⟨dirRename st.dir e.temp (fileName e.tails), st.handed, .rename, .crashed⟩ := by
        refine ⟨?_, Or.inr ?_, Or.inr (Or.inl ?_), by simp, by simp, by simp⟩
        · intro n h1 h2; simp [dirGet_dirRename hcur, h1, h2, i.frame n h1 h2]
        · simp [dirGet_dirRename hcur, hh]
        · simp [dirGet_dirRename hcur, hne]
      simp only [hname]
      split
      · refine ⟨hren.frame, hren.final, hren.temp, by simp, ?_, by simp⟩
        intro loc h heq
        simp only [Status.ok.injEq] at heq
        obtain ⟨h1, h2⟩ := heq
        subst h2
        refine ⟨rfl, h1.symm, ?_, ?_, hfresh⟩
        · simp [dirGet_dirRename hcur, hh]
        · simp [dirGet_dirRename hcur, hne]
      · exact inv_errPath f hne _ _ m.frame' hfresh ⟨_, hcur, by rw [hh]; exact List.prefix_refl _⟩
      · split
        · exact ⟨i.frame, i.final, i.temp, by simp, by simp, by simp⟩
        · exact hren
  next hnr =>
    exact i.mono Or.inl

theorem temp_ne_final (e : Env) : e.temp ≠ fileName e.tails := tempName_ne_base58 _ _

/-- some `remove_file` of the guard failed among the first `k` steps -/
def RemoveFailed (faults : Nat → Fault) (k : Nat) : Prop := ∃ j, j < k ∧ (faults j).removeFails = true

theorem inv_run (e : Env) (dir0 : Dir) (faults : Nat → Fault) (k : Nat) :
    Inv e dir0 (RemoveFailed faults k) (runW e faults k (init dir0)) := by
  induction k with
  | zero => exact (inv_init e dir0).mono False.elim
  | succ k ih =>
    refine (inv_step (faults k) (temp_ne_final e) ih).mono ?_
    rintro (⟨j, hj, h⟩ | h)
    · exact ⟨j, by omega, h⟩
    · exact ⟨k, by omega, h⟩

/-- control point reached after `k` fault-free steps -/
def pcAt (e : Env) (k : Nat) : Pc :=
  if k = 0 then .create else if k = 1 then .header
  else if k < e.tails.length + 2 then .tail (k - 2)
  else if k = e.tails.length + 2 then .flush
  else if k = e.tails.length + 3 then .close else .rename

theorem bufStep_ok {e : Env} {f : Fault} (h : f.outcome = .ok) (data : List UInt8) (b : Bool) (next : Pc)
    (st : WState) : (bufStep e f data b next st).status = .running ∧ (bufStep e f data b next st).pc = next := by
  simp [bufStep, h]


/-- successor control point of a fault-free step -/
def nextPc (e : Env) : Pc → Pc
  | .create => .header
  | .header => nextTail e 0
  | .tail i => nextTail e (i + 1)
  | .flush => .close
  | .close => .rename
  | .rename => .rename

theorem step_ok_pc {e : Env} {dir0 : Dir} {f : Fault} {st : WState} (hf : f.outcome = .ok)
    (hfresh : dirGet dir0 e.temp = none) (hs : st.status = .running) (rc : RunClause e dir0 st)
    (hp : st.pc ≠ .rename) :
    (stepW e f st).status = .running ∧ (stepW e f st).pc = nextPc e st.pc := by
  unfold stepW
  simp only [hs]
  unfold RunClause at rc
  cases hpc : st.pc with
  | create =>
    rw [hpc] at rc
    have : dirGet st.dir e.temp = none := by rw [rc.2]; exact hfresh
    simp [this, hf, nextPc]
  | header => simp only [nextPc]; exact bufStep_ok hf _ _ _ _
  | tail i =>
    rw [hpc] at rc
    have : e.tails[i]? = some e.tails[i] := List.getElem?_eq_getElem rc.1
    simp only [nextPc, this]; exact bufStep_ok hf _ _ _ _
  | flush => simp only [nextPc]; exact bufStep_ok hf _ _ _ _
  | close => simp [hf, nextPc]
  | rename => exact absurd hpc hp

theorem pcAt_succ (e : Env) (k : Nat) (hk : k ≤ e.tails.length + 3) :
    pcAt e (k + 1) = nextPc e (pcAt e k) := by
  have hT : ∀ j, 2 ≤ j → j < e.tails.length + 2 → pcAt e j = .tail (j - 2) := by
    intro j h1 h2; grind [pcAt]
  have hF : pcAt e (e.tails.length + 2) = .flush := by grind [pcAt]
  have hC : pcAt e (e.tails.length + 3) = .close := by grind [pcAt]
  have hR : pcAt e (e.tails.length + 4) = .rename := by grind [pcAt]
  have h0 : pcAt e 0 = .create := by grind [pcAt]
  have h1 : pcAt e 1 = .header := by grind [pcAt]
  by_cases a0 : k = 0
  · subst a0; rw [h0, h1]; rfl
  by_cases a1 : k = 1
  · subst a1
    rw [h1]; simp only [nextPc, nextTail]
    split
    · rw [hT 2 (by omega) (by omega)]
    · have : e.tails.length = 0 := by omega
      rw [show 1 + 1 = e.tails.length + 2 by omega, hF]
  by_cases a2 : k < e.tails.length + 2
  · rw [hT k (by omega) a2]; simp only [nextPc, nextTail]
    split
    · rw [hT (k + 1) (by omega) (by omega)]; congr 1; omega
    · rw [show k + 1 = e.tails.length + 2 by omega, hF]
  by_cases a3 : k = e.tails.length + 2
  · subst a3; rw [hF, hC]; rfl
  · have a4 : k = e.tails.length + 3 := by omega
    subst a4; rw [hC, hR]; rfl

/-- without faults and with a fresh temp name the machine walks through all control points -/
theorem run_ok_progress (e : Env) (dir0 : Dir) (faults : Nat → Fault)
    (hok : ∀ j, (faults j).outcome = .ok) (hfresh : dirGet dir0 e.temp = none) (k : Nat)
    (hk : k ≤ e.tails.length + 4) :
    (runW e faults k (init dir0)).status = .running ∧ (runW e faults k (init dir0)).pc = pcAt e k := by
  induction k with
  | zero => simp [runW, init, pcAt]
  | succ k ih =>
    obtain ⟨hs, hp⟩ := ih (by omega)
    have rc := (inv_run e dir0 faults k).run hs
    have hne : (runW e faults k (init dir0)).pc ≠ .rename := by
      rw [hp]; intro h; grind [pcAt]
    have := step_ok_pc (hok k) hfresh hs rc hne
    simp only [runW]
    rw [pcAt_succ e k (by omega), ← hp]
    exact this

/-- the last step of a fault-free run returns `Ok` -/
theorem run_ok_final (e : Env) (dir0 : Dir) (faults : Nat → Fault)
    (hok : ∀ j, (faults j).outcome = .ok) (hfresh : dirGet dir0 e.temp = none) :
    (runW e faults (totalSteps e) (init dir0)).status =
      .ok ⟨e.root, fileName e.tails⟩ (fileName e.tails) := by
  obtain ⟨hs, hp⟩ := run_ok_progress e dir0 faults hok hfresh (e.tails.length + 4) (Nat.le_refl _)
  have rc := (inv_run e dir0 faults (e.tails.length + 4)).run hs
  have hR : pcAt e (e.tails.length + 4) = .rename := by grind [pcAt]
  rw [hR] at hp
  unfold RunClause at rc
  rw [hp] at rc
  show (stepW e (faults (e.tails.length + 4)) _).status = _
  unfold stepW
  simp only [hs, hp, hok, rc.1]
  rfl

end AnonModel.Tails

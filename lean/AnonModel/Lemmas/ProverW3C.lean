import AnonModel.Lemmas.ProverMaps
/-!
# Helper lemmas about the W3C prover model: how `buildCredentialAttributes` builds the derived subject
-/
namespace AnonModel.Prover
open AnonModel.Verifier AnonModel.IdealCL AnonModel.Names AnonModel.VerifierW3C

/-! ## W3C: how the derived subject is built -/

theorem lookupNorm_congr {β : Type} (kvs : List (String × β)) {n n' : String}
    (h : commonView n = commonView n') : lookupNorm kvs n = lookupNorm kvs n' := by
  unfold lookupNorm; rw [h]

theorem foldlM_some_forall {α β : Type} {f : β → α → Option β} : ∀ {l : List α} {b b' : β},
    l.foldlM f b = some b' → ∀ a ∈ l, ∃ x y, f x a = some y := by
  intro l
  induction l with
  | nil => intro b b' _ a ha; cases ha
  | cons a0 l ih =>
    intro b b' h a ha
    rw [List.foldlM_cons] at h
    cases hfa : f b a0 with
    | none => simp [hfa] at h
    | some y =>
      simp [hfa] at h
      rcases List.mem_cons.mp ha with rfl | ha'
      · exact ⟨b, y, hfa⟩
      · exact ih h a ha'

/-- after a fold, each element's step has established `Q a` of the result, if later steps keep it -/
theorem foldlM_mem_post {α β : Type} {f : β → α → Option β} (Q : α → β → Prop)
    (hpost : ∀ a x y, f x a = some y → Q a y)
    (hkeep : ∀ a' a x y, Q a x → f x a' = some y → Q a y) :
    ∀ {l : List α} {b b' : β}, l.foldlM f b = some b' → ∀ a ∈ l, Q a b' := by
  intro l
  induction l with
  | nil => intro b b' _ a ha; cases ha
  | cons a0 l ih =>
    intro b b' h a ha
    rw [List.foldlM_cons] at h
    cases hfa : f b a0 with
    | none => simp [hfa] at h
    | some y =>
      simp [hfa] at h
      rcases List.mem_cons.mp ha with rfl | ha'
      · exact foldlM_invariant (Q a) h (hpost a b y hfa) (fun a' _ x y' hx hxy => hkeep a' a x y' hx hxy)
      · exact ih h a ha'

/-- `k` is the held credential's own (first) key for its normal form -/
structure Canon (held : List (String × SubjVal)) (k : String) : Prop where
  ex : ∃ v, lookupNorm held k = some (k, v)

theorem canon_of_lookupNorm {held : List (String × SubjVal)} {n : String} {av : String × SubjVal}
    (h : lookupNorm held n = some av) : Canon held av.1 := by
  refine ⟨av.2, ?_⟩
  have e := lookupNorm_congr held (n := av.1) (n' := n) (lookupNorm_some h).2
  rw [e, h]

theorem attrStep_canon {r : Request} {c : HeldW3C} {rr : String × Bool}
    {subj subj' : List (String × SubjVal)} (h : attrStep r c subj rr = some subj')
    (hj : ∀ kv ∈ subj, Canon c.subject kv.1) : ∀ kv ∈ subj', Canon c.subject kv.1 := by
  unfold attrStep at h
  split at h
  · cases h
  · refine foldlM_invariant (fun sj => ∀ kv ∈ sj, Canon c.subject kv.1) h hj ?_
    intro n _ x y hx hxy
    split at hxy
    · cases hxy
    · rename_i av hav
      injection hxy with hxy
      subst hxy
      split
      · intro kv hkv
        rcases mem_insertKV hkv with hkv | hkv
        · exact hx kv hkv
        · subst hkv; exact canon_of_lookupNorm hav
      · exact hx

theorem predStep_canon {r : Request} {c : HeldW3C} {ref : String}
    {subj subj' : List (String × SubjVal)} (h : predStep r c subj ref = some subj')
    (hj : ∀ kv ∈ subj, Canon c.subject kv.1) : ∀ kv ∈ subj', Canon c.subject kv.1 := by
  unfold predStep at h
  split at h
  · cases h
  · split at h
    · cases h
    · rename_i av hav
      intro kv hkv
      rcases mem_addPredicate h hkv with hkv | hkv
      · exact hj kv hkv
      · subst hkv; exact (canon_of_lookupNorm hav : Canon c.subject av.1)

/-- in a subject whose keys are the held credential's own, a name is found under the held key -/
theorem lookupNorm_subj {held : List (String × SubjVal)} {n : String} {av : String × SubjVal}
    (hav : lookupNorm held n = some av) :
    ∀ {subj : List (String × SubjVal)}, (∀ kv ∈ subj, Canon held kv.1) →
      lookupNorm subj n = (subj.lookup av.1).map (fun v => (av.1, v)) := by
  intro subj
  induction subj with
  | nil => intro _; rfl
  | cons x l ih =>
    intro hc
    obtain ⟨k, v⟩ := x
    have ih' := ih (fun kv h => hc kv (List.mem_cons_of_mem _ h))
    obtain ⟨v', hk⟩ := (hc (k, v) List.mem_cons_self).ex
    unfold lookupNorm at ih' ⊢
    simp only [List.find?, List.lookup]
    by_cases e : commonView k = commonView n
    · have : k = av.1 := by
        rw [lookupNorm_congr held e, hav] at hk
        exact (congrArg Prod.fst (Option.some.inj hk)).symm
      subst this
      simp [e]
    · have e' : ¬ av.1 = k := by
        intro h; apply e; rw [← h]; exact (lookupNorm_some hav).2
      have e1 : (commonView k == commonView n) = false := by simpa using e
      have e2 : (av.1 == k) = false := by simpa using e'
      rw [e1, e2]; exact ih'

theorem lookup_append_of_some {β : Type} {l m : List (String × β)} {k : String} {b : β}
    (h : l.lookup k = some b) : (l ++ m).lookup k = some b := by
  induction l with
  | nil => simp [List.lookup] at h
  | cons x l ih =>
    obtain ⟨k', v'⟩ := x
    simp only [List.cons_append, List.lookup] at h ⊢
    cases e : (k == k') with
    | true => simpa [e] using h
    | false => rw [e] at h; simp only []; exact ih h

theorem lookup_append_of_none {β : Type} {l m : List (String × β)} {k : String}
    (h : l.lookup k = none) : (l ++ m).lookup k = m.lookup k := by
  induction l with
  | nil => rfl
  | cons x l ih =>
    obtain ⟨k', v'⟩ := x
    simp only [List.cons_append, List.lookup] at h ⊢
    cases e : (k == k') with
    | true => simp [e] at h
    | false => rw [e] at h; simp only []; exact ih h

/-- `add_predicate` leaves a marker under `a` -/
theorem addPredicate_marks {subj subj' : List (String × SubjVal)} {a : String}
    (h : addPredicate subj a = some subj') : ∃ b, subj'.lookup a = some (.bool b) := by
  unfold addPredicate at h
  split at h
  · rename_i b hb; cases h; exact ⟨b, hb⟩
  · cases h
  · rename_i hn
    cases h
    exact ⟨true, by rw [lookup_append_of_none hn]; simp [List.lookup]⟩

/-- `add_predicate` keeps the markers already there -/
theorem addPredicate_keeps {subj subj' : List (String × SubjVal)} {a a' : String}
    (h : addPredicate subj a' = some subj') {b : Bool} (hb : subj.lookup a = some (.bool b)) :
    subj'.lookup a = some (.bool b) := by
  unfold addPredicate at h
  split at h
  · cases h; exact hb
  · cases h
  · cases h; exact lookup_append_of_some hb

/-- every predicate referent of the entry has its marker in the derived subject, under the held
credential's key of the predicate's attribute -/
theorem buildCredentialAttributes_marks {r : Request} {s : SelectedW3C}
    {subj : List (String × SubjVal)} (h : buildCredentialAttributes r s = some subj) {ref : String}
    (hp : ref ∈ s.preds) :
    ∃ q av b, r.preds.lookup ref = some q ∧ lookupNorm s.cred.subject q.name = some av ∧
      subj.lookup av.1 = some (.bool b) := by
  unfold buildCredentialAttributes at h
  split at h
  · cases h
  · rename_i sj _
    exact foldlM_mem_post (f := predStep r s.cred)
      (fun ref sj => ∃ q av b, r.preds.lookup ref = some q ∧
        lookupNorm s.cred.subject q.name = some av ∧ sj.lookup av.1 = some (.bool b))
      (fun ref x y hxy => by
        unfold predStep at hxy
        split at hxy
        · cases hxy
        · rename_i q hq
          split at hxy
          · cases hxy
          · rename_i av hav
            obtain ⟨b, hb⟩ := addPredicate_marks hxy
            exact ⟨q, av, b, hq, hav, hb⟩)
      (fun ref' ref x y hQ hxy => by
        obtain ⟨q, av, b, hq, hav, hb⟩ := hQ
        refine ⟨q, av, b, hq, hav, ?_⟩
        unfold predStep at hxy
        split at hxy
        · cases hxy
        · split at hxy
          · cases hxy
          · exact addPredicate_keeps hxy hb)
      h ref hp

/-- the keys of the derived subject are the held credential's own keys -/
theorem buildCredentialAttributes_canon {r : Request} {s : SelectedW3C}
    {subj : List (String × SubjVal)} (h : buildCredentialAttributes r s = some subj) :
    ∀ kv ∈ subj, Canon s.cred.subject kv.1 := by
  unfold buildCredentialAttributes at h
  split at h
  · cases h
  · rename_i sj hsj
    have h1 : ∀ kv ∈ sj, Canon s.cred.subject kv.1 :=
      foldlM_invariant (fun sj => ∀ kv ∈ sj, Canon s.cred.subject kv.1) hsj
        (fun kv hkv => by cases hkv) (fun rr _ x y hx hxy => attrStep_canon hxy hx)
    exact foldlM_invariant (fun sj => ∀ kv ∈ sj, Canon s.cred.subject kv.1) h h1
      (fun ref _ x y hx hxy => predStep_canon hxy hx)

theorem attrStep_held {r : Request} {c : HeldW3C} {rr : String × Bool}
    {subj subj' : List (String × SubjVal)} (h : attrStep r c subj rr = some subj') :
    ∃ info, r.attrs.lookup rr.1 = some info ∧
      ∀ n ∈ info.allNames, ∃ av, lookupNorm c.subject n = some av := by
  unfold attrStep at h
  split at h
  · cases h
  · rename_i info hinfo
    refine ⟨info, hinfo, ?_⟩
    intro n hn
    obtain ⟨x', y', hxy'⟩ := foldlM_some_forall (f := fun sj n =>
      match lookupNorm c.subject n with
      | none => none
      | some av => some (if rr.2 then insertKV sj av.1 av.2 else sj)) h n hn
    cases hav : lookupNorm c.subject n with
    | none => simp [hav] at hxy'
    | some av => exact ⟨av, rfl⟩

/-- every name asked for by a referent of the entry (revealed or not) is in the held credential -/
theorem buildCredentialAttributes_held {r : Request} {s : SelectedW3C}
    {subj : List (String × SubjVal)} (h : buildCredentialAttributes r s = some subj)
    {rr : String × Bool} (hrr : rr ∈ s.attrs) :
    ∃ info, r.attrs.lookup rr.1 = some info ∧
      ∀ n ∈ info.allNames, ∃ av, lookupNorm s.cred.subject n = some av := by
  unfold buildCredentialAttributes at h
  split at h
  · cases h
  · rename_i sj hsj
    obtain ⟨x, y, hxy⟩ := foldlM_some_forall (f := attrStep r s.cred) hsj rr hrr
    exact attrStep_held hxy

end AnonModel.Prover

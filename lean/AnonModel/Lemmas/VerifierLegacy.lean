import AnonModel.Model.Verifier
import AnonModel.Lemmas.Interval
/-!
Helper lemmas for the soundness theorems of the legacy verifier model
(`Model/Verifier.lean: verifyLegacy`), used by `Props/C01Legacy … C12Legacy`.

Contents:
* generic facts on association lists (`lookup`, `keys`), `noDup`, `sameSet`, a pigeonhole lemma,
  `mapM` in `Option`;
* `restrictionsOutcome_ok_true_iff`, `restrictionsOutcome_ne_panic`, `restrictionsOutcome_ne_ok_false`;
* `verifyLegacy_ok_true_iff`: acceptance unfolded into the conjunction of the checks performed;
* `verify_some_true`: what `IdealCL.verify … = some true` yields;
* `subCtxs_get`, `subCtxFor_some`, `revocationRegistry_some`: entry `i` of the contexts handed to
  the CL verifier;
* `SubSound` (vocabulary of the property files), `ok_subs`, `subSound_of_ok`, `ok_sub_exists`;
* `attrLocals_mem`, `predLocals_mem`: which local intervals the verifier collects per credential;
* one elimination lemma per structural check (`compareAttrs_iff`, `revealedValuesOk_single/_group`,
  `unrevealedOk_elim`, `predicatesOk_elim`), for restrictions (`attrValueMap`,
  `attrRestrictionOk_elim`, `gatherFilter_some`, `attrClause_elim`) and for
  `check_unique_attr_referents` (`uniqueReferents_exactly_one`);
* one small honest scenario `Honest.{ctx, req, pres}` (accepted), reused for non-vacuity.
-/
namespace AnonModel.Verifier
open AnonModel.Query (Query Filter)
open AnonModel.Interval (Ivl Overrides)
open AnonModel.IdealCL

/-! ### association lists -/

theorem mem_keys {α β : Type} {m : List (α × β)} {k : α} :
    k ∈ keys m ↔ ∃ v, (k, v) ∈ m := by
  simp only [keys, List.mem_map]
  constructor
  · rintro ⟨⟨k', v⟩, h, rfl⟩; exact ⟨v, h⟩
  · rintro ⟨v, h⟩; exact ⟨(k, v), h, rfl⟩

theorem mem_keys_of_mem {α β : Type} {m : List (α × β)} {kv : α × β} (h : kv ∈ m) :
    kv.1 ∈ keys m := List.mem_map_of_mem h

/-- a successful (first-match) lookup returns an entry of the list -/
theorem mem_of_lookup {α β : Type} [BEq α] [LawfulBEq α] {m : List (α × β)} {k : α} {v : β}
    (h : m.lookup k = some v) : (k, v) ∈ m := by
  induction m with
  | nil => simp at h
  | cons x xs ih =>
    obtain ⟨k', v'⟩ := x
    rw [List.lookup_cons] at h
    cases hk : k == k' with
    | true =>
      rw [hk] at h; simp only [Option.some.injEq] at h
      have := eq_of_beq hk; subst this; subst h; exact List.mem_cons_self ..
    | false => rw [hk] at h; exact List.mem_cons_of_mem _ (ih h)

/-- a key of the list has a (first-match) lookup result -/
theorem lookup_of_mem_keys {α β : Type} [BEq α] [LawfulBEq α] {m : List (α × β)} {k : α}
    (h : k ∈ keys m) : ∃ v, m.lookup k = some v := by
  induction m with
  | nil => simp [keys] at h
  | cons x xs ih =>
    obtain ⟨k', v'⟩ := x
    rw [List.lookup_cons]
    cases hk : k == k' with
    | true => exact ⟨v', rfl⟩
    | false =>
      simp only [keys, List.map_cons, List.mem_cons] at h
      rcases h with h | h
      · subst h; simp at hk
      · exact ih h

theorem lookup_none_of_not_mem_keys {α β : Type} [BEq α] [LawfulBEq α] {m : List (α × β)} {k : α}
    (h : k ∉ keys m) : m.lookup k = none := by
  cases hl : m.lookup k with
  | none => rfl
  | some v => exact absurd (mem_keys.mpr ⟨v, mem_of_lookup hl⟩) h

theorem mem_keys_of_lookup {α β : Type} [BEq α] [LawfulBEq α] {m : List (α × β)} {k : α} {v : β}
    (h : m.lookup k = some v) : k ∈ keys m := mem_keys.mpr ⟨v, mem_of_lookup h⟩

/-- with unique keys, membership is lookup -/
theorem lookup_of_mem_nodup {α β : Type} [BEq α] [LawfulBEq α] {m : List (α × β)} {k : α} {v : β}
    (hnd : (keys m).Nodup) (h : (k, v) ∈ m) : m.lookup k = some v := by
  induction m with
  | nil => cases h
  | cons x xs ih =>
    obtain ⟨k', v'⟩ := x
    simp only [keys, List.map_cons, List.nodup_cons] at hnd
    rw [List.lookup_cons]
    rcases List.mem_cons.mp h with h' | h'
    · cases h'; simp
    · have hne : (k == k') = false := by
        cases hk : k == k' with
        | false => rfl
        | true =>
          have := eq_of_beq hk; subst this
          exact absurd (mem_keys (m := xs) |>.mpr ⟨v, h'⟩) hnd.1
      rw [hne]; exact ih hnd.2 h'

/-! ### `noDup`, `sameSet` -/

theorem noDup_iff (l : List String) : noDup l = true ↔ l.Nodup := by
  induction l with
  | nil => simp [noDup]
  | cons x xs ih =>
    simp only [noDup, Bool.and_eq_true, Bool.not_eq_true', List.nodup_cons, ih]
    constructor
    · rintro ⟨h1, h2⟩
      refine ⟨fun hm => ?_, h2⟩
      rw [List.contains_iff_mem.mpr hm] at h1; cases h1
    · rintro ⟨h1, h2⟩
      refine ⟨?_, h2⟩
      cases hc : xs.contains x with
      | false => rfl
      | true => exact absurd (List.contains_iff_mem.mp hc) h1

theorem sameSet_iff (a b : List String) : sameSet a b = true ↔ ∀ x, x ∈ a ↔ x ∈ b := by
  simp only [sameSet, Bool.and_eq_true, List.all_eq_true, List.contains_iff_mem]
  constructor
  · rintro ⟨h1, h2⟩ x; exact ⟨h1 x, h2 x⟩
  · intro h; exact ⟨fun x => (h x).mp, fun x => (h x).mpr⟩

/-- pigeonhole: a duplicate-free list contained in a list that is not longer has the same members,
and the other list is duplicate-free too -/
theorem subset_of_nodup_length {l₁ : List String} :
    ∀ {l₂ : List String}, l₁.Nodup → l₁ ⊆ l₂ → l₂.length ≤ l₁.length → l₂ ⊆ l₁ ∧ l₂.Nodup := by
  induction l₁ with
  | nil =>
    intro l₂ _ _ hlen
    have : l₂ = [] := List.eq_nil_of_length_eq_zero (by simpa using hlen)
    subst this; exact ⟨fun _ h => h, List.nodup_nil⟩
  | cons a t ih =>
    intro l₂ h₁ hsub hlen
    rw [List.nodup_cons] at h₁
    have ha : a ∈ l₂ := hsub (List.mem_cons_self ..)
    have htsub : t ⊆ l₂.erase a := by
      intro x hx
      have hxa : x ≠ a := fun h => h₁.1 (h ▸ hx)
      exact (List.mem_erase_of_ne hxa).2 (hsub (List.mem_cons_of_mem _ hx))
    have hlen' : (l₂.erase a).length ≤ t.length := by
      rw [List.length_erase]; simp only [ha, if_true, List.length_cons] at hlen ⊢; omega
    obtain ⟨hs, hnd⟩ := ih h₁.2 htsub hlen'
    constructor
    · intro x hx
      by_cases hxa : x = a
      · subst hxa; exact List.mem_cons_self ..
      · exact List.mem_cons_of_mem _ (hs ((List.mem_erase_of_ne hxa).2 hx))
    · have hna : a ∉ l₂.erase a := fun h => h₁.1 (hs h)
      exact (List.perm_cons_erase ha).nodup_iff.mpr (List.nodup_cons.mpr ⟨hna, hnd⟩)

/-- `eraseDups` (the distinct requested names) has no duplicates -/
theorem nodup_eraseDups (l : List String) : l.eraseDups.Nodup := by
  suffices h : ∀ n (l : List String), l.length ≤ n → l.eraseDups.Nodup from h l.length l (Nat.le_refl _)
  intro n
  induction n with
  | zero =>
    intro l hl
    have : l = [] := List.eq_nil_of_length_eq_zero (by omega)
    subst this; simp
  | succ n ih =>
    intro l hl
    cases l with
    | nil => simp
    | cons a as =>
      rw [List.eraseDups_cons, List.nodup_cons]
      constructor
      · intro hm
        have := List.mem_eraseDups.mp hm
        simp at this
      · apply ih
        have := List.length_filter_le (fun b => !b == a) as
        simp only [List.length_cons] at hl
        omega

/-! ### `mapM` in `Option` -/

theorem mapM_some_get {α β : Type} (f : α → Option β) :
    ∀ (l : List α) (r : List β), l.mapM f = some r →
      r.length = l.length ∧ ∀ (i : Nat) a, l[i]? = some a → ∃ b, r[i]? = some b ∧ f a = some b := by
  intro l
  induction l with
  | nil =>
    intro r h
    simp only [List.mapM_nil, pure, Option.some.injEq] at h
    subst h; simp
  | cons x xs ih =>
    intro r h
    rw [List.mapM_cons] at h
    cases hx : f x with
    | none => rw [hx] at h; simp at h
    | some b =>
      cases hxs : xs.mapM f with
      | none => rw [hx, hxs] at h; simp at h
      | some bs =>
        rw [hx, hxs] at h
        simp only [Option.bind_eq_bind, Option.bind_some, pure, Option.some.injEq] at h
        subst h
        obtain ⟨hlen, hget⟩ := ih bs hxs
        refine ⟨by simp [hlen], ?_⟩
        intro i a hi
        cases i with
        | zero =>
          simp only [List.getElem?_cons_zero, Option.some.injEq] at hi
          subst hi; exact ⟨b, by simp, hx⟩
        | succ j =>
          simp only [List.getElem?_cons_succ] at hi ⊢
          exact hget j a hi

/-! ### `verify_requested_restrictions` -/

/-- the predicate loop of `verify_requested_restrictions` never panics -/
theorem go_ne_panic (ctx : Ctx) (r : Request) (p : Presentation) (l : List (String × PredInfo))
    (s : Nat) : restrictionsOutcome.go ctx r p l ≠ .panic s := by
  induction l with
  | nil => simp [restrictionsOutcome.go]
  | cons x xs ih =>
    obtain ⟨ref, info⟩ := x
    unfold restrictionsOutcome.go
    split
    · exact ih
    · split
      · simp
      · split
        · simp
        · split
          · simp
          · split
            · exact ih
            · simp

theorem go_ne_ok_false (ctx : Ctx) (r : Request) (p : Presentation) (l : List (String × PredInfo)) :
    restrictionsOutcome.go ctx r p l ≠ .ok false := by
  induction l with
  | nil => simp [restrictionsOutcome.go]
  | cons x xs ih =>
    obtain ⟨ref, info⟩ := x
    unfold restrictionsOutcome.go
    split
    · exact ih
    · split
      · simp
      · split
        · simp
        · split
          · simp
          · split
            · exact ih
            · simp

/-- the predicate loop succeeds iff every restricted predicate referent passes -/
theorem go_ok_true_iff (ctx : Ctx) (r : Request) (p : Presentation) (l : List (String × PredInfo)) :
    restrictionsOutcome.go ctx r p l = .ok true ↔
      ∀ kv ∈ l, ∀ q, kv.2.restrictions = some q →
        ∃ pi id f, p.predicates.lookup kv.1 = some pi ∧ p.identifiers[pi]? = some id ∧
          gatherFilter ctx id = some f ∧
          Query.eval Ident.isLegacyDid (predValueMap r p kv.2 pi) f q = true := by
  induction l with
  | nil => simp [restrictionsOutcome.go]
  | cons x xs ih =>
    obtain ⟨ref, info⟩ := x
    unfold restrictionsOutcome.go
    simp only [List.mem_cons, forall_eq_or_imp]
    split
    · rename_i hnone
      rw [ih]; simp [hnone]
    · rename_i q hq
      simp only [hq, Option.some.injEq, forall_eq']
      split
      · rename_i h1; simp [h1]
      · rename_i pi h1
        split
        · rename_i h2; simp [h1, h2]
        · rename_i id h2
          split
          · rename_i h3; simp [h1, h2, h3]
          · rename_i f h3
            split
            · rename_i h4
              rw [ih]; simp [h1, h2, h3, h4]
            · rename_i h4; simp [h1, h2, h3, h4]

/-! ### the outcome of `verify_presentation` -/

/-- the attribute clause of `verify_requested_restrictions` for one requested attribute -/
def attrClause (ctx : Ctx) (p : Presentation) (kv : String × AttrInfo) : Bool :=
  if Query.isSelfAttested kv.2.restrictions ((keys p.selfAttested).contains kv.1) then true
  else match kv.2.restrictions with
    | none => true
    | some q => attrRestrictionOk ctx p kv.1 kv.2 q

theorem restrictionsOutcome_ne_panic (ctx : Ctx) (r : Request) (p : Presentation) (s : Nat) :
    restrictionsOutcome ctx r p ≠ .panic s := by
  unfold restrictionsOutcome
  split
  · simp
  · split
    · simp
    · exact go_ne_panic ctx r p r.preds s

theorem restrictionsOutcome_ne_ok_false (ctx : Ctx) (r : Request) (p : Presentation) :
    restrictionsOutcome ctx r p ≠ .ok false := by
  unfold restrictionsOutcome
  split
  · simp
  · split
    · simp
    · exact go_ne_ok_false ctx r p r.preds

theorem restrictionsOutcome_ok_true_iff (ctx : Ctx) (r : Request) (p : Presentation) :
    restrictionsOutcome ctx r p = .ok true ↔
      tagsMixed r = false ∧ (∀ kv ∈ r.attrs, attrClause ctx p kv = true) ∧
      ∀ kv ∈ r.preds, ∀ q, kv.2.restrictions = some q →
        ∃ pi id f, p.predicates.lookup kv.1 = some pi ∧ p.identifiers[pi]? = some id ∧
          gatherFilter ctx id = some f ∧
          Query.eval Ident.isLegacyDid (predValueMap r p kv.2 pi) f q = true := by
  unfold restrictionsOutcome
  split
  · rename_i h; simp [h]
  · rename_i h
    split
    · rename_i h2
      simp only [Bool.not_eq_true', ← Bool.not_eq_true, List.all_eq_true] at h2
      constructor
      · intro hc; cases hc
      · rintro ⟨_, ha, _⟩; exact absurd ha h2
    · rename_i h2
      simp only [Bool.not_eq_true', Bool.not_eq_false, List.all_eq_true] at h2
      rw [go_ok_true_iff]
      simp only [Bool.not_eq_true] at h
      exact ⟨fun hg => ⟨h, h2, hg⟩, fun hg => hg.2.2⟩

/-- `verify_presentation` returns `Ok(true)` iff every check it performs passes -/
theorem verifyLegacy_ok_true_iff (ctx : Ctx) (r : Request) (p : Presentation) :
    verifyLegacy ctx r p = .ok true ↔
      indicesOk p = true ∧ uniqueReferents p = true ∧ compareAttrs r p = true ∧
      revealedValuesOk r p = true ∧ unrevealedOk ctx r p = true ∧ predicatesOk r p = true ∧
      restrictionsOutcome ctx r p = .ok true ∧ listsOk ctx = true ∧
      ∃ cs, subCtxs ctx r p = some cs ∧ IdealCL.verify cs p.subs p.agg r.nonce true = some true := by
  unfold verifyLegacy
  cases h1 : indicesOk p <;> simp only [Bool.not_false, Bool.not_true, if_true, if_false, Bool.false_eq_true, false_and, true_and, reduceCtorEq]
  cases h2 : uniqueReferents p <;> simp only [Bool.not_false, Bool.not_true, if_true, if_false, Bool.false_eq_true, false_and, true_and, reduceCtorEq]
  cases h3 : compareAttrs r p <;> simp only [Bool.not_false, Bool.not_true, if_true, if_false, Bool.false_eq_true, false_and, true_and, reduceCtorEq]
  cases h4 : revealedValuesOk r p <;> simp only [Bool.not_false, Bool.not_true, if_true, if_false, Bool.false_eq_true, false_and, true_and, reduceCtorEq]
  cases h5 : unrevealedOk ctx r p <;> simp only [Bool.not_false, Bool.not_true, if_true, if_false, Bool.false_eq_true, false_and, true_and, reduceCtorEq]
  cases h6 : predicatesOk r p <;> simp only [Bool.not_false, Bool.not_true, if_true, if_false, Bool.false_eq_true, false_and, true_and, reduceCtorEq]
  cases h7 : restrictionsOutcome ctx r p with
  | panic s => simp
  | err => simp
  | ok b =>
    cases b with
    | false => simp
    | true =>
      simp only [true_and]
      cases h8 : listsOk ctx <;> simp only [Bool.not_false, Bool.not_true, if_true, if_false, Bool.false_eq_true, false_and, true_and, reduceCtorEq]
      cases h9 : subCtxs ctx r p with
      | none => simp
      | some cs =>
        simp only [Option.some.injEq, exists_eq_left']
        cases h10 : IdealCL.verify cs p.subs p.agg r.nonce true with
        | none => simp
        | some b => simp

/-! ### the ideal CL verifier and the contexts handed to it -/

theorem ite_none_some_eq {α : Type} {c : Prop} [Decidable c] {x y : α}
    (h : (if c then none else some x) = some y) : ¬ c ∧ x = y := by
  by_cases hc : c
  · rw [if_pos hc] at h; cases h
  · rw [if_neg hc] at h; exact ⟨hc, Option.some.inj h⟩

/-- what `ProofVerifier::verify` returning `Ok(true)` (with the link secret registered as a common
attribute) yields in the ideal functionality -/
theorem verify_some_true {cs : List SubCtx} {subs : List SymSub} {agg : SymAgg} {nonce : String}
    (h : IdealCL.verify cs subs agg nonce true = some true) :
    cs.length = subs.length ∧ agg.intact = true ∧ agg.nonce = nonce ∧
    agg.bound = (cs.zip subs).map (fun cs => (cs.2.uid, nrpChecked cs.1 cs.2)) ∧
    (∀ s t, s ∈ subs → t ∈ subs → s.ms = t.ms) ∧
    (∀ (i : Nat) c s, cs[i]? = some c → subs[i]? = some s →
      paramsConsistent s = true ∧ primaryOk c s = true ∧
      (nrpChecked c s = true → nrpOk c s = true)) := by
  unfold IdealCL.verify at h
  by_cases hlen' : cs.length ≠ subs.length
  · rw [if_pos hlen'] at h; cases h
  · rw [if_neg hlen'] at h
    have hlen : cs.length = subs.length := Decidable.not_not.mp hlen'
    simp only [] at h
    cases hpc : (cs.zip subs).all (fun cs => paramsConsistent cs.2) with
    | false => rw [hpc] at h; simp at h
    | true =>
      rw [hpc] at h
      simp only [Bool.not_true, Bool.false_eq_true, if_false, Bool.true_and] at h
      obtain ⟨hms0, h'⟩ := ite_none_some_eq h
      have hms : ∀ hd tl, subs = hd :: tl → ∀ t ∈ tl, t.ms = hd.ms := by
        intro hd tl e t ht
        subst e
        simp only [Bool.not_eq_true', Bool.not_eq_false, List.all_eq_true, beq_iff_eq] at hms0
        exact hms0 t ht
      clear h
      simp only [Bool.and_eq_true, decide_eq_true_eq, List.all_eq_true, Bool.or_eq_true,
        Bool.not_eq_true'] at h'
      obtain ⟨⟨⟨hint, hnonce⟩, hbound⟩, hall⟩ := h'
      refine ⟨hlen, hint, hnonce, hbound, ?_, ?_⟩
      · -- one link secret
        intro s t hs ht
        cases hsubs : subs with
        | nil => rw [hsubs] at hs; cases hs
        | cons hd tl =>
          have key : ∀ u ∈ hd :: tl, u.ms = hd.ms := by
            intro u hu
            rcases List.mem_cons.mp hu with rfl | hu
            · rfl
            · exact hms hd tl hsubs u hu
          rw [hsubs] at hs ht
          rw [key s hs, key t ht]
      · intro i c s hc hs
        have hz : (c, s) ∈ cs.zip subs :=
          List.mem_of_getElem? (List.getElem?_zip_eq_some.mpr ⟨hc, hs⟩)
        simp only [List.all_eq_true] at hpc
        have h1 := hpc (c, s) hz
        have h2 := hall (c, s) hz
        refine ⟨h1, h2.1, fun hn => ?_⟩
        rcases h2.2 with h3 | h3
        · rw [hn] at h3; cases h3
        · exact h3

theorem subCtxs_get {ctx : Ctx} {r : Request} {p : Presentation} {cs : List SubCtx}
    (h : subCtxs ctx r p = some cs) :
    cs.length = p.identifiers.length ∧
    ∀ (i : Nat) id, p.identifiers[i]? = some id →
      ∃ c, cs[i]? = some c ∧ subCtxFor ctx r p i id = some c := by
  unfold subCtxs at h
  obtain ⟨hlen, hget⟩ := mapM_some_get _ _ _ h
  refine ⟨by simpa using hlen, ?_⟩
  intro i id hid
  have hi : i < p.identifiers.length := by
    rcases List.getElem?_eq_some_iff.mp hid with ⟨hi, _⟩; exact hi
  obtain ⟨c, hc, hf⟩ := hget i i (List.getElem?_range hi)
  rw [hid] at hf
  exact ⟨c, hc, hf⟩

/-- everything the per-identifier loop body checked when it produced a context -/
theorem subCtxFor_some {ctx : Ctx} {r : Request} {p : Presentation} {i : Nat} {id : Identifier}
    {c : SubCtx} (h : subCtxFor ctx r p i id = some c) :
    ∃ al pl cd s sc regKey acc,
      attrLocals r p i = some al ∧ predLocals r p i = some pl ∧
      ctx.credDefs.lookup id.credDefId = some cd ∧
      Interval.checkLegacy cd.revocable (Interval.foldLocals al) (Interval.foldLocals pl)
        r.nonRevoked id.revRegId ctx.override id.timestamp = true ∧
      p.subs[i]? = some s ∧ ctx.schemas.lookup id.schemaId = some sc ∧
      revocationRegistry ctx id = some (regKey, acc) ∧
      c = { schemaAttrs := sc.attrNames.map Names.commonView, key := cd.key,
            hasRevKey := cd.revocable, regKey := regKey, acc := acc } ∧
      addSubProofRequestOk c s = true := by
  unfold subCtxFor at h
  cases hal : attrLocals r p i with
  | none => rw [hal] at h; simp at h
  | some al =>
  cases hpl : predLocals r p i with
  | none => rw [hal, hpl] at h; simp at h
  | some pl =>
  rw [hal, hpl] at h
  simp only [] at h
  cases hcd : ctx.credDefs.lookup id.credDefId with
  | none => rw [hcd] at h; simp at h
  | some cd =>
  rw [hcd] at h
  simp only [] at h
  cases hck : Interval.checkLegacy cd.revocable (Interval.foldLocals al) (Interval.foldLocals pl)
        r.nonRevoked id.revRegId ctx.override id.timestamp with
  | false => rw [hck] at h; simp at h
  | true =>
  rw [hck] at h
  simp only [Bool.not_true, Bool.false_eq_true, if_false] at h
  cases hs : p.subs[i]? with
  | none => rw [hs] at h; simp at h
  | some s =>
  rw [hs] at h
  simp only [] at h
  cases hsc : ctx.schemas.lookup id.schemaId with
  | none => rw [hsc] at h; simp at h
  | some sc =>
  rw [hsc] at h
  simp only [] at h
  cases hrr : revocationRegistry ctx id with
  | none => rw [hrr] at h; simp at h
  | some ra =>
  obtain ⟨regKey, acc⟩ := ra
  rw [hrr] at h
  simp only [] at h
  split at h
  · rename_i hadd
    simp only [Option.some.injEq] at h
    exact ⟨al, pl, cd, s, sc, regKey, acc, rfl, rfl, rfl, hck, rfl, rfl, rfl, h.symm, h ▸ hadd⟩
  · cases h

/-- `get_revocation_registry` when the identifier names a registry and a timestamp -/
theorem revocationRegistry_some {ctx : Ctx} {id : Identifier} {rid : String} {ts : Nat}
    {regKey acc : Option Nat} (hr : id.revRegId = some rid) (ht : id.timestamp = some ts)
    (h : revocationRegistry ctx id = some (regKey, acc)) :
    ∃ defs ls d l, ctx.revRegDefs = some defs ∧ ctx.lists = some ls ∧ defs.lookup rid = some d ∧
      findList ls rid ts = some l ∧ regKey = some d.regKey ∧ acc = l.acc := by
  unfold revocationRegistry at h
  rw [hr, ht] at h
  simp only [] at h
  cases hd : ctx.revRegDefs with
  | none => rw [hd] at h; simp at h
  | some defs =>
  cases hl : ctx.lists with
  | none => rw [hd, hl] at h; simp at h
  | some ls =>
  rw [hd, hl] at h
  simp only [] at h
  cases hdd : defs.lookup rid with
  | none => rw [hdd] at h; simp at h
  | some d =>
  cases hll : findList ls rid ts with
  | none => rw [hdd, hll] at h; simp at h
  | some l =>
  rw [hdd, hll] at h
  simp only [Option.some.injEq, Prod.mk.injEq] at h
  exact ⟨defs, ls, d, l, rfl, rfl, hdd, hll, h.1.symm, h.2.symm⟩

/-- without registry id or timestamp no registry is looked up -/
theorem revocationRegistry_none {ctx : Ctx} {id : Identifier}
    (h : id.revRegId = none ∨ id.timestamp = none) :
    revocationRegistry ctx id = some (none, none) := by
  unfold revocationRegistry
  rcases h with h | h
  · rw [h]
  · rw [h]; cases id.revRegId <;> rfl

theorem findList_some {ls : List StatusListInfo} {rid : String} {ts : Nat} {l : StatusListInfo}
    (h : findList ls rid ts = some l) : l ∈ ls ∧ l.regId = some rid ∧ l.ts = some ts := by
  unfold findList at h
  have h1 := List.mem_of_find?_eq_some h
  have h2 := List.find?_some h
  simp only [Bool.and_eq_true, beq_iff_eq] at h2
  exact ⟨List.mem_reverse.mp h1, h2.1, h2.2⟩

/-- **sound sub-proof**: the sub-proof `s` at index `i` of presentation `p` is intact, was made from
a credential signed by the key of the credential definition the verifier supplied for identifier
`i`, over exactly the (normalised) attribute names of the supplied schema, and everything it reveals
or proves is true of the signed values -/
def SubSound (ctx : Ctx) (p : Presentation) (i : Nat) (s : SymSub) : Prop :=
  ∃ id cd sc, p.identifiers[i]? = some id ∧ ctx.credDefs.lookup id.credDefId = some cd ∧
    ctx.schemas.lookup id.schemaId = some sc ∧ s.intact = true ∧ s.cred.key = cd.key ∧
    (∀ a, a ∈ sc.attrNames.map Names.commonView ↔ a ∈ s.cred.attrs.map Prod.fst) ∧
    (∀ kv ∈ s.revealed, s.cred.attrs.lookup kv.1 = some kv.2) ∧
    (∀ pr ∈ s.preds, IdealCL.predHolds s.cred.attrs pr = true)

theorem SubSound.intact {ctx : Ctx} {p : Presentation} {i : Nat} {s : SymSub}
    (h : SubSound ctx p i s) : s.intact = true := by
  obtain ⟨_, _, _, _, _, _, h1, _⟩ := h; exact h1

theorem SubSound.revealed_signed {ctx : Ctx} {p : Presentation} {i : Nat} {s : SymSub}
    (h : SubSound ctx p i s) : ∀ kv ∈ s.revealed, s.cred.attrs.lookup kv.1 = some kv.2 := by
  obtain ⟨_, _, _, _, _, _, _, _, _, h1, _⟩ := h; exact h1

theorem SubSound.preds_hold {ctx : Ctx} {p : Presentation} {i : Nat} {s : SymSub}
    (h : SubSound ctx p i s) : ∀ pr ∈ s.preds, predHolds s.cred.attrs pr = true := by
  obtain ⟨_, _, _, _, _, _, _, _, _, _, h1⟩ := h; exact h1

theorem primaryOk_iff (c : SubCtx) (s : SymSub) :
    primaryOk c s = true ↔ s.intact = true ∧ s.cred.key = c.key ∧
      (∀ a, a ∈ c.schemaAttrs ↔ a ∈ s.cred.attrs.map Prod.fst) ∧
      (∀ kv ∈ s.revealed, s.cred.attrs.lookup kv.1 = some kv.2) ∧
      (∀ pr ∈ s.preds, predHolds s.cred.attrs pr = true) := by
  simp only [primaryOk, Bool.and_eq_true, decide_eq_true_eq, List.all_eq_true,
    List.contains_iff_mem, beq_iff_eq]
  constructor
  · rintro ⟨⟨⟨⟨h1, h2⟩, h3, h4⟩, h5⟩, h6⟩
    exact ⟨h1, h2, fun a => ⟨h3 a, h4 a⟩, h5, h6⟩
  · rintro ⟨h1, h2, h3, h5, h6⟩
    exact ⟨⟨⟨⟨h1, h2⟩, fun a => (h3 a).mp, fun a => (h3 a).mpr⟩, h5⟩, h6⟩

/-! ### acceptance ⇒ sound sub-proofs -/

/-- acceptance: what holds of the aggregated proof and of every sub-proof / identifier pair -/
theorem ok_subs {ctx : Ctx} {r : Request} {p : Presentation}
    (h : verifyLegacy ctx r p = .ok true) :
    p.subs.length = p.identifiers.length ∧ p.agg.intact = true ∧ p.agg.nonce = r.nonce ∧
    (∀ s t, s ∈ p.subs → t ∈ p.subs → s.ms = t.ms) ∧
    ∃ cs : List SubCtx, cs.length = p.subs.length ∧
      p.agg.bound = (cs.zip p.subs).map (fun cs => (cs.2.uid, nrpChecked cs.1 cs.2)) ∧
      ∀ (i : Nat) s, p.subs[i]? = some s →
        ∃ id c, p.identifiers[i]? = some id ∧ cs[i]? = some c ∧ subCtxFor ctx r p i id = some c ∧
          paramsConsistent s = true ∧ primaryOk c s = true ∧
          (nrpChecked c s = true → nrpOk c s = true) := by
  obtain ⟨-, -, -, -, -, -, -, -, cs, hcs, hv⟩ := (verifyLegacy_ok_true_iff ctx r p).mp h
  obtain ⟨hlen, hint, hnonce, hbound, hms, hall⟩ := verify_some_true hv
  obtain ⟨hlen2, hget⟩ := subCtxs_get hcs
  refine ⟨by omega, hint, hnonce, hms, cs, hlen, hbound, ?_⟩
  intro i s hs
  have hi : i < p.subs.length := (List.getElem?_eq_some_iff.mp hs).1
  have hi2 : i < p.identifiers.length := by omega
  obtain ⟨c, hc, hf⟩ := hget i p.identifiers[i] (List.getElem?_eq_getElem hi2)
  obtain ⟨h1, h2, h3⟩ := hall i c s hc hs
  exact ⟨p.identifiers[i], c, List.getElem?_eq_getElem hi2, hc, hf, h1, h2, h3⟩

/-- acceptance ⇒ every sub-proof is sound for the identifier at its index -/
theorem subSound_of_ok {ctx : Ctx} {r : Request} {p : Presentation}
    (h : verifyLegacy ctx r p = .ok true) (i : Nat) (s : SymSub) (hs : p.subs[i]? = some s) :
    SubSound ctx p i s := by
  obtain ⟨-, -, -, -, cs, -, -, hall⟩ := ok_subs h
  obtain ⟨id, c, hid, -, hf, -, hp, -⟩ := hall i s hs
  obtain ⟨al, pl, cd, s', sc, regKey, acc, -, -, hcd, -, hs', hsc, -, hc, -⟩ := subCtxFor_some hf
  obtain ⟨h1, h2, h3, h4, h5⟩ := (primaryOk_iff c s).mp hp
  subst hc
  exact ⟨id, cd, sc, hid, hcd, hsc, h1, h2, h3, h4, h5⟩

/-- an index below the number of identifiers has a sub-proof (after acceptance) -/
theorem ok_sub_exists {ctx : Ctx} {r : Request} {p : Presentation}
    (h : verifyLegacy ctx r p = .ok true) {i : Nat} {id : Identifier}
    (hid : p.identifiers[i]? = some id) : ∃ s, p.subs[i]? = some s ∧ SubSound ctx p i s := by
  have hlen := (ok_subs h).1
  have hi : i < p.identifiers.length := (List.getElem?_eq_some_iff.mp hid).1
  have hi2 : i < p.subs.length := by omega
  exact ⟨p.subs[i], List.getElem?_eq_getElem hi2,
    subSound_of_ok h i _ (List.getElem?_eq_getElem hi2)⟩

/-! ### revocation: local intervals, status lists -/

theorem mapM_some_mem {α β : Type} (f : α → Option β) (l : List α) (r : List β)
    (h : l.mapM f = some r) : ∀ b, b ∈ r ↔ ∃ a ∈ l, f a = some b := by
  obtain ⟨hlen, hget⟩ := mapM_some_get f l r h
  intro b
  constructor
  · intro hb
    obtain ⟨i, hi, rfl⟩ := List.mem_iff_getElem.mp hb
    have hi' : i < l.length := by omega
    obtain ⟨b', hb', hf⟩ := hget i l[i] (List.getElem?_eq_getElem hi')
    rw [List.getElem?_eq_getElem hi] at hb'
    cases hb'
    exact ⟨l[i], List.getElem_mem hi', hf⟩
  · rintro ⟨a, ha, hf⟩
    obtain ⟨i, hi, rfl⟩ := List.mem_iff_getElem.mp ha
    obtain ⟨b', hb', hf'⟩ := hget i l[i] (List.getElem?_eq_getElem hi)
    rw [hf] at hf'; cases hf'
    exact List.mem_of_getElem? hb'

/-- the local intervals `get_attributes_for_credential` collects for credential `i`: those of the
requested attributes whose referent is a revealed single or a revealed group with that index -/
theorem attrLocals_mem {r : Request} {p : Presentation} {i : Nat} {al : List (Option Ivl)}
    (h : attrLocals r p i = some al) (x : Option Ivl) :
    x ∈ al ↔ ∃ ref a, r.attrs.lookup ref = some a ∧ a.nonRevoked = x ∧
      ((∃ info, (ref, info) ∈ p.revealed ∧ info.idx = i) ∨ (∃ g, (ref, g) ∈ p.groups ∧ g.idx = i)) := by
  unfold attrLocals at h
  rw [mapM_some_mem _ _ _ h x]
  simp only [List.mem_append, List.mem_map, List.mem_filter, decide_eq_true_eq, Option.map_eq_some_iff]
  constructor
  · rintro ⟨ref, hm, a, ha, hx⟩
    refine ⟨ref, a, ha, hx, ?_⟩
    rcases hm with ⟨⟨ref', info⟩, ⟨hm, hi⟩, rfl⟩ | ⟨⟨ref', g⟩, ⟨hm, hi⟩, rfl⟩
    · exact Or.inl ⟨info, hm, hi⟩
    · exact Or.inr ⟨g, hm, hi⟩
  · rintro ⟨ref, a, ha, hx, hm⟩
    refine ⟨ref, ?_, a, ha, hx⟩
    rcases hm with ⟨info, hm, hi⟩ | ⟨g, hm, hi⟩
    · exact Or.inl ⟨(ref, info), ⟨hm, hi⟩, rfl⟩
    · exact Or.inr ⟨(ref, g), ⟨hm, hi⟩, rfl⟩

/-- the local intervals `get_predicates_for_credential` collects for credential `i` -/
theorem predLocals_mem {r : Request} {p : Presentation} {i : Nat} {pl : List (Option Ivl)}
    (h : predLocals r p i = some pl) (x : Option Ivl) :
    x ∈ pl ↔ ∃ ref q, r.preds.lookup ref = some q ∧ q.nonRevoked = x ∧ (ref, i) ∈ p.predicates := by
  unfold predLocals at h
  rw [mapM_some_mem _ _ _ h x]
  simp only [List.mem_map, List.mem_filter, decide_eq_true_eq, Option.map_eq_some_iff]
  constructor
  · rintro ⟨ref, ⟨⟨ref', j⟩, ⟨hm, hi⟩, rfl⟩, q, hq, hx⟩
    simp only at hi; subst hi
    exact ⟨ref', q, hq, hx, hm⟩
  · rintro ⟨ref, q, hq, hx, hm⟩
    exact ⟨ref, ⟨(ref, i), ⟨hm, rfl⟩, rfl⟩, q, hq, hx⟩

theorem listsOk_acc {ctx : Ctx} (h : listsOk ctx = true) {ls : List StatusListInfo}
    (hls : ctx.lists = some ls) {l : StatusListInfo} (hl : l ∈ ls) : l.acc.isSome = true := by
  unfold listsOk at h
  rw [hls] at h
  simp only [List.all_eq_true, Bool.and_eq_true] at h
  exact (h l hl).2

/-! ### the structural checks, one elimination lemma each -/

theorem compareAttrs_iff (r : Request) (p : Presentation) :
    compareAttrs r p = true ↔
      (∀ x, x ∈ keys r.attrs ↔
        x ∈ keys p.revealed ++ keys p.groups ++ keys p.unrevealed ++ keys p.selfAttested) ∧
      (∀ x, x ∈ keys r.preds ↔ x ∈ keys p.predicates) := by
  simp only [compareAttrs, Bool.and_eq_true, sameSet_iff]

/-- `verify_revealed_attribute_value` succeeded: the sub-proof reveals an attribute with the same
normal-form name whose value is the normalised `encoded` -/
theorem revealedValueOk_elim {name : String} {s : SymSub} {encoded : String}
    (h : revealedValueOk name s encoded = true) :
    ∃ kv ∈ s.revealed, Names.commonView kv.1 = Names.commonView name ∧
      Encode.normalizeEnc encoded = kv.2 := by
  unfold revealedValueOk at h
  cases hl : Names.lookupNorm s.revealed name with
  | none => rw [hl] at h; cases h
  | some kv =>
    rw [hl] at h
    simp only [beq_iff_eq] at h
    unfold Names.lookupNorm at hl
    have h1 := List.mem_of_find?_eq_some hl
    have h2 := List.find?_some hl
    simp only [beq_iff_eq] at h2
    exact ⟨kv, h1, h2, h⟩

/-- the revealed-singles half of `verify_revealed_attribute_values` -/
theorem revealedValuesOk_single {r : Request} {p : Presentation}
    (h : revealedValuesOk r p = true) {ref : String} {info : RevealedInfo}
    (hm : (ref, info) ∈ p.revealed) :
    ∃ a n s, r.attrs.lookup ref = some a ∧ a.name = some n ∧ p.subs[info.idx]? = some s ∧
      revealedValueOk n s info.encoded = true := by
  simp only [revealedValuesOk, Bool.and_eq_true, List.all_eq_true] at h
  have := h.1 _ hm
  simp only [] at this
  cases ha : r.attrs.lookup ref with
  | none => rw [ha] at this; cases this
  | some a =>
    rw [ha] at this; simp only [] at this
    cases hn : a.name with
    | none => rw [hn] at this; cases this
    | some n =>
      rw [hn] at this; simp only [] at this
      cases hs : p.subs[info.idx]? with
      | none => rw [hs] at this; cases this
      | some s =>
        rw [hs] at this
        exact ⟨a, n, s, rfl, hn, rfl, this⟩

/-- the groups half of `verify_revealed_attribute_values` -/
theorem revealedValuesOk_group {r : Request} {p : Presentation}
    (h : revealedValuesOk r p = true) {ref : String} {g : GroupInfo}
    (hm : (ref, g) ∈ p.groups) :
    ∃ a names s, r.attrs.lookup ref = some a ∧ a.names = some names ∧ p.subs[g.idx]? = some s ∧
      g.values.length = names.eraseDups.length ∧
      ∀ n ∈ names, ∃ re, g.values.lookup n = some re ∧ revealedValueOk n s re.2 = true := by
  simp only [revealedValuesOk, Bool.and_eq_true, List.all_eq_true] at h
  have := h.2 _ hm
  simp only [] at this
  cases hs : p.subs[g.idx]? with
  | none => rw [hs] at this; cases this
  | some s =>
    rw [hs] at this; simp only [] at this
    cases ha : r.attrs.lookup ref with
    | none => rw [ha] at this; cases this
    | some a =>
      rw [ha] at this; simp only [] at this
      cases hn : a.names with
      | none => rw [hn] at this; cases this
      | some names =>
        rw [hn] at this
        simp only [Bool.and_eq_true, decide_eq_true_eq, List.all_eq_true] at this
        refine ⟨a, names, s, rfl, hn, rfl, this.1, fun n hn' => ?_⟩
        have h2 := this.2 n hn'
        cases hv : g.values.lookup n with
        | none => rw [hv] at h2; cases h2
        | some re => rw [hv] at h2; exact ⟨re, rfl, h2⟩

theorem unrevealedOk_elim {ctx : Ctx} {r : Request} {p : Presentation}
    (h : unrevealedOk ctx r p = true) {ref : String} {i : Nat} (hm : (ref, i) ∈ p.unrevealed) :
    ∃ a id sc, r.attrs.lookup ref = some a ∧ p.identifiers[i]? = some id ∧
      ctx.schemas.lookup id.schemaId = some sc ∧
      ∀ n ∈ a.allNames, Names.hasNorm sc.attrNames n = true := by
  simp only [unrevealedOk, List.all_eq_true] at h
  have := h _ hm
  simp only [] at this
  cases ha : r.attrs.lookup ref with
  | none => rw [ha] at this; cases this
  | some a =>
    rw [ha] at this; simp only [] at this
    cases hid : p.identifiers[i]? with
    | none => rw [hid] at this; cases this
    | some id =>
      rw [hid] at this; simp only [] at this
      cases hsc : ctx.schemas.lookup id.schemaId with
      | none => rw [hsc] at this; cases this
      | some sc =>
        rw [hsc] at this
        simp only [List.all_eq_true] at this
        exact ⟨a, id, sc, rfl, rfl, hsc, this⟩

theorem predicatesOk_elim {r : Request} {p : Presentation}
    (h : predicatesOk r p = true) {ref : String} {i : Nat} (hm : (ref, i) ∈ p.predicates) :
    ∃ q s, r.preds.lookup ref = some q ∧ p.subs[i]? = some s ∧
      ∃ pr ∈ s.preds, Names.commonView pr.attr = Names.commonView q.name ∧ pr.ty = q.ty ∧
        pr.value = q.value := by
  simp only [predicatesOk, List.all_eq_true] at h
  have := h _ hm
  simp only [] at this
  cases hq : r.preds.lookup ref with
  | none => rw [hq] at this; cases this
  | some q =>
    rw [hq] at this; simp only [] at this
    cases hs : p.subs[i]? with
    | none => rw [hs] at this; cases this
    | some s =>
      rw [hs] at this
      simp only [List.any_eq_true, Bool.and_eq_true, beq_iff_eq] at this
      obtain ⟨pr, hpr, ⟨h1, h2⟩, h3⟩ := this
      exact ⟨q, s, rfl, rfl, pr, hpr, h1, h2, h3⟩

/-- `proof_attr_identifiers.get(referent)` is `Some` only for a referent of one of the three maps -/
theorem attrIdentifierIdx_some {p : Presentation} {ref : String} {i : Nat}
    (h : attrIdentifierIdx p ref = some i) :
    p.unrevealed.lookup ref = some i ∨
    (∃ g, p.groups.lookup ref = some g ∧ g.idx = i) ∨
    (∃ info, p.revealed.lookup ref = some info ∧ info.idx = i) := by
  unfold attrIdentifierIdx at h
  cases hu : p.unrevealed.lookup ref with
  | some j => rw [hu] at h; simp only [Option.some.injEq] at h; exact Or.inl (h ▸ rfl)
  | none =>
    rw [hu] at h; simp only [] at h
    cases hg : p.groups.lookup ref with
    | some g => rw [hg] at h; simp only [Option.some.injEq] at h; exact Or.inr (Or.inl ⟨g, rfl, h⟩)
    | none =>
      rw [hg] at h; simp only [] at h
      cases hr : p.revealed.lookup ref with
      | none => rw [hr] at h; simp at h
      | some info =>
        rw [hr] at h; simp only [Option.map_some, Option.some.injEq] at h
        exact Or.inr (Or.inr ⟨info, rfl, h⟩)

theorem attrIdentifierIdx_mem {p : Presentation} {ref : String} {i : Nat}
    (h : attrIdentifierIdx p ref = some i) :
    ref ∈ keys p.revealed ++ keys p.groups ++ keys p.unrevealed := by
  simp only [List.mem_append]
  rcases attrIdentifierIdx_some h with h | ⟨g, h, _⟩ | ⟨info, h, _⟩
  · exact Or.inr (mem_keys_of_lookup h)
  · exact Or.inl (Or.inr (mem_keys_of_lookup h))
  · exact Or.inl (Or.inl (mem_keys_of_lookup h))

/-! ### restrictions: filter, value map, unique referents -/

theorem gatherFilter_some {ctx : Ctx} {id : Identifier} {f : Filter}
    (h : gatherFilter ctx id = some f) :
    ∃ sc cd, ctx.schemas.lookup id.schemaId = some sc ∧ ctx.credDefs.lookup id.credDefId = some cd ∧
      f.schemaId = id.schemaId ∧ f.schemaIssuerId = sc.issuerId ∧ f.schemaName = sc.name ∧
      f.schemaVersion = sc.version ∧ f.issuerId = cd.issuerId ∧ f.credDefId = id.credDefId := by
  unfold gatherFilter at h
  cases hsc : ctx.schemas.lookup id.schemaId with
  | none => rw [hsc] at h; simp at h
  | some sc =>
    cases hcd : ctx.credDefs.lookup id.credDefId with
    | none => rw [hsc, hcd] at h; simp at h
    | some cd =>
      rw [hsc, hcd] at h
      simp only [Option.some.injEq] at h
      subst h
      exact ⟨sc, cd, rfl, rfl, rfl, rfl, rfl, rfl, rfl, rfl⟩

/-- the value map on which `verify_requested_restrictions` evaluates the restriction of an attribute
referent: for a single `name`, its revealed **raw** value (`none` if the referent is not in
`revealed_attrs`); for `names`, the raw values of the group members (`none` for a name the group
lacks or if the referent is not in `revealed_attr_groups`) -/
def attrValueMap (p : Presentation) (ref : String) (a : AttrInfo) : List (String × Option String) :=
  match a.name with
  | some name => [(name, (p.revealed.lookup ref).map (·.raw))]
  | none =>
    match a.names with
    | some names =>
      names.map (fun n => (n, ((p.groups.lookup ref).bind (fun g => g.values.lookup n)).map (·.1)))
    | none => []

theorem attrRestrictionOk_elim {ctx : Ctx} {p : Presentation} {ref : String} {a : AttrInfo}
    {q : Query} (h : attrRestrictionOk ctx p ref a q = true) :
    ∃ i id f, attrIdentifierIdx p ref = some i ∧ p.identifiers[i]? = some id ∧
      gatherFilter ctx id = some f ∧
      Query.eval Ident.isLegacyDid (attrValueMap p ref a) f q = true := by
  unfold attrRestrictionOk at h
  cases hi : attrIdentifierIdx p ref with
  | none => rw [hi] at h; cases h
  | some i =>
    rw [hi] at h; simp only [] at h
    cases hid : p.identifiers[i]? with
    | none => rw [hid] at h; cases h
    | some id =>
      rw [hid] at h; simp only [] at h
      cases hf : gatherFilter ctx id with
      | none => rw [hf] at h; cases h
      | some f =>
        rw [hf] at h; simp only [] at h
        refine ⟨i, id, f, rfl, hid, hf, ?_⟩
        unfold attrValueMap
        cases hn : a.name with
        | some name => rw [hn] at h; exact h
        | none =>
          rw [hn] at h; simp only [] at h ⊢
          cases hns : a.names with
          | none => rw [hns] at h; cases h
          | some names =>
            rw [hns] at h; simp only [] at h ⊢
            split at h
            · cases h
            · exact h

theorem uniqueReferents_iff (p : Presentation) :
    uniqueReferents p = true ↔ (keys p.revealed ++ keys p.groups ++ keys p.unrevealed).Nodup :=
  noDup_iff _

/-- `check_unique_attr_referents`: a referent of the three indexed attribute maps is in exactly one -/
theorem uniqueReferents_exactly_one {p : Presentation} (h : uniqueReferents p = true) {ref : String}
    (hm : ref ∈ keys p.revealed ++ keys p.groups ++ keys p.unrevealed) :
    (ref ∈ keys p.revealed ∧ ref ∉ keys p.groups ∧ ref ∉ keys p.unrevealed) ∨
    (ref ∉ keys p.revealed ∧ ref ∈ keys p.groups ∧ ref ∉ keys p.unrevealed) ∨
    (ref ∉ keys p.revealed ∧ ref ∉ keys p.groups ∧ ref ∈ keys p.unrevealed) := by
  have hnd := (uniqueReferents_iff p).mp h
  rw [List.nodup_append, List.nodup_append] at hnd
  obtain ⟨⟨-, -, h12⟩, -, h3⟩ := hnd
  simp only [List.mem_append] at hm h3
  rcases hm with (h1 | h2) | h3'
  · exact Or.inl ⟨h1, fun h2 => h12 _ h1 _ h2 rfl, fun h3' => h3 _ (Or.inl h1) _ h3' rfl⟩
  · exact Or.inr (Or.inl ⟨fun h1 => h12 _ h1 _ h2 rfl, h2, fun h3' => h3 _ (Or.inr h2) _ h3' rfl⟩)
  · exact Or.inr (Or.inr ⟨fun h1 => h3 _ (Or.inl h1) _ h3' rfl, fun h2 => h3 _ (Or.inr h2) _ h3' rfl, h3'⟩)

/-- each of the three indexed attribute maps has unique keys once `check_unique_attr_referents` passed -/
theorem uniqueReferents_nodup {p : Presentation} (h : uniqueReferents p = true) :
    (keys p.revealed).Nodup ∧ (keys p.groups).Nodup ∧ (keys p.unrevealed).Nodup := by
  have hnd := (uniqueReferents_iff p).mp h
  rw [List.nodup_append, List.nodup_append] at hnd
  exact ⟨hnd.1.1, hnd.1.2.1, hnd.2.1⟩

/-- the attribute clause for a requested attribute: self-attested-and-unrestricted, or
unrestricted, or the restriction check passed -/
theorem attrClause_elim {ctx : Ctx} {p : Presentation} {ref : String} {a : AttrInfo}
    (h : attrClause ctx p (ref, a) = true) :
    Query.isSelfAttested a.restrictions ((keys p.selfAttested).contains ref) = true ∨
    a.restrictions = none ∨ ∃ q, a.restrictions = some q ∧ attrRestrictionOk ctx p ref a q = true := by
  unfold attrClause at h
  simp only [] at h
  split at h
  · rename_i hs; exact Or.inl hs
  · cases hq : a.restrictions with
    | none => exact Or.inr (Or.inl rfl)
    | some q => rw [hq] at h; exact Or.inr (Or.inr ⟨q, rfl, h⟩)

/-! ### a small honest scenario (non-vacuity of the property files) -/

/-! one credential (schema `Name, Age, Id`), one revealed attribute with a restriction, one
unrevealed attribute, one predicate; no revocation -/
namespace Honest
def ctx : Ctx :=
  { schemas := [("S", { name := "s", version := "1", issuerId := "I", attrNames := ["Name", "Age", "Id"] })],
    credDefs := [("C", { issuerId := "I", key := 1, revocable := false })],
    revRegDefs := none, lists := none, override := none }
def req : Request :=
  { nonce := "N",
    attrs := [("a1", { name := some "name", names := none,
                       restrictions := some (.eq "cred_def_id" "C"), nonRevoked := none }),
              ("a2", { name := some "id", names := none, restrictions := none, nonRevoked := none })],
    preds := [("p1", { name := "age", ty := "GE", value := 18, restrictions := none,
                       nonRevoked := none })],
    nonRevoked := none }
def sub : SymSub :=
  { revealed := [("name", "7")], preds := [⟨"age", "GE", 18⟩],
    cred := { key := 1, attrs := [("name", "7"), ("age", "30"), ("id", "9")], holder := 1, rev := none },
    nrp := none, ms := (1, 1), intact := true, uid := 1 }
def pres : Presentation :=
  { revealed := [("a1", { idx := 0, raw := "7", encoded := "7" })], groups := [], selfAttested := [],
    unrevealed := [("a2", 0)], predicates := [("p1", 0)],
    identifiers := [{ schemaId := "S", credDefId := "C", revRegId := none, timestamp := none }],
    subs := [sub], agg := { nonce := "N", bound := [(1, false)], intact := true } }
end Honest
/-- the honest scenario is accepted -/
theorem Honest.accepted : verifyLegacy Honest.ctx Honest.req Honest.pres = .ok true := by decide

end AnonModel.Verifier

import AnonModel.Model.StatusList
/-!
Helper lemmas for C09 / C10: pointwise characterisations of the status-list update,
the reachability invariant (accumulator = closed form of the bits), support bounds
(which make the bounded executable checks exact) and the witness derivations.
-/
namespace AnonModel.StatusList

theorem length_setAll (bits : List Bool) (idx : List Nat) (v : Bool) :
    (setAll bits idx v).length = bits.length := by
  unfold setAll
  induction idx generalizing bits with
  | nil => rfl
  | cons i is ih => simp only [List.foldl_cons]; rw [ih]; simp

theorem getElem?_setAll (bits : List Bool) (idx : List Nat) (v : Bool) (j : Nat) :
    (setAll bits idx v)[j]? = if j ∈ idx then (bits[j]?).map (fun _ => v) else bits[j]? := by
  unfold setAll
  induction idx generalizing bits with
  | nil => simp
  | cons i is ih =>
    simp only [List.foldl_cons]
    rw [ih]
    simp only [List.getElem?_set, List.mem_cons]
    grind

theorem mem_filterIssued {bits : List Bool} {l : List Nat} {j : Nat} :
    j ∈ filterIssued bits l ↔ j ∈ l ∧ bits[j]? = some true := by
  simp only [filterIssued, List.mem_filter, List.getD_eq_getElem?_getD]
  cases bits[j]? <;> simp

theorem mem_filterRevoked {bits : List Bool} {l : List Nat} {j : Nat} :
    j ∈ filterRevoked bits l ↔ j ∈ l ∧ bits[j]? = some false := by
  simp only [filterRevoked, List.mem_filter, List.getD_eq_getElem?_getD]
  cases bits[j]? <;> simp

/-- the declarative per-entry rule of an update, judged against the current bit `b` -/
def specBit (b : Bool) (inIssued inRevoked : Bool) : Bool :=
  if b = true ∧ inIssued = true then false
  else if b = false ∧ inRevoked = true then true
  else b

theorem length_setBits (bits : List Bool) (i r : Option (List Nat)) :
    (setBits bits i r).length = bits.length := by
  simp [setBits, length_setAll]

theorem length_update (s : SL) (I R : Option (List Nat)) (ts : Option Nat) :
    (update s I R ts).bits.length = s.bits.length := by
  simp [update, length_setBits]

theorem mem_getD_map_filterIssued {bits : List Bool} {I : Option (List Nat)} {j : Nat} :
    j ∈ (I.map (filterIssued bits)).getD [] ↔ j ∈ I.getD [] ∧ bits[j]? = some true := by
  cases I <;> simp [mem_filterIssued]

theorem mem_getD_map_filterRevoked {bits : List Bool} {R : Option (List Nat)} {j : Nat} :
    j ∈ (R.map (filterRevoked bits)).getD [] ↔ j ∈ R.getD [] ∧ bits[j]? = some false := by
  cases R <;> simp [mem_filterRevoked]

theorem getElem?_update (s : SL) (I R : Option (List Nat)) (ts : Option Nat) (j : Nat) :
    (update s I R ts).bits[j]? =
      (s.bits[j]?).map fun b => specBit b (decide (j ∈ I.getD [])) (decide (j ∈ R.getD [])) := by
  simp only [update, setBits, getElem?_setAll, mem_getD_map_filterIssued, mem_getD_map_filterRevoked]
  cases h : s.bits[j]? with
  | none => simp
  | some b => cases b <;> simp [specBit] <;> split <;> simp_all

theorem acc_update (s : SL) (I R : Option (List Nat)) (ts : Option Nat) (j : Nat) :
    (update s I R ts).acc j =
      s.acc j + (if j ∈ I.getD [] ∧ s.bits[j]? = some true then 1 else 0)
              - (if j ∈ R.getD [] ∧ s.bits[j]? = some false then 1 else 0) := by
  simp only [update, accUpdate, mem_getD_map_filterIssued, mem_getD_map_filterRevoked]

theorem update?_eq_some (s : SL) (I R : Option (List Nat)) (ts : Option Nat) :
    update? s I R ts = some (update s I R ts) := by
  have h1 : ((I.map (filterIssued s.bits)).getD []).any (fun i => s.bits.length ≤ i) = false := by
    rw [List.any_eq_false]
    intro x hx
    have := (mem_getD_map_filterIssued.mp hx).2
    have := (List.getElem?_eq_some_iff.mp this).1
    simp; omega
  have h2 : ((R.map (filterRevoked s.bits)).getD []).any (fun i => s.bits.length ≤ i) = false := by
    rw [List.any_eq_false]
    intro x hx
    have := (mem_getD_map_filterRevoked.mp hx).2
    have := (List.getElem?_eq_some_iff.mp this).1
    simp; omega
  simp [update?, update, setBits?, h1, h2]

/-! ### reachable lists and the accumulator invariant -/

/-- status lists of a registry of size `L` created in mode `byDefault`: the created
list and everything obtained from it by updates and timestamp-only updates -/
inductive Reachable (L : Nat) (byDefault : Bool) : SL → Prop where
  | create (ts : Option Nat) : Reachable L byDefault (create L byDefault ts)
  | update {s : SL} (I R : Option (List Nat)) (ts : Option Nat) :
      Reachable L byDefault s → Reachable L byDefault (update s I R ts)
  | tsOnly {s : SL} (t : Nat) : Reachable L byDefault s → Reachable L byDefault (updateTsOnly s t)

/-- closed form of the accumulator in terms of the bits:
`base(mode) + Σ_{i < L, bits_i ≠ initBit(mode)} ±e_i`, evaluated at `j`.
By default the base is `1` on `1…L` and a set bit (≠ initial `0`) contributes `-1`;
on demand the base is `0` and a clear bit (≠ initial `1`) contributes `+1`. -/
def accOf (L : Nat) (byDefault : Bool) (bits : List Bool) : Acc := fun j =>
  accInit L byDefault j +
    (if bits[j]? = some byDefault then (if byDefault then -1 else 1) else 0)

theorem accOf_byDefault (L : Nat) (bits : List Bool) (j : Nat) :
    accOf L true bits j = (if 1 ≤ j ∧ j ≤ L then 1 else 0) - (if bits[j]? = some true then 1 else 0) := by
  simp only [accOf, accInit]
  split <;> split <;> simp_all <;> omega

theorem accOf_onDemand (L : Nat) (bits : List Bool) (j : Nat) :
    accOf L false bits j = if bits[j]? = some false then 1 else 0 := by
  simp [accOf, accInit]

theorem applyOp_reachable {L : Nat} {bd : Bool} {s : SL} (h : Reachable L bd s) (op : Op) :
    Reachable L bd (applyOp s op) := by
  cases op with
  | update i r t => exact .update i r t h
  | tsOnly t => exact .tsOnly t h

theorem final_reachable {L : Nat} {bd : Bool} {s : SL} (h : Reachable L bd s) (ops : List Op) :
    Reachable L bd (final s ops) := by
  unfold final
  induction ops generalizing s with
  | nil => exact h
  | cons op ops ih => exact ih (applyOp_reachable h op)

theorem mem_runFrom_reachable {L : Nat} {bd : Bool} {s : SL} (h : Reachable L bd s) (ops : List Op) :
    ∀ t ∈ runFrom s ops, Reachable L bd t := by
  induction ops generalizing s with
  | nil => intro t ht; simp [runFrom] at ht; exact ht ▸ h
  | cons op ops ih =>
    intro t ht
    simp only [runFrom, List.mem_cons] at ht
    rcases ht with rfl | ht
    · exact h
    · exact ih (applyOp_reachable h op) t ht

theorem reachable_iff_final {L : Nat} {bd : Bool} {s : SL} :
    Reachable L bd s ↔ ∃ ts ops, s = final (create L bd ts) ops := by
  constructor
  · intro h
    induction h with
    | create ts => exact ⟨ts, [], rfl⟩
    | update I R t _ ih =>
      obtain ⟨ts, ops, rfl⟩ := ih
      exact ⟨ts, ops ++ [.update I R t], by simp [final, applyOp]⟩
    | tsOnly t _ ih =>
      obtain ⟨ts, ops, rfl⟩ := ih
      exact ⟨ts, ops ++ [.tsOnly t], by simp [final, applyOp]⟩
  · rintro ⟨ts, ops, rfl⟩
    exact final_reachable (.create ts) ops

theorem reachable_length {L : Nat} {bd : Bool} {s : SL} (h : Reachable L bd s) :
    s.bits.length = L := by
  induction h with
  | create ts => simp [create]
  | update I R t _ ih => rw [length_update]; exact ih
  | tsOnly t _ ih => exact ih

theorem accOf_update_step (L : Nat) (bd : Bool) (s : SL) (I R : Option (List Nat)) (ts : Option Nat)
    (j : Nat) (h : s.acc j = accOf L bd s.bits j) :
    (update s I R ts).acc j = accOf L bd (update s I R ts).bits j := by
  rw [acc_update, h]
  simp only [accOf, getElem?_update]
  cases hb : s.bits[j]? with
  | none => simp
  | some b =>
    cases b <;> cases bd <;> simp [specBit]
    all_goals (split <;> omega)

/-- **invariant**: the accumulator of every reachable list is the closed form of its bits -/
theorem reachable_acc {L : Nat} {bd : Bool} {s : SL} (h : Reachable L bd s) :
    s.acc = accOf L bd s.bits := by
  induction h with
  | create ts =>
    funext j
    simp only [create, accOf, List.getElem?_replicate]
    cases bd <;> simp <;> intro h <;> simp_all
  | update I R t _ ih =>
    funext j
    exact accOf_update_step L bd _ I R t j (by rw [ih])
  | tsOnly t _ ih => exact ih

/-! ### support bounds: the bounded executable checks are exact -/

/-- `A` vanishes from index `n` on -/
def Supp (n : Nat) (A : Acc) : Prop := ∀ j, n ≤ j → A j = 0

theorem accEqB_iff {n : Nat} {a b : Acc} (ha : Supp n a) (hb : Supp n b) :
    accEqB n a b = true ↔ a = b := by
  simp only [accEqB, List.all_eq_true, List.mem_range, beq_iff_eq]
  constructor
  · intro h; funext j
    by_cases hj : j < n
    · exact h j hj
    · rw [ha j (by omega), hb j (by omega)]
  · intro h j _; rw [h]

theorem witnessValidB_iff {n k : Nat} {A w : Acc} (hA : Supp n A) (hw : Supp n w) :
    witnessValidB n k A w = true ↔ WitnessValid k A w := by
  simp only [witnessValidB, WitnessValid, Bool.and_eq_true, decide_eq_true_eq, List.all_eq_true,
    List.mem_range, Bool.or_eq_true, beq_iff_eq]
  constructor
  · rintro ⟨h1, h2⟩
    refine ⟨h1, fun j hj => ?_⟩
    by_cases hn : j < n
    · rcases h2 j hn with h | h
      · exact absurd h hj
      · exact h
    · rw [hA j (by omega), hw j (by omega)]
  · rintro ⟨h1, h2⟩
    refine ⟨h1, fun j _ => ?_⟩
    by_cases hj : j = k
    · exact Or.inl hj
    · exact Or.inr (h2 j hj)

theorem supp_accOf {L : Nat} (bd : Bool) {bits : List Bool} (h : bits.length = L) :
    Supp (L + 1) (accOf L bd bits) := by
  intro j hj
  have : bits[j]? = none := by simp; omega
  simp only [accOf, accInit, this]
  have : ¬ (bd = true ∧ 1 ≤ j ∧ j ≤ L) := by omega
  simp [this]

theorem reachable_supp {L : Nat} {bd : Bool} {s : SL} (h : Reachable L bd s) : Supp (L + 1) s.acc := by
  rw [reachable_acc h]; exact supp_accOf bd (reachable_length h)

theorem supp_accAdd {n k : Nat} {A : Acc} (d : Int) (h : Supp n A) (hk : k < n) : Supp n (accAdd A k d) := by
  intro j hj
  have : j ≠ k := by omega
  simp [accAdd, this, h j hj]

/-! ### deltas -/

theorem mem_indexDeltas_issued {old new : List Bool} {j : Nat} :
    j ∈ (indexDeltas old new).1 ↔ new[j]? = some false ∧ old[j]? = some true := by
  simp only [indexDeltas, List.mem_filter, List.mem_range, List.getD_eq_getElem?_getD]
  constructor
  · rintro ⟨⟨hlt, h1⟩, h2⟩
    have hn : new[j]? = some new[j] := List.getElem?_eq_getElem hlt
    rw [hn] at h1 h2 ⊢
    cases hb : new[j] <;> cases ho : old[j]? <;> simp_all
  · rintro ⟨h1, h2⟩
    obtain ⟨hlt, he⟩ := List.getElem?_eq_some_iff.mp h1
    simp [he, h2, hlt]

theorem mem_indexDeltas_revoked {old new : List Bool} {j : Nat} :
    j ∈ (indexDeltas old new).2 ↔ new[j]? = some true ∧ old[j]? ≠ some true := by
  simp only [indexDeltas, List.mem_filter, List.mem_range, List.getD_eq_getElem?_getD]
  constructor
  · rintro ⟨⟨hlt, h1⟩, h2⟩
    have hn : new[j]? = some new[j] := List.getElem?_eq_getElem hlt
    rw [hn] at h1 h2 ⊢
    cases hb : new[j] <;> cases ho : old[j]? <;> simp_all
  · rintro ⟨h1, h2⟩
    obtain ⟨hlt, he⟩ := List.getElem?_eq_some_iff.mp h1
    cases ho : old[j]? with
    | none => simp [he, hlt]
    | some b => cases b <;> simp_all

theorem indexDeltas_lt {old new : List Bool} {j : Nat}
    (h : j ∈ (indexDeltas old new).1 ++ (indexDeltas old new).2) : j < new.length := by
  rw [List.mem_append, mem_indexDeltas_issued, mem_indexDeltas_revoked] at h
  rcases h with ⟨h, _⟩ | ⟨h, _⟩ <;> exact (List.getElem?_eq_some_iff.mp h).1

/-! ### witness derivations, pointwise -/

/-- vector of the from-scratch witness: every index of `1…L` other than `k` whose
position is not marked revoked (positions that do not exist — index `L` — count as
issued) -/
def scratchVec (L : Nat) (bits : List Bool) (k : Nat) : Acc := fun j =>
  if j ≠ k ∧ 1 ≤ j ∧ j ≤ L ∧ bits[j]? ≠ some true then 1 else 0

theorem witnessScratch_eq_some {L k : Nat} {s : SL} {w : Acc} :
    witnessScratch L s k = some w ↔ s.ts ≠ none ∧ 1 ≤ k ∧ k ≤ L ∧ w = scratchVec L s.bits k := by
  unfold witnessScratch
  cases hts : s.ts with
  | none => simp
  | some t =>
    simp only [witnessNew]
    by_cases hk : k = 0 ∨ L < k
    · simp [hk]; omega
    · simp only [hk, if_false, Option.some.injEq, ne_eq, reduceCtorEq, not_false_eq_true, true_and]
      have e : (fun j => if j ≠ k ∧ issuedIndices L true (indexDeltas (List.replicate L false) s.bits).1
          (indexDeltas (List.replicate L false) s.bits).2 j = true then (1 : Int) else 0) = scratchVec L s.bits k := by
        funext j
        simp only [scratchVec, issuedIndices, if_true, Bool.and_eq_true, decide_eq_true_eq,
          Bool.not_eq_true', decide_eq_false_iff_not, mem_indexDeltas_revoked, List.getElem?_replicate]
        have : ¬ ((if j < L then some false else none) = some true) := by split <;> simp
        simp only [this, not_false_eq_true, and_true, ne_eq, and_assoc]
      rw [e]
      constructor
      · intro h; exact ⟨by omega, by omega, h.symm⟩
      · intro h; exact h.2.2.symm

theorem witnessUpdate_eq_some {L k : Nat} {w w' : Acc} {old new : SL}
    (h : witnessUpdate L w old new k = some w') :
    new.ts ≠ none ∧ 1 ≤ k ∧ k ≤ L ∧ ∀ j, w' j =
      if j = k then w j
      else w j + (if new.bits[j]? = some false ∧ old.bits[j]? = some true then 1 else 0)
               - (if new.bits[j]? = some true ∧ old.bits[j]? ≠ some true then 1 else 0) := by
  unfold witnessUpdate at h
  cases hts : new.ts with
  | none => simp [hts] at h
  | some t =>
    simp only [hts, witnessUpd] at h
    split at h
    · cases h
    · rename_i hk
      split at h
      · cases h
      · simp only [Option.some.injEq] at h
        refine ⟨by simp, by omega, by omega, fun j => ?_⟩
        rw [← h]
        simp only [mem_indexDeltas_issued, mem_indexDeltas_revoked]
        by_cases hj : j = k
        · simp [hj]
        · simp only [hj, if_false]
          by_cases hr : new.bits[j]? = some true ∧ old.bits[j]? ≠ some true
          · have hi : ¬ (new.bits[j]? = some false ∧ old.bits[j]? = some true) := by
              rw [hr.1]; simp
            rw [if_pos hr, if_neg hi, if_pos hr]; omega
          · by_cases hi : new.bits[j]? = some false ∧ old.bits[j]? = some true
            · rw [if_neg hr, if_pos hi, if_pos hi, if_neg hr]; omega
            · rw [if_neg hr, if_neg hi, if_neg hi, if_neg hr]; omega

theorem witnessUpdate_isSome {L k : Nat} (w : Acc) {old new : SL}
    (hts : new.ts ≠ none) (hk1 : 1 ≤ k) (hkL : k < L) (hlen : new.bits.length ≤ L) :
    (witnessUpdate L w old new k).isSome = true := by
  unfold witnessUpdate
  cases h : new.ts with
  | none => exact absurd h hts
  | some t =>
    simp only [witnessUpd]
    have hk : ¬ (k = 0 ∨ L < k) := by omega
    have hany : ((indexDeltas old.bits new.bits).1 ++ (indexDeltas old.bits new.bits).2).any
        (fun j => j != k && !(tailOk L k j)) = false := by
      rw [List.any_eq_false]
      intro j hj
      have := indexDeltas_lt hj
      simp [tailOk]
      intro _
      omega
    simp [hk, hany]

theorem issueAgainst_eq_some {L k : Nat} {s : SL} {A w : Acc} (h : issueAgainst L s k = some (A, w)) :
    1 ≤ k ∧ k ≤ L ∧
      ((s.bits[k]? = some true ∧ A = accAdd s.acc k 1 ∧ w = s.acc) ∨
       (s.bits[k]? = some false ∧ A = s.acc ∧ w = accAdd s.acc k (-1))) := by
  unfold issueAgainst at h
  cases hb : s.bits[k]? with
  | none => simp [hb] at h
  | some b =>
    simp only [hb] at h
    split at h
    · cases h
    · cases b <;> simp at h <;> obtain ⟨h1, h2⟩ := h <;> subst h1 h2 <;>
        exact ⟨by omega, by omega, by simp⟩

/-! ### accumulator entries of reachable lists -/

theorem getElem?_of_reachable_lt {L : Nat} {bd : Bool} {s : SL} (h : Reachable L bd s) {j : Nat}
    (hj : j < L) : ∃ b, s.bits[j]? = some b := by
  have := reachable_length h
  exact ⟨s.bits[j], List.getElem?_eq_getElem (by omega)⟩

theorem getElem?_of_reachable_ge {L : Nat} {bd : Bool} {s : SL} (h : Reachable L bd s) {j : Nat}
    (hj : L ≤ j) : s.bits[j]? = none := by
  have := reachable_length h
  simp; omega

theorem lt_of_reachable_getElem? {L : Nat} {bd : Bool} {s : SL} (h : Reachable L bd s) {j : Nat} {b : Bool}
    (hb : s.bits[j]? = some b) : j < L := by
  have := reachable_length h
  have := (List.getElem?_eq_some_iff.mp hb).1
  omega

/-- a valid (non-revoked) credential index has multiplicity 1 -/
theorem reachable_acc_valid_idx {L : Nat} {bd : Bool} {s : SL} (h : Reachable L bd s) {k : Nat}
    (hb : s.bits[k]? = some false) (hk : 1 ≤ k) : s.acc k = 1 := by
  have hlt := lt_of_reachable_getElem? h hb
  rw [reachable_acc h]
  cases bd
  · rw [accOf_onDemand]; simp [hb]
  · rw [accOf_byDefault]
    have : 1 ≤ k ∧ k ≤ L := by omega
    simp [hb, this]

/-- a revoked position has multiplicity 0 or -1, never 1 -/
theorem reachable_acc_revoked_idx {L : Nat} {bd : Bool} {s : SL} (h : Reachable L bd s) {k : Nat}
    (hb : s.bits[k]? = some true) : s.acc k ≤ 0 := by
  rw [reachable_acc h]
  cases bd
  · rw [accOf_onDemand]; simp [hb]
  · rw [accOf_byDefault]; simp [hb]; split <;> omega

/-- difference of the accumulators of two lists of the same registry, entry by entry:
exactly the index deltas of the two bit lists -/
theorem reachable_acc_diff {L : Nat} {bd : Bool} {s t : SL} (hs : Reachable L bd s) (ht : Reachable L bd t)
    (j : Nat) :
    t.acc j = s.acc j + (if t.bits[j]? = some false ∧ s.bits[j]? = some true then 1 else 0)
                      - (if t.bits[j]? = some true ∧ s.bits[j]? ≠ some true then 1 else 0) := by
  rw [reachable_acc hs, reachable_acc ht]
  by_cases hj : j < L
  · obtain ⟨a, ha⟩ := getElem?_of_reachable_lt hs hj
    obtain ⟨b, hb⟩ := getElem?_of_reachable_lt ht hj
    simp only [accOf, ha, hb]
    cases a <;> cases b <;> cases bd <;> simp <;> omega
  · have ha := getElem?_of_reachable_ge hs (j := j) (by omega)
    have hb := getElem?_of_reachable_ge ht (j := j) (by omega)
    simp [accOf, ha, hb]

/-! ### `w_k = 0` for every derivation; link to the pairing equation -/

/-- Under `w_k = 0` the trusted-base definition of `WitnessValid` is the pairing
equation `e(g_k, acc) / e(g, ω) = z` read coefficient-wise:
`A_j - w_j = [j = k]` for all `j`. -/
theorem witnessValid_iff_pairing {k : Nat} {A w : Acc} (hk : w k = 0) :
    WitnessValid k A w ↔ ∀ j, A j - w j = if j = k then 1 else 0 := by
  constructor
  · rintro ⟨h1, h2⟩ j
    by_cases hj : j = k
    · subst hj; simp [h1, hk]
    · simp [hj, h2 j hj]
  · intro h
    refine ⟨?_, fun j hj => ?_⟩
    · have := h k; simp [hk] at this; exact this
    · have := h j; simp [hj] at this; omega

theorem wk_zero_scratch {L k : Nat} {s : SL} {w : Acc} (h : witnessScratch L s k = some w) : w k = 0 := by
  obtain ⟨_, _, _, rfl⟩ := witnessScratch_eq_some.mp h
  simp [scratchVec]

theorem wk_update {L k : Nat} {w w' : Acc} {old new : SL} (h : witnessUpdate L w old new k = some w') :
    w' k = w k := by
  have := (witnessUpdate_eq_some h).2.2.2 k
  simpa using this

theorem wk_zero_issue {L : Nat} {bd : Bool} {s : SL} (hr : Reachable L bd s) {k : Nat} {A w : Acc}
    (h : issueAgainst L s k = some (A, w)) : w k = 0 := by
  obtain ⟨hk1, _, ⟨hb, _, hw⟩ | ⟨hb, _, hw⟩⟩ := issueAgainst_eq_some h
  · subst hw
    have h1 := reachable_acc_revoked_idx hr hb
    -- multiplicity is 0, not -1, because k ≥ 1
    rw [reachable_acc hr] at h1 ⊢
    have hlt := lt_of_reachable_getElem? hr hb
    cases bd
    · rw [accOf_onDemand]; simp [hb]
    · rw [accOf_byDefault]
      have : 1 ≤ k ∧ k ≤ L := by omega
      simp [hb, this]
  · subst hw
    have := reachable_acc_valid_idx hr hb hk1
    simp [accAdd, this]

/-! ### supports of derived witnesses -/

theorem supp_scratch {L k : Nat} {s : SL} {w : Acc} (h : witnessScratch L s k = some w) :
    Supp (L + 1) w := by
  obtain ⟨_, _, _, rfl⟩ := witnessScratch_eq_some.mp h
  intro j hj
  have : ¬ (j ≠ k ∧ 1 ≤ j ∧ j ≤ L ∧ s.bits[j]? ≠ some true) := by omega
  simp only [scratchVec, this, if_false]

theorem supp_witnessUpdate {L k : Nat} {w w' : Acc} {old new : SL}
    (h : witnessUpdate L w old new k = some w') (hw : Supp (L + 1) w) (hlen : new.bits.length ≤ L) :
    Supp (L + 1) w' := by
  intro j hj
  have hn : new.bits[j]? = none := by simp; omega
  rw [(witnessUpdate_eq_some h).2.2.2 j, hw j hj]
  simp [hn]

theorem supp_issue {L : Nat} {bd : Bool} {s : SL} (hr : Reachable L bd s) {k : Nat} {A w : Acc}
    (h : issueAgainst L s k = some (A, w)) : Supp (L + 1) A ∧ Supp (L + 1) w := by
  have hs := reachable_supp hr
  obtain ⟨_, hkL, ⟨_, hA, hw⟩ | ⟨_, hA, hw⟩⟩ := issueAgainst_eq_some h <;> subst hA hw
  · exact ⟨supp_accAdd _ hs (by omega), hs⟩
  · exact ⟨hs, supp_accAdd _ hs (by omega)⟩

/-! ### recorded histories -/

theorem runFrom_append_take (s : SL) (ops more : List Op) :
    (runFrom s (ops ++ more)).take (ops.length + 1) = runFrom s ops := by
  induction ops generalizing s with
  | nil => cases more <;> simp [runFrom]
  | cons op ops ih => simp [runFrom, ih]

theorem length_runFrom (s : SL) (ops : List Op) : (runFrom s ops).length = ops.length + 1 := by
  induction ops generalizing s with
  | nil => rfl
  | cons op ops ih => simp [runFrom, ih]

/-- a state recorded for a history is still recorded, at the same place, for every
extension of the history -/
theorem getElem?_runFrom_append {s : SL} {ops : List Op} {i : Nat} {t : SL}
    (h : (runFrom s ops)[i]? = some t) (more : List Op) : (runFrom s (ops ++ more))[i]? = some t := by
  have hi : i < ops.length + 1 := by
    have := (List.getElem?_eq_some_iff.mp h).1
    rwa [length_runFrom] at this
  rw [← runFrom_append_take s ops more, List.getElem?_take] at h
  simpa [hi] using h

end AnonModel.StatusList

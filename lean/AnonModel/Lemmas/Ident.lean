import AnonModel.Model.Ident
/-! Helper lemmas for C20: character classes, `splitColon` ↔ `join`, the URI scan,
the freshness fold. -/
namespace AnonModel.Ident

/-! ### character classes: the ranges of the patterns are core's ASCII predicates -/

theorem inRange_iff (lo hi c : Char) :
    inRange lo hi c = true ↔ lo.toNat ≤ c.toNat ∧ c.toNat ≤ hi.toNat := by
  simp [inRange, Char.le_def, UInt32.le_iff_toNat_le]

theorem ne_iff_toNat (c d : Char) : c ≠ d ↔ c.toNat ≠ d.toNat := by
  simp [Char.toNat_inj]

theorem eq_iff_toNat (c d : Char) : c = d ↔ c.toNat = d.toNat := by
  simp [Char.toNat_inj]

theorem isDigit_iff_toNat (c : Char) : c.isDigit = true ↔ 48 ≤ c.toNat ∧ c.toNat ≤ 57 := by
  simp [Char.isDigit, UInt32.le_iff_toNat_le]

theorem isAlpha_iff_toNat (c : Char) : c.isAlpha = true ↔
    (65 ≤ c.toNat ∧ c.toNat ≤ 90) ∨ (97 ≤ c.toNat ∧ c.toNat ≤ 122) := by
  simp [Char.isAlpha, Char.isUpper, Char.isLower, UInt32.le_iff_toNat_le]

theorem isAlphanum_iff_toNat (c : Char) : c.isAlphanum = true ↔
    (65 ≤ c.toNat ∧ c.toNat ≤ 90) ∨ (97 ≤ c.toNat ∧ c.toNat ≤ 122) ∨
      (48 ≤ c.toNat ∧ c.toNat ≤ 57) := by
  simp [Char.isAlphanum, Char.isAlpha, Char.isUpper, Char.isLower, Char.isDigit,
    UInt32.le_iff_toNat_le, or_assoc]

/-- code points of the characters named in the patterns -/
theorem codes :
    '0'.toNat = 48 ∧ '1'.toNat = 49 ∧ '9'.toNat = 57 ∧ 'A'.toNat = 65 ∧ 'H'.toNat = 72 ∧
    'I'.toNat = 73 ∧ 'J'.toNat = 74 ∧ 'N'.toNat = 78 ∧ 'O'.toNat = 79 ∧ 'P'.toNat = 80 ∧
    'Z'.toNat = 90 ∧ 'a'.toNat = 97 ∧ 'k'.toNat = 107 ∧ 'l'.toNat = 108 ∧ 'm'.toNat = 109 ∧
    'z'.toNat = 122 ∧ '+'.toNat = 43 ∧ '-'.toNat = 45 ∧ '.'.toNat = 46 ∧ ':'.toNat = 58 := by
  decide

theorem isDigit09_iff (c : Char) : isDigit09 c = true ↔ c.isDigit = true := by
  rw [isDigit_iff_toNat]; simp only [isDigit09, inRange_iff]
  obtain ⟨h0, _, h9, _⟩ := codes; omega

theorem isLetter_iff (c : Char) : isLetter c = true ↔ c.isAlpha = true := by
  rw [isAlpha_iff_toNat]; simp only [isLetter, Bool.or_eq_true, inRange_iff]
  obtain ⟨_, _, _, hA, _, _, _, _, _, _, hZ, ha, _, _, _, hz, _⟩ := codes; omega

theorem isAlnum_iff (c : Char) : isAlnum c = true ↔ c.isAlphanum = true := by
  rw [isAlphanum_iff_toNat]; simp only [isAlnum, Bool.or_eq_true, inRange_iff]
  obtain ⟨h0, _, h9, hA, _, _, _, _, _, _, hZ, ha, _, _, _, hz, _⟩ := codes; omega

/-- `[1-9]` is a digit other than `0` -/
theorem inRange19_iff (c : Char) : inRange '1' '9' c = true ↔ c.isDigit = true ∧ c ≠ '0' := by
  rw [isDigit_iff_toNat, ne_iff_toNat]; simp only [inRange_iff]
  obtain ⟨h0, h1, h9, _⟩ := codes; omega

/-- `[1-9A-HJ-NP-Za-km-z]` is `[a-zA-Z0-9]` without `0`, `O`, `I`, `l` -/
theorem isBase58_iff (c : Char) : isBase58 c = true ↔
    c.isAlphanum = true ∧ c ≠ '0' ∧ c ≠ 'O' ∧ c ≠ 'I' ∧ c ≠ 'l' := by
  rw [isAlphanum_iff_toNat]
  simp only [isBase58, Bool.or_eq_true, inRange_iff, ne_iff_toNat]
  obtain ⟨h0, h1, h9, hA, hH, hI, hJ, hN, hO, hP, hZ, ha, hk, hl, hm, hz, _⟩ := codes
  omega

theorem isSchemeChar_iff (c : Char) : isSchemeChar c = true ↔
    c.isAlphanum = true ∨ c = '+' ∨ c = '-' ∨ c = '.' := by
  simp [isSchemeChar, isAlnum_iff, or_assoc]

theorem isVersionChar_iff (c : Char) : isVersionChar c = true ↔ c.isDigit = true ∨ c = '.' := by
  simp [isVersionChar, isDigit09_iff]

/-! none of the classes contains `':'` -/

theorem isBase58_ne_colon {c : Char} (h : isBase58 c = true) : c ≠ ':' := by
  intro e; subst e; revert h; decide

theorem isAlnum_ne_colon {c : Char} (h : isAlnum c = true) : c ≠ ':' := by
  intro e; subst e; revert h; decide

theorem isDigit09_ne_colon {c : Char} (h : isDigit09 c = true) : c ≠ ':' := by
  intro e; subst e; revert h; decide

theorem inRange19_ne_colon {c : Char} (h : inRange '1' '9' c = true) : c ≠ ':' := by
  intro e; subst e; revert h; decide

theorem isSchemeChar_ne_colon {c : Char} (h : isSchemeChar c = true) : c ≠ ':' := by
  intro e; subst e; revert h; decide

theorem isVersionChar_ne_colon {c : Char} (h : isVersionChar c = true) : c ≠ ':' := by
  intro e; subst e; revert h; decide

theorem noColon_of_all {p : Char → Bool} (hp : ∀ c, p c = true → c ≠ ':') {cs : List Char}
    (h : cs.all p = true) : ':' ∉ cs := by
  intro hm
  exact hp ':' (List.all_eq_true.mp h ':' hm) rfl

/-! ### components -/

theorem isDidL_iff (cs : List Char) : isDidL cs = true ↔
    (cs.length = 21 ∨ cs.length = 22) ∧
      ∀ c ∈ cs, c.isAlphanum = true ∧ c ≠ '0' ∧ c ≠ 'O' ∧ c ≠ 'I' ∧ c ≠ 'l' := by
  simp [isDidL, isBase58_iff]

theorem isDidL_noColon {cs : List Char} (h : isDidL cs = true) : ':' ∉ cs := by
  simp only [isDidL, Bool.and_eq_true] at h
  exact noColon_of_all (fun _ => isBase58_ne_colon) h.2

theorem isAlnumDidL_iff (cs : List Char) : isAlnumDidL cs = true ↔
    (cs.length = 21 ∨ cs.length = 22) ∧ ∀ c ∈ cs, c.isAlphanum = true := by
  simp [isAlnumDidL, isAlnum_iff]

theorem isAlnumDidL_noColon {cs : List Char} (h : isAlnumDidL cs = true) : ':' ∉ cs := by
  simp only [isAlnumDidL, Bool.and_eq_true] at h
  exact noColon_of_all (fun _ => isAlnum_ne_colon) h.2

theorem isNameL_iff (cs : List Char) : isNameL cs = true ↔ cs ≠ [] := by
  cases cs <;> simp [isNameL]

theorem isVersionL_iff (cs : List Char) : isVersionL cs = true ↔
    cs ≠ [] ∧ ∀ c ∈ cs, c.isDigit = true ∨ c = '.' := by
  cases cs <;> simp [isVersionL, isVersionChar_iff]

theorem isVersionL_noColon {cs : List Char} (h : isVersionL cs = true) : ':' ∉ cs := by
  simp only [isVersionL, Bool.and_eq_true] at h
  exact noColon_of_all (fun _ => isVersionChar_ne_colon) h.2

theorem isSeqNoL_iff (cs : List Char) : isSeqNoL cs = true ↔
    ∃ h t, cs = h :: t ∧ h.isDigit = true ∧ h ≠ '0' ∧ ∀ c ∈ t, c.isDigit = true := by
  cases cs with
  | nil => simp [isSeqNoL]
  | cons c cs => simp [isSeqNoL, inRange19_iff, isDigit09_iff, and_assoc]

theorem isSeqNoL_noColon {cs : List Char} (h : isSeqNoL cs = true) : ':' ∉ cs := by
  cases cs with
  | nil => simp
  | cons c cs =>
    simp only [isSeqNoL, Bool.and_eq_true] at h
    intro hm
    rcases List.mem_cons.mp hm with e | hm
    · exact inRange19_ne_colon h.1 e.symm
    · exact noColon_of_all (fun _ => isDigit09_ne_colon) h.2 hm

/-! ### `splitColon` is the inverse of joining `':'`-free components with `':'` -/

/-- components joined by single `':'` -/
def join : List (List Char) → List Char
  | [] => []
  | [a] => a
  | a :: b :: r => a ++ ':' :: join (b :: r)

theorem splitColon_ne_nil (cs : List Char) : splitColon cs ≠ [] := by
  cases cs with
  | nil => simp [splitColon]
  | cons c cs =>
    simp only [splitColon]
    split
    · simp
    · cases splitColon cs <;> simp [consHead]

theorem join_consHead (c : Char) {l : List (List Char)} (h : l ≠ []) :
    join (consHead c l) = c :: join l := by
  match l, h with
  | [a], _ => simp [consHead, join]
  | a :: b :: r, _ => simp [consHead, join]

theorem join_splitColon (cs : List Char) : join (splitColon cs) = cs := by
  induction cs with
  | nil => simp [splitColon, join]
  | cons c cs ih =>
    simp only [splitColon]
    split
    · rename_i hc
      have hne := splitColon_ne_nil cs
      match hs : splitColon cs, hne with
      | a :: r, _ => rw [hs] at ih; simp [join, ih, hc]
    · rw [join_consHead c (splitColon_ne_nil cs), ih]

theorem noColon_splitColon (cs : List Char) : ∀ p ∈ splitColon cs, ':' ∉ p := by
  induction cs with
  | nil => simp [splitColon]
  | cons c cs ih =>
    simp only [splitColon]
    split
    · intro p hp
      rcases List.mem_cons.mp hp with rfl | hp
      · simp
      · exact ih p hp
    · rename_i hc
      have hne := splitColon_ne_nil cs
      match hs : splitColon cs, hne with
      | a :: r, _ =>
        rw [hs] at ih
        intro p hp
        simp only [consHead, List.mem_cons] at hp
        rcases hp with rfl | hp
        · have := ih a (by simp)
          simp only [List.mem_cons, not_or]
          exact ⟨fun e => hc e.symm, this⟩
        · exact ih p (by simp [hp])

theorem splitColon_noColon {a : List Char} (h : ':' ∉ a) : splitColon a = [a] := by
  induction a with
  | nil => simp [splitColon]
  | cons c cs ih =>
    simp only [List.mem_cons, not_or] at h
    have hc : c ≠ ':' := fun e => h.1 e.symm
    simp [splitColon, hc, ih h.2, consHead]

theorem splitColon_append {a : List Char} (h : ':' ∉ a) (b : List Char) :
    splitColon (a ++ ':' :: b) = a :: splitColon b := by
  induction a with
  | nil => simp [splitColon]
  | cons c cs ih =>
    simp only [List.mem_cons, not_or] at h
    have hc : c ≠ ':' := fun e => h.1 e.symm
    simp [splitColon, hc, ih h.2, consHead]

theorem splitColon_join {ps : List (List Char)} (hne : ps ≠ []) (h : ∀ p ∈ ps, ':' ∉ p) :
    splitColon (join ps) = ps := by
  induction ps with
  | nil => exact absurd rfl hne
  | cons a r ih =>
    cases r with
    | nil => simpa [join] using splitColon_noColon (h a (by simp))
    | cons b r =>
      simp only [join]
      rw [splitColon_append (h a (by simp)), ih (by simp) (fun p hp => h p (by simp [hp]))]

/-- **splitting ↔ joining**: `ps` are the components of `cs` iff they are non-empty in
number, `':'`-free, and `cs` is their `':'`-separated concatenation -/
theorem splitColon_eq_iff {cs : List Char} {ps : List (List Char)} :
    splitColon cs = ps ↔ ps ≠ [] ∧ (∀ p ∈ ps, ':' ∉ p) ∧ cs = join ps := by
  constructor
  · rintro rfl
    exact ⟨splitColon_ne_nil cs, noColon_splitColon cs, (join_splitColon cs).symm⟩
  · rintro ⟨hne, hnc, rfl⟩
    exact splitColon_join hne hnc

/-! ### URI scan -/

theorem uriTail_iff (cs : List Char) : uriTail cs = true ↔
    ∃ t rest, cs = t ++ ':' :: rest ∧ (∀ c ∈ t, isSchemeChar c = true) ∧
      rest ≠ [] ∧ '\n' ∉ rest := by
  induction cs with
  | nil => simp [uriTail]
  | cons c cs ih =>
    simp only [uriTail]
    split
    · rename_i hc
      subst hc
      constructor
      · intro h
        simp only [Bool.and_eq_true, Bool.not_eq_true', List.isEmpty_eq_false_iff,
          List.all_eq_true, bne_iff_ne, ne_eq] at h
        exact ⟨[], cs, by simp, by simp, h.1, fun hm => h.2 _ hm rfl⟩
      · rintro ⟨t, rest, hcs, ht, hne, hnl⟩
        cases t with
        | nil =>
          simp only [List.nil_append, List.cons.injEq, true_and] at hcs
          subst hcs
          simp only [Bool.and_eq_true, Bool.not_eq_true', List.isEmpty_eq_false_iff,
            List.all_eq_true, bne_iff_ne, ne_eq]
          exact ⟨hne, fun d hd e => hnl (e ▸ hd)⟩
        | cons d t =>
          simp only [List.cons_append, List.cons.injEq] at hcs
          exact absurd hcs.1.symm (isSchemeChar_ne_colon (ht d (by simp)))
    · rename_i hc
      simp only [Bool.and_eq_true, ih]
      constructor
      · rintro ⟨hs, t, rest, rfl, ht, hne, hnl⟩
        refine ⟨c :: t, rest, by simp, ?_, hne, hnl⟩
        intro d hd
        rcases List.mem_cons.mp hd with rfl | hd
        · exact hs
        · exact ht d hd
      · rintro ⟨t, rest, hcs, ht, hne, hnl⟩
        cases t with
        | nil =>
          simp only [List.nil_append, List.cons.injEq] at hcs
          exact absurd hcs.1 hc
        | cons d t =>
          simp only [List.cons_append, List.cons.injEq] at hcs
          obtain ⟨rfl, rfl⟩ := hcs
          exact ⟨ht c (by simp), t, rest, rfl, fun d hd => ht d (by simp [hd]), hne, hnl⟩

/-! ### freshness fold ↔ `Nodup` -/

theorem allFresh_iff (seen ns : List String) :
    allFresh seen ns = true ↔ ns.Nodup ∧ ∀ n ∈ ns, n ∉ seen := by
  induction ns generalizing seen with
  | nil => simp [allFresh]
  | cons n ns ih =>
    simp only [allFresh]
    split
    · rename_i hc
      have : n ∈ seen := by simpa using hc
      simp [this]
    · rename_i hc
      have hn : n ∉ seen := by simpa using hc
      rw [ih, List.nodup_cons]
      constructor
      · rintro ⟨hnd, hf⟩
        refine ⟨⟨fun hm => ?_, hnd⟩, ?_⟩
        · exact hf n hm (by simp)
        · intro m hm
          rcases List.mem_cons.mp hm with rfl | hm
          · exact hn
          · exact fun h => hf m hm (by simp [h])
      · rintro ⟨⟨hnm, hnd⟩, hf⟩
        refine ⟨hnd, fun m hm h => ?_⟩
        rcases List.mem_cons.mp h with rfl | h
        · exact hnm hm
        · exact hf m (by simp [hm]) h

end AnonModel.Ident

import AnonModel.Props.C04Defs
import AnonModel.Lemmas.ProverMaps
import AnonModel.Lemmas.ProverW3C
/-!
# Helper lemmas for C04: what the conjuncts of `meetsDemands` / `meetsDemandsW3C` (`Props/C04Defs.lean`)
give, entry by entry, and sufficient conditions for the verifier's CL step (`verify_true`)
-/
namespace AnonModel.Prover
open AnonModel.Verifier AnonModel.IdealCL AnonModel.Names
open AnonModel.Query (Query)

variable {ctx : Ctx} {pc : PCtx} {r : Request} {sel : List Selected} {sa : List (String × String)}
  {holder session uid0 : Nat} {p : Presentation}

/-- the conjuncts of `meetsDemands`, unpacked -/
structure Meets (ctx : Ctx) (pc : PCtx) (r : Request) (sel : List Selected)
    (sa : List (String × String)) : Prop where
  schemas : schemasAgree ctx pc (usedOf sel) = true
  credDefs : credDefsAgree ctx (usedOf sel) = true
  values : valuesSigned (usedOf sel) = true
  attrsNodup : requestAttrsNodup r = true
  names : namesPresent r = true
  attrsServed : attrsServed r (usedOf sel) sa = true
  predsServed : predsServed r (usedOf sel) = true
  saRequested : selfAttestedRequested r sa = true
  unrevealed : unrevealedHeld ctx r (usedOf sel) = true
  tags : tagsNotMixed r = true
  attrRestr : attrRestrictionsMet ctx r (usedOf sel) sa = true
  predRestr : predRestrictionsMet ctx r (usedOf sel) = true
  intervals : intervalsMet ctx r (usedOf sel) = true
  registries : registriesSupplied ctx (usedOf sel) = true
  nonRev : nonRevProofsOk ctx r (usedOf sel) = true
  lists : listsComplete ctx = true

theorem meets_of {ctx : Ctx} {pc : PCtx} {r : Request} {sel : List Selected}
    {sa : List (String × String)} (h : meetsDemands ctx pc r sel sa = true) : Meets ctx pc r sel sa := by
  simp only [meetsDemands, Bool.and_eq_true] at h
  obtain ⟨⟨⟨⟨⟨⟨⟨⟨⟨⟨⟨⟨⟨⟨⟨h1, h2⟩, h3⟩, h4⟩, h5⟩, h6⟩, h7⟩, h8⟩, h9⟩, h10⟩, h11⟩, h12⟩, h13⟩, h14⟩, h15⟩, h16⟩ := h
  exact ⟨h1, h2, h3, h4, h5, h6, h7, h8, h9, h10, h11, h12, h13, h14, h15, h16⟩

theorem mem_keys_of_lookup {β : Type} {l : List (String × β)} {k : String} {b : β}
    (h : l.lookup k = some b) : k ∈ l.map Prod.fst :=
  List.mem_map.mpr ⟨(k, b), mem_of_lookup h, rfl⟩

/-- the request's entry for a referent is what `lookup` finds (the referents are pairwise different) -/
theorem Meets.lookup_attr (m : Meets ctx pc r sel sa) {kv : String × AttrInfo} (h : kv ∈ r.attrs) :
    r.attrs.lookup kv.1 = some kv.2 :=
  lookup_of_mem ((noDup_iff _).mp m.attrsNodup) (k := kv.1) (b := kv.2) h

/-- an unrevealed referent is requested and the serving credential's schema has its names -/
theorem Meets.unrevealed_held (m : Meets ctx pc r sel sa) {s : Selected} {i : Nat}
    (hs : (usedOf sel)[i]? = some s) {k : String} (hk : (k, false) ∈ s.attrs) :
    ∃ info sc, r.attrs.lookup k = some info ∧ ctx.schemas.lookup s.cred.schemaId = some sc ∧
      ∀ n ∈ info.allNames, hasNorm sc.attrNames n = true := by
  have := m.unrevealed
  unfold unrevealedHeld at this
  simp only [List.all_eq_true] at this
  have := this s (List.mem_of_getElem? hs) (k, false) hk
  simp only [Bool.false_or] at this
  split at this
  · rename_i info sc h1 h2
    exact ⟨info, sc, h1, h2, by simpa using this⟩
  · cases this

/-- correctly issued: the value the credential carries for a name is the signed one, normalised -/
theorem Meets.signed (m : Meets ctx pc r sel sa) {s : Selected} {i : Nat}
    (hs : (usedOf sel)[i]? = some s) {n : String} {re : String × String}
    (hc : credValue s.cred n = some re) :
    s.cred.sym.attrs.lookup (commonView n) = some (Encode.normalizeEnc re.2) := by
  obtain ⟨k, hk, hcv⟩ := credValue_some hc
  have := m.values
  unfold valuesSigned at this
  simp only [List.all_eq_true] at this
  have := this s (List.mem_of_getElem? hs) (k, re) hk
  rw [← hcv]
  simpa using this

/-- a revealed value passes `verify_revealed_attribute_value` against the entry's sub-proof -/
theorem revealedValueOk_of (m : Meets ctx pc r sel sa) {s : Selected} {i : Nat}
    (hs : (usedOf sel)[i]? = some s) {sub : SymSub} {uid : Nat}
    (hadd : addSubProof pc r s holder session uid = some sub) {n : String}
    (hmr : MarkedRevealed r s.attrs n) {re : String × String} (hc : credValue s.cred n = some re) :
    revealedValueOk n sub re.2 = true := by
  obtain ⟨v, hv, hl⟩ := addSubProof_lookupNorm hadd hmr
  rw [m.signed hs hc] at hv
  cases hv
  unfold revealedValueOk
  rw [hl]
  simp

theorem servingAttr_some {used : List Selected} {ref : String} {s : Selected} {flag : Bool}
    (h : servingAttr used ref = some (s, flag)) : ∃ i : Nat, used[i]? = some s ∧ (ref, flag) ∈ s.attrs := by
  unfold servingAttr at h
  obtain ⟨s', hs', hf⟩ := List.exists_of_findSome?_eq_some h
  cases hl : s'.attrs.lookup ref with
  | none => simp [hl] at hf
  | some b =>
    simp [hl] at hf
    obtain ⟨rfl, rfl⟩ := hf
    obtain ⟨i, hi⟩ := List.mem_iff_getElem?.mp hs'
    exact ⟨i, hi, mem_of_lookup hl⟩

theorem servingPred_some {used : List Selected} {ref : String} {s : Selected} {i : Nat}
    (h : servingPred used ref = some (s, i)) : used[i]? = some s ∧ ref ∈ s.preds := by
  unfold servingPred at h
  exact ⟨mem_zipIdx_iff.mp (List.mem_of_find?_eq_some h), by simpa using List.find?_some h⟩

/-- the restriction of an attribute referent, true of the serving credential, is accepted -/
theorem attrRestrictionOk_of (ch : LegacyChar pc r sel sa holder session uid0 p) {ref : String}
    {info : AttrInfo} {q : Query} (hl : r.attrs.lookup ref = some info)
    (h : attrRestrictionMet ctx (usedOf sel) ref info q = true) :
    attrRestrictionOk ctx p ref info q = true := by
  unfold attrRestrictionMet at h
  split at h
  · cases h
  · rename_i s flag hserv
    obtain ⟨i, hs, hmem⟩ := servingAttr_some hserv
    split at h
    · rename_i f vals hf hvals
      have hid := ch.identifier_of hs
      unfold attrRestrictionOk
      unfold attrValueMap at hvals
      cases flag with
      | false =>
        obtain ⟨hu, hr, hg⟩ := ch.lookup_unrevealed hs hmem
        have hidx : attrIdentifierIdx p ref = some i := by simp [attrIdentifierIdx, hu]
        simp only [hidx, hid, hf]
        cases hn : info.name with
        | some name =>
          simp only [hn] at hvals ⊢
          cases hvals
          simpa [hr] using h
        | none =>
          simp only [hn] at hvals ⊢
          cases hns : info.names with
          | none => simp [hns] at hvals
          | some names =>
            simp only [hns] at hvals ⊢
            cases hvals
            have hk : (keys p.unrevealed).contains ref = true := by
              simp only [List.contains_iff_mem, keys]
              exact mem_keys_of_lookup hu
            simp only [hg, hk]
            simpa using h
      | true =>
        cases hn : info.name with
        | some name =>
          obtain ⟨re, hc, hr, hu, hg⟩ := ch.lookup_revealed hs hmem hl hn
          have hidx : attrIdentifierIdx p ref = some i := by simp [attrIdentifierIdx, hu, hg, hr]
          simp only [hidx, hid, hf]
          simp only [hn] at hvals ⊢
          cases hvals
          simpa [hr, hc] using h
        | none =>
          simp only [hn] at hvals
          cases hns : info.names with
          | none => simp [hns] at hvals
          | some names =>
            simp only [hns] at hvals
            cases hvals
            obtain ⟨vals, hv, hg, hu, hr⟩ := ch.lookup_group hs hmem hl hn hns
            have hidx : attrIdentifierIdx p ref = some i := by simp [attrIdentifierIdx, hu, hg]
            simp only [hidx, hid, hf, hg]
            have hmap : names.map (fun n => (n, (Option.bind (some ({ idx := i, values := vals } : GroupInfo))
                  (fun g => g.values.lookup n)).map (·.1))) =
                names.map (fun n => (n, if true = true then (credValue s.cred n).map (·.1) else none)) := by
              apply List.map_congr_left
              intro n hn'
              have := mapM_pair_lookup hv n (List.mem_eraseDups.mpr hn')
              simp [this]
            simp only [Option.isNone_some, Bool.false_and, Bool.false_eq_true, if_false]
            rw [hmap]
            exact h
    · cases h

/-- the predicate loop of `verify_requested_restrictions` succeeds if every step does -/
theorem restrictions_go_ok (ctx : Ctx) (r : Request) (p : Presentation) :
    ∀ (l : List (String × PredInfo)),
    (∀ kv ∈ l, match kv.2.restrictions with
      | none => True
      | some q => ∃ pi id f, p.predicates.lookup kv.1 = some pi ∧ p.identifiers[pi]? = some id ∧
          gatherFilter ctx id = some f ∧
          Query.eval Ident.isLegacyDid (predValueMap r p kv.2 pi) f q = true) →
    restrictionsOutcome.go ctx r p l = .ok true := by
  intro l
  induction l with
  | nil => intro _; rfl
  | cons kv l ih =>
    intro h
    obtain ⟨ref, info⟩ := kv
    have h0 := h (ref, info) List.mem_cons_self
    have ih' := ih (fun kv hkv => h kv (List.mem_cons_of_mem _ hkv))
    unfold restrictionsOutcome.go
    cases hr : info.restrictions with
    | none => simpa [hr] using ih'
    | some q =>
      simp only [hr] at h0
      obtain ⟨pi, id, f, h1, h2, h3, h4⟩ := h0
      simp only [h1, h2, h3, h4, if_true]
      exact ih'

theorem mapM_eq_some_map {α β : Type} {f : α → Option β} {g : α → β} :
    ∀ {l : List α}, (∀ a ∈ l, f a = some (g a)) → l.mapM f = some (l.map g) := by
  intro l
  induction l with
  | nil => intro _; rfl
  | cons a l ih =>
    intro h
    rw [List.mapM_cons, h a List.mem_cons_self, ih (fun b hb => h b (List.mem_cons_of_mem _ hb))]
    rfl

/-- the conjuncts of `meetsDemands` that the CL-level checks need, over any list of used entries
(shared by both formats) -/
structure MeetsCL (ctx : Ctx) (pc : PCtx) (r : Request) (used : List Selected) : Prop where
  schemas : schemasAgree ctx pc used = true
  credDefs : credDefsAgree ctx used = true
  registries : registriesSupplied ctx used = true
  nonRev : nonRevProofsOk ctx r used = true

theorem Meets.cl (m : Meets ctx pc r sel sa) : MeetsCL ctx pc r (usedOf sel) :=
  ⟨m.schemas, m.credDefs, m.registries, m.nonRev⟩

/-- the verifier's schema of a used credential, with the same normalised names as the prover's -/
theorem MeetsCL.schema_of {used : List Selected} (m : MeetsCL ctx pc r used) {s : Selected}
    (hs : s ∈ used) :
    ∃ a sc, pc.schemas.lookup s.cred.schemaId = some a ∧ ctx.schemas.lookup s.cred.schemaId = some sc ∧
      ∀ x, x ∈ sc.attrNames.map commonView ↔ x ∈ a.map commonView := by
  have := m.schemas
  unfold schemasAgree at this
  simp only [List.all_eq_true] at this
  have := this s hs
  split at this
  · rename_i a sc h1 h2
    refine ⟨a, sc, h1, h2, ?_⟩
    unfold sameSet at this
    simp only [Bool.and_eq_true, List.all_eq_true, List.contains_iff_mem] at this
    exact fun x => ⟨this.1 x, this.2 x⟩
  · cases this

theorem MeetsCL.credDef_of {used : List Selected} (m : MeetsCL ctx pc r used) {s : Selected}
    (hs : s ∈ used) :
    ∃ cd, ctx.credDefs.lookup s.cred.credDefId = some cd ∧ cd.key = s.cred.sym.key := by
  have := m.credDefs
  unfold credDefsAgree at this
  simp only [List.all_eq_true] at this
  have := this s hs
  split at this
  · rename_i cd h1
    exact ⟨cd, h1, by simpa using this⟩
  · cases this

/-- the `SubCtx` the verifier hands to the CL verifier for a used selection entry -/
def subCtxOf (ctx : Ctx) (s : Selected) (sc : SchemaInfo) (cd : CredDefInfo) : SubCtx :=
  { schemaAttrs := sc.attrNames.map commonView, key := cd.key, hasRevKey := cd.revocable,
    regKey := (registryFor ctx s).map (·.1.regKey), acc := (registryFor ctx s).bind (·.2.acc) }

theorem MeetsCL.registry_of {used : List Selected} (m : MeetsCL ctx pc r used) {s : Selected}
    (hs : s ∈ used) :
    revocationRegistry ctx (identOf s) =
      some ((registryFor ctx s).map (·.1.regKey), (registryFor ctx s).bind (·.2.acc)) := by
  have := m.registries
  unfold registriesSupplied at this
  simp only [List.all_eq_true] at this
  have := this s hs
  unfold revocationRegistry registryFor at *
  simp only [identOf]
  cases h1 : s.cred.revRegId with
  | none => rfl
  | some rid =>
    cases h2 : s.timestamp with
    | none => rfl
    | some ts =>
      simp only [h1, h2, Option.isSome_some, Bool.and_self, Bool.not_true, Bool.false_or] at this ⊢
      cases h3 : ctx.revRegDefs with
      | none => simp [h3] at this
      | some defs =>
        cases h4 : ctx.lists with
        | none => simp [h3, h4] at this
        | some ls =>
          simp only [h3, h4] at this ⊢
          cases h5 : defs.lookup rid with
          | none => simp [h5] at this
          | some d =>
            cases h6 : findList ls rid ts with
            | none => simp [h5, h6] at this
            | some l => rfl

/-- the attribute-side local intervals as the verifier collects them -/
theorem attrLocals_of (ch : LegacyChar pc r sel sa holder session uid0 p) {s : Selected} {i : Nat}
    (hs : (usedOf sel)[i]? = some s) : attrLocals r p i = some (verifierAttrLocals r s i) := by
  unfold attrLocals verifierAttrLocals
  simp only []
  rw [ch.revealed_filter hs, ch.groups_filter hs]
  apply mapM_eq_some_map
  intro ref href
  rcases List.mem_append.mp href with href | href
  · obtain ⟨⟨k, info⟩, hk, e⟩ := List.mem_map.mp href
    simp only at e; subst e
    obtain ⟨rr, _, hk⟩ := List.mem_flatMap.mp hk
    obtain ⟨_, ai, _, _, hl, _⟩ := mem_revOf hk
    simp [hl]
  · obtain ⟨⟨k, g⟩, hk, e⟩ := List.mem_map.mp href
    simp only at e; subst e
    obtain ⟨rr, _, hk⟩ := List.mem_flatMap.mp hk
    obtain ⟨_, ai, _, _, hl, _⟩ := mem_grpOf hk
    simp [hl]

theorem predLocals_of (ch : LegacyChar pc r sel sa holder session uid0 p) {s : Selected} {i : Nat}
    (hs : (usedOf sel)[i]? = some s) : predLocals r p i = some (verifierPredLocals r s) := by
  unfold predLocals verifierPredLocals
  simp only []
  rw [ch.predicates_filter hs, List.map_map]
  have : (Prod.fst ∘ fun ref => (ref, i)) = (id : String → String) := rfl
  rw [this, List.map_id]
  apply mapM_eq_some_map
  intro ref href
  obtain ⟨sub, _, hadd⟩ := ch.sub_of hs
  obtain ⟨_, _, pinfos, _, _, _, hmp, _⟩ := addSubProof_some hadd
  obtain ⟨q, _, hl⟩ := mapM_some_mem hmp href
  simp [hl]

/-- the sub-proof built for an entry only mentions attributes of the verifier's schema -/
theorem addSubProofRequestOk_of {used : List Selected} (m : MeetsCL ctx pc r used) {s : Selected}
    (hs : s ∈ used) {sub : SymSub} {uid : Nat}
    (hadd : addSubProof pc r s holder session uid = some sub) {sc : SchemaInfo}
    (hsc : ctx.schemas.lookup s.cred.schemaId = some sc) {cd : CredDefInfo} :
    addSubProofRequestOk (subCtxOf ctx s sc cd) sub = true := by
  obtain ⟨a, sc', ha, hsc', hsame⟩ := m.schema_of hs
  rw [hsc] at hsc'; cases hsc'
  obtain ⟨hnr, hnp⟩ := addSubProof_normal hadd
  obtain ⟨a', ainfos, pinfos, ha', _, _, _, hb⟩ := addSubProof_some hadd
  rw [ha] at ha'; cases ha'
  obtain ⟨_, _, h3, h4, _, _, hrev, hpreds, _⟩ := buildSub_some hb
  have hkeys := mapM_pair_keys hrev
  unfold addSubProofRequestOk subCtxOf
  simp only [Bool.and_eq_true, List.all_eq_true, List.contains_iff_mem]
  constructor
  · intro kv hkv
    rw [hnr kv hkv, hsame]
    have : kv.1 ∈ sub.revealed.map Prod.fst := List.mem_map_of_mem hkv
    rw [hkeys] at this
    obtain ⟨n1, hn1, e⟩ := List.mem_map.mp (mem_dedup.mp this)
    rw [← e]; exact h3 n1 hn1
  · intro pr hpr
    rw [hnp pr hpr, hsame]
    rw [hpreds] at hpr
    obtain ⟨q, hq, e⟩ := List.mem_map.mp (mem_dedup.mp hpr)
    rw [← e]; exact h4 q hq

/-- the per-identifier loop body succeeds for the `i`-th used entry -/
theorem subCtxFor_of (m : Meets ctx pc r sel sa) (ch : LegacyChar pc r sel sa holder session uid0 p)
    {s : Selected} {i : Nat} (hs : (usedOf sel)[i]? = some s) :
    ∃ sc cd, ctx.schemas.lookup s.cred.schemaId = some sc ∧
      ctx.credDefs.lookup s.cred.credDefId = some cd ∧ cd.key = s.cred.sym.key ∧
      subCtxFor ctx r p i (identOf s) = some (subCtxOf ctx s sc cd) := by
  obtain ⟨a, sc, ha, hsc, hsame⟩ := m.cl.schema_of (List.mem_of_getElem? hs)
  obtain ⟨cd, hcd, hkey⟩ := m.cl.credDef_of (List.mem_of_getElem? hs)
  obtain ⟨sub, hsub, hadd⟩ := ch.sub_of hs
  refine ⟨sc, cd, hsc, hcd, hkey, ?_⟩
  have hint : Interval.checkLegacy cd.revocable (Interval.foldLocals (verifierAttrLocals r s i))
      (Interval.foldLocals (verifierPredLocals r s)) r.nonRevoked s.cred.revRegId ctx.override
      s.timestamp = true := by
    have := m.intervals
    unfold intervalsMet at this
    simp only [List.all_eq_true] at this
    have := this (s, i) (mem_zipIdx_iff.mpr hs)
    simpa [hcd] using this
  unfold subCtxFor
  rw [attrLocals_of ch hs, predLocals_of ch hs]
  simp only [identOf, hcd, hint, hsub, hsc, Bool.not_true, Bool.false_eq_true, if_false]
  have hreg := m.cl.registry_of (List.mem_of_getElem? hs)
  simp only [identOf] at hreg
  rw [hreg]
  simp only []
  have := addSubProofRequestOk_of m.cl (List.mem_of_getElem? hs) hadd hsc (cd := cd)
  unfold subCtxOf at this ⊢
  rw [if_pos this]

theorem mapM_exists_of {α β : Type} {f : α → Option β} : ∀ {l : List α},
    (∀ a ∈ l, ∃ b, f a = some b) → ∃ r, l.mapM f = some r := by
  intro l
  induction l with
  | nil => intro _; exact ⟨[], rfl⟩
  | cons a l ih =>
    intro h
    obtain ⟨b, hb⟩ := h a List.mem_cons_self
    obtain ⟨r, hr⟩ := ih (fun x hx => h x (List.mem_cons_of_mem _ hx))
    exact ⟨b :: r, by rw [List.mapM_cons, hb, hr]; rfl⟩

/-- all link-secret responses equal the first one -/
def msAgree : List SymSub → Bool
  | [] => true
  | s :: rest => rest.all (fun t => t.ms == s.ms)

/-- `verify` with the link-secret check named -/
theorem verify_eq (ctxs : List SubCtx) (subs : List SymSub) (agg : SymAgg) (nonce : String) :
    IdealCL.verify ctxs subs agg nonce true =
      if ctxs.length ≠ subs.length then none
      else if !(ctxs.zip subs).all (fun cs => paramsConsistent cs.2) then none
      else if !msAgree subs then none
      else some (agg.intact && decide (agg.nonce = nonce) &&
        decide (agg.bound = (ctxs.zip subs).map (fun cs => (cs.2.uid, nrpChecked cs.1 cs.2))) &&
        (ctxs.zip subs).all (fun cs => primaryOk cs.1 cs.2 && (!nrpChecked cs.1 cs.2 || nrpOk cs.1 cs.2))) := by
  unfold IdealCL.verify
  cases subs <;> simp only [msAgree, Bool.true_and] <;> rfl

theorem msAgree_true {subs : List SymSub}
    (hms : ∀ m, ∀ s ∈ subs, ∀ t ∈ subs, s.ms = m → t.ms = m) : msAgree subs = true := by
  cases subs with
  | nil => rfl
  | cons s rest =>
    simp only [msAgree, List.all_eq_true, beq_iff_eq]
    intro t ht
    exact hms s.ms s List.mem_cons_self t (List.mem_cons_of_mem _ ht) rfl

/-- sufficient conditions for `ProofVerifier::verify` to return `Ok(true)` -/
theorem verify_true {ctxs : List SubCtx} {subs : List SymSub} {agg : SymAgg} {nonce : String}
    (hl : ctxs.length = subs.length)
    (hpc : ∀ s ∈ subs, paramsConsistent s = true)
    (hms : ∀ m, ∀ s ∈ subs, ∀ t ∈ subs, s.ms = m → t.ms = m)
    (hint : agg.intact = true) (hn : agg.nonce = nonce)
    (hb : agg.bound = subs.map (fun s => (s.uid, s.nrp.isSome)))
    (hp : ∀ cs ∈ ctxs.zip subs, primaryOk cs.1 cs.2 = true ∧ nrpChecked cs.1 cs.2 = cs.2.nrp.isSome ∧
      nrpOk cs.1 cs.2 = true) :
    IdealCL.verify ctxs subs agg nonce true = some true := by
  rw [verify_eq, if_neg (by simp [hl])]
  have h1 : ((ctxs.zip subs).all (fun cs => paramsConsistent cs.2)) = true := by
    simp only [List.all_eq_true]
    intro cs hcs
    exact hpc cs.2 (List.of_mem_zip hcs).2
  rw [if_neg (by rw [h1]; simp), msAgree_true hms, if_neg (by simp)]
  have h3 : agg.bound = (ctxs.zip subs).map (fun cs => (cs.2.uid, nrpChecked cs.1 cs.2)) := by
    rw [hb]
    have : (ctxs.zip subs).map (fun cs => (cs.2.uid, nrpChecked cs.1 cs.2)) =
        (ctxs.zip subs).map (fun cs => (fun s : SymSub => (s.uid, s.nrp.isSome)) cs.2) := by
      apply List.map_congr_left
      intro cs hcs
      rw [(hp cs hcs).2.1]
    rw [this, show (fun cs : SubCtx × SymSub => (fun s : SymSub => (s.uid, s.nrp.isSome)) cs.2) =
      (fun s : SymSub => (s.uid, s.nrp.isSome)) ∘ Prod.snd from rfl, ← List.map_map,
      List.map_snd_zip (by omega)]
  have h4 : ((ctxs.zip subs).all (fun cs => primaryOk cs.1 cs.2 && (!nrpChecked cs.1 cs.2 || nrpOk cs.1 cs.2))) = true := by
    simp only [List.all_eq_true]
    intro cs hcs
    obtain ⟨a, _, c⟩ := hp cs hcs
    simp [a, c]
  simp only [hint, hn, h4, ← h3, decide_true, Bool.and_self]


/-- what `nonRevProofsOk` says about one used entry -/
theorem MeetsCL.nonRev_of {used : List Selected} (m : MeetsCL ctx pc r used) {s : Selected}
    (hs : s ∈ used) {n : SymNrp} (hn : nrpOf r s = some n) :
    ∃ cd d l, ctx.credDefs.lookup s.cred.credDefId = some cd ∧ registryFor ctx s = some (d, l) ∧
      cd.revocable = true ∧ n.witOk = true ∧ d.regKey = n.regKey ∧ l.acc = some n.acc ∧
      s.cred.sym.rev = some (n.regKey, n.idx) := by
  have := m.nonRev
  unfold nonRevProofsOk at this
  simp only [List.all_eq_true] at this
  have := this s hs
  rw [hn] at this
  simp only [] at this
  split at this
  · rename_i cd d l h1 h2
    simp only [Bool.and_eq_true, beq_iff_eq] at this
    obtain ⟨⟨⟨⟨a, b⟩, c⟩, d'⟩, e⟩ := this
    exact ⟨cd, d, l, h1, h2, a, b, c, d', e⟩
  · cases this

/-- the CL checks of one (context, sub-proof) pair -/
theorem pair_ok {used : List Selected} (m : MeetsCL ctx pc r used) {s : Selected}
    (hs : s ∈ used) {sc : SchemaInfo} {cd : CredDefInfo}
    (hsc : ctx.schemas.lookup s.cred.schemaId = some sc)
    (hcd : ctx.credDefs.lookup s.cred.credDefId = some cd) (hkey : cd.key = s.cred.sym.key)
    {sub : SymSub} {uid : Nat} (hadd : addSubProof pc r s holder session uid = some sub) :
    primaryOk (subCtxOf ctx s sc cd) sub = true ∧
    nrpChecked (subCtxOf ctx s sc cd) sub = sub.nrp.isSome ∧
    nrpOk (subCtxOf ctx s sc cd) sub = true := by
  obtain ⟨a, sc', ha, hsc', hsame⟩ := m.schema_of hs
  rw [hsc] at hsc'; cases hsc'
  obtain ⟨a', ainfos, pinfos, ha', _, _, _, hb⟩ := addSubProof_some hadd
  rw [ha] at ha'; cases ha'
  obtain ⟨h1, h2, _, _, _, h6, hrev, hpreds, hcred, hnrp, _, hintact, _⟩ := buildSub_some hb
  refine ⟨?_, ?_, ?_⟩
  · unfold primaryOk subCtxOf
    simp only [Bool.and_eq_true, decide_eq_true_eq, List.all_eq_true, List.contains_iff_mem, hcred,
      beq_iff_eq]
    refine ⟨⟨⟨⟨hintact, hkey.symm⟩, ?_, ?_⟩, ?_⟩, ?_⟩
    · intro x hx; exact h1 x ((hsame x).mp hx)
    · intro x hx; exact (hsame x).mpr (h2 x hx)
    · intro kv hkv
      obtain ⟨_, _, _, hl⟩ := addSubProof_revealed hadd (n := kv.1) (v := kv.2) hkv
      exact hl
    · intro pr hpr
      rw [hpreds] at hpr
      obtain ⟨q, hq, e⟩ := List.mem_map.mp (mem_dedup.mp hpr)
      rw [← e]; exact h6 q hq
  · unfold nrpChecked subCtxOf
    simp only [hnrp]
    cases hn : nrpOf r s with
    | none => rfl
    | some n =>
      obtain ⟨cd', d, l, hcd', hreg, hrevoc, _, _, hacc, _⟩ := m.nonRev_of hs hn
      rw [hcd] at hcd'; cases hcd'
      simp [hreg, hrevoc, hacc]
  · unfold nrpOk subCtxOf
    simp only [hnrp, hcred]
    cases hn : nrpOf r s with
    | none => rfl
    | some n =>
      obtain ⟨cd', d, l, hcd', hreg, _, hwit, hrk, hacc, hrev'⟩ := m.nonRev_of hs hn
      simp [hreg, hwit, hrk, hacc, hrev']

/-! ## W3C format -/
section W3C
open AnonModel.VerifierW3C

variable {ctx : Ctx} {pc : PCtx} {r : Request} {sel : List SelectedW3C}
  {holder session uid0 : Nat} {p : VerifierW3C.Presentation}

/-- the conjuncts of `meetsDemandsW3C`, unpacked -/
structure MeetsW3C (ctx : Ctx) (pc : PCtx) (r : Request) (sel : List SelectedW3C) : Prop where
  schemas : schemasAgree ctx pc ((usedOfW3C sel).map w3cAsSelected) = true
  credDefs : credDefsAgree ctx ((usedOfW3C sel).map w3cAsSelected) = true
  issuers : issuersAgreeW3C ctx (usedOfW3C sel) = true
  subjects : subjectsSignedW3C (usedOfW3C sel) = true
  attrsNodup : requestAttrsNodup r = true
  predsNodup : requestPredsNodup r = true
  attrsServed : attrsServedW3C ctx r (usedOfW3C sel) = true
  predsServed : predsServedW3C ctx r (usedOfW3C sel) = true
  registries : registriesSupplied ctx ((usedOfW3C sel).map w3cAsSelected) = true
  nonRev : nonRevProofsOk ctx r ((usedOfW3C sel).map w3cAsSelected) = true
  lists : listsComplete ctx = true

theorem meetsW3C_of {ctx : Ctx} {pc : PCtx} {r : Request} {sel : List SelectedW3C}
    (h : meetsDemandsW3C ctx pc r sel = true) : MeetsW3C ctx pc r sel := by
  simp only [meetsDemandsW3C, Bool.and_eq_true] at h
  obtain ⟨⟨⟨⟨⟨⟨⟨⟨⟨⟨h1, h2⟩, h3⟩, h4⟩, h5⟩, h6⟩, h7⟩, h8⟩, h9⟩, h10⟩, h11⟩ := h
  exact ⟨h1, h2, h3, h4, h5, h6, h7, h8, h9, h10, h11⟩

theorem MeetsW3C.cl (m : MeetsW3C ctx pc r sel) :
    MeetsCL ctx pc r ((usedOfW3C sel).map w3cAsSelected) :=
  ⟨m.schemas, m.credDefs, m.registries, m.nonRev⟩

theorem mem_usedL {s : SelectedW3C} {i : Nat} (hs : (usedOfW3C sel)[i]? = some s) :
    w3cAsSelected s ∈ (usedOfW3C sel).map w3cAsSelected :=
  List.mem_map_of_mem (List.mem_of_getElem? hs)

/-- the `i`-th derived credential is the one built from the `i`-th used entry -/
theorem W3CChar.cred_of (ch : W3CChar pc r sel holder session uid0 p) {s : SelectedW3C} {i : Nat}
    (hs : (usedOfW3C sel)[i]? = some s) :
    ∃ sub subj, p.creds[i]? = some (credOfW3C s sub subj) ∧
      addSubProof pc r (w3cAsSelected s) holder session (uid0 + i) = some sub ∧
      buildCredentialAttributes r s = some subj := by
  have hi : i < p.creds.length := by rw [ch.length]; exact getElem?_lt hs
  obtain ⟨s', sub, subj, hs', hadd, hb, hc⟩ := ch.cred i p.creds[i] (List.getElem?_eq_getElem hi)
  rw [hs] at hs'; cases hs'
  exact ⟨sub, subj, by rw [List.getElem?_eq_getElem hi, hc], hadd, hb⟩

/-- correctly issued (W3C): what the subject says is what was signed, and it has no booleans -/
theorem MeetsW3C.signed (m : MeetsW3C ctx pc r sel) {s : SelectedW3C} {i : Nat}
    (hs : (usedOfW3C sel)[i]? = some s) {kv : String × SubjVal} (hkv : kv ∈ s.cred.subject) :
    (∀ b, kv.2 ≠ .bool b) ∧
    s.cred.sym.attrs.lookup (commonView kv.1) = some (Encode.encode kv.2.toStr) := by
  have := m.subjects
  unfold subjectsSignedW3C at this
  simp only [List.all_eq_true, Bool.and_eq_true, beq_iff_eq] at this
  obtain ⟨h1, h2⟩ := this s (List.mem_of_getElem? hs) kv hkv
  refine ⟨?_, h2⟩
  intro b hb
  rw [hb] at h1
  cases h1

/-- a name the held credential has is an attribute of the verifier's schema -/
theorem MeetsW3C.hasNorm_of (m : MeetsW3C ctx pc r sel) {s : SelectedW3C} {i : Nat}
    (hs : (usedOfW3C sel)[i]? = some s) {sub : SymSub} {uid : Nat}
    (hadd : addSubProof pc r (w3cAsSelected s) holder session uid = some sub) {sc : SchemaInfo}
    (hsc : ctx.schemas.lookup s.cred.schemaId = some sc) {n : String} {av : String × SubjVal}
    (hav : lookupNorm s.cred.subject n = some av) : hasNorm sc.attrNames n = true := by
  obtain ⟨hmem, hcv⟩ := lookupNorm_some hav
  obtain ⟨_, hsig⟩ := m.signed hs hmem
  obtain ⟨a, sc', ha, hsc', hsame⟩ := m.cl.schema_of (mem_usedL hs)
  have hsc'' : ctx.schemas.lookup s.cred.schemaId = some sc' := hsc'
  rw [hsc] at hsc''; cases hsc''
  obtain ⟨a', _, _, ha', _, _, _, hb⟩ := addSubProof_some hadd
  rw [ha] at ha'; cases ha'
  obtain ⟨_, h2, _⟩ := buildSub_some hb
  have h3 : commonView av.1 ∈ sc.attrNames.map commonView :=
    (hsame _).mpr (h2 _ (mem_keys_of_lookup hsig))
  obtain ⟨x, hx, e⟩ := List.mem_map.mp h3
  unfold hasNorm
  simp only [List.any_eq_true, beq_iff_eq]
  exact ⟨x, hx, e.trans hcv⟩

theorem conditionsOk_sub (ctx : Ctx) (r : Request) (s : SelectedW3C) (sub sub' : SymSub)
    (subj : List (String × SubjVal)) (q : Option Query) (loc : Option Interval.Ivl) :
    conditionsOk ctx r (credOfW3C s sub subj) q loc = conditionsOk ctx r (credOfW3C s sub' subj) q loc :=
  rfl

theorem heldBy_true {n : String} {restr : Option Query} {loc : Option Interval.Ivl} :
    ∀ {creds : List Cred}, (∀ c ∈ creds, ∃ sc, ctx.schemas.lookup c.schemaId = some sc) →
    (∃ c ∈ creds, ∃ sc, ctx.schemas.lookup c.schemaId = some sc ∧ hasNorm sc.attrNames n = true ∧
      conditionsOk ctx r c restr loc = true) →
    heldBy ctx r n restr loc creds = some true := by
  intro creds
  induction creds with
  | nil => rintro _ ⟨c, hc, _⟩; cases hc
  | cons c0 l ih =>
    intro hall hex
    obtain ⟨sc0, hsc0⟩ := hall c0 List.mem_cons_self
    unfold heldBy
    simp only [hsc0]
    split
    · rfl
    · rename_i hne
      apply ih (fun c hc => hall c (List.mem_cons_of_mem _ hc))
      obtain ⟨c, hc, sc, hsc, h1, h2⟩ := hex
      rcases List.mem_cons.mp hc with rfl | hc'
      · rw [hsc0] at hsc; cases hsc
        exact absurd (by simp [h1, h2]) hne
      · exact ⟨c, hc', sc, hsc, h1, h2⟩

/-- every derived credential's schema is supplied -/
theorem W3CChar.schemas_supplied (ch : W3CChar pc r sel holder session uid0 p)
    (m : MeetsW3C ctx pc r sel) : ∀ c ∈ p.creds, ∃ sc, ctx.schemas.lookup c.schemaId = some sc := by
  intro c hc
  obtain ⟨i, hi⟩ := List.mem_iff_getElem?.mp hc
  obtain ⟨s, sub, subj, hs, _, _, rfl⟩ := ch.cred i c hi
  obtain ⟨a, sc, _, hsc, _⟩ := m.cl.schema_of (mem_usedL hs)
  exact ⟨sc, hsc⟩

end W3C

end AnonModel.Prover

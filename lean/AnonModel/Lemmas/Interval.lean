import AnonModel.Model.Interval
/-! Helper lemmas for C08 (interval merge is a semilattice; validity splits into bounds). -/
namespace AnonModel.Interval

/-- the lower-bound test of `is_valid`: a missing bound is `0` -/
def loOk (lo : Option Nat) (t : Nat) : Prop := (match lo with | some f => f | none => 0) ≤ t

/-- the upper-bound test of `is_valid`: a missing bound is `u64::MAX` -/
def hiOk (hi : Option Nat) (t : Nat) : Prop := t ≤ (match hi with | some u => u | none => u64Max)

/-- "no interval, no constraint; else `is_valid`" -/
def validOpt (i : Option Ivl) (t : Nat) : Bool :=
  match i with
  | none => true
  | some i => valid i t

theorem valid_iff (i : Ivl) (t : Nat) : valid i t = true ↔ loOk i.lo t ∧ hiOk i.hi t := by
  simp only [valid, loOk, hiOk, Bool.not_eq_true', Bool.or_eq_false_iff, decide_eq_false_iff_not,
    Nat.not_lt, gt_iff_lt]
  exact Iff.rfl

theorem hiOk_none_of_lt {t : Nat} (ht : t < 2 ^ 64) : hiOk none t := by
  simp only [hiOk, u64Max]; omega

theorem loOk_none (t : Nat) : loOk none t := by simp [loOk]

/-! ### bounds: `mergeLo` is `max`, `mergeHi` is `min`, with `none` neutral -/

theorem mergeLo_comm (a b : Option Nat) : mergeLo a b = mergeLo b a := by
  cases a <;> cases b <;> simp only [mergeLo]
  split <;> split <;> simp <;> omega

theorem mergeHi_comm (a b : Option Nat) : mergeHi a b = mergeHi b a := by
  cases a <;> cases b <;> simp only [mergeHi]
  split <;> split <;> simp <;> omega

theorem mergeLo_idem (a : Option Nat) : mergeLo a a = a := by
  cases a <;> simp [mergeLo]

theorem mergeHi_idem (a : Option Nat) : mergeHi a a = a := by
  cases a <;> simp [mergeHi]

theorem mergeLo_some (a b : Nat) : mergeLo (some a) (some b) = some (max a b) := by
  simp only [mergeLo]; split <;> congr 1 <;> omega

theorem mergeHi_some (a b : Nat) : mergeHi (some a) (some b) = some (min a b) := by
  simp only [mergeHi]; split <;> congr 1 <;> omega

theorem mergeLo_none_left (b : Option Nat) : mergeLo none b = b := by cases b <;> rfl
theorem mergeLo_none_right (a : Option Nat) : mergeLo a none = a := by cases a <;> rfl
theorem mergeHi_none_left (b : Option Nat) : mergeHi none b = b := by cases b <;> rfl
theorem mergeHi_none_right (a : Option Nat) : mergeHi a none = a := by cases a <;> rfl

theorem mergeLo_assoc (a b c : Option Nat) :
    mergeLo (mergeLo a b) c = mergeLo a (mergeLo b c) := by
  cases a <;> cases b <;> cases c <;>
    simp only [mergeLo_some, mergeLo_none_left, mergeLo_none_right, Nat.max_assoc]

theorem mergeHi_assoc (a b c : Option Nat) :
    mergeHi (mergeHi a b) c = mergeHi a (mergeHi b c) := by
  cases a <;> cases b <;> cases c <;>
    simp only [mergeHi_some, mergeHi_none_left, mergeHi_none_right, Nat.min_assoc]

/-- the merged lower bound is one of the two -/
theorem mergeLo_mem (a b : Option Nat) : mergeLo a b = a ∨ mergeLo a b = b := by
  cases a <;> cases b <;> simp only [mergeLo] <;> (try split) <;> simp

/-- the merged upper bound is one of the two -/
theorem mergeHi_mem (a b : Option Nat) : mergeHi a b = a ∨ mergeHi a b = b := by
  cases a <;> cases b <;> simp only [mergeHi] <;> (try split) <;> simp

theorem loOk_mergeLo (a b : Option Nat) (t : Nat) :
    loOk (mergeLo a b) t ↔ loOk a t ∧ loOk b t := by
  cases a <;> cases b <;>
    simp only [mergeLo_some, mergeLo_none_left, mergeLo_none_right, loOk] <;> omega

/-- both upper bounds hold ⇒ the merged one holds (no width hypothesis) -/
theorem hiOk_mergeHi_of (a b : Option Nat) (t : Nat) (ha : hiOk a t) (hb : hiOk b t) :
    hiOk (mergeHi a b) t := by
  rcases mergeHi_mem a b with h | h <;> rw [h] <;> assumption

theorem hiOk_mergeHi (a b : Option Nat) (t : Nat) (ht : t < 2 ^ 64) :
    hiOk (mergeHi a b) t ↔ hiOk a t ∧ hiOk b t := by
  cases a <;> cases b <;>
    simp only [mergeHi_some, mergeHi_none_left, mergeHi_none_right, hiOk, u64Max] <;> omega

/-! ### intervals -/

theorem merge_comm (a b : Ivl) : merge a b = merge b a := by
  simp only [merge, mergeLo_comm a.lo, mergeHi_comm a.hi]

theorem merge_assoc (a b c : Ivl) : merge (merge a b) c = merge a (merge b c) := by
  simp only [merge, mergeLo_assoc, mergeHi_assoc]

theorem merge_idem (a : Ivl) : merge a a = a := by
  simp only [merge, mergeLo_idem, mergeHi_idem]

theorem mergeOpt_none_left (x : Option Ivl) : mergeOpt none x = x := by
  cases x <;> rfl

theorem mergeOpt_none_right (x : Option Ivl) : mergeOpt x none = x := by
  cases x <;> rfl

theorem mergeOpt_comm (x y : Option Ivl) : mergeOpt x y = mergeOpt y x := by
  cases x <;> cases y <;> simp only [mergeOpt]
  rw [merge_comm]

theorem mergeOpt_assoc (x y z : Option Ivl) :
    mergeOpt (mergeOpt x y) z = mergeOpt x (mergeOpt y z) := by
  cases x <;> cases y <;> cases z <;> simp only [mergeOpt]
  rw [merge_assoc]

theorem mergeOpt_right_comm (z x y : Option Ivl) :
    mergeOpt (mergeOpt z x) y = mergeOpt (mergeOpt z y) x := by
  rw [mergeOpt_assoc, mergeOpt_comm x y, ← mergeOpt_assoc]

/-- the fold from any accumulator is the accumulator merged with the fold from `none` -/
theorem foldl_mergeOpt (acc : Option Ivl) (ls : List (Option Ivl)) :
    ls.foldl mergeOpt acc = mergeOpt acc (foldLocals ls) := by
  induction ls generalizing acc with
  | nil => simp [foldLocals, mergeOpt_none_right]
  | cons x xs ih =>
    simp only [foldLocals, List.foldl_cons]
    rw [ih, ih (mergeOpt none x), mergeOpt_none_left, mergeOpt_assoc]

theorem foldLocals_nil : foldLocals [] = none := rfl

theorem foldLocals_cons (x : Option Ivl) (xs : List (Option Ivl)) :
    foldLocals (x :: xs) = mergeOpt x (foldLocals xs) := by
  simp only [foldLocals, List.foldl_cons]
  rw [foldl_mergeOpt, mergeOpt_none_left]; rfl

/-- attribute-side and predicate-side folds, merged as `check_non_revoked_interval` does,
are the fold over all the referents -/
theorem foldLocals_append (xs ys : List (Option Ivl)) :
    foldLocals (xs ++ ys) = mergeOpt (foldLocals xs) (foldLocals ys) := by
  simp only [foldLocals, List.foldl_append]
  rw [foldl_mergeOpt]; rfl

theorem foldLocals_eq_none (ls : List (Option Ivl)) :
    foldLocals ls = none ↔ ∀ x ∈ ls, x = none := by
  induction ls with
  | nil => simp [foldLocals_nil]
  | cons x xs ih =>
    rw [foldLocals_cons]
    cases x <;> cases h : foldLocals xs <;> simp_all [mergeOpt]
    · exact ih

/-- any property of lower bounds enjoyed by every local's lower bound is enjoyed by the
fold's (the merged lower bound *is* one of the locals' lower bounds) -/
theorem foldLocals_lo (P : Option Nat → Prop) (ls : List (Option Ivl)) (T : Ivl)
    (hT : foldLocals ls = some T) (h : ∀ l, some l ∈ ls → P l.lo) : P T.lo := by
  induction ls generalizing T with
  | nil => simp [foldLocals_nil] at hT
  | cons x xs ih =>
    rw [foldLocals_cons] at hT
    cases x with
    | none =>
      rw [mergeOpt_none_left] at hT
      exact ih T hT (fun l hl => h l (List.mem_cons_of_mem _ hl))
    | some a =>
      cases hf : foldLocals xs with
      | none =>
        rw [hf] at hT; simp only [mergeOpt, Option.some.injEq] at hT
        subst hT; exact h a (List.mem_cons_self ..)
      | some b =>
        rw [hf] at hT; simp only [mergeOpt, Option.some.injEq] at hT
        subst hT
        have hb := ih b hf (fun l hl => h l (List.mem_cons_of_mem _ hl))
        have ha := h a (List.mem_cons_self ..)
        simp only [merge]
        rcases mergeLo_mem a.lo b.lo with e | e <;> rw [e] <;> assumption

/-- conversely the fold's lower bound is the lower bound of one of the locals -/
theorem foldLocals_lo_mem (ls : List (Option Ivl)) (T : Ivl) (hT : foldLocals ls = some T) :
    ∃ l, some l ∈ ls ∧ T.lo = l.lo :=
  foldLocals_lo (fun x => ∃ l, some l ∈ ls ∧ x = l.lo) ls T hT (fun l hl => ⟨l, hl, rfl⟩)

/-- same for upper bounds -/
theorem foldLocals_hi (P : Option Nat → Prop) (ls : List (Option Ivl)) (T : Ivl)
    (hT : foldLocals ls = some T) (h : ∀ l, some l ∈ ls → P l.hi) : P T.hi := by
  induction ls generalizing T with
  | nil => simp [foldLocals_nil] at hT
  | cons x xs ih =>
    rw [foldLocals_cons] at hT
    cases x with
    | none =>
      rw [mergeOpt_none_left] at hT
      exact ih T hT (fun l hl => h l (List.mem_cons_of_mem _ hl))
    | some a =>
      cases hf : foldLocals xs with
      | none =>
        rw [hf] at hT; simp only [mergeOpt, Option.some.injEq] at hT
        subst hT; exact h a (List.mem_cons_self ..)
      | some b =>
        rw [hf] at hT; simp only [mergeOpt, Option.some.injEq] at hT
        subst hT
        have hb := ih b hf (fun l hl => h l (List.mem_cons_of_mem _ hl))
        have ha := h a (List.mem_cons_self ..)
        simp only [merge]
        rcases mergeHi_mem a.hi b.hi with e | e <;> rw [e] <;> assumption

theorem foldLocals_hi_mem (ls : List (Option Ivl)) (T : Ivl) (hT : foldLocals ls = some T) :
    ∃ l, some l ∈ ls ∧ T.hi = l.hi :=
  foldLocals_hi (fun x => ∃ l, some l ∈ ls ∧ x = l.hi) ls T hT (fun l hl => ⟨l, hl, rfl⟩)

/-! ### override -/

theorem applyOverride_hi (m : List (Nat × Nat)) (i : Ivl) : (applyOverride m i).hi = i.hi := by
  unfold applyOverride; split
  · rfl
  · split <;> rfl

/-- the overridden lower bound depends on the lower bound only -/
theorem applyOverride_lo_congr (m : List (Nat × Nat)) (i j : Ivl) (h : i.lo = j.lo) :
    (applyOverride m i).lo = (applyOverride m j).lo := by
  unfold applyOverride
  rw [h]
  cases j.lo with
  | none => simpa using h
  | some f => simp only; cases m.lookup f <;> simp [h]

theorem overrideFor_hi (id : String) (ovr : Option Overrides) (i : Ivl) :
    (overrideFor id ovr i).hi = i.hi := by
  unfold overrideFor
  split
  · rfl
  · split
    · rfl
    · exact applyOverride_hi _ _

theorem overrideFor_lo_congr (id : String) (ovr : Option Overrides) (i j : Ivl)
    (h : i.lo = j.lo) : (overrideFor id ovr i).lo = (overrideFor id ovr j).lo := by
  unfold overrideFor
  split
  · exact h
  · split
    · exact h
    · exact applyOverride_lo_congr _ _ _ h

/-! ### the two checks -/

theorem checkTs_some_some (i : Ivl) (t : Nat) : checkTs (some i) (some t) = valid i t := rfl

theorem checkTs_validOpt (i : Option Ivl) (t : Nat) : checkTs i (some t) = validOpt i t := by
  cases i <;> rfl

/-- `requested` with a registry id: local if present else global, then the override -/
theorem requested_some (id : String) (loc glob : Option Ivl) (ovr : Option Overrides) :
    requested (some id) loc glob ovr =
      match loc with
      | some l => some (overrideFor id ovr l)
      | none =>
        match glob with
        | some g => some (overrideFor id ovr g)
        | none => none := by
  cases loc <;> cases glob <;> rfl

end AnonModel.Interval

import AnonModel.Lemmas.Prover
/-!
# More helper lemmas about `createPresentation`: membership in / keys of the maps of `requested_proof`,
sub-proofs and identifiers by index (continues `Lemmas/Prover.lean`, section 6)
-/
namespace AnonModel.Prover
open AnonModel.Verifier AnonModel.IdealCL AnonModel.Names

/-! ## 6. membership in the maps of `requested_proof` -/
section Membership
variable {pc : PCtx} {r : Request} {sel : List Selected} {sa : List (String × String)}
  {holder session uid0 : Nat} {p : Presentation}

theorem getElem?_lt {α : Type} {l : List α} {i : Nat} {a : α} (h : l[i]? = some a) : i < l.length :=
  (List.getElem?_eq_some_iff.mp h).1

theorem LegacyChar.mem_revealed (ch : LegacyChar pc r sel sa holder session uid0 p) {k : String}
    {info : RevealedInfo} (h : (k, info) ∈ p.revealed) :
    ∃ s i ai name re, (usedOf sel)[i]? = some s ∧ (k, true) ∈ s.attrs ∧ r.attrs.lookup k = some ai ∧
      ai.name = some name ∧ credValue s.cred name = some re ∧
      info = { idx := i, raw := re.1, encoded := re.2 } := by
  rw [ch.revealed] at h
  obtain ⟨⟨s, j⟩, hsj, hk⟩ := List.mem_flatMap.mp h
  obtain ⟨rr, hrr, hk⟩ := List.mem_flatMap.mp hk
  obtain ⟨rfl, ai, name, re, hlk, hname, hcv, rfl⟩ := mem_revOf hk
  exact ⟨s, j, ai, name, re, mem_zipIdx_iff.mp hsj, hrr, hlk, hname, hcv, rfl⟩

theorem LegacyChar.mem_groups (ch : LegacyChar pc r sel sa holder session uid0 p) {k : String}
    {g : GroupInfo} (h : (k, g) ∈ p.groups) :
    ∃ s i ai names vals, (usedOf sel)[i]? = some s ∧ (k, true) ∈ s.attrs ∧ r.attrs.lookup k = some ai ∧
      ai.name = none ∧ ai.names = some names ∧
      names.eraseDups.mapM (fun n => (credValue s.cred n).map (fun re => (n, re))) = some vals ∧
      g = { idx := i, values := vals } := by
  rw [ch.groups] at h
  obtain ⟨⟨s, j⟩, hsj, hk⟩ := List.mem_flatMap.mp h
  obtain ⟨rr, hrr, hk⟩ := List.mem_flatMap.mp hk
  obtain ⟨rfl, ai, names, vals, hlk, hname, hnames, hvals, rfl⟩ := mem_grpOf hk
  exact ⟨s, j, ai, names, vals, mem_zipIdx_iff.mp hsj, hrr, hlk, hname, hnames, hvals, rfl⟩

theorem LegacyChar.mem_unrevealed (ch : LegacyChar pc r sel sa holder session uid0 p) {k : String}
    {j : Nat} (h : (k, j) ∈ p.unrevealed) : ∃ s, (usedOf sel)[j]? = some s ∧ (k, false) ∈ s.attrs := by
  rw [ch.unrevealed] at h
  obtain ⟨⟨s, j'⟩, hsj, hk⟩ := List.mem_flatMap.mp h
  obtain ⟨rr, hrr, hk⟩ := List.mem_flatMap.mp hk
  obtain ⟨rfl, rfl⟩ := mem_unrOf hk
  exact ⟨s, mem_zipIdx_iff.mp hsj, hrr⟩

theorem LegacyChar.mem_predicates (ch : LegacyChar pc r sel sa holder session uid0 p) {k : String}
    {j : Nat} : (k, j) ∈ p.predicates ↔ ∃ s, (usedOf sel)[j]? = some s ∧ k ∈ s.preds := by
  rw [ch.predicates]
  constructor
  · intro h
    obtain ⟨⟨s, j'⟩, hsj, hk⟩ := List.mem_flatMap.mp h
    obtain ⟨ref, href, e⟩ := List.mem_map.mp hk
    simp only [Prod.mk.injEq] at e
    obtain ⟨rfl, rfl⟩ := e
    exact ⟨s, mem_zipIdx_iff.mp hsj, href⟩
  · rintro ⟨s, hs, hk⟩
    exact List.mem_flatMap.mpr ⟨(s, j), mem_zipIdx_iff.mpr hs, List.mem_map.mpr ⟨k, hk, rfl⟩⟩

/-- a referent marked revealed is in the request (else `update_requested_proof` fails) -/
theorem LegacyChar.revealed_requested (ch : LegacyChar pc r sel sa holder session uid0 p) {s : Selected}
    {i : Nat} (hs : (usedOf sel)[i]? = some s) {k : String} (hk : (k, true) ∈ s.attrs) :
    ∃ ai, r.attrs.lookup k = some ai := by
  obtain ⟨e, he⟩ := ch.entryOk (s, i) (mem_zipIdx_iff.mpr hs) (k, true) hk
  unfold rpEntry at he
  simp only [if_true] at he
  cases hl : r.attrs.lookup k with
  | none => simp [hl] at he
  | some ai => exact ⟨ai, rfl⟩

theorem LegacyChar.revealed_of (ch : LegacyChar pc r sel sa holder session uid0 p) {s : Selected}
    {i : Nat} (hs : (usedOf sel)[i]? = some s) {k : String} (hk : (k, true) ∈ s.attrs) {ai : AttrInfo}
    (hl : r.attrs.lookup k = some ai) {name : String} (hn : ai.name = some name) :
    ∃ re, credValue s.cred name = some re ∧
      (k, ({ idx := i, raw := re.1, encoded := re.2 } : RevealedInfo)) ∈ p.revealed := by
  obtain ⟨e, he⟩ := ch.entryOk (s, i) (mem_zipIdx_iff.mpr hs) (k, true) hk
  cases hc : credValue s.cred name with
  | none => simp [rpEntry, hl, hn, hc] at he
  | some re =>
    refine ⟨re, rfl, ?_⟩
    rw [ch.revealed]
    refine List.mem_flatMap.mpr ⟨(s, i), mem_zipIdx_iff.mpr hs, List.mem_flatMap.mpr ⟨(k, true), hk, ?_⟩⟩
    simp [revOf, rpEntry, hl, hn, hc, RpPart.empty]

theorem LegacyChar.groups_of (ch : LegacyChar pc r sel sa holder session uid0 p) {s : Selected}
    {i : Nat} (hs : (usedOf sel)[i]? = some s) {k : String} (hk : (k, true) ∈ s.attrs) {ai : AttrInfo}
    (hl : r.attrs.lookup k = some ai) (hn : ai.name = none) {names : List String}
    (hns : ai.names = some names) :
    ∃ vals, names.eraseDups.mapM (fun n => (credValue s.cred n).map (fun re => (n, re))) = some vals ∧
      (k, ({ idx := i, values := vals } : GroupInfo)) ∈ p.groups := by
  obtain ⟨e, he⟩ := ch.entryOk (s, i) (mem_zipIdx_iff.mpr hs) (k, true) hk
  cases hc : names.eraseDups.mapM (fun n => (credValue s.cred n).map (fun re => (n, re))) with
  | none => simp [rpEntry, hl, hn, hns, hc] at he
  | some vals =>
    refine ⟨vals, rfl, ?_⟩
    rw [ch.groups]
    refine List.mem_flatMap.mpr ⟨(s, i), mem_zipIdx_iff.mpr hs, List.mem_flatMap.mpr ⟨(k, true), hk, ?_⟩⟩
    simp [grpOf, rpEntry, hl, hn, hns, hc, RpPart.empty]

theorem LegacyChar.unrevealed_of (ch : LegacyChar pc r sel sa holder session uid0 p) {s : Selected}
    {i : Nat} (hs : (usedOf sel)[i]? = some s) {k : String} (hk : (k, false) ∈ s.attrs) :
    (k, i) ∈ p.unrevealed := by
  rw [ch.unrevealed]
  exact List.mem_flatMap.mpr ⟨(s, i), mem_zipIdx_iff.mpr hs, List.mem_flatMap.mpr ⟨(k, false), hk, by
    rw [unrOf_false]; exact List.mem_singleton.mpr rfl⟩⟩

/-- the sub-proof at index `i` is the one built for the `i`-th used entry -/
theorem LegacyChar.sub_of (ch : LegacyChar pc r sel sa holder session uid0 p) {s : Selected}
    {i : Nat} (hs : (usedOf sel)[i]? = some s) :
    ∃ sub, p.subs[i]? = some sub ∧ addSubProof pc r s holder session (uid0 + i) = some sub := by
  have hsi' : (usedOf sel).zipIdx[i]? = some (s, i) := by
    rw [List.getElem?_zipIdx, hs]; simp
  exact mapM_some_of_getElem? ch.subs hsi'

theorem LegacyChar.sub_inv (ch : LegacyChar pc r sel sa holder session uid0 p) {sub : SymSub}
    {i : Nat} (hs : p.subs[i]? = some sub) :
    ∃ s, (usedOf sel)[i]? = some s ∧ addSubProof pc r s holder session (uid0 + i) = some sub := by
  obtain ⟨⟨s, j'⟩, hsj, hadd⟩ := mapM_some_getElem?_inv ch.subs hs
  rw [List.getElem?_zipIdx] at hsj
  cases hs' : (usedOf sel)[i]? with
  | none => simp [hs'] at hsj
  | some s' =>
    simp [hs'] at hsj
    obtain ⟨rfl, rfl⟩ := hsj
    exact ⟨s', rfl, hadd⟩

theorem LegacyChar.subs_length (ch : LegacyChar pc r sel sa holder session uid0 p) :
    p.subs.length = (usedOf sel).length := by
  rw [mapM_some_length ch.subs, List.length_zipIdx]

theorem LegacyChar.identifiers_length (ch : LegacyChar pc r sel sa holder session uid0 p) :
    p.identifiers.length = (usedOf sel).length := by
  rw [ch.identifiers, List.length_map]

theorem LegacyChar.identifier_of (ch : LegacyChar pc r sel sa holder session uid0 p) {s : Selected}
    {i : Nat} (hs : (usedOf sel)[i]? = some s) : p.identifiers[i]? = some (identOf s) := by
  rw [ch.identifiers, List.getElem?_map, hs]; rfl

/-- the keys a selection item contributes to each of the three maps: at most its own referent -/
theorem revOf_keys_sublist (r : Request) (c : HeldCred) (i : Nat) (rr : String × Bool) :
    ((revOf r c i rr).map Prod.fst).Sublist [rr.1] := by
  obtain ⟨ref, b⟩ := rr
  cases b with
  | false => simp [revOf, rpEntry, RpPart.empty]
  | true =>
    cases hl : r.attrs.lookup ref with
    | none => simp [revOf, rpEntry, hl]
    | some ai =>
      cases hn : ai.name with
      | some name => cases hc : credValue c name <;> simp [revOf, rpEntry, hl, hn, hc, RpPart.empty]
      | none =>
        cases hns : ai.names with
        | none => simp [revOf, rpEntry, hl, hn, hns, RpPart.empty]
        | some names =>
          cases hm : names.eraseDups.mapM (fun n => (credValue c n).map (fun re => (n, re))) <;>
            simp [revOf, rpEntry, hl, hn, hns, hm, RpPart.empty]

theorem grpOf_keys_sublist (r : Request) (c : HeldCred) (i : Nat) (rr : String × Bool) :
    ((grpOf r c i rr).map Prod.fst).Sublist [rr.1] := by
  obtain ⟨ref, b⟩ := rr
  cases b with
  | false => simp [grpOf, rpEntry, RpPart.empty]
  | true =>
    cases hl : r.attrs.lookup ref with
    | none => simp [grpOf, rpEntry, hl]
    | some ai =>
      cases hn : ai.name with
      | some name => cases hc : credValue c name <;> simp [grpOf, rpEntry, hl, hn, hc, RpPart.empty]
      | none =>
        cases hns : ai.names with
        | none => simp [grpOf, rpEntry, hl, hn, hns, RpPart.empty]
        | some names =>
          cases hm : names.eraseDups.mapM (fun n => (credValue c n).map (fun re => (n, re))) <;>
            simp [grpOf, rpEntry, hl, hn, hns, hm, RpPart.empty]

theorem unrOf_keys_sublist (r : Request) (c : HeldCred) (i : Nat) (rr : String × Bool) :
    ((unrOf r c i rr).map Prod.fst).Sublist [rr.1] := by
  obtain ⟨ref, b⟩ := rr
  cases b with
  | false => simp [unrOf, rpEntry, RpPart.empty]
  | true =>
    cases hl : r.attrs.lookup ref with
    | none => simp [unrOf, rpEntry, hl]
    | some ai =>
      cases hn : ai.name with
      | some name => cases hc : credValue c name <;> simp [unrOf, rpEntry, hl, hn, hc, RpPart.empty]
      | none =>
        cases hns : ai.names with
        | none => simp [unrOf, rpEntry, hl, hn, hns, RpPart.empty]
        | some names =>
          cases hm : names.eraseDups.mapM (fun n => (credValue c n).map (fun re => (n, re))) <;>
            simp [unrOf, rpEntry, hl, hn, hns, hm, RpPart.empty]

theorem keys_nodup_of {β : Type} {sel : List Selected} (hv : selectionValid sel = true)
    (F : HeldCred → Nat → String × Bool → List (String × β))
    (hF : ∀ c i rr, ((F c i rr).map Prod.fst).Sublist [rr.1]) :
    (((usedOf sel).zipIdx.flatMap (fun si => si.1.attrs.flatMap (F si.1.cred si.2))).map Prod.fst).Nodup := by
  refine List.Nodup.sublist ?_ (used_attr_keys_nodup hv)
  rw [List.map_flatMap]
  apply flatMap_sublist
  intro si _
  rw [List.map_flatMap, List.map_eq_flatMap]
  apply flatMap_sublist
  intro rr _
  exact hF si.1.cred si.2 rr

theorem LegacyChar.revealed_nodup (ch : LegacyChar pc r sel sa holder session uid0 p) :
    (p.revealed.map Prod.fst).Nodup := by
  rw [ch.revealed]; exact keys_nodup_of ch.valid (revOf r) (revOf_keys_sublist r)

theorem LegacyChar.groups_nodup (ch : LegacyChar pc r sel sa holder session uid0 p) :
    (p.groups.map Prod.fst).Nodup := by
  rw [ch.groups]; exact keys_nodup_of ch.valid (grpOf r) (grpOf_keys_sublist r)

theorem LegacyChar.unrevealed_nodup (ch : LegacyChar pc r sel sa holder session uid0 p) :
    (p.unrevealed.map Prod.fst).Nodup := by
  rw [ch.unrevealed]; exact keys_nodup_of ch.valid (unrOf r) (unrOf_keys_sublist r)

theorem LegacyChar.predicates_nodup (ch : LegacyChar pc r sel sa holder session uid0 p) :
    (p.predicates.map Prod.fst).Nodup := by
  rw [ch.predicates]
  refine List.Nodup.sublist ?_ (used_pred_keys_nodup ch.valid)
  rw [List.map_flatMap]
  apply flatMap_sublist
  intro si _
  rw [List.map_map]
  have : (Prod.fst ∘ fun ref => (ref, si.2)) = (id : String → String) := rfl
  rw [this, List.map_id]
  exact List.Sublist.refl _

end Membership

/-! ## 7. lookups in what the prover builds -/

/-- a list of `(n, F n)` pairs built by `mapM` maps each of its keys `n` to `F n` -/
theorem mapM_pair_lookup {β : Type} {F : String → Option β} : ∀ {l : List String} {vals : List (String × β)},
    l.mapM (fun n => (F n).map (fun v => (n, v))) = some vals → ∀ n ∈ l, vals.lookup n = F n := by
  intro l
  induction l with
  | nil => intro vals _ n hn; cases hn
  | cons a l ih =>
    intro vals h n hn
    rw [List.mapM_cons] at h
    cases hfa : F a with
    | none => simp [hfa] at h
    | some va =>
      cases hl : l.mapM (fun n => (F n).map (fun v => (n, v))) with
      | none => simp [hfa, hl] at h
      | some vs =>
        simp [hfa, hl] at h
        subst h
        by_cases e : n = a
        · subst e; simp [List.lookup, hfa]
        · have hn' : n ∈ l := by
            rcases List.mem_cons.mp hn with h | h
            · exact absurd h e
            · exact h
          simp only [List.lookup]
          rw [show (n == a) = false from by simpa using e]
          exact ih hl n hn'

theorem mapM_pair_keys {β : Type} {F : String → Option β} {l : List String} {vals : List (String × β)}
    (h : l.mapM (fun n => (F n).map (fun v => (n, v))) = some vals) : vals.map Prod.fst = l := by
  have := mapM_some_map' (g := Prod.fst) (h := id) h (fun a _ b hb => by
    cases hfa : F a with
    | none => simp [hfa] at hb
    | some v => simp [hfa] at hb; subst hb; rfl)
  simpa using this

/-- the equality proof of the sub-proof built for a selection entry answers, for every name asked for
by a referent marked revealed, with the signed value of that attribute -/
theorem addSubProof_lookupNorm {pc : PCtx} {r : Request} {s : Selected} {holder session uid : Nat}
    {sub : SymSub} (h : addSubProof pc r s holder session uid = some sub) {n0 : String}
    (hm : MarkedRevealed r s.attrs n0) :
    ∃ v, s.cred.sym.attrs.lookup (commonView n0) = some v ∧
      lookupNorm sub.revealed n0 = some (commonView n0, v) := by
  obtain ⟨schemaAttrs, ainfos, pinfos, _, _, hma, _, hb⟩ := addSubProof_some h
  obtain ⟨_, _, _, _, _, _, hrev, _⟩ := buildSub_some hb
  obtain ⟨ref, ai, hmem, hlk, hn0⟩ := hm
  have href : ref ∈ (s.attrs.filter (·.2)).map Prod.fst :=
    List.mem_map.mpr ⟨(ref, true), List.mem_filter.mpr ⟨hmem, rfl⟩, rfl⟩
  obtain ⟨ai', hai', hlk'⟩ := mapM_some_mem hma href
  rw [hlk] at hlk'; cases hlk'
  have hin : commonView n0 ∈ dedup ((ainfos.flatMap (·.allNames)).map commonView) :=
    mem_dedup.mpr (List.mem_map_of_mem (List.mem_flatMap.mpr ⟨ai, hai', hn0⟩))
  have hlook := mapM_pair_lookup hrev _ hin
  have hkeys := mapM_pair_keys hrev
  have hnormal : ∀ kv ∈ sub.revealed, commonView kv.1 = kv.1 := by
    intro kv hkv
    have : kv.1 ∈ sub.revealed.map Prod.fst := List.mem_map_of_mem hkv
    rw [hkeys] at this
    obtain ⟨n1, _, e⟩ := List.mem_map.mp (mem_dedup.mp this)
    rw [← e, commonView_idem]
  obtain ⟨kv, _, hkv⟩ := mapM_some_mem hrev hin
  cases hv : s.cred.sym.attrs.lookup (commonView n0) with
  | none => simp [hv] at hkv
  | some v =>
    refine ⟨v, rfl, ?_⟩
    rw [lookupNorm_of_normal n0 hnormal, hlook, hv]; rfl

/-- the names in a sub-proof's equality proof and predicates are normal forms -/
theorem addSubProof_normal {pc : PCtx} {r : Request} {s : Selected} {holder session uid : Nat}
    {sub : SymSub} (h : addSubProof pc r s holder session uid = some sub) :
    (∀ kv ∈ sub.revealed, commonView kv.1 = kv.1) ∧ (∀ pr ∈ sub.preds, commonView pr.attr = pr.attr) := by
  obtain ⟨schemaAttrs, ainfos, pinfos, _, _, hma, _, hb⟩ := addSubProof_some h
  obtain ⟨_, _, _, _, _, _, hrev, hpreds, _⟩ := buildSub_some hb
  have hkeys := mapM_pair_keys hrev
  constructor
  · intro kv hkv
    have : kv.1 ∈ sub.revealed.map Prod.fst := List.mem_map_of_mem hkv
    rw [hkeys] at this
    obtain ⟨n1, _, e⟩ := List.mem_map.mp (mem_dedup.mp this)
    rw [← e, commonView_idem]
  · intro pr hpr
    rw [hpreds] at hpr
    obtain ⟨q, _, e⟩ := List.mem_map.mp (mem_dedup.mp hpr)
    rw [← e]; exact commonView_idem _

/-- `credValue` finds an entry of the credential's values with the same normal form of the name -/
theorem credValue_some {c : HeldCred} {n : String} {re : String × String} (h : credValue c n = some re) :
    ∃ k, (k, re) ∈ c.values ∧ commonView k = commonView n := by
  unfold credValue at h
  cases hl : lookupNorm c.values n with
  | none => simp [hl] at h
  | some kv =>
    simp [hl] at h
    subst h
    exact ⟨kv.1, (lookupNorm_some hl).1, (lookupNorm_some hl).2⟩

/-! ## 8. selecting the part of a map that belongs to one sub-proof index -/
section Select
variable {α X Y : Type}

theorem flatMap_eq_nil_of {l : List α} {f : α → List Y} (h : ∀ a ∈ l, f a = []) : l.flatMap f = [] := by
  induction l with
  | nil => rfl
  | cons a l ih =>
    rw [List.flatMap_cons, h a List.mem_cons_self, ih (fun b hb => h b (List.mem_cons_of_mem _ hb))]
    rfl

theorem zipIdx_flatMap_ite (H : α × Nat → List Y) : ∀ (l : List α) (k i : Nat),
    (l.zipIdx k).flatMap (fun si => if si.2 = k + i then H si else []) =
      match l[i]? with
      | some a => H (a, k + i)
      | none => [] := by
  intro l
  induction l with
  | nil => intro k i; simp
  | cons a l ih =>
    intro k i
    rw [List.zipIdx_cons, List.flatMap_cons]
    cases i with
    | zero =>
      have : (l.zipIdx (k + 1)).flatMap (fun si => if si.2 = k + 0 then H si else []) = [] := by
        apply flatMap_eq_nil_of
        intro si hsi
        have := List.le_snd_of_mem_zipIdx hsi
        rw [if_neg (by omega)]
      rw [this]
      simp
    | succ i' =>
      have e : k + (i' + 1) = k + 1 + i' := by omega
      rw [e, ih (k + 1) i']
      simp only [List.getElem?_cons_succ]
      rw [if_neg (by omega)]
      rfl

theorem flatMap_congr' {l : List α} {f g : α → List Y} (h : ∀ a ∈ l, f a = g a) :
    l.flatMap f = l.flatMap g := by
  induction l with
  | nil => rfl
  | cons a l ih =>
    rw [List.flatMap_cons, List.flatMap_cons, h a List.mem_cons_self,
      ih (fun b hb => h b (List.mem_cons_of_mem _ hb))]

/-- of a list assembled sub-proof by sub-proof, the items with index `i` are those of the `i`-th part -/
theorem zipIdx_flatMap_select (l : List α) (F : α × Nat → List X) (g : X → Nat) (G : X → List Y)
    (hg : ∀ si ∈ l.zipIdx, ∀ x ∈ F si, g x = si.2) {i : Nat} {a : α} (h : l[i]? = some a) :
    (l.zipIdx.flatMap F).flatMap (fun x => if g x = i then G x else []) = (F (a, i)).flatMap G := by
  rw [List.flatMap_assoc]
  have h1 : l.zipIdx.flatMap (fun si => (F si).flatMap (fun x => if g x = i then G x else [])) =
      l.zipIdx.flatMap (fun si => if si.2 = 0 + i then (F si).flatMap G else []) := by
    apply flatMap_congr'
    intro si hsi
    by_cases e : si.2 = i
    · rw [if_pos (by omega)]
      apply flatMap_congr'
      intro x hx
      rw [if_pos (by rw [hg si hsi x hx]; exact e)]
    · rw [if_neg (by omega)]
      apply flatMap_eq_nil_of
      intro x hx
      rw [if_neg (by rw [hg si hsi x hx]; exact e)]
  rw [h1, zipIdx_flatMap_ite (fun si => (F si).flatMap G) l 0 i, h]
  simp

theorem filter_eq_flatMap_ite (p : X → Prop) [DecidablePred p] (l : List X) :
    l.filter (fun x => decide (p x)) = l.flatMap (fun x => if p x then [x] else []) := by
  induction l with
  | nil => rfl
  | cons a l ih =>
    rw [List.flatMap_cons, List.filter_cons]
    by_cases h : p a
    · simp [h, ih]
    · simp [h, ih]

theorem zipIdx_flatMap_filter (l : List α) (F : α × Nat → List X) (g : X → Nat)
    (hg : ∀ si ∈ l.zipIdx, ∀ x ∈ F si, g x = si.2) {i : Nat} {a : α} (h : l[i]? = some a) :
    (l.zipIdx.flatMap F).filter (fun x => decide (g x = i)) = F (a, i) := by
  rw [filter_eq_flatMap_ite (fun x => g x = i), zipIdx_flatMap_select l F g (fun x => [x]) hg h]
  simp

end Select

/-! ## 9. lookups in the maps of `requested_proof` -/
section Lookups
variable {pc : PCtx} {r : Request} {sel : List Selected} {sa : List (String × String)}
  {holder session uid0 : Nat} {p : Presentation}

theorem LegacyChar.not_unrevealed_of_true (ch : LegacyChar pc r sel sa holder session uid0 p)
    {s : Selected} {i : Nat} (hs : (usedOf sel)[i]? = some s) {k : String} (hk : (k, true) ∈ s.attrs) :
    p.unrevealed.lookup k = none := by
  rw [lookup_eq_none_iff']
  intro hmem
  obtain ⟨⟨k', j⟩, hkj, e⟩ := List.mem_map.mp hmem
  simp only at e; subst e
  obtain ⟨s', hs', hf⟩ := ch.mem_unrevealed hkj
  have := (sel_entry_unique ch.valid (mem_zipIdx_iff.mpr hs) (mem_zipIdx_iff.mpr hs') hk hf).2
  cases this

/-- an unrevealed referent: in `unrevealed_attrs` only -/
theorem LegacyChar.lookup_unrevealed (ch : LegacyChar pc r sel sa holder session uid0 p)
    {s : Selected} {i : Nat} (hs : (usedOf sel)[i]? = some s) {k : String} (hk : (k, false) ∈ s.attrs) :
    p.unrevealed.lookup k = some i ∧ p.revealed.lookup k = none ∧ p.groups.lookup k = none := by
  refine ⟨lookup_of_mem ch.unrevealed_nodup (ch.unrevealed_of hs hk), ?_, ?_⟩
  · rw [lookup_eq_none_iff']
    intro hmem
    obtain ⟨⟨k', info⟩, hkj, e⟩ := List.mem_map.mp hmem
    simp only at e; subst e
    obtain ⟨s', i', _, _, _, hs', ht, _⟩ := ch.mem_revealed hkj
    have := (sel_entry_unique ch.valid (mem_zipIdx_iff.mpr hs) (mem_zipIdx_iff.mpr hs') hk ht).2
    cases this
  · rw [lookup_eq_none_iff']
    intro hmem
    obtain ⟨⟨k', g⟩, hkj, e⟩ := List.mem_map.mp hmem
    simp only at e; subst e
    obtain ⟨s', i', _, _, _, hs', ht, _⟩ := ch.mem_groups hkj
    have := (sel_entry_unique ch.valid (mem_zipIdx_iff.mpr hs) (mem_zipIdx_iff.mpr hs') hk ht).2
    cases this

/-- a revealed single referent: in `revealed_attrs` only -/
theorem LegacyChar.lookup_revealed (ch : LegacyChar pc r sel sa holder session uid0 p)
    {s : Selected} {i : Nat} (hs : (usedOf sel)[i]? = some s) {k : String} (hk : (k, true) ∈ s.attrs)
    {ai : AttrInfo} (hl : r.attrs.lookup k = some ai) {name : String} (hn : ai.name = some name) :
    ∃ re, credValue s.cred name = some re ∧
      p.revealed.lookup k = some { idx := i, raw := re.1, encoded := re.2 } ∧
      p.unrevealed.lookup k = none ∧ p.groups.lookup k = none := by
  obtain ⟨re, hc, hmem⟩ := ch.revealed_of hs hk hl hn
  refine ⟨re, hc, lookup_of_mem ch.revealed_nodup hmem, ch.not_unrevealed_of_true hs hk, ?_⟩
  rw [lookup_eq_none_iff']
  intro hmem
  obtain ⟨⟨k', g⟩, hkj, e⟩ := List.mem_map.mp hmem
  simp only at e; subst e
  obtain ⟨_, _, ai', _, _, _, _, hl', hn', _⟩ := ch.mem_groups hkj
  rw [hl] at hl'; cases hl'
  rw [hn] at hn'; cases hn'

/-- a revealed group referent: in `revealed_attr_groups` only -/
theorem LegacyChar.lookup_group (ch : LegacyChar pc r sel sa holder session uid0 p)
    {s : Selected} {i : Nat} (hs : (usedOf sel)[i]? = some s) {k : String} (hk : (k, true) ∈ s.attrs)
    {ai : AttrInfo} (hl : r.attrs.lookup k = some ai) (hn : ai.name = none) {names : List String}
    (hns : ai.names = some names) :
    ∃ vals, names.eraseDups.mapM (fun n => (credValue s.cred n).map (fun re => (n, re))) = some vals ∧
      p.groups.lookup k = some { idx := i, values := vals } ∧
      p.unrevealed.lookup k = none ∧ p.revealed.lookup k = none := by
  obtain ⟨vals, hv, hmem⟩ := ch.groups_of hs hk hl hn hns
  refine ⟨vals, hv, lookup_of_mem ch.groups_nodup hmem, ch.not_unrevealed_of_true hs hk, ?_⟩
  rw [lookup_eq_none_iff']
  intro hmem
  obtain ⟨⟨k', info⟩, hkj, e⟩ := List.mem_map.mp hmem
  simp only at e; subst e
  obtain ⟨_, _, ai', _, _, _, _, hl', hn', _⟩ := ch.mem_revealed hkj
  rw [hl] at hl'; cases hl'
  rw [hn] at hn'; cases hn'

theorem LegacyChar.lookup_predicate (ch : LegacyChar pc r sel sa holder session uid0 p)
    {s : Selected} {i : Nat} (hs : (usedOf sel)[i]? = some s) {k : String} (hk : k ∈ s.preds) :
    p.predicates.lookup k = some i :=
  lookup_of_mem ch.predicates_nodup (ch.mem_predicates.mpr ⟨s, hs, hk⟩)

/-- the part of `revealed_attrs` with sub-proof index `i` -/
theorem LegacyChar.revealed_select (ch : LegacyChar pc r sel sa holder session uid0 p) {Y : Type}
    (G : String × RevealedInfo → List Y) {s : Selected} {i : Nat} (hs : (usedOf sel)[i]? = some s) :
    p.revealed.flatMap (fun kv => if kv.2.idx = i then G kv else []) =
      (s.attrs.flatMap (revOf r s.cred i)).flatMap G := by
  rw [ch.revealed]
  exact zipIdx_flatMap_select (usedOf sel) (fun si => si.1.attrs.flatMap (revOf r si.1.cred si.2))
    (fun kv => kv.2.idx) G (fun si _ kv hkv => by
      obtain ⟨rr, _, hk⟩ := List.mem_flatMap.mp hkv
      obtain ⟨k, info⟩ := kv
      obtain ⟨_, _, _, _, _, _, _, rfl⟩ := mem_revOf hk
      rfl) hs

theorem LegacyChar.groups_select (ch : LegacyChar pc r sel sa holder session uid0 p) {Y : Type}
    (G : String × GroupInfo → List Y) {s : Selected} {i : Nat} (hs : (usedOf sel)[i]? = some s) :
    p.groups.flatMap (fun kv => if kv.2.idx = i then G kv else []) =
      (s.attrs.flatMap (grpOf r s.cred i)).flatMap G := by
  rw [ch.groups]
  exact zipIdx_flatMap_select (usedOf sel) (fun si => si.1.attrs.flatMap (grpOf r si.1.cred si.2))
    (fun kv => kv.2.idx) G (fun si _ kv hkv => by
      obtain ⟨rr, _, hk⟩ := List.mem_flatMap.mp hkv
      obtain ⟨k, g⟩ := kv
      obtain ⟨_, _, _, _, _, _, _, _, rfl⟩ := mem_grpOf hk
      rfl) hs

theorem LegacyChar.revealed_filter (ch : LegacyChar pc r sel sa holder session uid0 p)
    {s : Selected} {i : Nat} (hs : (usedOf sel)[i]? = some s) :
    p.revealed.filter (fun kv => decide (kv.2.idx = i)) = s.attrs.flatMap (revOf r s.cred i) := by
  rw [ch.revealed]
  exact zipIdx_flatMap_filter (usedOf sel) (fun si => si.1.attrs.flatMap (revOf r si.1.cred si.2))
    (fun kv => kv.2.idx) (fun si _ kv hkv => by
      obtain ⟨rr, _, hk⟩ := List.mem_flatMap.mp hkv
      obtain ⟨k, info⟩ := kv
      obtain ⟨_, _, _, _, _, _, _, rfl⟩ := mem_revOf hk
      rfl) hs

theorem LegacyChar.groups_filter (ch : LegacyChar pc r sel sa holder session uid0 p)
    {s : Selected} {i : Nat} (hs : (usedOf sel)[i]? = some s) :
    p.groups.filter (fun kv => decide (kv.2.idx = i)) = s.attrs.flatMap (grpOf r s.cred i) := by
  rw [ch.groups]
  exact zipIdx_flatMap_filter (usedOf sel) (fun si => si.1.attrs.flatMap (grpOf r si.1.cred si.2))
    (fun kv => kv.2.idx) (fun si _ kv hkv => by
      obtain ⟨rr, _, hk⟩ := List.mem_flatMap.mp hkv
      obtain ⟨k, g⟩ := kv
      obtain ⟨_, _, _, _, _, _, _, _, rfl⟩ := mem_grpOf hk
      rfl) hs

theorem LegacyChar.predicates_filter (ch : LegacyChar pc r sel sa holder session uid0 p)
    {s : Selected} {i : Nat} (hs : (usedOf sel)[i]? = some s) :
    p.predicates.filter (fun kv => decide (kv.2 = i)) = s.preds.map (fun ref => (ref, i)) := by
  rw [ch.predicates]
  exact zipIdx_flatMap_filter (usedOf sel) (fun si => si.1.preds.map (fun ref => (ref, si.2)))
    (fun kv => kv.2) (fun si _ kv hkv => by
      obtain ⟨ref, _, e⟩ := List.mem_map.mp hkv
      rw [← e]) hs

end Lookups

end AnonModel.Prover

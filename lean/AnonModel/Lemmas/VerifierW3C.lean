import AnonModel.Model.VerifierW3C
/-!
# Helper lemmas for the soundness theorems of the W3C verifier model (`Model/VerifierW3C.lean`)

* facts carried by `IdealCL.verify … true = some true` (`verify_true`);
* unfolding of `verifyW3C ctx r p = .ok true` (`verifyW3C_ok_true_iff`);
* what `p.creds.mapM (subCtxFor ctx) = some cs` says credential by credential (`mapM_subCtxFor`);
* `CredSound`: what an accepted presentation guarantees about each of its credentials, and
  `credSound_of_ok`;
* one small concrete accepted presentation (`Demo`) for the non-vacuity `example`s of the
  `Props/C0xW3C.lean` files.
-/
namespace AnonModel.VerifierW3C
open AnonModel.Query (Query Filter)
open AnonModel.Interval (Ivl Overrides)
open AnonModel.IdealCL
open AnonModel.Verifier
open AnonModel

/-! ## normal-form lookups -/

/-- `lookupNorm` returns an entry of the list whose key has the normal form asked for -/
theorem lookupNorm_some {α : Type} {kvs : List (String × α)} {name : String} {kv : String × α}
    (h : Names.lookupNorm kvs name = some kv) :
    kv ∈ kvs ∧ Names.commonView kv.1 = Names.commonView name := by
  unfold Names.lookupNorm at h
  refine ⟨List.mem_of_find?_eq_some h, ?_⟩
  have := List.find?_some h
  simpa using this

/-- no entry with that normal form ⇒ `lookupNorm` fails -/
theorem lookupNorm_none_of {α : Type} {kvs : List (String × α)} {name : String}
    (h : ∀ kv ∈ kvs, Names.commonView kv.1 ≠ Names.commonView name) :
    Names.lookupNorm kvs name = none := by
  unfold Names.lookupNorm
  rw [List.find?_eq_none]
  intro kv hkv
  simpa using h kv hkv

theorem hasNorm_iff {names : List String} {name : String} :
    Names.hasNorm names name = true ↔ ∃ a ∈ names, Names.commonView a = Names.commonView name := by
  simp [Names.hasNorm]

/-- `verify_revealed_attribute_value` succeeded: the sub-proof reveals, under a name of the same
normal form, the (normalised) encoded value -/
theorem revealedValueOk_iff {name : String} {s : SymSub} {enc : String} :
    revealedValueOk name s enc = true ↔
      ∃ kv, Names.lookupNorm s.revealed name = some kv ∧ Encode.normalizeEnc enc = kv.2 := by
  unfold revealedValueOk
  split <;> simp_all

theorem revealedValueOk_mem {name : String} {s : SymSub} {enc : String}
    (h : revealedValueOk name s enc = true) :
    ∃ kv ∈ s.revealed, Names.commonView kv.1 = Names.commonView name ∧
      Encode.normalizeEnc enc = kv.2 := by
  obtain ⟨kv, hl, he⟩ := revealedValueOk_iff.mp h
  obtain ⟨hm, hn⟩ := lookupNorm_some hl
  exact ⟨kv, hm, hn, he⟩

/-! ## subject accessors -/

theorem getAttribute_some {c : Cred} {name k : String} {v : SubjVal}
    (h : getAttribute c name = some (k, v)) :
    (k, v) ∈ c.subject ∧ Names.commonView k = Names.commonView name ∧ (∀ b, v ≠ .bool b) := by
  unfold getAttribute at h
  split at h
  · rename_i a s hl
    simp only [Option.some.injEq, Prod.mk.injEq] at h
    obtain ⟨rfl, rfl⟩ := h
    obtain ⟨hm, hn⟩ := lookupNorm_some (show Names.lookupNorm c.subject name = some (a, .str s) from hl)
    exact ⟨hm, hn, fun b hb => by cases hb⟩
  · rename_i a n hl
    simp only [Option.some.injEq, Prod.mk.injEq] at h
    obtain ⟨rfl, rfl⟩ := h
    obtain ⟨hm, hn⟩ := lookupNorm_some (show Names.lookupNorm c.subject name = some (a, .num n) from hl)
    exact ⟨hm, hn, fun b hb => by cases hb⟩
  · cases h

theorem getPredicate_some {c : Cred} {name a : String} (h : getPredicate c name = some a) :
    (∃ b, (a, SubjVal.bool b) ∈ c.subject) ∧ Names.commonView a = Names.commonView name := by
  unfold getPredicate at h
  split at h
  · rename_i a' b hl
    simp only [Option.some.injEq] at h
    subst h
    obtain ⟨hm, hn⟩ := lookupNorm_some (show Names.lookupNorm c.subject name = some (a', .bool b) from hl)
    exact ⟨⟨b, hm⟩, hn⟩
  · cases h

/-- the entries of the restriction value map are the string/number subject entries, with the
string form of their value; no entry is `none` -/
theorem mem_subjectValues {c : Cred} {k : String} {ov : Option String} :
    (k, ov) ∈ subjectValues c ↔
      ∃ v, (k, v) ∈ c.subject ∧ (∀ b, v ≠ .bool b) ∧ ov = some v.toStr := by
  unfold subjectValues
  rw [List.mem_filterMap]
  constructor
  · rintro ⟨⟨k', v⟩, hm, he⟩
    cases v with
    | str s =>
      simp only [Option.some.injEq, Prod.mk.injEq] at he
      obtain ⟨rfl, rfl⟩ := he
      exact ⟨.str s, hm, fun b hb => (by cases hb), rfl⟩
    | num n =>
      simp only [Option.some.injEq, Prod.mk.injEq] at he
      obtain ⟨rfl, rfl⟩ := he
      exact ⟨.num n, hm, fun b hb => (by cases hb), rfl⟩
    | bool b => simp at he
  · rintro ⟨v, hm, hnb, rfl⟩
    refine ⟨(k, v), hm, ?_⟩
    cases v with
    | str s => rfl
    | num n => rfl
    | bool b => exact absurd rfl (hnb b)

/-! ## the ideal CL verifier -/

theorem primaryOk_iff {c : SubCtx} {s : SymSub} :
    primaryOk c s = true ↔
      s.intact = true ∧ s.cred.key = c.key ∧
      (∀ a, a ∈ c.schemaAttrs ↔ a ∈ s.cred.attrs.map Prod.fst) ∧
      (∀ kv ∈ s.revealed, s.cred.attrs.lookup kv.1 = some kv.2) ∧
      (∀ pr ∈ s.preds, predHolds s.cred.attrs pr = true) := by
  unfold primaryOk
  simp only [Bool.and_eq_true, decide_eq_true_eq, List.all_eq_true, List.contains_iff_mem,
    beq_iff_eq]
  constructor
  · rintro ⟨⟨⟨⟨h1, h2⟩, h3, h4⟩, h5⟩, h6⟩
    exact ⟨h1, h2, fun a => ⟨h3 a, h4 a⟩, h5, h6⟩
  · rintro ⟨h1, h2, h3, h5, h6⟩
    exact ⟨⟨⟨⟨h1, h2⟩, fun a => (h3 a).mp, fun a => (h3 a).mpr⟩, h5⟩, h6⟩

theorem nrpOk_some {c : SubCtx} {s : SymSub} {n : SymNrp} (hn : s.nrp = some n)
    (h : nrpOk c s = true) :
    n.witOk = true ∧ c.regKey = some n.regKey ∧ c.acc = some n.acc ∧
      s.cred.rev = some (n.regKey, n.idx) := by
  unfold nrpOk at h
  rw [hn] at h
  simp only [Bool.and_eq_true, decide_eq_true_eq] at h
  obtain ⟨⟨⟨h1, h2⟩, h3⟩, h4⟩ := h
  exact ⟨h1, h2.symm, h3.symm, h4⟩

/-- all link-secret responses equal that of the head ⇒ any two are equal -/
private theorem all_eq_head :
    ∀ (l : List SymSub),
      (match l with | [] => true | s :: rest => rest.all (fun t => t.ms == s.ms)) = true →
      ∀ x ∈ l, ∀ y ∈ l, x.ms = y.ms := by
  intro l h x hx y hy
  match l, h with
  | [], _ => cases hx
  | s :: rest, h =>
    simp only [List.all_eq_true, beq_iff_eq] at h
    have hx' : x.ms = s.ms := by
      rcases List.mem_cons.mp hx with rfl | hx
      · rfl
      · exact h x hx
    have hy' : y.ms = s.ms := by
      rcases List.mem_cons.mp hy with rfl | hy
      · rfl
      · exact h y hy
    rw [hx', hy']

/-- everything `ProofVerifier::verify` (ideal version, `master_secret` registered as common
attribute) returning `Ok(true)` tells the caller -/
theorem verify_true {cs : List SubCtx} {subs : List SymSub} {agg : SymAgg} {nonce : String}
    (h : IdealCL.verify cs subs agg nonce true = some true) :
    cs.length = subs.length ∧ agg.intact = true ∧ agg.nonce = nonce ∧
    agg.bound = (cs.zip subs).map (fun p => (p.2.uid, nrpChecked p.1 p.2)) ∧
    (∀ s ∈ subs, ∀ t ∈ subs, s.ms = t.ms) ∧
    (∀ pr ∈ cs.zip subs, paramsConsistent pr.2 = true) ∧
    (∀ pr ∈ cs.zip subs, primaryOk pr.1 pr.2 = true ∧
      (nrpChecked pr.1 pr.2 = true → nrpOk pr.1 pr.2 = true)) := by
  unfold IdealCL.verify at h
  by_cases hlen : cs.length = subs.length
  · rw [if_neg (by simpa using hlen)] at h
    simp only at h
    by_cases hpc : (cs.zip subs).all (fun cs => paramsConsistent cs.2) = true
    · rw [if_neg (by simp [hpc])] at h
      by_cases hms : (match (generalizing := false) subs with
          | [] => true
          | s :: rest => rest.all (fun t => t.ms == s.ms)) = true
      · rw [if_neg (by simp only [Bool.true_and, Bool.not_eq_true', Bool.not_eq_false]; exact hms)] at h
        simp only [Option.some.injEq, Bool.and_eq_true, decide_eq_true_eq, List.all_eq_true,
          Bool.or_eq_true, Bool.not_eq_true'] at h
        obtain ⟨⟨⟨hi, hn⟩, hb⟩, hall⟩ := h
        refine ⟨hlen, hi, hn, hb, all_eq_head subs hms, ?_, ?_⟩
        · simpa using hpc
        · intro pr hpr
          obtain ⟨h1, h2⟩ := hall pr hpr
          refine ⟨h1, fun hc => ?_⟩
          rcases h2 with h2 | h2
          · rw [hc] at h2; cases h2
          · exact h2
      · rw [if_pos (by simp only [Bool.true_and, Bool.not_eq_true']; exact (Bool.not_eq_true _).mp hms)] at h
        cases h
    · rw [if_pos (by simp [hpc])] at h; cases h
  · rw [if_pos (by simpa using hlen)] at h; cases h

/-! ## `verify_presentation` -/

/-- `verify_presentation` returns `Ok(true)` exactly when every stage passes -/
theorem verifyW3C_ok_true_iff {ctx : Ctx} {r : Request} {p : Presentation} :
    verifyW3C ctx r p = .ok true ↔
      p.validateOk = true ∧ p.creds.all (·.proofOk) = true ∧ requestDataOk ctx r p = true ∧
      subjectsOk p = true ∧ p.presProofOk = true ∧ listsOk ctx = true ∧
      ∃ cs, p.creds.mapM (subCtxFor ctx) = some cs ∧
        IdealCL.verify cs (p.creds.map (·.sub)) p.agg r.nonce true = some true := by
  unfold verifyW3C
  constructor
  · intro h
    split at h; · cases h
    split at h; · cases h
    split at h; · cases h
    split at h; · cases h
    split at h; · cases h
    split at h; · cases h
    rename_i h1 h2 h3 h4 h5 h6
    simp only [Bool.not_eq_true, Bool.not_eq_false'] at h1 h2 h3 h4 h5 h6
    split at h
    · cases h
    · rename_i cs hcs
      split at h
      · cases h
      · rename_i b hb
        simp only [Outcome.ok.injEq] at h
        subst h
        exact ⟨h1, h2, h3, h4, h5, h6, cs, hcs, hb⟩
  · rintro ⟨h1, h2, h3, h4, h5, h6, cs, hcs, hb⟩
    simp [h1, h2, h3, h4, h5, h6, hcs, hb]

/-- the verifier model has no panicking branch -/
theorem verifyW3C_ne_panic (ctx : Ctx) (r : Request) (p : Presentation) (s : Nat) :
    verifyW3C ctx r p ≠ .panic s := by
  unfold verifyW3C
  intro h
  split at h; · cases h
  split at h; · cases h
  split at h; · cases h
  split at h; · cases h
  split at h; · cases h
  split at h; · cases h
  split at h
  · cases h
  · split at h <;> cases h

/-- what `add_sub_proof` succeeding for credential `c` says -/
theorem subCtxFor_some {ctx : Ctx} {c : Cred} {sctx : SubCtx} (h : subCtxFor ctx c = some sctx) :
    ∃ sc cd regKey acc, ctx.schemas.lookup c.schemaId = some sc ∧
      ctx.credDefs.lookup c.credDefId = some cd ∧
      revocationRegistry ctx { schemaId := c.schemaId, credDefId := c.credDefId,
                               revRegId := c.revRegId, timestamp := c.timestamp } = some (regKey, acc) ∧
      sctx = { schemaAttrs := sc.attrNames.map Names.commonView, key := cd.key,
               hasRevKey := cd.revocable, regKey := regKey, acc := acc } ∧
      addSubProofRequestOk sctx c.sub = true := by
  unfold subCtxFor at h
  split at h
  · rename_i sc cd hsc hcd
    split at h
    · cases h
    · rename_i regKey acc hrr
      simp only at h
      split at h
      · rename_i hok
        simp only [Option.some.injEq] at h
        subst h
        exact ⟨sc, cd, regKey, acc, hsc, hcd, hrr, rfl, hok⟩
      · cases h
  · cases h

/-- the list of sub-proof contexts handed to the CL verifier is, position by position, the
context `add_sub_proof` built for the credential at that position -/
theorem mapM_subCtxFor {ctx : Ctx} :
    ∀ {creds : List Cred} {cs : List SubCtx}, creds.mapM (subCtxFor ctx) = some cs →
      cs.length = creds.length ∧
      ∀ c ∈ creds, ∃ sctx, subCtxFor ctx c = some sctx ∧ (sctx, c.sub) ∈ cs.zip (creds.map (·.sub)) := by
  intro creds
  induction creds with
  | nil =>
    intro cs h
    simp at h
    subst h
    simp
  | cons c rest ih =>
    intro cs h
    rw [List.mapM_cons] at h
    cases hc : subCtxFor ctx c with
    | none => rw [hc] at h; simp at h
    | some sctx =>
      cases hr : rest.mapM (subCtxFor ctx) with
      | none => rw [hc, hr] at h; simp at h
      | some cs' =>
        rw [hc, hr] at h
        simp at h
        subst h
        obtain ⟨hl, hall⟩ := ih hr
        refine ⟨by simp [hl], ?_⟩
        intro d hd
        rcases List.mem_cons.mp hd with rfl | hd
        · exact ⟨sctx, hc, by simp⟩
        · obtain ⟨sd, hsd, hmem⟩ := hall d hd
          exact ⟨sd, hsd, by simp [hmem]⟩

/-- index form of `mapM_subCtxFor` -/
theorem mapM_subCtxFor_getElem {ctx : Ctx} :
    ∀ {creds : List Cred} {cs : List SubCtx}, creds.mapM (subCtxFor ctx) = some cs →
      ∀ (i : Nat) (c : Cred), creds[i]? = some c →
        ∃ sctx, cs[i]? = some sctx ∧ subCtxFor ctx c = some sctx := by
  intro creds
  induction creds with
  | nil => intro cs _ i c hi; simp at hi
  | cons c rest ih =>
    intro cs h i d hi
    rw [List.mapM_cons] at h
    cases hc : subCtxFor ctx c with
    | none => rw [hc] at h; simp at h
    | some sctx =>
      cases hr : rest.mapM (subCtxFor ctx) with
      | none => rw [hc, hr] at h; simp at h
      | some cs' =>
        rw [hc, hr] at h
        simp at h
        subst h
        cases i with
        | zero =>
          simp at hi
          subst hi
          exact ⟨sctx, by simp, hc⟩
        | succ j =>
          simp at hi
          obtain ⟨sd, h1, h2⟩ := ih hr j d hi
          exact ⟨sd, by simpa using h1, h2⟩

/-! ## what acceptance guarantees about every credential -/

/-- the guarantees an accepted presentation gives about one of its credentials: the verifier was
given a definition and a schema for its ids; the sub-proof is unaltered and was built from a
credential signed by the key of *that* definition, with exactly the (normalised) attributes of
*that* schema; what the sub-proof reveals are signed values, what it claims as predicates holds
of the signed values; issuer and verification method are those of the definition. -/
def CredSound (ctx : Ctx) (c : Cred) : Prop :=
  ∃ cd sc, ctx.credDefs.lookup c.credDefId = some cd ∧ ctx.schemas.lookup c.schemaId = some sc ∧
    c.sub.intact = true ∧ c.sub.cred.key = cd.key ∧
    (∀ a, a ∈ sc.attrNames.map Names.commonView ↔ a ∈ c.sub.cred.attrs.map Prod.fst) ∧
    (∀ kv ∈ c.sub.revealed, c.sub.cred.attrs.lookup kv.1 = some kv.2) ∧
    (∀ pr ∈ c.sub.preds, IdealCL.predHolds c.sub.cred.attrs pr = true) ∧
    cd.issuerId = c.issuer ∧ c.verificationMethod = c.credDefId

/-- per-credential facts of an accepted presentation: the context `add_sub_proof` built, and the
ideal verdicts for it -/
theorem ok_cred_facts {ctx : Ctx} {r : Request} {p : Presentation}
    (h : verifyW3C ctx r p = .ok true) {c : Cred} (hc : c ∈ p.creds) :
    ∃ sctx, subCtxFor ctx c = some sctx ∧ primaryOk sctx c.sub = true ∧
      (nrpChecked sctx c.sub = true → nrpOk sctx c.sub = true) ∧
      paramsConsistent c.sub = true := by
  obtain ⟨_, _, _, _, _, _, cs, hcs, hv⟩ := verifyW3C_ok_true_iff.mp h
  obtain ⟨_, hall⟩ := mapM_subCtxFor hcs
  obtain ⟨sctx, hs, hmem⟩ := hall c hc
  obtain ⟨_, _, _, _, _, hpc, hpr⟩ := verify_true hv
  obtain ⟨h1, h2⟩ := hpr _ hmem
  exact ⟨sctx, hs, h1, h2, hpc _ hmem⟩

theorem issuersOk_mem {ctx : Ctx} {p : Presentation} (h : issuersOk ctx p = true) {c : Cred}
    (hc : c ∈ p.creds) :
    ∃ cd, ctx.credDefs.lookup c.credDefId = some cd ∧ cd.issuerId = c.issuer ∧
      c.verificationMethod = c.credDefId := by
  unfold issuersOk at h
  rw [List.all_eq_true] at h
  have := h c hc
  split at this
  · cases this
  · rename_i cd hcd
    simp only [Bool.and_eq_true, beq_iff_eq] at this
    exact ⟨cd, hcd, this.1, this.2⟩

theorem requestDataOk_iff {ctx : Ctx} {r : Request} {p : Presentation} :
    requestDataOk ctx r p = true ↔
      (∀ kv ∈ r.attrs, ∀ n ∈ kv.2.allNames,
        requestedAttributeOk ctx r p n kv.2.restrictions kv.2.nonRevoked = true) ∧
      (∀ kv ∈ r.preds, requestedPredicateOk ctx r p kv.2 = true) ∧
      issuersOk ctx p = true := by
  unfold requestDataOk
  simp only [Bool.and_eq_true, List.all_eq_true, and_assoc]

/-- **every credential of an accepted presentation is sound** -/
theorem credSound_of_ok {ctx : Ctx} {r : Request} {p : Presentation}
    (h : verifyW3C ctx r p = .ok true) {c : Cred} (hc : c ∈ p.creds) : CredSound ctx c := by
  obtain ⟨sctx, hs, hp, _, _⟩ := ok_cred_facts h hc
  obtain ⟨sc, cd, regKey, acc, hsc, hcd, _, rfl, _⟩ := subCtxFor_some hs
  obtain ⟨_, _, hrd, _⟩ := verifyW3C_ok_true_iff.mp h
  obtain ⟨cd', hcd', hiss, hvm⟩ := issuersOk_mem (requestDataOk_iff.mp hrd).2.2 hc
  rw [hcd] at hcd'
  simp only [Option.some.injEq] at hcd'
  subst hcd'
  obtain ⟨h1, h2, h3, h4, h5⟩ := primaryOk_iff.mp hp
  exact ⟨cd, sc, hcd, hsc, h1, h2, h3, h4, h5, hiss, hvm⟩

theorem conditionsOk_iff {ctx : Ctx} {r : Request} {c : Cred} {restr : Option Query}
    {loc : Option Ivl} :
    conditionsOk ctx r c restr loc = true ↔
      (∀ q, restr = some q → ∃ f, gatherFilter ctx ⟨c.schemaId, c.credDefId, c.revRegId, none⟩ = some f ∧
          Query.eval Ident.isLegacyDid (subjectValues c) f q = true) ∧
      Interval.checkW3C loc r.nonRevoked c.revRegId ctx.override c.timestamp = true := by
  unfold conditionsOk
  rw [Bool.and_eq_true]
  apply and_congr_left'
  cases restr with
  | none => simp
  | some q =>
    simp only [Option.some.injEq, forall_eq']
    split
    · rename_i hg; simp [hg]
    · rename_i f hg; simp [hg]

/-- the second loop of `check_requested_attribute` found a credential -/
theorem heldBy_true {ctx : Ctx} {r : Request} {name : String} {restr : Option Query}
    {loc : Option Ivl} :
    ∀ {creds : List Cred}, heldBy ctx r name restr loc creds = some true →
      ∃ c ∈ creds, ∃ sc, ctx.schemas.lookup c.schemaId = some sc ∧
        Names.hasNorm sc.attrNames name = true ∧ conditionsOk ctx r c restr loc = true := by
  intro creds
  induction creds with
  | nil => intro h; simp [heldBy] at h
  | cons c rest ih =>
    intro h
    unfold heldBy at h
    split at h
    · cases h
    · rename_i sc hsc
      split at h
      · rename_i hcond
        simp only [Bool.and_eq_true] at hcond
        exact ⟨c, by simp, sc, hsc, hcond.1, hcond.2⟩
      · obtain ⟨d, hd, rest'⟩ := ih h
        exact ⟨d, List.mem_cons_of_mem _ hd, rest'⟩

/-- `check_credential_subjects`, one string/number entry -/
theorem subjectsOk_value {p : Presentation} (h : subjectsOk p = true) {c : Cred} (hc : c ∈ p.creds)
    {k : String} {v : SubjVal} (hkv : (k, v) ∈ c.subject) (hnb : ∀ b, v ≠ .bool b) :
    revealedValueOk k c.sub (Encode.encode v.toStr) = true := by
  unfold subjectsOk at h
  simp only [List.all_eq_true] at h
  have := h c hc (k, v) hkv
  cases v with
  | str s => exact this
  | num n => exact this
  | bool b => exact absurd rfl (hnb b)

/-- `check_credential_subjects`, one boolean marker -/
theorem subjectsOk_marker {p : Presentation} (h : subjectsOk p = true) {c : Cred} (hc : c ∈ p.creds)
    {k : String} {b : Bool} (hkv : (k, SubjVal.bool b) ∈ c.subject) :
    ∃ pr ∈ c.sub.preds, Names.commonView pr.attr = Names.commonView k := by
  unfold subjectsOk at h
  simp only [List.all_eq_true] at h
  have := h c hc (k, .bool b) hkv
  simpa using this

theorem lookup_some_mem_keys {α β : Type} [BEq α] [LawfulBEq α] {l : List (α × β)} {a : α} {b : β}
    (h : l.lookup a = some b) : a ∈ l.map Prod.fst := by
  induction l with
  | nil => simp at h
  | cons x rest ih =>
    obtain ⟨k, v⟩ := x
    rw [List.lookup_cons] at h
    by_cases hk : a == k
    · simp only [hk] at h
      have : a = k := by simpa using hk
      simp [this]
    · simp only [hk] at h
      simp [ih h]

theorem lookup_some_mem {α β : Type} [BEq α] [LawfulBEq α] {l : List (α × β)} {a : α} {b : β}
    (h : l.lookup a = some b) : (a, b) ∈ l := by
  induction l with
  | nil => simp at h
  | cons x rest ih =>
    obtain ⟨k, v⟩ := x
    rw [List.lookup_cons] at h
    by_cases hk : a == k
    · simp only [hk, Option.some.injEq] at h
      have : a = k := by simpa using hk
      simp [this, h]
    · simp only [hk] at h
      simp [ih h]

/-- a predicate that holds of signed values is about a signed attribute -/
theorem predHolds_mem_keys {attrs : List (String × String)} {pr : Pred}
    (h : predHolds attrs pr = true) : pr.attr ∈ attrs.map Prod.fst := by
  unfold predHolds at h
  split at h
  · cases h
  · rename_i enc he
    exact lookup_some_mem_keys he

/-- the names inside an accepted sub-proof are in normal form -/
theorem paramsConsistent_iff {s : SymSub} :
    paramsConsistent s = true ↔
      (∀ kv ∈ s.revealed, Names.commonView kv.1 = kv.1) ∧
      (∀ pr ∈ s.preds, Names.commonView pr.attr = pr.attr) := by
  simp [paramsConsistent]

/-- `check_requested_predicate` succeeded ⇔ some credential carries the marker, its sub-proof the
very predicate, and the conditions hold -/
theorem requestedPredicateOk_iff {ctx : Ctx} {r : Request} {p : Presentation} {q : PredInfo} :
    requestedPredicateOk ctx r p q = true ↔
      ∃ c ∈ p.creds, ∃ a, getPredicate c q.name = some a ∧
        (∃ pr ∈ c.sub.preds, Names.commonView pr.attr = Names.commonView a ∧ pr.ty = q.ty ∧
          pr.value = q.value) ∧
        conditionsOk ctx r c q.restrictions q.nonRevoked = true := by
  unfold requestedPredicateOk
  rw [List.any_eq_true]
  constructor
  · rintro ⟨c, hc, hb⟩
    refine ⟨c, hc, ?_⟩
    split at hb
    · cases hb
    · rename_i a ha
      simp only [Bool.and_eq_true, List.any_eq_true, beq_iff_eq] at hb
      obtain ⟨⟨pr, hpr, ⟨h1, h2⟩, h3⟩, hcond⟩ := hb
      exact ⟨a, ha, ⟨pr, hpr, h1, h2, h3⟩, hcond⟩
  · rintro ⟨c, hc, a, ha, ⟨pr, hpr, h1, h2, h3⟩, hcond⟩
    refine ⟨c, hc, ?_⟩
    rw [ha]
    simp only [Bool.and_eq_true, List.any_eq_true, beq_iff_eq]
    exact ⟨⟨pr, hpr, ⟨h1, h2⟩, h3⟩, hcond⟩

/-- first loop of `check_requested_attribute`, one credential -/
theorem revealedBy_iff {ctx : Ctx} {r : Request} {name : String} {restr : Option Query}
    {loc : Option Ivl} {c : Cred} :
    revealedBy ctx r name restr loc c = true ↔
      ∃ k v, getAttribute c name = some (k, v) ∧
        revealedValueOk k c.sub (Encode.encode v.toStr) = true ∧
        conditionsOk ctx r c restr loc = true := by
  unfold revealedBy
  split
  · rename_i hn; simp [hn]
  · rename_i a v ha
    simp only [ha, Option.some.injEq, Prod.mk.injEq, Bool.and_eq_true]
    constructor
    · rintro ⟨h1, h2⟩
      exact ⟨a, v, ⟨rfl, rfl⟩, h1, h2⟩
    · rintro ⟨k, w, ⟨rfl, rfl⟩, h1, h2⟩
      exact ⟨h1, h2⟩

/-- `check_requested_attribute` succeeded: by the first loop or by the second -/
theorem requestedAttributeOk_cases {ctx : Ctx} {r : Request} {p : Presentation} {name : String}
    {restr : Option Query} {loc : Option Ivl}
    (h : requestedAttributeOk ctx r p name restr loc = true) :
    (∃ c ∈ p.creds, revealedBy ctx r name restr loc c = true) ∨
      heldBy ctx r name restr loc p.creds = some true := by
  unfold requestedAttributeOk at h
  split at h
  · rename_i hany
    exact Or.inl (List.any_eq_true.mp hany)
  · exact Or.inr (by simpa using h)

/-! ## registries -/

theorem findList_some {ls : List StatusListInfo} {rid : String} {ts : Nat} {l : StatusListInfo}
    (h : findList ls rid ts = some l) : l ∈ ls ∧ l.regId = some rid ∧ l.ts = some ts := by
  unfold findList at h
  have hm := List.mem_of_find?_eq_some h
  have hp := List.find?_some h
  simp only [Bool.and_eq_true, beq_iff_eq] at hp
  exact ⟨List.mem_reverse.mp hm, hp.1, hp.2⟩

/-- `get_revocation_registry` with both registry id and timestamp present -/
theorem revocationRegistry_some_some {ctx : Ctx} {sid cdid rid : String} {ts : Nat}
    {regKey acc : Option Nat}
    (h : revocationRegistry ctx ⟨sid, cdid, some rid, some ts⟩ = some (regKey, acc)) :
    ∃ defs ls d l, ctx.revRegDefs = some defs ∧ ctx.lists = some ls ∧ defs.lookup rid = some d ∧
      findList ls rid ts = some l ∧ regKey = some d.regKey ∧ acc = l.acc := by
  unfold revocationRegistry at h
  simp only at h
  split at h
  · rename_i defs ls hd hl
    split at h
    · rename_i d l hdl hfl
      simp only [Option.some.injEq, Prod.mk.injEq] at h
      exact ⟨defs, ls, d, l, hd, hl, hdl, hfl, h.1.symm, h.2.symm⟩
    · cases h
  · cases h

theorem listsOk_mem {ctx : Ctx} (h : listsOk ctx = true) {ls : List StatusListInfo}
    (hls : ctx.lists = some ls) {l : StatusListInfo} (hl : l ∈ ls) : l.acc.isSome = true := by
  unfold listsOk at h
  rw [hls] at h
  simp only [List.all_eq_true, Bool.and_eq_true] at h
  exact (h l hl).2

/-! ## a small accepted presentation (non-vacuity witness) -/

namespace Demo

def sub : SymSub :=
  { revealed := [("n", "25")], preds := [⟨"a", "GE", 18⟩],
    cred := { key := 1, attrs := [("n", "25"), ("a", "30")], holder := 7, rev := none },
    nrp := none, ms := (7, 1), intact := true, uid := 5 }

def cred : Cred :=
  { issuer := "I", subject := [("N", .str "25"), ("a", .bool true)], proofOk := true,
    verificationMethod := "cd", schemaId := "s", credDefId := "cd", revRegId := none,
    timestamp := none, sub := sub }

def ctx : Ctx :=
  { schemas := [("s", { name := "nm", version := "1", issuerId := "I", attrNames := ["N", "A"] })],
    credDefs := [("cd", { issuerId := "I", key := 1, revocable := false })],
    revRegDefs := none, lists := none, override := none }

def req : Request :=
  { nonce := "1",
    attrs := [("r1", { name := some "n", names := none,
                       restrictions := some (.eq "cred_def_id" "cd"), nonRevoked := none })],
    preds := [("p1", { name := "a", ty := "GE", value := 18,
                       restrictions := some (.eq "issuer_id" "I"), nonRevoked := none })],
    nonRevoked := none }

def pres : Presentation :=
  { validateOk := true, creds := [cred], presProofOk := true,
    agg := { nonce := "1", bound := [(5, false)], intact := true } }

end Demo

/- F3 witness: request-wide interval, revocable definition, the presentation names registry `rr`
and the timestamp of a supplied list inside the interval, but the sub-proof has **no**
non-revocation part (the credential — index 4 of the registry with key 9 — may be revoked in that
list) -/
namespace DemoNoNrp

def sub : SymSub :=
  { revealed := [("n", "25")], preds := [⟨"a", "GE", 18⟩],
    cred := { key := 1, attrs := [("n", "25"), ("a", "30")], holder := 7, rev := some (9, 4) },
    nrp := none, ms := (7, 1), intact := true, uid := 5 }

def cred : Cred :=
  { issuer := "I", subject := [("N", .str "25"), ("a", .bool true)], proofOk := true,
    verificationMethod := "cd", schemaId := "s", credDefId := "cd", revRegId := some "rr",
    timestamp := some 10, sub := sub }

def ctx : Ctx :=
  { schemas := [("s", { name := "nm", version := "1", issuerId := "I", attrNames := ["N", "A"] })],
    credDefs := [("cd", { issuerId := "I", key := 1, revocable := true })],
    revRegDefs := some [("rr", { regKey := 9 })],
    lists := some [{ regId := some "rr", ts := some 10, acc := some 3 }], override := none }

def req : Request :=
  { nonce := "1",
    attrs := [("r1", { name := some "n", names := none, restrictions := none, nonRevoked := none })],
    preds := [("p1", { name := "a", ty := "GE", value := 18, restrictions := none,
                       nonRevoked := none })],
    nonRevoked := some ⟨some 5, some 20⟩ }

def pres : Presentation :=
  { validateOk := true, creds := [cred], presProofOk := true,
    agg := { nonce := "1", bound := [(5, false)], intact := true } }

end DemoNoNrp

/- F4 witness: as `DemoNoNrp`, but the presentation names neither registry nor timestamp -/
namespace DemoStripRegId

def cred : Cred := { DemoNoNrp.cred with revRegId := none, timestamp := none }

def pres : Presentation := { DemoNoNrp.pres with creds := [cred] }

end DemoStripRegId

/- honest revocable presentation: non-revocation part for the accumulator of the named list -/
namespace DemoNrp

def sub : SymSub :=
  { DemoNoNrp.sub with nrp := some { regKey := 9, idx := 4, acc := 3, witOk := true } }

def cred : Cred := { DemoNoNrp.cred with sub := sub }

def pres : Presentation :=
  { DemoNoNrp.pres with creds := [cred], agg := { nonce := "1", bound := [(5, true)], intact := true } }

end DemoNrp

end AnonModel.VerifierW3C

import AnonModel.Model.Store
/-! Helper lemmas for C18: association-list algebra, the shapes of a step, and the invariants
of the handle-store machine. -/
namespace AnonModel.Store

/-! ### association-list algebra -/

def keys (m : Map) : List Nat := m.map (·.1)

theorem mapGet_remove (m : Map) (h x : Nat) :
    mapGet (mapRemove m h) x = if x = h then none else mapGet m x := by
  induction m with
  | nil => simp [mapGet, mapRemove]
  | cons e m ih =>
    obtain ⟨k, v⟩ := e
    simp only [mapGet, mapRemove] at ih ⊢
    by_cases hk : k = h
    · subst hk
      by_cases hx : x = k
      · subst hx; simpa [List.filter_cons] using ih
      · have : (x == k) = false := by simpa using hx
        simpa [List.filter_cons, List.lookup_cons, this, hx] using ih
    · have hkh : (k == h) = false := by simpa using hk
      by_cases hx : x = h
      · subst hx
        have : (x == k) = false := by simpa using fun e => hk e.symm
        simpa [List.filter_cons, hkh, List.lookup_cons, this] using ih
      · by_cases hxk : x = k
        · subst hxk; simp [hkh, hx]
        · have : (x == k) = false := by simpa using hxk
          simpa [List.filter_cons, hkh, List.lookup_cons, this, hx] using ih

theorem mapGet_insert (m : Map) (h x : Nat) (o : Obj) :
    mapGet (mapInsert m h o) x = if x = h then some o else mapGet m x := by
  by_cases hx : x = h
  · subst hx; simp [mapInsert, mapGet]
  · have : (x == h) = false := by simpa using hx
    have h' := mapGet_remove m h x
    simp only [mapGet] at h'
    simp [mapInsert, mapGet, List.lookup_cons, this, hx, h']

theorem mem_keys_remove (m : Map) (h x : Nat) : x ∈ keys (mapRemove m h) ↔ x ∈ keys m ∧ x ≠ h := by
  simp only [keys, mapRemove, List.mem_map, List.mem_filter]
  constructor
  · rintro ⟨e, ⟨he, hne⟩, rfl⟩; exact ⟨⟨e, he, rfl⟩, by simpa using hne⟩
  · rintro ⟨⟨e, he, rfl⟩, hne⟩; exact ⟨e, ⟨he, by simpa using hne⟩, rfl⟩

theorem keys_remove_nodup (m : Map) (h : Nat) (hn : (keys m).Nodup) : (keys (mapRemove m h)).Nodup := by
  unfold keys mapRemove
  exact hn.sublist (List.Sublist.map _ List.filter_sublist)

theorem keys_insert (m : Map) (h : Nat) (o : Obj) : keys (mapInsert m h o) = h :: keys (mapRemove m h) := rfl

theorem keys_insert_nodup (m : Map) (h : Nat) (o : Obj) (hn : (keys m).Nodup) :
    (keys (mapInsert m h o)).Nodup := by
  rw [keys_insert, List.nodup_cons]
  exact ⟨fun hm => ((mem_keys_remove m h h).mp hm).2 rfl, keys_remove_nodup m h hn⟩

theorem mapGet_none_iff (m : Map) (h : Nat) : mapGet m h = none ↔ h ∉ keys m := by
  induction m with
  | nil => simp [mapGet, keys]
  | cons e m ih =>
    obtain ⟨k, v⟩ := e
    simp only [mapGet, keys] at ih ⊢
    by_cases hk : h = k
    · subst hk; simp
    · have : (h == k) = false := by simpa using hk
      simp [List.lookup_cons, this, hk, ih]

theorem mem_keys_of_mapGet {m : Map} {h : Nat} {o : Obj} (hg : mapGet m h = some o) : h ∈ keys m := by
  by_cases hn : h ∈ keys m
  · exact hn
  · rw [(mapGet_none_iff m h).mpr hn] at hg; cases hg

theorem get_set {α : Type} {l : List α} {t : Nat} {a b : α} (h : l[t]? = some a) (j : Nat) :
    (l.set t b)[j]? = if j = t then some b else l[j]? := by
  have hlt : t < l.length := by
    by_cases hn : t < l.length
    · exact hn
    · rw [List.getElem?_eq_none (by omega)] at h; cases h
  rw [List.getElem?_set]
  by_cases hj : j = t
  · subst hj; simp [hlt]
  · have : ¬ t = j := fun e => hj e.symm
    simp [hj, this]

/-! ### the seven shapes of a step -/

inductive StepRel (t : Nat) (c : Config) : Config → Prop
  | skip : c.threads[t]? = none → StepRel t c { c with now := c.now + 1 }
  | fin (th : Thread) : c.threads[t]? = some th → th.pend = .idle → th.prog = [] →
      StepRel t c ⟨c.counter, c.map, c.threads.set t th, c.now + 1, c.linLog, c.hist⟩
  | alloc (th : Thread) (o : Obj) (rest : List Op) : c.threads[t]? = some th → th.pend = .idle →
      th.prog = .create o :: rest →
      StepRel t c ⟨c.counter + 1, c.map, c.threads.set t ⟨rest, .creating o (c.counter + 1) c.now⟩,
        c.now + 1, c.linLog, c.hist⟩
  | insert (th : Thread) (o : Obj) (h i : Nat) : c.threads[t]? = some th → th.pend = .creating o h i →
      StepRel t c ⟨c.counter, mapInsert c.map h o, c.threads.set t ⟨th.prog, .idle⟩, c.now + 1,
        ⟨t, .create o, c.now, .handle h⟩ :: c.linLog, ⟨t, .create o, i, c.now, c.now, .handle h⟩ :: c.hist⟩
  | snap (th : Thread) (k : GetKind) (h : Nat) (rest : List Op) : c.threads[t]? = some th →
      th.pend = .idle → th.prog = .get k h :: rest →
      StepRel t c ⟨c.counter, c.map, c.threads.set t ⟨rest, .snap k h (mapGet c.map h) c.now⟩, c.now + 1,
        ⟨t, .get k h, c.now, useSnap k (mapGet c.map h)⟩ :: c.linLog, c.hist⟩
  | use (th : Thread) (k : GetKind) (h : Nat) (s : Option Obj) (i : Nat) : c.threads[t]? = some th →
      th.pend = .snap k h s i →
      StepRel t c ⟨c.counter, c.map, c.threads.set t ⟨th.prog, .idle⟩, c.now + 1, c.linLog,
        ⟨t, .get k h, i, i, c.now, useSnap k s⟩ :: c.hist⟩
  | free (th : Thread) (h : Nat) (rest : List Op) : c.threads[t]? = some th → th.pend = .idle →
      th.prog = .free h :: rest →
      StepRel t c ⟨c.counter, mapRemove c.map h, c.threads.set t ⟨rest, .idle⟩, c.now + 1,
        ⟨t, .free h, c.now, .unit⟩ :: c.linLog, ⟨t, .free h, c.now, c.now, c.now, .unit⟩ :: c.hist⟩

theorem stepRel (t : Nat) (c : Config) : StepRel t c (step t c) := by
  unfold step
  split
  next hn => exact .skip hn
  next th hth =>
    simp only [micro]
    split
    next o h i hp => exact .insert th o h i hth hp
    next k h s i hp => exact .use th k h s i hth hp
    next hp =>
      split
      next hprog => exact .fin th hth hp hprog
      next o rest hprog => exact .alloc th o rest hth hp hprog
      next k h rest hprog => exact .snap th k h rest hth hp hprog
      next h rest hprog => exact .free th h rest hth hp hprog

/-- a property preserved by every step holds along every run -/
theorem run_induction {P : Config → Prop} (hstep : ∀ t c c', StepRel t c c' → P c → P c')
    (s : Sched) (c : Config) (h : P c) : P (run s c) := by
  induction s generalizing c with
  | nil => exact h
  | cons t ts ih => exact ih _ (hstep t c _ (stepRel t c) h)


/-- handles returned by the completed `create` operations of a history -/
def createdHandles (hist : List Rec) : List Nat :=
  hist.filterMap (fun r => match r.result with | .handle h => some h | _ => none)

theorem useSnap_ne_handle (k : GetKind) (s : Option Obj) (h : Nat) : useSnap k s ≠ .handle h := by
  cases k <;> cases s <;> simp [useSnap]
  split <;> simp

theorem createdHandles_cons_of_ne (r : Rec) (hist : List Rec) (h : ∀ x, r.result ≠ .handle x) :
    createdHandles (r :: hist) = createdHandles hist := by
  unfold createdHandles
  rw [List.filterMap_cons]
  split
  · rfl
  · rename_i b hb
    split at hb
    · rename_i x hx; exact absurd hx (h x)
    · cases hb

/-- the basic invariant of the store (`C18_inv`) -/
structure Inv (c : Config) : Prop where
  /-- every key of the map was returned by a completed create -/
  keys_created : ∀ h ∈ keys c.map, h ∈ createdHandles c.hist
  keys_nodup : (keys c.map).Nodup
  /-- returned handles are bounded by the counter and non-zero -/
  ch_le : ∀ h ∈ createdHandles c.hist, h ≤ c.counter ∧ h ≠ 0
  ch_nodup : (createdHandles c.hist).Nodup
  /-- in-flight handles (allocated, not yet inserted) are bounded, non-zero, and were never returned -/
  fl : ∀ (t : Nat) (th : Thread) (o : Obj) (h i : Nat), c.threads[t]? = some th → th.pend = .creating o h i →
    h ≤ c.counter ∧ h ≠ 0 ∧ h ∉ createdHandles c.hist
  /-- in-flight handles of different threads are different -/
  fl_distinct : ∀ (t1 t2 : Nat) (th1 th2 : Thread) (o1 o2 : Obj) (h i1 i2 : Nat), c.threads[t1]? = some th1 → c.threads[t2]? = some th2 →
    th1.pend = .creating o1 h i1 → th2.pend = .creating o2 h i2 → t1 = t2

theorem inv_init (progs : List (List Op)) : Inv (initCfg progs) := by
  refine ⟨by simp [initCfg, keys], by simp [initCfg, keys], by simp [initCfg, createdHandles],
    by simp [initCfg, createdHandles], ?_, ?_⟩
  · intro t th o h i hth hp
    simp only [initCfg, List.getElem?_map] at hth
    cases hq : progs[t]? <;> simp [hq] at hth
    subst hth; simp at hp
  · intro t1 t2 th1 th2 o1 o2 h i1 i2 hth _ hp
    simp only [initCfg, List.getElem?_map] at hth
    cases hq : progs[t1]? <;> simp [hq] at hth
    subst hth; simp at hp

theorem inv_step {t : Nat} {c c' : Config} (hs : StepRel t c c') (i : Inv c) : Inv c' := by
  cases hs with
  | skip hn => exact ⟨i.keys_created, i.keys_nodup, i.ch_le, i.ch_nodup, i.fl, i.fl_distinct⟩
  | fin th hth hp hprog =>
    refine ⟨i.keys_created, i.keys_nodup, i.ch_le, i.ch_nodup, ?_, ?_⟩
    · intro t' th' o h j hth' hp'
      simp only [get_set hth] at hth'
      split at hth'
      · simp at hth'; subst hth'; simp [hp] at hp'
      · exact i.fl t' th' o h j hth' hp'
    · intro t1 t2 th1 th2 o1 o2 h i1 i2 h1 h2 p1 p2
      simp only [get_set hth] at h1 h2
      split at h1
      · simp at h1; subst h1; simp [hp] at p1
      · split at h2
        · simp at h2; subst h2; simp [hp] at p2
        · exact i.fl_distinct t1 t2 th1 th2 o1 o2 h i1 i2 h1 h2 p1 p2
  | alloc th o rest hth hp hprog =>
    refine ⟨i.keys_created, i.keys_nodup, ?_, i.ch_nodup, ?_, ?_⟩
    · intro h hh; have := i.ch_le h hh; exact ⟨by simp only; omega, this.2⟩
    · intro t' th' o' h j hth' hp'
      simp only [get_set hth] at hth'
      split at hth'
      · simp at hth'; subst hth'; simp at hp'
        obtain ⟨_, rfl, _⟩ := hp'
        refine ⟨Nat.le_refl _, by omega, fun hm => ?_⟩
        have := (i.ch_le _ hm).1; omega
      · have := i.fl t' th' o' h j hth' hp'
        exact ⟨by simp only; omega, this.2⟩
    · intro t1 t2 th1 th2 o1 o2 h i1 i2 h1 h2 p1 p2
      simp only [get_set hth] at h1 h2
      split at h1
      · split at h2
        · omega
        · simp at h1; subst h1; simp at p1
          obtain ⟨_, rfl, _⟩ := p1
          have := (i.fl t2 th2 o2 _ i2 h2 p2).1; omega
      · split at h2
        · simp at h2; subst h2; simp at p2
          obtain ⟨_, rfl, _⟩ := p2
          have := (i.fl t1 th1 o1 _ i1 h1 p1).1; omega
        · exact i.fl_distinct t1 t2 th1 th2 o1 o2 h i1 i2 h1 h2 p1 p2
  | insert th o h j hth hp =>
    have hfl := i.fl t th o h j hth hp
    have hch : createdHandles (⟨t, .create o, j, c.now, c.now, .handle h⟩ :: c.hist) = h :: createdHandles c.hist := by
      simp [createdHandles]
    refine ⟨?_, keys_insert_nodup _ _ _ i.keys_nodup, ?_, ?_, ?_, ?_⟩
    · intro x hx
      rw [hch]
      rw [keys_insert] at hx
      rcases List.mem_cons.mp hx with rfl | hx
      · simp
      · exact List.mem_cons_of_mem _ (i.keys_created x ((mem_keys_remove _ _ _).mp hx).1)
    · intro x hx
      rw [hch] at hx
      rcases List.mem_cons.mp hx with rfl | hx
      · exact ⟨hfl.1, hfl.2.1⟩
      · exact i.ch_le x hx
    · rw [hch]; exact List.nodup_cons.mpr ⟨hfl.2.2, i.ch_nodup⟩
    · intro t' th' o' h' j' hth' hp'
      simp only [get_set hth] at hth'
      split at hth'
      · simp at hth'; subst hth'; simp at hp'
      · rename_i hne
        have := i.fl t' th' o' h' j' hth' hp'
        refine ⟨this.1, this.2.1, ?_⟩
        rw [hch]
        intro hm
        rcases List.mem_cons.mp hm with rfl | hm
        · exact hne (i.fl_distinct t' t th' th o' o h' j' j hth' hth hp' hp)
        · exact this.2.2 hm
    · intro t1 t2 th1 th2 o1 o2 h' i1 i2 h1 h2 p1 p2
      simp only [get_set hth] at h1 h2
      split at h1
      · simp at h1; subst h1; simp at p1
      · split at h2
        · simp at h2; subst h2; simp at p2
        · exact i.fl_distinct t1 t2 th1 th2 o1 o2 h' i1 i2 h1 h2 p1 p2
  | snap th k h rest hth hp hprog =>
    refine ⟨i.keys_created, i.keys_nodup, i.ch_le, i.ch_nodup, ?_, ?_⟩
    · intro t' th' o h j hth' hp'
      simp only [get_set hth] at hth'
      split at hth'
      · simp at hth'; subst hth'; simp at hp'
      · exact i.fl t' th' o h j hth' hp'
    · intro t1 t2 th1 th2 o1 o2 h i1 i2 h1 h2 p1 p2
      simp only [get_set hth] at h1 h2
      split at h1
      · simp at h1; subst h1; simp at p1
      · split at h2
        · simp at h2; subst h2; simp at p2
        · exact i.fl_distinct t1 t2 th1 th2 o1 o2 h i1 i2 h1 h2 p1 p2
  | use th k h s j hth hp =>
    have hch : createdHandles (⟨t, .get k h, j, j, c.now, useSnap k s⟩ :: c.hist) = createdHandles c.hist := by
      exact createdHandles_cons_of_ne _ _ (fun x => useSnap_ne_handle k s x)
    refine ⟨by rw [hch]; exact i.keys_created, i.keys_nodup, by rw [hch]; exact i.ch_le, by rw [hch]; exact i.ch_nodup, ?_, ?_⟩
    · intro t' th' o h j hth' hp'
      rw [hch]
      simp only [get_set hth] at hth'
      split at hth'
      · simp at hth'; subst hth'; simp at hp'
      · exact i.fl t' th' o h j hth' hp'
    · intro t1 t2 th1 th2 o1 o2 h i1 i2 h1 h2 p1 p2
      simp only [get_set hth] at h1 h2
      split at h1
      · simp at h1; subst h1; simp at p1
      · split at h2
        · simp at h2; subst h2; simp at p2
        · exact i.fl_distinct t1 t2 th1 th2 o1 o2 h i1 i2 h1 h2 p1 p2
  | free th h rest hth hp hprog =>
    have hch : createdHandles (⟨t, .free h, c.now, c.now, c.now, .unit⟩ :: c.hist) = createdHandles c.hist := by
      simp [createdHandles]
    refine ⟨?_, keys_remove_nodup _ _ i.keys_nodup, by rw [hch]; exact i.ch_le, by rw [hch]; exact i.ch_nodup, ?_, ?_⟩
    · intro x hx; rw [hch]; exact i.keys_created x ((mem_keys_remove _ _ _).mp hx).1
    · intro t' th' o h j hth' hp'
      rw [hch]
      simp only [get_set hth] at hth'
      split at hth'
      · simp at hth'; subst hth'; simp at hp'
      · exact i.fl t' th' o h j hth' hp'
    · intro t1 t2 th1 th2 o1 o2 h i1 i2 h1 h2 p1 p2
      simp only [get_set hth] at h1 h2
      split at h1
      · simp at h1; subst h1; simp at p1
      · split at h2
        · simp at h2; subst h2; simp at p2
        · exact i.fl_distinct t1 t2 th1 th2 o1 o2 h i1 i2 h1 h2 p1 p2


/-- timing and bookkeeping invariant: how `linLog`, `hist` and the pending states relate -/
structure Timing (c : Config) : Prop where
  lin_lt : ∀ l ∈ c.linLog, l.lin < c.now
  hist_times : ∀ r ∈ c.hist, r.inv ≤ r.lin ∧ r.lin ≤ r.res ∧ r.res < c.now
  hist_in_log : ∀ r ∈ c.hist, r.toLin ∈ c.linLog
  pend_snap : ∀ (t : Nat) (th : Thread) (k : GetKind) (h : Nat) (s : Option Obj) (i : Nat),
    c.threads[t]? = some th → th.pend = .snap k h s i → (⟨t, .get k h, i, useSnap k s⟩ : Lin) ∈ c.linLog
  pend_creating : ∀ (t : Nat) (th : Thread) (o : Obj) (h i : Nat),
    c.threads[t]? = some th → th.pend = .creating o h i → i < c.now
  sorted : c.linLog.Pairwise (fun a b => b.lin < a.lin)
  log_created : ∀ l ∈ c.linLog, ∀ o, l.op = .create o → ∃ h, l.result = .handle h ∧ h ∈ createdHandles c.hist
  log_handle : ∀ l ∈ c.linLog, ∀ h, l.result = .handle h → ∃ o, l.op = .create o

theorem timing_init (progs : List (List Op)) : Timing (initCfg progs) := by
  refine ⟨by simp [initCfg], by simp [initCfg], by simp [initCfg], ?_, ?_, by simp [initCfg], by simp [initCfg], by simp [initCfg]⟩
  · intro t th k h s i hth hp
    simp only [initCfg, List.getElem?_map] at hth
    cases hq : progs[t]? <;> simp [hq] at hth
    subst hth; simp at hp
  · intro t th o h i hth hp
    simp only [initCfg, List.getElem?_map] at hth
    cases hq : progs[t]? <;> simp [hq] at hth
    subst hth; simp at hp

theorem timing_step {t : Nat} {c c' : Config} (hs : StepRel t c c') (i : Timing c) : Timing c' := by
  have hlt : ∀ l ∈ c.linLog, l.lin < c.now + 1 := fun l hl => Nat.lt_succ_of_lt (i.lin_lt l hl)
  have hht : ∀ r ∈ c.hist, r.inv ≤ r.lin ∧ r.lin ≤ r.res ∧ r.res < c.now + 1 := fun r hr => by
    have := i.hist_times r hr; omega
  cases hs with
  | skip hn => exact ⟨hlt, hht, i.hist_in_log, i.pend_snap, fun t th o h j a b => Nat.lt_succ_of_lt (i.pend_creating t th o h j a b),
      i.sorted, i.log_created, i.log_handle⟩
  | fin th hth hp hprog =>
    refine ⟨hlt, hht, i.hist_in_log, ?_, ?_, i.sorted, i.log_created, i.log_handle⟩
    · intro t' th' k h s j hth' hp'
      simp only [get_set hth] at hth'
      split at hth'
      · simp at hth'; subst hth'; simp [hp] at hp'
      · exact i.pend_snap t' th' k h s j hth' hp'
    · intro t' th' o h j hth' hp'
      simp only [get_set hth] at hth'
      split at hth'
      · simp at hth'; subst hth'; simp [hp] at hp'
      · exact Nat.lt_succ_of_lt (i.pend_creating t' th' o h j hth' hp')
  | alloc th o rest hth hp hprog =>
    refine ⟨hlt, hht, i.hist_in_log, ?_, ?_, i.sorted, i.log_created, i.log_handle⟩
    · intro t' th' k h s j hth' hp'
      simp only [get_set hth] at hth'
      split at hth'
      · simp at hth'; subst hth'; simp at hp'
      · exact i.pend_snap t' th' k h s j hth' hp'
    · intro t' th' o h j hth' hp'
      simp only [get_set hth] at hth'
      split at hth'
      · simp at hth'; subst hth'; simp at hp'; simp only; omega
      · exact Nat.lt_succ_of_lt (i.pend_creating t' th' o h j hth' hp')
  | insert th o h j hth hp =>
    have hj := i.pend_creating t th o h j hth hp
    refine ⟨?_, ?_, ?_, ?_, ?_, ?_, ?_, ?_⟩
    · intro l hl; rcases List.mem_cons.mp hl with rfl | hl
      · simp
      · exact hlt l hl
    · intro r hr; rcases List.mem_cons.mp hr with rfl | hr
      · simp only; omega
      · exact hht r hr
    · intro r hr; rcases List.mem_cons.mp hr with rfl | hr
      · simp [Rec.toLin]
      · exact List.mem_cons_of_mem _ (i.hist_in_log r hr)
    · intro t' th' k h' s j' hth' hp'
      simp only [get_set hth] at hth'
      split at hth'
      · simp at hth'; subst hth'; simp at hp'
      · exact List.mem_cons_of_mem _ (i.pend_snap t' th' k h' s j' hth' hp')
    · intro t' th' o' h' j' hth' hp'
      simp only [get_set hth] at hth'
      split at hth'
      · simp at hth'; subst hth'; simp at hp'
      · exact Nat.lt_succ_of_lt (i.pend_creating t' th' o' h' j' hth' hp')
    · exact List.pairwise_cons.mpr ⟨fun l hl => i.lin_lt l hl, i.sorted⟩
    · intro l hl o' ho
      have hch : createdHandles (⟨t, .create o, j, c.now, c.now, .handle h⟩ :: c.hist) = h :: createdHandles c.hist := by
        simp [createdHandles]
      rw [hch]
      rcases List.mem_cons.mp hl with rfl | hl
      · exact ⟨h, rfl, by simp⟩
      · obtain ⟨x, hx1, hx2⟩ := i.log_created l hl o' ho
        exact ⟨x, hx1, List.mem_cons_of_mem _ hx2⟩
    · intro l hl x hx
      rcases List.mem_cons.mp hl with rfl | hl
      · exact ⟨o, rfl⟩
      · exact i.log_handle l hl x hx
  | snap th k h rest hth hp hprog =>
    refine ⟨?_, hht, fun r hr => List.mem_cons_of_mem _ (i.hist_in_log r hr), ?_, ?_, ?_, ?_, ?_⟩
    · intro l hl; rcases List.mem_cons.mp hl with rfl | hl
      · simp
      · exact hlt l hl
    · intro t' th' k' h' s j' hth' hp'
      simp only [get_set hth] at hth'
      split at hth'
      · simp at hth'; subst hth'; simp at hp'
        obtain ⟨rfl, rfl, rfl, rfl⟩ := hp'
        rename_i e; subst e; simp
      · exact List.mem_cons_of_mem _ (i.pend_snap t' th' k' h' s j' hth' hp')
    · intro t' th' o' h' j' hth' hp'
      simp only [get_set hth] at hth'
      split at hth'
      · simp at hth'; subst hth'; simp at hp'
      · exact Nat.lt_succ_of_lt (i.pend_creating t' th' o' h' j' hth' hp')
    · exact List.pairwise_cons.mpr ⟨fun l hl => i.lin_lt l hl, i.sorted⟩
    · intro l hl o' ho
      rcases List.mem_cons.mp hl with rfl | hl
      · simp at ho
      · exact i.log_created l hl o' ho
    · intro l hl x hx
      rcases List.mem_cons.mp hl with rfl | hl
      · exact absurd hx (useSnap_ne_handle _ _ _)
      · exact i.log_handle l hl x hx
  | use th k h s j hth hp =>
    have hin := i.pend_snap t th k h s j hth hp
    have hj := i.lin_lt _ hin
    have hch : createdHandles (⟨t, .get k h, j, j, c.now, useSnap k s⟩ :: c.hist) = createdHandles c.hist :=
      createdHandles_cons_of_ne _ _ (fun x => useSnap_ne_handle k s x)
    refine ⟨hlt, ?_, ?_, ?_, ?_, i.sorted, by rw [hch]; exact i.log_created, i.log_handle⟩
    · intro r hr; rcases List.mem_cons.mp hr with rfl | hr
      · simp only at hj ⊢; omega
      · exact hht r hr
    · intro r hr; rcases List.mem_cons.mp hr with rfl | hr
      · exact hin
      · exact i.hist_in_log r hr
    · intro t' th' k' h' s' j' hth' hp'
      simp only [get_set hth] at hth'
      split at hth'
      · simp at hth'; subst hth'; simp at hp'
      · exact i.pend_snap t' th' k' h' s' j' hth' hp'
    · intro t' th' o' h' j' hth' hp'
      simp only [get_set hth] at hth'
      split at hth'
      · simp at hth'; subst hth'; simp at hp'
      · exact Nat.lt_succ_of_lt (i.pend_creating t' th' o' h' j' hth' hp')
  | free th h rest hth hp hprog =>
    have hch : createdHandles (⟨t, .free h, c.now, c.now, c.now, .unit⟩ :: c.hist) = createdHandles c.hist := by
      simp [createdHandles]
    refine ⟨?_, ?_, ?_, ?_, ?_, ?_, ?_, ?_⟩
    · intro l hl; rcases List.mem_cons.mp hl with rfl | hl
      · simp
      · exact hlt l hl
    · intro r hr; rcases List.mem_cons.mp hr with rfl | hr
      · simp
      · exact hht r hr
    · intro r hr; rcases List.mem_cons.mp hr with rfl | hr
      · simp [Rec.toLin]
      · exact List.mem_cons_of_mem _ (i.hist_in_log r hr)
    · intro t' th' k h' s j' hth' hp'
      simp only [get_set hth] at hth'
      split at hth'
      · simp at hth'; subst hth'; simp at hp'
      · exact List.mem_cons_of_mem _ (i.pend_snap t' th' k h' s j' hth' hp')
    · intro t' th' o' h' j' hth' hp'
      simp only [get_set hth] at hth'
      split at hth'
      · simp at hth'; subst hth'; simp at hp'
      · exact Nat.lt_succ_of_lt (i.pend_creating t' th' o' h' j' hth' hp')
    · exact List.pairwise_cons.mpr ⟨fun l hl => i.lin_lt l hl, i.sorted⟩
    · intro l hl o' ho
      rw [hch]
      rcases List.mem_cons.mp hl with rfl | hl
      · simp at ho
      · exact i.log_created l hl o' ho
    · intro l hl x hx
      rcases List.mem_cons.mp hl with rfl | hl
      · simp at hx
      · exact i.log_handle l hl x hx


/-- the linearization log replays on the sequential spec and ends in the concrete map -/
structure SpecInv (c : Config) : Prop where
  replay : ∃ s, specOf c.linLog = some s ∧ (∀ x, s.map x = mapGet c.map x) ∧
    (∀ x ∈ s.issued, x ∈ createdHandles c.hist)

theorem specInv_init (progs : List (List Op)) : SpecInv (initCfg progs) :=
  ⟨⟨Spec.empty, rfl, by simp [Spec.empty, initCfg, mapGet], by simp [Spec.empty]⟩⟩

theorem specInv_step {t : Nat} {c c' : Config} (hs : StepRel t c c') (i1 : Inv c) (i : SpecInv c) :
    SpecInv c' := by
  obtain ⟨s, hs1, hs2, hs3⟩ := i.replay
  cases hs with
  | skip hn => exact ⟨⟨s, hs1, hs2, hs3⟩⟩
  | fin th hth hp hprog => exact ⟨⟨s, hs1, hs2, hs3⟩⟩
  | alloc th o rest hth hp hprog => exact ⟨⟨s, hs1, hs2, hs3⟩⟩
  | insert th o h j hth hp =>
    have hfl := i1.fl t th o h j hth hp
    have hni : h ∉ s.issued := fun hm => hfl.2.2 (hs3 h hm)
    refine ⟨⟨⟨fun x => if x = h then some o else s.map x, h :: s.issued⟩, ?_, ?_, ?_⟩⟩
    · simp [specOf, hs1, specStep, hfl.2.1, hni]
    · intro x; simp only [mapGet_insert, hs2]
    · intro x hx
      have hch : createdHandles (⟨t, .create o, j, c.now, c.now, .handle h⟩ :: c.hist) = h :: createdHandles c.hist := by
        simp [createdHandles]
      rw [hch]
      rcases List.mem_cons.mp hx with rfl | hx
      · simp
      · exact List.mem_cons_of_mem _ (hs3 x hx)
  | snap th k h rest hth hp hprog =>
    refine ⟨⟨s, ?_, hs2, hs3⟩⟩
    simp [specOf, hs1, specStep, hs2]
  | use th k h s' j hth hp =>
    refine ⟨⟨s, hs1, hs2, ?_⟩⟩
    rw [createdHandles_cons_of_ne _ _ (fun x => useSnap_ne_handle k s' x)]; exact hs3
  | free th h rest hth hp hprog =>
    refine ⟨⟨⟨fun x => if x = h then none else s.map x, s.issued⟩, ?_, ?_, ?_⟩⟩
    · simp [specOf, hs1, specStep]
    · intro x; simp only [mapGet_remove, hs2]
    · intro x hx
      have hch : createdHandles (⟨t, .free h, c.now, c.now, c.now, .unit⟩ :: c.hist) = createdHandles c.hist := by
        simp [createdHandles]
      rw [hch]; exact hs3 x hx


/-- life of one handle `h`, created by log entry `rc` with object `o`: `q = none` while it has not
been removed since its insert, `q = some Q` when the first remove after the insert happened at
step `Q`. Every locked `get` of `h` delivered `o` exactly inside `(rc.lin, Q)` and
`errInvalid` outside. -/
structure Window (log : List Lin) (map : Map) (rc : Lin) (o : Obj) (h : Nat) (q : Option Nat) : Prop where
  link : mapGet map h = match q with | none => some o | some _ => none
  qfree : ∀ Q, q = some Q → rc.lin < Q ∧ ∃ f ∈ log, f.op = .free h ∧ f.lin = Q
  frees : ∀ f ∈ log, f.op = .free h → f.lin < rc.lin ∨ ∃ Q, q = some Q ∧ Q ≤ f.lin
  gets : ∀ r ∈ log, ∀ k, r.op = .get k h →
    (r.result = useSnap k (some o) ∧ rc.lin < r.lin ∧ ∀ Q, q = some Q → r.lin < Q) ∨
    (r.result = .errInvalid ∧ (r.lin < rc.lin ∨ ∃ Q, q = some Q ∧ Q < r.lin))

structure WinInv (c : Config) : Prop where
  /-- every created handle has a window -/
  win : ∀ rc ∈ c.linLog, ∀ o h, rc.op = .create o → rc.result = .handle h →
    ∃ q, Window c.linLog c.map rc o h q
  /-- a handle that no create has returned is absent and every `get` of it failed -/
  never : ∀ h, h ∉ createdHandles c.hist → mapGet c.map h = none ∧
    ∀ r ∈ c.linLog, ∀ k, r.op = .get k h → r.result = .errInvalid

theorem winInv_init (progs : List (List Op)) : WinInv (initCfg progs) :=
  ⟨by simp [initCfg], fun h _ => ⟨by simp [initCfg, mapGet], by simp [initCfg]⟩⟩

/-- a log entry that is neither a `free` nor a `get` of `h`, added on top, keeps the window -/
theorem Window.cons_other {log : List Lin} {map map' : Map} {rc : Lin} {o : Obj} {h : Nat} {q : Option Nat}
    (w : Window log map rc o h q) (l : Lin) (hmap : mapGet map' h = mapGet map h)
    (hf : l.op ≠ .free h) (hg : ∀ k, l.op ≠ .get k h) : Window (l :: log) map' rc o h q := by
  refine ⟨by rw [hmap]; exact w.link, ?_, ?_, ?_⟩
  · intro Q hQ
    obtain ⟨a, f, hf1, hf2⟩ := w.qfree Q hQ
    exact ⟨a, f, List.mem_cons_of_mem _ hf1, hf2⟩
  · intro f hfm hfo
    rcases List.mem_cons.mp hfm with rfl | hfm
    · exact absurd hfo hf
    · exact w.frees f hfm hfo
  · intro r hr k hk
    rcases List.mem_cons.mp hr with rfl | hr
    · exact absurd hk (hg k)
    · exact w.gets r hr k hk

theorem winInv_step {t : Nat} {c c' : Config} (hs : StepRel t c c') (i1 : Inv c) (i2 : Timing c)
    (i : WinInv c) : WinInv c' := by
  cases hs with
  | skip hn => exact ⟨i.win, i.never⟩
  | fin th hth hp hprog => exact ⟨i.win, i.never⟩
  | alloc th o rest hth hp hprog => exact ⟨i.win, i.never⟩
  | use th k h s j hth hp =>
    refine ⟨i.win, ?_⟩
    rw [createdHandles_cons_of_ne _ _ (fun x => useSnap_ne_handle k s x)]; exact i.never
  | insert th o h j hth hp =>
    have hfl := i1.fl t th o h j hth hp
    have hch : createdHandles (⟨t, .create o, j, c.now, c.now, .handle h⟩ :: c.hist) = h :: createdHandles c.hist := by
      simp [createdHandles]
    refine ⟨?_, ?_⟩
    · intro rc hrc o' h' hop hres
      rcases List.mem_cons.mp hrc with rfl | hrc
      · simp only [Op.create.injEq, Res.handle.injEq] at hop hres
        subst hop; subst hres
        obtain ⟨hn1, hn2⟩ := i.never h hfl.2.2
        refine ⟨none, ⟨by simp [mapGet_insert], by simp, ?_, ?_⟩⟩
        · intro f hfm hfo
          rcases List.mem_cons.mp hfm with rfl | hfm
          · simp at hfo
          · exact Or.inl (i2.lin_lt f hfm)
        · intro r hr k hk
          rcases List.mem_cons.mp hr with rfl | hr
          · simp at hk
          · exact Or.inr ⟨hn2 r hr k hk, Or.inl (i2.lin_lt r hr)⟩
      · obtain ⟨q, w⟩ := i.win rc hrc o' h' hop hres
        obtain ⟨x, hx1, hx2⟩ := i2.log_created rc hrc o' hop
        have hne : h' ≠ h := by
          rw [hres] at hx1; cases hx1
          intro e; subst e; exact hfl.2.2 hx2
        exact ⟨q, w.cons_other _ (by simp [mapGet_insert, hne]) (by simp) (by simp)⟩
    · intro h' hh'
      rw [hch] at hh'
      have hne : h' ≠ h := fun e => hh' (by simp [e])
      obtain ⟨hn1, hn2⟩ := i.never h' (fun hm => hh' (List.mem_cons_of_mem _ hm))
      refine ⟨by simp [mapGet_insert, hne, hn1], ?_⟩
      intro r hr k hk
      rcases List.mem_cons.mp hr with rfl | hr
      · simp at hk
      · exact hn2 r hr k hk
  | snap th k h rest hth hp hprog =>
    refine ⟨?_, ?_⟩
    · intro rc hrc0 o' h' hop hres
      rcases List.mem_cons.mp hrc0 with rfl | hrc
      · simp at hop
      · clear hrc0
        obtain ⟨q, w⟩ := i.win rc hrc o' h' hop hres
        by_cases hne : h' = h
        · subst hne
          refine ⟨q, ⟨w.link, ?_, ?_, ?_⟩⟩
          · intro Q hQ
            obtain ⟨a, f, hf1, hf2⟩ := w.qfree Q hQ
            exact ⟨a, f, List.mem_cons_of_mem _ hf1, hf2⟩
          · intro f hfm hfo
            rcases List.mem_cons.mp hfm with rfl | hfm
            · simp at hfo
            · exact w.frees f hfm hfo
          · intro r hr k' hk'
            rcases List.mem_cons.mp hr with rfl | hr
            · simp only [Op.get.injEq] at hk'
              obtain ⟨rfl, _⟩ := hk'
              have hl := w.link
              cases q with
              | none =>
                simp only at hl
                exact Or.inl ⟨by rw [hl], i2.lin_lt rc hrc, by simp⟩
              | some Q =>
                simp only at hl
                obtain ⟨_, f, hf1, _, hf3⟩ := w.qfree Q rfl
                refine Or.inr ⟨by rw [hl]; rfl, Or.inr ⟨Q, rfl, ?_⟩⟩
                have := i2.lin_lt f hf1; simp only; omega
            · exact w.gets r hr k' hk'
        · refine ⟨q, w.cons_other _ rfl (by simp) ?_⟩
          intro k'; simp; intro _ e; exact hne e.symm
    · intro h' hh'
      obtain ⟨hn1, hn2⟩ := i.never h' hh'
      refine ⟨hn1, ?_⟩
      intro r hr k' hk'
      rcases List.mem_cons.mp hr with rfl | hr
      · simp only [Op.get.injEq] at hk'
        obtain ⟨rfl, rfl⟩ := hk'
        simp only [hn1]; rfl
      · exact hn2 r hr k' hk'
  | free th h rest hth hp hprog =>
    have hch : createdHandles (⟨t, .free h, c.now, c.now, c.now, .unit⟩ :: c.hist) = createdHandles c.hist := by
      simp [createdHandles]
    refine ⟨?_, ?_⟩
    · intro rc hrc0 o' h' hop hres
      rcases List.mem_cons.mp hrc0 with rfl | hrc
      · simp at hop
      · clear hrc0
        obtain ⟨q, w⟩ := i.win rc hrc o' h' hop hres
        by_cases hne : h' = h
        · subst hne
          have hrcl := i2.lin_lt rc hrc
          cases q with
          | none =>
            refine ⟨some c.now, ⟨by simp [mapGet_remove], ?_, ?_, ?_⟩⟩
            · intro Q hQ; cases hQ
              exact ⟨hrcl, _, List.mem_cons_self, rfl, rfl⟩
            · intro f hfm hfo
              rcases List.mem_cons.mp hfm with rfl | hfm
              · exact Or.inr ⟨c.now, rfl, Nat.le_refl _⟩
              · rcases w.frees f hfm hfo with h1 | ⟨Q, hQ, _⟩
                · exact Or.inl h1
                · cases hQ
            · intro r hr k hk
              rcases List.mem_cons.mp hr with rfl | hr
              · simp at hk
              · rcases w.gets r hr k hk with ⟨a, b, _⟩ | ⟨a, b | ⟨Q, hQ, _⟩⟩
                · refine Or.inl ⟨a, b, ?_⟩
                  intro Q hQ; cases hQ; exact i2.lin_lt r hr
                · exact Or.inr ⟨a, Or.inl b⟩
                · cases hQ
          | some Q =>
            obtain ⟨hQ1, f0, hf1, hf2, hf3⟩ := w.qfree Q rfl
            have hQlt : Q < c.now := by have := i2.lin_lt f0 hf1; omega
            refine ⟨some Q, ⟨by simp [mapGet_remove], ?_, ?_, ?_⟩⟩
            · intro Q' hQ'; cases hQ'
              exact ⟨hQ1, f0, List.mem_cons_of_mem _ hf1, hf2, hf3⟩
            · intro f hfm hfo
              rcases List.mem_cons.mp hfm with rfl | hfm
              · exact Or.inr ⟨Q, rfl, by simp only; omega⟩
              · exact w.frees f hfm hfo
            · intro r hr k hk
              rcases List.mem_cons.mp hr with rfl | hr
              · simp at hk
              · exact w.gets r hr k hk
        · refine ⟨q, w.cons_other _ (by simp [mapGet_remove, hne]) ?_ (by simp)⟩
          simp; intro e; exact hne e.symm
    · intro h' hh'
      rw [hch] at hh'
      obtain ⟨hn1, hn2⟩ := i.never h' hh'
      refine ⟨by simp [mapGet_remove, hn1], ?_⟩
      intro r hr k hk
      rcases List.mem_cons.mp hr with rfl | hr
      · simp at hk
      · exact hn2 r hr k hk


theorem mem_createdHandles {hist : List Rec} {r : Rec} {h : Nat} (hr : r ∈ hist) (hres : r.result = .handle h) :
    h ∈ createdHandles hist := by
  simp only [createdHandles, List.mem_filterMap]
  exact ⟨r, hr, by simp [hres]⟩

/-- handles grow along real time: a create that responded before another was invoked got the smaller handle -/
structure OrdInv (c : Config) : Prop where
  hist : ∀ a ∈ c.hist, ∀ b ∈ c.hist, ∀ ha hb, a.result = .handle ha → b.result = .handle hb →
    a.res < b.inv → ha < hb
  fl : ∀ (t : Nat) (th : Thread) (o : Obj) (h i : Nat), c.threads[t]? = some th → th.pend = .creating o h i →
    ∀ a ∈ c.hist, ∀ ha, a.result = .handle ha → a.res < i → ha < h

theorem ordInv_init (progs : List (List Op)) : OrdInv (initCfg progs) :=
  ⟨by simp [initCfg], by simp [initCfg]⟩

theorem ordInv_step {t : Nat} {c c' : Config} (hs : StepRel t c c') (i1 : Inv c) (i2 : Timing c)
    (i : OrdInv c) : OrdInv c' := by
  cases hs with
  | skip hn => exact ⟨i.hist, i.fl⟩
  | fin th hth hp hprog =>
    refine ⟨i.hist, ?_⟩
    intro t' th' o h j hth' hp'
    simp only [get_set hth] at hth'
    split at hth'
    · simp at hth'; subst hth'; simp [hp] at hp'
    · exact i.fl t' th' o h j hth' hp'
  | alloc th o rest hth hp hprog =>
    refine ⟨i.hist, ?_⟩
    intro t' th' o' h j hth' hp'
    simp only [get_set hth] at hth'
    split at hth'
    · simp at hth'; subst hth'; simp at hp'
      obtain ⟨_, rfl, _⟩ := hp'
      intro a ha x hx _
      have := (i1.ch_le x (mem_createdHandles ha hx)).1
      omega
    · exact i.fl t' th' o' h j hth' hp'
  | insert th o h j hth hp =>
    have hj := i2.pend_creating t th o h j hth hp
    refine ⟨?_, ?_⟩
    · intro a ha b hb xa xb hxa hxb hlt
      rcases List.mem_cons.mp ha with rfl | ha
      · rcases List.mem_cons.mp hb with rfl | hb
        · simp only at hlt; omega
        · have := i2.hist_times b hb; simp only at hlt; omega
      · rcases List.mem_cons.mp hb with rfl | hb
        · simp only [Res.handle.injEq] at hxb; subst hxb
          exact i.fl t th o _ j hth hp a ha xa hxa hlt
        · exact i.hist a ha b hb xa xb hxa hxb hlt
    · intro t' th' o' h' j' hth' hp'
      simp only [get_set hth] at hth'
      split at hth'
      · simp at hth'; subst hth'; simp at hp'
      · intro a ha xa hxa hlt
        rcases List.mem_cons.mp ha with rfl | ha
        · have := i2.pend_creating t' th' o' h' j' hth' hp'; simp only at hlt; omega
        · exact i.fl t' th' o' h' j' hth' hp' a ha xa hxa hlt
  | snap th k h rest hth hp hprog =>
    refine ⟨i.hist, ?_⟩
    intro t' th' o h j hth' hp'
    simp only [get_set hth] at hth'
    split at hth'
    · simp at hth'; subst hth'; simp at hp'
    · exact i.fl t' th' o h j hth' hp'
  | use th k h s j hth hp =>
    refine ⟨?_, ?_⟩
    · intro a ha b hb xa xb hxa hxb hlt
      rcases List.mem_cons.mp ha with rfl | ha
      · exact absurd hxa (useSnap_ne_handle _ _ _)
      · rcases List.mem_cons.mp hb with rfl | hb
        · exact absurd hxb (useSnap_ne_handle _ _ _)
        · exact i.hist a ha b hb xa xb hxa hxb hlt
    · intro t' th' o' h' j' hth' hp'
      simp only [get_set hth] at hth'
      split at hth'
      · simp at hth'; subst hth'; simp at hp'
      · intro a ha xa hxa hlt
        rcases List.mem_cons.mp ha with rfl | ha
        · exact absurd hxa (useSnap_ne_handle _ _ _)
        · exact i.fl t' th' o' h' j' hth' hp' a ha xa hxa hlt
  | free th h rest hth hp hprog =>
    refine ⟨?_, ?_⟩
    · intro a ha b hb xa xb hxa hxb hlt
      rcases List.mem_cons.mp ha with rfl | ha
      · simp at hxa
      · rcases List.mem_cons.mp hb with rfl | hb
        · simp at hxb
        · exact i.hist a ha b hb xa xb hxa hxb hlt
    · intro t' th' o' h' j' hth' hp'
      simp only [get_set hth] at hth'
      split at hth'
      · simp at hth'; subst hth'; simp at hp'
      · intro a ha xa hxa hlt
        rcases List.mem_cons.mp ha with rfl | ha
        · simp at hxa
        · exact i.fl t' th' o' h' j' hth' hp' a ha xa hxa hlt


/-- which combinations of operation, times and response a history contains -/
structure Shape (c : Config) : Prop where
  create : ∀ r ∈ c.hist, ∀ o, r.op = .create o → r.lin = r.res ∧ ∃ h, r.result = .handle h
  get : ∀ r ∈ c.hist, ∀ k h, r.op = .get k h → r.inv = r.lin ∧ ∃ s, r.result = useSnap k s
  free : ∀ r ∈ c.hist, ∀ h, r.op = .free h → r.inv = r.lin ∧ r.lin = r.res ∧ r.result = .unit
  log_free : ∀ l ∈ c.linLog, ∀ h, l.op = .free h →
    (⟨l.thread, .free h, l.lin, l.lin, l.lin, .unit⟩ : Rec) ∈ c.hist

theorem shape_init (progs : List (List Op)) : Shape (initCfg progs) :=
  ⟨by simp [initCfg], by simp [initCfg], by simp [initCfg], by simp [initCfg]⟩

theorem shape_step {t : Nat} {c c' : Config} (hs : StepRel t c c') (i : Shape c) : Shape c' := by
  cases hs with
  | skip hn => exact ⟨i.create, i.get, i.free, i.log_free⟩
  | fin th hth hp hprog => exact ⟨i.create, i.get, i.free, i.log_free⟩
  | alloc th o rest hth hp hprog => exact ⟨i.create, i.get, i.free, i.log_free⟩
  | insert th o h j hth hp =>
    refine ⟨?_, ?_, ?_, ?_⟩
    · intro r hr o' ho; rcases List.mem_cons.mp hr with rfl | hr
      · exact ⟨rfl, h, rfl⟩
      · exact i.create r hr o' ho
    · intro r hr k h' ho; rcases List.mem_cons.mp hr with rfl | hr
      · simp at ho
      · exact i.get r hr k h' ho
    · intro r hr h' ho; rcases List.mem_cons.mp hr with rfl | hr
      · simp at ho
      · exact i.free r hr h' ho
    · intro l hl h' ho; rcases List.mem_cons.mp hl with rfl | hl
      · simp at ho
      · exact List.mem_cons_of_mem _ (i.log_free l hl h' ho)
  | snap th k h rest hth hp hprog =>
    refine ⟨i.create, i.get, i.free, ?_⟩
    intro l hl h' ho; rcases List.mem_cons.mp hl with rfl | hl
    · simp at ho
    · exact i.log_free l hl h' ho
  | use th k h s j hth hp =>
    refine ⟨?_, ?_, ?_, ?_⟩
    · intro r hr o' ho; rcases List.mem_cons.mp hr with rfl | hr
      · simp at ho
      · exact i.create r hr o' ho
    · intro r hr k' h' ho; rcases List.mem_cons.mp hr with rfl | hr
      · simp only [Op.get.injEq] at ho; obtain ⟨rfl, rfl⟩ := ho; exact ⟨rfl, s, rfl⟩
      · exact i.get r hr k' h' ho
    · intro r hr h' ho; rcases List.mem_cons.mp hr with rfl | hr
      · simp at ho
      · exact i.free r hr h' ho
    · intro l hl h' ho; exact List.mem_cons_of_mem _ (i.log_free l hl h' ho)
  | free th h rest hth hp hprog =>
    refine ⟨?_, ?_, ?_, ?_⟩
    · intro r hr o' ho; rcases List.mem_cons.mp hr with rfl | hr
      · simp at ho
      · exact i.create r hr o' ho
    · intro r hr k' h' ho; rcases List.mem_cons.mp hr with rfl | hr
      · simp at ho
      · exact i.get r hr k' h' ho
    · intro r hr h' ho; rcases List.mem_cons.mp hr with rfl | hr
      · exact ⟨rfl, rfl, rfl⟩
      · exact i.free r hr h' ho
    · intro l hl h' ho; rcases List.mem_cons.mp hl with rfl | hl
      · simp only [Op.free.injEq] at ho; subst ho; exact List.mem_cons_self
      · exact List.mem_cons_of_mem _ (i.log_free l hl h' ho)

/-- all invariants together -/
structure AllInv (c : Config) : Prop where
  inv : Inv c
  timing : Timing c
  spec : SpecInv c
  win : WinInv c
  ord : OrdInv c
  shape : Shape c

theorem allInv_run (progs : List (List Op)) (s : Sched) : AllInv (run s (initCfg progs)) := by
  apply run_induction (P := AllInv)
  · intro t c c' hs i
    exact ⟨inv_step hs i.inv, timing_step hs i.timing, specInv_step hs i.inv i.spec,
      winInv_step hs i.inv i.timing i.win, ordInv_step hs i.inv i.timing i.ord, shape_step hs i.shape⟩
  · exact ⟨inv_init progs, timing_init progs, specInv_init progs, winInv_init progs, ordInv_init progs, shape_init progs⟩


theorem useSnap_some_ne_invalid (k : GetKind) (o : Obj) : useSnap k (some o) ≠ .errInvalid := by
  cases k <;> simp [useSnap]
  split <;> simp

/-- how the response of a `get` record and the result fields of its event relate -/
def GetRel (k : GetKind) (res : Res) (e : Event) : Prop :=
  (res = .errInvalid ∧ e.result = .invalid) ∨
  (res ≠ .errInvalid ∧ e.result ≠ .invalid ∧
    ∀ o, res = useSnap k (some o) → ∀ C : Event, C.ty = some o.ty → C.obj = some o.id → presentOk C e = true)

/-- inversion of the abstraction -/
theorem toEvent_inv {r : Rec} {e : Event} (h : r.toEvent = some e) :
    e.inv = 2 * r.inv ∧ e.res = 2 * r.res + 1 ∧
    ((e.op = .create ∧ ∃ o, r.op = .create o ∧ r.result = .handle e.handle ∧ e.ty = some o.ty ∧
        e.obj = some o.id ∧ e.result = .ok) ∨
     (e.op = .free ∧ r.op = .free e.handle ∧ r.result = .unit ∧ e.result = .ok) ∨
     (e.isGet = true ∧ ∃ k, r.op = .get k e.handle ∧ GetRel k r.result e)) := by
  unfold Rec.toEvent at h
  split at h <;> simp only [Option.some.injEq, reduceCtorEq] at h <;> subst h <;>
    refine ⟨rfl, rfl, ?_⟩
  · rename_i o hh ho hr; exact Or.inl ⟨rfl, o, ho, hr, rfl, rfl, rfl⟩
  · rename_i hh ho hr; exact Or.inr (Or.inl ⟨rfl, ho, hr, rfl⟩)
  · rename_i hh o ho hr
    refine Or.inr (Or.inr ⟨rfl, .json, ho, Or.inr ⟨by simp [hr], by simp, ?_⟩⟩)
    intro o' ho' C h1 h2
    simp only [hr, useSnap, Res.ok.injEq] at ho'; subst ho'
    simp [presentOk, h1, h2]
  · rename_i hh o ho hr
    refine Or.inr (Or.inr ⟨rfl, .typeName, ho, Or.inr ⟨by simp [hr], by simp, ?_⟩⟩)
    intro o' ho' C h1 h2
    simp only [hr, useSnap, Res.ok.injEq] at ho'; subst ho'
    simp [presentOk, h1]
  · rename_i hh o ho hr
    refine Or.inr (Or.inr ⟨rfl, .load, ho, Or.inr ⟨by simp [hr], by simp, ?_⟩⟩)
    intro o' ho' C h1 h2
    simp [presentOk]
  · rename_i T hh o ho hr
    refine Or.inr (Or.inr ⟨rfl, .useAs T, ho, Or.inr ⟨by simp [hr], by simp, ?_⟩⟩)
    intro o' ho' C h1 h2
    simp only [hr, useSnap] at ho'
    split at ho'
    · rename_i hT; simp [presentOk, h1, hT]
    · cases ho'
  · rename_i T hh ho hr
    refine Or.inr (Or.inr ⟨rfl, .useAs T, ho, Or.inr ⟨by simp [hr], by simp, ?_⟩⟩)
    intro o' ho' C h1 h2
    simp only [hr, useSnap] at ho'
    split at ho'
    · cases ho'
    · rename_i hT; simp [presentOk, h1, hT]
  · rename_i hh ho hr
    exact Or.inr (Or.inr ⟨rfl, .json, ho, Or.inl ⟨hr, rfl⟩⟩)
  · rename_i hh ho hr
    exact Or.inr (Or.inr ⟨rfl, .typeName, ho, Or.inl ⟨hr, rfl⟩⟩)
  · rename_i hh ho hr
    exact Or.inr (Or.inr ⟨rfl, .load, ho, Or.inl ⟨hr, rfl⟩⟩)
  · rename_i T hh ho hr
    exact Or.inr (Or.inr ⟨rfl, .useAs T, ho, Or.inl ⟨hr, rfl⟩⟩)


theorem toEvent_create {r : Rec} {o : Obj} {h : Nat} (ho : r.op = .create o) (hr : r.result = .handle h) :
    r.toEvent = some ⟨r.thread, .create, h, none, 2 * r.inv, 2 * r.res + 1, .ok, some o.ty, some o.id⟩ := by
  simp [Rec.toEvent, ho, hr]

theorem toEvent_free {r : Rec} {h : Nat} (ho : r.op = .free h) (hr : r.result = .unit) :
    r.toEvent = some ⟨r.thread, .free, h, none, 2 * r.inv, 2 * r.res + 1, .ok, none, none⟩ := by
  simp [Rec.toEvent, ho, hr]

theorem toEvent_get_isSome {r : Rec} {k : GetKind} {h : Nat} {s : Option Obj} (ho : r.op = .get k h)
    (hr : r.result = useSnap k s) : r.toEvent.isSome = true := by
  cases k with
  | useAs T =>
    cases s with
    | none => simp [Rec.toEvent, ho, hr, useSnap]
    | some o => by_cases hT : o.ty = T <;> simp [Rec.toEvent, ho, hr, useSnap, hT]
  | _ => cases s <;> simp [Rec.toEvent, ho, hr, useSnap]

theorem isGet_op_ne_create {e : Event} (h : e.isGet = true) : e.op ≠ .create := by
  intro he; simp [Event.isGet, he] at h

theorem isGet_op_ne_free {e : Event} (h : e.isGet = true) : e.op ≠ .free := by
  intro he; simp [Event.isGet, he] at h

theorem mem_toEvents {hist : List Rec} {e : Event} : e ∈ toEvents hist ↔ ∃ r ∈ hist, r.toEvent = some e := by
  simp [toEvents, List.mem_filterMap]

theorem toEvents_cons (r : Rec) (hist : List Rec) :
    toEvents (r :: hist) = match r.toEvent with
      | none => toEvents hist
      | some e => e :: toEvents hist := by
  unfold toEvents; rw [List.filterMap_cons]; cases r.toEvent <;> rfl

theorem createdHandles_cons_handle (r : Rec) (hist : List Rec) (h : Nat) (hr : r.result = .handle h) :
    createdHandles (r :: hist) = h :: createdHandles hist := by
  simp [createdHandles, hr]

theorem creates_handles (hist : List Rec)
    (hc : ∀ r ∈ hist, ∀ h, r.result = .handle h → ∃ o, r.op = .create o) :
    ((toEvents hist).filter (fun e => e.op == .create)).map (·.handle) = createdHandles hist := by
  induction hist with
  | nil => rfl
  | cons r hist ih =>
    have ih' := ih (fun r hr => hc r (List.mem_cons_of_mem _ hr))
    have hcr := hc r List.mem_cons_self
    rw [toEvents_cons]
    cases he : r.toEvent with
    | none =>
      simp only
      rw [createdHandles_cons_of_ne, ih']
      intro x hx
      obtain ⟨o, ho⟩ := hcr x hx
      rw [toEvent_create ho hx] at he; cases he
    | some e =>
      obtain ⟨_, _, h3⟩ := toEvent_inv he
      simp only
      rcases h3 with ⟨hop, o, ho, hres, _⟩ | ⟨hop, ho, hres, _⟩ | ⟨hg, k, ho, _⟩
      · rw [createdHandles_cons_handle _ _ _ hres]; simp [hop, ih']
      · rw [createdHandles_cons_of_ne _ _ (by simp [hres])]; simp [hop, ih']
      · have hne := isGet_op_ne_create hg
        have : ∀ x, r.result ≠ .handle x := by
          intro x hx; obtain ⟨o, ho'⟩ := hcr x hx; rw [ho] at ho'; cases ho'
        rw [createdHandles_cons_of_ne _ _ this]; simp [hne, ih']


/-- per-handle facts about the events of a model history, in ticket arithmetic -/
structure HandleFacts (E : List Event) (C : Event) (h p : Nat) (q : Option Nat) : Prop where
  get : ∀ g ∈ E, g.isGet = true → g.handle = h →
    (g.result ≠ .invalid ∧ presentOk C g = true ∧ p < g.res ∧ ∀ Q, q = some Q → g.inv ≤ Q) ∨
    (g.result = .invalid ∧ (g.inv ≤ p ∨ ∃ Q, q = some Q ∧ Q < g.res))
  free : ∀ f ∈ E, f.op = .free → f.handle = h → f.inv ≤ p ∨ ∃ Q, q = some Q ∧ Q < f.res
  q : ∀ Q, q = some Q → p ≤ Q ∧ ∃ f ∈ E, f.op = .free ∧ f.handle = h ∧ f.inv = Q ∧ Q < f.res

theorem handleFacts {c : Config} (a : AllInv c) {rc : Rec} (hrc : rc ∈ c.hist) {o : Obj} {h : Nat}
    (ho : rc.op = .create o) (hres : rc.result = .handle h) (C : Event)
    (hty : C.ty = some o.ty) (hobj : C.obj = some o.id) :
    ∃ q, HandleFacts (toEvents c.hist) C h (2 * rc.lin) q := by
  obtain ⟨q, w⟩ := a.win.win rc.toLin (a.timing.hist_in_log rc hrc) o h ho hres
  refine ⟨q.map (2 * ·), ?_, ?_, ?_⟩
  · intro g hg hget hh
    obtain ⟨r, hr, hre⟩ := mem_toEvents.mp hg
    obtain ⟨t1, t2, h3⟩ := toEvent_inv hre
    have ht := a.timing.hist_times r hr
    rcases h3 with ⟨hop, _⟩ | ⟨hop, _⟩ | ⟨_, k, hop, hrel⟩
    · exact absurd hop (isGet_op_ne_create hget)
    · exact absurd hop (isGet_op_ne_free hget)
    · rw [hh] at hop
      rcases w.gets r.toLin (a.timing.hist_in_log r hr) k hop with ⟨w1, w2, w3⟩ | ⟨w1, w2⟩
      · rcases hrel with ⟨g1, _⟩ | ⟨g1, g2, g3⟩
        · exfalso; rw [show r.toLin.result = r.result from rfl, g1] at w1
          exact useSnap_some_ne_invalid k o w1.symm
        · refine Or.inl ⟨g2, g3 o w1 C hty hobj, ?_, ?_⟩
          · simp only [Rec.toLin] at w2; omega
          · intro Q hQ
            cases q with
            | none => simp at hQ
            | some Q' =>
              simp only [Option.map_some, Option.some.injEq] at hQ
              have := w3 Q' rfl
              simp only [Rec.toLin] at this; omega
      · rcases hrel with ⟨_, g2⟩ | ⟨g1, _, _⟩
        · refine Or.inr ⟨g2, ?_⟩
          rcases w2 with w2 | ⟨Q, hQ, w2⟩
          · left; simp only [Rec.toLin] at w2; omega
          · right; refine ⟨2 * Q, by simp [hQ], ?_⟩
            simp only [Rec.toLin] at w2; omega
        · exact absurd w1 g1
  · intro f hf hfop hh
    obtain ⟨r, hr, hre⟩ := mem_toEvents.mp hf
    obtain ⟨t1, t2, h3⟩ := toEvent_inv hre
    have ht := a.timing.hist_times r hr
    rcases h3 with ⟨hop, _⟩ | ⟨_, hop, _⟩ | ⟨hget, _⟩
    · rw [hfop] at hop; cases hop
    · rw [hh] at hop
      rcases w.frees r.toLin (a.timing.hist_in_log r hr) hop with w1 | ⟨Q, hQ, w1⟩
      · left; simp only [Rec.toLin] at w1; omega
      · right; refine ⟨2 * Q, by simp [hQ], ?_⟩
        simp only [Rec.toLin] at w1; omega
    · exact absurd hfop (isGet_op_ne_free hget)
  · intro Q hQ
    cases q with
    | none => simp at hQ
    | some Q' =>
      simp only [Option.map_some, Option.some.injEq] at hQ
      obtain ⟨q1, f, hf1, hf2, hf3⟩ := w.qfree Q' rfl
      have hrec := a.shape.log_free f hf1 h hf2
      refine ⟨by simp only [Rec.toLin] at q1; omega, _, mem_toEvents.mpr ⟨_, hrec, toEvent_free rfl rfl⟩, rfl, rfl, ?_, ?_⟩
      · simp only; omega
      · simp only; omega

theorem checkHandle_of_facts {E : List Event} {C : Event} {q : Option Nat}
    (hC : C.res = C.res - 1 + 1) (hCi : C.inv ≤ C.res - 1)
    (hf : HandleFacts E C C.handle (C.res - 1) q) :
    checkHandle C E = true := by
  unfold checkHandle
  simp only [List.any_cons, Bool.or_eq_true]
  left
  cases q with
  | none =>
    left
    simp only [feasible, Bool.and_eq_true, decide_eq_true_eq, List.all_eq_true, List.mem_filter,
      Bool.or_eq_true, beq_iff_eq, bne_iff_ne, ne_eq, and_imp]
    refine ⟨⟨⟨hCi, by omega⟩, ?_⟩, ?_, ?_⟩
    · intro g hg hget hh
      rcases hf.get g hg hget hh with ⟨g1, g2, g3, _⟩ | ⟨g1, _⟩
      · exact Or.inr ⟨g2, g3⟩
      · exact Or.inl g1
    · intro f hfm hop hh
      rcases hf.free f hfm hop hh with h1 | ⟨Q, hQ, _⟩
      · exact h1
      · cases hQ
    · intro g hg hget hh
      rcases hf.get g hg hget hh with ⟨g1, _⟩ | ⟨g1, g2 | ⟨Q, hQ, _⟩⟩
      · exact Or.inl g1
      · exact Or.inr g2
      · cases hQ
  | some Q =>
    right
    obtain ⟨q1, f0, hf0, hf1, hf2, hf3, hf4⟩ := hf.q Q rfl
    simp only [List.any_eq_true, List.mem_map, List.mem_cons, List.mem_append, List.mem_filter,
      Bool.and_eq_true, beq_iff_eq]
    refine ⟨Q, ⟨f0, Or.inl (Or.inr ⟨hf0, hf1, hf2⟩), hf3⟩, ?_⟩
    simp only [feasible, Bool.and_eq_true, decide_eq_true_eq, List.all_eq_true, List.any_eq_true,
      List.mem_filter, Bool.or_eq_true, beq_iff_eq, and_imp]
    refine ⟨⟨⟨hCi, by omega⟩, ?_⟩, ⟨⟨q1, f0, ⟨hf0, hf1, hf2⟩, by omega, hf4⟩, ?_⟩, ?_⟩
    · intro g hg hget hh
      rcases hf.get g hg hget hh with ⟨g1, g2, g3, _⟩ | ⟨g1, _⟩
      · exact Or.inr ⟨g2, g3⟩
      · exact Or.inl g1
    · intro f hfm hop hh
      rcases hf.free f hfm hop hh with h1 | ⟨Q', hQ, h2⟩
      · exact Or.inl h1
      · cases hQ; exact Or.inr h2
    · intro g hg hget hh
      rcases hf.get g hg hget hh with ⟨g1, _, _, g4⟩ | ⟨g1, g2 | ⟨Q', hQ, g2⟩⟩
      · rw [if_neg (by simpa using g1)]; simpa using g4 Q rfl
      · rw [if_pos (by simpa using g1)]; simp [g2]
      · cases hQ; rw [if_pos (by simpa using g1)]; simp [g2]


theorem hist_handle_is_create {c : Config} (a : AllInv c) {r : Rec} (hr : r ∈ c.hist) {h : Nat}
    (hres : r.result = .handle h) : ∃ o, r.op = .create o :=
  a.timing.log_handle r.toLin (a.timing.hist_in_log r hr) h hres

/-- a create event of a model history, with its record -/
theorem create_event_inv {c : Config} (a : AllInv c) {e : Event} (he : e ∈ toEvents c.hist)
    (hop : e.op = .create) :
    ∃ r ∈ c.hist, ∃ o, r.op = .create o ∧ r.result = .handle e.handle ∧ e.ty = some o.ty ∧
      e.obj = some o.id ∧ e.result = .ok ∧ e.inv = 2 * r.inv ∧ e.res = 2 * r.res + 1 ∧ r.lin = r.res ∧
      r.inv ≤ r.res := by
  obtain ⟨r, hr, hre⟩ := mem_toEvents.mp he
  obtain ⟨t1, t2, h3⟩ := toEvent_inv hre
  have ht := a.timing.hist_times r hr
  rcases h3 with ⟨_, o, ho, h1, h2, h3, h4⟩ | ⟨hop', _⟩ | ⟨hget, _⟩
  · exact ⟨r, hr, o, ho, h1, h2, h3, h4, t1, t2, (a.shape.create r hr o ho).1, by omega⟩
  · rw [hop] at hop'; cases hop'
  · exact absurd hop (isGet_op_ne_create hget)

theorem checkHistory_sound {c : Config} (a : AllInv c) : checkHistory (toEvents c.hist) = true := by
  unfold checkHistory
  simp only [Bool.and_eq_true, List.all_eq_true, List.mem_filter, beq_iff_eq, decide_eq_true_eq,
    and_imp, Bool.or_eq_true, Bool.not_eq_true', decide_eq_false_iff_not, bne_iff_ne, ne_eq,
    List.any_eq_true]
  refine ⟨⟨⟨⟨⟨⟨?_, ?_⟩, ?_⟩, ?_⟩, ?_⟩, ?_⟩, ?_⟩
  · -- tickets
    intro e he
    obtain ⟨r, hr, hre⟩ := mem_toEvents.mp he
    obtain ⟨t1, t2, _⟩ := toEvent_inv hre
    have := a.timing.hist_times r hr; omega
  · -- creates are well-formed
    intro e he hop
    obtain ⟨r, hr, o, ho, h1, h2, h3, h4, _⟩ := create_event_inv a he hop
    have := (a.inv.ch_le _ (mem_createdHandles hr h1)).2
    simp [h2, h3, h4, this]
  · -- no handle twice
    rw [nodupB_iff, creates_handles c.hist (fun r hr h hres => hist_handle_is_create a hr hres)]
    exact a.inv.ch_nodup
  · -- handle order
    intro ea hea hopa eb heb hopb
    obtain ⟨ra, hra, oa, _, ha1, _, _, _, _, ta2, _, _⟩ := create_event_inv a hea hopa
    obtain ⟨rb, hrb, ob, _, hb1, _, _, _, tb1, _, _, _⟩ := create_event_inv a heb hopb
    by_cases hlt : ea.res < eb.inv
    · right; exact a.ord.hist ra hra rb hrb _ _ ha1 hb1 (by omega)
    · left; exact hlt
  · -- free never fails
    intro e he
    obtain ⟨r, hr, hre⟩ := mem_toEvents.mp he
    obtain ⟨_, _, h3⟩ := toEvent_inv hre
    rcases h3 with ⟨hop, _⟩ | ⟨_, _, _, h4⟩ | ⟨hget, _⟩
    · left; rw [hop]; simp
    · right; exact h4
    · left; exact isGet_op_ne_free hget
  · -- handles never created
    intro e he
    by_cases hget : e.isGet = true
    · by_cases hcr : e.handle ∈ createdHandles c.hist
      · left; right
        simp only [createdHandles, List.mem_filterMap] at hcr
        obtain ⟨rc, hrc, hm⟩ := hcr
        split at hm
        · rename_i x hx
          simp only [Option.some.injEq] at hm; subst hm
          obtain ⟨o, ho⟩ := hist_handle_is_create a hrc hx
          exact ⟨_, ⟨mem_toEvents.mpr ⟨rc, hrc, toEvent_create ho hx⟩, rfl⟩, rfl⟩
        · cases hm
      · right
        obtain ⟨r, hr, hre⟩ := mem_toEvents.mp he
        obtain ⟨_, _, h3⟩ := toEvent_inv hre
        rcases h3 with ⟨hop, _⟩ | ⟨hop, _⟩ | ⟨_, k, hop, hrel⟩
        · exact absurd hop (isGet_op_ne_create hget)
        · exact absurd hop (isGet_op_ne_free hget)
        · have := (a.win.never e.handle hcr).2 r.toLin (a.timing.hist_in_log r hr) k hop
          rcases hrel with ⟨_, g2⟩ | ⟨g1, _⟩
          · exact g2
          · exact absurd this g1
    · left; left; simpa using hget
  · -- per handle
    intro C hC hop
    obtain ⟨r, hr, o, ho, h1, h2, h3, _, t1, t2, hl, hle⟩ := create_event_inv a hC hop
    obtain ⟨q, hf⟩ := handleFacts a hr ho h1 C h2 h3
    have hp : C.res - 1 = 2 * r.lin := by omega
    exact checkHandle_of_facts (by omega) (by omega) (hp ▸ hf)


/-- a log entry belongs to a completed operation or to the in-flight `get` of its thread -/
def Accounted (threads : List Thread) (hist : List Rec) (l : Lin) : Prop :=
  (∃ r ∈ hist, r.toLin = l) ∨
  (∃ th k h s, threads[l.thread]? = some th ∧ th.pend = .snap k h s l.lin ∧
    l = ⟨l.thread, .get k h, l.lin, useSnap k s⟩)

/-- nothing in the log is invented -/
def LogInv (c : Config) : Prop := ∀ l ∈ c.linLog, Accounted c.threads c.hist l

theorem logInv_init (progs : List (List Op)) : LogInv (initCfg progs) := by
  simp [LogInv, initCfg]

theorem logInv_step {t : Nat} {c c' : Config} (hs : StepRel t c c') (i : LogInv c) : LogInv c' := by
  -- an entry accounted for stays so when thread `t` steps from a non-`snap` pending state
  have keep : ∀ (th : Thread) (th' : Thread) (hist' : List Rec), c.threads[t]? = some th →
      (∀ k h s j, th.pend ≠ .snap k h s j) → (∀ r ∈ c.hist, r ∈ hist') → ∀ l, Accounted c.threads c.hist l →
      Accounted (c.threads.set t th') hist' l := by
    intro th th' hist' hth hnp hsub l hl
    rcases hl with ⟨r, hr, e⟩ | ⟨th0, k, h, s, h1, h2, h3⟩
    · exact Or.inl ⟨r, hsub r hr, e⟩
    · right
      by_cases ht : l.thread = t
      · rw [ht, hth] at h1; cases h1; exact absurd h2 (hnp k h s l.lin)
      · exact ⟨th0, k, h, s, by simp only [get_set hth, ht, if_false]; exact h1, h2, h3⟩
  cases hs with
  | skip hn => exact i
  | fin th hth hp hprog =>
    intro l hl; exact keep th th c.hist hth (by simp [hp]) (fun _ h => h) l (i l hl)
  | alloc th o rest hth hp hprog =>
    intro l hl; exact keep th _ c.hist hth (by simp [hp]) (fun _ h => h) l (i l hl)
  | insert th o h j hth hp =>
    intro l hl
    rcases List.mem_cons.mp hl with rfl | hl
    · exact Or.inl ⟨_, List.mem_cons_self, rfl⟩
    · exact keep th _ _ hth (by simp [hp]) (fun _ h => List.mem_cons_of_mem _ h) l (i l hl)
  | snap th k h rest hth hp hprog =>
    intro l hl
    rcases List.mem_cons.mp hl with rfl | hl
    · right; exact ⟨⟨rest, .snap k h (mapGet c.map h) c.now⟩, k, h, mapGet c.map h, by simp [get_set hth], rfl, rfl⟩
    · exact keep th _ c.hist hth (by simp [hp]) (fun _ h => h) l (i l hl)
  | free th h rest hth hp hprog =>
    intro l hl
    rcases List.mem_cons.mp hl with rfl | hl
    · exact Or.inl ⟨_, List.mem_cons_self, rfl⟩
    · exact keep th _ _ hth (by simp [hp]) (fun _ h => List.mem_cons_of_mem _ h) l (i l hl)
  | use th k h s j hth hp =>
    intro l hl
    rcases i l hl with ⟨r, hr, e⟩ | ⟨th0, k0, h0, s0, h1, h2, h3⟩
    · exact Or.inl ⟨r, List.mem_cons_of_mem _ hr, e⟩
    · by_cases ht : l.thread = t
      · left
        rw [ht, hth] at h1; cases h1
        rw [hp] at h2
        simp only [Pend.snap.injEq] at h2
        obtain ⟨rfl, rfl, rfl, rfl⟩ := h2
        refine ⟨_, List.mem_cons_self, ?_⟩
        rw [h3, ht]; rfl
      · right
        exact ⟨th0, k0, h0, s0, by simp only [get_set hth, ht, if_false]; exact h1, h2, h3⟩

theorem logInv_run (progs : List (List Op)) (s : Sched) : LogInv (run s (initCfg progs)) :=
  run_induction (P := LogInv) (fun _ _ _ hs i => logInv_step hs i) s _ (logInv_init progs)

theorem useSnap_ok (k : GetKind) (o : Obj) (hk : ∀ T, k ≠ .useAs T) : useSnap k (some o) = .ok o := by
  cases k <;> simp [useSnap]
  exact absurd rfl (hk _)

theorem filterMap_length_of_isSome {α β : Type} (f : α → Option β) (l : List α)
    (h : ∀ a ∈ l, (f a).isSome = true) : (l.filterMap f).length = l.length := by
  induction l with
  | nil => rfl
  | cons a l ih =>
    have ha := h a List.mem_cons_self
    rw [List.filterMap_cons]
    cases hf : f a with
    | none => rw [hf] at ha; cases ha
    | some b => simp [ih (fun a ha => h a (List.mem_cons_of_mem _ ha))]

theorem toEvent_isSome {c : Config} (a : AllInv c) {r : Rec} (hr : r ∈ c.hist) : r.toEvent.isSome = true := by
  cases hop : r.op with
  | create o =>
    obtain ⟨_, h, hres⟩ := a.shape.create r hr o hop
    rw [toEvent_create hop hres]; rfl
  | get k h =>
    obtain ⟨_, s, hres⟩ := a.shape.get r hr k h hop
    exact toEvent_get_isSome hop hres
  | free h =>
    obtain ⟨_, _, hres⟩ := a.shape.free r hr h hop
    rw [toEvent_free hop hres]; rfl

end AnonModel.Store

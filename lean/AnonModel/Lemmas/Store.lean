import AnonModel.Model.Store
/-! Helper lemmas for C18: association-list algebra, the shapes of a step, and the invariants
of the handle-store machine. -/
namespace AnonModel.Store

/-! ### association-list algebra -/

def keys (m : Map) : List Nat := m.map (·.1)

theorem mapGet_remove (m : Map) (h x : Nat) :
    mapGet (mapRemove m h) x = if x = h then none else mapGet m x := by
  induction m with
  | nil => simp [mapGet, mapRemove]
  | cons e m ih =>
    obtain ⟨k, v⟩ := e
    simp only [mapGet, mapRemove] at ih ⊢
    by_cases hk : k = h
    · subst hk
      by_cases hx : x = k
      · subst hx; simpa [List.filter_cons] using ih
      · have : (x == k) = false := by simpa using hx
        simpa [List.filter_cons, List.lookup_cons, this, hx] using ih
    · have hkh : (k == h) = false := by simpa using hk
      by_cases hx : x = h
      · subst hx
        have : (x == k) = false := by simpa using fun e => hk e.symm
        simpa [List.filter_cons, hkh, List.lookup_cons, this] using ih
      · by_cases hxk : x = k
        · subst hxk; simp [hkh, hx]
        · have : (x == k) = false := by simpa using hxk
          simpa [List.filter_cons, hkh, List.lookup_cons, this, hx] using ih

theorem mapGet_insert (m : Map) (h x : Nat) (o : Obj) :
    mapGet (mapInsert m h o) x = if x = h then some o else mapGet m x := by
  by_cases hx : x = h
  · subst hx; simp [mapInsert, mapGet]
  · have : (x == h) = false := by simpa using hx
    have h' := mapGet_remove m h x
    simp only [mapGet] at h'
    simp [mapInsert, mapGet, List.lookup_cons, this, hx, h']

theorem mem_keys_remove (m : Map) (h x : Nat) : x ∈ keys (mapRemove m h) ↔ x ∈ keys m ∧ x ≠ h := by
  simp only [keys, mapRemove, List.mem_map, List.mem_filter]
  constructor
  · rintro ⟨e, ⟨he, hne⟩, rfl⟩; exact ⟨⟨e, he, rfl⟩, by simpa using hne⟩
  · rintro ⟨⟨e, he, rfl⟩, hne⟩; exact ⟨e, ⟨he, by simpa using hne⟩, rfl⟩

theorem keys_remove_nodup (m : Map) (h : Nat) (hn : (keys m).Nodup) : (keys (mapRemove m h)).Nodup := by
  unfold keys mapRemove
  exact hn.sublist (List.Sublist.map _ List.filter_sublist)

theorem keys_insert (m : Map) (h : Nat) (o : Obj) : keys (mapInsert m h o) = h :: keys (mapRemove m h) := rfl

theorem keys_insert_nodup (m : Map) (h : Nat) (o : Obj) (hn : (keys m).Nodup) :
    (keys (mapInsert m h o)).Nodup := by
  rw [keys_insert, List.nodup_cons]
  exact ⟨fun hm => ((mem_keys_remove m h h).mp hm).2 rfl, keys_remove_nodup m h hn⟩

theorem mapGet_none_iff (m : Map) (h : Nat) : mapGet m h = none ↔ h ∉ keys m := by
  induction m with
  | nil => simp [mapGet, keys]
  | cons e m ih =>
    obtain ⟨k, v⟩ := e
    simp only [mapGet, keys] at ih ⊢
    by_cases hk : h = k
    · subst hk; simp
    · have : (h == k) = false := by simpa using hk
      simp [List.lookup_cons, this, hk, ih]

theorem mem_keys_of_mapGet {m : Map} {h : Nat} {o : Obj} (hg : mapGet m h = some o) : h ∈ keys m := by
  by_cases hn : h ∈ keys m
  · exact hn
  · rw [(mapGet_none_iff m h).mpr hn] at hg; cases hg

theorem get_set {α : Type} {l : List α} {t : Nat} {a b : α} (h : l[t]? = some a) (j : Nat) :
    (l.set t b)[j]? = if j = t then some b else l[j]? := by
  have hlt : t < l.length := by
    by_cases hn : t < l.length
    · exact hn
    · rw [List.getElem?_eq_none (by omega)] at h; cases h
  rw [List.getElem?_set]
  by_cases hj : j = t
  · subst hj; simp [hlt]
  · have : ¬ t = j := fun e => hj e.symm
    simp [hj, this]

/-! ### the seven shapes of a step -/

inductive StepRel (t : Nat) (c : Config) : Config → Prop
  | skip : c.threads[t]? = none → StepRel t c { c with now := c.now + 1 }
  | fin (th : Thread) : c.threads[t]? = some th → th.pend = .idle → th.prog = [] →
      StepRel t c ⟨c.counter, c.map, c.threads.set t th, c.now + 1, c.linLog, c.hist⟩
  | alloc (th : Thread) (o : Obj) (rest : List Op) : c.threads[t]? = some th → th.pend = .idle →
      th.prog = .create o :: rest →
      StepRel t c ⟨c.counter + 1, c.map, c.threads.set t ⟨rest, .creating o (c.counter + 1) c.now⟩,
        c.now + 1, c.linLog, c.hist⟩
  | insert (th : Thread) (o : Obj) (h i : Nat) : c.threads[t]? = some th → th.pend = .creating o h i →
      StepRel t c ⟨c.counter, mapInsert c.map h o, c.threads.set t ⟨th.prog, .idle⟩, c.now + 1,
        ⟨t, .create o, c.now, .handle h⟩ :: c.linLog, ⟨t, .create o, i, c.now, c.now, .handle h⟩ :: c.hist⟩
  | snap (th : Thread) (k : GetKind) (h : Nat) (rest : List Op) : c.threads[t]? = some th →
      th.pend = .idle → th.prog = .get k h :: rest →
      StepRel t c ⟨c.counter, c.map, c.threads.set t ⟨rest, .snap k h (mapGet c.map h) c.now⟩, c.now + 1,
        ⟨t, .get k h, c.now, useSnap k (mapGet c.map h)⟩ :: c.linLog, c.hist⟩
  | use (th : Thread) (k : GetKind) (h : Nat) (s : Option Obj) (i : Nat) : c.threads[t]? = some th →
      th.pend = .snap k h s i →
      StepRel t c ⟨c.counter, c.map, c.threads.set t ⟨th.prog, .idle⟩, c.now + 1, c.linLog,
        ⟨t, .get k h, i, i, c.now, useSnap k s⟩ :: c.hist⟩
  | free (th : Thread) (h : Nat) (rest : List Op) : c.threads[t]? = some th → th.pend = .idle →
      th.prog = .free h :: rest →
      StepRel t c ⟨c.counter, mapRemove c.map h, c.threads.set t ⟨rest, .idle⟩, c.now + 1,
        ⟨t, .free h, c.now, .unit⟩ :: c.linLog, ⟨t, .free h, c.now, c.now, c.now, .unit⟩ :: c.hist⟩

theorem stepRel (t : Nat) (c : Config) : StepRel t c (step t c) := by
  unfold step
  split
  next hn => exact .skip hn
  next th hth =>
    simp only [micro]
    split
    next o h i hp => exact .insert th o h i hth hp
    next k h s i hp => exact .use th k h s i hth hp
    next hp =>
      split
      next hprog => exact .fin th hth hp hprog
      next o rest hprog => exact .alloc th o rest hth hp hprog
      next k h rest hprog => exact .snap th k h rest hth hp hprog
      next h rest hprog => exact .free th h rest hth hp hprog

/-- a property preserved by every step holds along every run -/
theorem run_induction {P : Config → Prop} (hstep : ∀ t c c', StepRel t c c' → P c → P c')
    (s : Sched) (c : Config) (h : P c) : P (run s c) := by
  induction s generalizing c with
  | nil => exact h
  | cons t ts ih => exact ih _ (hstep t c _ (stepRel t c) h)


/-- handles returned by the completed `create` operations of a history -/
def createdHandles (hist : List Rec) : List Nat :=
  hist.filterMap (fun r => match r.result with | .handle h => some h | _ => none)

theorem useSnap_ne_handle (k : GetKind) (s : Option Obj) (h : Nat) : useSnap k s ≠ .handle h := by
  cases k <;> cases s <;> simp [useSnap]
  split <;> simp

theorem createdHandles_cons_of_ne (r : Rec) (hist : List Rec) (h : ∀ x, r.result ≠ .handle x) :
    createdHandles (r :: hist) = createdHandles hist := by
  unfold createdHandles
  rw [List.filterMap_cons]
  split
  · rfl
  · rename_i b hb
    split at hb
    · rename_i x hx; exact absurd hx (h x)
    · cases hb

/-- the basic invariant of the store (`C18_inv`) -/
structure Inv (c : Config) : Prop where
  /-- every key of the map was returned by a completed create -/
  keys_created : ∀ h ∈ keys c.map, h ∈ createdHandles c.hist
  keys_nodup : (keys c.map).Nodup
  /-- returned handles are bounded by the counter and non-zero -/
  ch_le : ∀ h ∈ createdHandles c.hist, h ≤ c.counter ∧ h ≠ 0
  ch_nodup : (createdHandles c.hist).Nodup
  /-- in-flight handles (allocated, not yet inserted) are bounded, non-zero, and were never returned -/
  fl : ∀ (t : Nat) (th : Thread) (o : Obj) (h i : Nat), c.threads[t]? = some th → th.pend = .creating o h i →
    h ≤ c.counter ∧ h ≠ 0 ∧ h ∉ createdHandles c.hist
  /-- in-flight handles of different threads are different -/
  fl_distinct : ∀ (t1 t2 : Nat) (th1 th2 : Thread) (o1 o2 : Obj) (h i1 i2 : Nat), c.threads[t1]? = some th1 → c.threads[t2]? = some th2 →
    th1.pend = .creating o1 h i1 → th2.pend = .creating o2 h i2 → t1 = t2

theorem inv_init (progs : List (List Op)) : Inv (initCfg progs) := by
  refine ⟨by simp [initCfg, keys], by simp [initCfg, keys], by simp [initCfg, createdHandles],
    by simp [initCfg, createdHandles], ?_, ?_⟩
  · intro t th o h i hth hp
    simp only [initCfg, List.getElem?_map] at hth
    cases hq : progs[t]? <;> simp [hq] at hth
    subst hth; simp at hp
  · intro t1 t2 th1 th2 o1 o2 h i1 i2 hth _ hp
    simp only [initCfg, List.getElem?_map] at hth
    cases hq : progs[t1]? <;> simp [hq] at hth
    subst hth; simp at hp

theorem inv_step {t : Nat} {c c' : Config} (hs : StepRel t c c') (i : Inv c) : Inv c' := by
  cases hs with
  | skip hn => exact ⟨i.keys_created, i.keys_nodup, i.ch_le, i.ch_nodup, i.fl, i.fl_distinct⟩
  | fin th hth hp hprog =>
    refine ⟨i.keys_created, i.keys_nodup, i.ch_le, i.ch_nodup, ?_, ?_⟩
    · intro t' th' o h j hth' hp'
      simp only [get_set hth] at hth'
      split at hth'
      · simp at hth'; subst hth'; simp [hp] at hp'
      · exact i.fl t' th' o h j hth' hp'
    · intro t1 t2 th1 th2 o1 o2 h i1 i2 h1 h2 p1 p2
      simp only [get_set hth] at h1 h2
      split at h1
      · simp at h1; subst h1; simp [hp] at p1
      · split at h2
        · simp at h2; subst h2; simp [hp] at p2
        · exact i.fl_distinct t1 t2 th1 th2 o1 o2 h i1 i2 h1 h2 p1 p2
  | alloc th o rest hth hp hprog =>
    refine ⟨i.keys_created, i.keys_nodup, ?_, i.ch_nodup, ?_, ?_⟩
    · intro h hh; have := i.ch_le h hh; exact ⟨by simp only; omega, this.2⟩
    · intro t' th' o' h j hth' hp'
      simp only [get_set hth] at hth'
      split at hth'
      · simp at hth'; subst hth'; simp at hp'
        obtain ⟨_, rfl, _⟩ := hp'
        refine ⟨Nat.le_refl _, by omega, fun hm => ?_⟩
        have := (i.ch_le _ hm).1; omega
      · have := i.fl t' th' o' h j hth' hp'
        exact ⟨by simp only; omega, this.2⟩
    · intro t1 t2 th1 th2 o1 o2 h i1 i2 h1 h2 p1 p2
      simp only [get_set hth] at h1 h2
      split at h1
      · split at h2
        · omega
        · simp at h1; subst h1; simp at p1
          obtain ⟨_, rfl, _⟩ := p1
          have := (i.fl t2 th2 o2 _ i2 h2 p2).1; omega
      · split at h2
        · simp at h2; subst h2; simp at p2
          obtain ⟨_, rfl, _⟩ := p2
          have := (i.fl t1 th1 o1 _ i1 h1 p1).1; omega
        · exact i.fl_distinct t1 t2 th1 th2 o1 o2 h i1 i2 h1 h2 p1 p2
  | insert th o h j hth hp =>
    have hfl := i.fl t th o h j hth hp
    have hch : createdHandles (⟨t, .create o, j, c.now, c.now, .handle h⟩ :: c.hist) = h :: createdHandles c.hist := by
      simp [createdHandles]
    refine ⟨?_, keys_insert_nodup _ _ _ i.keys_nodup, ?_, ?_, ?_, ?_⟩
    · intro x hx
      rw [hch]
      rw [keys_insert] at hx
      rcases List.mem_cons.mp hx with rfl | hx
      · simp
      · exact List.mem_cons_of_mem _ (i.keys_created x ((mem_keys_remove _ _ _).mp hx).1)
    · intro x hx
      rw [hch] at hx
      rcases List.mem_cons.mp hx with rfl | hx
      · exact ⟨hfl.1, hfl.2.1⟩
      · exact i.ch_le x hx
    · rw [hch]; exact List.nodup_cons.mpr ⟨hfl.2.2, i.ch_nodup⟩
    · intro t' th' o' h' j' hth' hp'
      simp only [get_set hth] at hth'
      split at hth'
      · simp at hth'; subst hth'; simp at hp'
      · rename_i hne
        have := i.fl t' th' o' h' j' hth' hp'
        refine ⟨this.1, this.2.1, ?_⟩
        rw [hch]
        intro hm
        rcases List.mem_cons.mp hm with rfl | hm
        · exact hne (i.fl_distinct t' t th' th o' o h' j' j hth' hth hp' hp)
        · exact this.2.2 hm
    · intro t1 t2 th1 th2 o1 o2 h' i1 i2 h1 h2 p1 p2
      simp only [get_set hth] at h1 h2
      split at h1
      · simp at h1; subst h1; simp at p1
      · split at h2
        · simp at h2; subst h2; simp at p2
        · exact i.fl_distinct t1 t2 th1 th2 o1 o2 h' i1 i2 h1 h2 p1 p2
  | snap th k h rest hth hp hprog =>
    refine ⟨i.keys_created, i.keys_nodup, i.ch_le, i.ch_nodup, ?_, ?_⟩
    · intro t' th' o h j hth' hp'
      simp only [get_set hth] at hth'
      split at hth'
      · simp at hth'; subst hth'; simp at hp'
      · exact i.fl t' th' o h j hth' hp'
    · intro t1 t2 th1 th2 o1 o2 h i1 i2 h1 h2 p1 p2
      simp only [get_set hth] at h1 h2
      split at h1
      · simp at h1; subst h1; simp at p1
      · split at h2
        · simp at h2; subst h2; simp at p2
        · exact i.fl_distinct t1 t2 th1 th2 o1 o2 h i1 i2 h1 h2 p1 p2
  | use th k h s j hth hp =>
    have hch : createdHandles (⟨t, .get k h, j, j, c.now, useSnap k s⟩ :: c.hist) = createdHandles c.hist := by
      exact createdHandles_cons_of_ne _ _ (fun x => useSnap_ne_handle k s x)
    refine ⟨by rw [hch]; exact i.keys_created, i.keys_nodup, by rw [hch]; exact i.ch_le, by rw [hch]; exact i.ch_nodup, ?_, ?_⟩
    · intro t' th' o h j hth' hp'
      rw [hch]
      simp only [get_set hth] at hth'
      split at hth'
      · simp at hth'; subst hth'; simp at hp'
      · exact i.fl t' th' o h j hth' hp'
    · intro t1 t2 th1 th2 o1 o2 h i1 i2 h1 h2 p1 p2
      simp only [get_set hth] at h1 h2
      split at h1
      · simp at h1; subst h1; simp at p1
      · split at h2
        · simp at h2; subst h2; simp at p2
        · exact i.fl_distinct t1 t2 th1 th2 o1 o2 h i1 i2 h1 h2 p1 p2
  | free th h rest hth hp hprog =>
    have hch : createdHandles (⟨t, .free h, c.now, c.now, c.now, .unit⟩ :: c.hist) = createdHandles c.hist := by
      simp [createdHandles]
    refine ⟨?_, keys_remove_nodup _ _ i.keys_nodup, by rw [hch]; exact i.ch_le, by rw [hch]; exact i.ch_nodup, ?_, ?_⟩
    · intro x hx; rw [hch]; exact i.keys_created x ((mem_keys_remove _ _ _).mp hx).1
    · intro t' th' o h j hth' hp'
      rw [hch]
      simp only [get_set hth] at hth'
      split at hth'
      · simp at hth'; subst hth'; simp at hp'
      · exact i.fl t' th' o h j hth' hp'
    · intro t1 t2 th1 th2 o1 o2 h i1 i2 h1 h2 p1 p2
      simp only [get_set hth] at h1 h2
      split at h1
      · simp at h1; subst h1; simp at p1
      · split at h2
        · simp at h2; subst h2; simp at p2
        · exact i.fl_distinct t1 t2 th1 th2 o1 o2 h i1 i2 h1 h2 p1 p2

end AnonModel.Store

import AnonModel.Gen.Consts
import AnonModel.Model.Ident
/-!
# C20: the regex literals and limits the identifier model was written for are the ones in `/repo` now

`Gen/Consts.lean` is regenerated from the sources on every run; these equalities tie the hand-transcribed
recognisers of `Model/Ident.lean` to the literals in `utils/validation.rs`. A change of a literal breaks the
equality even when the language is unchanged: the check then searches for a string the model and the code
classify differently (the c20 family varies every position of every form over all of ASCII).
-/
namespace AnonModel.GenConsts
open AnonModel.Gen

/-- C20: the five identifier patterns of `utils/validation.rs` are the ones `Model/Ident.lean` transcribes -/
theorem C20_regex_literals_unchanged :
    re_URI_IDENTIFIER = "^[a-zA-Z][a-zA-Z0-9\\+\\-\\.]*:.+$" ∧
    re_LEGACY_DID_IDENTIFIER = "^[1-9A-HJ-NP-Za-km-z]{21,22}$" ∧
    re_LEGACY_SCHEMA_IDENTIFIER = "^[1-9A-HJ-NP-Za-km-z]{21,22}:2:[^:]+:[0-9.]+$" ∧
    re_LEGACY_CRED_DEF_IDENTIFIER = "^[1-9A-HJ-NP-Za-km-z]{21,22}:3:CL:(([1-9][0-9]*)|([a-zA-Z0-9]{21,22}:2:[^:]+:[0-9.]+)):([^:]+)?$" ∧
    re_LEGACY_REV_REG_DEF_IDENTIFIER = "^[1-9A-HJ-NP-Za-km-z]{21,22}:4:[1-9A-HJ-NP-Za-km-z]{21,22}:3:CL:(([1-9][0-9]*)|([a-zA-Z0-9]{21,22}:2:[^:]+:[0-9.]+)):([^:]+):CL_ACCUM:([^:]+)?$" := by
  decide

/-- C20: `MAX_ATTRIBUTES_COUNT` -/
theorem C20_max_attributes_unchanged : maxAttributesCount = Ident.maxAttributesCount := by decide

end AnonModel.GenConsts

import AnonModel.Lemmas.Ident
/-!
# C20 — constructors and validation accept exactly the documented identifier grammar

The grammar is written down here declaratively (explicit decompositions `cs = a ++ ":2:" ++ b …`
with side conditions on the pieces), independently of the recognisers of `Model/Ident.lean`
(left-to-right scan for URIs, split on `':'` and component checks for the legacy forms).
The theorems say that each recogniser accepts exactly its grammar, for every string, and
then characterise `X::new` / `validate`, `Schema::validate` and `CredentialRequest::validate`.

Character classes are core's ASCII-only predicates: `Char.isAlpha` = `[a-zA-Z]`,
`Char.isDigit` = `[0-9]`, `Char.isAlphanum` = `[a-zA-Z0-9]`.
-/
namespace AnonModel.Ident

/-! ### the grammar -/

/-- scheme characters after the first: ASCII letters, digits, `+`, `-`, `.` -/
def IsSchemeChar (c : Char) : Prop := c.isAlphanum = true ∨ c = '+' ∨ c = '-' ∨ c = '.'

/-- **URI** (as far as the library checks): an ASCII letter, then scheme characters, then
`':'`, then a non-empty rest without line feed. Scheme characters exclude `':'`, so
`h :: t` is exactly the part before the first `':'`; the rest is otherwise arbitrary
(spaces, further colons, non-ASCII, control characters other than `'\n'`). -/
def IsUri (cs : List Char) : Prop :=
  ∃ h t rest, cs = h :: t ++ ':' :: rest ∧ h.isAlpha = true ∧ (∀ c ∈ t, IsSchemeChar c) ∧
    rest ≠ [] ∧ '\n' ∉ rest

/-- base58 alphabet: ASCII letters and digits except `0`, `O`, `I`, `l` -/
def IsBase58 (c : Char) : Prop := c.isAlphanum = true ∧ c ≠ '0' ∧ c ≠ 'O' ∧ c ≠ 'I' ∧ c ≠ 'l'

/-- **legacy DID**: 21 or 22 base58 characters -/
def IsLegacyDid (cs : List Char) : Prop :=
  (cs.length = 21 ∨ cs.length = 22) ∧ ∀ c ∈ cs, IsBase58 c

/-- a name or tag: non-empty, no `':'` (anything else, including `'\n'`, is allowed) -/
def IsName (cs : List Char) : Prop := cs ≠ [] ∧ ':' ∉ cs

/-- a version: non-empty, digits and dots in any arrangement (`"."`, `"1..2"` qualify) -/
def IsVersion (cs : List Char) : Prop := cs ≠ [] ∧ ∀ c ∈ cs, c.isDigit = true ∨ c = '.'

/-- a ledger sequence number: digits, not starting with `0` -/
def IsSeqNo (cs : List Char) : Prop :=
  ∃ h t, cs = h :: t ∧ h.isDigit = true ∧ h ≠ '0' ∧ ∀ c ∈ t, c.isDigit = true

/-- the issuer part of a schema id embedded in a credential-definition id: 21 or 22 ASCII
letters or digits (*not* restricted to base58) -/
def IsAlnumDid (cs : List Char) : Prop :=
  (cs.length = 21 ∨ cs.length = 22) ∧ ∀ c ∈ cs, c.isAlphanum = true

/-- **legacy schema id**: `DID:2:NAME:VERSION` -/
def IsLegacySchemaId (cs : List Char) : Prop :=
  ∃ did name ver, cs = did ++ ":2:".toList ++ name ++ ":".toList ++ ver ∧
    IsLegacyDid did ∧ IsName name ∧ IsVersion ver

/-- the schema reference inside a credential-definition id: a sequence number, or a
schema id whose issuer part is merely alphanumeric -/
def IsSchemaRef (cs : List Char) : Prop :=
  IsSeqNo cs ∨
  ∃ d name ver, cs = d ++ ":2:".toList ++ name ++ ":".toList ++ ver ∧
    IsAlnumDid d ∧ IsName name ∧ IsVersion ver

/-- **legacy credential-definition id**: `DID:3:CL:SCHEMAREF:TAG`, the tag possibly
empty (but its `':'` present) -/
def IsLegacyCredDefId (cs : List Char) : Prop :=
  ∃ did sref tag, cs = did ++ ":3:CL:".toList ++ sref ++ ":".toList ++ tag ∧
    IsLegacyDid did ∧ IsSchemaRef sref ∧ ':' ∉ tag

/-- **legacy revocation-registry-definition id**:
`DID:4:DID:3:CL:SCHEMAREF:TAG:CL_ACCUM:TAG2`, `TAG` non-empty, `TAG2` possibly empty -/
def IsLegacyRevRegDefId (cs : List Char) : Prop :=
  ∃ did did2 sref tag tag2,
    cs = did ++ ":4:".toList ++ did2 ++ ":3:CL:".toList ++ sref ++ ":".toList ++ tag ++
      ":CL_ACCUM:".toList ++ tag2 ∧
    IsLegacyDid did ∧ IsLegacyDid did2 ∧ IsSchemaRef sref ∧ IsName tag ∧ ':' ∉ tag2

/-- the legacy form belonging to each identifier type -/
def Legacy : IdKind → List Char → Prop
  | .issuer => IsLegacyDid
  | .schema => IsLegacySchemaId
  | .credDef => IsLegacyCredDefId
  | .revRegDef => IsLegacyRevRegDefId

/-! ### recognisers ↔ grammar, on character lists -/

private theorem did_iff (cs : List Char) : isDidL cs = true ↔ IsLegacyDid cs := isDidL_iff cs
private theorem alnumDid_iff (cs : List Char) : isAlnumDidL cs = true ↔ IsAlnumDid cs :=
  isAlnumDidL_iff cs
private theorem version_iff (cs : List Char) : isVersionL cs = true ↔ IsVersion cs :=
  isVersionL_iff cs
private theorem seqNo_iff (cs : List Char) : isSeqNoL cs = true ↔ IsSeqNo cs := isSeqNoL_iff cs

private theorem IsLegacyDid.noColon {cs : List Char} (h : IsLegacyDid cs) : ':' ∉ cs :=
  isDidL_noColon ((did_iff cs).mpr h)
private theorem IsAlnumDid.noColon {cs : List Char} (h : IsAlnumDid cs) : ':' ∉ cs :=
  isAlnumDidL_noColon ((alnumDid_iff cs).mpr h)
private theorem IsVersion.noColon {cs : List Char} (h : IsVersion cs) : ':' ∉ cs :=
  isVersionL_noColon ((version_iff cs).mpr h)
private theorem IsSeqNo.noColon {cs : List Char} (h : IsSeqNo cs) : ':' ∉ cs :=
  isSeqNoL_noColon ((seqNo_iff cs).mpr h)

private theorem isUriL_iff (cs : List Char) : isUriL cs = true ↔ IsUri cs := by
  cases cs with
  | nil => simp [isUriL, IsUri]
  | cons c cs =>
    simp only [isUriL, Bool.and_eq_true, isLetter_iff, uriTail_iff, IsUri, IsSchemeChar]
    constructor
    · rintro ⟨hc, t, rest, rfl, ht, hne, hnl⟩
      exact ⟨c, t, rest, by simp, hc, fun d hd => (isSchemeChar_iff d).mp (ht d hd), hne, hnl⟩
    · rintro ⟨h, t, rest, hcs, hh, ht, hne, hnl⟩
      simp only [List.cons_append, List.cons.injEq] at hcs
      obtain ⟨rfl, rfl⟩ := hcs
      exact ⟨hh, t, rest, rfl, fun d hd => (isSchemeChar_iff d).mpr (ht d hd), hne, hnl⟩

private theorem isLegacySchemaIdL_iff (cs : List Char) :
    isLegacySchemaIdL cs = true ↔ IsLegacySchemaId cs := by
  constructor
  · intro h
    unfold isLegacySchemaIdL at h
    split at h
    · rename_i did k name ver heq
      simp only [Bool.and_eq_true, beq_iff_eq] at h
      obtain ⟨⟨⟨hd, rfl⟩, hn⟩, hv⟩ := h
      obtain ⟨_, hnc, rfl⟩ := splitColon_eq_iff.mp heq
      exact ⟨did, name, ver, by simp [join], (did_iff did).mp hd,
        ⟨(isNameL_iff name).mp hn, hnc name (by simp)⟩, (version_iff ver).mp hv⟩
    · simp at h
  · rintro ⟨did, name, ver, rfl, hd, ⟨hn, hnc⟩, hv⟩
    have hs : splitColon (did ++ ":2:".toList ++ name ++ ":".toList ++ ver) =
        [did, ['2'], name, ver] :=
      splitColon_eq_iff.mpr ⟨by simp, by simp [hd.noColon, hnc, hv.noColon], by simp [join]⟩
    unfold isLegacySchemaIdL; rw [hs]
    simp [(did_iff did).mpr hd, (isNameL_iff name).mpr hn, (version_iff ver).mpr hv]

private theorem isLegacyCredDefIdL_iff (cs : List Char) :
    isLegacyCredDefIdL cs = true ↔ IsLegacyCredDefId cs := by
  constructor
  · intro h
    unfold isLegacyCredDefIdL at h
    split at h
    · rename_i did k cl seq tag heq
      simp only [Bool.and_eq_true, beq_iff_eq] at h
      obtain ⟨⟨⟨hd, rfl⟩, rfl⟩, hseq⟩ := h
      obtain ⟨_, hnc, rfl⟩ := splitColon_eq_iff.mp heq
      exact ⟨did, seq, tag, by simp [join], (did_iff did).mp hd,
        Or.inl ((seqNo_iff seq).mp hseq), hnc tag (by simp)⟩
    · rename_i did k cl sdid k2 name ver tag heq
      simp only [Bool.and_eq_true, beq_iff_eq] at h
      obtain ⟨⟨⟨⟨⟨⟨hd, rfl⟩, rfl⟩, hsd⟩, rfl⟩, hn⟩, hv⟩ := h
      obtain ⟨_, hnc, rfl⟩ := splitColon_eq_iff.mp heq
      refine ⟨did, sdid ++ ":2:".toList ++ name ++ ":".toList ++ ver, tag, by simp [join],
        (did_iff did).mp hd, Or.inr ⟨sdid, name, ver, rfl, (alnumDid_iff sdid).mp hsd,
          ⟨(isNameL_iff name).mp hn, hnc name (by simp)⟩, (version_iff ver).mp hv⟩,
        hnc tag (by simp)⟩
    · simp at h
  · rintro ⟨did, sref, tag, rfl, hd, hsr, htag⟩
    rcases hsr with hseq | ⟨sdid, name, ver, rfl, hsd, ⟨hn, hnc⟩, hv⟩
    · have hs : splitColon (did ++ ":3:CL:".toList ++ sref ++ ":".toList ++ tag) =
          [did, ['3'], ['C', 'L'], sref, tag] :=
        splitColon_eq_iff.mpr ⟨by simp, by simp [hd.noColon, hseq.noColon, htag], by simp [join]⟩
      unfold isLegacyCredDefIdL; rw [hs]
      simp [(did_iff did).mpr hd, (seqNo_iff sref).mpr hseq]
    · have hs : splitColon (did ++ ":3:CL:".toList ++
            (sdid ++ ":2:".toList ++ name ++ ":".toList ++ ver) ++ ":".toList ++ tag) =
          [did, ['3'], ['C', 'L'], sdid, ['2'], name, ver, tag] :=
        splitColon_eq_iff.mpr ⟨by simp,
          by simp [hd.noColon, hsd.noColon, hnc, hv.noColon, htag], by simp [join]⟩
      unfold isLegacyCredDefIdL; rw [hs]
      simp [(did_iff did).mpr hd, (alnumDid_iff sdid).mpr hsd,
        (isNameL_iff name).mpr hn, (version_iff ver).mpr hv]

private theorem isLegacyRevRegDefIdL_iff (cs : List Char) :
    isLegacyRevRegDefIdL cs = true ↔ IsLegacyRevRegDefId cs := by
  constructor
  · intro h
    unfold isLegacyRevRegDefIdL at h
    split at h
    · rename_i did k did2 k3 cl seq tag acc tag2 heq
      simp only [Bool.and_eq_true, beq_iff_eq] at h
      obtain ⟨⟨⟨⟨⟨⟨⟨hd, rfl⟩, hd2⟩, rfl⟩, rfl⟩, hseq⟩, ht⟩, rfl⟩ := h
      obtain ⟨_, hnc, rfl⟩ := splitColon_eq_iff.mp heq
      exact ⟨did, did2, seq, tag, tag2, by simp [join], (did_iff did).mp hd,
        (did_iff did2).mp hd2, Or.inl ((seqNo_iff seq).mp hseq),
        ⟨(isNameL_iff tag).mp ht, hnc tag (by simp)⟩, hnc tag2 (by simp)⟩
    · rename_i did k did2 k3 cl sdid k2 name ver tag acc tag2 heq
      simp only [Bool.and_eq_true, beq_iff_eq] at h
      obtain ⟨⟨⟨⟨⟨⟨⟨⟨⟨⟨hd, rfl⟩, hd2⟩, rfl⟩, rfl⟩, hsd⟩, rfl⟩, hn⟩, hv⟩, ht⟩, rfl⟩ := h
      obtain ⟨_, hnc, rfl⟩ := splitColon_eq_iff.mp heq
      refine ⟨did, did2, sdid ++ ":2:".toList ++ name ++ ":".toList ++ ver, tag, tag2,
        by simp [join], (did_iff did).mp hd, (did_iff did2).mp hd2,
        Or.inr ⟨sdid, name, ver, rfl, (alnumDid_iff sdid).mp hsd,
          ⟨(isNameL_iff name).mp hn, hnc name (by simp)⟩, (version_iff ver).mp hv⟩,
        ⟨(isNameL_iff tag).mp ht, hnc tag (by simp)⟩, hnc tag2 (by simp)⟩
    · simp at h
  · rintro ⟨did, did2, sref, tag, tag2, rfl, hd, hd2, hsr, ⟨ht, htnc⟩, htag2⟩
    rcases hsr with hseq | ⟨sdid, name, ver, rfl, hsd, ⟨hn, hnc⟩, hv⟩
    · have hs : splitColon (did ++ ":4:".toList ++ did2 ++ ":3:CL:".toList ++ sref ++
            ":".toList ++ tag ++ ":CL_ACCUM:".toList ++ tag2) =
          [did, ['4'], did2, ['3'], ['C', 'L'], sref, tag,
            ['C', 'L', '_', 'A', 'C', 'C', 'U', 'M'], tag2] :=
        splitColon_eq_iff.mpr ⟨by simp,
          by simp [hd.noColon, hd2.noColon, hseq.noColon, htnc, htag2], by simp [join]⟩
      unfold isLegacyRevRegDefIdL; rw [hs]
      simp [(did_iff did).mpr hd, (did_iff did2).mpr hd2,
        (seqNo_iff sref).mpr hseq, (isNameL_iff tag).mpr ht]
    · have hs : splitColon (did ++ ":4:".toList ++ did2 ++ ":3:CL:".toList ++
            (sdid ++ ":2:".toList ++ name ++ ":".toList ++ ver) ++
            ":".toList ++ tag ++ ":CL_ACCUM:".toList ++ tag2) =
          [did, ['4'], did2, ['3'], ['C', 'L'], sdid, ['2'], name, ver, tag,
            ['C', 'L', '_', 'A', 'C', 'C', 'U', 'M'], tag2] :=
        splitColon_eq_iff.mpr ⟨by simp,
          by simp [hd.noColon, hd2.noColon, hsd.noColon, hnc, hv.noColon, htnc, htag2],
          by simp [join]⟩
      unfold isLegacyRevRegDefIdL; rw [hs]
      simp [(did_iff did).mpr hd, (did_iff did2).mpr hd2,
        (alnumDid_iff sdid).mpr hsd, (isNameL_iff name).mpr hn, (version_iff ver).mpr hv,
        (isNameL_iff tag).mpr ht]

/-! ### the five patterns -/

/-- `URI_IDENTIFIER` matches a string iff it is: ASCII letter, scheme characters, `':'`,
non-empty rest without line feed. -/
theorem C20_uri_iff (s : String) : isUri s = true ↔ IsUri s.toList := isUriL_iff _

/-- `LEGACY_DID_IDENTIFIER` matches a string iff it is 21 or 22 base58 characters. -/
theorem C20_legacyDid_iff (s : String) : isLegacyDid s = true ↔ IsLegacyDid s.toList :=
  did_iff _

/-- `LEGACY_SCHEMA_IDENTIFIER` matches a string iff it is `DID:2:NAME:VERSION`. -/
theorem C20_legacySchema_iff (s : String) :
    isLegacySchemaId s = true ↔ IsLegacySchemaId s.toList := isLegacySchemaIdL_iff _

/-- `LEGACY_CRED_DEF_IDENTIFIER` matches a string iff it is `DID:3:CL:SCHEMAREF:TAG` with
`SCHEMAREF` a sequence number or an (alphanumeric-issuer) schema id and `TAG` possibly empty. -/
theorem C20_legacyCredDef_iff (s : String) :
    isLegacyCredDefId s = true ↔ IsLegacyCredDefId s.toList := isLegacyCredDefIdL_iff _

/-- `LEGACY_REV_REG_DEF_IDENTIFIER` matches a string iff it is
`DID:4:DID:3:CL:SCHEMAREF:TAG:CL_ACCUM:TAG2` with `TAG` non-empty and `TAG2` possibly empty. -/
theorem C20_legacyRevReg_iff (s : String) :
    isLegacyRevRegDefId s = true ↔ IsLegacyRevRegDefId s.toList := isLegacyRevRegDefIdL_iff _

/-! ### constructors and validation -/

/-- `X::new(s)` succeeds / `validate` passes, for each of the four identifier types, iff
`s` is a URI or the legacy form of that type. -/
theorem C20_id_valid_iff (k : IdKind) (s : String) :
    idValid k s = true ↔ IsUri s.toList ∨ Legacy k s.toList := by
  cases k <;>
    simp only [idValid, isLegacy, Legacy, Bool.or_eq_true, C20_uri_iff, C20_legacyDid_iff,
      C20_legacySchema_iff, C20_legacyCredDef_iff, C20_legacyRevReg_iff]

/-- the two alternatives never overlap for issuer ids (a legacy DID has no `':'`); they do
overlap for the three other types — see the examples at the end. -/
theorem C20_legacyDid_not_uri {cs : List Char} (h : IsLegacyDid cs) : ¬ IsUri cs := by
  rintro ⟨c, t, rest, rfl, _⟩
  exact h.noColon (by simp)

/-- `AttributeNames::validate` passes iff there are between 1 and 125 names, all distinct. -/
theorem C20_attr_names_valid_iff (names : List String) :
    attrNamesValid names = true ↔ 1 ≤ names.length ∧ names.length ≤ 125 ∧ names.Nodup := by
  have hf : allFresh [] names = true ↔ names.Nodup := by
    rw [allFresh_iff]; simp
  have key : attrNamesValid names =
      (allFresh [] names && !names.isEmpty && decide (names.length ≤ 125)) := by
    unfold attrNamesValid maxAttributesCount
    cases allFresh [] names <;> cases names.isEmpty <;> simp
    by_cases h : names.length ≤ 125
    · simp [h, Nat.not_lt.mpr h]
    · simp [h, Nat.not_le.mp h]
  rw [key]
  simp only [Bool.and_eq_true, hf, Bool.not_eq_true', List.isEmpty_eq_false_iff,
    decide_eq_true_eq]
  constructor
  · rintro ⟨⟨hn, hne⟩, hl⟩
    exact ⟨List.length_pos_iff.mpr hne, hl, hn⟩
  · rintro ⟨h1, hl, hn⟩
    exact ⟨⟨hn, List.length_pos_iff.mp h1⟩, hl⟩

/-- `Schema::validate` passes (and `create_schema` returns a schema) iff the issuer id is
valid and there are between 1 and 125 distinct attribute names. Schema name and version
are unconstrained. -/
theorem C20_schema_valid_iff (iss : String) (names : List String) :
    schemaValid iss names = true ↔
      idValid .issuer iss = true ∧ 1 ≤ names.length ∧ names.length ≤ 125 ∧ names.Nodup := by
  unfold schemaValid
  cases h : idValid .issuer iss <;> simp [C20_attr_names_valid_iff]

/-- `CredentialRequest::validate` passes iff the credential-definition id is valid and
either entropy is given without a prover DID, or no entropy is given, the
credential-definition id matches the *legacy* pattern (whether or not it is also a URI),
and a prover DID is given that is a URI or a legacy DID. -/
theorem C20_credreq_valid_iff (entropy proverDid : Option String) (cd : String) :
    credReqValid entropy proverDid cd = true ↔
      idValid .credDef cd = true ∧
      ((entropy.isSome = true ∧ proverDid = none) ∨
       (entropy = none ∧ IsLegacyCredDefId cd.toList ∧
          ∃ d, proverDid = some d ∧ (IsUri d.toList ∨ IsLegacyDid d.toList))) := by
  unfold credReqValid
  cases hv : idValid .credDef cd
  · simp
  · cases entropy with
    | some e => cases proverDid <;> simp
    | none =>
      cases hl : isLegacyCredDefId cd with
      | false =>
        have : ¬ IsLegacyCredDefId cd.toList := by
          rw [← C20_legacyCredDef_iff, hl]; simp
        simp [this]
      | true =>
        have : IsLegacyCredDefId cd.toList := (C20_legacyCredDef_iff cd).mp hl
        cases proverDid with
        | none => simp
        | some d => simp [this, C20_uri_iff, C20_legacyDid_iff]

/-- in particular an accepted request carries exactly one of entropy and prover DID -/
theorem C20_credreq_exactly_one {entropy proverDid : Option String} {cd : String}
    (h : credReqValid entropy proverDid cd = true) :
    (entropy.isSome = true ∧ proverDid.isSome = false) ∨
      (entropy.isSome = false ∧ proverDid.isSome = true) := by
  rcases ((C20_credreq_valid_iff _ _ _).mp h).2 with ⟨he, rfl⟩ | ⟨rfl, _, d, rfl, _⟩
  · exact Or.inl ⟨he, rfl⟩
  · exact Or.inr ⟨rfl, rfl⟩

/-! ### non-vacuity: concrete strings on both sides of every boundary -/

-- URIs
example : IsUri "did:web:x".toList := (C20_uri_iff _).mp (by decide)
example : IsUri "mock:uri".toList := (C20_uri_iff _).mp (by decide)
example : IsUri "a+-.9: ".toList := (C20_uri_iff _).mp (by decide)
example : IsUri "a:::".toList := (C20_uri_iff _).mp (by decide)
example : ¬ IsUri "::::".toList := fun h => absurd ((C20_uri_iff _).mpr h) (by decide)
example : ¬ IsUri "a:".toList := fun h => absurd ((C20_uri_iff _).mpr h) (by decide)
example : ¬ IsUri "a:\n".toList := fun h => absurd ((C20_uri_iff _).mpr h) (by decide)
example : ¬ IsUri "a:b\n".toList := fun h => absurd ((C20_uri_iff _).mpr h) (by decide)
example : ¬ IsUri "1a:b".toList := fun h => absurd ((C20_uri_iff _).mpr h) (by decide)
example : ¬ IsUri "a_b:c".toList := fun h => absurd ((C20_uri_iff _).mpr h) (by decide)
example : ¬ IsUri "é:c".toList := fun h => absurd ((C20_uri_iff _).mpr h) (by decide)
example : ¬ IsUri "NcYxiDXkpYi6ov5FcYDi1e".toList :=
  fun h => absurd ((C20_uri_iff _).mpr h) (by decide)

-- legacy DIDs: 21 and 22 accepted, 20 and 23 rejected, `0` rejected
example : IsLegacyDid "NcYxiDXkpYi6ov5FcYDi1e".toList := (C20_legacyDid_iff _).mp (by decide)
example : IsLegacyDid "NcYxiDXkpYi6ov5FcYDi1".toList := (C20_legacyDid_iff _).mp (by decide)
example : ¬ IsLegacyDid "NcYxiDXkpYi6ov5FcYDi".toList :=
  fun h => absurd ((C20_legacyDid_iff _).mpr h) (by decide)
example : ¬ IsLegacyDid "NcYxiDXkpYi6ov5FcYDi1e2".toList :=
  fun h => absurd ((C20_legacyDid_iff _).mpr h) (by decide)
example : ¬ IsLegacyDid "NcYxiDXkpYi6ov5FcYDi10".toList :=
  fun h => absurd ((C20_legacyDid_iff _).mpr h) (by decide)
example : ¬ IsLegacyDid "NcYxiDXkpYi6ov5FcYDi1e\n".toList :=
  fun h => absurd ((C20_legacyDid_iff _).mpr h) (by decide)

-- legacy schema ids
example : IsLegacySchemaId "DXoTtQJNtXtiwWaZAK3rB1:2:example:1.0".toList :=
  (C20_legacySchema_iff _).mp (by decide)
example : IsLegacySchemaId "DXoTtQJNtXtiwWaZAK3rB1:2:a b\n:..".toList :=
  (C20_legacySchema_iff _).mp (by decide)
example : ¬ IsLegacySchemaId "DXoTtQJNtXtiwWaZAK3rB1:3:example:1.0".toList :=
  fun h => absurd ((C20_legacySchema_iff _).mpr h) (by decide)
example : ¬ IsLegacySchemaId "DXoTtQJNtXtiwWaZAK3rB1:2::1.0".toList :=
  fun h => absurd ((C20_legacySchema_iff _).mpr h) (by decide)
example : ¬ IsLegacySchemaId "DXoTtQJNtXtiwWaZAK3rB1:2:example:1.0a".toList :=
  fun h => absurd ((C20_legacySchema_iff _).mpr h) (by decide)

-- legacy credential-definition ids (both kinds of schema reference, empty tag)
example : IsLegacyCredDefId "DXoTtQJNtXtiwWaZAK3rB1:3:CL:98153:default".toList :=
  (C20_legacyCredDef_iff _).mp (by decide)
example : IsLegacyCredDefId "DXoTtQJNtXtiwWaZAK3rB1:3:CL:98153:".toList :=
  (C20_legacyCredDef_iff _).mp (by decide)
example : IsLegacyCredDefId
    "DXoTtQJNtXtiwWaZAK3rB1:3:CL:DXoTtQJNtXtiwWaZAK3rB1:2:example:1.0:default".toList :=
  (C20_legacyCredDef_iff _).mp (by decide)
example : IsLegacyCredDefId
    "DXoTtQJNtXtiwWaZAK3rB1:3:CL:0OIl0OIl0OIl0OIl0OIl00:2:example:1.0:".toList :=
  (C20_legacyCredDef_iff _).mp (by decide)
example : ¬ IsLegacyCredDefId "DXoTtQJNtXtiwWaZAK3rB1:3:CL:98153".toList :=
  fun h => absurd ((C20_legacyCredDef_iff _).mpr h) (by decide)
example : ¬ IsLegacyCredDefId "DXoTtQJNtXtiwWaZAK3rB1:3:CL:098153:default".toList :=
  fun h => absurd ((C20_legacyCredDef_iff _).mpr h) (by decide)
example : ¬ IsLegacyCredDefId "DXoTtQJNtXtiwWaZAK3rB1:4:CL:98153:default".toList :=
  fun h => absurd ((C20_legacyCredDef_iff _).mpr h) (by decide)
example : ¬ IsLegacyCredDefId "DXoTtQJNtXtiwWaZAK3rB1:3:CL:98153:a:b".toList :=
  fun h => absurd ((C20_legacyCredDef_iff _).mpr h) (by decide)

-- legacy revocation-registry-definition ids (the first is the one of the Rust unit test)
example : IsLegacyRevRegDefId
    "DXoTtQJNtXtiwWaZAK3rB1:4:DXoTtQJNtXtiwWaZAK3rB1:3:CL:288602:example:CL_ACCUM:default".toList :=
  (C20_legacyRevReg_iff _).mp (by decide)
example : IsLegacyRevRegDefId
    "DXoTtQJNtXtiwWaZAK3rB1:4:DXoTtQJNtXtiwWaZAK3rB1:3:CL:DXoTtQJNtXtiwWaZAK3rB1:2:example:1.0:tag:CL_ACCUM:".toList :=
  (C20_legacyRevReg_iff _).mp (by decide)
example : ¬ IsLegacyRevRegDefId
    "DXoTtQJNtXtiwWaZAK3rB1:5:DXoTtQJNtXtiwWaZAK3rB1:3:CL:288602:example:CL_ACCUM:default".toList :=
  fun h => absurd ((C20_legacyRevReg_iff _).mpr h) (by decide)
example : ¬ IsLegacyRevRegDefId
    "DXoTtQJNtXtiwWaZAK3rB1:4:DXoTtQJNtXtiwWaZAK3rB1:3:CL:288602::CL_ACCUM:default".toList :=
  fun h => absurd ((C20_legacyRevReg_iff _).mpr h) (by decide)
example : ¬ IsLegacyRevRegDefId
    "DXoTtQJNtXtiwWaZAK3rB1:4:DXoTtQJNtXtiwWaZAK3rB1:3:CL:288602:example:CL_ACCUM".toList :=
  fun h => absurd ((C20_legacyRevReg_iff _).mpr h) (by decide)

-- identifier types: each accepts URIs and its own legacy form, not the others'
example : idValid .issuer "did:web:x" = true := by decide
example : idValid .issuer "NcYxiDXkpYi6ov5FcYDi1e" = true := by decide
example : idValid .issuer "bob" = false := by decide
example : idValid .schema "NcYxiDXkpYi6ov5FcYDi1e" = false := by decide
example : idValid .schema "7BPMqYgYLQni258J8JPS8K:2:n:1" = true := by decide
example : idValid .issuer "7BPMqYgYLQni258J8JPS8K:2:n:1" = false := by decide
example : idValid .credDef "7BPMqYgYLQni258J8JPS8K:3:CL:7:" = true := by decide
example : idValid .revRegDef "7BPMqYgYLQni258J8JPS8K:3:CL:7:" = false := by decide
-- a legacy id whose DID starts with a letter is *also* a URI (scheme = the DID) …
example : isUri "DXoTtQJNtXtiwWaZAK3rB1:3:CL:98153:default" = true := by decide
example : idValid .issuer "DXoTtQJNtXtiwWaZAK3rB1:3:CL:98153:default" = true := by decide
-- … unless a name or tag contains a line feed, which only the legacy pattern tolerates
example : isUri "DXoTtQJNtXtiwWaZAK3rB1:3:CL:98153:de\nfault" = false := by decide
example : isLegacyCredDefId "DXoTtQJNtXtiwWaZAK3rB1:3:CL:98153:de\nfault" = true := by decide

-- schema
example : schemaValid "mock:uri" ["aaa", "bbb", "ccc"] = true := by decide
example : schemaValid "mock:uri" [] = false := by decide
example : schemaValid "mock:uri" ["a", "b", "a"] = false := by decide
example : schemaValid "bob" ["a"] = false := by decide
-- 125 distinct names ("0" … "124") are accepted, 126 are not
private theorem natRepr_inj {a b : Nat} (h : Nat.repr a = Nat.repr b) : a = b := by
  have := congrArg (fun s => Nat.ofDigitChars 10 s.toList 0) h
  simpa [Nat.toList_repr, Nat.ofDigitChars_ten_toDigits] using this
example : attrNamesValid ((List.range 125).map Nat.repr) = true :=
  (C20_attr_names_valid_iff _).mpr ⟨by simp, by simp,
    List.Pairwise.map _ (fun _ _ h e => h (natRepr_inj e)) List.nodup_range⟩
example : attrNamesValid ((List.range 126).map Nat.repr) = false := by
  cases h : attrNamesValid ((List.range 126).map Nat.repr) with
  | false => rfl
  | true => have := ((C20_attr_names_valid_iff _).mp h).2.1; simp at this

-- credential request
example : credReqValid (some "entropy") none "mock:uri" = true := by decide
example : credReqValid (some "entropy") none "DXoTtQJNtXtiwWaZAK3rB1:3:CL:98153:default" = true := by
  decide
example : credReqValid none (some "DXoTtQJNtXtiwWaZAK3rB1")
    "DXoTtQJNtXtiwWaZAK3rB1:3:CL:98153:default" = true := by decide
example : credReqValid none (some "mock:uri")
    "DXoTtQJNtXtiwWaZAK3rB1:3:CL:98153:default" = true := by decide
example : credReqValid none (some "DXoTtQJNtXtiwWaZAK3rB1") "mock:uri" = false := by decide
example : credReqValid (some "entropy") (some "DXoTtQJNtXtiwWaZAK3rB1")
    "DXoTtQJNtXtiwWaZAK3rB1:3:CL:98153:default" = false := by decide
example : credReqValid none (some "entropy")
    "DXoTtQJNtXtiwWaZAK3rB1:3:CL:98153:default" = false := by decide
example : credReqValid none none "DXoTtQJNtXtiwWaZAK3rB1:3:CL:98153:default" = false := by decide
example : credReqValid (some "entropy") none "bob" = false := by decide

end AnonModel.Ident

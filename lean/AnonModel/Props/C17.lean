import AnonModel.Gen.Ffi
/-!
# C17 — the C ABI: every entry point is wrapped and guards its result pointers

Theorems by `decide` over the table regenerated from `src/ffi/**` on every run (`Gen/Ffi.lean`).
"Decisions equal to the native ones" is established by the correspondence runs only (flows driven
natively and through the exported symbols), not by a theorem.
-/
namespace AnonModel.Ffi
open AnonModel.Gen

/-- result / out parameters: raw `*mut` pointers the function writes through -/
def _root_.AnonModel.Gen.FfiEntry.outParams (f : FfiEntry) : List String :=
  (f.params.filter (fun p => "*mut".toList.isPrefixOf p.2.toList)).map Prod.fst

/-- entry points that return nothing and take no result pointer: destructors and the version string -/
def noResult : List String :=
  ["anoncreds_buffer_free", "anoncreds_object_free", "anoncreds_string_free", "anoncreds_version"]

/-- `anoncreds_get_current_error` cannot itself be wrapped in `catch_error` (it reads the slot `catch_error`
writes); it guards its pointer explicitly and calls nothing that can fail -/
def selfGuarded : List String := ["anoncreds_get_current_error"]

/-- every entry point that reports through an error code runs its whole body inside `catch_error`
(which turns `Err` and panics into a non-zero code and stores the message) -/
theorem C17_all_wrapped :
    ∀ f ∈ ffiEntries, f.returnsErrorCode = true → f.wrapped = true ∨ f.name ∈ selfGuarded := by decide

/-- every pointer an entry point writes through is null-checked first -/
theorem C17_all_out_pointers_guarded :
    ∀ f ∈ ffiEntries, ∀ p ∈ f.writes, p ∈ f.checked := by decide

/-- every `*mut` parameter of an error-code entry point is null-checked (whether or not a write was found) -/
theorem C17_all_result_params_checked :
    ∀ f ∈ ffiEntries, f.returnsErrorCode = true → ∀ p ∈ f.outParams, p ∈ f.checked := by decide

/-- the only entry points without an error code are the destructors and the version getter -/
theorem C17_no_result_functions :
    ∀ f ∈ ffiEntries, f.returnsErrorCode = false → f.name ∈ noResult := by decide

/-- the macro template behind every `*_from_json` entry point has guard and wrapper -/
theorem C17_from_json_template_guarded : fromJsonTemplateGuarded = true := by decide

example : (ffiEntries.filter (fun f => f.returnsErrorCode)).length ≥ 40 := by decide

end AnonModel.Ffi

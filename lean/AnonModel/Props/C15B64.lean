import AnonModel.Model.Base64
/-!
# C15 — the base64 layer of every W3C proof value is lossless and has one spelling per value

"can be serialised and deserialised … without changing any later outcome, and serialising the deserialised object again
yields the same document … including msgpack/base64 proof values": for the base64url layer this is a theorem for every
byte string and every text.
-/
namespace AnonModel.Base64

/-! ## the alphabet -/

theorem alphabet_length : alphabet.length = 64 := by decide

theorem valOf_charOf_fin : ∀ n : Fin 64, valOf (charOf n.val) = some n.val := by decide

theorem valOf_charOf {n : Nat} (h : n < 64) : valOf (charOf n) = some n := valOf_charOf_fin ⟨n, h⟩

theorem valOf_some {c : Char} {n : Nat} (h : valOf c = some n) : n < 64 ∧ charOf n = c := by
  unfold valOf at h
  simp only at h
  split at h
  · next hi =>
    have hn : alphabet.idxOf c = n := by simpa using h
    subst hn
    refine ⟨hi, ?_⟩
    have hl : alphabet.idxOf c < alphabet.length := by rw [alphabet_length]; exact hi
    unfold charOf
    rw [List.getD_eq_getElem?_getD, List.getElem?_eq_getElem hl]
    simp [List.getElem_idxOf hl]
  · cases h

/-! ## sextets -/

def AllLt (k : Nat) (l : List Nat) : Prop := ∀ x ∈ l, x < k

theorem encodeVals_lt : ∀ (bs : List Nat), AllLt 256 bs → AllLt 64 (encodeVals bs)
  | [], _ => by simp [encodeVals, AllLt]
  | [a], h => by
    have := h a (by simp)
    simp only [encodeVals, AllLt, List.mem_cons, List.not_mem_nil, or_false, forall_eq_or_imp, forall_eq]
    omega
  | [a, b], h => by
    have := h a (by simp); have := h b (by simp)
    simp only [encodeVals, AllLt, List.mem_cons, List.not_mem_nil, or_false, forall_eq_or_imp, forall_eq]
    omega
  | a :: b :: c :: rest, h => by
    have ha := h a (by simp); have hb := h b (by simp); have hc := h c (by simp)
    have ih := encodeVals_lt rest (fun x hx => h x (by simp [hx]))
    intro x hx
    simp only [encodeVals, List.mem_cons] at hx
    rcases hx with rfl | rfl | rfl | rfl | hx
    · omega
    · omega
    · omega
    · omega
    · exact ih x hx

theorem decodeVals_encodeVals : ∀ (bs : List Nat), AllLt 256 bs → decodeVals (encodeVals bs) = some bs
  | [], _ => rfl
  | [a], h => by
    have := h a (by simp)
    have h1 : a % 4 * 16 % 16 = 0 := by omega
    have h2 : a / 4 * 4 + a % 4 * 16 / 16 = a := by omega
    simp only [encodeVals, decodeVals, h1, h2, ↓reduceIte]
  | [a, b], h => by
    have := h a (by simp); have := h b (by simp)
    have h1 : b % 16 * 4 % 4 = 0 := by omega
    have h2 : a / 4 * 4 + (a % 4 * 16 + b / 16) / 16 = a := by omega
    have h3 : (a % 4 * 16 + b / 16) % 16 * 16 + b % 16 * 4 / 4 = b := by omega
    simp only [encodeVals, decodeVals, h1, h2, h3, ↓reduceIte]
  | a :: b :: c :: rest, h => by
    have ha := h a (by simp); have hb := h b (by simp); have hc := h c (by simp)
    have ih := decodeVals_encodeVals rest (fun x hx => h x (by simp [hx]))
    have h2 : a / 4 * 4 + (a % 4 * 16 + b / 16) / 16 = a := by omega
    have h3 : (a % 4 * 16 + b / 16) % 16 * 16 + (b % 16 * 4 + c / 64) / 4 = b := by omega
    have h4 : (b % 16 * 4 + c / 64) % 4 * 64 + c % 64 = c := by omega
    simp only [encodeVals, decodeVals, ih, h2, h3, h4, Option.map_some]

theorem encodeVals_decodeVals : ∀ (ss bs : List Nat), AllLt 64 ss → decodeVals ss = some bs →
    encodeVals bs = ss ∧ AllLt 256 bs
  | [], bs, _, h => by
    have : bs = [] := by simpa [decodeVals] using h.symm
    subst this; exact ⟨rfl, by simp [AllLt]⟩
  | [_], _, _, h => by simp [decodeVals] at h
  | [s0, s1], bs, hl, h => by
    have := hl s0 (by simp); have := hl s1 (by simp)
    simp only [decodeVals] at h
    split at h
    · next hz =>
      have : bs = [s0 * 4 + s1 / 16] := by simpa using h.symm
      subst this
      refine ⟨?_, ?_⟩
      · have e1 : (s0 * 4 + s1 / 16) / 4 = s0 := by omega
        have e2 : (s0 * 4 + s1 / 16) % 4 * 16 = s1 := by omega
        simp only [encodeVals, e1, e2]
      · intro x hx; simp at hx; omega
    · cases h
  | [s0, s1, s2], bs, hl, h => by
    have := hl s0 (by simp); have := hl s1 (by simp); have := hl s2 (by simp)
    simp only [decodeVals] at h
    split at h
    · next hz =>
      have : bs = [s0 * 4 + s1 / 16, (s1 % 16) * 16 + s2 / 4] := by simpa using h.symm
      subst this
      refine ⟨?_, ?_⟩
      · have e1 : (s0 * 4 + s1 / 16) / 4 = s0 := by omega
        have e2 : (s0 * 4 + s1 / 16) % 4 * 16 + (s1 % 16 * 16 + s2 / 4) / 16 = s1 := by omega
        have e3 : (s1 % 16 * 16 + s2 / 4) % 16 * 4 = s2 := by omega
        simp only [encodeVals, e1, e2, e3]
      · intro x hx; simp at hx; rcases hx with rfl | rfl <;> omega
    · cases h
  | s0 :: s1 :: s2 :: s3 :: rest, bs, hl, h => by
    have h0 := hl s0 (by simp); have h1 := hl s1 (by simp); have h2 := hl s2 (by simp); have h3 := hl s3 (by simp)
    simp only [decodeVals, Option.map_eq_some_iff] at h
    obtain ⟨t, ht, hbs⟩ := h
    have ih := encodeVals_decodeVals rest t (fun x hx => hl x (by simp [hx])) ht
    subst hbs
    refine ⟨?_, ?_⟩
    · have e1 : (s0 * 4 + s1 / 16) / 4 = s0 := by omega
      have e2 : (s0 * 4 + s1 / 16) % 4 * 16 + (s1 % 16 * 16 + s2 / 4) / 16 = s1 := by omega
      have e3 : (s1 % 16 * 16 + s2 / 4) % 16 * 4 + (s2 % 4 * 64 + s3) / 64 = s2 := by omega
      have e4 : (s2 % 4 * 64 + s3) % 64 = s3 := by omega
      simp only [encodeVals, e1, e2, e3, e4, ih.1]
    · intro x hx
      simp only [List.mem_cons] at hx
      rcases hx with rfl | rfl | rfl | hx
      · omega
      · omega
      · omega
      · exact ih.2 x hx

/-! ## symbols -/

theorem mapM_valOf_map_charOf : ∀ (ss : List Nat), AllLt 64 ss → (ss.map charOf).mapM valOf = some ss
  | [], _ => rfl
  | s :: ss, h => by
    have hs := h s (by simp)
    have ih := mapM_valOf_map_charOf ss (fun x hx => h x (by simp [hx]))
    simp only [List.map_cons, List.mapM_cons, valOf_charOf hs, ih]
    rfl

theorem map_charOf_of_mapM_valOf : ∀ (s : List Char) (ss : List Nat), s.mapM valOf = some ss →
    ss.map charOf = s ∧ AllLt 64 ss
  | [], ss, h => by
    have : ss = [] := by simpa using h.symm
    subst this; exact ⟨rfl, by simp [AllLt]⟩
  | c :: s, ss, h => by
    simp only [List.mapM_cons] at h
    cases hc : valOf c with
    | none => simp [hc] at h
    | some n =>
      cases hs : s.mapM valOf with
      | none => simp [hc, hs] at h
      | some t =>
        have : ss = n :: t := by simpa [hc, hs] using h.symm
        subst this
        have ⟨hn, hcn⟩ := valOf_some hc
        have ih := map_charOf_of_mapM_valOf s t hs
        refine ⟨by simp [hcn, ih.1], ?_⟩
        intro x hx
        simp only [List.mem_cons] at hx
        rcases hx with rfl | hx
        · exact hn
        · exact ih.2 x hx

/-! ## property theorems -/

/-- **lossless**: every byte string is read back from its text -/
theorem C15_b64_decode_encode (bytes : List Nat) (h : AllLt 256 bytes) : decode (encode bytes) = some bytes := by
  unfold decode encode
  rw [mapM_valOf_map_charOf _ (encodeVals_lt bytes h)]
  exact decodeVals_encodeVals bytes h

/-- **one spelling per value**: a text that is accepted is the text `encode` writes for the bytes it was read as (so the
document written back is the document read, and no second text stands for the same proof value) -/
theorem C15_b64_encode_decode (s : List Char) (bytes : List Nat) (h : decode s = some bytes) :
    encode bytes = s ∧ AllLt 256 bytes := by
  unfold decode at h
  cases hm : s.mapM valOf with
  | none => simp [hm] at h
  | some ss =>
    have hd : decodeVals ss = some bytes := by simpa [hm] using h
    have ⟨hmap, hlt⟩ := map_charOf_of_mapM_valOf s ss hm
    have ⟨he, hb⟩ := encodeVals_decodeVals ss bytes hlt hd
    exact ⟨by unfold encode; rw [he, hmap], hb⟩

/-- decoding is injective on accepted texts -/
theorem C15_b64_decode_injective (s₁ s₂ : List Char) (bytes : List Nat)
    (h₁ : decode s₁ = some bytes) (h₂ : decode s₂ = some bytes) : s₁ = s₂ := by
  rw [← (C15_b64_encode_decode s₁ bytes h₁).1, ← (C15_b64_encode_decode s₂ bytes h₂).1]

/-- what is refused: a character outside the alphabet (padding `=` included) anywhere -/
theorem C15_b64_rejects_foreign_symbol (s₁ s₂ : List Char) (c : Char) (h : valOf c = none) :
    decode (s₁ ++ c :: s₂) = none := by
  unfold decode
  have : (s₁ ++ c :: s₂).mapM valOf = none := by
    induction s₁ with
    | nil => simp [List.mapM_cons, h]
    | cons a t ih =>
      simp only [List.cons_append, List.mapM_cons, ih]
      cases valOf a <;> rfl
  simp [this]

/-- the length of the text is determined by the number of bytes (no padding) -/
theorem C15_b64_length (bytes : List Nat) : (encode bytes).length = (4 * bytes.length + 2) / 3 := by
  unfold encode
  rw [List.length_map]
  have : ∀ (n : Nat) (bs : List Nat), bs.length = n → (encodeVals bs).length = (4 * bs.length + 2) / 3 := by
    intro n
    induction n using Nat.strongRecOn with
    | _ n ih =>
      intro bs hn
      match bs, hn with
      | [], _ => rfl
      | [_], _ => simp [encodeVals]
      | [_, _], _ => simp [encodeVals]
      | _ :: _ :: _ :: rest, hn =>
        have := ih rest.length (by simp at hn; omega) rest rfl
        simp only [encodeVals, List.length_cons, this]
        omega
  exact this _ _ rfl

/-- the multibase envelope of a proof value is lossless -/
theorem C15_envelope_decode_encode (bytes : List Nat) (h : AllLt 256 bytes) :
    envelopeDecode (envelopeEncode bytes) = some bytes := by
  simp only [envelopeEncode, envelopeDecode]
  exact C15_b64_decode_encode bytes h

/-- and has one spelling per value: an accepted proof-value text is the text written for its bytes (header included) -/
theorem C15_envelope_encode_decode (s : List Char) (bytes : List Nat) (h : envelopeDecode s = some bytes) :
    envelopeEncode bytes = s := by
  match s, h with
  | c :: rest, h =>
    by_cases hc : c = 'u'
    · subst hc
      simp only [envelopeDecode] at h
      simp [envelopeEncode, (C15_b64_encode_decode rest bytes h).1]
    · have : envelopeDecode (c :: rest) = none := by
        unfold envelopeDecode
        split
        · next heq => cases heq; exact absurd rfl hc
        · rfl
      rw [this] at h; cases h

/-- a text without the header is refused, whatever follows -/
theorem C15_envelope_header_required (s : List Char) (h : s.head? ≠ some 'u') : envelopeDecode s = none := by
  match s with
  | [] => rfl
  | c :: rest =>
    unfold envelopeDecode
    split
    · next heq => cases heq; simp at h
    · rfl

/-! non-vacuity and the engine's three tail cases -/
example : encode [77, 97, 110] = "TWFu".toList := by decide
example : encode [77, 97] = "TWE".toList := by decide
example : encode [77] = "TQ".toList := by decide
example : decode "TQ".toList = some [77] := by decide
example : decode "TR".toList = none := by decide      -- unused low bits set: refused
example : decode "TQ==".toList = none := by decide    -- padding: refused
example : decode "T".toList = none := by decide       -- a lone final symbol
example : decode "-w".toList = some [251] := by decide
example : decode "-_".toList = none := by decide

end AnonModel.Base64

import AnonModel.Gen.WireSrc
import AnonModel.Model.Base64
import AnonModel.Model.Msgpack
/-!
# C15: the proof-value codec `Model/Base64.lean` and `Model/Msgpack.lean` were written for is the one in `/repo` now

`Gen/WireSrc.lean` holds, regenerated on every run, the bodies (whitespace and comments removed) of the four wrappers the
two models stand for — `utils/msg_pack.rs: encode / decode` (`rmp_serde::to_vec_named`: structures as maps keyed by member
names; `rmp_serde::from_slice`: trailing bytes not looked at), `utils/base64.rs: encode / decode` (the `URL_SAFE_NO_PAD`
engine) —, the multibase header literal, and the bodies of `format::base64_msgpack::serialize` and of its visitor's
`visit_str` (msgpack, then base64, then the header; and back in the opposite order, any failure one error). A rewrite breaks
the equality even when the behaviour is unchanged; the correspondence families of C15 (ops `mp_*`, `b64_*`, `pv_*`) then
decide whether the behaviour changed.
-/
namespace AnonModel.GenConsts
open AnonModel.Gen

/-- the model's header is the library's -/
theorem C15_base_header_unchanged : wireBaseHeader.toList = ['u'] ∧
    (∀ bytes, (AnonModel.Base64.envelopeEncode bytes).head? = some 'u') := by
  refine ⟨by decide, fun _ => rfl⟩

/-- the wrappers and the order of the three layers -/
theorem C15_codec_sources_unchanged :
    wireSrc_mp_encode = "rmp_serde::to_vec_named(&val).map_err(|_|err_msg!(\"unabletoencodemessageusingmessagepack\"))" ∧
    wireSrc_mp_decode = "rmp_serde::from_slice(val).map_err(|_|err_msg!(\"unabletodecodemessageusingmessagepack\"))" ∧
    wireSrc_b64_encode = "engine::general_purpose::URL_SAFE_NO_PAD.encode(val)" ∧
    wireSrc_b64_decode = "engine::general_purpose::URL_SAFE_NO_PAD.decode(val).map_err(|_|err_msg!(\"invalidbase64string\"))" ∧
    wireSrc_fmt_serialize = "letmsg_pack_encoded=msg_pack::encode(obj).map_err(S::Error::custom)?;letbase64_encoded=base64::encode(msg_pack_encoded);serializer.collect_str(&format_args!(\"{}{}\",BASE_HEADER,base64_encoded))" ∧
    wireSrc_fmt_visit_str = "letSome(obj)=v.strip_prefix(BASE_HEADER).and_then(|v|base64::decode(v).ok()).and_then(|v|msg_pack::decode(&v).ok())else{returnErr(E::custom(format!(\"Unexpectedmultibasebaseheader:{:?}\",v)));};Ok(obj)" := by
  refine ⟨?_, ?_, ?_, ?_, ?_, ?_⟩ <;> rfl

end AnonModel.GenConsts

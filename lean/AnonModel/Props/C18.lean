import AnonModel.Lemmas.Store
/-!
# C18 — the FFI handle store is linearizable and type-safe under concurrency

Property theorems only (invariants and their preservation are in `Lemmas/Store.lean`).
Every theorem is about `run sched (initCfg progs)` for **all** schedules `sched`
(interleavings of atomic micro-steps), all thread counts and all programs `progs`
(`progs[t]` is the operation sequence of thread `t`); the proofs are inductions over the
schedule. Step numbers: `r.inv` first micro-step, `r.lin` the locked step (for `create` the
insert), `r.res` last micro-step of the completed operation `r`.

**Partial by nature.** The theorems are about the locking discipline of
`src/ffi/object.rs` (which steps are atomic and in which order a call takes them). What the
model cannot exhibit is not proved: `Arc` reference counting (a snapshot is a plain value
here, so "the object stays valid" means "the result is computed from the snapshot"), the
mutex implementation, lock poisoning after a panic inside the lock (every `lock()` succeeds
here), weak-memory effects below `SeqCst`, overflow of the `usize` counter.
-/
namespace AnonModel.Store

/-- **invariant**: every handle in the map is bounded by the counter and non-zero, the map's
keys are distinct; every in-flight handle (allocated by `fetch_add`, not yet inserted) is
bounded by the counter, non-zero and absent from the map; in-flight handles of different
threads differ -/
theorem C18_inv (progs : List (List Op)) (sched : Sched) :
    let c := run sched (initCfg progs)
    (∀ h ∈ keys c.map, h ≤ c.counter ∧ h ≠ 0) ∧ (keys c.map).Nodup ∧
    (∀ (t : Nat) (th : Thread) (o : Obj) (h i : Nat), c.threads[t]? = some th → th.pend = .creating o h i →
      h ≤ c.counter ∧ h ≠ 0 ∧ h ∉ keys c.map) ∧
    (∀ (t1 t2 : Nat) (th1 th2 : Thread) (o1 o2 : Obj) (h i1 i2 : Nat), c.threads[t1]? = some th1 →
      c.threads[t2]? = some th2 → th1.pend = .creating o1 h i1 → th2.pend = .creating o2 h i2 → t1 = t2) := by
  intro c
  have a := (allInv_run progs sched).inv
  refine ⟨fun h hh => a.ch_le h (a.keys_created h hh), a.keys_nodup, ?_, a.fl_distinct⟩
  intro t th o h i hth hp
  obtain ⟨h1, h2, h3⟩ := a.fl t th o h i hth hp
  exact ⟨h1, h2, fun hm => h3 (a.keys_created h hm)⟩

/-- the handles returned by all completed `create` operations of an execution are pairwise
distinct — whatever was freed in between — and non-zero; and a handle still in flight has
not been returned to anybody -/
theorem C18_handles_unique_never_reused (progs : List (List Op)) (sched : Sched) :
    let c := run sched (initCfg progs)
    (createdHandles c.hist).Nodup ∧ (∀ h ∈ createdHandles c.hist, h ≠ 0) ∧
    (∀ (t : Nat) (th : Thread) (o : Obj) (h i : Nat), c.threads[t]? = some th → th.pend = .creating o h i →
      h ∉ createdHandles c.hist) := by
  intro c
  have a := (allInv_run progs sched).inv
  exact ⟨a.ch_nodup, fun h hh => (a.ch_le h hh).2, fun t th o h i hth hp => (a.fl t th o h i hth hp).2.2⟩

/-- the same, stated on pairs of records: two different completed creates returned different handles -/
theorem C18_handles_unique_pairwise (progs : List (List Op)) (sched : Sched) :
    let c := run sched (initCfg progs)
    ∀ a ∈ c.hist, ∀ b ∈ c.hist, ∀ h, a.result = .handle h → b.result = .handle h → a = b := by
  intro c a ha b hb h hra hrb
  have i := allInv_run progs sched
  have hnd := i.inv.ch_nodup
  have key : ∀ (l : List Rec), (createdHandles l).Nodup → ∀ a ∈ l, ∀ b ∈ l, a.result = .handle h →
      b.result = .handle h → a = b := by
    intro l
    induction l with
    | nil => intro _ a ha; cases ha
    | cons x l ih =>
      intro hnd a ha b hb hra hrb
      by_cases hx : x.result = .handle h
      · rw [createdHandles_cons_handle x l h hx, List.nodup_cons] at hnd
        rcases List.mem_cons.mp ha with rfl | ha
        · rcases List.mem_cons.mp hb with rfl | hb
          · rfl
          · exact absurd (mem_createdHandles hb hrb) hnd.1
        · exact absurd (mem_createdHandles ha hra) hnd.1
      · have hnd' : (createdHandles l).Nodup := by
          cases hr : x.result with
          | handle h' => rw [createdHandles_cons_handle x l h' hr, List.nodup_cons] at hnd; exact hnd.2
          | _ => rw [createdHandles_cons_of_ne x l (by simp [hr])] at hnd; exact hnd
        rcases List.mem_cons.mp ha with rfl | ha
        · exact absurd hra hx
        · rcases List.mem_cons.mp hb with rfl | hb
          · exact absurd hrb hx
          · exact ih hnd' a ha b hb hra hrb
  exact key c.hist hnd a ha b hb hra hrb

/-- **linearizability**: `linLog` (the operations in the order of their locked steps, most
recent first)
1. is a legal sequential history of the abstract spec — a partial map with
   insert / get / remove where `create` returns a fresh non-zero handle — *including the
   recorded results*, and replaying it yields exactly the concrete map;
2. is strictly ordered by linearization step;
3. contains every completed operation with its recorded result, at a step inside the
   operation's `[inv, res]` interval;
4. hence respects real time: an operation that completed before another was invoked is
   linearized before it;
5. contains nothing else than completed operations and the in-flight `get` of a thread that
   has taken its snapshot but not yet used it. -/
theorem C18_linearizable (progs : List (List Op)) (sched : Sched) :
    let c := run sched (initCfg progs)
    (∃ s, specOf c.linLog = some s ∧ ∀ h, s.map h = mapGet c.map h) ∧
    c.linLog.Pairwise (fun newer older => older.lin < newer.lin) ∧
    (∀ r ∈ c.hist, r.toLin ∈ c.linLog ∧ r.inv ≤ r.lin ∧ r.lin ≤ r.res) ∧
    (∀ a ∈ c.hist, ∀ b ∈ c.hist, a.res < b.inv → a.lin < b.lin) ∧
    (∀ l ∈ c.linLog, (∃ r ∈ c.hist, r.toLin = l) ∨
      ∃ th k h s, c.threads[l.thread]? = some th ∧ th.pend = .snap k h s l.lin ∧
        l = ⟨l.thread, .get k h, l.lin, useSnap k s⟩) := by
  intro c
  have a := allInv_run progs sched
  obtain ⟨s, h1, h2, _⟩ := a.spec.replay
  refine ⟨⟨s, h1, h2⟩, a.timing.sorted, ?_, ?_, logInv_run progs sched⟩
  · intro r hr
    have := a.timing.hist_times r hr
    exact ⟨a.timing.hist_in_log r hr, this.1, this.2.1⟩
  · intro x hx y hy hlt
    have h1 := a.timing.hist_times x hx
    have h2 := a.timing.hist_times y hy
    omega

/-- **a handle resolves to its object until freed, to an error afterwards.** Let `rc` be the
completed create that stored `o` under `h`, and `r` a completed `load`/`json`/`typeName`/`useAs`
of `h`.
(a) If `r`'s locked step lies after the insert and no remove of `h` lies between them, `r`
    delivered exactly `o` (for `useAs T`: `o` or the type error, see `C18_wrong_type_errors`).
(b) If some remove of `h` lies between the insert and `r`'s locked step, `r` answered
    `errInvalid` — for ever after, since handles are never re-inserted.
(c) If `r`'s locked step lies before the insert, `r` answered `errInvalid`. -/
theorem C18_resolves_until_freed (progs : List (List Op)) (sched : Sched) :
    let c := run sched (initCfg progs)
    ∀ rc ∈ c.hist, ∀ o h, rc.op = .create o → rc.result = .handle h →
    ∀ r ∈ c.hist, ∀ k, r.op = .get k h →
      (rc.lin < r.lin → (∀ f ∈ c.hist, f.op = .free h → ¬ (rc.lin < f.lin ∧ f.lin < r.lin)) →
        r.result = useSnap k (some o) ∧ ((∀ T, k ≠ .useAs T) → r.result = .ok o)) ∧
      ((∃ f ∈ c.hist, f.op = .free h ∧ rc.lin < f.lin ∧ f.lin < r.lin) → r.result = .errInvalid) ∧
      (r.lin < rc.lin → r.result = .errInvalid) := by
  intro c rc hrc o h hop hres r hr k hk
  have a := allInv_run progs sched
  obtain ⟨q, w⟩ := a.win.win rc.toLin (a.timing.hist_in_log rc hrc) o h hop hres
  have wg := w.gets r.toLin (a.timing.hist_in_log r hr) k hk
  simp only [Rec.toLin] at wg
  refine ⟨?_, ?_, ?_⟩
  · intro hlt hno
    have : r.result = useSnap k (some o) := by
      rcases wg with ⟨g1, _⟩ | ⟨_, g2 | ⟨Q, hQ, g2⟩⟩
      · exact g1
      · omega
      · exfalso
        obtain ⟨q1, f, hf1, hf2, hf3⟩ := w.qfree Q hQ
        have hrec := a.shape.log_free f hf1 h hf2
        simp only [Rec.toLin] at q1
        exact hno _ hrec rfl ⟨by simp only; omega, by simp only; omega⟩
    exact ⟨this, fun hT => by rw [this, useSnap_ok k o hT]⟩
  · rintro ⟨f, hf, hfo, hf1, hf2⟩
    rcases w.frees f.toLin (a.timing.hist_in_log f hf) hfo with w1 | ⟨Q, hQ, w1⟩
    · simp only [Rec.toLin] at w1; omega
    · rcases wg with ⟨_, _, g3⟩ | ⟨g1, _⟩
      · have := g3 Q hQ; simp only [Rec.toLin] at w1; omega
      · exact g1
  · intro hlt
    rcases wg with ⟨_, g2, _⟩ | ⟨g1, _⟩
    · omega
    · exact g1

/-- a handle that no completed create of the execution returned (never allocated, still in
flight, or 0) resolves to `errInvalid` in every completed operation -/
theorem C18_unknown_handle_invalid (progs : List (List Op)) (sched : Sched) :
    let c := run sched (initCfg progs)
    ∀ h, h ∉ createdHandles c.hist → ∀ r ∈ c.hist, ∀ k, r.op = .get k h → r.result = .errInvalid := by
  intro c h hh r hr k hk
  have a := allInv_run progs sched
  exact (a.win.never h hh).2 r.toLin (a.timing.hist_in_log r hr) k hk

/-- **wrong type ⇒ error, never a value**: `useAs T h` never returns an object whose type is not
`T`; and when it resolved (window of `C18_resolves_until_freed` (a)) an object of another type
the answer is exactly `errType` -/
theorem C18_wrong_type_errors (progs : List (List Op)) (sched : Sched) :
    let c := run sched (initCfg progs)
    (∀ r ∈ c.hist, ∀ T h o', r.op = .useAs T h → r.result = .ok o' → o'.ty = T) ∧
    (∀ rc ∈ c.hist, ∀ o h, rc.op = .create o → rc.result = .handle h →
      ∀ r ∈ c.hist, ∀ T, r.op = .useAs T h → o.ty ≠ T → rc.lin < r.lin →
      (∀ f ∈ c.hist, f.op = .free h → ¬ (rc.lin < f.lin ∧ f.lin < r.lin)) → r.result = .errType) := by
  intro c
  have a := allInv_run progs sched
  refine ⟨?_, ?_⟩
  · intro r hr T h o' hop hres
    obtain ⟨_, s, hs⟩ := a.shape.get r hr (.useAs T) h hop
    rw [hres] at hs
    cases s with
    | none => simp [useSnap] at hs
    | some o =>
      simp only [useSnap] at hs
      split at hs
      · rename_i hT; cases hs; exact hT
      · cases hs
  · intro rc hrc o h hop hres r hr T hk hne hlt hno
    have := ((C18_resolves_until_freed progs sched) rc hrc o h hop hres r hr (.useAs T) hk).1 hlt hno
    rw [this.1]; simp [useSnap, hne]

/-- **an object in use survives a concurrent free.** The response of an operation that has taken
its snapshot is a function of the snapshot alone: the completing micro-step neither reads nor
writes the map … -/
theorem C18_use_depends_only_on_snapshot (c : Config) (t : Nat) (th : Thread) (k : GetKind) (h : Nat)
    (s : Option Obj) (i : Nat) (hth : c.threads[t]? = some th) (hp : th.pend = .snap k h s i) :
    (step t c).hist = ⟨t, .get k h, i, i, c.now, useSnap k s⟩ :: c.hist ∧ (step t c).map = c.map := by
  simp [step, hth, micro, hp]

/-- … hence, for all schedules: an operation whose locked step came after the insert of `h` and
before any remove still delivers the object, even if a remove of `h` by another thread falls
between its locked step and its response -/
theorem C18_snapshot_survives_free (progs : List (List Op)) (sched : Sched) :
    let c := run sched (initCfg progs)
    ∀ rc ∈ c.hist, ∀ o h, rc.op = .create o → rc.result = .handle h →
    ∀ r ∈ c.hist, ∀ k, r.op = .get k h → rc.lin < r.lin →
    (∀ f ∈ c.hist, f.op = .free h → ¬ (rc.lin < f.lin ∧ f.lin < r.lin)) →
    ∀ f ∈ c.hist, f.op = .free h → r.lin < f.lin → f.lin < r.res →
    r.result = useSnap k (some o) := by
  intro c rc hrc o h hop hres r hr k hk hlt hno _ _ _ _ _
  exact (((C18_resolves_until_freed progs sched) rc hrc o h hop hres r hr k hk).1 hlt hno).1

/-- **the history checker accepts every model history**: abstracting the recorded history of
any execution to events (step `s` ↦ invocation ticket `2s`, response ticket `2s+1`) gives a
history `checkHistory` accepts -/
theorem C18_checker_sound (progs : List (List Op)) (sched : Sched) :
    checkHistory (toEvents (run sched (initCfg progs)).hist) = true :=
  checkHistory_sound (allInv_run progs sched)

/-- … and the abstraction drops no record (so the previous theorem is not about a thinned-out
history) -/
theorem C18_abstraction_total (progs : List (List Op)) (sched : Sched) :
    (toEvents (run sched (initCfg progs)).hist).length = (run sched (initCfg progs)).hist.length :=
  filterMap_length_of_isSome _ _ (fun _ hr => toEvent_isSome (allInv_run progs sched) hr)

/-! ### non-vacuity and the checker's rejections -/

/-- thread 0: create, json; thread 1: load 1, free 1 -/
private def demoProgs : List (List Op) :=
  [[.create ⟨7, 100⟩, .json 1], [.load 1, .free 1, .load 1]]

/-- t0 allocates and inserts; t1 takes its snapshot of handle 1; t0 takes a snapshot; **t1 frees 1**;
then t0 uses its snapshot and still gets the object (`snapshot_survives_free` has a witness);
t1's later load fails -/
example :
    (run [0, 0, 1, 1, 0, 1, 0, 1, 1] (initCfg demoProgs)).hist.map (fun r => (r.thread, r.op, r.lin, r.res, r.result)) =
      [(1, .load 1, 7, 8, .errInvalid), (0, .json 1, 4, 6, .ok ⟨7, 100⟩), (1, .free 1, 5, 5, .unit),
       (1, .load 1, 2, 3, .ok ⟨7, 100⟩), (0, .create ⟨7, 100⟩, 1, 1, .handle 1)] := by decide

/-- a load that overtakes the insert sees an invalid handle (window (c)) -/
example :
    (run [0, 1, 1, 0] (initCfg demoProgs)).hist.map (fun r => (r.thread, r.op, r.result)) =
      [(0, .create ⟨7, 100⟩, .handle 1), (1, .load 1, .errInvalid)] := by decide

/-- wrong type -/
example :
    (run [0, 0, 1, 1] (initCfg [[.create ⟨7, 100⟩], [.useAs 8 1]])).hist.map (fun r => r.result) =
      [.errType, .handle 1] := by decide

private def ev (th : Nat) (op : EOp) (h : Nat) (w : Option Nat) (i r : Nat) (res : EResult)
    (ty obj : Option Nat) : Event := ⟨th, op, h, w, i, r, res, ty, obj⟩

/-- accepted: create, json, free, json-invalid in sequence -/
example : checkHistory [ev 0 .create 1 none 0 1 .ok (some 7) (some 100), ev 0 .json 1 none 2 3 .ok (some 7) (some 100),
    ev 0 .free 1 none 4 5 .ok none none, ev 0 .json 1 none 6 7 .invalid none none] = true := by decide
/-- accepted: a load overlapping a free may answer either way -/
example : checkHistory [ev 0 .create 1 none 0 1 .ok (some 7) (some 100), ev 0 .free 1 none 2 5 .ok none none,
    ev 1 .use 1 none 4 6 .ok none none] = true := by decide
example : checkHistory [ev 0 .create 1 none 0 1 .ok (some 7) (some 100), ev 0 .free 1 none 2 5 .ok none none,
    ev 1 .use 1 none 4 6 .invalid none none] = true := by decide
/-- rejected: an ok-load invoked after a free of that handle had responded -/
example : checkHistory [ev 0 .create 1 none 0 1 .ok (some 7) (some 100), ev 0 .free 1 none 2 3 .ok none none,
    ev 1 .use 1 none 4 5 .ok none none] = false := by decide
/-- rejected: a handle returned twice -/
example : checkHistory [ev 0 .create 1 none 0 1 .ok (some 7) (some 100),
    ev 1 .create 1 none 2 3 .ok (some 7) (some 101)] = false := by decide
/-- rejected: a json that observes another object's id -/
example : checkHistory [ev 0 .create 1 none 0 1 .ok (some 7) (some 100), ev 1 .create 2 none 2 3 .ok (some 7) (some 101),
    ev 0 .json 1 none 4 5 .ok (some 7) (some 101)] = false := by decide
/-- rejected: `invalid` for a live handle -/
example : checkHistory [ev 0 .create 1 none 0 1 .ok (some 7) (some 100),
    ev 0 .json 1 none 2 3 .invalid none none] = false := by decide
/-- rejected: absent-then-present during one free -/
example : checkHistory [ev 0 .create 1 none 0 1 .ok (some 7) (some 100), ev 1 .free 1 none 2 9 .ok none none,
    ev 2 .json 1 none 4 5 .invalid none none, ev 2 .json 1 none 6 7 .ok (some 7) (some 100)] = false := by decide
/-- rejected: a cast to the wrong type that succeeds; a type error for the right type -/
example : checkHistory [ev 0 .create 1 none 0 1 .ok (some 7) (some 100),
    ev 0 .use 1 (some 8) 2 3 .ok none none] = false := by decide
example : checkHistory [ev 0 .create 1 none 0 1 .ok (some 7) (some 100),
    ev 0 .use 1 (some 7) 2 3 .typeError none none] = false := by decide
/-- rejected: the later create got the smaller handle -/
example : checkHistory [ev 0 .create 2 none 0 1 .ok (some 7) (some 100),
    ev 1 .create 1 none 2 3 .ok (some 7) (some 101)] = false := by decide

end AnonModel.Store

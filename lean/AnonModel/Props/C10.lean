import AnonModel.Lemmas.StatusList
/-!
# C10 — revocation states track the status list

Property theorems only (helpers: `Lemmas/StatusList.lean`; model: `Model/StatusList.lean`).

Setting: a registry of size `L` created in mode `byDefault`; `Reachable L byDefault s`
ranges over every status list any history of that registry can produce.  A holder's
revocation state for a list `s` is (witness, `s.acc`, `s.ts`); its non-revocation
proof verifies against `s` iff `WitnessValid k s.acc w` (trusted-base idealisation).
Derivations: from scratch (`witnessScratch`), incrementally (`witnessUpdate`), or the
issuer-supplied witness (`issueAgainst`, second component) used as is.

**Finding (F12).** The from-scratch derivation hard-codes "issuance by default" over
the indices `1…L`.  It is valid exactly for by-default registries whose position 0 is
not revoked (`C10_scratch_valid_iff_by_default`) and for **no** list of an on-demand
registry (`C10_scratch_on_demand_never_valid`).  The full claim `C10_scratch_valid`
is kept below as `ScratchValidClaim` and refuted.
-/
namespace AnonModel.StatusList

/-! ### issuer witness -/

/-- **the issuer witness is valid for the accumulator embedded in the credential** —
both modes, every reachable list, every index for which `create_credential` succeeds
(`1 ≤ k ≤ L` and position `k` exists, i.e. `1 ≤ k < L`); no further precondition.
In particular it holds when entry `k` is still set (on-demand issuance: the embedded
accumulator already contains `k`) and when it is clear (by default / re-issue). -/
theorem C10_issuer_witness_valid {L : Nat} {byDefault : Bool} {s : SL} (hr : Reachable L byDefault s)
    {k : Nat} {A w : Acc} (h : issueAgainst L s k = some (A, w)) : WitnessValid k A w := by
  obtain ⟨hk1, _, ⟨hb, hA, hw⟩ | ⟨hb, hA, hw⟩⟩ := issueAgainst_eq_some h <;> subst hA hw
  · -- on demand: A = acc + e_k, w = acc, and acc_k = 0
    have h0 := wk_zero_issue hr h
    refine ⟨by simp [accAdd, h0], fun j hj => by simp [accAdd, hj]⟩
  · -- by default: A = acc, w = acc - e_k, and acc_k = 1
    exact ⟨reachable_acc_valid_idx hr hb hk1, fun j hj => by simp [accAdd, hj]⟩

/-- the issuer-supplied witness, used unchanged (`create_revocation_state_with_witness`),
verifies against every list whose accumulator is the embedded one — e.g. the list
after the matching issue update (`C09_issued_credential_embeds`) and after any number
of timestamp-only or no-op updates of it -/
theorem C10_with_witness_valid {L : Nat} {byDefault : Bool} {s t : SL} (hr : Reachable L byDefault s)
    {k : Nat} {A w : Acc} (h : issueAgainst L s k = some (A, w)) (hacc : t.acc = A) :
    WitnessValid k t.acc w := hacc ▸ C10_issuer_witness_valid hr h

/-! ### incremental derivation -/

/-- core of the incremental derivation: a witness that agrees off `k` with the
accumulator of *some* list of the registry — older **or** newer, `k` valid there or
not — is turned by `Witness::update` over the index deltas into a valid witness for
any other list of the registry in which `k` is non-revoked. -/
theorem C10_update_valid_of_agree {L : Nat} {byDefault : Bool} {old new : SL}
    (ho : Reachable L byDefault old) (hn : Reachable L byDefault new) {k : Nat} {w w' : Acc}
    (hagree : ∀ j, j ≠ k → w j = old.acc j) (hk : new.bits[k]? = some false)
    (hu : witnessUpdate L w old new k = some w') : WitnessValid k new.acc w' := by
  obtain ⟨_, hk1, _, hpt⟩ := witnessUpdate_eq_some hu
  refine ⟨reachable_acc_valid_idx hn hk hk1, fun j hj => ?_⟩
  rw [hpt j, if_neg hj, hagree j hj, reachable_acc_diff ho hn j]

/-- **incremental update preserves validity**, for every ordered pair of lists of the
same registry — older→newer and newer→older alike (no order is assumed): a witness
valid for `old` becomes a witness valid for `new` whenever `k` is non-revoked in `new`. -/
theorem C10_update_preserves {L : Nat} {byDefault : Bool} {old new : SL}
    (ho : Reachable L byDefault old) (hn : Reachable L byDefault new) {k : Nat} {w w' : Acc}
    (hv : WitnessValid k old.acc w) (hk : new.bits[k]? = some false)
    (hu : witnessUpdate L w old new k = some w') : WitnessValid k new.acc w' :=
  C10_update_valid_of_agree ho hn hv.2 hk hu

/-- the incremental derivation does not fail for a credential index (`1 ≤ k < L`) and a
target list carrying a timestamp.  (`create_or_update_revocation_state` returns `Err`
for a list without timestamp; for `k = L` it can fail on a missing tail.) -/
theorem C10_update_ok {L : Nat} {byDefault : Bool} {old new : SL} (hn : Reachable L byDefault new)
    {k : Nat} (w : Acc) (hk1 : 1 ≤ k) (hkL : k < L) (hts : new.ts ≠ none) :
    (witnessUpdate L w old new k).isSome = true :=
  witnessUpdate_isSome w hts hk1 hkL (by rw [reachable_length hn]; exact Nat.le_refl L)

/-- the usual holder flow: the issuer witness obtained against list `s` (where `k` may
not even be issued yet), updated from `s` to any list of the registry in which `k` is
non-revoked, is valid there — although it is in general *not* valid for `s` itself. -/
theorem C10_issuer_witness_updated_valid {L : Nat} {byDefault : Bool} {s new : SL}
    (hs : Reachable L byDefault s) (hn : Reachable L byDefault new) {k : Nat} {A w w' : Acc}
    (hi : issueAgainst L s k = some (A, w)) (hk : new.bits[k]? = some false)
    (hu : witnessUpdate L w s new k = some w') : WitnessValid k new.acc w' := by
  refine C10_update_valid_of_agree hs hn (fun j hj => ?_) hk hu
  obtain ⟨_, _, ⟨_, _, hw⟩ | ⟨_, _, hw⟩⟩ := issueAgainst_eq_some hi <;> subst hw
  · rfl
  · simp [accAdd, hj]

/-! ### all derivations agree -/

/-- two valid witnesses for the same index and accumulator agree off `k` -/
theorem C10_valid_unique {k : Nat} {A w₁ w₂ : Acc} (h₁ : WitnessValid k A w₁) (h₂ : WitnessValid k A w₂) :
    ∀ j, j ≠ k → w₁ j = w₂ j := fun j hj => (h₁.2 j hj).trans (h₂.2 j hj).symm

/-- every derivation of the model yields `w_k = 0`: from scratch, the issuer witness
of a reachable list, and the incremental update of a witness that has it -/
theorem C10_derived_wk_zero {L : Nat} {byDefault : Bool} {s old new : SL} {k : Nat} {A w w₀ w' : Acc} :
    (witnessScratch L s k = some w → w k = 0) ∧
    (Reachable L byDefault s → issueAgainst L s k = some (A, w) → w k = 0) ∧
    (witnessUpdate L w₀ old new k = some w' → w₀ k = 0 → w' k = 0) :=
  ⟨wk_zero_scratch, fun hr h => wk_zero_issue hr h, fun h h0 => (wk_update h).trans h0⟩

/-- **all derivations yield the same witness**: valid witnesses with `w_k = 0` (which
every derivation produces, `C10_derived_wk_zero`) for the same index and accumulator
are equal as vectors, hence the same group element. -/
theorem C10_valid_unique_full {k : Nat} {A w₁ w₂ : Acc} (h₁ : WitnessValid k A w₁) (h₂ : WitnessValid k A w₂)
    (z₁ : w₁ k = 0) (z₂ : w₂ k = 0) : w₁ = w₂ := by
  funext j
  by_cases hj : j = k
  · subst hj; rw [z₁, z₂]
  · exact C10_valid_unique h₁ h₂ j hj

/-- for such witnesses the trusted-base definition is the coefficient-wise pairing
equation `A_j - w_j = [j = k]` -/
theorem C10_valid_iff_pairing {k : Nat} {A w : Acc} (hk : w k = 0) :
    WitnessValid k A w ↔ ∀ j, A j - w j = if j = k then 1 else 0 := witnessValid_iff_pairing hk

/-! ### revoked indices -/

/-- **no derivation helps a revoked index**: if entry `k` is set in a reachable list,
the accumulator has multiplicity `≠ 1` at `k` (0, or -1 for position 0 of a by-default
registry), so *no* vector whatsoever is a valid witness. -/
theorem C10_revoked_no_witness {L : Nat} {byDefault : Bool} {s : SL} (hr : Reachable L byDefault s)
    {k : Nat} (hk : s.bits[k]? = some true) : s.acc k ≠ 1 ∧ ¬ ∃ w, WitnessValid k s.acc w := by
  have := reachable_acc_revoked_idx hr hk
  refine ⟨by omega, ?_⟩
  rintro ⟨w, h1, _⟩
  omega

/-- **proofs against earlier lists keep verifying**: validity is a function of
`(k, A_old, w)` only.  Whatever is applied to the registry afterwards — including
revoking `k` — the earlier list `t` is still the recorded state at the same place of
the history (functional model; Rust: updates work on a clone), so a witness valid for
it stays valid for it, while the same witness is rejected against the latest list if
`k` is revoked there. -/
theorem C10_earlier_lists_keep_verifying {L : Nat} {byDefault : Bool} {s₀ : SL}
    (hr : Reachable L byDefault s₀) (ops later : List Op) {i : Nat} {t : SL}
    (ht : (runFrom s₀ ops)[i]? = some t) {k : Nat} {w : Acc} (hv : WitnessValid k t.acc w) :
    (runFrom s₀ (ops ++ later))[i]? = some t ∧ WitnessValid k t.acc w ∧
    ((final s₀ (ops ++ later)).bits[k]? = some true →
      ¬ WitnessValid k (final s₀ (ops ++ later)).acc w) := by
  refine ⟨getElem?_runFrom_append ht later, hv, fun hk hv' => ?_⟩
  exact (C10_revoked_no_witness (final_reachable hr (ops ++ later)) hk).2 ⟨w, hv'⟩

/-! ### from scratch (the target, and why it fails) -/

/-- The claim as the property wants it (**false**, see `C10_scratch_valid_refuted`):
for every reachable list with a timestamp and every credential index non-revoked in
it, the from-scratch derivation yields a valid witness. -/
def ScratchValidClaim : Prop :=
  ∀ (L : Nat) (byDefault : Bool) (s : SL) (k : Nat) (w : Acc),
    Reachable L byDefault s → 1 ≤ k → k < L → s.bits[k]? = some false →
    witnessScratch L s k = some w → WitnessValid k s.acc w

/-- the from-scratch derivation returns a value exactly for `1 ≤ k ≤ L` and a list
carrying a timestamp (`Err` otherwise) -/
theorem C10_scratch_ok_iff (L : Nat) (s : SL) (k : Nat) :
    (witnessScratch L s k).isSome = true ↔ s.ts ≠ none ∧ 1 ≤ k ∧ k ≤ L := by
  rw [Option.isSome_iff_exists]
  constructor
  · rintro ⟨w, h⟩
    obtain ⟨a, b, c, _⟩ := witnessScratch_eq_some.mp h
    exact ⟨a, b, c⟩
  · rintro ⟨a, b, c⟩
    exact ⟨_, witnessScratch_eq_some.mpr ⟨a, b, c, rfl⟩⟩

/-- **by-default registries: valid iff position 0 is not revoked.**  (State-based:
position 0 revoked and later re-issued is fine again.) -/
theorem C10_scratch_valid_iff_by_default {L : Nat} {s : SL} (hr : Reachable L true s) {k : Nat} {w : Acc}
    (hk : s.bits[k]? = some false) (hw : witnessScratch L s k = some w) :
    WitnessValid k s.acc w ↔ s.bits[0]? ≠ some true := by
  obtain ⟨_, hk1, hkL, rfl⟩ := witnessScratch_eq_some.mp hw
  have hacc := reachable_acc hr
  constructor
  · intro hv h0
    have := hv.2 0 (by omega)
    rw [hacc, accOf_byDefault] at this
    simp [scratchVec, h0] at this
  · intro h0
    refine ⟨reachable_acc_valid_idx hr hk hk1, fun j hj => ?_⟩
    rw [hacc, accOf_byDefault]
    by_cases hj0 : j = 0
    · subst hj0; simp [scratchVec, h0]
    · by_cases hjL : j ≤ L
      · have h1 : 1 ≤ j ∧ j ≤ L := by omega
        by_cases hb : s.bits[j]? = some true <;> simp [scratchVec, hj, h1, hb]
      · have hb := getElem?_of_reachable_ge hr (j := j) (by omega)
        have h1 : ¬ (1 ≤ j ∧ j ≤ L) := by omega
        simp [scratchVec, hb, h1]

/-- **partial result** for `ScratchValidClaim`: registries created with issuance by
default, lists in which position 0 is not revoked.  Missing for the full claim:
on-demand registries (never valid) and by-default lists with position 0 revoked. -/
theorem C10_scratch_valid_partial {L : Nat} {s : SL} (hr : Reachable L true s) {k : Nat} {w : Acc}
    (hk : s.bits[k]? = some false) (h0 : s.bits[0]? ≠ some true)
    (hw : witnessScratch L s k = some w) : WitnessValid k s.acc w :=
  (C10_scratch_valid_iff_by_default hr hk hw).mpr h0

/-- **on-demand registries: the from-scratch witness is never valid** — for no list,
no index: it always contains index `L` (which has no list position, so it can never be
marked revoked), while an on-demand accumulator never does. -/
theorem C10_scratch_on_demand_never_valid {L : Nat} {s : SL} (hr : Reachable L false s) {k : Nat} {w : Acc}
    (hw : witnessScratch L s k = some w) : ¬ WitnessValid k s.acc w := by
  obtain ⟨_, hk1, hkL, rfl⟩ := witnessScratch_eq_some.mp hw
  have hacc := reachable_acc hr
  have hL := getElem?_of_reachable_ge hr (j := L) (Nat.le_refl L)
  rintro ⟨h1, h2⟩
  by_cases hk : k = L
  · subst hk
    rw [hacc, accOf_onDemand] at h1
    simp [hL] at h1
  · have := h2 L (fun h => hk h.symm)
    rw [hacc, accOf_onDemand] at this
    have hne : L ≠ k := fun h => hk h.symm
    have h1L : 1 ≤ L := by omega
    simp [scratchVec, hL, hne, h1L] at this

/-- concrete counterexample, issuance on demand: registry of size 3, credential 1
issued; the from-scratch state for index 1 is derived without error and is invalid
(it claims index 3, the accumulator has only index 1), whereas the issuer witness for
the same credential is valid for the same accumulator. -/
theorem C10_scratch_refuted_on_demand :
    let s₀ := create 3 false (some 10)
    let s := update s₀ (some [1]) none none
    Reachable 3 false s ∧ s.bits = [true, false, true] ∧
    (witnessScratch 3 s 1).isSome = true ∧
    (∀ w, witnessScratch 3 s 1 = some w → w 3 = 1 ∧ s.acc 3 = 0 ∧ ¬ WitnessValid 1 s.acc w) ∧
    (∃ A w, issueAgainst 3 s₀ 1 = some (A, w) ∧ accEqB 4 A s.acc = true ∧ witnessValidB 4 1 s.acc w = true) := by
  refine ⟨.update _ _ _ (.create _), by decide, by decide, ?_, ?_⟩
  · intro w hw
    obtain ⟨_, _, _, rfl⟩ := witnessScratch_eq_some.mp hw
    refine ⟨by decide, by decide, fun h => ?_⟩
    have := h.2 3 (by decide)
    revert this; decide
  · exact ⟨_, _, rfl, by decide, by decide⟩

/-- concrete counterexample, issuance by default with position 0 revoked: registry of
size 3, credential 1 non-revoked; the accumulator has multiplicity -1 at index 0, the
from-scratch witness 0. -/
theorem C10_scratch_refuted_pos0 :
    let s := update (create 3 true (some 10)) none (some [0]) none
    Reachable 3 true s ∧ s.bits = [true, false, false] ∧
    (witnessScratch 3 s 1).isSome = true ∧
    (∀ w, witnessScratch 3 s 1 = some w → w 0 = 0 ∧ s.acc 0 = -1 ∧ ¬ WitnessValid 1 s.acc w) := by
  refine ⟨.update _ _ _ (.create _), by decide, by decide, ?_⟩
  intro w hw
  obtain ⟨_, _, _, rfl⟩ := witnessScratch_eq_some.mp hw
  refine ⟨by decide, by decide, fun h => ?_⟩
  have := h.2 0 (by decide)
  revert this; decide

/-- the full claim is false -/
theorem C10_scratch_valid_refuted : ¬ ScratchValidClaim := by
  intro h
  obtain ⟨hr, _, hs, hno, _⟩ := C10_scratch_refuted_on_demand
  obtain ⟨w, hw⟩ := Option.isSome_iff_exists.mp hs
  exact (hno w hw).2.2 (h 3 false _ 1 w hr (by decide) (by decide) (by decide) hw)

/-! ### the executable checks are exact on everything the model derives -/

/-- for reachable lists and derived witnesses the bounded Boolean check used by the
driver decides `WitnessValid`, and bounded equality decides equality of accumulators -/
theorem C10_checks_exact {L : Nat} {byDefault : Bool} {s t : SL} (hs : Reachable L byDefault s)
    (ht : Reachable L byDefault t) {k : Nat} {w : Acc} (hw : Supp (L + 1) w) :
    (witnessValidB (L + 1) k s.acc w = true ↔ WitnessValid k s.acc w) ∧
    (accEqB (L + 1) s.acc t.acc = true ↔ s.acc = t.acc) :=
  ⟨witnessValidB_iff (reachable_supp hs) hw, accEqB_iff (reachable_supp hs) (reachable_supp ht)⟩

/-- every derived witness (and embedded accumulator) vanishes above `L` -/
theorem C10_derived_supp {L : Nat} {byDefault : Bool} {s old new : SL} {k : Nat} {A w w₀ w' : Acc} :
    (witnessScratch L s k = some w → Supp (L + 1) w) ∧
    (Reachable L byDefault s → issueAgainst L s k = some (A, w) → Supp (L + 1) A ∧ Supp (L + 1) w) ∧
    (Reachable L byDefault new → witnessUpdate L w₀ old new k = some w' → Supp (L + 1) w₀ → Supp (L + 1) w') :=
  ⟨supp_scratch, fun hr h => supp_issue hr h,
   fun hr h h0 => supp_witnessUpdate h h0 (by rw [reachable_length hr]; exact Nat.le_refl L)⟩

/-! ### non-vacuity -/

/-- by default, position 0 untouched: scratch, incremental (older→newer and
newer→older) and issuer witness all valid and all the same vector -/
example :
    let s₀ := create 4 true (some 1)
    let s₁ := update s₀ none (some [2]) (some 2)       -- revoke 2
    let s₂ := update s₁ (some [2]) (some [3]) (some 3) -- re-issue 2, revoke 3
    ∃ a b c d A e,
      witnessScratch 4 s₂ 1 = some a ∧ witnessScratch 4 s₀ 1 = some b ∧
      witnessUpdate 4 b s₀ s₂ 1 = some c ∧ witnessUpdate 4 a s₂ s₀ 1 = some d ∧
      issueAgainst 4 s₂ 1 = some (A, e) ∧
      witnessValidB 5 1 s₂.acc a = true ∧ witnessValidB 5 1 s₂.acc c = true ∧
      witnessValidB 5 1 s₀.acc d = true ∧ accEqB 5 a c = true ∧ accEqB 5 b d = true ∧
      accEqB 5 a e = true ∧ accEqB 5 A s₂.acc = true :=
  ⟨_, _, _, _, _, _, rfl, rfl, rfl, rfl, rfl, by decide⟩

/-- on demand: issuer witness valid, updated across a later issue of another index
still valid, invalid once revoked -/
example :
    let s₀ := create 4 false (some 1)
    let s₁ := update s₀ (some [1]) none none
    let s₂ := update s₁ (some [2]) none none
    let s₃ := update s₂ none (some [1]) none
    ∃ A w w', issueAgainst 4 s₀ 1 = some (A, w) ∧ witnessUpdate 4 w s₀ s₂ 1 = some w' ∧
      witnessValidB 5 1 s₁.acc w = true ∧ witnessValidB 5 1 s₂.acc w = false ∧
      witnessValidB 5 1 s₂.acc w' = true ∧ witnessValidB 5 1 s₃.acc w' = false ∧ s₃.acc 1 = 0 :=
  ⟨_, _, _, rfl, rfl, by decide⟩

example : ∃ s, Reachable 3 true s ∧ s.bits[1]? = some true :=
  ⟨update (create 3 true none) none (some [1]) none, .update _ _ _ (.create _), by decide⟩

end AnonModel.StatusList

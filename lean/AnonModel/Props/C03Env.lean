import AnonModel.Model.Envelope
import AnonModel.Model.VerifierW3C
/-!
# C03 / C05 (W3C) — the envelope of a presentation, read from the document

`VerifierW3C.Presentation.validateOk` was supplied by the scenario engine ("did I damage contexts or types?"); the driver now
computes it from the `@context` list and `type` set the document shows (`Envelope.presValid`). These theorems say what
that means for the verdict.
-/
namespace AnonModel.Envelope
open AnonModel.VerifierW3C (verifyW3C)
open AnonModel.Verifier (Request Outcome)

/-- what `W3CPresentation::validate` demands, on the document -/
theorem presValid_iff (cs : List Ctx) (ts : List String) :
    presValid cs ts = true ↔
      ∃ v, version cs = some v ∧ (v = .v11 → Ctx.uri .dataIntegrity ∈ cs) ∧ vocab ∈ cs ∧ presentationType ∈ ts := by
  unfold presValid ctxValid
  cases hv : version cs with
  | none => simp
  | some v => cases v <;> simp <;> grind

/-- a presentation whose envelope is not well-formed is refused with an error, whatever it holds -/
theorem C03_w3c_envelope_refused (ctx : Verifier.Ctx) (r : Request) (p : VerifierW3C.Presentation) (cs : List Ctx) (ts : List String)
    (h : presValid cs ts = false) :
    verifyW3C ctx r { p with validateOk := presValid cs ts } = .err := by
  simp [verifyW3C, h]

/-- an accepted presentation has a well-formed envelope: its first context names a data-model version, a 1.1 document lists
the data-integrity context, the issuer-dependent vocabulary is listed and the type set holds `VerifiablePresentation` -/
theorem C03_w3c_accepted_envelope (ctx : Verifier.Ctx) (r : Request) (p : VerifierW3C.Presentation) (cs : List Ctx) (ts : List String)
    (h : verifyW3C ctx r { p with validateOk := presValid cs ts } = .ok true) :
    ∃ v, version cs = some v ∧ (v = .v11 → Ctx.uri .dataIntegrity ∈ cs) ∧ vocab ∈ cs ∧ presentationType ∈ ts := by
  rw [← presValid_iff]
  cases hp : presValid cs ts with
  | true => rfl
  | false => rw [C03_w3c_envelope_refused ctx r p cs ts hp] at h; cases h

/-- the envelope reaches the verdict through its validity only: two well-formed envelopes (e.g. the 1.1 and the 2.0 form,
or any order of the entries behind the first) give the same verdict -/
theorem C03_w3c_envelope_only_validity (ctx : Verifier.Ctx) (r : Request) (p : VerifierW3C.Presentation)
    (cs₁ cs₂ : List Ctx) (ts₁ ts₂ : List String) (h : presValid cs₁ ts₁ = presValid cs₂ ts₂) :
    verifyW3C ctx r { p with validateOk := presValid cs₁ ts₁ } = verifyW3C ctx r { p with validateOk := presValid cs₂ ts₂ } := by
  rw [h]

end AnonModel.Envelope

import AnonModel.Lemmas.VerifierW3C
/-!
# C05 (W3C form) — an accepted W3C presentation is bound to the request nonce, to one link
secret, to the credential definitions that signed its credentials and to an unaltered proof

Property theorems only (helpers: `Lemmas/VerifierW3C.lean`). The CL crate is replaced by the ideal
functionality `IdealCL` (DESIGN §4): `agg.nonce` is the nonce hashed into the aggregated proof,
`intact` flags say whether a number of a (sub-)proof was altered, `sub.ms` is the link-secret
response of a sub-proof (equal iff same link secret and same proof session), `sub.cred.key` is the
key pair that signed the credential a sub-proof was built from, `agg.bound` lists the sub-proofs
hashed into the aggregated proof.

`CLProofVerifier::new` registers `master_secret` as common attribute (fix commit "require all sub
proofs of a presentation to share one link secret", finding F9 closed; the model calls
`IdealCL.verify … true`), so link-secret equality is checked for every pair of sub-proofs.
-/
namespace AnonModel.VerifierW3C
open AnonModel.Verifier AnonModel.IdealCL

/-- **binding**: if the W3C verifier returns `Ok(true)` then the aggregated proof was made for the
request's nonce and is unaltered; every credential is sound (`CredSound`: unaltered sub-proof built
from a credential signed by the key of the definition the verifier supplied for the credential's
`cred_def_id`, over exactly the attributes of the supplied schema, revealing signed values and
proving true predicates, naming the definition's issuer); all sub-proofs carry the same link-secret
response; and the aggregated proof binds exactly the presented sub-proofs, in order. -/
theorem C05_w3c {ctx : Ctx} {r : Request} {p : Presentation} (h : verifyW3C ctx r p = .ok true) :
    p.agg.nonce = r.nonce ∧ p.agg.intact = true ∧
    (∀ c ∈ p.creds, CredSound ctx c) ∧
    (∀ c d, c ∈ p.creds → d ∈ p.creds → c.sub.ms = d.sub.ms) ∧
    p.agg.bound.map Prod.fst = p.creds.map (·.sub.uid) := by
  obtain ⟨_, _, _, _, _, _, cs, hcs, hv⟩ := verifyW3C_ok_true_iff.mp h
  obtain ⟨hlen, hi, hn, hb, hms, _, _⟩ := verify_true hv
  refine ⟨hn, hi, fun c hc => credSound_of_ok h hc, ?_, ?_⟩
  · intro c d hc hd
    exact hms c.sub (List.mem_map_of_mem hc) d.sub (List.mem_map_of_mem hd)
  · rw [hb, List.map_map]
    have : (Prod.fst ∘ fun pr : SubCtx × SymSub => (pr.2.uid, nrpChecked pr.1 pr.2)) =
        (fun s : SymSub => s.uid) ∘ Prod.snd := rfl
    rw [this, ← List.map_map, List.map_snd_zip (by omega), List.map_map]
    rfl

/-- a presentation made for another nonce is not accepted (replay under a second request) -/
theorem C05_w3c_other_nonce_rejected {ctx : Ctx} {r : Request} {p : Presentation}
    (hn : p.agg.nonce ≠ r.nonce) : verifyW3C ctx r p ≠ .ok true :=
  fun h => hn (C05_w3c h).1

/-- credentials of two link secrets (or of two proof sessions) cannot be combined: two sub-proofs
with different link-secret responses ⇒ not accepted -/
theorem C05_w3c_two_link_secrets_rejected {ctx : Ctx} {r : Request} {p : Presentation}
    {c d : Cred} (hc : c ∈ p.creds) (hd : d ∈ p.creds) (hne : c.sub.ms ≠ d.sub.ms) :
    verifyW3C ctx r p ≠ .ok true :=
  fun h => hne ((C05_w3c h).2.2.2.1 c d hc hd)

/-- any altered number in a sub-proof ⇒ not accepted -/
theorem C05_w3c_altered_subproof_rejected {ctx : Ctx} {r : Request} {p : Presentation}
    {c : Cred} (hc : c ∈ p.creds) (halt : c.sub.intact = false) :
    verifyW3C ctx r p ≠ .ok true := by
  intro h
  obtain ⟨_, _, _, _, hi, _⟩ := (C05_w3c h).2.2.1 c hc
  rw [halt] at hi; cases hi

/-- any altered number in the aggregated proof ⇒ not accepted -/
theorem C05_w3c_altered_aggregate_rejected {ctx : Ctx} {r : Request} {p : Presentation}
    (halt : p.agg.intact = false) : verifyW3C ctx r p ≠ .ok true := by
  intro h
  have := (C05_w3c h).2.1
  rw [halt] at this; cases this

/-- another credential definition under the same id: if the definition the verifier supplies for
the credential's `cred_def_id` carries a key other than the one that signed the credential ⇒ not
accepted -/
theorem C05_w3c_wrong_definition_rejected {ctx : Ctx} {r : Request} {p : Presentation}
    {c : Cred} {cd : CredDefInfo} (hc : c ∈ p.creds)
    (hcd : ctx.credDefs.lookup c.credDefId = some cd) (hkey : c.sub.cred.key ≠ cd.key) :
    verifyW3C ctx r p ≠ .ok true := by
  intro h
  obtain ⟨cd', _, hcd', _, _, hk, _⟩ := (C05_w3c h).2.2.1 c hc
  rw [hcd] at hcd'
  simp only [Option.some.injEq] at hcd'
  subst hcd'
  exact hkey hk

/-- a sub-proof that is not the one hashed into the aggregated proof at its position (added,
dropped, swapped or replaced sub-proof) ⇒ not accepted -/
theorem C05_w3c_unbound_subproof_rejected {ctx : Ctx} {r : Request} {p : Presentation}
    (hb : p.agg.bound.map Prod.fst ≠ p.creds.map (·.sub.uid)) :
    verifyW3C ctx r p ≠ .ok true :=
  fun h => hb (C05_w3c h).2.2.2.2

/-! ### non-vacuity -/

set_option maxRecDepth 100000 in
/-- the hypothesis of `C05_w3c` is satisfiable -/
example : verifyW3C Demo.ctx Demo.req Demo.pres = .ok true := by decide

/-- hypotheses of the rejection corollaries are satisfiable (and the conclusions are not void:
the unmodified presentation is accepted) -/
example : verifyW3C Demo.ctx { Demo.req with nonce := "2" } Demo.pres ≠ .ok true :=
  C05_w3c_other_nonce_rejected (by decide)

example :
    verifyW3C Demo.ctx Demo.req
      { Demo.pres with creds := [Demo.cred, { Demo.cred with sub := { Demo.sub with ms := (8, 1) } }] }
      ≠ .ok true :=
  C05_w3c_two_link_secrets_rejected (c := Demo.cred)
    (d := { Demo.cred with sub := { Demo.sub with ms := (8, 1) } }) (by simp) (by simp) (by decide)

example :
    verifyW3C Demo.ctx Demo.req
      { Demo.pres with creds := [{ Demo.cred with sub := { Demo.sub with intact := false } }] }
      ≠ .ok true :=
  C05_w3c_altered_subproof_rejected (c := { Demo.cred with sub := { Demo.sub with intact := false } })
    (by simp) rfl

example :
    verifyW3C { Demo.ctx with credDefs := [("cd", { issuerId := "I", key := 2, revocable := false })] }
      Demo.req Demo.pres ≠ .ok true :=
  C05_w3c_wrong_definition_rejected (c := Demo.cred)
    (cd := { issuerId := "I", key := 2, revocable := false }) (by simp [Demo.pres]) (by rfl) (by decide)

end AnonModel.VerifierW3C

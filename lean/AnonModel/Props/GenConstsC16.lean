import AnonModel.Gen.Consts
import AnonModel.Model.Query
/-! # C06 / C16: the internal-tag pattern and the qualifiable tags the query model was written for are the ones in `/repo` now -/
namespace AnonModel.GenConsts
open AnonModel.Gen

/-- C06/C16: the internal-tag pattern of `services/verifier.rs` -/
theorem C16_internal_tag_literal_unchanged : re_INTERNAL_TAG_MATCHER = "^attr::([^:]+)::(value|marker)$" := by decide

/-- C16: `Credential::QUALIFIABLE_TAGS` -/
theorem C16_qualifiable_tags_unchanged : qualifiableTags = Query.qualifiableTags := by decide

end AnonModel.GenConsts

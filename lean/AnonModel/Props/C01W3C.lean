import AnonModel.Lemmas.VerifierW3C
import AnonModel.Props.C13
/-!
# C01 (W3C form) — an accepted W3C presentation proves exactly the requested predicates and
attributes

Property theorems only (helpers: `Lemmas/VerifierW3C.lean`). Vocabulary (all about one credential
`c` of the presentation; `c.sub` is its CL sub-proof, `c.sub.cred` the — ghost — credential the
sub-proof was built from, i.e. what the issuer signed):
* `ProvesPred c q` — `c` carries the boolean marker for the requested predicate `q` and its
  sub-proof carries *that* predicate: same attribute (up to `attr_common_view`), same comparison,
  same threshold; and the predicate is true of the signed value;
* `Reveals c n` — the subject of `c` has a string/number for the requested name `n` and the
  sub-proof reveals, for that attribute, the encoding of exactly that string/number, which is the
  value the issuer signed;
* `HoldsAttr ctx c n` — the schema supplied for `c` has the attribute `n` and so does the signed
  credential (the attribute is *held*, not revealed);
* `CredSound ctx c` (Lemmas) — the sub-proof of `c` is an unaltered proof over a credential signed
  with the key of the definition the verifier supplied, etc.

The W3C format has no referent map and no self-attested attributes: each requested item must be
served by some credential of the presentation that also meets the item's restrictions and interval
(`conditionsOk`, see C06 / C02 for what that entails).
-/
namespace AnonModel.VerifierW3C
open AnonModel.Verifier AnonModel.IdealCL AnonModel

/-- the credential proves the requested predicate `q` (same attribute, comparison, threshold) -/
def ProvesPred (c : Cred) (q : PredInfo) : Prop :=
  ∃ a, getPredicate c q.name = some a ∧
    ∃ pr ∈ c.sub.preds, Names.commonView pr.attr = Names.commonView a ∧ pr.ty = q.ty ∧
      pr.value = q.value ∧ Names.commonView pr.attr = Names.commonView q.name ∧
      pr.attr = Names.commonView q.name ∧ predHolds c.sub.cred.attrs pr = true

/-- the credential reveals the requested attribute name `n`, with the issuer-signed value -/
def Reveals (c : Cred) (n : String) : Prop :=
  ∃ k v, getAttribute c n = some (k, v) ∧ Names.commonView k = Names.commonView n ∧
    (∃ kv ∈ c.sub.revealed, Names.commonView kv.1 = Names.commonView k ∧
      Encode.normalizeEnc (Encode.encode v.toStr) = kv.2 ∧ kv.2 = Encode.encode v.toStr ∧
      c.sub.cred.attrs.lookup kv.1 = some kv.2) ∧
    c.sub.cred.attrs.lookup (Names.commonView n) = some (Encode.encode v.toStr)

/-- the credential holds the requested attribute name `n` without revealing it -/
def HoldsAttr (ctx : Ctx) (c : Cred) (n : String) : Prop :=
  ∃ sc, ctx.schemas.lookup c.schemaId = some sc ∧ Names.hasNorm sc.attrNames n = true ∧
    Names.commonView n ∈ c.sub.cred.attrs.map Prod.fst

/-- **requested predicates**: if the W3C verifier returns `Ok(true)`, every requested predicate is
proven — the same predicate — by the sub-proof of a sound credential of the presentation that
meets the predicate's restrictions and non-revocation interval -/
theorem C01_w3c_predicates {ctx : Ctx} {r : Request} {p : Presentation}
    (h : verifyW3C ctx r p = .ok true) :
    ∀ rq ∈ r.preds, ∃ c ∈ p.creds, ProvesPred c rq.2 ∧
      conditionsOk ctx r c rq.2.restrictions rq.2.nonRevoked = true ∧ CredSound ctx c := by
  intro rq hrq
  obtain ⟨_, _, hrd, _⟩ := verifyW3C_ok_true_iff.mp h
  obtain ⟨c, hc, a, ha, ⟨pr, hpr, h1, h2, h3⟩, hcond⟩ :=
    requestedPredicateOk_iff.mp ((requestDataOk_iff.mp hrd).2.1 rq hrq)
  have hs := credSound_of_ok h hc
  obtain ⟨_, _, _, _, _, _, _, _, hpreds, _⟩ := hs
  obtain ⟨_, _, _, _, hpc⟩ := ok_cred_facts h hc
  have hn := (getPredicate_some ha).2
  have hnorm := (paramsConsistent_iff.mp hpc).2 pr hpr
  exact ⟨c, hc, ⟨a, ha, pr, hpr, h1, h2, h3, h1.trans hn, by rw [← hnorm, h1, hn], hpreds pr hpr⟩,
    hcond, credSound_of_ok h hc⟩

/-- **requested attributes**: if the W3C verifier returns `Ok(true)`, every name of every
requested attribute is revealed from (with the issuer-signed value), or shown to be held in, a
sound credential of the presentation that meets the attribute's restrictions and interval -/
theorem C01_w3c_attributes {ctx : Ctx} {r : Request} {p : Presentation}
    (h : verifyW3C ctx r p = .ok true) :
    ∀ ra ∈ r.attrs, ∀ n ∈ ra.2.allNames,
      (∃ c ∈ p.creds, Reveals c n ∧
        conditionsOk ctx r c ra.2.restrictions ra.2.nonRevoked = true ∧ CredSound ctx c) ∨
      (∃ c ∈ p.creds, HoldsAttr ctx c n ∧
        conditionsOk ctx r c ra.2.restrictions ra.2.nonRevoked = true ∧ CredSound ctx c) := by
  intro ra hra n hn
  obtain ⟨_, _, hrd, _⟩ := verifyW3C_ok_true_iff.mp h
  rcases requestedAttributeOk_cases ((requestDataOk_iff.mp hrd).1 ra hra n hn) with
    ⟨c, hc, hrev⟩ | hheld
  · left
    obtain ⟨k, v, hg, hval, hcond⟩ := revealedBy_iff.mp hrev
    obtain ⟨kv, hm, hnm, he⟩ := revealedValueOk_mem hval
    obtain ⟨_, _, _, _, _, _, _, hrevd, _⟩ := credSound_of_ok h hc
    obtain ⟨_, _, _, _, hpc⟩ := ok_cred_facts h hc
    have hkn := (getAttribute_some hg).2.1
    have hnorm := (paramsConsistent_iff.mp hpc).1 kv hm
    have he' : kv.2 = Encode.encode v.toStr := by rw [← he, Encode.C13_normalize_encode]
    refine ⟨c, hc, ⟨k, v, hg, hkn, ⟨kv, hm, hnm, he, he', hrevd kv hm⟩, ?_⟩, hcond,
      credSound_of_ok h hc⟩
    rw [← hkn, ← hnm, hnorm, hrevd kv hm, he']
  · right
    obtain ⟨c, hc, sc, hsc, hhas, hcond⟩ := heldBy_true hheld
    obtain ⟨cd, sc', _, hsc', _, _, hattrs, _⟩ := credSound_of_ok h hc
    rw [hsc] at hsc'
    simp only [Option.some.injEq] at hsc'
    subst hsc'
    obtain ⟨a, ha, han⟩ := hasNorm_iff.mp hhas
    refine ⟨c, hc, ⟨sc, hsc, hhas, ?_⟩, hcond, credSound_of_ok h hc⟩
    rw [← han]
    exact (hattrs _).mp (List.mem_map_of_mem ha)

/-- **cross-request**: a presentation in which no credential carries the requested predicate — no
credential with the marker for `q.name` whose sub-proof has a predicate on that attribute with
`q`'s comparison and threshold (e.g. a presentation produced for a weaker, a different or no
predicate) — is not accepted -/
theorem C01_w3c_cross_request {ctx : Ctx} {r : Request} {p : Presentation} {rq : String × PredInfo}
    (hrq : rq ∈ r.preds)
    (hno : ∀ c ∈ p.creds, ∀ a, getPredicate c rq.2.name = some a → ∀ pr ∈ c.sub.preds,
      ¬ (Names.commonView pr.attr = Names.commonView a ∧ pr.ty = rq.2.ty ∧ pr.value = rq.2.value)) :
    verifyW3C ctx r p ≠ .ok true := by
  intro h
  obtain ⟨c, hc, ⟨a, ha, pr, hpr, h1, h2, h3, _⟩, _⟩ := C01_w3c_predicates h rq hrq
  exact hno c hc a ha pr hpr ⟨h1, h2, h3⟩

/-- the same, looking only at the sub-proofs: no sub-proof of the presentation carries a predicate
on the requested attribute with the requested comparison and threshold ⇒ not accepted (whatever
markers the holder writes into the credential subjects) -/
theorem C01_w3c_cross_request_subproof {ctx : Ctx} {r : Request} {p : Presentation}
    {rq : String × PredInfo} (hrq : rq ∈ r.preds)
    (hno : ∀ c ∈ p.creds, ∀ pr ∈ c.sub.preds,
      ¬ (Names.commonView pr.attr = Names.commonView rq.2.name ∧ pr.ty = rq.2.ty ∧
          pr.value = rq.2.value)) :
    verifyW3C ctx r p ≠ .ok true := by
  intro h
  obtain ⟨c, hc, ⟨a, _, pr, hpr, _, h2, h3, h4, _⟩, _⟩ := C01_w3c_predicates h rq hrq
  exact hno c hc pr hpr ⟨h4, h2, h3⟩

/-- **missing attribute**: a requested name that no signed credential behind the presentation has
(up to normalisation: `commonView n` is not an attribute of any `c.sub.cred`) ⇒ not accepted -/
theorem C01_w3c_missing_attribute_rejected {ctx : Ctx} {r : Request} {p : Presentation}
    {ra : String × AttrInfo} {n : String} (hra : ra ∈ r.attrs) (hn : n ∈ ra.2.allNames)
    (hno : ∀ c ∈ p.creds, Names.commonView n ∉ c.sub.cred.attrs.map Prod.fst) :
    verifyW3C ctx r p ≠ .ok true := by
  intro h
  rcases C01_w3c_attributes h ra hra n hn with ⟨c, hc, ⟨_, _, _, _, _, hl⟩, _⟩ | ⟨c, hc, ⟨_, _, _, hm⟩, _⟩
  · exact hno c hc (lookup_some_mem_keys hl)
  · exact hno c hc hm

/-! ### non-vacuity -/

set_option maxRecDepth 100000 in
/-- an accepted presentation for a request with one attribute and one predicate -/
example : verifyW3C Demo.ctx Demo.req Demo.pres = .ok true ∧ Demo.req.attrs ≠ [] ∧
    Demo.req.preds ≠ [] := by decide

/-- the same presentation (predicate `a ≥ 18`) against a request for `a ≥ 60`, same nonce and
referents: hypotheses of `C01_w3c_cross_request_subproof` hold -/
example :
    verifyW3C Demo.ctx
      { Demo.req with preds := [("p1", { name := "a", ty := "GE", value := 60,
                                          restrictions := none, nonRevoked := none })] }
      Demo.pres ≠ .ok true :=
  C01_w3c_cross_request_subproof
    (rq := ("p1", { name := "a", ty := "GE", value := 60, restrictions := none, nonRevoked := none }))
    (by simp) (by decide)

/-- a request for an attribute no presented credential has -/
example :
    verifyW3C Demo.ctx
      { Demo.req with attrs := [("r1", { name := some "zz", names := none,
                                          restrictions := none, nonRevoked := none })] }
      Demo.pres ≠ .ok true :=
  C01_w3c_missing_attribute_rejected
    (ra := ("r1", { name := some "zz", names := none, restrictions := none, nonRevoked := none }))
    (n := "zz") (by simp) (by simp [AttrInfo.allNames]) (by decide)

end AnonModel.VerifierW3C

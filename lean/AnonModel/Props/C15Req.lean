import AnonModel.Lemmas.WireReq
/-!
# C15 (presentation requests) — a request survives its wire format with identical meaning

"Every exchanged object survives its wire format with identical meaning … serialising the
deserialised object again yields the same document."

This file covers `PresentationRequest` completely: the hand-written `Deserialize` / `Serialize`
of `data_types/pres_request.rs` *and* the serde-derived codecs of `PresentationRequestPayload`,
`AttributeInfo`, `PredicateInfo`, `PredicateTypes`, `NonRevokedInterval` (model:
`Model/WireReq.lean`; nonce, `ver` and restrictions are the models of `Model/Wire.lean` and
`Model/Query.lean`). Property theorems only; helper lemmas are in `Lemmas/WireReq.lean`.

`WfReq r` (`Lemmas/WireReq.lean`, decidable) states the invariants of the Rust type that the Lean
structure does not carry: the nonce is a non-empty digit string, the referents are pairwise distinct
among the attributes and among the predicates, every restriction is `Good` (the image class of
the restriction parser, C16), interval bounds are `u64`s and `p_value`s are `i32`s.
-/
namespace AnonModel.WireReq
open AnonModel.Json
open AnonModel.Query (Query parseRestriction print Good)
open AnonModel.Interval (Ivl)

/-! ## 1. deserialise ∘ serialise = id -/

/-- **de ∘ ser = id**: every well-formed request, written with `Serialize for PresentationRequest`
and read back with `Deserialize for PresentationRequest`, is the same request — nonce, name,
version, every referent with its name / names / restrictions / local interval, every predicate
with its type and value, the request-wide interval, and the version tag. -/
theorem C15_req_de_ser (r : ReqDoc) (h : WfReq r) : reqDe (reqSer r) = some r :=
  reqDe_reqSer h

/-- the same, member by member: an interval, an attribute entry and a predicate entry each
survive on their own -/
theorem C15_req_de_ser_members :
    (∀ i : Ivl, IvlOk i → ivlDe (ivlSer i) = some i) ∧
    (∀ a : AttrInfo, AttrOk a → attrDe (attrSer a) = some a) ∧
    (∀ p : PredInfo, PredOk p → predDe (predSer p) = some p) :=
  ⟨fun _ h => ivlDe_ivlSer h, fun _ h => attrDe_attrSer h, fun _ h => predDe_predSer h⟩

/-- **an interval without bounds is kept**: `non_revoked = Some(NonRevokedInterval { from: None,
to: None })` is written as `{"from":null,"to":null}` — not as `null` — and comes back as
`Some(..)`, not as `None`; request-wide, on an attribute and on a predicate. -/
theorem C15_req_empty_interval_kept :
    ivlSer ⟨none, none⟩ = .obj [("from", .null), ("to", .null)] ∧
    ivlDe (ivlSer ⟨none, none⟩) = some ⟨none, none⟩ ∧
    optVal ivlDe (optSer ivlSer (some ⟨none, none⟩)) = some (some ⟨none, none⟩) ∧
    (∀ r : ReqDoc, WfReq r → r.nonRevoked = some ⟨none, none⟩ →
      (reqDe (reqSer r)).map (·.nonRevoked) = some (some ⟨none, none⟩)) ∧
    (∀ a : AttrInfo, AttrOk a → a.nonRevoked = some ⟨none, none⟩ →
      (attrDe (attrSer a)).map (·.nonRevoked) = some (some ⟨none, none⟩)) ∧
    (∀ p : PredInfo, PredOk p → p.nonRevoked = some ⟨none, none⟩ →
      (predDe (predSer p)).map (·.nonRevoked) = some (some ⟨none, none⟩)) := by
  refine ⟨rfl, rfl, rfl, ?_, ?_, ?_⟩
  · intro r h e; rw [reqDe_reqSer h, Option.map_some, e]
  · intro a h e; rw [attrDe_attrSer h, Option.map_some, e]
  · intro p h e; rw [predDe_predSer h, Option.map_some, e]

/-- **a restriction is kept**: `restrictions = Some(q)` comes back as `Some(q)` for every `Good`
query `q`; in particular the empty conjunction `And([])` is written as `{}` and comes back as
`Some(And([]))`, not as `None`. -/
theorem C15_req_restrictions_kept :
    (∀ q : Query, Good q → optVal parseRestriction (optSer print (some q)) = some (some q)) ∧
    optSer print (some (.and [])) = .obj [] ∧
    optVal parseRestriction (optSer print (some (.and []))) = some (some (.and [])) ∧
    (∀ a : AttrInfo, AttrOk a → ∀ q, a.restrictions = some q →
      (attrDe (attrSer a)).map (·.restrictions) = some (some q)) ∧
    (∀ p : PredInfo, PredOk p → ∀ q, p.restrictions = some q →
      (predDe (predSer p)).map (·.restrictions) = some (some q)) := by
  refine ⟨fun q h => optQuery_roundtrip (o := some q) h, rfl, rfl, ?_, ?_⟩
  · intro a h q e; rw [attrDe_attrSer h, Option.map_some, e]
  · intro p h q e; rw [predDe_predSer h, Option.map_some, e]

/-! ## 2. serialise ∘ deserialise is stable -/

/-- **what arrives re-serialises to something that reads as the same request**, and it is well
formed (so `C15_req_de_ser` applies to everything that was ever parsed). `j.WF` — every object of
the document has strictly increasing, hence unique, keys: what `serde_json::Value` (a `BTreeMap`)
guarantees — is used for the distinctness of the referents only. Moreover the re-serialised
document is again `WF`. -/
theorem C15_req_ser_de {j : Json} {r : ReqDoc} (hj : j.WF = true) (h : reqDe j = some r) :
    reqDe (reqSer r) = some r ∧ WfReq r ∧ (reqSer r).WF = true := by
  have hw := reqDe_wf hj h
  refine ⟨reqDe_reqSer hw, hw, ?_⟩
  cases j with
  | obj m =>
    simp only [Json.WF, Bool.and_eq_true] at hj
    obtain ⟨_, _, _, _, _, _, ha, hp, _⟩ := reqDe_obj_eq_some.mp h
    exact reqSer_wf r (mapMember_keys_sorted hj.2 ha) (mapMember_keys_sorted hj.2 hp)
  | _ => cases h

/-- the round trip alone needs no hypothesis on the document: for *every* JSON value `j`
(duplicate keys in an association list included), if it reads as `r` then `reqSer r` reads as `r` -/
theorem C15_req_ser_de_any {j : Json} {r : ReqDoc} (h : reqDe j = some r) :
    reqDe (reqSer r) = some r := by
  obtain ⟨h1, h2, h3, h4⟩ := reqDe_wf_weak h
  exact reqDe_reqSer_weak h1 h2 h3 h4

/-- hence `ser ∘ de` is idempotent on documents: reading, writing, reading and writing again
gives the document of the first writing -/
theorem C15_req_ser_de_idempotent {j : Json} {r : ReqDoc} (h : reqDe j = some r) :
    (reqDe (reqSer r)).map reqSer = some (reqSer r) := by
  rw [C15_req_ser_de_any h]; rfl

/-- what `reqSer` writes is a `BTreeMap`-shaped value whenever the two referent lists are
strictly increasing -/
theorem C15_req_ser_wellformed (r : ReqDoc) (ha : keysSorted (r.attrs.map (·.1)) = true)
    (hp : keysSorted (r.preds.map (·.1)) = true) : (reqSer r).WF = true :=
  reqSer_wf r ha hp

/-! ## 3. missing member vs `null` vs `{}` -/

/-- **`non_revoked` of the request**: let `m` be any object *without* the member and `m'` any
object that agrees with `m` on the other six known members (`reqKeys`; unknown members are
free). Then (1) `m` reads with `non_revoked = None`; (2) if `m'` has `"non_revoked": null` it
reads exactly like `m`; (3) if `m'` has `"non_revoked": {}` and `m` reads as `r`, then `m'` reads
as `r` with `non_revoked = Some({from: None, to: None})`. -/
theorem C15_req_missing_vs_null (m m' : List (String × Json))
    (hsame : ∀ k ∈ reqKeys, k ≠ "non_revoked" → m'.lookup k = m.lookup k)
    (hmiss : m.lookup "non_revoked" = none) :
    (∀ r, reqDe (.obj m) = some r → r.nonRevoked = none) ∧
    (m'.lookup "non_revoked" = some .null → reqDe (.obj m') = reqDe (.obj m)) ∧
    (m'.lookup "non_revoked" = some (.obj []) → ∀ r, reqDe (.obj m) = some r →
      reqDe (.obj m') = some { r with nonRevoked := some ⟨none, none⟩ }) := by
  have e1 := hsame "ver" (by simp [reqKeys]) (by decide)
  have e2 := hsame "nonce" (by simp [reqKeys]) (by decide)
  have e3 := hsame "name" (by simp [reqKeys]) (by decide)
  have e4 := hsame "version" (by simp [reqKeys]) (by decide)
  have e5 := hsame "requested_attributes" (by simp [reqKeys]) (by decide)
  have e6 := hsame "requested_predicates" (by simp [reqKeys]) (by decide)
  refine ⟨?_, ?_, ?_⟩
  · intro r h
    obtain ⟨_, _, _, _, _, _, _, _, h7⟩ := reqDe_obj_eq_some.mp h
    rw [hmiss] at h7
    simpa [optMember] using h7.symm
  · intro hnull
    apply Option.ext
    intro r
    rw [reqDe_obj_eq_some, reqDe_obj_eq_some, e1, e2, e3, e4, e5, e6, hnull, hmiss]
    rfl
  · intro hobj r h
    obtain ⟨ver, h0, hv, h1, h2, h3, h4, h5, _⟩ := reqDe_obj_eq_some.mp h
    rw [reqDe_obj_eq_some, e1, e2, e3, e4, e5, e6, hobj]
    exact ⟨ver, h0, hv, h1, h2, h3, h4, h5, rfl⟩

/-- the same for the local interval of a requested attribute -/
theorem C15_req_missing_vs_null_local (m m' : List (String × Json))
    (hsame : ∀ k ∈ ["name", "names", "restrictions"], m'.lookup k = m.lookup k)
    (hmiss : m.lookup "non_revoked" = none) :
    (∀ a, attrDe (.obj m) = some a → a.nonRevoked = none) ∧
    (m'.lookup "non_revoked" = some .null → attrDe (.obj m') = attrDe (.obj m)) ∧
    (m'.lookup "non_revoked" = some (.obj []) → ∀ a, attrDe (.obj m) = some a →
      attrDe (.obj m') = some { a with nonRevoked := some ⟨none, none⟩ }) := by
  have e1 := hsame "name" (by simp)
  have e2 := hsame "names" (by simp)
  have e3 := hsame "restrictions" (by simp)
  refine ⟨?_, ?_, ?_⟩
  · intro a h
    obtain ⟨_, _, _, h4⟩ := attrDe_obj_eq_some.mp h
    rw [hmiss] at h4
    simpa [optMember] using h4.symm
  · intro hnull
    apply Option.ext
    intro a
    rw [attrDe_obj_eq_some, attrDe_obj_eq_some, e1, e2, e3, hnull, hmiss]
    rfl
  · intro hobj a h
    obtain ⟨h1, h2, h3, _⟩ := attrDe_obj_eq_some.mp h
    rw [attrDe_obj_eq_some, e1, e2, e3, hobj]
    exact ⟨h1, h2, h3, rfl⟩

/-- the three cases on the interval codec itself, and the bounds: a missing bound and a `null`
bound are both `None`; the array form `[from, to]` is accepted too (serde reads a struct from a
sequence); a bound that is not a `u64` (negative, `2^64`, string) is an error -/
theorem C15_req_interval_forms :
    optMember ivlDe none = some none ∧
    optMember ivlDe (some .null) = some none ∧
    optMember ivlDe (some (.obj [])) = some (some ⟨none, none⟩) ∧
    ivlDe (.obj [("from", .null), ("to", .num 5)]) = some ⟨none, some 5⟩ ∧
    ivlDe (.obj [("to", .num 5)]) = some ⟨none, some 5⟩ ∧
    ivlDe (.arr [.num 1, .null]) = some ⟨some 1, none⟩ ∧
    ivlDe (.arr [.num 1]) = none ∧
    ivlDe (.obj [("from", .num (-1))]) = none ∧
    ivlDe (.obj [("from", .num 18446744073709551615)]) = some ⟨some 18446744073709551615, none⟩ ∧
    ivlDe (.obj [("from", .num 18446744073709551616)]) = none ∧
    ivlDe (.obj [("from", .str "1")]) = none := by
  refine ⟨rfl, rfl, rfl, ?_, ?_, ?_, ?_, ?_, ?_, ?_, ?_⟩ <;> decide

/-! ## 4. the `ver` member -/

/-- **`ver`**: member absent, `null` or `"1.0"` → version 1; `"2.0"` → version 2; any other string
(`"3.0"`, `"1"`, `"2.00"`) → error; anything that is neither `null` nor a string (a number such as
`2.0`, a boolean, an array, an object) → error — whatever the rest of the object is. -/
theorem C15_req_ver (m : List (String × Json)) :
    ((m.lookup "ver" = none ∨ m.lookup "ver" = some .null ∨ m.lookup "ver" = some (.str "1.0")) →
      ∀ r, reqDe (.obj m) = some r → r.v2 = false) ∧
    (m.lookup "ver" = some (.str "2.0") → ∀ r, reqDe (.obj m) = some r → r.v2 = true) ∧
    (∀ s, m.lookup "ver" = some (.str s) → s ≠ "1.0" → s ≠ "2.0" → reqDe (.obj m) = none) ∧
    (∀ v, m.lookup "ver" = some v → v ≠ .null → (∀ s, v ≠ .str s) → reqDe (.obj m) = none) := by
  refine ⟨?_, ?_, ?_, ?_⟩
  · intro hv r h
    obtain ⟨ver, h0, hv2, _⟩ := reqDe_obj_eq_some.mp h
    rcases hv with e | e | e <;> rw [e] at h0 <;> cases h0 <;> exact hv2
  · intro e r h
    obtain ⟨ver, h0, hv2, _⟩ := reqDe_obj_eq_some.mp h
    rw [e] at h0; cases h0; exact hv2
  · intro s e h1 h2
    have : Wire.verDe ((m.lookup "ver").map toW) = none := by
      simp [e, toW, Wire.verDe, h1, h2]
    simp only [reqDe, this]
  · intro v e hn hs
    have : Wire.verDe ((m.lookup "ver").map toW) = none := by
      rw [e]
      cases v with
      | null => exact absurd rfl hn
      | str s => exact absurd rfl (hs s)
      | _ => rfl
    simp only [reqDe, this]

/-- **the tag is only a tag**: if `m` reads as `r` and `m'` agrees with `m` on the other six known
members, then `m'` reads as `r` with the version its own `ver` member selects — acceptance of
the payload and its content do not depend on the version. -/
theorem C15_req_ver_only_tag (m m' : List (String × Json)) (r : ReqDoc)
    (hsame : ∀ k ∈ reqKeys, k ≠ "ver" → m'.lookup k = m.lookup k) (h : reqDe (.obj m) = some r) :
    ((m'.lookup "ver" = none ∨ m'.lookup "ver" = some .null ∨ m'.lookup "ver" = some (.str "1.0")) →
      reqDe (.obj m') = some { r with v2 := false }) ∧
    (m'.lookup "ver" = some (.str "2.0") → reqDe (.obj m') = some { r with v2 := true }) := by
  have e2 := hsame "nonce" (by simp [reqKeys]) (by decide)
  have e3 := hsame "name" (by simp [reqKeys]) (by decide)
  have e4 := hsame "version" (by simp [reqKeys]) (by decide)
  have e5 := hsame "requested_attributes" (by simp [reqKeys]) (by decide)
  have e6 := hsame "requested_predicates" (by simp [reqKeys]) (by decide)
  have e7 := hsame "non_revoked" (by simp [reqKeys]) (by decide)
  obtain ⟨_, _, _, h1, h2, h3, h4, h5, h6⟩ := reqDe_obj_eq_some.mp h
  constructor
  · intro hv
    rw [reqDe_obj_eq_some, e2, e3, e4, e5, e6, e7]
    refine ⟨.v1, ?_, rfl, h1, h2, h3, h4, h5, h6⟩
    rcases hv with e | e | e <;> rw [e] <;> rfl
  · intro hv
    rw [reqDe_obj_eq_some, e2, e3, e4, e5, e6, e7]
    refine ⟨.v2, ?_, rfl, h1, h2, h3, h4, h5, h6⟩
    rw [hv]; rfl

/-- serialising always writes the member: `"1.0"` for version 1, `"2.0"` for version 2 -/
theorem C15_req_ver_written (r : ReqDoc) :
    ∃ m, reqSer r = .obj m ∧ m.lookup "ver" = some (.str (if r.v2 then "2.0" else "1.0")) :=
  ⟨_, rfl, rfl⟩

/-! ## 5. unknown members, required members, rejected shapes -/

/-- unknown members are ignored at the top level: two objects that agree on the seven known
members read alike -/
theorem C15_req_unknown_members_ignored (m m' : List (String × Json))
    (h : ∀ k ∈ reqKeys, m'.lookup k = m.lookup k) : reqDe (.obj m') = reqDe (.obj m) :=
  reqDe_congr h

/-- `nonce`, `name`, `version` are required; the two maps default to empty; everything that is
not an object is rejected (the array form of a struct cannot succeed at the top level) -/
theorem C15_req_required_members (m : List (String × Json)) :
    (m.lookup "nonce" = none → reqDe (.obj m) = none) ∧
    (m.lookup "name" = none → reqDe (.obj m) = none) ∧
    (m.lookup "version" = none → reqDe (.obj m) = none) ∧
    (m.lookup "requested_attributes" = none → ∀ r, reqDe (.obj m) = some r → r.attrs = []) ∧
    (m.lookup "requested_predicates" = none → ∀ r, reqDe (.obj m) = some r → r.preds = []) ∧
    (m.lookup "requested_attributes" = some .null → reqDe (.obj m) = none) ∧
    (∀ j, (∀ m, j ≠ .obj m) → reqDe j = none) := by
  have none_of : ∀ {x : Option ReqDoc}, (∀ r, x = some r → False) → x = none := by
    intro x h; cases x with
    | none => rfl
    | some r => exact (h r rfl).elim
  refine ⟨?_, ?_, ?_, ?_, ?_, ?_, ?_⟩
  · intro e; apply none_of; intro r h
    obtain ⟨_, _, _, h1, _⟩ := reqDe_obj_eq_some.mp h
    rw [e] at h1; cases h1
  · intro e; apply none_of; intro r h
    obtain ⟨_, _, _, _, h2, _⟩ := reqDe_obj_eq_some.mp h
    rw [e] at h2; cases h2
  · intro e; apply none_of; intro r h
    obtain ⟨_, _, _, _, _, h3, _⟩ := reqDe_obj_eq_some.mp h
    rw [e] at h3; cases h3
  · intro e r h
    obtain ⟨_, _, _, _, _, _, h4, _⟩ := reqDe_obj_eq_some.mp h
    rw [e] at h4; exact (Option.some.inj h4).symm
  · intro e r h
    obtain ⟨_, _, _, _, _, _, _, h5, _⟩ := reqDe_obj_eq_some.mp h
    rw [e] at h5; exact (Option.some.inj h5).symm
  · intro e; apply none_of; intro r h
    obtain ⟨_, _, _, _, _, _, h4, _⟩ := reqDe_obj_eq_some.mp h
    rw [e] at h4; cases h4
  · intro j hj
    cases j with
    | obj m => exact absurd rfl (hj m)
    | _ => rfl

/-- `p_value` is an `i32`, `p_type` one of the four operators — as a string or, the code as it
is, as the single-key object `{">=": null}` serde accepts for a unit variant -/
theorem C15_req_predicate_leaves :
    i32De (.num 2147483647) = some 2147483647 ∧ i32De (.num 2147483648) = none ∧
    i32De (.num (-2147483648)) = some (-2147483648) ∧ i32De (.num (-2147483649)) = none ∧
    i32De (.str "18") = none ∧ i32De .null = none ∧
    pTypeDe (.str ">=") = some .ge ∧ pTypeDe (.str "<=") = some .le ∧
    pTypeDe (.str ">") = some .gt ∧ pTypeDe (.str "<") = some .lt ∧
    pTypeDe (.str "GE") = none ∧ pTypeDe (.str "==") = none ∧
    pTypeDe (.obj [(">=", .null)]) = some .ge ∧ pTypeDe (.obj [(">=", .num 1)]) = none ∧
    pTypeDe (.obj []) = none ∧ pTypeDe .null = none := by
  decide

/-! ## non-vacuity and boundary examples -/

/-- two attributes (one a `names` group with restrictions and an empty local interval), one
predicate with a local interval, a request-wide interval with `from` only, version 2 -/
def sampleReq : ReqDoc :=
  { nonce := "123456789012345678901234", name := "proof_req", version := "0.1",
    attrs := [("attr1_referent", ⟨some "name", none, none, none⟩),
              ("attr2_referent", ⟨none, some ["sex", "height"],
                some (.and [.eq "schema_id" "s:1", .isIn "cred_def_id" ["c1", "c2"],
                            .not (.exist ["attr::age::marker"])]),
                some ⟨none, none⟩⟩)],
    preds := [("pred1_referent", ⟨"age", .ge, 18, some (.or [.eq "issuer_id" "did:x"]),
                some ⟨some 5, some 10⟩⟩)],
    nonRevoked := some ⟨some 1700000000, none⟩, v2 := true }

example : WfReq sampleReq := by decide
example : reqDe (reqSer sampleReq) = some sampleReq := by rfl
example : reqDe (reqSer sampleReq) = some sampleReq := C15_req_de_ser _ (by decide)
example : (reqSer sampleReq).WF = true := by decide

/-- the minimal document -/
def minimalDoc : List (String × Json) :=
  [("name", .str "n"), ("nonce", .str "1"), ("version", .str "v")]

/-- what the minimal document reads as -/
def minimalReq : ReqDoc :=
  { nonce := "1", name := "n", version := "v", attrs := [], preds := [], nonRevoked := none,
    v2 := false }

example : reqDe (.obj minimalDoc) = some minimalReq := by rfl
-- missing / null / {} on concrete documents (the hypotheses of `C15_req_missing_vs_null` are satisfiable)
example : reqDe (.obj (("non_revoked", .null) :: minimalDoc)) = some minimalReq := by rfl
example : reqDe (.obj (("non_revoked", .obj []) :: minimalDoc)) =
    some { minimalReq with nonRevoked := some ⟨none, none⟩ } := by rfl
example : reqDe (.obj (("non_revoked", .obj [("from", .null), ("to", .num 5)]) :: minimalDoc)) =
    some { minimalReq with nonRevoked := some ⟨none, some 5⟩ } := by rfl
-- ver
example : reqDe (.obj (minimalDoc ++ [("ver", .str "2.0")])) = some { minimalReq with v2 := true } := by rfl
example : reqDe (.obj (minimalDoc ++ [("ver", .str "1.0")])) = some minimalReq := by rfl
example : reqDe (.obj (minimalDoc ++ [("ver", .null)])) = some minimalReq := by rfl
example : reqDe (.obj (minimalDoc ++ [("ver", .str "3.0")])) = none := by rfl
example : reqDe (.obj (minimalDoc ++ [("ver", .num 2)])) = none := by rfl
-- nonce forms: number and byte array are accepted and written back as the decimal string
example : reqDe (.obj [("name", .str "n"), ("nonce", .num 12), ("version", .str "v")]) =
    some { minimalReq with nonce := "12" } := by rfl
example : reqDe (.obj [("name", .str "n"), ("nonce", .arr [.num 1, .num 2]), ("version", .str "v")]) =
    some { minimalReq with nonce := "258" } := by rfl
example : reqDe (.obj [("name", .str "n"), ("nonce", .str "12a"), ("version", .str "v")]) = none := by rfl
example : reqDe (.obj [("name", .str "n"), ("nonce", .num (-12)), ("version", .str "v")]) = none := by rfl
example : reqDe (.obj [("name", .str "n"), ("nonce", .num 18446744073709551616), ("version", .str "v")]) =
    none := by rfl
-- the array forms of the inner structs (the code as it is)
example : attrDe (.arr [.str "x", .null, .null, .null]) = some ⟨some "x", none, none, none⟩ := by rfl
example : attrDe (.arr [.str "x", .null, .null]) = none := by rfl
example : predDe (.arr [.str "age", .str "<", .num 5, .null, .null]) = some ⟨"age", .lt, 5, none, none⟩ := by rfl
-- restrictions: `{"$not": {}}`, the legacy list with a null entry, a number
example : attrDe (.obj [("name", .str "x"), ("restrictions", .obj [("$not", .obj [])])]) =
    some ⟨some "x", none, some (.not (.and [])), none⟩ := by rfl
example : attrDe (.obj [("name", .str "x"),
      ("restrictions", .arr [.obj [("cred_def_id", .str "x"), ("schema_id", .null)]])]) =
    some ⟨some "x", none, some (.or [.eq "cred_def_id" "x"]), none⟩ := by rfl
example : attrDe (.obj [("name", .str "x"), ("restrictions", .num 5)]) = none := by rfl
-- the hypotheses of `C15_req_de_ser` are needed: `Or([])` comes back as `And([])`, an empty nonce,
-- an out-of-range `p_value` or bound do not come back at all
example : reqDe (reqSer { minimalReq with attrs := [("a", ⟨some "x", none, some (.or []), none⟩)] }) =
    some { minimalReq with attrs := [("a", ⟨some "x", none, some (.and []), none⟩)] } := by rfl
example : reqDe (reqSer { minimalReq with nonce := "" }) = none := by rfl
example : reqDe (reqSer { minimalReq with preds := [("p", ⟨"age", .ge, 2147483648, none, none⟩)] }) = none := by
  rfl
example : reqDe (reqSer { minimalReq with nonRevoked := some ⟨some 18446744073709551616, none⟩ }) = none := by
  rfl
-- … and so is `j.WF` for the distinctness clause of `C15_req_ser_de`: an association list with a
-- repeated referent (not a `serde_json::Value`) reads as a list with a repeated referent
example : ¬ WfReq { minimalReq with attrs := [("a", ⟨some "x", none, none, none⟩), ("a", ⟨some "y", none, none, none⟩)] } := by
  decide

end AnonModel.WireReq

import AnonModel.Lemmas.Interval
/-!
# C08 — non-revocation intervals resolve to a definite acceptance window per credential

Property theorems only (helpers are in `Lemmas/Interval.lean`). Vocabulary:
* `C08_demand loc glob id ovr` — what one referent served by a credential of registry `id`
  demands: its own interval if it has one, else the request-wide one, lower bound replaced by
  the verifier's override for that registry and that bound;
* `C08_tight locals glob id ovr` — the tightest combination of the local intervals of a list
  of referents (override applied to their merge), or the overridden request-wide interval
  when none of them has a local one.

Status. Everything about the interval algebra, the override, the W3C per-referent check, and
the legacy check *as a function of the intervals of the revealed-attribute and predicate
referents with a registry id present* is proved in full. Three statements of the property are
**false for the code** and are delivered as `_refuted` (concrete witness) + `_partial`:
* `C08_accept_legacy` for *all* referents a credential serves (unrevealed ones are not looked
  at by the verifier, so the request-wide interval is imposed on a credential whose only
  referents carry their own interval);
* `C08_reject_legacy` for all referents (a local interval on an unrevealed referent is
  ignored) and for all identifiers (without `rev_reg_id` the request-wide interval and the
  override are ignored);
* `C08_needs_timestamp_{legacy,w3c}` for all identifiers (same reason).
The worry that the legacy code applies the override *after* merging the locals (so the key
is the merged lower bound) turns out to be harmless for acceptance: the merged lower bound
is the lower bound of one of the locals, so the overridden merged bound is that referent's
demanded bound (`C08_accept_legacy_partial` holds for every override map, including maps
that raise bounds).
Not in this file: "no status list for the named timestamp ⇒ failure" (`C08_needs_list`) is a
fact about `CLProofVerifier::add_sub_proof`, outside the interval model.
-/
namespace AnonModel.Interval

/-! ### the merge (`compare_and_set`) is a semilattice and validity distributes over it -/

/-- merging two intervals does not depend on which one is `self` -/
theorem C08_merge_comm (a b : Ivl) : merge a b = merge b a := merge_comm a b

/-- merging does not depend on the grouping -/
theorem C08_merge_assoc (a b c : Ivl) : merge (merge a b) c = merge a (merge b c) :=
  merge_assoc a b c

/-- merging an interval with itself changes nothing -/
theorem C08_merge_idem (a : Ivl) : merge a a = a := merge_idem a

/-- a `u64` timestamp passes the merged interval iff it passes both -/
theorem C08_valid_merge (a b : Ivl) (t : Nat) (ht : t < 2 ^ 64) :
    valid (merge a b) t = true ↔ valid a t = true ∧ valid b t = true := by
  simp only [valid_iff, merge, loOk_mergeLo, hiOk_mergeHi _ _ _ ht]
  constructor
  · rintro ⟨⟨h1, h2⟩, h3, h4⟩; exact ⟨⟨h1, h3⟩, h2, h4⟩
  · rintro ⟨⟨h1, h3⟩, h2, h4⟩; exact ⟨⟨h1, h2⟩, h3, h4⟩

/-- the fold of `get_requested_attributes` / `get_requested_predicates` yields no interval
iff no referent has a local one -/
theorem C08_fold_none_iff (locals : List (Option Ivl)) :
    foldLocals locals = none ↔ ∀ x ∈ locals, x = none := foldLocals_eq_none locals

/-- a `u64` timestamp passes the folded interval iff it passes every local interval -/
theorem C08_valid_foldMerge (locals : List (Option Ivl)) (t : Nat) (ht : t < 2 ^ 64) :
    validOpt (foldLocals locals) t = true ↔ ∀ l, some l ∈ locals → valid l t = true := by
  induction locals with
  | nil => simp [foldLocals_nil, validOpt]
  | cons x xs ih =>
    rw [foldLocals_cons]
    cases x with
    | none =>
      rw [mergeOpt_none_left, ih]
      simp only [List.mem_cons]
      constructor
      · intro h l hl
        rcases hl with hl | hl
        · cases hl
        · exact h l hl
      · intro h l hl; exact h l (Or.inr hl)
    | some a =>
      cases hf : foldLocals xs with
      | none =>
        have hnone := (foldLocals_eq_none xs).mp hf
        simp only [mergeOpt, validOpt, List.mem_cons]
        constructor
        · intro h l hl
          rcases hl with hl | hl
          · cases hl; exact h
          · cases hnone _ hl
        · intro h; exact h a (Or.inl rfl)
      | some b =>
        rw [hf] at ih
        simp only [validOpt] at ih
        simp only [mergeOpt, validOpt, List.mem_cons, C08_valid_merge a b t ht, ih]
        constructor
        · rintro ⟨ha, hb⟩ l hl
          rcases hl with hl | hl
          · cases hl; exact ha
          · exact hb l hl
        · intro h; exact ⟨h a (Or.inl rfl), fun l hl => h l (Or.inr hl)⟩

/-- **order independence**: the referents are iterated in `HashSet` order; any two orders
give the same interval -/
theorem C08_fold_perm {locals locals' : List (Option Ivl)} (h : locals.Perm locals') :
    foldLocals locals = foldLocals locals' :=
  h.foldl_eq' (fun x _ y _ z => mergeOpt_right_comm z x y) none

/-- merging the attribute-side and the predicate-side fold, as `check_non_revoked_interval`
and `get_non_revoked_interval` do, is the fold over all the referents together -/
theorem C08_fold_split (attrsL predsL : List (Option Ivl)) :
    mergeOpt (foldLocals attrsL) (foldLocals predsL) = foldLocals (attrsL ++ predsL) :=
  (foldLocals_append attrsL predsL).symm

/-! ### open bounds -/

/-- a missing lower bound is `0` and a missing upper bound is `u64::MAX`: every `u64`
timestamp passes an absent bound, and a present bound is an inclusive comparison -/
theorem C08_open_bounds (t : Nat) (ht : t < 2 ^ 64) :
    valid ⟨none, none⟩ t = true ∧
    (∀ u, valid ⟨none, some u⟩ t = decide (t ≤ u)) ∧
    (∀ f, valid ⟨some f, none⟩ t = decide (f ≤ t)) ∧
    (∀ f u, valid ⟨some f, some u⟩ t = decide (f ≤ t ∧ t ≤ u)) := by
  have hmax : t ≤ u64Max := by simp only [u64Max]; omega
  refine ⟨?_, ?_, ?_, ?_⟩
  · rw [valid_iff]; exact ⟨Nat.zero_le _, hmax⟩
  · intro u; rw [Bool.eq_iff_iff, valid_iff, decide_eq_true_iff]
    exact ⟨fun h => h.2, fun h => ⟨Nat.zero_le _, h⟩⟩
  · intro f; rw [Bool.eq_iff_iff, valid_iff, decide_eq_true_iff]
    exact ⟨fun h => h.1, fun h => ⟨h, hmax⟩⟩
  · intro f u; rw [Bool.eq_iff_iff, valid_iff, decide_eq_true_iff]
    exact Iff.rfl

/-! ### the verifier's override -/

/-- the override never touches the upper bound — of the interval it is applied to, and
hence of what `get_requested_non_revoked_interval` returns -/
theorem C08_override_only_from (id : String) (ovr : Option Overrides) (m : List (Nat × Nat))
    (i : Ivl) (regId : Option String) (loc glob : Option Ivl) :
    (applyOverride m i).hi = i.hi ∧ (overrideFor id ovr i).hi = i.hi ∧
    (requested regId loc glob ovr).map (·.hi) = (requested regId loc glob none).map (·.hi) := by
  refine ⟨applyOverride_hi m i, overrideFor_hi id ovr i, ?_⟩
  cases regId with
  | none => rfl
  | some r =>
    rw [requested_some, requested_some]
    cases loc <;> cases glob <;> simp [overrideFor_hi]

/-- **the override is keyed by registry id and requested lower bound**: the result is the
interval with its lower bound `f` replaced by `v` exactly when an override is given, it has a
map for *this* registry id, and that map has the *requested* lower bound `f` as key (with
value `v`); in every other case the interval is unchanged -/
theorem C08_override_keyed (id : String) (ovr : Option Overrides) (i : Ivl) :
    overrideFor id ovr i =
      match i.lo with
      | none => i
      | some f =>
        match (ovr.bind (fun maps => maps.lookup id)).bind (fun m => m.lookup f) with
        | some v => ⟨some v, i.hi⟩
        | none => i := by
  unfold overrideFor applyOverride
  cases ovr with
  | none => cases i.lo <;> rfl
  | some maps =>
    simp only [Option.bind_some]
    cases maps.lookup id with
    | none => cases i.lo <;> rfl
    | some m =>
      simp only [Option.bind_some]
      cases i.lo with
      | none => rfl
      | some f => simp only; cases m.lookup f <;> rfl

/-- hit: registry and requested bound are keys ⇒ the lower bound becomes the mapped value -/
theorem C08_override_keyed_hit {id : String} {maps : Overrides} {m : List (Nat × Nat)}
    {i : Ivl} {f v : Nat} (h1 : maps.lookup id = some m) (h2 : i.lo = some f)
    (h3 : m.lookup f = some v) : overrideFor id (some maps) i = ⟨some v, i.hi⟩ := by
  rw [C08_override_keyed, h2]; simp [h1, h3]

/-- miss: no override, no map for this registry, no lower bound, or the requested lower
bound is not a key ⇒ unchanged (a map filed under another registry, or a key equal to some
other number such as the upper bound, has no effect) -/
theorem C08_override_keyed_miss {id : String} {ovr : Option Overrides} {i : Ivl}
    (h : ∀ maps m f, ovr = some maps → maps.lookup id = some m → i.lo = some f →
      m.lookup f = none) : overrideFor id ovr i = i := by
  rw [C08_override_keyed]
  cases hlo : i.lo with
  | none => rfl
  | some f =>
    cases ovr with
    | none => rfl
    | some maps =>
      simp only [Option.bind_some]
      cases hm : maps.lookup id with
      | none => rfl
      | some m => simp only [Option.bind_some, h maps m f rfl hm hlo]

/-! ### what a referent demands -/

/-- the demand of one referent (with local interval `loc`, possibly absent) served by a
credential whose identifier names registry `id` -/
def C08_demand (loc glob : Option Ivl) (id : String) (ovr : Option Overrides) : Option Ivl :=
  requested (some id) loc glob ovr

/-- the demand is the referent's own interval if it has one, else the request-wide one, then
the override for that registry (see `C08_override_keyed`); no interval at all ⇒ no demand -/
theorem C08_demand_spec (loc glob : Option Ivl) (id : String) (ovr : Option Overrides) :
    (∀ l, loc = some l → C08_demand loc glob id ovr = some (overrideFor id ovr l)) ∧
    (∀ g, loc = none → glob = some g → C08_demand loc glob id ovr = some (overrideFor id ovr g)) ∧
    (loc = none → glob = none → C08_demand loc glob id ovr = none) := by
  refine ⟨?_, ?_, ?_⟩
  · rintro l rfl; rfl
  · rintro g rfl rfl; rfl
  · rintro rfl rfl; rfl

/-- tightest combination: override applied to the merge of the local intervals, or to the
request-wide interval when there is no local one -/
def C08_tight (locals : List (Option Ivl)) (glob : Option Ivl) (id : String)
    (ovr : Option Overrides) : Option Ivl :=
  match foldLocals locals with
  | some i => some (overrideFor id ovr i)
  | none =>
    match glob with
    | some g => some (overrideFor id ovr g)
    | none => none

/-- "an interval applies": some referent in the list has a local one, or there is a
request-wide one -/
theorem C08_tight_isSome (locals : List (Option Ivl)) (glob : Option Ivl) (id : String)
    (ovr : Option Overrides) :
    (C08_tight locals glob id ovr).isSome = true ↔ (∃ l, some l ∈ locals) ∨ glob.isSome = true := by
  unfold C08_tight
  cases hf : foldLocals locals with
  | some T =>
    obtain ⟨l, hl, _⟩ := foldLocals_lo_mem locals T hf
    simp only [Option.isSome_some, true_iff]
    exact Or.inl ⟨l, hl⟩
  | none =>
    have hn := (foldLocals_eq_none locals).mp hf
    cases glob with
    | some g => simp
    | none =>
      simp only [Option.isSome_none, Bool.false_eq_true, or_false, false_iff]
      rintro ⟨l, hl⟩; cases hn _ hl

/-- meeting every demand implies meeting the tight interval, for a non-empty list of
referents and **any** override map (the merged lower bound is some referent's lower bound,
so its override is that referent's demanded bound) -/
theorem C08_demands_imp_tight (locals : List (Option Ivl)) (glob : Option Ivl) (id : String)
    (ovr : Option Overrides) (t : Nat) (hne : locals ≠ [])
    (hdem : ∀ loc ∈ locals, validOpt (C08_demand loc glob id ovr) t = true) :
    validOpt (C08_tight locals glob id ovr) t = true := by
  unfold C08_tight
  cases hf : foldLocals locals with
  | none =>
    have hn := (foldLocals_eq_none locals).mp hf
    obtain ⟨x, hx⟩ := List.exists_mem_of_ne_nil locals hne
    have := hdem x hx
    rw [hn x hx] at this
    cases glob <;> exact this
  | some T =>
    have hloc : ∀ l, some l ∈ locals → valid (overrideFor id ovr l) t = true := fun l hl => by
      have := hdem (some l) hl; exact this
    simp only [validOpt, valid_iff]
    constructor
    · obtain ⟨l, hl, e⟩ := foldLocals_lo_mem locals T hf
      rw [overrideFor_lo_congr id ovr T l e]
      exact ((valid_iff _ _).mp (hloc l hl)).1
    · rw [overrideFor_hi]
      refine foldLocals_hi (fun h => hiOk h t) locals T hf (fun l hl => ?_)
      have := ((valid_iff _ _).mp (hloc l hl)).2
      rwa [overrideFor_hi] at this

/-! ### legacy format: `check_non_revoked_interval` -/

/-- **exact verdict** of the legacy check for a revocable definition, an identifier with a
registry id and a timestamp: `t` must pass the tight interval of the revealed-attribute and
predicate referents of that credential -/
theorem C08_legacy_exact (attrsL predsL : List (Option Ivl)) (glob : Option Ivl) (id : String)
    (ovr : Option Overrides) (ts : Option Nat) :
    checkLegacy true (foldLocals attrsL) (foldLocals predsL) glob (some id) ovr ts =
      checkTs (C08_tight (attrsL ++ predsL) glob id ovr) ts := by
  simp only [checkLegacy, if_true, C08_fold_split, requested_some, C08_tight]
  cases foldLocals (attrsL ++ predsL) <;> cases glob <;> rfl

/-
Full statement (property text: "a presentation timestamp that meets the demands of all
those referents is accepted", *those referents* being all the referents the credential
serves — revealed attributes and groups `attrsL`, predicates `predsL`, unrevealed
attributes `unrevL`):

  ∀ attrsL predsL unrevL glob id ovr t, t < 2^64 →
    (∀ loc ∈ attrsL ++ predsL ++ unrevL, validOpt (C08_demand loc glob id ovr) t = true) →
    checkLegacy true (foldLocals attrsL) (foldLocals predsL) glob (some id) ovr (some t) = true

It is false (`C08_accept_legacy_refuted`). What is missing in the partial statement: the
credential must serve at least one revealed-attribute or predicate referent; unrevealed
referents may be present but are not looked at.
-/

/-- **accept (legacy)**: the credential serves at least one revealed-attribute or predicate
referent, and `t` meets the demand of each of them (own interval else request-wide, with
override) ⇒ the check passes. Holds for every override map and every `t` (no width needed). -/
theorem C08_accept_legacy_partial (revocable : Bool) (attrsL predsL : List (Option Ivl))
    (glob : Option Ivl) (id : String) (ovr : Option Overrides) (t : Nat)
    (hne : attrsL ++ predsL ≠ [])
    (hdem : ∀ loc ∈ attrsL ++ predsL, validOpt (C08_demand loc glob id ovr) t = true) :
    checkLegacy revocable (foldLocals attrsL) (foldLocals predsL) glob (some id) ovr (some t)
      = true := by
  cases revocable with
  | false => rfl
  | true =>
    rw [C08_legacy_exact, checkTs_validOpt]
    exact C08_demands_imp_tight _ glob id ovr t hne hdem

/-- the full accept statement is **false for the code**: a credential that serves a single
*unrevealed* referent with local interval `[15, ∞)`, request-wide interval `[10, 12]`,
timestamp `16`. The referent's demand `[15, ∞)` is met, but the verifier does not look at
unrevealed referents, finds no local interval, falls back to `[10, 12]` and rejects.
(Over-strictness, i.e. a completeness defect — the honest prover computes the same interval
in `CLProofBuilder::add_sub_proof`; same root cause as the ignored unrevealed referents.) -/
theorem C08_accept_legacy_refuted :
    ¬ ∀ (attrsL predsL unrevL : List (Option Ivl)) (glob : Option Ivl) (id : String)
        (ovr : Option Overrides) (t : Nat), t < 2 ^ 64 →
        (∀ loc ∈ attrsL ++ predsL ++ unrevL, validOpt (C08_demand loc glob id ovr) t = true) →
        checkLegacy true (foldLocals attrsL) (foldLocals predsL) glob (some id) ovr (some t)
          = true := by
  intro h
  have := h [] [] [some ⟨some 15, none⟩] (some ⟨some 10, some 12⟩) "reg" none 16 (by decide)
    (by intro loc hloc
        simp only [List.nil_append, List.mem_singleton] at hloc
        subst hloc; decide)
  revert this; decide

/-
Full statement (property text: "one outside the tightest combination of the credential's
local intervals (or outside the request-wide interval when it has no local one) is
rejected", for every identifier of a revocation-capable definition and all referents served):

  ∀ attrsL predsL unrevL glob regId ovr t i, t < 2^64 →
    tight of (attrsL ++ predsL ++ unrevL) = some i → valid i t = false →
    checkLegacy true (foldLocals attrsL) (foldLocals predsL) glob regId ovr (some t) = false

False twice over (`C08_reject_legacy_refuted_unrevealed`, `C08_reject_legacy_refuted_no_regid`).
What is missing in the partial statement: the identifier must carry a `rev_reg_id`, and only
revealed-attribute and predicate referents count.
-/

/-- **reject (legacy)**: revocable definition, registry id present, an interval applies
(`C08_tight_isSome`: a local one on a revealed-attribute or predicate referent, or a
request-wide one) and `t` is outside the tight interval ⇒ the check fails -/
theorem C08_reject_legacy_partial (attrsL predsL : List (Option Ivl)) (glob : Option Ivl)
    (id : String) (ovr : Option Overrides) (t : Nat) (i : Ivl)
    (htight : C08_tight (attrsL ++ predsL) glob id ovr = some i) (hout : valid i t = false) :
    checkLegacy true (foldLocals attrsL) (foldLocals predsL) glob (some id) ovr (some t)
      = false := by
  rw [C08_legacy_exact, htight, checkTs_some_some, hout]

/-- the code's behaviour without a registry id, stated as such: the request-wide interval
and the override are ignored; only the merged local intervals are checked -/
theorem C08_legacy_no_regid (revocable : Bool) (attrsL predsL : List (Option Ivl))
    (glob : Option Ivl) (ovr : Option Overrides) (ts : Option Nat) :
    checkLegacy revocable (foldLocals attrsL) (foldLocals predsL) glob none ovr ts =
      (!revocable || checkTs (foldLocals (attrsL ++ predsL)) ts) := by
  cases revocable with
  | false => rfl
  | true => simp only [checkLegacy, if_true, requested, C08_fold_split, Bool.not_true, Bool.false_or]

/-- reject is **false for the code** when the tight local interval sits on an unrevealed
referent: local `[15, ∞)` on an unrevealed referent, nothing else, `t = 3` is accepted -/
theorem C08_reject_legacy_refuted_unrevealed :
    ¬ ∀ (attrsL predsL unrevL : List (Option Ivl)) (glob : Option Ivl) (id : String)
        (ovr : Option Overrides) (t : Nat) (i : Ivl), t < 2 ^ 64 →
        C08_tight (attrsL ++ predsL ++ unrevL) glob id ovr = some i → valid i t = false →
        checkLegacy true (foldLocals attrsL) (foldLocals predsL) glob (some id) ovr (some t)
          = false := by
  intro h
  have := h [] [] [some ⟨some 15, none⟩] none "reg" none 3 ⟨some 15, none⟩ (by decide)
    (by decide) (by decide)
  revert this; decide

/-- reject is **false for the code** when the identifier carries no `rev_reg_id`
(revocable definition, request-wide `[10, 20]`, `t = 5` is accepted — and so is no
timestamp at all, see `C08_needs_timestamp_legacy_refuted`) -/
theorem C08_reject_legacy_refuted_no_regid :
    ¬ ∀ (attrsL predsL : List (Option Ivl)) (g : Ivl) (regId : Option String)
        (ovr : Option Overrides) (t : Nat), t < 2 ^ 64 →
        foldLocals (attrsL ++ predsL) = none → valid g t = false →
        checkLegacy true (foldLocals attrsL) (foldLocals predsL) (some g) regId ovr (some t)
          = false := by
  intro h
  have := h [] [] ⟨some 10, some 20⟩ none none 5 (by decide) (by decide) (by decide)
  revert this; decide

/-- **timestamp required (legacy)**: revocable, registry id present, an interval applies
and the identifier has no timestamp ⇒ the check fails -/
theorem C08_needs_timestamp_legacy_partial (attrsL predsL : List (Option Ivl))
    (glob : Option Ivl) (id : String) (ovr : Option Overrides)
    (happ : (∃ l, some l ∈ attrsL ++ predsL) ∨ glob.isSome = true) :
    checkLegacy true (foldLocals attrsL) (foldLocals predsL) glob (some id) ovr none = false := by
  rw [C08_legacy_exact]
  have := (C08_tight_isSome (attrsL ++ predsL) glob id ovr).mpr happ
  cases h : C08_tight (attrsL ++ predsL) glob id ovr with
  | none => rw [h] at this; cases this
  | some i => rfl

/-- without a registry id a local interval still requires a timestamp … -/
theorem C08_needs_timestamp_legacy_local (attrsL predsL : List (Option Ivl))
    (glob : Option Ivl) (ovr : Option Overrides) (regId : Option String)
    (happ : ∃ l, some l ∈ attrsL ++ predsL) :
    checkLegacy true (foldLocals attrsL) (foldLocals predsL) glob regId ovr none = false := by
  cases regId with
  | some id => exact C08_needs_timestamp_legacy_partial _ _ _ _ _ (Or.inl happ)
  | none =>
    rw [C08_legacy_no_regid]
    cases h : foldLocals (attrsL ++ predsL) with
    | none =>
      obtain ⟨l, hl⟩ := happ
      cases (foldLocals_eq_none _).mp h _ hl
    | some i => rfl

/-- … but a request-wide interval does not: "if any interval applies and the presentation
names no timestamp, verification fails" is **false for the code** for an identifier without
`rev_reg_id` (revocable definition, request-wide `[10, 20]`, no timestamp: accepted) -/
theorem C08_needs_timestamp_legacy_refuted :
    ¬ ∀ (attrsL predsL : List (Option Ivl)) (glob : Option Ivl) (regId : Option String)
        (ovr : Option Overrides),
        ((∃ l, some l ∈ attrsL ++ predsL) ∨ glob.isSome = true) →
        checkLegacy true (foldLocals attrsL) (foldLocals predsL) glob regId ovr none = false := by
  intro h
  have := h [] [] (some ⟨some 10, some 20⟩) none none (Or.inr rfl)
  revert this; decide

/-- credentials from non-revocable definitions ignore every interval, the registry id, the
override and the timestamp -/
theorem C08_nonrevocable_ignores (attrs preds glob : Option Ivl) (regId : Option String)
    (ovr : Option Overrides) (ts : Option Nat) :
    checkLegacy false attrs preds glob regId ovr ts = true := rfl

/-! ### W3C format: `check_credential_non_revoked_interval` (one referent at a time) -/

/-- **exact verdict** of the W3C check when the proof names a registry -/
theorem C08_w3c_exact (loc glob : Option Ivl) (id : String) (ovr : Option Overrides)
    (ts : Option Nat) :
    checkW3C loc glob (some id) ovr ts = checkTs (C08_demand loc glob id ovr) ts := rfl

/-- **accept (W3C)**: `t` meets the referent's demand ⇒ the check passes
(whether or not the proof names a registry) -/
theorem C08_accept_w3c (loc glob : Option Ivl) (regId : Option String) (ovr : Option Overrides)
    (t : Nat) (hdem : ∀ id, regId = some id → validOpt (C08_demand loc glob id ovr) t = true) :
    checkW3C loc glob regId ovr (some t) = true := by
  cases regId with
  | none => rfl
  | some id => rw [C08_w3c_exact, checkTs_validOpt]; exact hdem id rfl

/-- **reject (W3C)**: the proof names a registry and `t` is outside the referent's demand ⇒
the check fails -/
theorem C08_reject_w3c_partial (loc glob : Option Ivl) (id : String) (ovr : Option Overrides)
    (t : Nat) (i : Ivl) (hd : C08_demand loc glob id ovr = some i) (hout : valid i t = false) :
    checkW3C loc glob (some id) ovr (some t) = false := by
  rw [C08_w3c_exact, hd, checkTs_some_some, hout]

/-- **reject at the tight bound (W3C)**: if a timestamp is outside the tight interval
of a non-empty list of referents, the check of at least one of these referents fails
(together with `C08_demands_imp_tight`: the two formats can differ only for timestamps that
pass the tight interval without meeting every demand) -/
theorem C08_reject_w3c_tight (locals : List (Option Ivl)) (glob : Option Ivl) (id : String)
    (ovr : Option Overrides) (t : Nat) (i : Ivl) (hne : locals ≠ [])
    (htight : C08_tight locals glob id ovr = some i) (hout : valid i t = false) :
    ∃ loc ∈ locals, checkW3C loc glob (some id) ovr (some t) = false := by
  apply Classical.byContradiction
  intro hno
  have hall : ∀ loc ∈ locals, validOpt (C08_demand loc glob id ovr) t = true := by
    intro loc hloc
    have : checkW3C loc glob (some id) ovr (some t) ≠ false := fun h => hno ⟨loc, hloc, h⟩
    rw [C08_w3c_exact, checkTs_validOpt] at this
    simpa using this
  have := C08_demands_imp_tight locals glob id ovr t hne hall
  rw [htight] at this
  simp only [validOpt] at this
  rw [hout] at this; cases this

/-- **timestamp required (W3C)**: the proof names a registry, an interval applies to the
referent (its own or the request-wide one) and the proof has no timestamp ⇒ the check fails -/
theorem C08_needs_timestamp_w3c_partial (loc glob : Option Ivl) (id : String)
    (ovr : Option Overrides) (happ : loc.isSome = true ∨ glob.isSome = true) :
    checkW3C loc glob (some id) ovr none = false := by
  cases loc with
  | some l => rfl
  | none =>
    cases glob with
    | some g => rfl
    | none => simp at happ

/-- the code's behaviour, stated as such: a W3C proof without `rev_reg_id` passes the
interval check whatever the intervals, the override and the timestamp. Hence the full
statements of `C08_reject_w3c` / `C08_needs_timestamp_w3c` (for every proof of a revocable
credential) are false for the code; the `_partial` ones need the registry id. -/
theorem C08_w3c_no_regid_ignores (loc glob : Option Ivl) (ovr : Option Overrides)
    (ts : Option Nat) : checkW3C loc glob none ovr ts = true := rfl

/-- witness for the previous remark: local `[15, ∞)`, no registry id, `t = 3` — accepted -/
theorem C08_reject_w3c_refuted :
    ¬ ∀ (loc glob : Option Ivl) (regId : Option String) (ovr : Option Overrides) (t : Nat)
        (i : Ivl), t < 2 ^ 64 → loc = some i → valid i t = false →
        checkW3C loc glob regId ovr (some t) = false := by
  intro h
  have := h (some ⟨some 15, none⟩) none none none 3 ⟨some 15, none⟩ (by decide) rfl (by decide)
  revert this; decide

/-- witness for the previous remark: request-wide `[10, 20]`, local `[15, ∞)`, no registry
id, no timestamp — accepted -/
theorem C08_needs_timestamp_w3c_refuted :
    ¬ ∀ (loc glob : Option Ivl) (regId : Option String) (ovr : Option Overrides),
        (loc.isSome = true ∨ glob.isSome = true) → checkW3C loc glob regId ovr none = false := by
  intro h
  have := h (some ⟨some 15, none⟩) (some ⟨some 10, some 20⟩) none none (Or.inl rfl)
  revert this; decide

/-! ### the two formats -/

/-- for a credential serving a single revealed-attribute referent and no predicate, of a
revocable definition, with a registry id: both formats give the same verdict -/
theorem C08_formats_agree_single (loc glob : Option Ivl) (id : String) (ovr : Option Overrides)
    (ts : Option Nat) :
    checkLegacy true (foldLocals [loc]) (foldLocals []) glob (some id) ovr ts =
      checkW3C loc glob (some id) ovr ts := by
  rw [C08_legacy_exact, C08_w3c_exact]
  cases loc <;> cases glob <;> rfl

/-- between the two bounds the formats do differ (not claimed by the property; recorded so
that nobody tries to prove agreement): referents `[15, ∞)` and "none", request-wide
`[10, 12]`, `t = 16` — legacy accepts (the request-wide interval is dropped as soon as one
referent has a local one), W3C rejects the second referent -/
theorem C08_formats_differ_between_bounds :
    checkLegacy true (foldLocals [some ⟨some 15, none⟩, none]) (foldLocals [])
        (some ⟨some 10, some 12⟩) (some "reg") none (some 16) = true ∧
    checkW3C none (some ⟨some 10, some 12⟩) (some "reg") none (some 16) = false := by
  decide

/-- the prover-side function is the verifier-side one on the merged locals when a registry
id is present, and yields no interval without one -/
theorem C08_prover_interval (attrs preds glob : Option Ivl) (regId : Option String)
    (ovr : Option Overrides) :
    proverInterval attrs preds glob regId ovr =
      match regId with
      | some id => requested (some id) (mergeOpt attrs preds) glob ovr
      | none => none := by
  cases regId <;> rfl

/-! ### non-vacuity: request-wide `[10, 20]`, local `[15, ∞)`, override `{15 ↦ 5}` -/

section Examples
private def g : Option Ivl := some ⟨some 10, some 20⟩
private def l : Option Ivl := some ⟨some 15, none⟩
private def o : Option Overrides := some [("reg", [(15, 5)])]

-- demand of the referent with the local interval: `[5, ∞)`; of one without: `[10, 20]`
example : C08_demand l g "reg" o = some ⟨some 5, none⟩ := by decide
example : C08_demand none g "reg" o = some ⟨some 10, some 20⟩ := by decide
-- override filed under another registry, or keyed by another number: no effect
example : C08_demand l g "other" o = some ⟨some 15, none⟩ := by decide
example : C08_demand l g "reg" (some [("reg", [(14, 5)])]) = some ⟨some 15, none⟩ := by decide
-- upper bound equal to a key: untouched
example : overrideFor "reg" (some [("reg", [(20, 1)])]) ⟨some 10, some 20⟩ = ⟨some 10, some 20⟩ := by
  decide
-- both sides of every boundary
example : checkW3C l g (some "reg") o (some 4) = false := by decide
example : checkW3C l g (some "reg") o (some 5) = true := by decide
example : checkW3C l g (some "reg") o (some 14) = true := by decide
example : checkW3C l g (some "reg") o (some 21) = true := by decide
example : checkW3C l g (some "reg") none (some 14) = false := by decide
example : checkW3C l g (some "reg") none (some 15) = true := by decide
example : checkW3C none g (some "reg") o (some 9) = false := by decide
example : checkW3C none g (some "reg") o (some 10) = true := by decide
example : checkW3C none g (some "reg") o (some 20) = true := by decide
example : checkW3C none g (some "reg") o (some 21) = false := by decide
example : checkLegacy true l none g (some "reg") o (some 4) = false := by decide
example : checkLegacy true l none g (some "reg") o (some 5) = true := by decide
example : checkLegacy true none none g (some "reg") o (some 20) = true := by decide
example : checkLegacy true none none g (some "reg") o (some 21) = false := by decide
example : checkLegacy true none none g (some "reg") o none = false := by decide
example : checkLegacy false l none g (some "reg") o none = true := by decide
-- the width hypothesis is not idle: `2^64` fails an absent upper bound, `2^64 - 1` passes
example : valid ⟨none, none⟩ (2 ^ 64) = false := by decide
example : valid ⟨none, none⟩ (2 ^ 64 - 1) = true := by decide
-- the merge keeps the later `from` and the earlier `to`; override after the merge is keyed
-- by the merged bound
example : foldLocals [some ⟨some 10, some 50⟩, none, some ⟨some 15, none⟩, some ⟨none, some 40⟩]
    = some ⟨some 15, some 40⟩ := by decide
example : C08_tight [some ⟨some 10, none⟩, some ⟨some 15, none⟩] g "reg" o = some ⟨some 5, none⟩ := by
  decide
example : C08_tight [some ⟨some 10, none⟩, some ⟨some 15, none⟩] g "reg"
    (some [("reg", [(10, 5)])]) = some ⟨some 15, none⟩ := by decide
-- hypotheses of `C08_accept_legacy_partial` are satisfiable with a bound-raising override
example : ∀ loc ∈ [some ⟨some 10, none⟩, some ⟨some 15, none⟩] ++ ([] : List (Option Ivl)),
    validOpt (C08_demand loc g "reg" (some [("reg", [(10, 30)])])) 30 = true := by decide
end Examples

end AnonModel.Interval

import AnonModel.Model.WirePv
/-!
# C15 — the tagged proof value: written form is read back, and nothing else is read
-/
namespace AnonModel.WirePv

/-- what is written is read back as the same kind -/
theorem C15_pv_de_ser (k : Nat) (h : k = 1 ∨ k = 2 ∨ k = 3) : de (ser k) = some k := by
  rcases h with rfl | rfl | rfl <;> decide

/-- **only the written form is read**: an accepted sequence is exactly `[tag, payload]` with the payload of the kind the
tag names — no third element, no other tag, no payload of another kind -/
theorem C15_pv_ser_de (items : List Item) (k : Nat) (h : de items = some k) :
    items = ser k ∧ (k = 1 ∨ k = 2 ∨ k = 3) := by
  match items, h with
  | .int n :: rest, h =>
    simp only [de] at h
    split at h
    · next hn =>
      match rest, h with
      | .payload k' :: more, h =>
        simp only at h
        split at h
        · next hk =>
          split at h
          · next hm =>
            have : k' = k := by simpa using h
            subst this
            have hmore : more = [] := by simpa using hm
            subst hmore
            subst hk
            refine ⟨rfl, ?_⟩
            rcases hn with h1 | h1 | h1
            · left; exact_mod_cast h1
            · right; left; exact_mod_cast h1
            · right; right; exact_mod_cast h1
          · cases h
        · cases h
    · cases h

/-- a sequence with anything after the payload is refused -/
theorem C15_pv_extra_refused (k : Nat) (x : Item) (more : List Item) : de (ser k ++ x :: more) = none := by
  simp only [ser, List.cons_append, List.nil_append, de]
  split
  · simp
  · rfl

/-- a payload under the tag of another kind is refused -/
theorem C15_pv_kind_mismatch_refused (t k : Nat) (h : t ≠ k) : de [.int t, .payload k] = none := by
  simp only [de]
  split
  · have : ¬ ((k : Int) = (t : Int)) := by
      intro e; exact h (by exact_mod_cast e.symm)
    simp [this]
  · rfl

example : de [.int 2, .payload 2] = some 2 := by decide
example : de [.int 0, .payload 1] = none := by decide
example : de [.payload 1] = none := by decide

end AnonModel.WirePv

import AnonModel.Lemmas.Flows
import AnonModel.Props.C13
import AnonModel.Props.C20
/-!
# C14 — legacy and W3C credential forms are interchangeable

"Converting a processed credential with canonically encoded values from legacy to W3C form and
back, or from W3C to legacy and back, preserves its schema, credential-definition and registry
identifiers, its signature material, revocation data and every attribute's encoded value; …
conversion of anything that is not a well-formed AnonCreds credential is refused."

Property theorems only; helper lemmas are in `Lemmas/Flows.lean`.

**Identifiers, signature material, revocation data.** `credential_to_w3c` and
`credential_from_w3c` copy `schema_id`, `cred_def_id`, `rev_reg_id`, `signature`,
`signature_correctness_proof`, `rev_reg` and `witness` field by field between the two struct
literals (`services/w3c/credential_conversion.rs`). The model (`Model/Convert.lean`) does not touch
them at all: they are not an input of `toSubject` / `subjectEncode`, only the validity facts that
`validate` derives from them are (`LegacyMeta`, `W3CMeta`). There is therefore nothing to prove
about them here; the harness compares them on real objects after each trip. What the theorems
below establish is the part that is *computed*: the attribute values.

Values are `HashMap`s in Rust and association lists here; the order of entries is an artefact of the
model that both directions happen to keep.
-/
namespace AnonModel.Convert
open AnonModel.Encode AnonModel.Flows AnonModel.VerifierW3C AnonModel.Ident

/-- every attribute's `encoded` member is `encode_credential_attribute(raw)` — what
`MakeCredentialValues::add_raw` produces and what a verifier-compatible issuer signs -/
def CanonicallyEncoded (values : Values) : Prop := ∀ nv ∈ values, nv.2.2 = Encode.encode nv.2.1

/-- name and encoded value of every attribute (the part of the values the signature covers) -/
def encodedView (values : Values) : List (String × String) := values.map (fun nv => (nv.1, nv.2.2))

/-- a raw value before and after legacy → W3C → legacy: an `i32` literal (`"007"`, `"+5"`, `"-0"`)
comes back as the canonical decimal form of its value, every other string unchanged -/
def RawAfterTrip (raw raw' : String) : Prop :=
  (∃ n, IsI32Literal raw.toList n ∧ raw' = intToDec n) ∨ ((¬ ∃ n, IsI32Literal raw.toList n) ∧ raw' = raw)

/-- a subject entry before and after W3C → legacy → W3C: a number in the `i32` range stays that
number; a string stays that string unless it is an `i32` literal, in which case it becomes the
number it denotes; a boolean never makes the trip. (The model's `.num` holds an unbounded
integer whereas Rust's is `Number(i32)`; for completeness: a number outside the range would come
back as the string of its decimal form.) -/
def ValAfterTrip : SubjVal → SubjVal → Prop
  | .num k, v' => (i32Min ≤ k ∧ k ≤ i32Max ∧ v' = .num k) ∨
                  (¬ (i32Min ≤ k ∧ k ≤ i32Max) ∧ v' = .str (intToDec k))
  | .str s, v' => (∃ n, IsI32Literal s.toList n ∧ v' = .num n) ∨
                  ((¬ ∃ n, IsI32Literal s.toList n) ∧ v' = .str s)
  | .bool _, _ => False

/-- the Rust type invariant of `CredentialAttributeValue::Number(i32)` -/
def SubjI32 (subj : Subject) : Prop := ∀ nv ∈ subj, ∀ k, nv.2 = .num k → i32Min ≤ k ∧ k ≤ i32Max

/-! ### private helpers (they need C13, so they cannot live in `Lemmas/`) -/

private theorem normalizeEnc_spec (s : String) : RawAfterTrip s (normalizeEnc s) := by
  unfold normalizeEnc
  cases hp : parseI32 s.toList with
  | some n => exact Or.inl ⟨n, (C13_parseI32_spec _ _).mp hp, rfl⟩
  | none =>
    refine Or.inr ⟨?_, rfl⟩
    rintro ⟨n, hn⟩
    rw [(C13_parseI32_spec _ _).mpr hn] at hp; cases hp

private theorem encode_normalizeEnc (s : String) : encode (normalizeEnc s) = encode s := by
  cases hp : parseI32 s.toList with
  | some n =>
    have hl := (C13_parseI32_spec _ _).mp hp
    rw [C13_normalize_literal hl, ← C13_encode_int hl]
    exact C13_encode_idem_on_ints hl
  | none => simp [normalizeEnc, hp]

private theorem decVal_natRepr (m : Nat) : decVal (Nat.repr m).toList = m := by
  rw [Nat.toList_repr]; exact Nat.ofDigitChars_ten_toDigits

private theorem natRepr_allDigits' (m : Nat) : AllDigits (Nat.repr m).toList = true :=
  allDigits_iff.mpr (natRepr_allDigits m)

/-- the decimal form of an integer denotes that integer and nothing else -/
private theorem literal_intToDec {k n : Int} (h : IsI32Literal (intToDec k).toList n) : n = k := by
  obtain ⟨ds, _, hall, _, _, hcase⟩ := h
  have hnotdigit : ∀ c : Char, c = '+' ∨ c = '-' → c.isDigit = false := by
    rintro c (rfl | rfl) <;> decide
  by_cases hk : k < 0
  · have hs : (intToDec k).toList = '-' :: (Nat.repr k.natAbs).toList := by
      simp [intToDec, hk, String.toList_append]
    rw [hs] at hcase
    rcases hcase with ⟨hcs | hcs, _⟩ | ⟨hcs, hn⟩
    · have := allDigits_iff.mp hall '-' (by rw [← hcs]; simp)
      rw [hnotdigit _ (Or.inr rfl)] at this; cases this
    · simp at hcs
    · simp only [List.cons.injEq, true_and] at hcs
      rw [← hcs, decVal_natRepr] at hn; omega
  · have hs : (intToDec k).toList = (Nat.repr k.natAbs).toList := by simp [intToDec, hk]
    rw [hs] at hcase
    have hd := natRepr_allDigits k.natAbs
    rcases hcase with ⟨hcs | hcs, hn⟩ | ⟨hcs, _⟩
    · rw [← hcs, decVal_natRepr] at hn; omega
    · have := hd '+' (by rw [hcs]; simp)
      rw [hnotdigit _ (Or.inl rfl)] at this; cases this
    · have := hd '-' (by rw [hcs]; simp)
      rw [hnotdigit _ (Or.inr rfl)] at this; cases this

private theorem parse_intToDec (k : Int) :
    parseI32 (intToDec k).toList = if i32Min ≤ k ∧ k ≤ i32Max then some k else none := by
  by_cases hr : i32Min ≤ k ∧ k ≤ i32Max
  · rw [if_pos hr]; exact C13_canonical hr.1 hr.2
  · rw [if_neg hr]
    cases hp : parseI32 (intToDec k).toList with
    | none => rfl
    | some n =>
      have hl := (C13_parseI32_spec _ _).mp hp
      have := literal_intToDec hl
      subst this
      exact absurd (C13_literal_range hl) hr

private theorem reparse_spec (v : SubjVal) (hb : ∀ b, v ≠ .bool b) : ValAfterTrip v (reparse v.toStr) := by
  cases v with
  | bool b => exact absurd rfl (hb b)
  | num k =>
    simp only [ValAfterTrip, SubjVal.toStr, reparse, parse_intToDec]
    by_cases hr : i32Min ≤ k ∧ k ≤ i32Max
    · rw [if_pos hr]; exact Or.inl ⟨hr.1, hr.2, rfl⟩
    · rw [if_neg hr]; exact Or.inr ⟨hr, rfl⟩
  | str s =>
    simp only [ValAfterTrip, SubjVal.toStr, reparse]
    cases hp : parseI32 s.toList with
    | some n => exact Or.inl ⟨n, (C13_parseI32_spec _ _).mp hp, rfl⟩
    | none =>
      refine Or.inr ⟨?_, rfl⟩
      rintro ⟨n, hn⟩
      rw [(C13_parseI32_spec _ _).mpr hn] at hp; cases hp

private theorem toW3C_eq_some {m : LegacyMeta} {values : Values} {subj : Subject}
    (h : toW3C m values = some subj) : legacyValid m values = true ∧ subj = toSubject values := by
  unfold toW3C at h
  split at h
  · rename_i hv; cases h; exact ⟨hv, rfl⟩
  · cases h

/-! ## legacy → W3C → legacy -/

/-- **the trip computed**: converting to W3C form and encoding the subject again gives, entry by
entry in the same order, the same name, the normalised raw value and the encoding of the
original raw value. No hypothesis on `values`. -/
theorem C14_to_from_computed (values : Values) :
    subjectEncode (toSubject values) =
      some (values.map (fun nv => (nv.1, (normalizeEnc nv.2.1, encode nv.2.1)))) := by
  rw [subjectEncode_toSubject]
  simp only [encode_normalizeEnc]

/-- **legacy → W3C → legacy keeps every attribute's encoded value**: for a credential whose
values are canonically encoded, the W3C form produced by `credential_to_w3c` converts back
(`CredentialSubject::encode`, the computed part of `credential_from_w3c`) to values with the same
names in the same order and the same encoded values. The raw values may change
(`C14_to_from_raw`). -/
theorem C14_to_from {m : LegacyMeta} {values : Values} {subj : Subject}
    (hc : CanonicallyEncoded values) (h : toW3C m values = some subj) :
    ∃ back, subjectEncode subj = some back ∧
      back.map (fun nv => (nv.1, nv.2.2)) = values.map (fun nv => (nv.1, nv.2.2)) := by
  obtain ⟨_, rfl⟩ := toW3C_eq_some h
  refine ⟨_, C14_to_from_computed values, ?_⟩
  rw [List.map_map]
  apply List.map_congr_left
  intro nv hnv
  simp only [Function.comp, hc nv hnv]

/-- the same through the whole of `credential_from_w3c`, for any W3C envelope that function
accepts -/
theorem C14_to_from_full {m : LegacyMeta} {wm : W3CMeta} {values : Values} {subj : Subject}
    (hc : CanonicallyEncoded values) (h : toW3C m values = some subj)
    (hw : w3cValid wm = true) (hs : wm.signatureProofOk = true) :
    ∃ back, fromW3C wm subj = some back ∧ encodedView back = encodedView values ∧
      CanonicallyEncoded back := by
  obtain ⟨_, rfl⟩ := toW3C_eq_some h
  refine ⟨values.map (fun nv => (nv.1, (normalizeEnc nv.2.1, encode nv.2.1))), ?_, ?_, ?_⟩
  · simp only [fromW3C, hw, hs, Bool.not_true, Bool.false_eq_true, if_false]
    exact C14_to_from_computed values
  · simp only [encodedView, List.map_map]
    apply List.map_congr_left
    intro nv hnv
    simp only [Function.comp, hc nv hnv]
  · intro nv hnv
    obtain ⟨x, _, rfl⟩ := List.mem_map.mp hnv
    exact (encode_normalizeEnc _).symm

/-- **what happens to the raw values**: entry by entry, the name is kept, the raw value that comes
back is the canonical decimal when the raw value was an `i32` literal (`"007"` ↦ `"7"`) and is
unchanged otherwise, and the encoded value is the encoding of the original raw value. -/
theorem C14_to_from_raw {m : LegacyMeta} {values : Values} {subj : Subject}
    (h : toW3C m values = some subj) :
    ∃ back, subjectEncode subj = some back ∧ back.length = values.length ∧
      ∀ p ∈ values.zip back,
        p.2.1 = p.1.1 ∧ RawAfterTrip p.1.2.1 p.2.2.1 ∧ p.2.2.2 = encode p.1.2.1 := by
  obtain ⟨_, rfl⟩ := toW3C_eq_some h
  refine ⟨_, C14_to_from_computed values, by simp, ?_⟩
  intro p hp
  rw [zip_map_self _ values p hp]
  exact ⟨rfl, normalizeEnc_spec _, rfl⟩

/-- a second trip changes nothing any more: the values that came back convert to W3C form and
back to exactly themselves (raw values included). -/
theorem C14_to_from_idem {values back : Values} (h : subjectEncode (toSubject values) = some back) :
    subjectEncode (toSubject back) = some back := by
  rw [C14_to_from_computed] at h
  cases h
  rw [C14_to_from_computed, List.map_map]
  congr 1
  apply List.map_congr_left
  intro nv _
  simp only [Function.comp, C13_normalize_idem, encode_normalizeEnc]

/-! ## W3C → legacy → W3C -/

/-- **W3C → legacy → W3C**: if `credential_from_w3c` accepts, then the subject had no boolean
entry, the legacy values it produced are canonically encoded, and converting them to a subject
again (`CredentialSubject::from`, the computed part of `credential_to_w3c`) gives a subject of the
same length with, entry by entry, the same name and the value described by `ValAfterTrip`:
a number (in the `i32` range) stays that number, a string stays that string unless it is an `i32`
literal, in which case it becomes the number it denotes. -/
theorem C14_from_to {wm : W3CMeta} {subj : Subject} {values : Values}
    (h : fromW3C wm subj = some values) :
    (∀ nv ∈ subj, ∀ b, nv.2 ≠ .bool b) ∧ CanonicallyEncoded values ∧
      (toSubject values).length = subj.length ∧
      ∀ p ∈ subj.zip (toSubject values), p.2.1 = p.1.1 ∧ ValAfterTrip p.1.2 p.2.2 := by
  have he : subjectEncode subj = some values := by
    unfold fromW3C at h
    split at h; · cases h
    split at h; · cases h
    exact h
  obtain ⟨hnb, rfl⟩ := (subjectEncode_eq_some_iff _ _).mp he
  refine ⟨hnb, ?_, by simp [toSubject_eq], ?_⟩
  · intro nv hnv
    obtain ⟨x, _, rfl⟩ := List.mem_map.mp hnv
    rfl
  · intro p hp
    have hmem : p.1 ∈ subj := (List.of_mem_zip hp).1
    rw [toSubject_eq, List.map_map] at hp
    rw [zip_map_self _ subj p hp]
    exact ⟨rfl, reparse_spec _ (hnb _ hmem)⟩

/-- **exact identity** when there is nothing to re-represent: numbers in the `i32` range (the
Rust type's invariant) and no string that is an `i32` literal ⇒ the subject comes back as it was. -/
theorem C14_from_to_exact {wm : W3CMeta} {subj : Subject} {values : Values}
    (h : fromW3C wm subj = some values) (hi : SubjI32 subj)
    (hs : ∀ nv ∈ subj, ∀ s, nv.2 = .str s → ¬ ∃ n, IsI32Literal s.toList n) :
    toSubject values = subj := by
  obtain ⟨hnb, _, hlen, hz⟩ := C14_from_to h
  apply List.ext_getElem hlen
  intro i h1 h2
  have hmem : (subj[i], (toSubject values)[i]) ∈ subj.zip (toSubject values) := by
    have : (subj.zip (toSubject values))[i]'(by simp [List.length_zip]; omega) =
        (subj[i], (toSubject values)[i]) := by simp
    rw [← this]; exact List.getElem_mem _
  obtain ⟨hn, hv⟩ := hz _ hmem
  simp only at hn hv
  have hsm : subj[i] ∈ subj := List.getElem_mem _
  apply Prod.ext hn
  cases hsv : subj[i].2 with
  | bool b => exact absurd hsv (hnb _ hsm b)
  | num k =>
    rw [hsv] at hv
    rcases hv with ⟨_, _, e⟩ | ⟨hr, _⟩
    · exact e
    · exact absurd (hi _ hsm k hsv) hr
  | str s =>
    rw [hsv] at hv
    rcases hv with ⟨n, hl, _⟩ | ⟨_, e⟩
    · exact absurd ⟨n, hl⟩ (hs _ hsm s hsv)
    · exact e

/-- **idempotence after one trip**: the legacy values produced from a W3C credential convert to
W3C form and back to values with the same names, order and encoded values (in fact to exactly
the same values when they are converted once more, `C14_to_from_idem`). -/
theorem C14_from_to_from {wm : W3CMeta} {subj : Subject} {v : Values}
    (h : fromW3C wm subj = some v) :
    ∃ v', subjectEncode (toSubject v) = some v' ∧
      v'.map (fun nv => (nv.1, nv.2.2)) = v.map (fun nv => (nv.1, nv.2.2)) := by
  obtain ⟨_, hc, _, _⟩ := C14_from_to h
  refine ⟨_, C14_to_from_computed v, ?_⟩
  rw [List.map_map]
  apply List.map_congr_left
  intro nv hnv
  simp only [Function.comp, hc nv hnv]

/-! ## refusals -/

/-- `credential_to_w3c` refuses exactly the credentials that `Credential::validate` rejects. -/
theorem C14_refuses_iff_invalid (m : LegacyMeta) (values : Values) :
    toW3C m values = none ↔ legacyValid m values = false := by
  unfold toW3C
  cases legacyValid m values <;> simp

/-- **`credential_to_w3c` refuses iff**: there are no values, or the schema id, the
credential-definition id or (when present) the registry id is not a valid identifier, or a registry
id is present without witness or without `rev_reg`. -/
theorem C14_to_refuses_iff (m : LegacyMeta) (values : Values) :
    toW3C m values = none ↔
      values = [] ∨ idValid .schema m.schemaId = false ∨ idValid .credDef m.credDefId = false ∨
      (∃ r, m.revRegId = some r ∧ idValid .revRegDef r = false) ∨
      (m.revRegId.isSome = true ∧ (m.hasWitness = false ∨ m.hasRevReg = false)) := by
  rw [C14_refuses_iff_invalid]
  obtain ⟨sid, cid, rid, w, rr⟩ := m
  unfold legacyValid
  cases values with
  | nil => simp
  | cons v vs =>
    cases idValid .schema sid <;> cases idValid .credDef cid <;> cases rid with
    | none => simp
    | some r => cases idValid .revRegDef r <;> cases w <;> cases rr <;> simp

/-- accepted credentials, with the identifier grammar of C20 spelled out -/
theorem C14_to_accepts_iff (m : LegacyMeta) (values : Values) :
    (toW3C m values).isSome = true ↔
      values ≠ [] ∧ (IsUri m.schemaId.toList ∨ IsLegacySchemaId m.schemaId.toList) ∧
      (IsUri m.credDefId.toList ∨ IsLegacyCredDefId m.credDefId.toList) ∧
      (∀ r, m.revRegId = some r →
        (IsUri r.toList ∨ IsLegacyRevRegDefId r.toList) ∧ m.hasWitness = true ∧ m.hasRevReg = true) := by
  have hn : (toW3C m values).isSome = true ↔ ¬ toW3C m values = none := by
    cases toW3C m values <;> simp
  rw [hn, C14_to_refuses_iff]
  have e1 := C20_id_valid_iff .schema m.schemaId
  have e2 := C20_id_valid_iff .credDef m.credDefId
  simp only [Legacy] at e1 e2
  rw [← e1, ← e2]
  cases hr : m.revRegId with
  | none =>
    cases idValid .schema m.schemaId <;> cases idValid .credDef m.credDefId <;> simp
  | some r =>
    have e3 := C20_id_valid_iff .revRegDef r
    simp only [Legacy] at e3
    simp only [Option.some.injEq, forall_eq']
    rw [← e3]
    cases idValid .schema m.schemaId <;> cases idValid .credDef m.credDefId <;>
      cases h3 : idValid .revRegDef r <;> cases m.hasWitness <;> cases m.hasRevReg <;> simp [h3]

/-- a credential without values is refused -/
theorem C14_refuses_empty (m : LegacyMeta) : toW3C m [] = none :=
  (C14_to_refuses_iff m []).mpr (Or.inl rfl)

/-- a credential whose schema id is neither a URI nor a legacy schema id is refused -/
theorem C14_refuses_bad_schema_id {m : LegacyMeta} (values : Values)
    (h : ¬ (IsUri m.schemaId.toList ∨ IsLegacySchemaId m.schemaId.toList)) : toW3C m values = none := by
  refine (C14_to_refuses_iff m values).mpr (Or.inr (Or.inl ?_))
  have := (not_congr (C20_id_valid_iff .schema m.schemaId)).mpr h
  simpa using this

/-- a credential whose credential-definition id is neither a URI nor a legacy credential-definition
id is refused -/
theorem C14_refuses_bad_cred_def_id {m : LegacyMeta} (values : Values)
    (h : ¬ (IsUri m.credDefId.toList ∨ IsLegacyCredDefId m.credDefId.toList)) :
    toW3C m values = none := by
  refine (C14_to_refuses_iff m values).mpr (Or.inr (Or.inr (Or.inl ?_)))
  have := (not_congr (C20_id_valid_iff .credDef m.credDefId)).mpr h
  simpa using this

/-- a credential whose registry id is neither a URI nor a legacy registry id is refused -/
theorem C14_refuses_bad_rev_reg_id {m : LegacyMeta} (values : Values) {r : String}
    (hr : m.revRegId = some r) (h : ¬ (IsUri r.toList ∨ IsLegacyRevRegDefId r.toList)) :
    toW3C m values = none := by
  refine (C14_to_refuses_iff m values).mpr (Or.inr (Or.inr (Or.inr (Or.inl ⟨r, hr, ?_⟩))))
  have := (not_congr (C20_id_valid_iff .revRegDef r)).mpr h
  simpa using this

/-- a credential naming a registry but lacking the witness is refused -/
theorem C14_refuses_rev_without_witness {m : LegacyMeta} (values : Values)
    (hr : m.revRegId.isSome = true) (h : m.hasWitness = false) : toW3C m values = none :=
  (C14_to_refuses_iff m values).mpr (Or.inr (Or.inr (Or.inr (Or.inr ⟨hr, Or.inl h⟩))))

/-- a credential naming a registry but lacking `rev_reg` is refused -/
theorem C14_refuses_rev_without_rev_reg {m : LegacyMeta} (values : Values)
    (hr : m.revRegId.isSome = true) (h : m.hasRevReg = false) : toW3C m values = none :=
  (C14_to_refuses_iff m values).mpr (Or.inr (Or.inr (Or.inr (Or.inr ⟨hr, Or.inr h⟩))))

/-- **`credential_from_w3c` refuses iff** the context is invalid, or the W3C type is missing, or
the credential is a data-model-1.1 credential without issuance date, or there is no AnonCreds
credential-signature proof, or some subject entry is a boolean (a predicate marker, which only a
presentation may carry). -/
theorem C14_from_refuses_iff (wm : W3CMeta) (subj : Subject) :
    fromW3C wm subj = none ↔
      wm.contextOk = false ∨ wm.hasW3CType = false ∨
      (wm.v11 = true ∧ wm.hasIssuanceDate = false) ∨
      wm.signatureProofOk = false ∨ ∃ nv ∈ subj, ∃ b, nv.2 = .bool b := by
  obtain ⟨c, t, v, d, s⟩ := wm
  unfold fromW3C w3cValid
  cases c <;> cases t <;> cases v <;> cases d <;> cases s <;>
    simp [subjectEncode_eq_none_iff]

/-- per clause: invalid context -/
theorem C14_refuses_bad_context {wm : W3CMeta} (subj : Subject) (h : wm.contextOk = false) :
    fromW3C wm subj = none := (C14_from_refuses_iff wm subj).mpr (Or.inl h)

/-- per clause: `type` lacks `VerifiableCredential` -/
theorem C14_refuses_missing_type {wm : W3CMeta} (subj : Subject) (h : wm.hasW3CType = false) :
    fromW3C wm subj = none := (C14_from_refuses_iff wm subj).mpr (Or.inr (Or.inl h))

/-- per clause: data model 1.1 without `issuanceDate` -/
theorem C14_refuses_v11_without_date {wm : W3CMeta} (subj : Subject) (h1 : wm.v11 = true)
    (h2 : wm.hasIssuanceDate = false) : fromW3C wm subj = none :=
  (C14_from_refuses_iff wm subj).mpr (Or.inr (Or.inr (Or.inl ⟨h1, h2⟩)))

/-- per clause: no AnonCreds credential-signature proof (none at all, a presentation proof, another
proof purpose, an undecodable proof value) -/
theorem C14_refuses_without_signature_proof {wm : W3CMeta} (subj : Subject)
    (h : wm.signatureProofOk = false) : fromW3C wm subj = none :=
  (C14_from_refuses_iff wm subj).mpr (Or.inr (Or.inr (Or.inr (Or.inl h))))

/-- per clause: a boolean subject entry -/
theorem C14_refuses_boolean_entry {wm : W3CMeta} {subj : Subject} {nv : String × SubjVal} {b : Bool}
    (hm : nv ∈ subj) (hb : nv.2 = .bool b) : fromW3C wm subj = none :=
  (C14_from_refuses_iff wm subj).mpr (Or.inr (Or.inr (Or.inr (Or.inr ⟨nv, hm, b, hb⟩))))

/-! ### non-vacuity and boundary examples -/

private def okMeta : LegacyMeta :=
  { schemaId := "mock:uri", credDefId := "mock:uri", revRegId := none, hasWitness := false, hasRevReg := false }
private def okW3C : W3CMeta :=
  { contextOk := true, hasW3CType := true, v11 := true, hasIssuanceDate := true, signatureProofOk := true }

-- integer branch: evaluated by the kernel
example : toW3C okMeta [("a", ("007", "7"))] = some [("a", .num 7)] := by decide
example : subjectEncode [("a", .num 7)] = some [("a", ("7", "7"))] := by decide
example : toW3C okMeta [("a", ("+5", "5"))] = some [("a", .num 5)] := by decide
example : subjectEncode [("a", .num 5)] = some [("a", ("5", "5"))] := by decide
example : toW3C okMeta [("a", ("-0", "0"))] = some [("a", .num 0)] := by decide
example : subjectEncode [("a", .num 0)] = some [("a", ("0", "0"))] := by decide
example : toW3C okMeta [("a", ("-2147483648", "-2147483648"))] = some [("a", .num (-2147483648))] := by
  decide
example : CanonicallyEncoded [("a", ("007", "7")), ("b", ("+5", "5")), ("c", ("-0", "0"))] := by
  intro nv h
  simp only [List.mem_cons, List.not_mem_nil, or_false] at h
  rcases h with rfl | rfl | rfl <;> decide
example : RawAfterTrip "007" "7" := Or.inl ⟨7, (C13_parseI32_spec _ _).mp (by decide), by decide⟩
example : RawAfterTrip "-0" "0" := Or.inl ⟨0, (C13_parseI32_spec _ _).mp (by decide), by decide⟩
-- hash branch: the SHA-256 computation does not evaluate in the kernel; `encode` stays symbolic
example : toW3C okMeta [("a", ("2147483648", Encode.encode "2147483648"))] =
    some [("a", .str "2147483648")] := by decide
example : toW3C okMeta [("a", ("Alice", Encode.encode "Alice"))] = some [("a", .str "Alice")] := by decide
example : subjectEncode [("a", .str "Alice")] = some [("a", ("Alice", Encode.encode "Alice"))] := rfl
example : subjectEncode [("a", .str "2147483648")] =
    some [("a", ("2147483648", Encode.encode "2147483648"))] := rfl
example : CanonicallyEncoded [("a", ("Alice", Encode.encode "Alice"))] := by
  intro nv h
  simp only [List.mem_cons, List.not_mem_nil, or_false] at h
  subst h; rfl
example : RawAfterTrip "Alice" "Alice" :=
  Or.inr ⟨fun ⟨n, h⟩ => (by
    have := (C13_parseI32_spec _ _).mpr h; rw [show parseI32 _ = none by decide] at this; cases this), rfl⟩
example : RawAfterTrip "2147483648" "2147483648" :=
  Or.inr ⟨fun ⟨n, h⟩ => (by
    have := (C13_parseI32_spec _ _).mpr h; rw [show parseI32 _ = none by decide] at this; cases this), rfl⟩
-- W3C → legacy → W3C: a numeric string becomes a number; the range hypothesis of
-- `C14_from_to_exact` is needed in the model
example : fromW3C okW3C [("a", .str "007")] = some [("a", ("007", "7"))] := by decide
example : toSubject [("a", ("007", "7"))] = [("a", .num 7)] := by decide
example : toSubject [("a", (intToDec 2147483648, "x"))] = [("a", .str "2147483648")] := by decide
example : SubjI32 [("a", .num 7), ("b", .str "x")] := by
  intro nv h k hk
  simp only [List.mem_cons, List.not_mem_nil, or_false] at h
  rcases h with rfl | rfl
  · cases hk; decide
  · cases hk
-- refusals
example : toW3C okMeta [] = none := by decide
example : toW3C { okMeta with schemaId := "bob" } [("a", ("1", "1"))] = none := by decide
example : toW3C { okMeta with credDefId := "bob" } [("a", ("1", "1"))] = none := by decide
example : toW3C { okMeta with revRegId := some "bob", hasWitness := true, hasRevReg := true }
    [("a", ("1", "1"))] = none := by decide
example : toW3C { okMeta with revRegId := some "mock:uri", hasWitness := true, hasRevReg := false }
    [("a", ("1", "1"))] = none := by decide
example : toW3C { okMeta with revRegId := some "mock:uri", hasWitness := false, hasRevReg := true }
    [("a", ("1", "1"))] = none := by decide
example : toW3C { okMeta with revRegId := some "mock:uri", hasWitness := true, hasRevReg := true }
    [("a", ("1", "1"))] = some [("a", .num 1)] := by decide
example : fromW3C okW3C [("a", .bool true)] = none := by decide
example : fromW3C { okW3C with hasIssuanceDate := false } [("a", .num 1)] = none := by decide
example : fromW3C { okW3C with v11 := false, hasIssuanceDate := false } [("a", .num 1)] =
    some [("a", ("1", "1"))] := by decide
example : fromW3C { okW3C with signatureProofOk := false } [("a", .num 1)] = none := by decide
example : fromW3C { okW3C with contextOk := false } [("a", .num 1)] = none := by decide
example : fromW3C { okW3C with hasW3CType := false } [("a", .num 1)] = none := by decide
-- the code as it is: an empty subject is accepted by `credential_from_w3c` and yields a legacy
-- credential that `credential_to_w3c` refuses
example : fromW3C okW3C [] = some [] ∧ toW3C okMeta [] = none := by decide

end AnonModel.Convert

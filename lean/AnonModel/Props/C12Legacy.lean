import AnonModel.Lemmas.VerifierLegacy
/-!
# C12 (legacy verifier) — `verify_presentation` returns, and returns `Ok`/`Err`: it never panics

The model keeps `Outcome.panic site` apart from `Outcome.err`: every expression of the non-test Rust
code of `services/verifier.rs` that can panic would be a `panic` branch of the model. As the code
stands (after the fix commit "return an error instead of panicking on inconsistent presentations",
finding F11: `proofs[i]` became a checked `get`; the `unwrap` of
`requested_proof.predicates.get(referent)` in `verify_requested_restrictions` is now preceded by
`received_predicates.get(referent).ok_or_else(..)?` on a map built from the same
`requested_proof.predicates`, so a missing referent is an `Err` before the `unwrap` is reached; the
remaining `unwrap`s take a key just obtained from `keys()` of the same map) the model functions
`restrictionsOutcome` and `verifyLegacy` contain no panicking branch; the only `panic` that occurs
in `verifyLegacy` is the propagation arm `| .panic s => .panic s` of the match on
`restrictionsOutcome`. The theorems below say that this arm is dead.

Totality. Every function of `Model/Verifier.lean`, `Model/IdealCL.lean`, `Model/Query.lean`,
`Model/Interval.lean`, `Model/Names.lean`, `Model/Encode.lean` used by `verifyLegacy` is defined by
structural recursion (on a list, or on the `Query` tree through the mutual `eval`/`evalAll`/`evalAny`)
or is recursion-free; none is `partial`, none uses fuel, none uses `get!`/`getD`/division: Lean's
termination checker accepted them as they are, so `verifyLegacy ctx r p` is a value of `Outcome`
for every input — it cannot diverge. Together with `C12_legacy_no_panic`: for all inputs the
verdict is `ok true`, `ok false` or `err` (`C12_legacy_trichotomy`).
-/
namespace AnonModel.Verifier

/-- the predicate loop of `verify_requested_restrictions` never panics -/
theorem C12_restrictions_loop_no_panic (ctx : Ctx) (r : Request) (p : Presentation)
    (l : List (String × PredInfo)) (s : Nat) : restrictionsOutcome.go ctx r p l ≠ .panic s :=
  go_ne_panic ctx r p l s

/-- `verify_requested_restrictions` never panics, for any context, request and presentation -/
theorem C12_restrictions_no_panic (ctx : Ctx) (r : Request) (p : Presentation) (s : Nat) :
    restrictionsOutcome ctx r p ≠ .panic s :=
  restrictionsOutcome_ne_panic ctx r p s

/-- `verify_requested_restrictions` yields `Ok(())` (modelled `ok true`) or `Err` only -/
theorem C12_restrictions_ok_or_err (ctx : Ctx) (r : Request) (p : Presentation) :
    restrictionsOutcome ctx r p = .ok true ∨ restrictionsOutcome ctx r p = .err := by
  cases h : restrictionsOutcome ctx r p with
  | panic s => exact absurd h (restrictionsOutcome_ne_panic ctx r p s)
  | err => exact Or.inr rfl
  | ok b =>
    cases b with
    | true => exact Or.inl rfl
    | false => exact absurd h (restrictionsOutcome_ne_ok_false ctx r p)

/-- **C12**: `verify_presentation` never panics, for any context, request and presentation
(well-formed or not: dangling indices, missing referents, missing definitions, … all end in `Err`) -/
theorem C12_legacy_no_panic (ctx : Ctx) (r : Request) (p : Presentation) (s : Nat) :
    verifyLegacy ctx r p ≠ .panic s := by
  unfold verifyLegacy
  split; · simp
  split; · simp
  split; · simp
  split; · simp
  split; · simp
  split; · simp
  split
  · rename_i s' hs'; exact absurd hs' (restrictionsOutcome_ne_panic ctx r p s')
  · simp
  · simp
  · split; · simp
    split
    · simp
    · split <;> simp

/-- the verdict is one of `Ok(true)`, `Ok(false)`, `Err` -/
theorem C12_legacy_trichotomy (ctx : Ctx) (r : Request) (p : Presentation) :
    verifyLegacy ctx r p = .ok true ∨ verifyLegacy ctx r p = .ok false ∨
      verifyLegacy ctx r p = .err := by
  cases h : verifyLegacy ctx r p with
  | panic s => exact absurd h (C12_legacy_no_panic ctx r p s)
  | err => exact Or.inr (Or.inr rfl)
  | ok b => cases b <;> simp

/-! ### non-vacuity: all three verdicts occur, also on ill-formed input -/

section Examples
open Honest

example : verifyLegacy ctx req pres = .ok true := Honest.accepted
example : verifyLegacy ctx { req with nonce := "M" } pres = .ok false := by decide
-- dangling sub-proof index in `revealed_attrs`
example : verifyLegacy ctx req
    { pres with revealed := [("a1", { idx := 7, raw := "7", encoded := "7" })] } = .err := by decide
-- no sub-proofs at all (the former `proofs[i]` panic)
example : verifyLegacy ctx req { pres with subs := [] } = .err := by decide
-- a restricted predicate the presentation has no entry for (the former `unwrap` panic); the
-- earlier set comparison already rejects it
example : verifyLegacy ctx
    { req with preds := [("p1", { name := "age", ty := "GE", value := 18,
                                  restrictions := some (.eq "cred_def_id" "C"), nonRevoked := none })] }
    { pres with predicates := [] } = .err := by decide
-- … and the restriction loop on its own also answers `err` there
example : restrictionsOutcome ctx
    { req with preds := [("p1", { name := "age", ty := "GE", value := 18,
                                  restrictions := some (.eq "cred_def_id" "C"), nonRevoked := none })] }
    { pres with predicates := [] } = .err := by decide
-- everything empty
example : verifyLegacy ⟨[], [], none, none, none⟩ ⟨"", [], [], none⟩
    ⟨[], [], [], [], [], [], [], ⟨"", [], true⟩⟩ = .ok true := by decide
end Examples

end AnonModel.Verifier

import AnonModel.Gen.StoreSrc
import AnonModel.Model.Store
/-!
# C18: the object-store functions `Model/Store.lean` models micro-step by micro-step are the ones in `/repo` now

`Gen/StoreSrc.lean` holds the bodies of `ObjectHandle::{create, load, opt_load, remove}` (`src/ffi/object.rs`) and of `next()`
(`new_handle_type!`, `src/utils/macros.rs`) with whitespace and comments removed, regenerated on every run. The step
machine of `Model/Store.lean` was written against exactly these bodies: `next` = one atomic fetch-add whose *result* is
the handle, `create` = `next` then one locked insert, `load` = one locked get + clone, `remove` = one locked remove
(blocking `lock`, not `try_lock`), `opt_load` = `load` for every handle but 0 (a freed handle is an error in an optional
argument position too). A rewrite breaks the equality even when the behaviour is unchanged; the check then
looks for a history the model rejects (creation bursts, free/get races) and reports either way.
-/
namespace AnonModel.GenConsts
open AnonModel.Gen

/-- the five functions behind handle allocation, lookup (required and optional arguments) and removal -/
theorem C18_store_sources_unchanged :
    storeSrc_next = "$newtype($counter.fetch_add(1,std::sync::atomic::Ordering::SeqCst)+1)" ∧
    storeSrc_create = "lethandle=Self::next();FFI_OBJECTS.lock().map_err(|_|err_msg!(\"Errorlockingobjectstore\"))?.insert(handle,AnoncredsObject::new(value));Ok(handle)" ∧
    storeSrc_load = "FFI_OBJECTS.lock().map_err(|_|err_msg!(\"Errorlockingobjectstore\"))?.get(&self).cloned().ok_or_else(||err_msg!(\"Invalidobjecthandle\"))" ∧
    storeSrc_remove = "FFI_OBJECTS.lock().map_err(|_|err_msg!(\"Errorlockingobjectstore\"))?.remove(&self).ok_or_else(||err_msg!(\"Invalidobjecthandle\"))" ∧
    storeSrc_opt_load = "ifself.0==0{Ok(None)}else{Some(FFI_OBJECTS.lock().map_err(|_|err_msg!(\"Errorlockingobjectstore\"))?.get(&self).cloned().ok_or_else(||err_msg!(\"Invalidobjecthandle\")),).transpose()}" := by
  refine ⟨?_, ?_, ?_, ?_, ?_⟩ <;> rfl

end AnonModel.GenConsts

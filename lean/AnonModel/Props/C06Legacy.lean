import AnonModel.Lemmas.VerifierLegacy
import AnonModel.Props.C06Eval
/-!
# C06 (legacy format) — restrictions hold for the credential actually used

Soundness direction for `Verifier.verifyLegacy` (model of `services/verifier.rs:
verify_presentation`, here mainly `verify_requested_restrictions`) on top of the ideal CL
functionality. `Props/C06Eval.lean` says what `Query.eval` means (`C06_eval_iff_sat`: evaluation =
Boolean semantics over the six metadata fields and the value map). This file says **which**
metadata and **which** values an accepted presentation's restrictions were evaluated on:

* the filter `f` is exactly the metadata of the schema and credential definition the verifier
  supplied for the identifier at the index the referent points to (six fields spelled out), and the
  sub-proof at that same index is `SubSound` — signed by the key of that very definition over that
  very schema. So metadata restrictions (`schema_id`, `cred_def_id`, `issuer_id`, …) are bound to the
  credential actually used.
* the referent points to one index only: it occurs in exactly one of `revealed_attrs`,
  `revealed_attr_groups`, `unrevealed_attrs` (F10, fixed by `check_unique_attr_referents`).
* a restricted attribute cannot be served self-attested.
* the value map (`attrValueMap`, `predValueMap`) is built from the **raw** values of the
  presentation. These are not authenticated (see C03): `attr::<name>::value` restrictions are *not*
  bound to the signed value — known finding **F15**, `C06_raw_unbound_refuted`.

Key uniqueness: no hypothesis is needed; the restriction loops iterate over the entries of the
request maps.
-/
namespace AnonModel.Verifier
open AnonModel.Query (Query Filter)
open AnonModel.IdealCL

/-- "`f` is the metadata of the supplied schema `sc` / definition `cd` of identifier `id`" -/
def C06_FilterOf (id : Identifier) (sc : SchemaInfo) (cd : CredDefInfo) (f : Filter) : Prop :=
  f.schemaId = id.schemaId ∧ f.schemaIssuerId = sc.issuerId ∧ f.schemaName = sc.name ∧
  f.schemaVersion = sc.version ∧ f.issuerId = cd.issuerId ∧ f.credDefId = id.credDefId

/-- "the referent occurs in exactly one of the three indexed attribute maps" -/
def C06_ExactlyOne (p : Presentation) (ref : String) : Prop :=
  (ref ∈ keys p.revealed ∧ ref ∉ keys p.groups ∧ ref ∉ keys p.unrevealed) ∨
  (ref ∉ keys p.revealed ∧ ref ∈ keys p.groups ∧ ref ∉ keys p.unrevealed) ∨
  (ref ∉ keys p.revealed ∧ ref ∉ keys p.groups ∧ ref ∈ keys p.unrevealed)

/-- **attribute restrictions are bound to the credential used**: in an accepted presentation, for a
requested attribute with a restriction `q` that is not served self-attested, the referent occurs in
exactly one of the three indexed maps, points to one index `i`; `q` evaluates to true on the filter
built from the schema and definition the verifier supplied for identifier `i` and on the value map
`attrValueMap`; and the sub-proof at index `i` is sound for that same schema and definition -/
theorem C06_legacy_attr_binding {ctx : Ctx} {r : Request} {p : Presentation}
    (h : verifyLegacy ctx r p = .ok true) {ref : String} {a : AttrInfo} {q : Query}
    (hm : (ref, a) ∈ r.attrs) (hq : a.restrictions = some q)
    (hns : ¬ Query.isSelfAttested a.restrictions ((keys p.selfAttested).contains ref) = true) :
    ∃ i id f sc cd s, attrIdentifierIdx p ref = some i ∧ C06_ExactlyOne p ref ∧
      p.identifiers[i]? = some id ∧ gatherFilter ctx id = some f ∧
      ctx.schemas.lookup id.schemaId = some sc ∧ ctx.credDefs.lookup id.credDefId = some cd ∧
      C06_FilterOf id sc cd f ∧
      Query.eval Ident.isLegacyDid (attrValueMap p ref a) f q = true ∧
      p.subs[i]? = some s ∧ SubSound ctx p i s := by
  obtain ⟨-, huniq, -, -, -, -, hres, -, -⟩ := (verifyLegacy_ok_true_iff ctx r p).mp h
  have hcl := ((restrictionsOutcome_ok_true_iff ctx r p).mp hres).2.1 _ hm
  rcases attrClause_elim hcl with hsa | hnone | ⟨q', hq', hok⟩
  · exact absurd hsa hns
  · rw [hq] at hnone; cases hnone
  · rw [hq] at hq'; cases hq'
    obtain ⟨i, id, f, hi, hid, hf, hev⟩ := attrRestrictionOk_elim hok
    obtain ⟨sc, cd, hsc, hcd, h1, h2, h3, h4, h5, h6⟩ := gatherFilter_some hf
    obtain ⟨s, hs, hss⟩ := ok_sub_exists h hid
    exact ⟨i, id, f, sc, cd, s, hi, uniqueReferents_exactly_one huniq (attrIdentifierIdx_mem hi),
      hid, hf, hsc, hcd, ⟨h1, h2, h3, h4, h5, h6⟩, hev, hs, hss⟩

/-- the same with `Query.eval` read through its Boolean semantics (`C06_eval_iff_sat`) -/
theorem C06_legacy_attr_binding_sat {ctx : Ctx} {r : Request} {p : Presentation}
    (h : verifyLegacy ctx r p = .ok true) {ref : String} {a : AttrInfo} {q : Query}
    (hm : (ref, a) ∈ r.attrs) (hq : a.restrictions = some q)
    (hns : ¬ Query.isSelfAttested a.restrictions ((keys p.selfAttested).contains ref) = true) :
    ∃ i id f sc cd, attrIdentifierIdx p ref = some i ∧ p.identifiers[i]? = some id ∧
      ctx.schemas.lookup id.schemaId = some sc ∧ ctx.credDefs.lookup id.credDefId = some cd ∧
      C06_FilterOf id sc cd f ∧ Query.Sat Ident.isLegacyDid (attrValueMap p ref a) f q := by
  obtain ⟨i, id, f, sc, cd, s, hi, -, hid, -, hsc, hcd, hf, hev, -, -⟩ :=
    C06_legacy_attr_binding h hm hq hns
  exact ⟨i, id, f, sc, cd, hi, hid, hsc, hcd, hf, (Query.C06_eval_iff_sat _ _ _ q).mp hev⟩

/-- which index the referent points to, by the map it is in -/
theorem C06_attrIdentifierIdx_spec {p : Presentation} {ref : String} {i : Nat}
    (h : attrIdentifierIdx p ref = some i) :
    p.unrevealed.lookup ref = some i ∨ (∃ g, p.groups.lookup ref = some g ∧ g.idx = i) ∨
      (∃ info, p.revealed.lookup ref = some info ∧ info.idx = i) :=
  attrIdentifierIdx_some h

/-- the value map of an attribute referent, spelled out: the revealed **raw** value for a single
name; the group's **raw** values for `names`; and only `none`s (nothing revealed, so
`attr::_::value` restrictions pass vacuously) when the referent is not in the respective map — in
particular when it is unrevealed, in an accepted presentation -/
theorem C06_attrValueMap_spec (p : Presentation) (ref : String) (a : AttrInfo) :
    (∀ n, a.name = some n →
      attrValueMap p ref a = [(n, (p.revealed.lookup ref).map (·.raw))]) ∧
    (∀ names, a.name = none → a.names = some names →
      attrValueMap p ref a = names.map (fun n =>
        (n, ((p.groups.lookup ref).bind (fun g => g.values.lookup n)).map (·.1)))) ∧
    (ref ∉ keys p.revealed → ref ∉ keys p.groups → ∀ kv ∈ attrValueMap p ref a, kv.2 = none) := by
  refine ⟨?_, ?_, ?_⟩
  · intro n hn; simp only [attrValueMap, hn]
  · intro names hn hns; simp only [attrValueMap, hn, hns]
  · intro h1 h2 kv hkv
    unfold attrValueMap at hkv
    rw [lookup_none_of_not_mem_keys h1, lookup_none_of_not_mem_keys h2] at hkv
    cases hn : a.name with
    | some n =>
      rw [hn] at hkv; simp only [Option.map_none, List.mem_singleton] at hkv
      rw [hkv]
    | none =>
      rw [hn] at hkv
      cases hns : a.names with
      | none => rw [hns] at hkv; cases hkv
      | some names =>
        rw [hns] at hkv
        simp only [Option.bind_none, Option.map_none, List.mem_map] at hkv
        obtain ⟨_, _, rfl⟩ := hkv; rfl

/-- **predicate restrictions are bound to the credential used**: in an accepted presentation, for a
requested predicate with a restriction `q`, the presentation names an index `pi` for the referent;
`q` evaluates to true on the filter built from the schema and definition supplied for identifier
`pi` and on `predValueMap` (the predicate's attribute as unrevealed, overlaid by the raw values of
the revealed attributes on the same index); and the sub-proof at `pi` is sound for that same schema
and definition -/
theorem C06_legacy_pred_binding {ctx : Ctx} {r : Request} {p : Presentation}
    (h : verifyLegacy ctx r p = .ok true) {ref : String} {info : PredInfo} {q : Query}
    (hm : (ref, info) ∈ r.preds) (hq : info.restrictions = some q) :
    ∃ pi id f sc cd s, p.predicates.lookup ref = some pi ∧
      p.identifiers[pi]? = some id ∧ gatherFilter ctx id = some f ∧
      ctx.schemas.lookup id.schemaId = some sc ∧ ctx.credDefs.lookup id.credDefId = some cd ∧
      C06_FilterOf id sc cd f ∧
      Query.eval Ident.isLegacyDid (predValueMap r p info pi) f q = true ∧
      p.subs[pi]? = some s ∧ SubSound ctx p pi s := by
  obtain ⟨-, -, -, -, -, -, hres, -, -⟩ := (verifyLegacy_ok_true_iff ctx r p).mp h
  obtain ⟨pi, id, f, hpi, hid, hf, hev⟩ :=
    ((restrictionsOutcome_ok_true_iff ctx r p).mp hres).2.2 _ hm q hq
  obtain ⟨sc, cd, hsc, hcd, h1, h2, h3, h4, h5, h6⟩ := gatherFilter_some hf
  obtain ⟨s, hs, hss⟩ := ok_sub_exists h hid
  exact ⟨pi, id, f, sc, cd, s, hpi, hid, hf, hsc, hcd, ⟨h1, h2, h3, h4, h5, h6⟩, hev, hs, hss⟩

/-- **no self-attestation under a restriction**: a requested attribute with a non-empty restriction
(anything but `$and: []` / `$or: []`) whose referent occurs in none of the three indexed maps — so it
could only be served from `self_attested_attrs` — makes the presentation unacceptable -/
theorem C06_legacy_no_self_attest {ctx : Ctx} {r : Request} {p : Presentation}
    {ref : String} {a : AttrInfo} {q : Query} (hm : (ref, a) ∈ r.attrs)
    (hq : a.restrictions = some q) (hne : Query.isSelfAttested (some q) true = false)
    (hno : ref ∉ keys p.revealed ++ keys p.groups ++ keys p.unrevealed) :
    verifyLegacy ctx r p ≠ .ok true := by
  intro h
  have hns : ¬ Query.isSelfAttested a.restrictions ((keys p.selfAttested).contains ref) = true := by
    rw [hq]
    cases hc : (keys p.selfAttested).contains ref with
    | true => rw [hne]; simp
    | false =>
      intro hh
      cases q <;> simp only [Query.isSelfAttested] at hh hne <;> try cases hh
      all_goals (split at hh <;> first | cases hh | (split at hne <;> cases hne))
  obtain ⟨i, _, _, _, _, _, hi, -⟩ := C06_legacy_attr_binding h hm hq hns
  exact hno (attrIdentifierIdx_mem hi)

/-- **mixed legacy / new issuer tags**: a request whose restrictions use both `issuer_id` and
`issuer_did` (or both `schema_issuer_id` and `schema_issuer_did`) is never satisfied: `Err` -/
theorem C06_legacy_tags_mixed_rejected {ctx : Ctx} {r : Request} {p : Presentation}
    (hmix : tagsMixed r = true) : verifyLegacy ctx r p = .err := by
  have hro : restrictionsOutcome ctx r p = .err := by
    unfold restrictionsOutcome; rw [if_pos hmix]
  unfold verifyLegacy
  rw [hro]
  repeat' split
  all_goals first | rfl | contradiction

/-
Full statement of value binding ("restrictions hold for the credential actually used", for the
`attr::<name>::value` tag): in an accepted presentation, if the restriction of a revealed single
attribute `n` is `attr::n::value = v`, then the credential behind the sub-proof has `encode(v)` as
the signed value of an attribute with that normal-form name:

  ∀ ctx r p, verifyLegacy ctx r p = .ok true → ∀ kv ∈ r.attrs, ∀ n tag v info s,
    kv.2.name = some n → Query.internalTagName tag = some n → kv.2.restrictions = some (.eq tag v) →
    p.revealed.lookup kv.1 = some info → p.subs[info.idx]? = some s →
    ∃ k, commonView k = commonView n ∧ s.cred.attrs.lookup k = some (Encode.encode v)

It is false of the code: the restriction is evaluated on `raw`, and nothing ties `raw` to
`encoded` / the signed value. Proved instead: `C06_legacy_attr_binding` (the restriction holds of
the *raw* values carried by the presentation) and `C03_legacy_revealed` (the *encoded* value is the
signed one). What is missing is `encode(raw) = encoded` (known finding F15; callers must check it).
-/

/-- **F15**: value restrictions are evaluated on the unauthenticated `raw`. Request: attribute
`name` restricted by `attr::name::value = 8`. The credential's signed value of `name` is `7`; the
presentation reveals `encoded = 7` (genuine) next to `raw = 8` (invented). Accepted. -/
theorem C06_raw_unbound_refuted :
    ¬ ∀ (ctx : Ctx) (r : Request) (p : Presentation), verifyLegacy ctx r p = .ok true →
      ∀ kv ∈ r.attrs, ∀ (n tag v : String) (info : RevealedInfo) (s : SymSub),
        kv.2.name = some n → Query.internalTagName tag = some n →
        kv.2.restrictions = some (.eq tag v) →
        p.revealed.lookup kv.1 = some info → p.subs[info.idx]? = some s →
        ∃ k, Names.commonView k = Names.commonView n ∧
          s.cred.attrs.lookup k = some (Encode.encode v) := by
  intro hall
  let a : AttrInfo := { name := some "name", names := none,
                        restrictions := some (.eq "attr::name::value" "8"), nonRevoked := none }
  let r : Request := { Honest.req with attrs := [("a1", a)], preds := [] }
  let info : RevealedInfo := { idx := 0, raw := "8", encoded := "7" }
  let p : Presentation := { Honest.pres with
    revealed := [("a1", info)], unrevealed := [], predicates := [] }
  have hok : verifyLegacy Honest.ctx r p = .ok true := by decide
  obtain ⟨k, -, hsig⟩ := hall Honest.ctx r p hok ("a1", a) (List.mem_cons_self ..)
    "name" "attr::name::value" "8" info Honest.sub rfl (by decide) rfl rfl rfl
  have henc : Encode.encode "8" = "8" := by decide
  rw [henc] at hsig
  have := mem_of_lookup hsig
  simp only [Honest.sub, List.mem_cons, Prod.mk.injEq, List.not_mem_nil, or_false] at this
  rcases this with ⟨_, h⟩ | ⟨_, h⟩ | ⟨_, h⟩ <;> revert h <;> decide

/-! ### non-vacuity -/

section Examples
open Honest

/-- the honest request with another restriction on `a1` -/
private def withA1 (q : Query) : Request :=
  { req with attrs := [("a1", ⟨some "name", none, some q, none⟩), ("a2", ⟨some "id", none, none, none⟩)] }
/-- the honest request with a restriction on predicate `p1` -/
private def withP1 (q : Query) : Request :=
  { req with preds := [("p1", ⟨"age", "GE", 18, some q, none⟩)] }

-- hypotheses of `C06_legacy_attr_binding` are satisfiable: `a1` is restricted to `cred_def_id = C`
example : verifyLegacy ctx req pres = .ok true := Honest.accepted
example : ((req.attrs.lookup "a1").bind (·.restrictions)).isSome = true := by decide
example : Query.isSelfAttested (some (.eq "cred_def_id" "C")) ((keys pres.selfAttested).contains "a1")
    = false := by decide
-- the restriction is really checked: another definition id is rejected, a conjunction on the
-- supplied schema / definition metadata passes
example : verifyLegacy ctx (withA1 (.eq "cred_def_id" "D")) pres = .err := by decide
example : verifyLegacy ctx
    (withA1 (.and [.eq "schema_id" "S", .eq "issuer_id" "I", .eq "schema_name" "s"])) pres
    = .ok true := by decide
-- a restricted predicate (hypotheses of `C06_legacy_pred_binding`)
example : verifyLegacy ctx (withP1 (.eq "schema_version" "1")) pres = .ok true := by decide
example : verifyLegacy ctx (withP1 (.eq "schema_version" "2")) pres = .err := by decide
-- `C06_legacy_no_self_attest`: `a1` (restricted) moved to `self_attested_attrs`
example : verifyLegacy ctx req { pres with revealed := [], selfAttested := [("a1", "x")] } = .err := by
  decide
-- F10 (fixed): the same referent revealed and unrevealed is rejected
example : verifyLegacy ctx req { pres with unrevealed := [("a2", 0), ("a1", 0)] } = .err := by decide
-- `C06_legacy_tags_mixed_rejected`
example : tagsMixed (withA1 (.or [.eq "issuer_id" "I", .eq "issuer_did" "I"])) = true := by decide
-- a value restriction on the (raw) revealed value: honest case passes, mismatch rejected
example : verifyLegacy ctx (withA1 (.eq "attr::name::value" "7")) pres = .ok true := by decide
example : verifyLegacy ctx (withA1 (.eq "attr::name::value" "8")) pres = .err := by decide
end Examples

end AnonModel.Verifier

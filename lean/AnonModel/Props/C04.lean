import AnonModel.Lemmas.ProverChecks
import AnonModel.Props.C13
/-!
# C04 — honest issue-hold-present-verify flows always verify

`C04_legacy`: a presentation that `createPresentation` builds from a selection meeting `meetsDemands`
(see `Props/C04Defs.lean`) is accepted by `verifyLegacy`; `C04_w3c`: likewise for
`createPresentationW3C`, `meetsDemandsW3C`, `verifyW3C`. Proved check by check: one `C04_check_…`
lemma per check of the verifier (helper lemmas: `Lemmas/Prover.lean`, `Lemmas/ProverMaps.lean`,
`Lemmas/ProverW3C.lean`, `Lemmas/ProverChecks.lean`).
-/
namespace AnonModel.Prover
open AnonModel.Verifier AnonModel.IdealCL AnonModel.Names
open AnonModel.Query (Query)

/-! ## legacy format -/

variable {ctx : Ctx} {pc : PCtx} {r : Request} {sel : List Selected} {sa : List (String × String)}
  {holder session uid0 : Nat} {p : Presentation}

/-- check 1: every sub-proof index in the presentation has an identifier -/
theorem C04_check_indicesOk (h : createPresentation pc r sel sa holder session uid0 = some p) :
    indicesOk p = true := by
  have ch := createPresentation_char h
  unfold indicesOk
  simp only [Bool.and_eq_true, List.all_eq_true, decide_eq_true_eq, ch.identifiers_length]
  refine ⟨⟨⟨?_, ?_⟩, ?_⟩, ?_⟩
  · rintro ⟨k, info⟩ hk
    obtain ⟨s, i, _, _, _, hs, _, _, _, _, rfl⟩ := ch.mem_revealed hk
    exact getElem?_lt hs
  · rintro ⟨k, g⟩ hk
    obtain ⟨s, i, _, _, _, hs, _, _, _, _, _, rfl⟩ := ch.mem_groups hk
    exact getElem?_lt hs
  · rintro ⟨k, j⟩ hk
    obtain ⟨s, hs, _⟩ := ch.mem_unrevealed hk
    exact getElem?_lt hs
  · rintro ⟨k, j⟩ hk
    obtain ⟨s, hs, _⟩ := ch.mem_predicates.mp hk
    exact getElem?_lt hs

/-- check 2: no referent is in two of `revealed_attrs`, `revealed_attr_groups`, `unrevealed_attrs` -/
theorem C04_check_uniqueReferents (h : createPresentation pc r sel sa holder session uid0 = some p) :
    uniqueReferents p = true := by
  have ch := createPresentation_char h
  unfold uniqueReferents keys
  rw [noDup_iff, List.nodup_append, List.nodup_append]
  refine ⟨⟨ch.revealed_nodup, ch.groups_nodup, ?_⟩, ch.unrevealed_nodup, ?_⟩
  · rintro a ha b hb rfl
    obtain ⟨⟨k, info⟩, hk, rfl⟩ := List.mem_map.mp ha
    obtain ⟨⟨k', g⟩, hk', e⟩ := List.mem_map.mp hb
    simp only at e; subst e
    obtain ⟨_, _, ai, name, _, _, _, hl, hn, _⟩ := ch.mem_revealed hk
    obtain ⟨_, _, ai', _, _, _, _, hl', hn', _⟩ := ch.mem_groups hk'
    rw [hl] at hl'; cases hl'
    rw [hn] at hn'; cases hn'
  · rintro a ha b hb rfl
    obtain ⟨⟨k', j⟩, hk', e⟩ := List.mem_map.mp hb
    simp only at e; subst e
    obtain ⟨s', hs', hf⟩ := ch.mem_unrevealed hk'
    rcases List.mem_append.mp ha with ha | ha
    · obtain ⟨⟨k, info⟩, hk, e⟩ := List.mem_map.mp ha
      simp only at e; subst e
      obtain ⟨s, i, _, _, _, hs, ht, _⟩ := ch.mem_revealed hk
      have := (sel_entry_unique ch.valid (mem_zipIdx_iff.mpr hs) (mem_zipIdx_iff.mpr hs') ht hf).2
      cases this
    · obtain ⟨⟨k, g⟩, hk, e⟩ := List.mem_map.mp ha
      simp only at e; subst e
      obtain ⟨s, i, _, _, _, hs, ht, _⟩ := ch.mem_groups hk
      have := (sel_entry_unique ch.valid (mem_zipIdx_iff.mpr hs) (mem_zipIdx_iff.mpr hs') ht hf).2
      cases this

/-- check 3: the presentation's referents are exactly the requested ones -/
theorem C04_check_compareAttrs (hm : meetsDemands ctx pc r sel sa = true)
    (h : createPresentation pc r sel sa holder session uid0 = some p) : compareAttrs r p = true := by
  have ch := createPresentation_char h
  have m := meets_of hm
  unfold compareAttrs sameSet keys
  simp only [Bool.and_eq_true, List.all_eq_true, List.contains_iff_mem, List.mem_append]
  refine ⟨⟨?_, ?_⟩, ?_, ?_⟩
  · intro k hk
    obtain ⟨⟨k', info⟩, hkv, e⟩ := List.mem_map.mp hk
    simp only at e; subst e
    have hserved := m.attrsServed
    unfold attrsServed at hserved
    simp only [List.all_eq_true, Bool.or_eq_true, List.any_eq_true, List.contains_iff_mem, keys] at hserved
    rcases hserved _ hkv with ⟨s, hs, hks⟩ | hsa
    · obtain ⟨i, hi⟩ := List.mem_iff_getElem?.mp hs
      obtain ⟨⟨k'', b⟩, hkb, e⟩ := List.mem_map.mp hks
      simp only at e; subst e
      cases b with
      | false => exact Or.inl (Or.inr (List.mem_map.mpr ⟨_, ch.unrevealed_of hi hkb, rfl⟩))
      | true =>
        have hl := m.lookup_attr hkv
        have hnp := m.names
        unfold namesPresent at hnp
        simp only [List.all_eq_true, Bool.or_eq_true] at hnp
        cases hn : info.name with
        | some name =>
          obtain ⟨re, _, hmem⟩ := ch.revealed_of hi hkb hl hn
          exact Or.inl (Or.inl (Or.inl (List.mem_map.mpr ⟨_, hmem, rfl⟩)))
        | none =>
          cases hns : info.names with
          | none =>
            have := hnp _ hkv
            simp [hn, hns] at this
          | some names =>
            obtain ⟨vals, _, hmem⟩ := ch.groups_of hi hkb hl hn hns
            exact Or.inl (Or.inl (Or.inr (List.mem_map.mpr ⟨_, hmem, rfl⟩)))
    · rw [ch.selfAttested]; exact Or.inr hsa
  · intro k hk
    rcases hk with ((hk | hk) | hk) | hk
    · obtain ⟨⟨k', info⟩, hkv, e⟩ := List.mem_map.mp hk
      simp only at e; subst e
      obtain ⟨_, _, ai, _, _, _, _, hl, _⟩ := ch.mem_revealed hkv
      exact mem_keys_of_lookup hl
    · obtain ⟨⟨k', g⟩, hkv, e⟩ := List.mem_map.mp hk
      simp only at e; subst e
      obtain ⟨_, _, ai, _, _, _, _, hl, _⟩ := ch.mem_groups hkv
      exact mem_keys_of_lookup hl
    · obtain ⟨⟨k', j⟩, hkv, e⟩ := List.mem_map.mp hk
      simp only at e; subst e
      obtain ⟨s, hs, hf⟩ := ch.mem_unrevealed hkv
      obtain ⟨info, _, hl, _⟩ := m.unrevealed_held hs hf
      exact mem_keys_of_lookup hl
    · rw [ch.selfAttested] at hk
      obtain ⟨kv, hkv, e⟩ := List.mem_map.mp hk
      subst e
      have := m.saRequested
      unfold selfAttestedRequested at this
      simp only [List.all_eq_true, List.contains_iff_mem, keys] at this
      exact this _ hkv
  · intro k hk
    obtain ⟨⟨k', q⟩, hkv, e⟩ := List.mem_map.mp hk
    simp only at e; subst e
    have hserved := m.predsServed
    unfold predsServed at hserved
    simp only [List.all_eq_true, List.any_eq_true, List.contains_iff_mem] at hserved
    obtain ⟨s, hs, hks⟩ := hserved _ hkv
    obtain ⟨i, hi⟩ := List.mem_iff_getElem?.mp hs
    exact List.mem_map.mpr ⟨(k', i), ch.mem_predicates.mpr ⟨s, hi, hks⟩, rfl⟩
  · intro k hk
    obtain ⟨⟨k', j⟩, hkv, e⟩ := List.mem_map.mp hk
    simp only at e; subst e
    obtain ⟨s, hs, hks⟩ := ch.mem_predicates.mp hkv
    obtain ⟨sub, _, hadd⟩ := ch.sub_of hs
    obtain ⟨_, _, pinfos, _, _, _, hmp, _⟩ := addSubProof_some hadd
    obtain ⟨q, _, hl⟩ := mapM_some_mem hmp hks
    exact mem_keys_of_lookup hl

/-- check 4: revealed raw/encoded values agree with the sub-proofs -/
theorem C04_check_revealedValuesOk (hm : meetsDemands ctx pc r sel sa = true)
    (h : createPresentation pc r sel sa holder session uid0 = some p) : revealedValuesOk r p = true := by
  have ch := createPresentation_char h
  have m := meets_of hm
  unfold revealedValuesOk
  simp only [Bool.and_eq_true, List.all_eq_true]
  constructor
  · rintro ⟨k, info⟩ hk
    obtain ⟨s, i, ai, name, re, hs, ht, hl, hn, hc, rfl⟩ := ch.mem_revealed hk
    obtain ⟨sub, hsub, hadd⟩ := ch.sub_of hs
    simp only [hl, hn, hsub]
    exact revealedValueOk_of m hs hadd ⟨k, ai, ht, hl, mem_allNames_name hn⟩ hc
  · rintro ⟨k, g⟩ hk
    obtain ⟨s, i, ai, names, vals, hs, ht, hl, hn, hns, hvals, rfl⟩ := ch.mem_groups hk
    obtain ⟨sub, hsub, hadd⟩ := ch.sub_of hs
    simp only [hl, hns, hsub, Bool.and_eq_true, decide_eq_true_eq, List.all_eq_true]
    refine ⟨mapM_some_length hvals, ?_⟩
    intro n hn'
    have hlook := mapM_pair_lookup hvals n (List.mem_eraseDups.mpr hn')
    obtain ⟨nv, _, hnv⟩ := mapM_some_mem hvals (List.mem_eraseDups.mpr hn')
    cases hc : credValue s.cred n with
    | none => simp [hc] at hnv
    | some re =>
      rw [hlook, hc]
      exact revealedValueOk_of m hs hadd ⟨k, ai, ht, hl, mem_allNames_names hns hn'⟩ hc

/-- check 5: every unrevealed referent is requested and its credential's schema has the names -/
theorem C04_check_unrevealedOk (hm : meetsDemands ctx pc r sel sa = true)
    (h : createPresentation pc r sel sa holder session uid0 = some p) : unrevealedOk ctx r p = true := by
  have ch := createPresentation_char h
  have m := meets_of hm
  unfold unrevealedOk
  simp only [List.all_eq_true]
  rintro ⟨k, j⟩ hk
  obtain ⟨s, hs, hf⟩ := ch.mem_unrevealed hk
  obtain ⟨info, sc, hl, hsc, hall⟩ := m.unrevealed_held hs hf
  have hid := ch.identifier_of hs
  simp only [hl, hid]
  show (match ctx.schemas.lookup s.cred.schemaId with
    | none => false
    | some sc => info.allNames.all fun n => hasNorm sc.attrNames n) = true
  rw [hsc]
  simpa using hall

/-- check 6: every predicate referent is requested and proven by the sub-proof it points to -/
theorem C04_check_predicatesOk (h : createPresentation pc r sel sa holder session uid0 = some p) :
    predicatesOk r p = true := by
  have ch := createPresentation_char h
  unfold predicatesOk
  simp only [List.all_eq_true]
  rintro ⟨k, j⟩ hk
  obtain ⟨s, hs, hks⟩ := ch.mem_predicates.mp hk
  obtain ⟨sub, hsub, hadd⟩ := ch.sub_of hs
  obtain ⟨_, _, pinfos, _, _, _, hmp, hb⟩ := addSubProof_some hadd
  obtain ⟨_, _, _, _, _, _, _, hpreds, _⟩ := buildSub_some hb
  obtain ⟨q, hq, hl⟩ := mapM_some_mem hmp hks
  simp only [hl, hsub, List.any_eq_true]
  refine ⟨normPred (predOfInfo q), ?_, ?_⟩
  · rw [hpreds]
    exact mem_dedup.mpr (List.mem_map_of_mem (f := normPred) (List.mem_map_of_mem (f := predOfInfo) hq))
  · simp [normPred, predOfInfo, commonView_idem]



/-- check 7: restrictions -/
theorem C04_check_restrictions (hm : meetsDemands ctx pc r sel sa = true)
    (h : createPresentation pc r sel sa holder session uid0 = some p) :
    restrictionsOutcome ctx r p = .ok true := by
  have ch := createPresentation_char h
  have m := meets_of hm
  unfold restrictionsOutcome
  have htags : tagsMixed r = false := by
    have := m.tags; unfold tagsNotMixed at this; simpa using this
  rw [if_neg (by simp [htags])]
  have hattrs : (r.attrs.all (fun kv =>
      if Query.isSelfAttested kv.2.restrictions ((keys p.selfAttested).contains kv.1) then true
      else match kv.2.restrictions with
        | none => true
        | some q => attrRestrictionOk ctx p kv.1 kv.2 q)) = true := by
    have hr := m.attrRestr
    unfold attrRestrictionsMet at hr
    simp only [List.all_eq_true] at hr ⊢
    intro kv hkv
    have := hr kv hkv
    rw [ch.selfAttested]
    cases hsa : Query.isSelfAttested kv.2.restrictions ((keys sa).contains kv.1) with
    | true => simp
    | false =>
      simp only [hsa, Bool.false_or] at this
      simp only [Bool.false_eq_true, if_false]
      cases hq : kv.2.restrictions with
      | none => rfl
      | some q =>
        simp only [hq] at this ⊢
        exact attrRestrictionOk_of ch (m.lookup_attr hkv) this
  rw [if_neg (by rw [Bool.not_eq_true', Bool.not_eq_false]; exact hattrs)]
  apply restrictions_go_ok
  intro kv hkv
  have hr := m.predRestr
  unfold predRestrictionsMet at hr
  simp only [List.all_eq_true] at hr
  have := hr kv hkv
  cases hq : kv.2.restrictions with
  | none => trivial
  | some q =>
    simp only [hq] at this ⊢
    split at this
    · cases this
    · rename_i s i hserv
      obtain ⟨hs, hk⟩ := servingPred_some hserv
      split at this
      · cases this
      · rename_i f hf
        refine ⟨i, identOf s, f, ch.lookup_predicate hs hk, ch.identifier_of hs, hf, ?_⟩
        have : predValueMap r p kv.2 i = predValueMapOf r s i kv.2 := by
          unfold predValueMap predValueMapOf
          simp only []
          rw [ch.groups_select _ hs, ch.revealed_select _ hs]
          rfl
        rw [this]
        assumption


/-- check 9: interval checks and `add_sub_proof` succeed for every identifier; the contexts handed to
the CL verifier are those of the used entries, in order -/
theorem C04_check_subCtxs (hm : meetsDemands ctx pc r sel sa = true)
    (h : createPresentation pc r sel sa holder session uid0 = some p) :
    ∃ cs, subCtxs ctx r p = some cs ∧ cs.length = (usedOf sel).length ∧
      ∀ (i : Nat) (c : SubCtx), cs[i]? = some c → ∃ s sc cd, (usedOf sel)[i]? = some s ∧
        ctx.schemas.lookup s.cred.schemaId = some sc ∧
        ctx.credDefs.lookup s.cred.credDefId = some cd ∧ cd.key = s.cred.sym.key ∧
        c = subCtxOf ctx s sc cd := by
  have ch := createPresentation_char h
  have m := meets_of hm
  have hbody : ∀ i ∈ List.range p.identifiers.length, ∀ s, (usedOf sel)[i]? = some s →
      (match p.identifiers[i]? with
        | none => none
        | some id => subCtxFor ctx r p i id) = subCtxFor ctx r p i (identOf s) := by
    intro i _ s hs
    rw [ch.identifier_of hs]
  have hex : ∀ i ∈ List.range p.identifiers.length, ∃ s, (usedOf sel)[i]? = some s := by
    intro i hi
    rw [List.mem_range, ch.identifiers_length] at hi
    exact ⟨(usedOf sel)[i], List.getElem?_eq_getElem hi⟩
  obtain ⟨cs, hcs⟩ := mapM_exists_of (l := List.range p.identifiers.length)
    (f := fun i => match p.identifiers[i]? with
        | none => none
        | some id => subCtxFor ctx r p i id) (fun i hi => by
      obtain ⟨s, hs⟩ := hex i hi
      obtain ⟨sc, cd, _, _, _, hc⟩ := subCtxFor_of m ch hs
      exact ⟨_, by rw [hbody i hi s hs, hc]⟩)
  refine ⟨cs, hcs, ?_, ?_⟩
  · rw [mapM_some_length hcs, List.length_range, ch.identifiers_length]
  · intro i c hc
    obtain ⟨j, hj, hf⟩ := mapM_some_getElem?_inv hcs hc
    have hlt : i < p.identifiers.length := by
      have := getElem?_lt hj
      simpa using this
    have hji : j = i := by
      rw [List.getElem?_range hlt] at hj
      exact (Option.some.inj hj).symm
    subst hji
    obtain ⟨s, hs⟩ := hex j (List.mem_range.mpr hlt)
    obtain ⟨sc, cd, h1, h2, h3, h4⟩ := subCtxFor_of m ch hs
    rw [hbody j (List.mem_range.mpr hlt) s hs, h4] at hf
    exact ⟨s, sc, cd, hs, h1, h2, h3, (Option.some.inj hf).symm⟩


/-- check 10: the CL verification of the sub-proofs against the verifier's contexts succeeds -/
theorem C04_check_cl (hm : meetsDemands ctx pc r sel sa = true)
    (h : createPresentation pc r sel sa holder session uid0 = some p) {cs : List SubCtx}
    (hcs : subCtxs ctx r p = some cs) : IdealCL.verify cs p.subs p.agg r.nonce true = some true := by
  have ch := createPresentation_char h
  have m := meets_of hm
  obtain ⟨cs', hcs', hlen, hchar⟩ := C04_check_subCtxs hm h
  rw [hcs] at hcs'; cases hcs'
  apply verify_true
  · rw [hlen, ch.subs_length]
  · intro sub hsub
    obtain ⟨i, hi⟩ := List.mem_iff_getElem?.mp hsub
    obtain ⟨s, _, hadd⟩ := ch.sub_inv hi
    obtain ⟨hnr, hnp⟩ := addSubProof_normal hadd
    unfold paramsConsistent
    simp only [Bool.and_eq_true, List.all_eq_true, beq_iff_eq]
    exact ⟨hnr, hnp⟩
  · intro m' s1 hs1 s2 hs2 e
    have hms : ∀ sub ∈ p.subs, sub.ms = (holder, session) := by
      intro sub hsub
      obtain ⟨i, hi⟩ := List.mem_iff_getElem?.mp hsub
      obtain ⟨s, _, hadd⟩ := ch.sub_inv hi
      obtain ⟨_, _, _, _, _, _, _, hb⟩ := addSubProof_some hadd
      exact (buildSub_some hb).2.2.2.2.2.2.2.2.2.2.1
    rw [← e, hms s1 hs1, hms s2 hs2]
  · rw [ch.agg]
  · rw [ch.agg]
  · rw [ch.agg]
  · intro pr hpr
    obtain ⟨i, hi⟩ := List.mem_iff_getElem?.mp hpr
    obtain ⟨hc, hsub⟩ := List.getElem?_zip_eq_some.mp hi
    obtain ⟨s, sc, cd, hs, hsc, hcd, hkey, hceq⟩ := hchar i pr.1 hc
    obtain ⟨s', hs', hadd⟩ := ch.sub_inv hsub
    rw [hs] at hs'; cases hs'
    rw [hceq]
    exact pair_ok m.cl (List.mem_of_getElem? hs) hsc hcd hkey hadd

/-- **C04 (legacy format): honest flows verify.** If the verifier's context, the prover's context, the
request, the selection and the self-attested values meet `meetsDemands` — the verifier knows the same
schemas and the credential definitions that signed the credentials, the credentials carry the values
that were signed, every requested referent is served (or self-attested and unrestricted), unrevealed
referents are served by credentials that have the attribute, restrictions are true of the serving
credentials, timestamps lie in the demanded non-revocation intervals and the revocation states passed
along are good for the registries and status lists the verifier supplies — then any presentation
`create_presentation` builds is accepted by `verify_presentation`: the verdict is `Ok(true)`. -/
theorem C04_legacy (hm : meetsDemands ctx pc r sel sa = true)
    (h : createPresentation pc r sel sa holder session uid0 = some p) :
    verifyLegacy ctx r p = .ok true := by
  obtain ⟨cs, hcs, _⟩ := C04_check_subCtxs hm h
  have hl : listsOk ctx = true := (meets_of hm).lists
  unfold verifyLegacy
  simp only [C04_check_indicesOk h, C04_check_uniqueReferents h, C04_check_compareAttrs hm h,
    C04_check_revealedValuesOk hm h, C04_check_unrevealedOk hm h, C04_check_predicatesOk h,
    C04_check_restrictions hm h, hl, hcs, C04_check_cl hm h hcs, Bool.not_true, Bool.false_eq_true,
    if_false]

/-! ## W3C format -/
section W3C
open AnonModel.VerifierW3C

variable {ctx : Ctx} {pc : PCtx} {r : Request} {sel : List SelectedW3C}
  {holder session uid0 : Nat} {p : VerifierW3C.Presentation}

/-- W3C check: every requested attribute name is held by a derived credential meeting the conditions -/
theorem C04_check_w3c_attrs (hm : meetsDemandsW3C ctx pc r sel = true)
    (h : createPresentationW3C pc r sel holder session uid0 = some p) :
    r.attrs.all (fun kv => kv.2.allNames.all (fun n =>
      requestedAttributeOk ctx r p n kv.2.restrictions kv.2.nonRevoked)) = true := by
  have ch := createPresentationW3C_char h
  have m := meetsW3C_of hm
  simp only [List.all_eq_true]
  intro kv hkv n hn
  have hserved := m.attrsServed
  unfold attrsServedW3C at hserved
  simp only [List.all_eq_true, List.any_eq_true, Bool.and_eq_true, List.contains_iff_mem, keys] at hserved
  obtain ⟨s, hs, hk, hcond⟩ := hserved kv hkv
  obtain ⟨i, hi⟩ := List.mem_iff_getElem?.mp hs
  obtain ⟨sub, subj, hc, hadd, hb⟩ := ch.cred_of hi
  obtain ⟨rr, hrr, hrr1⟩ := List.mem_map.mp hk
  obtain ⟨info, hinfo, hheld⟩ := buildCredentialAttributes_held hb hrr
  have hl : r.attrs.lookup kv.1 = some kv.2 :=
    lookup_of_mem ((noDup_iff _).mp m.attrsNodup) (k := kv.1) (b := kv.2) hkv
  rw [hrr1, hl] at hinfo; cases hinfo
  obtain ⟨av, hav⟩ := hheld n hn
  obtain ⟨a, sc, _, hsc, _⟩ := m.cl.schema_of (mem_usedL hi)
  have hsc' : ctx.schemas.lookup s.cred.schemaId = some sc := hsc
  have hnorm := m.hasNorm_of hi hadd hsc' hav
  unfold servedCondOkW3C at hcond
  rw [hb] at hcond
  simp only [] at hcond
  rw [conditionsOk_sub ctx r s default sub] at hcond
  unfold requestedAttributeOk
  split
  · rfl
  · rw [heldBy_true (ch.schemas_supplied m)
      ⟨credOfW3C s sub subj, List.mem_of_getElem? hc, sc, hsc', hnorm, hcond⟩]
    rfl


/-- W3C check: every requested predicate is proven by a derived credential meeting the conditions -/
theorem C04_check_w3c_preds (hm : meetsDemandsW3C ctx pc r sel = true)
    (h : createPresentationW3C pc r sel holder session uid0 = some p) :
    r.preds.all (fun kv => requestedPredicateOk ctx r p kv.2) = true := by
  have ch := createPresentationW3C_char h
  have m := meetsW3C_of hm
  simp only [List.all_eq_true]
  intro kv hkv
  have hserved := m.predsServed
  unfold predsServedW3C at hserved
  simp only [List.all_eq_true, List.any_eq_true, Bool.and_eq_true, List.contains_iff_mem] at hserved
  obtain ⟨s, hs, hk, hcond⟩ := hserved kv hkv
  obtain ⟨i, hi⟩ := List.mem_iff_getElem?.mp hs
  obtain ⟨sub, subj, hc, hadd, hb⟩ := ch.cred_of hi
  obtain ⟨q, av, b, hq, hav, hmark⟩ := buildCredentialAttributes_marks hb hk
  have hl : r.preds.lookup kv.1 = some kv.2 :=
    lookup_of_mem ((noDup_iff _).mp m.predsNodup) (k := kv.1) (b := kv.2) hkv
  rw [hl] at hq; cases hq
  unfold servedCondOkW3C at hcond
  rw [hb] at hcond
  simp only [] at hcond
  rw [conditionsOk_sub ctx r s default sub] at hcond
  unfold requestedPredicateOk
  simp only [List.any_eq_true]
  refine ⟨credOfW3C s sub subj, List.mem_of_getElem? hc, ?_⟩
  have hgp : getPredicate (credOfW3C s sub subj) kv.2.name = some av.1 := by
    unfold getPredicate subjLookup
    show (match lookupNorm subj kv.2.name with
      | some (a, .bool _) => some a
      | _ => none) = some av.1
    rw [lookupNorm_subj hav (buildCredentialAttributes_canon hb), hmark]
    rfl
  rw [hgp]
  simp only [Bool.and_eq_true, List.any_eq_true, beq_iff_eq]
  refine ⟨⟨normPred (predOfInfo kv.2), ?_, ?_⟩, hcond⟩
  · obtain ⟨_, _, pinfos, _, _, _, hmp, hbs⟩ := addSubProof_some hadd
    obtain ⟨_, _, _, _, _, _, _, hpreds, _⟩ := buildSub_some hbs
    obtain ⟨q', hq', hlk⟩ := mapM_some_mem hmp (show kv.1 ∈ (w3cAsSelected s).preds from hk)
    rw [hl] at hlk; cases hlk
    show normPred (predOfInfo kv.2) ∈ sub.preds
    rw [hpreds]
    exact mem_dedup.mpr (List.mem_map_of_mem (f := normPred) (List.mem_map_of_mem (f := predOfInfo) hq'))
  · refine ⟨⟨?_, rfl⟩, rfl⟩
    show commonView (commonView kv.2.name) = commonView av.1
    rw [commonView_idem]; exact (lookupNorm_some hav).2.symm

/-- W3C check: issuer and verification method of each derived credential agree with its definition -/
theorem C04_check_w3c_issuers (hm : meetsDemandsW3C ctx pc r sel = true)
    (h : createPresentationW3C pc r sel holder session uid0 = some p) : issuersOk ctx p = true := by
  have ch := createPresentationW3C_char h
  have m := meetsW3C_of hm
  unfold issuersOk
  simp only [List.all_eq_true]
  intro c hc
  obtain ⟨i, hi⟩ := List.mem_iff_getElem?.mp hc
  obtain ⟨s, sub, subj, hs, _, _, rfl⟩ := ch.cred i c hi
  have := m.issuers
  unfold issuersAgreeW3C at this
  simp only [List.all_eq_true] at this
  have := this s (List.mem_of_getElem? hs)
  show (match ctx.credDefs.lookup s.cred.credDefId with
    | none => false
    | some cd => cd.issuerId == s.cred.issuer && s.cred.credDefId == s.cred.credDefId) = true
  split at this
  · rename_i cd hcd
    simp only [hcd, this, beq_self_eq_true, Bool.and_self]
  · cases this

/-- W3C check: the subject of each derived credential is backed by its sub-proof -/
theorem C04_check_w3c_subjects (hm : meetsDemandsW3C ctx pc r sel = true)
    (h : createPresentationW3C pc r sel holder session uid0 = some p) : subjectsOk p = true := by
  have ch := createPresentationW3C_char h
  have m := meetsW3C_of hm
  unfold subjectsOk
  simp only [List.all_eq_true]
  intro c hc kv hkv
  obtain ⟨i, hi⟩ := List.mem_iff_getElem?.mp hc
  obtain ⟨s, sub, subj, hs, hadd, hb, rfl⟩ := ch.cred i c hi
  have hkv' : kv ∈ subj := hkv
  rcases buildCredentialAttributes_justified hb kv hkv' with ⟨n, hmr, hl⟩ | ⟨hbool, ref, q, v, hp, hq, hl⟩
  · obtain ⟨hmem, hcv⟩ := lookupNorm_some hl
    obtain ⟨hnb, hsig⟩ := m.signed hs hmem
    obtain ⟨val, hval, hln⟩ := addSubProof_lookupNorm hadd (s := w3cAsSelected s) hmr
    have hval' : s.cred.sym.attrs.lookup (commonView n) = some val := hval
    rw [← hcv, hsig] at hval'
    cases hval'
    have hrv : revealedValueOk kv.1 sub (Encode.encode kv.2.toStr) = true := by
      unfold revealedValueOk
      rw [lookupNorm_congr sub.revealed hcv, hln]
      simp [Encode.C13_normalize_encode]
    obtain ⟨k, v⟩ := kv
    cases v with
    | bool b => exact absurd rfl (hnb b)
    | str x => exact hrv
    | num x => exact hrv
  · obtain ⟨k, v⟩ := kv
    simp only at hbool
    subst hbool
    simp only [List.any_eq_true, beq_iff_eq]
    refine ⟨normPred (predOfInfo q), ?_, ?_⟩
    · obtain ⟨_, _, pinfos, _, _, _, hmp, hbs⟩ := addSubProof_some hadd
      obtain ⟨_, _, _, _, _, _, _, hpreds, _⟩ := buildSub_some hbs
      obtain ⟨q', hq', hlk⟩ := mapM_some_mem hmp (show ref ∈ (w3cAsSelected s).preds from hp)
      rw [hq] at hlk; cases hlk
      show normPred (predOfInfo q) ∈ sub.preds
      rw [hpreds]
      exact mem_dedup.mpr (List.mem_map_of_mem (f := normPred) (List.mem_map_of_mem (f := predOfInfo) hq'))
    · show commonView (commonView q.name) = commonView k
      rw [commonView_idem]; exact (lookupNorm_some hl).2.symm

/-- W3C check: `add_sub_proof` succeeds for every derived credential -/
theorem C04_check_w3c_subCtxs (hm : meetsDemandsW3C ctx pc r sel = true)
    (h : createPresentationW3C pc r sel holder session uid0 = some p) :
    ∃ cs, p.creds.mapM (VerifierW3C.subCtxFor ctx) = some cs ∧
      ∀ (i : Nat) (c : SubCtx), cs[i]? = some c → ∃ s sub subj sc cd, (usedOfW3C sel)[i]? = some s ∧
        p.creds[i]? = some (credOfW3C s sub subj) ∧
        addSubProof pc r (w3cAsSelected s) holder session (uid0 + i) = some sub ∧
        ctx.schemas.lookup s.cred.schemaId = some sc ∧
        ctx.credDefs.lookup s.cred.credDefId = some cd ∧ cd.key = s.cred.sym.key ∧
        c = subCtxOf ctx (w3cAsSelected s) sc cd := by
  have ch := createPresentationW3C_char h
  have m := meetsW3C_of hm
  have hone : ∀ (i : Nat) (c : Cred), p.creds[i]? = some c → ∃ s sub subj sc cd,
      (usedOfW3C sel)[i]? = some s ∧ c = credOfW3C s sub subj ∧
      addSubProof pc r (w3cAsSelected s) holder session (uid0 + i) = some sub ∧
      ctx.schemas.lookup s.cred.schemaId = some sc ∧
      ctx.credDefs.lookup s.cred.credDefId = some cd ∧ cd.key = s.cred.sym.key ∧
      VerifierW3C.subCtxFor ctx c = some (subCtxOf ctx (w3cAsSelected s) sc cd) := by
    intro i c hi
    obtain ⟨s, sub, subj, hs, hadd, hb, rfl⟩ := ch.cred i c hi
    obtain ⟨a, sc, _, hsc, _⟩ := m.cl.schema_of (mem_usedL hs)
    obtain ⟨cd, hcd, hkey⟩ := m.cl.credDef_of (mem_usedL hs)
    have hsc' : ctx.schemas.lookup s.cred.schemaId = some sc := hsc
    have hcd' : ctx.credDefs.lookup s.cred.credDefId = some cd := hcd
    refine ⟨s, sub, subj, sc, cd, hs, rfl, hadd, hsc', hcd', hkey, ?_⟩
    have hreg := m.cl.registry_of (mem_usedL hs)
    have hreq := addSubProofRequestOk_of m.cl (mem_usedL hs) hadd hsc (cd := cd)
    unfold VerifierW3C.subCtxFor
    show (match ctx.schemas.lookup s.cred.schemaId, ctx.credDefs.lookup s.cred.credDefId with
      | some sc, some cd =>
        match revocationRegistry ctx (identOf (w3cAsSelected s)) with
        | none => none
        | some (regKey, acc) =>
          let sctx : SubCtx := { schemaAttrs := sc.attrNames.map Names.commonView, key := cd.key,
                                 hasRevKey := cd.revocable, regKey := regKey, acc := acc }
          if addSubProofRequestOk sctx sub then some sctx else none
      | _, _ => none) = _
    rw [hsc', hcd', hreg]
    simp only []
    unfold subCtxOf at hreq ⊢
    rw [if_pos hreq]
  obtain ⟨cs, hcs⟩ := mapM_exists_of (l := p.creds) (f := VerifierW3C.subCtxFor ctx) (fun c hc => by
    obtain ⟨i, hi⟩ := List.mem_iff_getElem?.mp hc
    obtain ⟨s, sub, subj, sc, cd, _, _, _, _, _, _, hf⟩ := hone i c hi
    exact ⟨_, hf⟩)
  refine ⟨cs, hcs, ?_⟩
  intro i c hc
  obtain ⟨cr, hcr, hf⟩ := mapM_some_getElem?_inv hcs hc
  obtain ⟨s, sub, subj, sc, cd, hs, rfl, hadd, hsc, hcd, hkey, hf'⟩ := hone i cr hcr
  rw [hf'] at hf
  exact ⟨s, sub, subj, sc, cd, hs, hcr, hadd, hsc, hcd, hkey, (Option.some.inj hf).symm⟩

/-- W3C check: the CL verification succeeds -/
theorem C04_check_w3c_cl (hm : meetsDemandsW3C ctx pc r sel = true)
    (h : createPresentationW3C pc r sel holder session uid0 = some p) {cs : List SubCtx}
    (hcs : p.creds.mapM (VerifierW3C.subCtxFor ctx) = some cs) :
    IdealCL.verify cs (p.creds.map (·.sub)) p.agg r.nonce true = some true := by
  have ch := createPresentationW3C_char h
  have m := meetsW3C_of hm
  obtain ⟨cs', hcs', hchar⟩ := C04_check_w3c_subCtxs hm h
  rw [hcs] at hcs'; cases hcs'
  have hsubs : ∀ sub ∈ p.creds.map (·.sub), ∃ (i : Nat) (s : SelectedW3C),
      addSubProof pc r (w3cAsSelected s) holder session (uid0 + i) = some sub := by
    intro sub hsub
    obtain ⟨c, hc, rfl⟩ := List.mem_map.mp hsub
    obtain ⟨i, hi⟩ := List.mem_iff_getElem?.mp hc
    obtain ⟨s, sub, subj, _, hadd, _, rfl⟩ := ch.cred i c hi
    exact ⟨i, s, hadd⟩
  apply verify_true
  · rw [mapM_some_length hcs, List.length_map]
  · intro sub hsub
    obtain ⟨i, s, hadd⟩ := hsubs sub hsub
    obtain ⟨hnr, hnp⟩ := addSubProof_normal hadd
    unfold paramsConsistent
    simp only [Bool.and_eq_true, List.all_eq_true, beq_iff_eq]
    exact ⟨hnr, hnp⟩
  · intro m' s1 hs1 s2 hs2 e
    have hms : ∀ sub ∈ p.creds.map (·.sub), sub.ms = (holder, session) := by
      intro sub hsub
      obtain ⟨i, s, hadd⟩ := hsubs sub hsub
      obtain ⟨_, _, _, _, _, _, _, hb⟩ := addSubProof_some hadd
      exact (buildSub_some hb).2.2.2.2.2.2.2.2.2.2.1
    rw [← e, hms s1 hs1, hms s2 hs2]
  · rw [ch.agg]
  · rw [ch.agg]
  · rw [ch.agg, List.map_map]; rfl
  · intro pr hpr
    obtain ⟨i, hi⟩ := List.mem_iff_getElem?.mp hpr
    obtain ⟨hc, hsub⟩ := List.getElem?_zip_eq_some.mp hi
    obtain ⟨s, sub, subj, sc, cd, hs, hcr, hadd, hsc, hcd, hkey, hceq⟩ := hchar i pr.1 hc
    rw [List.getElem?_map, hcr] at hsub
    have hsub' : pr.2 = sub := (Option.some.inj hsub).symm
    rw [hceq, hsub']
    exact pair_ok m.cl (mem_usedL hs) hsc hcd hkey hadd

/-- **C04 (W3C format): honest flows verify.** If the verifier's context, the prover's context, the
request and the selection meet `meetsDemandsW3C` — same schemas, the credential definitions that signed
the credentials with the credentials' issuers, subjects that carry what was signed, every requested
attribute and predicate referent served by an entry whose *derived* credential meets the referent's
restriction (evaluated on the derived subject: known finding F19) and non-revocation interval, good
revocation states for the registries and status lists the verifier supplies — then any presentation the
W3C `create_presentation` builds is accepted by the W3C `verify_presentation`: the verdict is `Ok(true)`. -/
theorem C04_w3c (hm : meetsDemandsW3C ctx pc r sel = true)
    (h : createPresentationW3C pc r sel holder session uid0 = some p) :
    verifyW3C ctx r p = .ok true := by
  have ch := createPresentationW3C_char h
  obtain ⟨cs, hcs, _⟩ := C04_check_w3c_subCtxs hm h
  have hl : listsOk ctx = true := (meetsW3C_of hm).lists
  have hproof : p.creds.all (·.proofOk) = true := by
    simp only [List.all_eq_true]
    intro c hc
    obtain ⟨i, hi⟩ := List.mem_iff_getElem?.mp hc
    obtain ⟨s, sub, subj, _, _, _, rfl⟩ := ch.cred i c hi
    rfl
  have hreq : requestDataOk ctx r p = true := by
    unfold requestDataOk
    rw [C04_check_w3c_attrs hm h, C04_check_w3c_preds hm h, C04_check_w3c_issuers hm h]
    rfl
  unfold verifyW3C
  simp only [ch.validateOk, hproof, hreq, C04_check_w3c_subjects hm h, ch.presProofOk, hl, hcs,
    C04_check_w3c_cl hm h hcs, Bool.not_true, Bool.false_eq_true, if_false]

end W3C

/-! ## non-vacuity: a small concrete world

One credential (schema attributes spelled differently by prover, verifier, credential and request:
`"a"`/`"A"`/`" a"`, `"c D"`/`"Cd"`/`"C d"`), values `a ↦ 25`, `b ↦ 7` (carried with the non-canonical
encoding `"007"`), `cd ↦ 3`, issued with revocation; an unused credential passed along. Request: a
revealed single (`B`, restricted by `cred_def_id`), an unrevealed single (`" a"`), a revealed group
(`b`, `c D`, `b` again; restricted by the revealed value of `b`; local non-revocation interval
`[lo, ∞)`), a self-attested attribute (legacy only), the predicate `A ≥ 18` (restricted by `schema_id`),
request-wide interval `(-∞, 100]`; timestamp 50 with a good revocation state. -/
section Examples
open AnonModel.VerifierW3C AnonModel.Query

private def wSym : SymCred :=
  { key := 1, attrs := [("a", "25"), ("b", "7"), ("cd", "3")], holder := 5, rev := some (9, 4) }
private def wCred : HeldCred :=
  { schemaId := "s1", credDefId := "cd1", revRegId := some "rr1",
    values := [("A", ("25", "25")), ("b", ("7", "007")), ("C d", ("3", "3"))], sym := wSym }
private def wAttrs (lo : Nat) : List (String × AttrInfo) :=
  [("r1", { name := some "B", names := none, restrictions := some (.eq "cred_def_id" "cd1"), nonRevoked := none }),
   ("r2", { name := some " a", names := none, restrictions := none, nonRevoked := none }),
   ("g1", { name := none, names := some ["b", "c D", "b"], restrictions := some (.eq "attr::b::value" "7"),
            nonRevoked := some ⟨some lo, none⟩ })]
private def wPreds : List (String × PredInfo) :=
  [("p1", { name := "A", ty := "GE", value := 18, restrictions := some (.eq "schema_id" "s1"), nonRevoked := none })]
/-- legacy request: additionally a self-attested attribute -/
private def wReq (lo : Nat) : Request :=
  { nonce := "n", preds := wPreds, nonRevoked := some ⟨none, some 100⟩,
    attrs := wAttrs lo ++ [("sa1", { name := some "x", names := none, restrictions := none, nonRevoked := none })] }
private def wReqW (lo : Nat) : Request :=
  { nonce := "n", preds := wPreds, nonRevoked := some ⟨none, some 100⟩, attrs := wAttrs lo }
private def wState : SymNrp := { regKey := 9, idx := 4, acc := 77, witOk := true }
private def wSel : List Selected :=
  [{ cred := { wCred with values := [] }, timestamp := none, revState := none, attrs := [], preds := [] },
   { cred := wCred, timestamp := some 50, revState := some wState,
     attrs := [("r1", true), ("r2", false), ("g1", true)], preds := ["p1"] }]
private def wSa : List (String × String) := [("sa1", "hello")]
private def wPc : PCtx := { schemas := [("s1", ["a", "B", "c D"])], credDefs := ["cd1"] }
private def wCtx (key : Nat) : Ctx :=
  { schemas := [("s1", { name := "sch", version := "1.0", issuerId := "iss", attrNames := ["A", "b", "Cd"] })],
    credDefs := [("cd1", { issuerId := "iss", key := key, revocable := true })],
    revRegDefs := some [("rr1", { regKey := 9 })],
    lists := some [{ regId := some "rr1", ts := some 50, acc := some 77 }],
    override := none }
private def wHeldW : HeldW3C :=
  { issuer := "iss", schemaId := "s1", credDefId := "cd1", revRegId := some "rr1",
    subject := [("A", .num 25), ("b", .str "7"), ("C d", .str "3")], sym := wSym }
private def wSelW : List SelectedW3C :=
  [{ cred := wHeldW, timestamp := none, revState := none, attrs := [], preds := [] },
   { cred := wHeldW, timestamp := some 50, revState := some wState,
     attrs := [("r1", true), ("r2", false), ("g1", true)], preds := ["p1"] }]

-- the hypotheses of `C04_legacy` hold of this world, a presentation is built, and it verifies
set_option maxRecDepth 100000 in
example : meetsDemands (wCtx 1) wPc (wReq 10) wSel wSa = true := by decide
set_option maxRecDepth 100000 in
example : (createPresentation wPc (wReq 10) wSel wSa 5 1 0).isSome = true := by decide
set_option maxRecDepth 100000 in
example : (createPresentation wPc (wReq 10) wSel wSa 5 1 0).map (verifyLegacy (wCtx 1) (wReq 10)) =
    some (.ok true) := by decide
-- the hypotheses are not idle: a verifier holding another issuer key …
set_option maxRecDepth 100000 in
example : (meetsConjuncts (wCtx 2) wPc (wReq 10) wSel wSa).filter (fun c => !c.2) = [("credDefsAgree", false)] ∧
    (createPresentation wPc (wReq 10) wSel wSa 5 1 0).map (verifyLegacy (wCtx 2) (wReq 10)) = some (.ok false) := by
  decide
-- … or a timestamp before the local interval of the revealed group: the same presentation is refused
set_option maxRecDepth 100000 in
example : (meetsConjuncts (wCtx 1) wPc (wReq 60) wSel wSa).filter (fun c => !c.2) = [("intervalsMet", false)] ∧
    (createPresentation wPc (wReq 60) wSel wSa 5 1 0).map (verifyLegacy (wCtx 1) (wReq 60)) = some .err := by
  decide
-- W3C format
set_option maxRecDepth 100000 in
example : meetsDemandsW3C (wCtx 1) wPc (wReqW 10) wSelW = true := by decide
set_option maxRecDepth 100000 in
example : (createPresentationW3C wPc (wReqW 10) wSelW 5 1 0).map (verifyW3C (wCtx 1) (wReqW 10)) =
    some (.ok true) := by decide
set_option maxRecDepth 100000 in
example : (meetsConjunctsW3C (wCtx 1) wPc (wReqW 60) wSelW).filter (fun c => !c.2) = [("attrsServed", false)] ∧
    (createPresentationW3C wPc (wReqW 60) wSelW 5 1 0).map (verifyW3C (wCtx 1) (wReqW 60)) = some .err := by
  decide
end Examples

end AnonModel.Prover

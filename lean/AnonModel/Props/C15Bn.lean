import AnonModel.Model.WireBn
/-!
# C15, big numbers in the binary proof value — a partial statement and the refutation of the full one (finding F22)

Full claim (what C15 asks): every revealed encoding survives the hop, `hopBin z = z`. It is false for negative `z`; what holds is
`hopBin z = |z|`. The W3C verifier compares the encoding it computes from the credential subject (`"-25"`) with the one in the
sub-proof (`25` after a hop) and rejects: an honest presentation revealing a negative integer verifies in memory only.
-/
namespace AnonModel.WireBn

theorem ofBytes_append (a : List Nat) (b : Nat) : ofBytes (a ++ [b]) = ofBytes a * 256 + b := by
  simp [ofBytes, List.foldl_append]

theorem ofBytes_natBytes (n : Nat) : ofBytes (natBytes n) = n := by
  induction n using Nat.strongRecOn with
  | ind n ih =>
    unfold natBytes
    by_cases h : n = 0
    · simp [h, ofBytes]
    · simp only [h, dite_false]
      rw [ofBytes_append, ih (n / 256) (by omega)]
      omega

/-- **what does hold**: the magnitude survives -/
theorem C15_bn_binary_hop (z : Int) : hopBin z = (z.natAbs : Int) := by
  simp [hopBin, deBin, serBin, ofBytes_natBytes]

/-- **partial form of the C15 claim**: non-negative numbers survive the binary hop -/
theorem C15_bn_binary_hop_partial (z : Int) (h : 0 ≤ z) : hopBin z = z := by
  rw [C15_bn_binary_hop]; omega

/-- **the full claim is refuted**: a negative number does not come back (F22) -/
theorem C15_bn_binary_full_claim_refuted : ¬ ∀ z : Int, hopBin z = z := by
  intro h
  have := h (-25)
  rw [C15_bn_binary_hop] at this
  omega

/-- every negative number comes back as a different one -/
theorem C15_bn_binary_negative_changed (z : Int) (h : z < 0) : hopBin z ≠ z := by
  rw [C15_bn_binary_hop]; omega

/-- the legacy (JSON) form is not affected -/
theorem C15_bn_json_hop (z : Int) : hopJson z = z := rfl

example : hopBin (-25) = 25 := by rw [C15_bn_binary_hop]; rfl
example : hopBin 170 = 170 := by rw [C15_bn_binary_hop]; rfl
example : ofBytes [1, 2] = 258 := by decide

end AnonModel.WireBn

import AnonModel.Lemmas.VerifierLegacy
import AnonModel.Props.C08
/-!
# C02 (legacy format) — revocation: what a verified presentation establishes, and what it does not

Soundness direction for `Verifier.verifyLegacy` (model of `services/verifier.rs:
verify_presentation`) on top of the ideal CL functionality.

Property text: *for a credential from a revocable definition, when the request demands
non-revocation, a verified presentation carries a non-revocation part that validates against the
accumulator of the status list the verifier supplied for the named registry and timestamp, and the
timestamp lies in the demanded interval.*

Status: **false of the code as a whole** — `C02_full_claim`, refuted three times over by small
accepted presentations (`C02_refuted_no_nrp` = F3, `C02_refuted_strip_regid` = F4,
`C02_refuted_unrevealed_interval` = F5; `C02_full_claim_refuted`). What is proved
(`C02_legacy_partial`): **if** the identifier names a registry and a timestamp **and** the sub-proof
carries a non-revocation part, then that part validates against the accumulator of the list
supplied for exactly that (registry, timestamp), with the key of the supplied registry definition,
for the index the credential was issued at; and the timestamp passed the interval check of that
identifier — for a `u64` timestamp, it lies in the tight interval (`C08_tight`) of the revealed-attribute
and predicate referents of that credential (`C02_legacy_timestamp_partial` does not need the
non-revocation part). What is missing: nothing forces the non-revocation part to be *present*
(F3: the CL verifier skips the check silently when the sub-proof has none), nothing forces the
identifier to *name* a registry (F4: without `rev_reg_id` the request-wide interval is dropped and
no registry is looked up), and intervals on unrevealed referents are not looked at (F5).

No key-uniqueness hypothesis is needed.
-/
namespace AnonModel.Verifier
open AnonModel.Interval
open AnonModel.IdealCL

/-- the non-revocation part `n` of sub-proof `s` validates against what the verifier supplied for
identifier `id`: registry definition `d` for the named registry, status list `l` for the named
(registry, timestamp); same accumulator, same registry key, witness equation holds, and it is about
the index the credential was issued at -/
def C02_NrpValid (ctx : Ctx) (id : Identifier) (s : SymSub) (n : SymNrp) : Prop :=
  ∃ rid ts defs ls d l, id.revRegId = some rid ∧ id.timestamp = some ts ∧
    ctx.revRegDefs = some defs ∧ ctx.lists = some ls ∧ defs.lookup rid = some d ∧
    findList ls rid ts = some l ∧ l.acc = some n.acc ∧ n.regKey = d.regKey ∧ n.witOk = true ∧
    s.cred.rev = some (n.regKey, n.idx)

/-- **C02 (partial)**: in an accepted presentation, for an identifier of a revocable definition that
names registry `rid` and timestamp `ts`, whose sub-proof carries a non-revocation part `n`:
* registry definition and status list for exactly (`rid`, `ts`) were supplied, and `n` validates
  against them (`C02_NrpValid` spelled out);
* the aggregated proof has the non-revocation part hashed in;
* the interval check of this identifier passed (spelled out with `attrLocals`/`predLocals`), i.e.
  `ts` passes the tight interval of the credential's revealed-attribute and predicate referents. -/
theorem C02_legacy_partial {ctx : Ctx} {r : Request} {p : Presentation}
    (h : verifyLegacy ctx r p = .ok true) {i : Nat} {id : Identifier} {cd : CredDefInfo}
    {s : SymSub} {n : SymNrp} {rid : String} {ts : Nat}
    (hid : p.identifiers[i]? = some id) (hcd : ctx.credDefs.lookup id.credDefId = some cd)
    (hrev : cd.revocable = true) (hrid : id.revRegId = some rid) (hts : id.timestamp = some ts)
    (hs : p.subs[i]? = some s) (hn : s.nrp = some n) :
    (∃ defs ls d l, ctx.revRegDefs = some defs ∧ ctx.lists = some ls ∧ defs.lookup rid = some d ∧
      findList ls rid ts = some l ∧ l.acc = some n.acc ∧ n.regKey = d.regKey ∧ n.witOk = true ∧
      s.cred.rev = some (n.regKey, n.idx)) ∧
    p.agg.bound[i]? = some (s.uid, true) ∧
    (∃ al pl, attrLocals r p i = some al ∧ predLocals r p i = some pl ∧
      checkLegacy true (foldLocals al) (foldLocals pl) r.nonRevoked (some rid) ctx.override (some ts)
        = true ∧
      validOpt (C08_tight (al ++ pl) r.nonRevoked rid ctx.override) ts = true) := by
  obtain ⟨-, -, -, -, -, -, -, hlists, -⟩ := (verifyLegacy_ok_true_iff ctx r p).mp h
  obtain ⟨-, -, -, -, cs, hcl, hbound, hall⟩ := ok_subs h
  obtain ⟨id', c, hid', hc, hf, -, -, hnrp⟩ := hall i s hs
  rw [hid] at hid'; cases hid'
  obtain ⟨al, pl, cd', s', sc, regKey, acc, hal, hpl, hcd', hck, hs', hsc, hrr, hceq, -⟩ :=
    subCtxFor_some hf
  rw [hcd] at hcd'; cases hcd'
  obtain ⟨defs, ls, d, l, hdefs, hls, hd, hl, hrk, hacc⟩ := revocationRegistry_some hrid hts hrr
  have hlacc : l.acc.isSome = true := listsOk_acc hlists hls (findList_some hl).1
  have e1 : c.hasRevKey = cd.revocable := by rw [hceq]
  have e2 : c.regKey = regKey := by rw [hceq]
  have e3 : c.acc = acc := by rw [hceq]
  have hchk : nrpChecked c s = true := by
    simp only [nrpChecked, hn, e1, e2, e3, hrev, hrk, hacc, hlacc, Option.isSome_some, Bool.and_self]
  have hok := hnrp hchk
  simp only [nrpOk, hn, e2, e3, Bool.and_eq_true, decide_eq_true_eq] at hok
  obtain ⟨⟨⟨hw, hk⟩, ha⟩, hcr⟩ := hok
  rw [hrk] at hk
  rw [hacc] at ha
  refine ⟨⟨defs, ls, d, l, hdefs, hls, hd, hl, ha.symm, Option.some.inj hk, hw, hcr⟩, ?_, ?_⟩
  · have hz : (cs.zip p.subs)[i]? = some (c, s) := List.getElem?_zip_eq_some.mpr ⟨hc, hs⟩
    rw [hbound, List.getElem?_map, hz]
    simp only [Option.map_some, hchk]
  · rw [hrev, hrid, hts] at hck
    refine ⟨al, pl, hal, hpl, hck, ?_⟩
    rw [C08_legacy_exact, checkTs_validOpt] at hck
    exact hck

/-- the conclusion of `C02_legacy_partial` in the vocabulary of the full claim -/
theorem C02_legacy_nrp_valid_partial {ctx : Ctx} {r : Request} {p : Presentation}
    (h : verifyLegacy ctx r p = .ok true) {i : Nat} {id : Identifier} {cd : CredDefInfo}
    {s : SymSub} {n : SymNrp} {rid : String} {ts : Nat}
    (hid : p.identifiers[i]? = some id) (hcd : ctx.credDefs.lookup id.credDefId = some cd)
    (hrev : cd.revocable = true) (hrid : id.revRegId = some rid) (hts : id.timestamp = some ts)
    (hs : p.subs[i]? = some s) (hn : s.nrp = some n) : C02_NrpValid ctx id s n := by
  obtain ⟨⟨defs, ls, d, l, h1⟩, -⟩ := C02_legacy_partial h hid hcd hrev hrid hts hs hn
  exact ⟨rid, ts, defs, ls, d, l, hrid, hts, h1⟩

/-- **interval and timestamp (partial)**: in an accepted presentation, for an identifier of a
revocable definition that names a registry `rid` (with or without a non-revocation part): if an
interval applies to the credential's revealed-attribute / predicate referents (a local one, or
else the request-wide one), the identifier names a timestamp that passes the tight interval, and a
registry definition and a status list for exactly that (registry, timestamp) were supplied -/
theorem C02_legacy_timestamp_partial {ctx : Ctx} {r : Request} {p : Presentation}
    (h : verifyLegacy ctx r p = .ok true) {i : Nat} {id : Identifier} {cd : CredDefInfo}
    {rid : String}
    (hid : p.identifiers[i]? = some id) (hcd : ctx.credDefs.lookup id.credDefId = some cd)
    (hrev : cd.revocable = true) (hrid : id.revRegId = some rid) :
    ∃ al pl, attrLocals r p i = some al ∧ predLocals r p i = some pl ∧
      ∀ T, C08_tight (al ++ pl) r.nonRevoked rid ctx.override = some T →
        ∃ ts defs ls d l, id.timestamp = some ts ∧ valid T ts = true ∧
          ctx.revRegDefs = some defs ∧ ctx.lists = some ls ∧ defs.lookup rid = some d ∧
          findList ls rid ts = some l := by
  obtain ⟨s, hs, -⟩ := ok_sub_exists h hid
  obtain ⟨-, -, -, -, cs, -, -, hall⟩ := ok_subs h
  obtain ⟨id', c, hid', -, hf, -⟩ := hall i s hs
  rw [hid] at hid'; cases hid'
  obtain ⟨al, pl, cd', s', sc, regKey, acc, hal, hpl, hcd', hck, -, -, hrr, -, -⟩ :=
    subCtxFor_some hf
  rw [hcd] at hcd'; cases hcd'
  refine ⟨al, pl, hal, hpl, fun T hT => ?_⟩
  rw [hrev, hrid, C08_legacy_exact, hT] at hck
  cases hts : id.timestamp with
  | none => rw [hts] at hck; cases hck
  | some ts =>
    rw [hts, checkTs_some_some] at hck
    obtain ⟨defs, ls, d, l, hdefs, hls, hd, hl, -, -⟩ := revocationRegistry_some hrid hts hrr
    exact ⟨ts, defs, ls, d, l, rfl, hck, hdefs, hls, hd, hl⟩

/-- which local intervals enter the tight interval: exactly those of the requested attributes
revealed (singly or in a group) from credential `i` and of the requested predicates proven from
credential `i` — **not** those of unrevealed referents (F5) -/
theorem C02_locals_spec {r : Request} {p : Presentation} {i : Nat} {al pl : List (Option Ivl)}
    (hal : attrLocals r p i = some al) (hpl : predLocals r p i = some pl) (x : Option Ivl) :
    x ∈ al ++ pl ↔
      (∃ ref a, r.attrs.lookup ref = some a ∧ a.nonRevoked = x ∧
        ((∃ info, (ref, info) ∈ p.revealed ∧ info.idx = i) ∨
         (∃ g, (ref, g) ∈ p.groups ∧ g.idx = i))) ∨
      (∃ ref q, r.preds.lookup ref = some q ∧ q.nonRevoked = x ∧ (ref, i) ∈ p.predicates) := by
  rw [List.mem_append, attrLocals_mem hal, predLocals_mem hpl]

/-- without an override and for a `u64` timestamp, the tight interval unfolds to: the timestamp is
inside every local interval of those referents, and inside the request-wide interval when none of
them has a local one -/
theorem C02_tight_no_override (locals : List (Option Ivl)) (glob : Option Ivl) (rid : String)
    (t : Nat) (ht : t < 2 ^ 64) :
    validOpt (C08_tight locals glob rid none) t = true ↔
      (∀ l, some l ∈ locals → valid l t = true) ∧
      ((∀ x ∈ locals, x = none) → ∀ g, glob = some g → valid g t = true) := by
  unfold C08_tight
  cases hf : foldLocals locals with
  | some T =>
    have := C08_valid_foldMerge locals t ht
    rw [hf] at this
    simp only [overrideFor, validOpt] at this ⊢
    rw [this]
    constructor
    · intro h
      refine ⟨h, fun hnone => ?_⟩
      rw [(foldLocals_eq_none locals).mpr hnone] at hf; cases hf
    · exact fun h => h.1
  | none =>
    have hnone := (foldLocals_eq_none locals).mp hf
    constructor
    · intro h
      refine ⟨fun l hl => ?_, fun _ g hg => ?_⟩
      · cases hnone _ hl
      · subst hg; exact h
    · rintro ⟨-, h⟩
      cases glob with
      | none => rfl
      | some g => exact h hnone g rfl

/-! ### the full claim and its three refutations -/

/-- "the request demands non-revocation of the credential at index `i`": it carries a request-wide
interval, or a local interval on some referent (revealed, group, unrevealed or predicate) that the
presentation serves from credential `i` -/
def C02_Demands (r : Request) (p : Presentation) (i : Nat) : Prop :=
  r.nonRevoked.isSome = true ∨
  (∃ ref info a, (ref, info) ∈ p.revealed ∧ info.idx = i ∧ r.attrs.lookup ref = some a ∧
    a.nonRevoked.isSome = true) ∨
  (∃ ref g a, (ref, g) ∈ p.groups ∧ g.idx = i ∧ r.attrs.lookup ref = some a ∧
    a.nonRevoked.isSome = true) ∨
  (∃ ref a, (ref, i) ∈ p.unrevealed ∧ r.attrs.lookup ref = some a ∧ a.nonRevoked.isSome = true) ∨
  (∃ ref q, (ref, i) ∈ p.predicates ∧ r.preds.lookup ref = some q ∧ q.nonRevoked.isSome = true)

/-- **the full claim** (kept visible; false of the code): revocable definition ∧ the request demands
non-revocation ⇒ the sub-proof carries a non-revocation part and it validates against the
supplied registry definition and status list for the identifier's registry and timestamp -/
def C02_full_claim : Prop :=
  ∀ (ctx : Ctx) (r : Request) (p : Presentation), verifyLegacy ctx r p = .ok true →
    ∀ (i : Nat) (id : Identifier) (cd : CredDefInfo) (s : SymSub),
      p.identifiers[i]? = some id → ctx.credDefs.lookup id.credDefId = some cd →
      cd.revocable = true → p.subs[i]? = some s → C02_Demands r p i →
      ∃ n, s.nrp = some n ∧ C02_NrpValid ctx id s n

/-- scenario for the refutations: the honest scenario with a revocable definition, registry `R`
(key 5) and one status list for (`R`, 10) with accumulator 77; the credential was issued in `R` at
index 3 -/
def C02_ctx : Ctx :=
  { Honest.ctx with
    credDefs := [("C", { issuerId := "I", key := 1, revocable := true })],
    revRegDefs := some [("R", { regKey := 5 })],
    lists := some [{ regId := some "R", ts := some 10, acc := some 77 }] }

/-- honest sub-proof with a valid non-revocation part for accumulator 77 -/
def C02_sub : SymSub :=
  { Honest.sub with cred := { Honest.sub.cred with rev := some (5, 3) },
                    nrp := some { regKey := 5, idx := 3, acc := 77, witOk := true } }

/-- the same sub-proof built **without** a non-revocation part (e.g. by a holder whose credential
has been revoked since) -/
def C02_subNoNrp : SymSub := { C02_sub with nrp := none }

def C02_ident : Identifier :=
  { schemaId := "S", credDefId := "C", revRegId := some "R", timestamp := some 10 }

/-- request-wide interval `[5, 20]` -/
def C02_req : Request := { Honest.req with nonRevoked := some ⟨some 5, some 20⟩ }

/-- the honest revocable presentation -/
def C02_pres : Presentation :=
  { Honest.pres with identifiers := [C02_ident], subs := [C02_sub],
                     agg := { Honest.pres.agg with bound := [(1, true)] } }

/-- presentation without non-revocation part, for identifier `id` -/
def C02_presNoNrp (id : Identifier) : Presentation :=
  { Honest.pres with identifiers := [id], subs := [C02_subNoNrp],
                     agg := { Honest.pres.agg with bound := [(1, false)] } }

/-- shape shared by the three refutations: an accepted presentation, a revocable definition, a
demand, and no non-revocation part -/
def C02_Counterexample (ctx : Ctx) (r : Request) (p : Presentation) : Prop :=
  verifyLegacy ctx r p = .ok true ∧
  ∃ (i : Nat) (id : Identifier) (cd : CredDefInfo) (s : SymSub),
    p.identifiers[i]? = some id ∧ ctx.credDefs.lookup id.credDefId = some cd ∧
    cd.revocable = true ∧ p.subs[i]? = some s ∧ C02_Demands r p i ∧ s.nrp = none

/-- any such counterexample refutes the full claim -/
theorem C02_counterexample_refutes {ctx : Ctx} {r : Request} {p : Presentation}
    (h : C02_Counterexample ctx r p) : ¬ C02_full_claim := by
  intro hfull
  obtain ⟨hok, i, id, cd, s, hid, hcd, hrev, hs, hdem, hnone⟩ := h
  obtain ⟨n, hn, -⟩ := hfull ctx r p hok i id cd s hid hcd hrev hs hdem
  rw [hnone] at hn; cases hn

/-- **F3 — no non-revocation part**: request-wide interval `[5, 20]`; the identifier names registry
`R` and the listed timestamp 10; the sub-proof has no non-revocation part (and the aggregated proof
was built without one). The CL verifier skips the check silently: accepted. -/
theorem C02_refuted_no_nrp : C02_Counterexample C02_ctx C02_req (C02_presNoNrp C02_ident) :=
  ⟨by decide, 0, C02_ident, { issuerId := "I", key := 1, revocable := true }, C02_subNoNrp,
    rfl, rfl, rfl, rfl, Or.inl rfl, rfl⟩

/-- **F4 — stripped registry id**: same request; the identifier carries neither `rev_reg_id` nor
`timestamp`. Without a registry id `get_requested_non_revoked_interval` returns the (absent) local
interval: the request-wide interval is ignored, no registry is looked up: accepted. -/
theorem C02_refuted_strip_regid :
    C02_Counterexample C02_ctx C02_req
      (C02_presNoNrp { C02_ident with revRegId := none, timestamp := none }) :=
  ⟨by decide, 0, { C02_ident with revRegId := none, timestamp := none },
    { issuerId := "I", key := 1, revocable := true }, C02_subNoNrp,
    rfl, rfl, rfl, rfl, Or.inl rfl, rfl⟩

/-- request with a local interval `[5, 20]` on the **unrevealed** referent `a2` only -/
def C02_reqUnrevealed : Request :=
  { Honest.req with attrs := [("a1", ⟨some "name", none, some (.eq "cred_def_id" "C"), none⟩),
                              ("a2", ⟨some "id", none, none, some ⟨some 5, some 20⟩⟩)] }

/-- **F5 — interval on an unrevealed referent**: the only interval of the request sits on the
unrevealed referent `a2`; the identifier names the registry but no timestamp.
`get_attributes_for_credential` looks at revealed referents only, so no interval applies, no
timestamp is required, no registry is looked up: accepted. -/
theorem C02_refuted_unrevealed_interval :
    C02_Counterexample C02_ctx C02_reqUnrevealed
      (C02_presNoNrp { C02_ident with timestamp := none }) :=
  ⟨by decide, 0, { C02_ident with timestamp := none },
    { issuerId := "I", key := 1, revocable := true }, C02_subNoNrp,
    rfl, rfl, rfl, rfl,
    Or.inr (Or.inr (Or.inr (Or.inl
      ⟨"a2", ⟨some "id", none, none, some ⟨some 5, some 20⟩⟩,
        List.mem_cons_self .., rfl, rfl⟩))), rfl⟩

/-- the full claim is **false of the code** -/
theorem C02_full_claim_refuted : ¬ C02_full_claim :=
  C02_counterexample_refutes C02_refuted_no_nrp

/-! ### non-vacuity and contrasts -/

section Examples

-- hypotheses of `C02_legacy_partial` are satisfiable: the honest revocable presentation is accepted
example : verifyLegacy C02_ctx C02_req C02_pres = .ok true := by decide
example : C02_pres.identifiers[0]? = some C02_ident ∧ C02_pres.subs[0]? = some C02_sub ∧
    C02_sub.nrp = some { regKey := 5, idx := 3, acc := 77, witOk := true } := ⟨rfl, rfl, rfl⟩
-- a non-revocation part for another accumulator, a bad witness, another index: `Ok(false)`
example : verifyLegacy C02_ctx C02_req
    { C02_pres with subs := [{ C02_sub with nrp := some ⟨5, 3, 78, true⟩ }] } = .ok false := by decide
example : verifyLegacy C02_ctx C02_req
    { C02_pres with subs := [{ C02_sub with nrp := some ⟨5, 3, 77, false⟩ }] } = .ok false := by decide
example : verifyLegacy C02_ctx C02_req
    { C02_pres with subs := [{ C02_sub with nrp := some ⟨5, 4, 77, true⟩ }] } = .ok false := by decide
-- timestamp outside `[5, 20]`, or inside but without a supplied list: `Err`
example : verifyLegacy C02_ctx C02_req
    { C02_pres with identifiers := [{ C02_ident with timestamp := some 21 }] } = .err := by decide
example : verifyLegacy C02_ctx C02_req
    { C02_pres with identifiers := [{ C02_ident with timestamp := some 11 }] } = .err := by decide
-- contrast to F4: registry id kept, timestamp dropped ⇒ rejected
example : verifyLegacy C02_ctx C02_req (C02_presNoNrp { C02_ident with timestamp := none })
    = .err := by decide
-- contrast to F5: the same local interval on the *revealed* referent `a1` ⇒ rejected
example : verifyLegacy C02_ctx
    { Honest.req with attrs := [("a1", ⟨some "name", none, none, some ⟨some 5, some 20⟩⟩),
                                ("a2", ⟨some "id", none, none, none⟩)] }
    (C02_presNoNrp { C02_ident with timestamp := none }) = .err := by decide
end Examples

end AnonModel.Verifier

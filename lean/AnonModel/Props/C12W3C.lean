import AnonModel.Lemmas.VerifierW3C
/-!
# C12 (W3C form) — the W3C presentation verifier never panics

Property theorems only. `Verifier.Outcome` keeps `panic` apart from `err`; the model of
`services/w3c/verifier.rs: verify_presentation` (`verifyW3C`) mirrors a function whose non-test
code has no `unwrap`/index/arithmetic that can panic (regenerated panic-site table), so no branch
of the model produces `panic`. The theorem states this for **every** context, request and
presentation — in particular for presentations whose credential list, sub-proofs, identifiers and
aggregated proof are mutually inconsistent. Termination is by construction (total Lean function).
-/
namespace AnonModel.VerifierW3C
open AnonModel.Verifier

/-- whatever the verifier is given, the W3C verification ends with `Ok(true)`, `Ok(false)` or
`Err`: it does not panic at any site -/
theorem C12_w3c_no_panic (ctx : Ctx) (r : Request) (p : Presentation) (s : Nat) :
    verifyW3C ctx r p ≠ .panic s :=
  verifyW3C_ne_panic ctx r p s

/-- the same as a trichotomy -/
theorem C12_w3c_outcome (ctx : Ctx) (r : Request) (p : Presentation) :
    verifyW3C ctx r p = .ok true ∨ verifyW3C ctx r p = .ok false ∨ verifyW3C ctx r p = .err := by
  cases h : verifyW3C ctx r p with
  | ok b => cases b <;> simp
  | err => simp
  | panic s => exact absurd h (C12_w3c_no_panic ctx r p s)

/-! ### non-vacuity: all three outcomes occur -/

set_option maxRecDepth 100000 in
example : verifyW3C Demo.ctx Demo.req Demo.pres = .ok true := by decide

set_option maxRecDepth 100000 in
/-- an aggregated proof for another nonce: `Ok(false)` -/
example : verifyW3C Demo.ctx { Demo.req with nonce := "2" } Demo.pres = .ok false := by decide

set_option maxRecDepth 100000 in
/-- inconsistent presentation (no credential definition supplied): `Err` -/
example : verifyW3C { Demo.ctx with credDefs := [] } Demo.req Demo.pres = .err := by decide

end AnonModel.VerifierW3C

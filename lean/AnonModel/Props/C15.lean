import AnonModel.Lemmas.Flows
/-!
# C15 — every exchanged object survives its wire format with identical meaning (hand-written codecs)

"Every exchanged object survives its wire format with identical meaning … serialising the
deserialised object again yields the same document."

**Partial by construction of the model**: only the four hand-written (de)serialisers of the
library are modelled (`Model/Wire.lean`): `Nonce`, `serde_revocation_list`, the `ver` member of a
presentation request, and the untagged `CredentialAttributeValue`. The `#[derive(Serialize,
Deserialize)]` codecs and those of the CL crate (`anoncreds-clsignatures`) are outside the model;
they are exercised by the harness's hop streams on real objects, not by these theorems.

Property theorems only; helper lemmas are in `Lemmas/Flows.lean`.

`WJson` carries no invariant in its type. Where a statement depends on the number representation
of `serde_json` (`PosInt(u64)` / `NegInt(i64)` *always negative* / `Float`) the invariant is the
explicit hypothesis `WfNum`.
-/
namespace AnonModel.Wire
open AnonModel.Flows

/-- the representation invariant of `serde_json::Number` stated in `Model/Wire.lean: Num`:
`PosInt` holds a `u64`, `NegInt` holds a strictly negative `i64` -/
def Num.Wf : Num → Prop
  | .pos n => n < 2 ^ 64
  | .neg n => -(2 ^ 63 : Int) ≤ n ∧ n < 0
  | .float => True

/-- a JSON value that, if it is a number, is one `serde_json` can hand to a visitor -/
def WfNum (j : WJson) : Prop := ∀ k, j = .num k → k.Wf

/-! ## Nonce -/

/-- `Nonce::from_dec` accepts exactly the non-empty ASCII-digit strings and keeps them as given. -/
theorem C15_nonce_fromDec_iff (s t : String) :
    nonceFromDec s = some t ↔ t = s ∧ s ≠ "" ∧ ∀ c ∈ s.toList, c.isDigit = true := by
  unfold nonceFromDec
  by_cases he : s.isEmpty = true
  · have : s = "" := String.isEmpty_iff.mp he
    simp [this]
  · have hne : s ≠ "" := fun h => he (String.isEmpty_iff.mpr h)
    by_cases hd : s.toList.all Char.isDigit = true
    · have hd' : ∀ c ∈ s.toList, c.isDigit = true := by simpa using hd
      simp only [he, hd, if_true, Option.some.injEq, Bool.false_eq_true, if_false]
      exact ⟨fun h => ⟨h.symm, hne, hd'⟩, fun h => h.1.symm⟩
    · have hd' : ¬ ∀ c ∈ s.toList, c.isDigit = true := by simpa using hd
      simp [he, hd, hd']

/-- **a digit string is kept verbatim** (leading zeros included): reading the JSON string `s`
gives the nonce that prints as `s`, for every non-empty run of ASCII digits. -/
theorem C15_nonce_string_kept {s : String} (hne : s ≠ "") (hd : ∀ c ∈ s.toList, c.isDigit = true) :
    nonceDe (.str s) = some s := by
  simp only [nonceDe]; exact (C15_nonce_fromDec_iff s s).mpr ⟨rfl, hne, hd⟩

/-- a JSON string is read as a nonce iff it is a non-empty run of ASCII digits, and then as itself -/
theorem C15_nonce_string_iff (s t : String) :
    nonceDe (.str s) = some t ↔ t = s ∧ s ≠ "" ∧ ∀ c ∈ s.toList, c.isDigit = true := by
  simp only [nonceDe]; exact C15_nonce_fromDec_iff s t

/-- whatever form was read, the nonce prints as a non-empty run of ASCII digits -/
theorem C15_nonce_printed_is_digits {j : WJson} {s : String} (h : nonceDe j = some s) :
    s ≠ "" ∧ ∀ c ∈ s.toList, c.isDigit = true := by
  unfold nonceDe at h
  split at h
  · obtain ⟨rfl, h1, h2⟩ := (C15_nonce_fromDec_iff _ _).mp h; exact ⟨h1, h2⟩
  · cases h; exact ⟨natRepr_ne_empty _, natRepr_allDigits _⟩
  · cases h
  · cases h
  · simp only [Option.map_eq_some_iff] at h
    obtain ⟨bs, _, rfl⟩ := h
    exact ⟨natRepr_ne_empty _, natRepr_allDigits _⟩
  · cases h

/-- **serialise ∘ deserialise is stable**: if a document `j` was read as a nonce that prints as
`s`, then the printed document (the JSON string `s`) is read as the nonce that prints as `s`
again. Hence `ser ∘ de ∘ ser ∘ de = ser ∘ de`, and on the library's own output (`j = .str s`)
`ser ∘ de` is the identity. -/
theorem C15_nonce_ser_de {j : WJson} {s : String} (h : nonceDe j = some s) :
    nonceDe (.str s) = some s := by
  obtain ⟨h1, h2⟩ := C15_nonce_printed_is_digits h
  exact C15_nonce_string_kept h1 h2

/-- the same with the model's name for "print, then read" -/
theorem C15_nonce_roundtrip {j : WJson} {s : String} (h : nonceDe j = some s) :
    nonceRoundTrip s = some s := C15_nonce_ser_de h

/-- a non-negative JSON integer is read as the nonce printing as its decimal form -/
theorem C15_nonce_number (n : Nat) : nonceDe (.num (.pos n)) = some (Nat.repr n) := rfl

/-- the byte loop on an array of non-negative integers: every member is taken modulo 256 -/
theorem C15_nonce_bytes_of_numbers (ns : List Nat) :
    nonceBytes (ns.map (fun n => WJson.num (.pos n))) = some (ns.map (· % 256)) := by
  induction ns with
  | nil => rfl
  | cons n ns ih => simp [nonceBytes, ih]

/-- **byte-array form**: an array of non-negative JSON integers is read as the nonce whose value is
the big-endian number made of the members taken modulo 256 (`as u8`); `beVal` is the positional
value `Σ bᵢ · 256^(len-1-i)`. The empty array gives `"0"`. -/
theorem C15_nonce_bytes (ns : List Nat) :
    nonceDe (.arr (ns.map (fun n => WJson.num (.pos n)))) = some (Nat.repr (beVal (ns.map (· % 256)))) := by
  simp only [nonceDe, C15_nonce_bytes_of_numbers, Option.map_some, foldl_be_zero]

/-- the code as it is: one trailing member that is not a number (string, boolean, null, array,
object) ends the loop silently and is ignored -/
theorem C15_nonce_bytes_trailing_junk (ns : List Nat) (x : WJson) (hx : ∀ k, x ≠ .num k) :
    nonceDe (.arr (ns.map (fun n => WJson.num (.pos n)) ++ [x])) =
      some (Nat.repr (beVal (ns.map (· % 256)))) := by
  have : nonceBytes (ns.map (fun n => WJson.num (.pos n)) ++ [x]) = some (ns.map (· % 256)) := by
    induction ns with
    | nil =>
      cases x with
      | num k => exact absurd rfl (hx k)
      | _ => rfl
    | cons n ns ih => simp [nonceBytes, ih]
  simp only [nonceDe, this, Option.map_some, foldl_be_zero]

/-- **rejected nonces**: the empty string; a string with a character that is not an ASCII digit
(sign, space, letter, non-ASCII digit); a negative integer; a float; a boolean, `null`, an object;
an array with a negative or fractional member. -/
theorem C15_nonce_rejects :
    nonceDe (.str "") = none ∧
    (∀ s : String, (∃ c ∈ s.toList, c.isDigit = false) → nonceDe (.str s) = none) ∧
    (∀ n, nonceDe (.num (.neg n)) = none) ∧
    nonceDe (.num .float) = none ∧
    (∀ b, nonceDe (.bool b) = none) ∧
    nonceDe .null = none ∧
    nonceDe .obj = none ∧
    (∀ (ns : List Nat) (k : Num) (rest : List WJson), (∀ n, k ≠ .pos n) →
      nonceDe (.arr (ns.map (fun n => WJson.num (.pos n)) ++ .num k :: rest)) = none) := by
  refine ⟨by decide, ?_, fun _ => rfl, rfl, fun _ => rfl, rfl, rfl, ?_⟩
  · rintro s ⟨c, hc, hcd⟩
    cases h : nonceDe (.str s) with
    | none => rfl
    | some t =>
      have := ((C15_nonce_string_iff s t).mp h).2.2 c hc
      rw [hcd] at this; cases this
  · intro ns k rest hk
    have : nonceBytes (ns.map (fun n => WJson.num (.pos n)) ++ .num k :: rest) = none := by
      induction ns with
      | nil =>
        cases k with
        | pos n => exact absurd rfl (hk n)
        | neg n => rfl
        | float => rfl
      | cons n ns ih => simp [nonceBytes, ih]
    simp only [nonceDe, this, Option.map_none]

/-! ## revocation list -/

private def bitJson (b : Bool) : WJson := .num (.pos (if b then 1 else 0))

private def bitDe (x : WJson) : Option Bool :=
  match x with
  | .num (.pos 0) => some false
  | .num (.pos 1) => some true
  | _ => none

private theorem revListDe_arr (xs : List WJson) : revListDe (.arr xs) = xs.mapM bitDe := rfl

private theorem bitDe_eq_some {x : WJson} {b : Bool} : bitDe x = some b ↔ x = bitJson b := by
  unfold bitDe bitJson
  split
  · cases b <;> simp
  · cases b <;> simp
  · rename_i h0 h1
    cases b
    · simp only [reduceCtorEq, Bool.false_eq_true, if_false, false_iff]; intro h; exact h0 h
    · simp only [reduceCtorEq, if_true, false_iff]; intro h; exact h1 h

/-- **deserialise ∘ serialise = id**: a bit vector written as `[0,1,…]` reads back as itself. -/
theorem C15_revlist_de_ser (bits : List Bool) : revListDe (revListSer bits) = some bits := by
  show revListDe (.arr (bits.map bitJson)) = some bits
  rw [revListDe_arr, mapM_eq_some_iff, List.map_map]
  apply List.map_congr_left
  intro b _
  exact bitDe_eq_some.mpr rfl

/-- **serialise ∘ deserialise = id**: a document that reads as `bits` is written back as the very
same document. -/
theorem C15_revlist_ser_de {j : WJson} {bits : List Bool} (h : revListDe j = some bits) :
    revListSer bits = j := by
  cases j with
  | arr xs =>
    rw [revListDe_arr, mapM_eq_some_iff] at h
    show WJson.arr (bits.map bitJson) = .arr xs
    congr 1
    induction xs generalizing bits with
    | nil => cases bits <;> simp_all
    | cons x xs ih =>
      cases bits with
      | nil => simp at h
      | cons b bs =>
        simp only [List.map_cons, List.cons.injEq] at h ⊢
        exact ⟨(bitDe_eq_some.mp h.1).symm, ih h.2⟩
  | _ => simp [revListDe] at h

/-- both directions in one statement: a document reads as `bits` iff it is the document written
for `bits`. -/
theorem C15_revlist_de_iff (j : WJson) (bits : List Bool) :
    revListDe j = some bits ↔ j = revListSer bits :=
  ⟨fun h => (C15_revlist_ser_de h).symm, fun h => h ▸ C15_revlist_de_ser bits⟩

/-- **exact shape of the accepted documents**: arrays all of whose members are the JSON integer
`0` or the JSON integer `1`. -/
theorem C15_revlist_accepts_iff (j : WJson) :
    (revListDe j).isSome = true ↔
      ∃ xs, j = .arr xs ∧ ∀ x ∈ xs, x = .num (.pos 0) ∨ x = .num (.pos 1) := by
  constructor
  · intro h
    obtain ⟨bits, hb⟩ := Option.isSome_iff_exists.mp h
    have := (C15_revlist_ser_de hb).symm
    refine ⟨bits.map bitJson, this, ?_⟩
    intro x hx
    obtain ⟨b, _, rfl⟩ := List.mem_map.mp hx
    cases b
    · exact Or.inl rfl
    · exact Or.inr rfl
  · rintro ⟨xs, rfl, hx⟩
    rw [revListDe_arr]
    cases hm : xs.mapM bitDe with
    | some _ => rfl
    | none =>
      obtain ⟨x, hxm, hxn⟩ := (mapM_eq_none_iff _ _).mp hm
      rcases hx x hxm with rfl | rfl <;> simp [bitDe] at hxn

/-- **anything else is rejected**: an array with a member other than the integers `0` and `1`
(`2`, `-1`, `1.0`, `true`, `"1"`, …), and every non-array. -/
theorem C15_revlist_rejects_other_numbers :
    (∀ (xs : List WJson) (x : WJson), x ∈ xs → x ≠ .num (.pos 0) → x ≠ .num (.pos 1) →
      revListDe (.arr xs) = none) ∧
    revListDe .null = none ∧ (∀ b, revListDe (.bool b) = none) ∧ (∀ k, revListDe (.num k) = none) ∧
    (∀ s, revListDe (.str s) = none) ∧ revListDe .obj = none := by
  refine ⟨?_, rfl, fun _ => rfl, fun _ => rfl, fun _ => rfl, rfl⟩
  intro xs x hx h0 h1
  rw [revListDe_arr, mapM_eq_none_iff]
  refine ⟨x, hx, ?_⟩
  cases h : bitDe x with
  | none => rfl
  | some b =>
    have := bitDe_eq_some.mp h
    cases b
    · exact absurd this h0
    · exact absurd this h1

/-! ## presentation request version -/

/-- **deserialise ∘ serialise = id** -/
theorem C15_ver_roundtrip (v : Ver) : verDe (some (verSer v)) = some v := by
  cases v <;> decide

/-- a request without `ver` (or with `"ver": null`) is a version-1 request -/
theorem C15_missing_ver_is_v1 : verDe none = some .v1 ∧ verDe (some .null) = some .v1 := ⟨rfl, rfl⟩

/-- **serialise ∘ deserialise = id on documents that have the member**: a `ver` string that was
accepted is written back verbatim. (A request *without* `ver` is written back *with*
`"ver":"1.0"`: the document changes, its meaning — `C15_ver_stable` — does not.) -/
theorem C15_ver_ser_de {s : String} {v : Ver} (h : verDe (some (.str s)) = some v) :
    verSer v = .str s := by
  simp only [verDe] at h
  split at h
  · cases h; subst_vars; rfl
  · split at h
    · cases h; subst_vars; rfl
    · cases h

/-- whatever was read (member absent, `null`, `"1.0"`, `"2.0"`), writing and reading again gives the
same version -/
theorem C15_ver_stable {j : Option WJson} {v : Ver} (_ : verDe j = some v) :
    verDe (some (verSer v)) = some v := C15_ver_roundtrip v

/-- **unknown versions are rejected**: every string other than `"1.0"` and `"2.0"` (including
`"1"`, `"1.00"`, `" 1.0"`, `"3.0"`), and every number, boolean, array or object. -/
theorem C15_ver_rejects_unknown :
    (∀ s : String, s ≠ "1.0" → s ≠ "2.0" → verDe (some (.str s)) = none) ∧
    (∀ k, verDe (some (.num k)) = none) ∧ (∀ b, verDe (some (.bool b)) = none) ∧
    (∀ xs, verDe (some (.arr xs)) = none) ∧ verDe (some .obj) = none := by
  refine ⟨?_, fun _ => rfl, fun _ => rfl, fun _ => rfl, rfl⟩
  intro s h1 h2
  simp [verDe, h1, h2]

/-! ## untagged attribute value -/

/-- **deserialise ∘ serialise = id** for strings, booleans and numbers in the `i32` range (the
Rust type is `Number(i32)`, so the range hypothesis is the type's invariant; the example below
shows that the model needs it). -/
theorem C15_attrval_de_ser (v : AttrVal)
    (hr : ∀ n, v = .num n → Encode.i32Min ≤ n ∧ n ≤ Encode.i32Max) :
    attrValDe (attrValSer v) = some v := by
  cases v with
  | str s => rfl
  | bool b => rfl
  | num n =>
    obtain ⟨hlo, hhi⟩ := hr n rfl
    unfold attrValSer
    by_cases hn : n < 0
    · simp [hn, attrValDe, hlo]
    · have e : ((n.toNat : Nat) : Int) = n := Int.toNat_of_nonneg (by omega)
      simp [hn, attrValDe, e, hhi]

/-- **serialise ∘ deserialise = id**: a document that was accepted as an attribute value is written
back as the very same document. `WfNum j` is the `serde_json` number invariant (a `NegInt` is
negative); the example below shows that the model needs it. -/
theorem C15_attrval_ser_de {j : WJson} {v : AttrVal} (hwf : WfNum j) (h : attrValDe j = some v) :
    attrValSer v = j := by
  cases j with
  | str s => simp only [attrValDe, Option.some.injEq] at h; subst h; rfl
  | bool b => simp only [attrValDe, Option.some.injEq] at h; subst h; rfl
  | num k =>
    cases k with
    | pos n =>
      simp only [attrValDe] at h
      split at h
      · simp only [Option.some.injEq] at h; subst h
        have : ¬ ((n : Int) < 0) := by omega
        simp [attrValSer, this]
      · cases h
    | neg n =>
      have hneg : n < 0 := (hwf _ rfl).2
      simp only [attrValDe] at h
      split at h
      · simp only [Option.some.injEq] at h; subst h
        simp [attrValSer, hneg]
      · cases h
    | float => simp [attrValDe] at h
  | null => simp [attrValDe] at h
  | arr xs => simp [attrValDe] at h
  | obj => simp [attrValDe] at h

/-- which documents are attribute values: every string, every boolean, and the integers of the
`i32` range (in either number representation) -/
theorem C15_attrval_accepts_iff (j : WJson) :
    (attrValDe j).isSome = true ↔
      (∃ s, j = .str s) ∨ (∃ b, j = .bool b) ∨
      (∃ n : Nat, j = .num (.pos n) ∧ (n : Int) ≤ Encode.i32Max) ∨
      (∃ n : Int, j = .num (.neg n) ∧ Encode.i32Min ≤ n) := by
  cases j with
  | num k =>
    cases k with
    | pos n => by_cases h : (n : Int) ≤ Encode.i32Max <;> simp [attrValDe, h]
    | neg n => by_cases h : Encode.i32Min ≤ n <;> simp [attrValDe, h]
    | float => simp [attrValDe]
  | _ => simp [attrValDe]

/-- **rejected attribute values**: floats, integers outside the `i32` range, `null`, arrays,
objects. -/
theorem C15_attrval_rejects :
    attrValDe (.num .float) = none ∧
    (∀ n : Nat, Encode.i32Max < (n : Int) → attrValDe (.num (.pos n)) = none) ∧
    (∀ n : Int, n < Encode.i32Min → attrValDe (.num (.neg n)) = none) ∧
    attrValDe .null = none ∧ (∀ xs, attrValDe (.arr xs) = none) ∧ attrValDe .obj = none := by
  refine ⟨rfl, ?_, ?_, rfl, fun _ => rfl, rfl⟩
  · intro n h
    have : ¬ ((n : Int) ≤ Encode.i32Max) := by omega
    simp [attrValDe, this]
  · intro n h
    have : ¬ (Encode.i32Min ≤ n) := by omega
    simp [attrValDe, this]

/-! ### non-vacuity and boundary examples -/

-- nonce
example : nonceDe (.str "007") = some "007" := by decide
example : nonceDe (.str "0") = some "0" := by decide
example : nonceDe (.str "1000000000000000000000000000000000") = some "1000000000000000000000000000000000" := by
  decide
example : nonceDe (.num (.pos 42)) = some "42" := by decide
example : nonceDe (.arr [.num (.pos 1), .num (.pos 2)]) = some "258" := by decide
example : nonceDe (.arr [.num (.pos 257), .num (.pos 0)]) = some "256" := by decide   -- `as u8` truncates
example : nonceDe (.arr []) = some "0" := by decide
example : nonceDe (.arr [.num (.pos 1), .str "x"]) = some "1" := by decide            -- trailing junk tolerated
example : nonceDe (.arr [.str "x", .num (.pos 1)]) = none := by decide                -- not in the middle
example : nonceDe (.arr [.num (.neg (-1))]) = none := by decide
example : nonceDe (.arr [.num .float]) = none := by decide
example : nonceDe (.str "") = none := by decide
example : nonceDe (.str "-5") = none := by decide
example : nonceDe (.str "+5") = none := by decide
example : nonceDe (.str " 5") = none := by decide
example : nonceDe (.str "١٢") = none := by decide
example : nonceDe (.str "12a") = none := by decide
example : beVal [1, 2] = 258 := by decide
-- the hypothesis of `C15_nonce_ser_de` is satisfiable in each accepted form
example : nonceDe (.str "007") = some "007" ∧ nonceDe (.num (.pos 7)) = some "7" ∧
    nonceDe (.arr [.num (.pos 7)]) = some "7" := by decide

-- revocation list
example : revListDe (revListSer [true, false, true]) = some [true, false, true] := by decide
example : revListDe (.arr [.num (.pos 1), .num (.pos 0)]) = some [true, false] := by decide
example : revListDe (.arr []) = some [] := by decide
example : revListDe (.arr [.num (.pos 2)]) = none := by decide
example : revListDe (.arr [.num (.neg (-1))]) = none := by decide
example : revListDe (.arr [.num .float]) = none := by decide
example : revListDe (.arr [.bool true]) = none := by decide
example : revListDe (.arr [.str "1"]) = none := by decide

-- version
example : verDe (some (.str "1.0")) = some .v1 := by decide
example : verDe (some (.str "2.0")) = some .v2 := by decide
example : verDe (some (.str "3.0")) = none := by decide
example : verDe (some (.str "1")) = none := by decide
example : verDe (some (.num (.pos 1))) = none := by decide

-- attribute value: both ends of the range, both sides
example : attrValDe (.num (.pos 2147483647)) = some (.num 2147483647) := by decide
example : attrValDe (.num (.pos 2147483648)) = none := by decide
example : attrValDe (.num (.neg (-2147483648))) = some (.num (-2147483648)) := by decide
example : attrValDe (.num (.neg (-2147483649))) = none := by decide
example : attrValDe (attrValSer (.num (-5))) = some (.num (-5)) := by decide
example : attrValDe (attrValSer (.str "5")) = some (.str "5") := by decide      -- a string stays a string
-- the range hypothesis of `C15_attrval_de_ser` is needed …
example : attrValDe (attrValSer (.num 2147483648)) = none := by decide
example : attrValDe (attrValSer (.num (-2147483649))) = none := by decide
-- … and so is `WfNum` in `C15_attrval_ser_de`: `.neg 5` is not a `serde_json` number, and the
-- model reads it as 5 and writes `.pos 5`
example : attrValDe (.num (.neg 5)) = some (.num 5) ∧ attrValSer (.num 5) = .num (.pos 5) :=
  ⟨by decide, rfl⟩
example : ¬ WfNum (.num (.neg 5)) := fun h => absurd (h _ rfl).2 (by decide)
example : WfNum (.num (.neg (-5))) := by
  intro k hk; cases hk; exact ⟨by decide, by decide⟩
example : WfNum (.str "x") := by intro k hk; cases hk

end AnonModel.Wire

import AnonModel.Model.IssuanceW3C
import AnonModel.Props.C14Doc
/-!
# C11 (W3C) — processing the credential as the document the issuer sent

`processCredentialW3C` took "the proof of the credential holds a credential signature" as an input; with `Model/ProofDoc` it
is read from the `proof` member of the document that arrives.
-/
namespace AnonModel.IssuanceW3C
open AnonModel.Issuance AnonModel.Convert AnonModel.ProofDoc

/-- `w3c::prover::process_credential` on a credential read from a document whose `proof` member has shape `d` -/
def processStored (c : CredentialW3C) (d : Doc) (m : ReqMeta) (holder : Nat) (cd : CredDef) : Bool :=
  processCredentialW3C c (sigProof (parse d)).isSome m holder cd

/-- the credential the issuer's library wrote (`W3CCredential::new`), sent as a document, is processed exactly as the live
object would be -/
theorem C11_w3c_process_stored (c : CredentialW3C) (m : ReqMeta) (holder : Nat) (cd : CredDef) (i : Nat) (d : Doc)
    (hd : emit (newCredential i) = some d) :
    processStored c d m holder cd = processCredentialW3C c true m holder cd := by
  have : d = .arr [.sc (.anon ⟨.assertion, .signature, i⟩)] := by
    simpa [emit, newCredential, emitCP] using hd.symm
  subst this
  rfl

/-- a document whose first AnonCreds proof is not a credential signature (a credential cut out of a presentation, a
foreign proof only, an authentication proof) is not accepted as an issued credential -/
theorem C11_w3c_process_stored_refused (c : CredentialW3C) (m : ReqMeta) (holder : Nat) (cd : CredDef) (d : Doc)
    (h : sigProof (parse d) = none) : processStored c d m holder cd = false := by
  unfold processStored processCredentialW3C
  cases subjectEncode c.subject <;> simp [h]

end AnonModel.IssuanceW3C

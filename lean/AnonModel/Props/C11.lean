import AnonModel.Lemmas.Flows
import AnonModel.Props.C13
import AnonModel.Props.C20
/-!
# C11 — issuance is bound to offer, request, schema and link secret on both sides

"An issuer signs a credential only for a request that proves knowledge of its blinded link secret
under the nonce of the very offer it answers, and only for exactly the attribute set of the
credential definition's schema. A holder's processing of a received credential succeeds iff its
signed values, credential definition, link secret and request metadata are the ones used at
issuance, so a credential that passes processing always yields verifiable presentations and a
tampered or foreign one is rejected."

The model is `Model/Issuance.lean` (`issuer::create_credential`, `prover::create_credential_request`,
`prover::process_credential` over the ideal CL functionality): ghost fields record which key, link
secret (`holder`), blinding factor and nonces each cryptographic object was really built with, and
`intact = false` stands for any modification of its bytes. Property theorems only; helper lemmas are
in `Lemmas/Flows.lean`.
-/
namespace AnonModel.Issuance
open AnonModel.Names AnonModel.Flows AnonModel.Verifier

/-! ### vocabulary -/

/-- normal forms (`attr_common_view`: no spaces, lower case) of the names of the values to sign -/
def valueNames (values : List (String × String)) : List String := values.map (fun nv => commonView nv.1)

/-- normal forms of the attribute names of the credential definition's schema -/
def schemaNames (cd : CredDef) : List String := cd.schemaAttrs.map commonView

/-- the values name exactly the schema's attributes: equal as *sets* of normal forms -/
def SameNames (values : List (String × String)) (cd : CredDef) : Prop :=
  ∀ x, x ∈ valueNames values ↔ x ∈ schemaNames cd

/-- two association lists are the same single-valued map: same entries, no key with two values -/
def SameMap (a b : List (String × String)) : Prop :=
  (∀ kv, kv ∈ a ↔ kv ∈ b) ∧ ∀ k v v', (k, v) ∈ a → (k, v') ∈ a → v = v'

/-- the same map gives the same answer to every lookup -/
theorem C11_sameMap_lookup_eq {a b : List (String × String)} (h : SameMap a b) (k : String) :
    a.lookup k = b.lookup k := by
  have hs := (sameAttrs_iff a b).mpr h
  obtain ⟨h1, h2⟩ := (sameAttrs_iff_lookup a b).mp hs
  cases ha : a.lookup k with
  | some v => exact (h1 _ (mem_of_lookup ha)).symm
  | none =>
    cases hb : b.lookup k with
    | none => rfl
    | some v => have := h2 _ (mem_of_lookup hb); simp only at this; rw [ha] at this; cases this

/-! ## the issuer -/

/-- **`create_credential` succeeds iff** the request carries entropy or a prover DID, its
blinded-link-secret correctness proof is intact, was made for this credential definition's key and
under the nonce of this very offer, and the values name exactly the schema's attributes (as sets of
normal forms). -/
theorem C11_issue_ok_iff (cd : CredDef) (offer : Offer) (req : CredRequest)
    (values : List (String × String)) :
    (createCredential cd offer req values).isSome = true ↔
      (entropyOf req).isSome = true ∧ req.blinded.intact = true ∧ req.blinded.key = cd.key ∧
      req.blinded.proofNonce = offer.nonce ∧ SameNames values cd := by
  have hs := sameSet_iff (values.map (fun nv => commonView nv.1)) (cd.schemaAttrs.map commonView)
  unfold SameNames valueNames schemaNames
  rw [← hs]
  unfold createCredential
  generalize sameSet _ _ = ss
  cases entropyOf req <;> cases req.blinded.intact <;> by_cases hk : req.blinded.key = cd.key <;>
    by_cases hn : req.blinded.proofNonce = offer.nonce <;> cases ss <;> simp [hk, hn]

/-- **what is signed**: the credential carries the values as given; the signature is by the
definition's key over the normalised names and the given encoded values, for the link secret and
blinding factor inside the request, and its correctness proof is bound to the request's nonce. -/
theorem C11_issue_returns {cd : CredDef} {offer : Offer} {req : CredRequest}
    {values : List (String × String)} {c : Credential} (h : createCredential cd offer req values = some c) :
    c.values = values ∧
    c.sig = { key := cd.key, attrs := normAttrs values, holder := req.blinded.holder,
              blinding := req.blinded.blinding, nonce := req.nonce, intact := true } := by
  unfold createCredential at h
  split at h; · cases h
  split at h; · cases h
  split at h; · cases h
  cases h; exact ⟨rfl, rfl⟩

private theorem refused_of_not {cd : CredDef} {offer : Offer} {req : CredRequest}
    {values : List (String × String)}
    (h : ¬ ((entropyOf req).isSome = true ∧ req.blinded.intact = true ∧ req.blinded.key = cd.key ∧
      req.blinded.proofNonce = offer.nonce ∧ SameNames values cd)) :
    createCredential cd offer req values = none := by
  cases hc : createCredential cd offer req values with
  | none => rfl
  | some c => exact absurd ((C11_issue_ok_iff cd offer req values).mp (by simp [hc])) h

/-- **replayed request**: a request whose correctness proof was made under another offer's nonce is
refused. -/
theorem C11_issue_replayed_request_refused {cd : CredDef} {offer : Offer} {req : CredRequest}
    (values : List (String × String)) (h : req.blinded.proofNonce ≠ offer.nonce) :
    createCredential cd offer req values = none :=
  refused_of_not (fun hh => h hh.2.2.2.1)

/-- **foreign request**: a request whose link secret was blinded for another credential
definition's key is refused. -/
theorem C11_issue_foreign_request_refused {cd : CredDef} {offer : Offer} {req : CredRequest}
    (values : List (String × String)) (h : req.blinded.key ≠ cd.key) :
    createCredential cd offer req values = none :=
  refused_of_not (fun hh => h hh.2.2.1)

/-- a request whose blinded secret or correctness proof was modified is refused -/
theorem C11_issue_modified_request_refused {cd : CredDef} {offer : Offer} {req : CredRequest}
    (values : List (String × String)) (h : req.blinded.intact = false) :
    createCredential cd offer req values = none :=
  refused_of_not (fun hh => by rw [h] at hh; cases hh.2.1)

/-- a request with neither entropy nor prover DID is refused -/
theorem C11_issue_no_entropy_refused {cd : CredDef} {offer : Offer} {req : CredRequest}
    (values : List (String × String)) (h1 : req.entropy = none) (h2 : req.proverDid = none) :
    createCredential cd offer req values = none :=
  refused_of_not (fun hh => by simp [entropyOf, h1, h2] at hh)

/-- **wrong attribute set**: values whose set of normal-form names differs from the schema's are
refused. -/
theorem C11_issue_wrong_attributes_refused {cd : CredDef} {offer : Offer} {req : CredRequest}
    {values : List (String × String)} (h : ¬ SameNames values cd) :
    createCredential cd offer req values = none :=
  refused_of_not (fun hh => h hh.2.2.2.2)

/-- … a **missing** attribute: some schema attribute has no value (under any spelling) -/
theorem C11_issue_missing_attribute_refused {cd : CredDef} {offer : Offer} {req : CredRequest}
    {values : List (String × String)} {a : String} (ha : a ∈ cd.schemaAttrs)
    (hm : ∀ nv ∈ values, commonView nv.1 ≠ commonView a) :
    createCredential cd offer req values = none := by
  apply C11_issue_wrong_attributes_refused
  intro hs
  have : commonView a ∈ valueNames values := (hs _).mpr (List.mem_map_of_mem ha)
  obtain ⟨nv, hnv, e⟩ := List.mem_map.mp this
  exact hm nv hnv e

/-- … an **extra** attribute: some value is for a name that is (under no spelling) in the schema -/
theorem C11_issue_extra_attribute_refused {cd : CredDef} {offer : Offer} {req : CredRequest}
    {values : List (String × String)} {nv : String × String} (hnv : nv ∈ values)
    (hx : ∀ a ∈ cd.schemaAttrs, commonView a ≠ commonView nv.1) :
    createCredential cd offer req values = none := by
  apply C11_issue_wrong_attributes_refused
  intro hs
  have : commonView nv.1 ∈ schemaNames cd :=
    (hs _).mp (List.mem_map.mpr ⟨nv, hnv, rfl⟩)
  obtain ⟨a, ha, e⟩ := List.mem_map.mp this
  exact hx a ha e

/-- … a **renamed** attribute: one entry's name replaced by a name whose normal form is not a
schema attribute's (whatever the other entries are) -/
theorem C11_issue_renamed_attribute_refused {cd : CredDef} {offer : Offer} {req : CredRequest}
    (pre post : List (String × String)) (newName v : String)
    (hx : ∀ a ∈ cd.schemaAttrs, commonView a ≠ commonView newName) :
    createCredential cd offer req (pre ++ (newName, v) :: post) = none :=
  C11_issue_extra_attribute_refused (nv := (newName, v)) (by simp) hx

/-- **case / space variants are accepted**: if the names of the values have, one by one, the same
normal forms as the schema's attribute names (`"First Name"` for `"firstname"`), the attribute-set
condition holds; so with a good request the credential is issued. -/
theorem C11_issue_case_variants_accepted {cd : CredDef} {offer : Offer} {req : CredRequest}
    {values : List (String × String)}
    (hsame : values.map (fun nv => commonView nv.1) = cd.schemaAttrs.map commonView)
    (he : (entropyOf req).isSome = true) (hi : req.blinded.intact = true)
    (hk : req.blinded.key = cd.key) (hn : req.blinded.proofNonce = offer.nonce) :
    SameNames values cd ∧ (createCredential cd offer req values).isSome = true := by
  have hs : SameNames values cd := by
    intro x; unfold valueNames schemaNames; rw [hsame]
  exact ⟨hs, (C11_issue_ok_iff cd offer req values).mpr ⟨he, hi, hk, hn, hs⟩⟩

/-- the attribute-set condition only looks at normal forms: two value lists whose name sets have the
same normal forms are both accepted or both refused -/
theorem C11_issue_depends_on_normal_forms {cd : CredDef} {offer : Offer} {req : CredRequest}
    {values values' : List (String × String)}
    (h : ∀ x, x ∈ valueNames values ↔ x ∈ valueNames values') :
    (createCredential cd offer req values).isSome = (createCredential cd offer req values').isSome := by
  have : SameNames values cd ↔ SameNames values' cd :=
    ⟨fun hs x => (h x).symm.trans (hs x), fun hs x => (h x).trans (hs x)⟩
  rw [Bool.eq_iff_iff, C11_issue_ok_iff, C11_issue_ok_iff, this]

/-! ## the holder: request -/

/-- **`create_credential_request` succeeds iff** `CredentialRequest::validate` accepts entropy,
prover DID and the definition's id; it then returns a request whose link secret is blinded for this
definition's key with a correctness proof under the offer's nonce, and metadata carrying the same
blinding factor and the request's own nonce. -/
theorem C11_request_ok_iff (entropy proverDid : Option String) (cd : CredDef) (holder blinding : Nat)
    (reqNonce : String) (offer : Offer) (req : CredRequest) (m : ReqMeta) :
    createCredentialRequest entropy proverDid cd holder blinding reqNonce offer = some (req, m) ↔
      Ident.credReqValid entropy proverDid cd.id = true ∧
      req.entropy = entropy ∧ req.proverDid = proverDid ∧
      req.blinded = { key := cd.key, holder := holder, blinding := blinding,
                      proofNonce := offer.nonce, intact := true } ∧
      req.nonce = reqNonce ∧ m.blinding = blinding ∧ m.nonce = reqNonce := by
  unfold createCredentialRequest
  obtain ⟨e, p, b, n⟩ := req
  obtain ⟨mb, mn⟩ := m
  cases Ident.credReqValid entropy proverDid cd.id
  · simp
  · simp only [if_true, Option.some.injEq, Prod.mk.injEq, CredRequest.mk.injEq, ReqMeta.mk.injEq, true_and]
    constructor
    · rintro ⟨⟨rfl, rfl, rfl, rfl⟩, rfl, rfl⟩; exact ⟨rfl, rfl, rfl, rfl, rfl, rfl⟩
    · rintro ⟨rfl, rfl, rfl, rfl, rfl, rfl⟩; exact ⟨⟨rfl, rfl, rfl, rfl⟩, rfl, rfl⟩

/-- success alone, with the grammar of C20 spelled out: the definition id is valid and either
entropy is given without a prover DID, or no entropy is given, the definition id has the legacy
form and the prover DID is a URI or a legacy DID. -/
theorem C11_request_succeeds_iff (entropy proverDid : Option String) (cd : CredDef)
    (holder blinding : Nat) (reqNonce : String) (offer : Offer) :
    (createCredentialRequest entropy proverDid cd holder blinding reqNonce offer).isSome = true ↔
      Ident.idValid .credDef cd.id = true ∧
      ((entropy.isSome = true ∧ proverDid = none) ∨
       (entropy = none ∧ Ident.IsLegacyCredDefId cd.id.toList ∧
          ∃ d, proverDid = some d ∧ (Ident.IsUri d.toList ∨ Ident.IsLegacyDid d.toList))) := by
  rw [← Ident.C20_credreq_valid_iff]
  unfold createCredentialRequest
  cases Ident.credReqValid entropy proverDid cd.id <;> simp

/-- **an honest request answers its offer**: the issuer accepts the request made for `offer` and
`cd`, with `offer` and `cd`, for every value list naming exactly the schema's attributes … -/
theorem C11_honest_request_accepted {entropy proverDid : Option String} {cd : CredDef}
    {holder blinding : Nat} {reqNonce : String} {offer : Offer} {req : CredRequest} {m : ReqMeta}
    (hreq : createCredentialRequest entropy proverDid cd holder blinding reqNonce offer = some (req, m))
    {values : List (String × String)} (hs : SameNames values cd) :
    (createCredential cd offer req values).isSome = true := by
  obtain ⟨hv, rfl, rfl, hb, _⟩ := (C11_request_ok_iff ..).mp hreq
  refine (C11_issue_ok_iff cd offer req values).mpr ⟨?_, by rw [hb], by rw [hb], by rw [hb], hs⟩
  rcases Ident.C20_credreq_exactly_one hv with ⟨h, _⟩ | ⟨_, h⟩
  · unfold entropyOf; cases he : req.entropy with
    | some e => rfl
    | none => rw [he] at h; cases h
  · unfold entropyOf; cases he : req.entropy with
    | some e => rfl
    | none => exact h

/-- … and refuses it when presented with any offer that has another nonce, or for any credential
definition with another key. -/
theorem C11_honest_request_bound {entropy proverDid : Option String} {cd : CredDef}
    {holder blinding : Nat} {reqNonce : String} {offer : Offer} {req : CredRequest} {m : ReqMeta}
    (hreq : createCredentialRequest entropy proverDid cd holder blinding reqNonce offer = some (req, m))
    (values : List (String × String)) :
    (∀ offer' : Offer, offer'.nonce ≠ offer.nonce → createCredential cd offer' req values = none) ∧
    (∀ cd' : CredDef, cd'.key ≠ cd.key → createCredential cd' offer req values = none) := by
  obtain ⟨_, _, _, hb, _⟩ := (C11_request_ok_iff ..).mp hreq
  constructor
  · intro offer' h
    exact C11_issue_replayed_request_refused values (by rw [hb]; exact fun e => h e.symm)
  · intro cd' h
    exact C11_issue_foreign_request_refused values (by rw [hb]; exact fun e => h e.symm)

/-! ## the holder: processing -/

/-- **`process_credential` succeeds iff** the signature is intact, was made by this credential
definition's key, for this link secret, over the blinding factor and under the request nonce kept
in the metadata, and the signed attribute map equals the normalised values the credential shows
(same entries, no name with two values). -/
theorem C11_process_ok_iff (c : Credential) (m : ReqMeta) (holder : Nat) (cd : CredDef) :
    processCredential c m holder cd = true ↔
      c.sig.intact = true ∧ c.sig.key = cd.key ∧ c.sig.holder = holder ∧
      c.sig.blinding = m.blinding ∧ c.sig.nonce = m.nonce ∧ SameMap c.sig.attrs (normAttrs c.values) := by
  simp only [processCredential, Bool.and_eq_true, beq_iff_eq, sameAttrs_iff, SameMap, Functional,
    and_assoc]

section honest
variable {entropy proverDid : Option String} {cd : CredDef} {holder blinding : Nat}
  {reqNonce : String} {offer : Offer} {req : CredRequest} {m : ReqMeta}
  {values : List (String × String)} {c : Credential}

/-- what an honest issuance fixes -/
private theorem honest_facts
    (hreq : createCredentialRequest entropy proverDid cd holder blinding reqNonce offer = some (req, m))
    (hiss : createCredential cd offer req values = some c) :
    c.values = values ∧ c.sig.intact = true ∧ c.sig.key = cd.key ∧ c.sig.holder = holder ∧
      c.sig.blinding = blinding ∧ c.sig.nonce = reqNonce ∧ c.sig.attrs = normAttrs values ∧
      m.blinding = blinding ∧ m.nonce = reqNonce := by
  obtain ⟨_, _, _, hb, hn, hmb, hmn⟩ := (C11_request_ok_iff ..).mp hreq
  obtain ⟨hv, hs⟩ := C11_issue_returns hiss
  rw [hb, hn] at hs
  rw [hs]
  exact ⟨hv, rfl, rfl, rfl, rfl, rfl, rfl, hmb, hmn⟩

private theorem sameMap_self (hnd : (values.map (fun nv => commonView nv.1)).Nodup) :
    SameMap (normAttrs values) (normAttrs values) :=
  ⟨fun _ => Iff.rfl, functional_of_nodup_keys (by rw [normAttrs_keys]; exact hnd)⟩

/-- **honest round trip**: the holder makes a request for `(cd, offer)`, the issuer answers it with
a credential for `values` whose names have pairwise distinct normal forms, and the holder processes
it with the metadata of that request, the same link secret and the same definition: processing
succeeds. (The distinctness hypothesis is needed in the model: see the example at the end.) -/
theorem C11_honest_roundtrip
    (hreq : createCredentialRequest entropy proverDid cd holder blinding reqNonce offer = some (req, m))
    (hiss : createCredential cd offer req values = some c)
    (hnd : (values.map (fun nv => commonView nv.1)).Nodup) :
    processCredential c m holder cd = true := by
  obtain ⟨hv, hi, hk, hh, hb, hn, ha, hmb, hmn⟩ := honest_facts hreq hiss
  rw [C11_process_ok_iff, ha, hv]
  exact ⟨hi, hk, hh, hb.trans hmb.symm, hn.trans hmn.symm, sameMap_self hnd⟩

/-- **another holder**: processing with another link secret fails. -/
theorem C11_tamper_rejected_other_holder
    (hreq : createCredentialRequest entropy proverDid cd holder blinding reqNonce offer = some (req, m))
    (hiss : createCredential cd offer req values = some c)
    {holder' : Nat} (h : holder' ≠ holder) :
    processCredential c m holder' cd = false := by
  obtain ⟨_, _, _, hh, _⟩ := honest_facts hreq hiss
  rw [Bool.eq_false_iff]; intro hp
  exact h ((((C11_process_ok_iff ..).mp hp).2.2.1).symm.trans hh)

/-- **another definition key**: processing against a credential definition with another key fails. -/
theorem C11_tamper_rejected_other_key
    (hreq : createCredentialRequest entropy proverDid cd holder blinding reqNonce offer = some (req, m))
    (hiss : createCredential cd offer req values = some c)
    {cd' : CredDef} (h : cd'.key ≠ cd.key) :
    processCredential c m holder cd' = false := by
  obtain ⟨_, _, hk, _⟩ := honest_facts hreq hiss
  rw [Bool.eq_false_iff]; intro hp
  exact h ((((C11_process_ok_iff ..).mp hp).2.1).symm.trans hk)

/-- **metadata of another request (blinding factor)**: processing with metadata holding another
blinding factor fails. -/
theorem C11_tamper_rejected_other_blinding
    (hreq : createCredentialRequest entropy proverDid cd holder blinding reqNonce offer = some (req, m))
    (hiss : createCredential cd offer req values = some c)
    {m' : ReqMeta} (h : m'.blinding ≠ blinding) :
    processCredential c m' holder cd = false := by
  obtain ⟨_, _, _, _, hb, _⟩ := honest_facts hreq hiss
  rw [Bool.eq_false_iff]; intro hp
  exact h ((((C11_process_ok_iff ..).mp hp).2.2.2.1).symm.trans hb)

/-- **metadata of another request (nonce)**: processing with metadata holding another request nonce
fails. -/
theorem C11_tamper_rejected_other_nonce
    (hreq : createCredentialRequest entropy proverDid cd holder blinding reqNonce offer = some (req, m))
    (hiss : createCredential cd offer req values = some c)
    {m' : ReqMeta} (h : m'.nonce ≠ reqNonce) :
    processCredential c m' holder cd = false := by
  obtain ⟨_, _, _, _, _, hn, _⟩ := honest_facts hreq hiss
  rw [Bool.eq_false_iff]; intro hp
  exact h ((((C11_process_ok_iff ..).mp hp).2.2.2.2.1).symm.trans hn)

/-- the two together, for the metadata of any other request the holder made (for whatever
definition and offer) with another blinding factor or another nonce -/
theorem C11_tamper_rejected_other_request_metadata
    (hreq : createCredentialRequest entropy proverDid cd holder blinding reqNonce offer = some (req, m))
    (hiss : createCredential cd offer req values = some c)
    {entropy' proverDid' : Option String} {cd' : CredDef} {holder' blinding' : Nat} {reqNonce' : String}
    {offer' : Offer} {req' : CredRequest} {m' : ReqMeta}
    (hreq' : createCredentialRequest entropy' proverDid' cd' holder' blinding' reqNonce' offer' = some (req', m'))
    (h : blinding' ≠ blinding ∨ reqNonce' ≠ reqNonce) :
    processCredential c m' holder cd = false := by
  obtain ⟨_, _, _, _, _, hmb, hmn⟩ := (C11_request_ok_iff ..).mp hreq'
  rcases h with h | h
  · exact C11_tamper_rejected_other_blinding hreq hiss (by rw [hmb]; exact h)
  · exact C11_tamper_rejected_other_nonce hreq hiss (by rw [hmn]; exact h)

/-- **a changed value**: a credential with the honest signature but showing, for some attribute
(under any spelling of its name), an encoded value other than the signed one is rejected. -/
theorem C11_tamper_rejected_changed_value
    (hreq : createCredentialRequest entropy proverDid cd holder blinding reqNonce offer = some (req, m))
    (hiss : createCredential cd offer req values = some c)
    {c' : Credential} (hsig : c'.sig = c.sig)
    {n v n' v' : String} (hv : (n, v) ∈ values) (hv' : (n', v') ∈ c'.values)
    (hname : commonView n' = commonView n) (hne : v' ≠ v) :
    processCredential c' m holder cd = false := by
  obtain ⟨_, _, _, _, _, _, ha, _⟩ := honest_facts hreq hiss
  rw [Bool.eq_false_iff]; intro hp
  obtain ⟨hs, hf⟩ := ((C11_process_ok_iff ..).mp hp).2.2.2.2.2
  rw [hsig, ha] at hs hf
  have h1 : (commonView n, v) ∈ normAttrs values := mem_normAttrs.mpr ⟨_, hv, rfl⟩
  have h2 : (commonView n, v') ∈ normAttrs values :=
    (hs _).mpr (mem_normAttrs.mpr ⟨_, hv', by rw [hname]⟩)
  exact hne (hf _ _ _ h2 h1)

/-- a credential with the honest signature that **drops** a signed attribute is rejected -/
theorem C11_tamper_rejected_dropped_attribute
    (hreq : createCredentialRequest entropy proverDid cd holder blinding reqNonce offer = some (req, m))
    (hiss : createCredential cd offer req values = some c)
    {c' : Credential} (hsig : c'.sig = c.sig)
    {n v : String} (hv : (n, v) ∈ values) (hdrop : ∀ nv ∈ c'.values, commonView nv.1 ≠ commonView n) :
    processCredential c' m holder cd = false := by
  obtain ⟨_, _, _, _, _, _, ha, _⟩ := honest_facts hreq hiss
  rw [Bool.eq_false_iff]; intro hp
  obtain ⟨hs, _⟩ := ((C11_process_ok_iff ..).mp hp).2.2.2.2.2
  rw [hsig, ha] at hs
  obtain ⟨nv, hnv, e⟩ := mem_normAttrs.mp ((hs _).mp (mem_normAttrs.mpr ⟨_, hv, rfl⟩))
  exact hdrop nv hnv (Prod.mk.inj e).1.symm

/-- a credential with the honest signature that **adds** an attribute that was not signed is
rejected -/
theorem C11_tamper_rejected_added_attribute
    (hreq : createCredentialRequest entropy proverDid cd holder blinding reqNonce offer = some (req, m))
    (hiss : createCredential cd offer req values = some c)
    {c' : Credential} (hsig : c'.sig = c.sig)
    {nv' : String × String} (hv' : nv' ∈ c'.values) (hadd : ∀ nv ∈ values, commonView nv.1 ≠ commonView nv'.1) :
    processCredential c' m holder cd = false := by
  obtain ⟨_, _, _, _, _, _, ha, _⟩ := honest_facts hreq hiss
  rw [Bool.eq_false_iff]; intro hp
  obtain ⟨hs, _⟩ := ((C11_process_ok_iff ..).mp hp).2.2.2.2.2
  rw [hsig, ha] at hs
  obtain ⟨nv, hnv, e⟩ := mem_normAttrs.mp ((hs _).mpr (mem_normAttrs.mpr ⟨_, hv', rfl⟩))
  exact hadd nv hnv (Prod.mk.inj e).1.symm

end honest

/-- **modified signature**: a credential whose signature or signature correctness proof was modified
(`intact = false`) is rejected — whatever else holds; in particular the honest credential with
`intact` cleared. -/
theorem C11_tamper_rejected_not_intact {c : Credential} (m : ReqMeta) (holder : Nat) (cd : CredDef)
    (h : c.sig.intact = false) : processCredential c m holder cd = false := by
  rw [Bool.eq_false_iff]; intro hp
  rw [((C11_process_ok_iff ..).mp hp).1] at h; cases h

/-- the instance named in the property: the honest credential with `intact` cleared -/
theorem C11_tamper_rejected_honest_not_intact (c : Credential) (m : ReqMeta) (holder : Nat) (cd : CredDef) :
    processCredential { c with sig := { c.sig with intact := false } } m holder cd = false :=
  C11_tamper_rejected_not_intact m holder cd rfl

/-- **a processed credential is presentable**: if processing succeeds, then what the issuer key
really signed (`c.sig`, ghost) is the ideal credential `{ key := cd.key, attrs := c.sig.attrs,
holder := holder, rev := none }` the holder believes to hold: signed by the key of the credential
definition the holder will name in presentations, for the holder's own link secret, and with a
signed value under the normal form of every name the credential shows, equal to the encoded value
shown (and nothing else signed). These are exactly the facts the presentation theorems ask of a
credential — `credDefsAgree`, `valuesSigned` and the common link secret in `Props/C04Defs.lean` —
so the link to "always yields verifiable presentations" is C04 (`C04_legacy`, `C04_w3c`). -/
theorem C11_processed_is_presentable {c : Credential} {m : ReqMeta} {holder : Nat} {cd : CredDef}
    (h : processCredential c m holder cd = true) :
    ({ key := c.sig.key, attrs := c.sig.attrs, holder := c.sig.holder, rev := none } : IdealCL.SymCred) =
        { key := cd.key, attrs := c.sig.attrs, holder := holder, rev := none } ∧
      SameMap c.sig.attrs (normAttrs c.values) ∧
      (∀ nv ∈ c.values, c.sig.attrs.lookup (commonView nv.1) = some nv.2) ∧
      (∀ k v, c.sig.attrs.lookup k = some v → ∃ nv ∈ c.values, commonView nv.1 = k ∧ nv.2 = v) := by
  obtain ⟨_, hk, hh, _, _, hs⟩ := (C11_process_ok_iff ..).mp h
  refine ⟨by rw [hk, hh], hs, ?_, ?_⟩
  · intro nv hnv
    obtain ⟨_, h2⟩ := (sameAttrs_iff_lookup _ _).mp ((sameAttrs_iff _ _).mpr hs)
    exact h2 (commonView nv.1, nv.2) (mem_normAttrs.mpr ⟨nv, hnv, rfl⟩)
  · intro k v hl
    obtain ⟨nv, hnv, e⟩ := mem_normAttrs.mp ((hs.1 _).mp (mem_of_lookup hl))
    cases e; exact ⟨nv, hnv, rfl, rfl⟩

/-- in the form of C04's `valuesSigned`, for canonically encoded values: the signed value under the
normal form of each shown name is `normalize_encoded_attr` of the shown encoded value -/
theorem C11_processed_values_signed {c : Credential} {m : ReqMeta} {holder : Nat} {cd : CredDef}
    (h : processCredential c m holder cd = true)
    (hc : ∀ nv ∈ c.values, ∃ raw, nv.2 = Encode.encode raw) :
    ∀ nv ∈ c.values, c.sig.attrs.lookup (commonView nv.1) = some (Encode.normalizeEnc nv.2) := by
  intro nv hnv
  obtain ⟨raw, hr⟩ := hc nv hnv
  rw [(C11_processed_is_presentable h).2.2.1 nv hnv, hr, Encode.C13_normalize_encode]

/-! ### non-vacuity and boundary examples -/

private def cd0 : CredDef := { id := "mock:uri", key := 1, schemaAttrs := ["First Name", "age"] }
private def offer0 : Offer := { nonce := "111" }
private def vals0 : List (String × String) := [("firstname", "42"), ("AGE", "28")]
private def blinded0 : Blinded := { key := 1, holder := 7, blinding := 9, proofNonce := "111", intact := true }
private def req0 : CredRequest := { entropy := some "e", proverDid := none, blinded := blinded0, nonce := "222" }
private def meta0 : ReqMeta := { blinding := 9, nonce := "222" }
private def sig0 : Signature :=
  { key := 1, attrs := [("firstname", "42"), ("age", "28")], holder := 7, blinding := 9, nonce := "222", intact := true }
private def cred0 : Credential := { values := vals0, sig := sig0 }

-- normal forms
example : commonView "First Name" = "firstname" := by decide
example : commonView "AGE" = commonView "a g e" := by decide
-- the honest flow exists: request, issuance, processing
example : createCredentialRequest (some "e") none cd0 7 9 "222" offer0 = some (req0, meta0) := by
  rw [C11_request_ok_iff]
  exact ⟨by decide, rfl, rfl, rfl, rfl, rfl, rfl⟩
example : createCredential cd0 offer0 req0 vals0 = some cred0 := by
  have h : (createCredential cd0 offer0 req0 vals0).isSome = true := by decide
  obtain ⟨c, hc⟩ := Option.isSome_iff_exists.mp h
  obtain ⟨h1, h2⟩ := C11_issue_returns hc
  rw [hc]; congr 1
  obtain ⟨v, s⟩ := c
  simp only at h1 h2
  subst h1; subst h2; rfl
example : (vals0.map (fun nv => commonView nv.1)).Nodup := by decide
example : processCredential cred0 meta0 7 cd0 = true := by decide
-- case / space variants of the schema's names are accepted; a missing, an extra, a renamed attribute is not
example : (createCredential cd0 offer0 req0 vals0).isSome = true := by decide
example : (createCredential cd0 offer0 req0 [("firstname", "42")]).isSome = false := by decide
example : (createCredential cd0 offer0 req0 (("x", "1") :: vals0)).isSome = false := by decide
example : (createCredential cd0 offer0 req0 [("surname", "42"), ("age", "28")]).isSome = false := by decide
-- replayed / foreign / modified request
example : (createCredential cd0 { nonce := "112" } req0 vals0).isSome = false := by decide
example : (createCredential { cd0 with key := 2 } offer0 req0 vals0).isSome = false := by decide
example : (createCredential cd0 offer0 { req0 with blinded := { blinded0 with intact := false } } vals0).isSome = false := by
  decide
example : (createCredential cd0 offer0 { req0 with entropy := none } vals0).isSome = false := by decide
-- a legacy request with a prover DID instead of entropy
example : (createCredentialRequest none (some "DXoTtQJNtXtiwWaZAK3rB1")
    { cd0 with id := "DXoTtQJNtXtiwWaZAK3rB1:3:CL:98153:default" } 7 9 "222" offer0).isSome = true := by decide
example : (createCredentialRequest none (some "DXoTtQJNtXtiwWaZAK3rB1") cd0 7 9 "222" offer0).isSome = false := by
  decide
-- tampering
example : processCredential cred0 meta0 8 cd0 = false := by decide
example : processCredential cred0 meta0 7 { cd0 with key := 2 } = false := by decide
example : processCredential cred0 { meta0 with blinding := 10 } 7 cd0 = false := by decide
example : processCredential cred0 { meta0 with nonce := "223" } 7 cd0 = false := by decide
example : processCredential { cred0 with values := [("firstname", "43"), ("AGE", "28")] } meta0 7 cd0 = false := by
  decide
example : processCredential { cred0 with values := [("firstname", "42")] } meta0 7 cd0 = false := by decide
example : processCredential { cred0 with sig := { sig0 with intact := false } } meta0 7 cd0 = false := by decide
-- the distinctness hypothesis of `C11_honest_roundtrip` is needed in the model: two spellings of one
-- name with different values pass the issuer's set comparison, and the credential then fails processing
example :
    (createCredential { cd0 with schemaAttrs := ["name"] } offer0 req0 [("Name", "1"), ("name", "2")]).isSome = true ∧
    processCredential
      { values := [("Name", "1"), ("name", "2")],
        sig := { sig0 with attrs := normAttrs [("Name", "1"), ("name", "2")] } } meta0 7
      { cd0 with schemaAttrs := ["name"] } = false := by decide

end AnonModel.Issuance

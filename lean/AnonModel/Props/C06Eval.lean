import AnonModel.Lemmas.Query
/-!
# C06 (evaluation core) — restrictions hold with Boolean WQL semantics

Statement (evaluation part): "`$and`/`$or`/`$not`/`$in`/`$neq` having their Boolean
meaning over equality tests on schema id, name, version and issuer, credential-definition
id, issuer (legacy `*_did` tags matching only legacy identifiers) and values of attributes
revealed under the referent. Comparison, `$like` and `$exist` operators and unknown tags are
never satisfied."

`eval ld vals f q` is `process_operator(vals, q, f).is_ok()`; `ld` stands for
`LEGACY_DID_IDENTIFIER.captures(_).is_some()` and every theorem holds for every `ld`.
`Sat` below is a semantics written independently of the code (a recursive `Prop`:
negation makes an inductive definition non-positive); `LeafSat`, `IsInternalTag`,
`IsMarkerShaped` are in `Lemmas/Query.lean`. Which credential / which revealed values are
handed to the evaluation (`f`, `vals`) is the business of the verifier model, not of this file.
-/
namespace AnonModel.Query
open AnonModel.Json

section
variable (ld : String → Bool) (vals : List (String × Option String)) (f : Filter)

/-! ## the declarative semantics -/

mutual
/-- Boolean meaning of a restriction for one credential: `and` = all, `or` = some,
`not` = negation, `in` = some value, `neq` = negated leaf, `eq` = leaf; every other
operator is unsatisfiable. -/
def Sat : Query → Prop
  | .and l => SatAll l
  | .or l => SatAny l
  | .not q => ¬ Sat q
  | .eq k v => LeafSat ld vals f k v
  | .neq k v => ¬ LeafSat ld vals f k v
  | .isIn k vs => ∃ v ∈ vs, LeafSat ld vals f k v
  | .gt _ _ => False
  | .gte _ _ => False
  | .lt _ _ => False
  | .lte _ _ => False
  | .like _ _ => False
  | .exist _ => False
def SatAll : List Query → Prop
  | [] => True
  | q :: r => Sat q ∧ SatAll r
def SatAny : List Query → Prop
  | [] => False
  | q :: r => Sat q ∨ SatAny r
end

private theorem satAll_iff (l : List Query) : SatAll ld vals f l ↔ ∀ q ∈ l, Sat ld vals f q := by
  induction l with
  | nil => simp [SatAll]
  | cons q r ih => simp [SatAll, ih]

private theorem satAny_iff (l : List Query) : SatAny ld vals f l ↔ ∃ q ∈ l, Sat ld vals f q := by
  induction l with
  | nil => simp [SatAny]
  | cons q r ih => simp [SatAny, ih]

/-- `Sat` of a conjunction, in closed form -/
theorem C06_sat_and (l : List Query) : Sat ld vals f (.and l) ↔ ∀ q ∈ l, Sat ld vals f q := by
  simp only [Sat, satAll_iff]

/-- `Sat` of a disjunction, in closed form -/
theorem C06_sat_or (l : List Query) : Sat ld vals f (.or l) ↔ ∃ q ∈ l, Sat ld vals f q := by
  simp only [Sat, satAny_iff]

/-! ## the leaves -/

/-- **`INTERNAL_TAG_MATCHER`**: the capture of `^attr::([^:]+)::(value|marker)$` on `tag`
is `n` iff `tag` is `attr::n::value` or `attr::n::marker` with `n` non-empty and free of `:` -/
theorem C06_internal_tag_regex (tag n : String) :
    internalTagName tag = some n ↔ IsInternalTag tag n :=
  internalTagName_eq_some_iff tag n

/-- **leaf = spec**: `process_filter` succeeds exactly when the declarative leaf holds -/
theorem C06_leaf_spec (tag value : String) :
    processFilter ld vals f tag value = true ↔ LeafSat ld vals f tag value :=
  processFilter_iff_leafSat ld vals f tag value

/-- **metadata tags** compare by string equality with the corresponding field of the
credential's filter; the two legacy `*_did` tags additionally require the *credential's*
issuer (not the value in the restriction) to be a legacy identifier -/
theorem C06_leaf_metadata (v : String) :
    processFilter ld vals f "schema_id" v = decide (f.schemaId = v) ∧
    processFilter ld vals f "schema_issuer_id" v = decide (f.schemaIssuerId = v) ∧
    processFilter ld vals f "schema_issuer_did" v = (ld f.schemaIssuerId && decide (f.schemaIssuerId = v)) ∧
    processFilter ld vals f "schema_name" v = decide (f.schemaName = v) ∧
    processFilter ld vals f "schema_version" v = decide (f.schemaVersion = v) ∧
    processFilter ld vals f "cred_def_id" v = decide (f.credDefId = v) ∧
    processFilter ld vals f "issuer_id" v = decide (f.issuerId = v) ∧
    processFilter ld vals f "issuer_did" v = (ld f.issuerId && decide (f.issuerId = v)) := by
  refine ⟨?_, ?_, ?_, ?_, ?_, ?_, ?_, ?_⟩ <;> simp [processFilter, processField]

private theorem leafSat_nonmeta {tag value : String} (hm : tag ∉ metaTags) :
    LeafSat ld vals f tag value ↔
      (∃ n, IsInternalTag tag n ∧ (vals.lookup n = some none ∨ vals.lookup n = some (some value))) ∨
      (IsMarkerShaped tag ∧ ¬ ∃ n, IsInternalTag tag n ∧ hasKey vals n = true) := by
  simp only [metaTags, List.mem_cons, List.not_mem_nil, or_false, not_or] at hm
  obtain ⟨h1, h2, h3, h4, h5, h6, h7, h8⟩ := hm
  simp only [LeafSat, h1, h2, h3, h4, h5, h6, h7, h8, false_and, false_or]

private theorem internal_not_meta {tag n : String} (h : IsInternalTag tag n) : tag ∉ metaTags :=
  fun hm => not_attrPrefix_of_meta hm (attrPrefix_of_internal h)

private theorem internal_unique {tag n n' : String} (h : IsInternalTag tag n)
    (h' : IsInternalTag tag n') : n' = n := by
  rw [← internalTagName_eq_some_iff] at h h'
  rw [h] at h'; exact (Option.some.inj h').symm

/-- **attribute tags** `attr::n::value` and `attr::n::marker` with `n` among the names
known for the referent: satisfied iff `n` is unrevealed or its revealed raw value equals
the value in the restriction (for `…::marker` too — the marker value is compared) -/
theorem C06_leaf_attr_known {tag n : String} (value : String) (h : IsInternalTag tag n)
    (hk : hasKey vals n = true) :
    processFilter ld vals f tag value = true ↔
      vals.lookup n = some none ∨ vals.lookup n = some (some value) := by
  rw [C06_leaf_spec, leafSat_nonmeta ld vals f (internal_not_meta h)]
  constructor
  · rintro (⟨n', h', hl⟩ | ⟨_, hno⟩)
    · rw [internal_unique h h'] at hl; exact hl
    · exact absurd ⟨n, h, hk⟩ hno
  · intro hl; exact Or.inl ⟨n, h, hl⟩

/-- **other markers**: a tag starting with `attr::` and ending with `::marker` which is
not an attribute tag of a known name is satisfied whatever the value and the credential
(the verifier does not check that the credential has the attribute) -/
theorem C06_leaf_marker_other {tag : String} (value : String) (hm : IsMarkerShaped tag)
    (hno : ¬ ∃ n, IsInternalTag tag n ∧ hasKey vals n = true) :
    processFilter ld vals f tag value = true := by
  rw [C06_leaf_spec, leafSat_nonmeta ld vals f (fun h => not_attrPrefix_of_meta h hm.1)]
  exact Or.inr ⟨hm, hno⟩

/-- **anything else is never satisfied**: unknown tags, `attr::n::value` for a name not
known for the referent, malformed attribute tags -/
theorem C06_leaf_unknown_false {tag : String} (value : String) (h1 : tag ∉ metaTags)
    (h2 : ¬ ∃ n, IsInternalTag tag n ∧ hasKey vals n = true) (h3 : ¬ IsMarkerShaped tag) :
    processFilter ld vals f tag value = false := by
  cases hp : processFilter ld vals f tag value with
  | false => rfl
  | true =>
    rw [C06_leaf_spec, leafSat_nonmeta ld vals f h1] at hp
    rcases hp with ⟨n, h, hl⟩ | ⟨hm, _⟩
    · exfalso; apply h2
      refine ⟨n, h, (hasKey_iff_lookup vals n).mpr ?_⟩
      rcases hl with hl | hl <;> exact ⟨_, hl⟩
    · exact absurd hm h3

/-- a legacy `*_did` tag never matches a credential whose issuer is not a legacy
identifier, not even on the issuer's own identifier -/
theorem C06_legacy_tag_only_legacy (v : String) :
    (ld f.issuerId = false → eval ld vals f (.eq "issuer_did" v) = false) ∧
    (ld f.schemaIssuerId = false → eval ld vals f (.eq "schema_issuer_did" v) = false) := by
  constructor <;> intro h <;> simp [eval, processFilter, processField, h]

/-! ## the operators -/

/-- **evaluation = Boolean semantics** -/
theorem C06_eval_iff_sat (q : Query) : eval ld vals f q = true ↔ Sat ld vals f q := by
  induction q using Query.induct with
  | and l ih =>
    simp only [eval, evalAll_eq, List.all_eq_true, C06_sat_and]
    exact ⟨fun h q hq => (ih q hq).mp (h q hq), fun h q hq => (ih q hq).mpr (h q hq)⟩
  | or l ih =>
    simp only [eval, evalAny_eq, List.any_eq_true, C06_sat_or]
    exact ⟨fun ⟨q, hq, h⟩ => ⟨q, hq, (ih q hq).mp h⟩, fun ⟨q, hq, h⟩ => ⟨q, hq, (ih q hq).mpr h⟩⟩
  | not q ih => simp only [eval, Sat, Bool.not_eq_true', ← ih, Bool.not_eq_true]
  | eq k v => simp only [eval, Sat, C06_leaf_spec]
  | neq k v => simp only [eval, Sat, Bool.not_eq_true', ← C06_leaf_spec, Bool.not_eq_true]
  | isIn k vs => simp only [eval, Sat, List.any_eq_true, C06_leaf_spec]
  | _ => simp [eval, Sat]

/-- **comparison, `$like` and `$exist` are never satisfied** -/
theorem C06_unsupported_false (k v : String) (ks : List String) :
    eval ld vals f (.gt k v) = false ∧ eval ld vals f (.gte k v) = false ∧
    eval ld vals f (.lt k v) = false ∧ eval ld vals f (.lte k v) = false ∧
    eval ld vals f (.like k v) = false ∧ eval ld vals f (.exist ks) = false :=
  ⟨rfl, rfl, rfl, rfl, rfl, rfl⟩

/-- … as leaves. Under a negation they are therefore *always* satisfied: "not (age > 18)"
holds for every credential -/
theorem C06_not_unsupported_true (k v : String) (ks : List String) :
    eval ld vals f (.not (.gt k v)) = true ∧ eval ld vals f (.not (.like k v)) = true ∧
    eval ld vals f (.not (.exist ks)) = true :=
  ⟨rfl, rfl, rfl⟩

/-- `$neq` is the negation of the equality leaf (so it is satisfied on unknown tags) -/
theorem C06_neq_is_not_eq (k v : String) :
    eval ld vals f (.neq k v) = !eval ld vals f (.eq k v) := rfl

/-- `$neq` and `$not` of `$eq` are interchangeable -/
theorem C06_neq_eq_not (k v : String) :
    eval ld vals f (.neq k v) = eval ld vals f (.not (.eq k v)) := rfl

/-- `$in` is the disjunction of the equalities (`$in []` is unsatisfiable) -/
theorem C06_in_is_or_eq (k : String) (vs : List String) :
    eval ld vals f (.isIn k vs) = eval ld vals f (.or (vs.map (Query.eq k))) := by
  simp only [eval, evalAny_eq, List.any_map]
  rfl

/-- `$and` is satisfied iff every member is (`collect::<Result<Vec<_>>>`) -/
theorem C06_and_is_all (l : List Query) :
    eval ld vals f (.and l) = l.all (eval ld vals f) := by simp only [eval, evalAll_eq]

/-- `$or` is satisfied iff some member is -/
theorem C06_or_is_any (l : List Query) :
    eval ld vals f (.or l) = l.any (eval ld vals f) := by simp only [eval, evalAny_eq]

/-- `$not` is satisfied iff its operand is not -/
theorem C06_not_is_not (q : Query) : eval ld vals f (.not q) = !eval ld vals f q := rfl

/-- double negation -/
theorem C06_not_involutive (q : Query) : eval ld vals f (.not (.not q)) = eval ld vals f q := by
  simp [eval]

/-- De Morgan: not-all = some-not -/
theorem C06_not_and (l : List Query) :
    eval ld vals f (.not (.and l)) = eval ld vals f (.or (l.map Query.not)) := by
  simp only [eval, evalAll_eq, evalAny_eq, List.any_map, List.not_all_eq_any_not]
  rfl

/-- De Morgan: not-some = all-not -/
theorem C06_not_or (l : List Query) :
    eval ld vals f (.not (.or l)) = eval ld vals f (.and (l.map Query.not)) := by
  simp only [eval, evalAll_eq, evalAny_eq, List.all_map, List.not_any_eq_all_not]
  rfl

/-- the neutral elements: `And([])` is satisfied, `Or([])` is not; one-element lists unwrap -/
theorem C06_units (q : Query) :
    eval ld vals f (.and []) = true ∧ eval ld vals f (.or []) = false ∧
    eval ld vals f (.and [q]) = eval ld vals f q ∧ eval ld vals f (.or [q]) = eval ld vals f q := by
  simp [eval, evalAll, evalAny]

end

/-! ## non-vacuity -/

private def sampleLegacy (s : String) : Bool := decide (s.toList.length = 22)
private def cred : Filter :=
  { schemaId := "did:ex:1/schema/gvt/1.0", schemaIssuerId := "did:ex:1", schemaName := "gvt",
    schemaVersion := "1.0", issuerId := "NcYxiDXkpYi6ov5FcYDi1e", credDefId := "NcYxiDXkpYi6ov5FcYDi1e:3:CL:1:tag" }
private def revealed : List (String × Option String) := [("name", some "Alex"), ("age", none)]

example : internalTagName "attr::name::value" = some "name" := by decide
example : internalTagName "attr::name::marker" = some "name" := by decide
example : internalTagName "attr::na:me::value" = none := by decide
example : internalTagName "attr::::value" = none := by decide
example : internalTagName "attr::name::value\n" = none := by decide
example : internalTagName "attr::na\nme::value" = some "na\nme" := by decide
example : IsInternalTag "attr::name::value" "name" := (C06_internal_tag_regex _ _).mp (by decide)
example : IsMarkerShaped "attr::marker" := (isAttrOperator_iff _).mp (by decide)
example : IsMarkerShaped "attr:::marker" := (isAttrOperator_iff _).mp (by decide)
example : ¬ IsMarkerShaped "attr:marker" := fun h => absurd ((isAttrOperator_iff _).mpr h) (by decide)

example : eval sampleLegacy revealed cred (.and [.eq "schema_name" "gvt", .eq "attr::name::value" "Alex"]) = true := by decide
example : eval sampleLegacy revealed cred (.eq "attr::name::value" "Bob") = false := by decide
example : eval sampleLegacy revealed cred (.eq "attr::age::value" "whatever") = true := by decide
example : eval sampleLegacy revealed cred (.eq "attr::height::value" "1") = false := by decide
example : eval sampleLegacy revealed cred (.eq "attr::height::marker" "1") = true := by decide
example : eval sampleLegacy revealed cred (.eq "attr::name::marker" "1") = false := by decide
example : eval sampleLegacy revealed cred (.eq "issuer_did" "NcYxiDXkpYi6ov5FcYDi1e") = true := by decide
example : eval sampleLegacy revealed cred (.eq "schema_issuer_did" "did:ex:1") = false := by decide
example : eval sampleLegacy revealed cred (.eq "schema_issuer_id" "did:ex:1") = true := by decide
example : eval sampleLegacy revealed cred (.isIn "cred_def_id" ["x", "NcYxiDXkpYi6ov5FcYDi1e:3:CL:1:tag"]) = true := by decide
example : eval sampleLegacy revealed cred (.isIn "cred_def_id" []) = false := by decide
example : eval sampleLegacy revealed cred (.neq "no_such_tag" "x") = true := by decide
example : eval sampleLegacy revealed cred (.eq "no_such_tag" "x") = false := by decide
example : eval sampleLegacy revealed cred (.or [.gt "attr::age::value" "18", .exist ["name"]]) = false := by decide
example : eval sampleLegacy revealed cred (.not (.or [.eq "schema_name" "other", .eq "schema_version" "2.0"])) = true := by decide
example : Sat sampleLegacy revealed cred (.and [.eq "schema_name" "gvt", .neq "schema_version" "2.0"]) :=
  (C06_eval_iff_sat _ _ _ _).mp (by decide)
example : ¬ Sat sampleLegacy revealed cred (.eq "schema_name" "other") :=
  fun h => absurd ((C06_eval_iff_sat _ _ _ _).mpr h) (by decide)

end AnonModel.Query

import AnonModel.Lemmas.Tails
/-!
# C19 — tails files are content-addressed, readable back, published atomically

Property theorems only (machine invariant and helpers are in `Lemmas/Tails.lean`).

The writer theorems quantify over **all** fault schedules `faults : Nat → Fault` (at every
step: succeed, return an error, or crash; how much buffered data has reached the file; whether
the guard's `remove_file` fails too), all step counts `k` (every reachable state, including
the state a crash leaves behind), all tails lists, all initial directories.

**Partial by nature.** The model is a process-abort model over an abstract directory:
* durability across power loss is not exhibited — the Rust code never calls `fsync`, so after
  a power cut the final name may exist with missing data; the property as stated ("at any
  crash point") is proved for process crashes only;
* the atomicity of `rename(2)` is an assumption (`dirRename` is one step);
* that the streaming `Sha256::update` calls hash the concatenation of their inputs, and that
  `Model/Sha256.lean` is the function the `sha2` crate computes, are tied by the
  correspondence runs only.
-/
namespace AnonModel.Tails

/-- the file content is the two-byte version tag `[0,2]` followed by the tails in generation
order, and (for tails of `size` bytes each) is `2 + size * n` bytes long -/
theorem C19_content_layout (size : Nat) (tails : List (List UInt8))
    (hsz : ∀ t ∈ tails, t.length = size) :
    fileBytes tails = [0, 2] ++ tails.flatten ∧ (fileBytes tails).length = 2 + size * tails.length :=
  ⟨rfl, fileBytes_length size tails hsz⟩

/-- reading tail `k` at offset `size * k + 2` yields the `k`-th generated tail, for every number of
tails and every `k` in range (`read_exact` succeeds) -/
theorem C19_read_back (size : Nat) (tails : List (List UInt8)) (k : Nat) (hk : k < tails.length)
    (hsz : ∀ t ∈ tails, t.length = size) :
    readTail size (fileBytes tails) k = some tails[k] := by
  have h := readSlice_fileBytes size tails k hk hsz
  have hl : tails[k].length = size := hsz _ (List.getElem_mem hk)
  simp [readTail, h, hl]

/-- the same for the raw slice `(bytes.drop (2 + size*k)).take size` -/
theorem C19_read_back_slice (size : Nat) (tails : List (List UInt8)) (k : Nat) (hk : k < tails.length)
    (hsz : ∀ t ∈ tails, t.length = size) :
    ((fileBytes tails).drop (2 + size * k)).take size = tails[k] :=
  readSlice_fileBytes size tails k hk hsz

/-- an index past the end is an error of the reader, not some other tail -/
theorem C19_read_out_of_range (size : Nat) (tails : List (List UInt8)) (k : Nat)
    (hk : tails.length ≤ k) (hpos : 0 < size) (hsz : ∀ t ∈ tails, t.length = size) :
    readTail size (fileBytes tails) k = none := by
  have hl := fileBytes_length size tails hsz
  have : size * tails.length ≤ size * k := Nat.mul_le_mul_left _ hk
  have hd : (fileBytes tails).drop (TAG_SZ + size * k) = [] := List.drop_eq_nil_of_le (by omega)
  simp only [readTail, readSlice, hd, List.take_nil, List.length_nil]
  rw [if_neg (by omega)]

/-- whenever `write` returns `Ok((location, hash))`: `hash` is the base58 SHA-256 of the file
bytes, the last component of `location` is that same string (and its parent the writer's
root), and the directory holds exactly the file bytes under that name -/
theorem C19_name_is_hash (e : Env) (dir0 : Dir) (faults : Nat → Fault) (k : Nat)
    (loc : Location) (h : String) (hs : (runW e faults k (init dir0)).status = .ok loc h) :
    h = base58 (sha256 (fileBytes e.tails)) ∧ loc.file = h ∧ loc.parent = e.root ∧
      dirGet (runW e faults k (init dir0)).dir h = some (fileBytes e.tails) := by
  obtain ⟨h1, h2, h3, _, _⟩ := (inv_run e dir0 faults k).ok loc h hs
  subst h2
  exact ⟨h1, rfl, rfl, h3⟩

/-- the temporary name can never collide with a final name (`.` is not a base58 character) -/
theorem C19_temp_ne_final (e : Env) (tails : List (List UInt8)) : e.temp ≠ fileName tails :=
  tempName_ne_base58 _ _

/-- **atomic publication**: under every fault schedule, in every reachable directory state
(also the one a crash leaves behind) the final name is absent or holds the complete content,
provided that was so initially -/
theorem C19_final_atomic (e : Env) (dir0 : Dir) (faults : Nat → Fault) (k : Nat)
    (h0 : dirGet dir0 (fileName e.tails) = none ∨ dirGet dir0 (fileName e.tails) = some (fileBytes e.tails)) :
    dirGet (runW e faults k (init dir0)).dir (fileName e.tails) = none ∨
    dirGet (runW e faults k (init dir0)).dir (fileName e.tails) = some (fileBytes e.tails) := by
  rcases (inv_run e dir0 faults k).final with h | h
  · rw [h]; exact h0
  · exact Or.inr h

/-- without any assumption on the initial directory: the final name holds what it held before
the call, or the complete content -/
theorem C19_final_untouched_or_complete (e : Env) (dir0 : Dir) (faults : Nat → Fault) (k : Nat) :
    dirGet (runW e faults k (init dir0)).dir (fileName e.tails) = dirGet dir0 (fileName e.tails) ∨
    dirGet (runW e faults k (init dir0)).dir (fileName e.tails) = some (fileBytes e.tails) :=
  (inv_run e dir0 faults k).final

/-- no other name of the directory is ever touched -/
theorem C19_other_names_untouched (e : Env) (dir0 : Dir) (faults : Nat → Fault) (k : Nat)
    (name : String) (h1 : name ≠ e.temp) (h2 : name ≠ fileName e.tails) :
    dirGet (runW e faults k (init dir0)).dir name = dirGet dir0 name :=
  (inv_run e dir0 faults k).frame name h1 h2

/-- in every reachable state the temporary file is absent or holds a prefix of the file bytes
(for a temp name that was free initially) -/
theorem C19_temp_is_prefix (e : Env) (dir0 : Dir) (faults : Nat → Fault) (k : Nat)
    (hfresh : dirGet dir0 e.temp = none) :
    dirGet (runW e faults k (init dir0)).dir e.temp = none ∨
    ∃ c, dirGet (runW e faults k (init dir0)).dir e.temp = some c ∧ c <+: fileBytes e.tails := by
  rcases (inv_run e dir0 faults k).temp with h | h | h
  · rw [h]; exact Or.inl hfresh
  · exact Or.inl h
  · exact Or.inr h

/-- **error path**: if the run returns `Err` (not a crash) and the guard's own `remove_file`
did not fail, the directory is exactly as it was found — every name, in particular … -/
theorem C19_err_leaves_dir_unchanged (e : Env) (dir0 : Dir) (faults : Nat → Fault) (k : Nat)
    (herr : (runW e faults k (init dir0)).status = .err)
    (hrm : ∀ j, j < k → (faults j).removeFails = false) (name : String) :
    dirGet (runW e faults k (init dir0)).dir name = dirGet dir0 name := by
  rcases (inv_run e dir0 faults k).err herr with ⟨j, hj, h⟩ | h
  · rw [hrm j hj] at h; cases h
  · exact h name

/-- … no temporary file of this run is left behind (a temp name that already existed makes
`create_new` fail and is not touched: `C19_err_leaves_dir_unchanged`) -/
theorem C19_no_temp_after_error (e : Env) (dir0 : Dir) (faults : Nat → Fault) (k : Nat)
    (herr : (runW e faults k (init dir0)).status = .err)
    (hrm : ∀ j, j < k → (faults j).removeFails = false)
    (hfresh : dirGet dir0 e.temp = none) :
    dirGet (runW e faults k (init dir0)).dir e.temp = none := by
  rw [C19_err_leaves_dir_unchanged e dir0 faults k herr hrm]; exact hfresh

/-- **success path**: if every step succeeds the run returns `Ok((root/hash, hash))`, the final
name maps to the file bytes and the temporary name is gone -/
theorem C19_success_publishes (e : Env) (dir0 : Dir) (faults : Nat → Fault)
    (hok : ∀ j, (faults j).outcome = .ok) (hfresh : dirGet dir0 e.temp = none) :
    let st := runW e faults (totalSteps e) (init dir0)
    st.status = .ok ⟨e.root, fileName e.tails⟩ (fileName e.tails) ∧
    dirGet st.dir (fileName e.tails) = some (fileBytes e.tails) ∧
    dirGet st.dir e.temp = none := by
  intro st
  have hs := run_ok_final e dir0 faults hok hfresh
  obtain ⟨_, _, h3, h4, _⟩ := (inv_run e dir0 faults (totalSteps e)).ok _ _ hs
  exact ⟨hs, h3, h4⟩

/-! ### non-vacuity -/

/-- an environment and directory satisfying the freshness hypotheses -/
example : dirGet [] (Env.temp ⟨"/tmp", 7, [[1], [2]]⟩) = none := rfl
example : dirGet [] (fileName [[1], [2]]) = none ∨ dirGet [] (fileName [[1], [2]]) = some (fileBytes [[1], [2]]) :=
  Or.inl rfl

/-- `Err` is reachable (fault at `create`) … -/
example : (runW ⟨"/tmp", 7, [[1], [2]]⟩ (fun _ => ⟨.error, 0, false⟩) 1 (init [])).status = .err := by
  simp [runW, stepW, init, dirGet]

/-- … and later: a failing `header` write runs the guard and removes the temp file -/
example : (runW ⟨"/tmp", 7, [[1], [2]]⟩ (fun j => if j = 1 then ⟨.error, 1, false⟩ else okFault) 2 (init [])).status = .err := by
  simp [runW, stepW, init, dirGet, bufStep, errPath, okFault]

/-- a crash is reachable, leaving a partial temp file -/
example : dirGet (runW ⟨"/tmp", 7, [[1], [2]]⟩ (fun j => if j = 1 then ⟨.crash, 1, false⟩ else okFault) 2 (init [])).dir
    (Env.temp ⟨"/tmp", 7, [[1], [2]]⟩) = some [0] := by
  simp [runW, stepW, init, dirGet, bufStep, okFault, dirPut, dirDel, partialContent, versionTag]

/-- `Ok` is reachable: `C19_success_publishes` with the fault-free schedule -/
example : (runW ⟨"/tmp", 7, [[1], [2]]⟩ (fun _ => okFault) 7 (init [])).status =
    .ok ⟨"/tmp", fileName [[1], [2]]⟩ (fileName [[1], [2]]) :=
  (C19_success_publishes ⟨"/tmp", 7, [[1], [2]]⟩ [] (fun _ => okFault) (fun _ => rfl) rfl).1

/-- read-back hypotheses are satisfiable; both sides of the range boundary -/
example : readTail 2 (fileBytes [[1, 2], [3, 4]]) 1 = some [3, 4] := by decide
example : readTail 2 (fileBytes [[1, 2], [3, 4]]) 2 = none := by decide

/-- if `remove_file` fails as well, the temp file does stay (the hypothesis of
`C19_no_temp_after_error` is needed) -/
example : dirGet (runW ⟨"/tmp", 7, []⟩ (fun j => if j = 1 then ⟨.error, 0, true⟩ else okFault) 2 (init [])).dir
    (Env.temp ⟨"/tmp", 7, []⟩) = some [] := by
  simp [runW, stepW, init, dirGet, bufStep, errPath, okFault, dirPut, dirDel, partialContent, versionTag]

end AnonModel.Tails

import AnonModel.Model.ProofDoc
import AnonModel.Model.Convert
/-!
# C14 — the stored document of a W3C credential still is that credential

"either form can be presented … conversion … preserves … its signature material": a W3C credential is handed over
and stored as a JSON document; what the library finds in the `proof` member after reading the document back decides
whether conversion and presentation are possible at all (`Convert.W3CMeta.signatureProofOk`, until now a ghost
input of the conversion model, is computed here from the document).
-/
namespace AnonModel.ProofDoc

/-! ## helper lemmas -/

theorem emitCP_parseCP (e : Entry) : emitCP (parseCP e) = e := by
  cases e with
  | sc s => cases s <;> rfl
  | nested _ => rfl

theorem anonOfCP_parseCP (e : Entry) : anonOfCP (parseCP e) = anonOfEntry e := by
  cases e with
  | sc s => cases s <;> rfl
  | nested _ => rfl

theorem map_emit_parse (es : List Entry) : (es.map parseCP).map emitCP = es := by
  induction es with
  | nil => rfl
  | cons e es ih => simp [emitCP_parseCP, ih]

theorem findSome_map_parse (es : List Entry) :
    (es.map parseCP).findSome? anonOfCP = es.findSome? anonOfEntry := by
  induction es with
  | nil => rfl
  | cons e es ih => simp [List.findSome?, anonOfCP_parseCP, ih]

/-! ## property theorems -/

/-- serialising what was read gives the document back (no spelling is normalised away: an array of one stays an
array, a single object stays a single object) -/
theorem C14_doc_reserialise (d : Doc) : emit (parse d) = some d := by
  cases d with
  | arr es => simp only [parse, emit, map_emit_parse]
  | val s => cases s <;> rfl

/-- no document parses to the shape `emit` cannot name -/
theorem parse_no_one_nested (d : Doc) (k : Nat) : parse d ≠ .one (.non (.nested k)) := by
  cases d with
  | arr es => simp [parse]
  | val s => cases s <;> simp [parse, parseCP]

/-- reading is stable: read, write, read again is the first reading -/
theorem C14_doc_parse_emit_parse (d : Doc) : (emit (parse d)).map parse = some (parse d) := by
  simp [C14_doc_reserialise]

/-- **what the library finds is what the document shows**: the AnonCreds proof used is the first one in the
document, in every spelling -/
theorem C14_doc_find (d : Doc) : find (parse d) = firstAnon d := by
  cases d with
  | arr es => simp [parse, find, firstAnon, findSome_map_parse]
  | val s => cases s <;> rfl

/-- the signature proof is available iff the first AnonCreds proof of the document is an assertion holding a
credential signature — and it is that proof's value -/
theorem C14_doc_signature_iff (d : Doc) (i : Nat) :
    sigProof (parse d) = some i ↔ ∃ a, firstAnon d = some a ∧ a.purpose = .assertion ∧ a.kind = .signature ∧ a.id = i := by
  unfold sigProof
  rw [C14_doc_find]
  cases h : firstAnon d with
  | none => simp
  | some a =>
    simp only [Option.bind_some, sigOf, Option.some.injEq, exists_eq_left']
    constructor
    · intro hs
      split at hs
      · next hc => exact ⟨hc.1, hc.2, by simpa using hs⟩
      · simp at hs
    · rintro ⟨h1, h2, h3⟩
      simp [h1, h2, h3]

/-- the three spellings of "this credential has exactly this one AnonCreds proof" are read alike: the array of one
(what the library emits), the single object, and the proof after any number of foreign proofs or nested arrays -/
theorem C14_doc_spellings (a : Anon) (fs rest : List Entry) (hfs : ∀ e ∈ fs, anonOfEntry e = none) :
    find (parse (.val (.anon a))) = some a ∧
    find (parse (.arr [.sc (.anon a)])) = some a ∧
    find (parse (.arr (fs ++ .sc (.anon a) :: rest))) = some a := by
  refine ⟨rfl, rfl, ?_⟩
  rw [C14_doc_find]
  simp only [firstAnon]
  induction fs with
  | nil => simp [List.findSome?, anonOfEntry]
  | cons f fs ih =>
    have hf : anonOfEntry f = none := hfs f (by simp)
    simp only [List.cons_append, List.findSome?, hf]
    exact ih (fun e he => hfs e (by simp [he]))

/-- **a credential the library built survives its own document**: issued or converted (`W3CCredential::new`), written
out and read back, its signature proof is still found and is the same one -/
theorem C14_doc_new_credential_survives (i : Nat) :
    ∃ d, emit (newCredential i) = some d ∧ parse d = newCredential i ∧ sigProof (parse d) = some i :=
  ⟨.arr [.sc (.anon ⟨.assertion, .signature, i⟩)], rfl, rfl, rfl⟩

/-- and so does a credential inside a presentation (`W3CCredential::derive`) -/
theorem C14_doc_derived_credential_survives (i : Nat) :
    ∃ d, emit (derivedCredential i) = some d ∧ parse d = derivedCredential i ∧ presProof (parse d) = some i ∧ sigProof (parse d) = none :=
  ⟨.val (.anon ⟨.assertion, .credPresentation, i⟩), rfl, rfl, rfl, rfl⟩

/-- only the first AnonCreds proof counts: a signature proof behind a presentation proof is not consulted -/
theorem C14_doc_first_only (a b : Anon) (h : sigOf a = none) (rest : List Entry) :
    sigProof (parse (.arr (.sc (.anon a) :: .sc (.anon b) :: rest))) = none := by
  simp [sigProof, parse, find, parseCP, List.findSome?, anonOfCP, h]

/-- a document without an AnonCreds proof has neither proof, whatever else it holds -/
theorem C14_doc_foreign_only (d : Doc) (h : firstAnon d = none) : sigProof (parse d) = none ∧ presProof (parse d) = none := by
  simp [sigProof, presProof, C14_doc_find, h]

/-! ## the conversion model with the ghost input computed from the document -/

open AnonModel.Convert in
/-- `credential_from_w3c` on a credential read from a document whose `proof` member has shape `d` -/
def fromW3CDoc (m : Convert.W3CMeta) (d : Doc) (subj : Convert.Subject) : Option Convert.Values :=
  Convert.fromW3C { m with signatureProofOk := (sigProof (parse d)).isSome } subj

/-- a stored credential that the library built converts back exactly as the live object does -/
theorem C14_doc_conversion_of_stored (m : Convert.W3CMeta) (i : Nat) (subj : Convert.Subject) (d : Doc)
    (hd : emit (newCredential i) = some d) :
    fromW3CDoc m d subj = Convert.fromW3C { m with signatureProofOk := true } subj := by
  have : d = .arr [.sc (.anon ⟨.assertion, .signature, i⟩)] := by
    simpa [emit, newCredential, emitCP] using hd.symm
  subst this
  rfl

/-- a document whose first AnonCreds proof is not a credential signature is refused -/
theorem C14_doc_conversion_refused (m : Convert.W3CMeta) (d : Doc) (subj : Convert.Subject)
    (h : sigProof (parse d) = none) : fromW3CDoc m d subj = none := by
  unfold fromW3CDoc Convert.fromW3C
  simp [h]

/-! non-vacuity -/
example : sigProof (parse (.arr [.sc (.other 3), .nested 1, .sc (.anon ⟨.assertion, .signature, 7⟩)])) = some 7 := by decide
example : sigProof (parse (.arr [.sc (.anon ⟨.authentication, .signature, 1⟩), .sc (.anon ⟨.assertion, .signature, 7⟩)])) = none := by decide
example : presProof (parse (.val (.anon ⟨.assertion, .credPresentation, 2⟩))) = some 2 := by decide

end AnonModel.ProofDoc

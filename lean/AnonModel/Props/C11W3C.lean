import AnonModel.Model.IssuanceW3C
import AnonModel.Lemmas.Flows
import AnonModel.Props.C11
/-!
# C11, W3C form

`createCredentialW3C` / `processCredentialW3C` are the legacy functions after `CredentialSubject::encode`;
the statements below lift `C11_issue_ok_iff` / `C11_process_ok_iff` through that encoding and add what is
specific to the W3C form: a boolean subject entry is never signed and never accepted, whatever else holds.
-/
namespace AnonModel.IssuanceW3C
open AnonModel AnonModel.Issuance AnonModel.Convert AnonModel.Flows
open AnonModel.VerifierW3C (SubjVal)

/-- no entry of the subject is a boolean -/
def NoBool (s : Subject) : Prop := ∀ nv ∈ s, ∀ b, nv.2 ≠ .bool b

/-- the values the CL layer is handed for a subject without booleans -/
def signedValues (s : Subject) : List (String × String) := encodedOf (s.map encEntry)

theorem encode_of_noBool {s : Subject} (h : NoBool s) : subjectEncode s = some (s.map encEntry) :=
  (subjectEncode_eq_some_iff s _).mpr ⟨h, rfl⟩

theorem encode_of_bool {s : Subject} (h : ¬ NoBool s) : subjectEncode s = none := by
  cases he : subjectEncode s with
  | none => rfl
  | some v => exact absurd ((subjectEncode_eq_some_iff s v).mp he).1 h

theorem create_of_noBool (cd : CredDef) (offer : Offer) (req : CredRequest) {s : Subject} (h : NoBool s) :
    createCredentialW3C cd offer req s =
      (createCredential cd offer req (signedValues s)).map (fun c => { subject := s, sig := c.sig }) := by
  unfold createCredentialW3C signedValues
  rw [encode_of_noBool h]
  simp only
  cases hc : createCredential cd offer req (encodedOf (s.map encEntry)) <;> simp

theorem create_of_bool (cd : CredDef) (offer : Offer) (req : CredRequest) {s : Subject} (h : ¬ NoBool s) :
    createCredentialW3C cd offer req s = none := by
  unfold createCredentialW3C
  rw [encode_of_bool h]

theorem process_of_noBool (c : CredentialW3C) (sp : Bool) (m : ReqMeta) (holder : Nat) (cd : CredDef)
    (h : NoBool c.subject) :
    processCredentialW3C c sp m holder cd =
      (sp && processCredential { values := signedValues c.subject, sig := c.sig } m holder cd) := by
  unfold processCredentialW3C signedValues
  rw [encode_of_noBool h]

theorem process_of_bool (c : CredentialW3C) (sp : Bool) (m : ReqMeta) (holder : Nat) (cd : CredDef)
    (h : ¬ NoBool c.subject) : processCredentialW3C c sp m holder cd = false := by
  unfold processCredentialW3C
  rw [encode_of_bool h]

/-- **W3C issuance succeeds iff** no subject entry is a boolean and the legacy conditions hold for the
encoded subject: entropy / prover DID present, correctness proof intact, made for this key and under
this offer's nonce, and the subject names exactly the schema's attributes. -/
theorem C11_w3c_issue_ok_iff (cd : CredDef) (offer : Offer) (req : CredRequest) (s : Subject) :
    (createCredentialW3C cd offer req s).isSome = true ↔
      NoBool s ∧ (entropyOf req).isSome = true ∧ req.blinded.intact = true ∧ req.blinded.key = cd.key ∧
      req.blinded.proofNonce = offer.nonce ∧ SameNames (signedValues s) cd := by
  by_cases h : NoBool s
  · rw [create_of_noBool cd offer req h, Option.isSome_map, C11_issue_ok_iff]
    exact ⟨fun x => ⟨h, x⟩, fun x => x.2⟩
  · rw [create_of_bool cd offer req h]
    simp [h]

/-- **a boolean entry is never signed** (whatever its value, whatever the rest of the input) -/
theorem C11_w3c_issue_boolean_refused (cd : CredDef) (offer : Offer) (req : CredRequest) {s : Subject}
    {nv : String × SubjVal} {b : Bool} (hm : nv ∈ s) (hb : nv.2 = .bool b) :
    createCredentialW3C cd offer req s = none :=
  create_of_bool cd offer req (fun h => h nv hm b hb)

/-- the issued credential shows the subject as given and its signature is the legacy one over the
encoded subject -/
theorem C11_w3c_issue_returns {cd : CredDef} {offer : Offer} {req : CredRequest} {s : Subject}
    {c : CredentialW3C} (h : createCredentialW3C cd offer req s = some c) :
    c.subject = s ∧ NoBool s ∧
      ∃ lc, createCredential cd offer req (signedValues s) = some lc ∧ c.sig = lc.sig := by
  by_cases hnb : NoBool s
  · rw [create_of_noBool cd offer req hnb] at h
    cases hc : createCredential cd offer req (signedValues s) with
    | none => rw [hc] at h; cases h
    | some lc =>
      rw [hc] at h
      simp only [Option.map_some, Option.some.injEq] at h
      subst h
      exact ⟨rfl, hnb, lc, rfl, rfl⟩
  · rw [create_of_bool cd offer req hnb] at h; cases h

/-- **W3C processing succeeds iff** no subject entry is a boolean, the proof holds a credential
signature, and the legacy conditions hold for the encoded subject. -/
theorem C11_w3c_process_ok_iff (c : CredentialW3C) (sp : Bool) (m : ReqMeta) (holder : Nat) (cd : CredDef) :
    processCredentialW3C c sp m holder cd = true ↔
      NoBool c.subject ∧ sp = true ∧
      processCredential { values := signedValues c.subject, sig := c.sig } m holder cd = true := by
  by_cases h : NoBool c.subject
  · rw [process_of_noBool c sp m holder cd h, Bool.and_eq_true]
    exact ⟨fun x => ⟨h, x⟩, fun x => x.2⟩
  · rw [process_of_bool c sp m holder cd h]
    simp [h]

/-- **a boolean entry spliced into an issued credential is rejected** -/
theorem C11_w3c_process_boolean_rejected {c : CredentialW3C} (sp : Bool) (m : ReqMeta) (holder : Nat) (cd : CredDef)
    {nv : String × SubjVal} {b : Bool} (hm : nv ∈ c.subject) (hb : nv.2 = .bool b) :
    processCredentialW3C c sp m holder cd = false :=
  process_of_bool c sp m holder cd (fun h => h nv hm b hb)

/-- **honest W3C round trip**: request, W3C issuance, processing with the same metadata, link secret
and definition succeeds (names pairwise distinct after normalisation, as in the legacy statement). -/
theorem C11_w3c_honest_roundtrip {entropy proverDid : Option String} {cd : CredDef} {holder blinding : Nat}
    {reqNonce : String} {offer : Offer} {req : CredRequest} {m : ReqMeta} {s : Subject} {c : CredentialW3C}
    (hreq : createCredentialRequest entropy proverDid cd holder blinding reqNonce offer = some (req, m))
    (hiss : createCredentialW3C cd offer req s = some c)
    (hnd : ((signedValues s).map (fun nv => Names.commonView nv.1)).Nodup) :
    processCredentialW3C c true m holder cd = true := by
  obtain ⟨hs, hnb, lc, hlc, hsig⟩ := C11_w3c_issue_returns hiss
  rw [C11_w3c_process_ok_iff, hs]
  refine ⟨hnb, rfl, ?_⟩
  have h := C11_honest_roundtrip hreq hlc hnd
  have hv : lc.values = signedValues s := (C11_issue_returns hlc).1
  have : ({ values := signedValues s, sig := c.sig } : Credential) = lc := by
    cases lc; simp only at hv hsig; simp [hv, hsig]
  rw [this]; exact h

/-- a subject entry added after issuance (string or number) is rejected: lifted from the legacy
statement through the encoding -/
theorem C11_w3c_tamper_rejected_other_holder {entropy proverDid : Option String} {cd : CredDef} {holder blinding : Nat}
    {reqNonce : String} {offer : Offer} {req : CredRequest} {m : ReqMeta} {s : Subject} {c : CredentialW3C}
    (hreq : createCredentialRequest entropy proverDid cd holder blinding reqNonce offer = some (req, m))
    (hiss : createCredentialW3C cd offer req s = some c) {other : Nat} (ho : other ≠ holder) (sp : Bool) :
    processCredentialW3C c sp m other cd = false := by
  obtain ⟨hs, hnb, lc, hlc, hsig⟩ := C11_w3c_issue_returns hiss
  have hl := C11_tamper_rejected_other_holder hreq hlc ho
  have hv : lc.values = signedValues s := (C11_issue_returns hlc).1
  have hc : ({ values := signedValues c.subject, sig := c.sig } : Credential) = lc := by
    cases lc; simp only at hv hsig; simp [hs, hv, hsig]
  cases hp : processCredentialW3C c sp m other cd with
  | false => rfl
  | true =>
    have := ((C11_w3c_process_ok_iff c sp m other cd).mp hp).2.2
    rw [hc, hl] at this; cases this

/-! ### non-vacuity -/
private def cd0 : CredDef := { id := "did:web:x/cd", key := 1, schemaAttrs := ["First Name", "age"] }
private def blinded0 : Blinded := { key := 1, holder := 7, blinding := 9, proofNonce := "111", intact := true }
private def req0 : CredRequest := { entropy := some "e", proverDid := none, blinded := blinded0, nonce := "222" }
private def offer0 : Offer := { nonce := "111" }
private def meta0 : ReqMeta := { blinding := 9, nonce := "222" }
private def subj0 : Subject := [("firstname", .num 42), ("age", .num 28)]

example : (createCredentialW3C cd0 offer0 req0 subj0).isSome = true := by decide
example : (createCredentialW3C cd0 offer0 req0 (("vip", .bool true) :: subj0)).isSome = false := by decide
example : (createCredentialW3C cd0 offer0 req0 (("vip", .num 1) :: subj0)).isSome = false := by decide
example : ∀ c, createCredentialW3C cd0 offer0 req0 subj0 = some c → processCredentialW3C c true meta0 7 cd0 = true := by
  decide
example : ∀ c, createCredentialW3C cd0 offer0 req0 subj0 = some c →
    processCredentialW3C { c with subject := ("vip", .bool true) :: c.subject } true meta0 7 cd0 = false := by
  decide
example : ∀ c, createCredentialW3C cd0 offer0 req0 subj0 = some c → processCredentialW3C c false meta0 7 cd0 = false := by
  decide

end AnonModel.IssuanceW3C

import AnonModel.Lemmas.VerifierW3C
import AnonModel.Props.C13
/-!
# C03 (W3C form) — every value an accepted W3C presentation exposes is the value the issuer
signed, and its credentials name the issuer / definition that signed them

Property theorems only (helpers: `Lemmas/VerifierW3C.lean`; `C13_normalize_encode` from
`Props/C13.lean`). `c.sub.cred` is the (ghost) credential the sub-proof of `c` was built from:
`c.sub.cred.attrs` maps normalised attribute names to the encoded values the issuer signed,
`c.sub.cred.key` is the signing key. `Encode.encode` is `encode_credential_attribute`.

The tree has `check_credential_subjects` (fix commit "reject W3C presentations whose credential
subject is not backed by the proof": every subject entry is checked, not only the requested ones),
so finding F6 ("subject values not in the proof ride along") is closed and `C03_w3c_subject` is
proved in full, for every entry of every credential.
-/
namespace AnonModel.VerifierW3C
open AnonModel.Verifier AnonModel.IdealCL AnonModel

/-- **issuer and definition**: every credential of an accepted presentation is sound — in
particular `issuer` is the issuer of, and `verificationMethod` is the id of, the credential
definition the verifier supplied for `cred_def_id`, *and the key of that definition is the one that
signed the credential behind the sub-proof* (`c.sub.cred.key = cd.key`) -/
theorem C03_w3c_issuer {ctx : Ctx} {r : Request} {p : Presentation}
    (h : verifyW3C ctx r p = .ok true) : ∀ c ∈ p.creds, CredSound ctx c :=
  fun _ hc => credSound_of_ok h hc

/-- **subject values**: in an accepted presentation every string or number of a credential subject
is revealed by the credential's sub-proof under a name of the same normal form, with exactly the
encoding of that string/number, and that is the value the issuer signed; every boolean (predicate
marker) is backed by a predicate on that attribute which the sub-proof proves and which is true of
the signed value -/
theorem C03_w3c_subject {ctx : Ctx} {r : Request} {p : Presentation}
    (h : verifyW3C ctx r p = .ok true) :
    ∀ c ∈ p.creds, ∀ k v, (k, v) ∈ c.subject →
      ((∀ b, v ≠ .bool b) →
        ∃ kv ∈ c.sub.revealed, Names.commonView kv.1 = Names.commonView k ∧
          kv.2 = Encode.encode v.toStr ∧ c.sub.cred.attrs.lookup kv.1 = some kv.2) ∧
      (∀ b, v = .bool b →
        ∃ pr ∈ c.sub.preds, Names.commonView pr.attr = Names.commonView k ∧
          predHolds c.sub.cred.attrs pr = true) := by
  intro c hc k v hkv
  obtain ⟨_, _, _, hsub, _⟩ := verifyW3C_ok_true_iff.mp h
  obtain ⟨_, _, _, _, _, _, _, hrev, hpreds, _⟩ := credSound_of_ok h hc
  constructor
  · intro hnb
    obtain ⟨kv, hm, hn, he⟩ := revealedValueOk_mem (subjectsOk_value hsub hc hkv hnb)
    rw [Encode.C13_normalize_encode] at he
    exact ⟨kv, hm, hn, he.symm, hrev kv hm⟩
  · rintro b rfl
    obtain ⟨pr, hm, hn⟩ := subjectsOk_marker hsub hc hkv
    exact ⟨pr, hm, hn, hpreds pr hm⟩

/-- the same, read off the signed credential: for every string/number subject entry `(k, v)` the
issuer-signed credential has the attribute `commonView k` with value `encode v` -/
theorem C03_w3c_subject_signed {ctx : Ctx} {r : Request} {p : Presentation}
    (h : verifyW3C ctx r p = .ok true) {c : Cred} (hc : c ∈ p.creds) {k : String} {v : SubjVal}
    (hkv : (k, v) ∈ c.subject) (hnb : ∀ b, v ≠ .bool b) :
    c.sub.cred.attrs.lookup (Names.commonView k) = some (Encode.encode v.toStr) := by
  obtain ⟨kv, hm, hn, he, hl⟩ := (C03_w3c_subject h c hc k v hkv).1 hnb
  obtain ⟨_, _, _, _, hpc⟩ := ok_cred_facts h hc
  have := (paramsConsistent_iff.mp hpc).1 kv hm
  rw [← hn, this, hl, he]

/-- **altered value rejected**: if a credential subject shows a string/number `v` under `k`, but
the credential behind the sub-proof has no attribute of that normal-form name whose signed value is
`encode v` (the value was changed after the proof was made, or moved to another credential), the
presentation is not accepted -/
theorem C03_w3c_altered_rejected {ctx : Ctx} {r : Request} {p : Presentation} {c : Cred}
    {k : String} {v : SubjVal} (hc : c ∈ p.creds) (hkv : (k, v) ∈ c.subject)
    (hnb : ∀ b, v ≠ .bool b)
    (hno : ∀ a, Names.commonView a = Names.commonView k →
      c.sub.cred.attrs.lookup a ≠ some (Encode.encode v.toStr)) :
    verifyW3C ctx r p ≠ .ok true := by
  intro h
  obtain ⟨kv, _, hn, he, hl⟩ := (C03_w3c_subject h c hc k v hkv).1 hnb
  exact hno kv.1 hn (he ▸ hl)

/-- **added entry rejected**: a subject entry (value or marker) whose name is, up to
normalisation, not an attribute of the credential behind the sub-proof ⇒ not accepted -/
theorem C03_w3c_added_rejected {ctx : Ctx} {r : Request} {p : Presentation} {c : Cred}
    {k : String} {v : SubjVal} (hc : c ∈ p.creds) (hkv : (k, v) ∈ c.subject)
    (hno : ∀ a ∈ c.sub.cred.attrs.map Prod.fst, Names.commonView a ≠ Names.commonView k) :
    verifyW3C ctx r p ≠ .ok true := by
  intro h
  cases v with
  | bool b =>
    obtain ⟨pr, _, hn, hh⟩ := (C03_w3c_subject h c hc k _ hkv).2 b rfl
    exact hno pr.attr (predHolds_mem_keys hh) hn
  | str s =>
    refine C03_w3c_altered_rejected hc hkv (fun b hb => by cases hb) ?_ h
    intro a ha hl
    exact hno a (lookup_some_mem_keys hl) ha
  | num n =>
    refine C03_w3c_altered_rejected hc hkv (fun b hb => by cases hb) ?_ h
    intro a ha hl
    exact hno a (lookup_some_mem_keys hl) ha

/-- a W3C credential that names another issuer than the supplied definition ⇒ not accepted -/
theorem C03_w3c_wrong_issuer_rejected {ctx : Ctx} {r : Request} {p : Presentation} {c : Cred}
    {cd : CredDefInfo} (hc : c ∈ p.creds) (hcd : ctx.credDefs.lookup c.credDefId = some cd)
    (hne : cd.issuerId ≠ c.issuer) : verifyW3C ctx r p ≠ .ok true := by
  intro h
  obtain ⟨cd', _, hcd', _, _, _, _, _, _, hi, _⟩ := C03_w3c_issuer h c hc
  rw [hcd] at hcd'
  simp only [Option.some.injEq] at hcd'
  subst hcd'
  exact hne hi

/-- a W3C credential whose proof's verification method is not its `cred_def_id` ⇒ not accepted -/
theorem C03_w3c_wrong_method_rejected {ctx : Ctx} {r : Request} {p : Presentation} {c : Cred}
    (hc : c ∈ p.creds) (hne : c.verificationMethod ≠ c.credDefId) :
    verifyW3C ctx r p ≠ .ok true := by
  intro h
  obtain ⟨_, _, _, _, _, _, _, _, _, _, hm⟩ := C03_w3c_issuer h c hc
  exact hne hm

/-! ### non-vacuity -/

set_option maxRecDepth 100000 in
/-- accepted presentation whose credential has a string entry and a marker -/
example : verifyW3C Demo.ctx Demo.req Demo.pres = .ok true ∧ Demo.cred ∈ Demo.pres.creds ∧
    ("N", SubjVal.str "25") ∈ Demo.cred.subject ∧ ("a", SubjVal.bool true) ∈ Demo.cred.subject :=
  ⟨by decide, by simp [Demo.pres], by simp [Demo.cred], by simp [Demo.cred]⟩

/-- the subject value "25" changed to "26" after the proof was made: rejected by
`C03_w3c_altered_rejected` (hypotheses satisfiable) -/
example :
    verifyW3C Demo.ctx Demo.req
      { Demo.pres with creds := [{ Demo.cred with subject := [("N", .str "26"), ("a", .bool true)] }] }
      ≠ .ok true := by
  refine C03_w3c_altered_rejected
    (c := { Demo.cred with subject := [("N", .str "26"), ("a", .bool true)] })
    (k := "N") (v := .str "26") (by simp) (by simp) (fun b hb => by cases hb) ?_
  intro a _ hl
  have hm := lookup_some_mem hl
  have he : Encode.encode (SubjVal.str "26").toStr = "26" := by decide
  rw [he] at hm
  simp [Demo.cred, Demo.sub] at hm

/-- an entry for an attribute the credential does not have: rejected by `C03_w3c_added_rejected` -/
example :
    verifyW3C Demo.ctx Demo.req
      { Demo.pres with creds := [{ Demo.cred with subject := ("z", .str "1") :: Demo.cred.subject }] }
      ≠ .ok true := by
  refine C03_w3c_added_rejected
    (c := { Demo.cred with subject := ("z", .str "1") :: Demo.cred.subject })
    (k := "z") (v := .str "1") (by simp) (by simp) ?_
  decide

end AnonModel.VerifierW3C

import AnonModel.Lemmas.Prover
/-!
# C07 — only attributes the holder chose to reveal are disclosed

Statements about the prover models `createPresentation` (legacy) and `createPresentationW3C`:
every value a presentation exposes is traced back to a referent that the holder marked as revealed
and that names the attribute the value belongs to. Values can coincide between attributes, so
"does not appear" is stated structurally (where each exposed item comes from), not on strings.
-/
namespace AnonModel.Prover
open AnonModel.Verifier AnonModel.IdealCL AnonModel.Names

/-! ## what a presentation exposes -/

/-- every (sub-proof index, value string) a legacy presentation exposes: raw and encoded values of
`revealed_attrs`, of the members of `revealed_attr_groups`, and the values carried by the equality
proof of every sub-proof. (`unrevealed_attrs`, `predicates` map referents to indices only;
predicate thresholds come from the request.) -/
def disclosedLegacy (p : Presentation) : List (Nat × String) :=
  p.revealed.flatMap (fun kv => [(kv.2.idx, kv.2.raw), (kv.2.idx, kv.2.encoded)]) ++
  p.groups.flatMap (fun kv => kv.2.values.flatMap (fun nv => [(kv.2.idx, nv.2.1), (kv.2.idx, nv.2.2)])) ++
  p.subs.zipIdx.flatMap (fun si => si.1.revealed.map (fun nv => (si.2, nv.2)))

/-- every (sub-proof index, normalised attribute name) a legacy presentation says it reveals: the
requested name of each `revealed_attrs` referent, the member names of each revealed group, the names
in the equality proof of each sub-proof -/
def disclosedNamesLegacy (r : Request) (p : Presentation) : List (Nat × String) :=
  p.revealed.flatMap (fun kv =>
    match (r.attrs.lookup kv.1).bind (·.name) with
    | some n => [(kv.2.idx, commonView n)]
    | none => []) ++
  p.groups.flatMap (fun kv => kv.2.values.map (fun nv => (kv.2.idx, commonView nv.1))) ++
  p.subs.zipIdx.flatMap (fun si => si.1.revealed.map (fun nv => (si.2, commonView nv.1)))

/-- `v` is the raw value, the encoded value, or the signed value of attribute `n` of credential `c` -/
def IsValueOf (c : HeldCred) (n v : String) : Prop :=
  (∃ re, credValue c n = some re ∧ (v = re.1 ∨ v = re.2)) ∨
  c.sym.attrs.lookup (commonView n) = some v

/-! ## legacy format -/

/-- **Everything a legacy presentation discloses was selected as revealed.** If
`create_presentation` returns `p`, every value `v` exposed at sub-proof index `i` — raw or encoded
value of a revealed attribute or revealed group member, or value carried by the `i`-th sub-proof —
is the raw/encoded/signed value of an attribute `n` of the credential of the `i`-th used selection
entry, and `n` is named by a referent of that entry which the holder marked as revealed. -/
theorem C07_legacy {pc : PCtx} {r : Request} {sel : List Selected} {sa : List (String × String)}
    {holder session uid0 : Nat} {p : Presentation}
    (h : createPresentation pc r sel sa holder session uid0 = some p) {i : Nat} {v : String}
    (hd : (i, v) ∈ disclosedLegacy p) :
    ∃ s n, (usedOf sel)[i]? = some s ∧ MarkedRevealed r s.attrs n ∧ IsValueOf s.cred n v := by
  have ch := createPresentation_char h
  unfold disclosedLegacy at hd
  rw [List.mem_append, List.mem_append] at hd
  rcases hd with (hd | hd) | hd
  · obtain ⟨⟨k, info⟩, hk, hv⟩ := List.mem_flatMap.mp hd
    rw [ch.revealed] at hk
    obtain ⟨⟨s, j⟩, hsj, hk⟩ := List.mem_flatMap.mp hk
    obtain ⟨rr, hrr, hk⟩ := List.mem_flatMap.mp hk
    obtain ⟨rfl, ai, name, re, hlk, hname, hcv, rfl⟩ := mem_revOf hk
    have hs : (usedOf sel)[j]? = some s := mem_zipIdx_iff.mp hsj
    simp only [List.mem_cons, Prod.mk.injEq, List.not_mem_nil, or_false] at hv
    rcases hv with ⟨rfl, rfl⟩ | ⟨rfl, rfl⟩
    · exact ⟨s, name, hs, ⟨k, ai, hrr, hlk, mem_allNames_name hname⟩, Or.inl ⟨re, hcv, Or.inl rfl⟩⟩
    · exact ⟨s, name, hs, ⟨k, ai, hrr, hlk, mem_allNames_name hname⟩, Or.inl ⟨re, hcv, Or.inr rfl⟩⟩
  · obtain ⟨⟨k, g⟩, hk, hv⟩ := List.mem_flatMap.mp hd
    rw [ch.groups] at hk
    obtain ⟨⟨s, j⟩, hsj, hk⟩ := List.mem_flatMap.mp hk
    obtain ⟨rr, hrr, hk⟩ := List.mem_flatMap.mp hk
    obtain ⟨rfl, ai, names, vals, hlk, _, hnames, hvals, rfl⟩ := mem_grpOf hk
    have hs : (usedOf sel)[j]? = some s := mem_zipIdx_iff.mp hsj
    obtain ⟨⟨n, re⟩, hnv, hv⟩ := List.mem_flatMap.mp hv
    obtain ⟨hn, hcv⟩ := credValue_mapM_lookup hvals hnv
    simp only [List.mem_cons, Prod.mk.injEq, List.not_mem_nil, or_false] at hv
    rcases hv with ⟨rfl, rfl⟩ | ⟨rfl, rfl⟩
    · exact ⟨s, n, hs, ⟨k, ai, hrr, hlk, mem_allNames_names hnames (List.mem_eraseDups.mp hn)⟩, Or.inl ⟨re, hcv, Or.inl rfl⟩⟩
    · exact ⟨s, n, hs, ⟨k, ai, hrr, hlk, mem_allNames_names hnames (List.mem_eraseDups.mp hn)⟩, Or.inl ⟨re, hcv, Or.inr rfl⟩⟩
  · obtain ⟨⟨sub, j⟩, hsub, hv⟩ := List.mem_flatMap.mp hd
    obtain ⟨⟨n, v'⟩, hnv, hv⟩ := List.mem_map.mp hv
    simp only [Prod.mk.injEq] at hv
    obtain ⟨rfl, rfl⟩ := hv
    obtain ⟨⟨s, j'⟩, hsj, hadd⟩ := mapM_some_getElem?_inv ch.subs (mem_zipIdx_iff.mp hsub)
    rw [List.getElem?_zipIdx] at hsj
    cases hs : (usedOf sel)[j]? with
    | none => simp [hs] at hsj
    | some s' =>
      simp [hs] at hsj
      obtain ⟨rfl, rfl⟩ := hsj
      obtain ⟨n0, hmr, rfl, hlk⟩ := addSubProof_revealed hadd hnv
      exact ⟨s', n0, rfl, hmr, Or.inr hlk⟩

/-- the same at the level of names: every attribute name a legacy presentation says it reveals at
sub-proof index `i` is (the normal form of) a name asked for by a referent of the `i`-th used entry
that the holder marked as revealed -/
theorem C07_legacy_names {pc : PCtx} {r : Request} {sel : List Selected} {sa : List (String × String)}
    {holder session uid0 : Nat} {p : Presentation}
    (h : createPresentation pc r sel sa holder session uid0 = some p) {i : Nat} {a : String}
    (hd : (i, a) ∈ disclosedNamesLegacy r p) :
    ∃ s n, (usedOf sel)[i]? = some s ∧ MarkedRevealed r s.attrs n ∧ commonView n = a := by
  have ch := createPresentation_char h
  unfold disclosedNamesLegacy at hd
  rw [List.mem_append, List.mem_append] at hd
  rcases hd with (hd | hd) | hd
  · obtain ⟨⟨k, info⟩, hk, hv⟩ := List.mem_flatMap.mp hd
    rw [ch.revealed] at hk
    obtain ⟨⟨s, j⟩, hsj, hk⟩ := List.mem_flatMap.mp hk
    obtain ⟨rr, hrr, hk⟩ := List.mem_flatMap.mp hk
    obtain ⟨rfl, ai, name, re, hlk, hname, hcv, rfl⟩ := mem_revOf hk
    have hs : (usedOf sel)[j]? = some s := mem_zipIdx_iff.mp hsj
    simp [hlk, hname] at hv
    obtain ⟨rfl, rfl⟩ := hv
    exact ⟨s, name, hs, ⟨k, ai, hrr, hlk, mem_allNames_name hname⟩, rfl⟩
  · obtain ⟨⟨k, g⟩, hk, hv⟩ := List.mem_flatMap.mp hd
    rw [ch.groups] at hk
    obtain ⟨⟨s, j⟩, hsj, hk⟩ := List.mem_flatMap.mp hk
    obtain ⟨rr, hrr, hk⟩ := List.mem_flatMap.mp hk
    obtain ⟨rfl, ai, names, vals, hlk, _, hnames, hvals, rfl⟩ := mem_grpOf hk
    have hs : (usedOf sel)[j]? = some s := mem_zipIdx_iff.mp hsj
    obtain ⟨⟨n, re⟩, hnv, hv⟩ := List.mem_map.mp hv
    obtain ⟨hn, _⟩ := credValue_mapM_lookup hvals hnv
    simp only [Prod.mk.injEq] at hv
    obtain ⟨rfl, rfl⟩ := hv
    exact ⟨s, n, hs, ⟨k, ai, hrr, hlk, mem_allNames_names hnames (List.mem_eraseDups.mp hn)⟩, rfl⟩
  · obtain ⟨⟨sub, j⟩, hsub, hv⟩ := List.mem_flatMap.mp hd
    obtain ⟨⟨n, v'⟩, hnv, hv⟩ := List.mem_map.mp hv
    simp only [Prod.mk.injEq] at hv
    obtain ⟨rfl, rfl⟩ := hv
    obtain ⟨⟨s, j'⟩, hsj, hadd⟩ := mapM_some_getElem?_inv ch.subs (mem_zipIdx_iff.mp hsub)
    rw [List.getElem?_zipIdx] at hsj
    cases hs : (usedOf sel)[j]? with
    | none => simp [hs] at hsj
    | some s' =>
      simp [hs] at hsj
      obtain ⟨rfl, rfl⟩ := hsj
      obtain ⟨n0, hmr, rfl, _⟩ := addSubProof_revealed hadd hnv
      exact ⟨s', n0, rfl, hmr, (commonView_idem n0).symm⟩


/-- **Attributes not named by any revealed referent stay hidden.** If no referent of the `i`-th used
entry that the holder marked as revealed names attribute `a` (up to normalisation) — because the
attribute is not requested at all, requested but left unrevealed, or used only in predicates — the
presentation does not list `a` among the names revealed at index `i`: not as the name of a revealed
referent, not as a group member, not in the sub-proof's equality proof. -/
theorem C07_legacy_unrequested_hidden {pc : PCtx} {r : Request} {sel : List Selected}
    {sa : List (String × String)} {holder session uid0 : Nat} {p : Presentation}
    (h : createPresentation pc r sel sa holder session uid0 = some p) {i : Nat} {s : Selected}
    (hs : (usedOf sel)[i]? = some s) {a : String}
    (hno : ∀ n, commonView n = a → ¬ MarkedRevealed r s.attrs n) :
    (i, a) ∉ disclosedNamesLegacy r p := by
  intro hd
  obtain ⟨s', n, hs', hm, hn⟩ := C07_legacy_names h hd
  rw [hs] at hs'; cases hs'
  exact hno n hn hm

/-- **An unrevealed referent contributes its referent and sub-proof index only.** For a referent the
holder marked `false` in the `i`-th used entry: it is a key of neither `revealed_attrs` nor
`revealed_attr_groups`; `unrevealed_attrs` maps it to `i` and to nothing else; what
`update_requested_proof` adds for it is exactly `(ref, i)`; and the sub-proof is the one built from the
revealed referents alone (it does not depend on the unrevealed ones at all). -/
theorem C07_legacy_unrevealed_hidden {pc : PCtx} {r : Request} {sel : List Selected}
    {sa : List (String × String)} {holder session uid0 : Nat} {p : Presentation}
    (h : createPresentation pc r sel sa holder session uid0 = some p) {i : Nat} {s : Selected}
    (hs : (usedOf sel)[i]? = some s) {ref : String} (hf : (ref, false) ∈ s.attrs) :
    ref ∉ p.revealed.map Prod.fst ∧ ref ∉ p.groups.map Prod.fst ∧
    (∀ j, (ref, j) ∈ p.unrevealed ↔ j = i) ∧
    rpEntry r s.cred i (ref, false) = some { RpPart.empty with unrevealed := [(ref, i)] } ∧
    ∀ uid, addSubProof pc r s holder session uid =
      addSubProof pc r { s with attrs := s.attrs.filter (·.2) } holder session uid := by
  have ch := createPresentation_char h
  have hsi : (s, i) ∈ (usedOf sel).zipIdx := mem_zipIdx_iff.mpr hs
  refine ⟨?_, ?_, ?_, rfl, ?_⟩
  · intro hm
    obtain ⟨⟨k, info⟩, hk, rfl⟩ := List.mem_map.mp hm
    rw [ch.revealed] at hk
    obtain ⟨si', hsj, hk⟩ := List.mem_flatMap.mp hk
    obtain ⟨rr, hrr, hk⟩ := List.mem_flatMap.mp hk
    obtain ⟨rfl, _⟩ := mem_revOf hk
    have := (sel_entry_unique ch.valid hsi hsj hf hrr).2
    cases this
  · intro hm
    obtain ⟨⟨k, g⟩, hk, rfl⟩ := List.mem_map.mp hm
    rw [ch.groups] at hk
    obtain ⟨si', hsj, hk⟩ := List.mem_flatMap.mp hk
    obtain ⟨rr, hrr, hk⟩ := List.mem_flatMap.mp hk
    obtain ⟨rfl, _⟩ := mem_grpOf hk
    have := (sel_entry_unique ch.valid hsi hsj hf hrr).2
    cases this
  · intro j
    rw [ch.unrevealed]
    constructor
    · intro hk
      obtain ⟨si', hsj, hk⟩ := List.mem_flatMap.mp hk
      obtain ⟨rr, hrr, hk⟩ := List.mem_flatMap.mp hk
      obtain ⟨rfl, rfl⟩ := mem_unrOf hk
      have := (sel_entry_unique ch.valid hsi hsj hf hrr).1
      rw [← this]
    · rintro rfl
      exact List.mem_flatMap.mpr ⟨(s, j), hsi, List.mem_flatMap.mpr ⟨(ref, false), hf, by
        rw [unrOf_false]; exact List.mem_singleton.mpr rfl⟩⟩
  · intro uid
    unfold addSubProof
    simp only [List.filter_filter, Bool.and_self]

/-- **An attribute used only in a predicate stays hidden.** For a predicate referent `ref` of the
`i`-th used entry: the request has it (predicate `q`), `predicates` maps it to `i`; no referent of
that entry marked as revealed names the predicate's attribute (the CL crate refuses to build such a
sub-proof), hence the presentation does not list that attribute among the names revealed at `i`. What
the presentation carries about it is the triple (name, type, threshold) — all taken from the request. -/
theorem C07_legacy_predicate_hidden {pc : PCtx} {r : Request} {sel : List Selected}
    {sa : List (String × String)} {holder session uid0 : Nat} {p : Presentation}
    (h : createPresentation pc r sel sa holder session uid0 = some p) {i : Nat} {s : Selected}
    (hs : (usedOf sel)[i]? = some s) {ref : String} (hp : ref ∈ s.preds) :
    ∃ q, r.preds.lookup ref = some q ∧ (ref, i) ∈ p.predicates ∧
      (∀ n, commonView n = commonView q.name → ¬ MarkedRevealed r s.attrs n) ∧
      (i, commonView q.name) ∉ disclosedNamesLegacy r p ∧
      ∃ sub, p.subs[i]? = some sub ∧ normPred (predOfInfo q) ∈ sub.preds := by
  have ch := createPresentation_char h
  have hsi : (s, i) ∈ (usedOf sel).zipIdx := mem_zipIdx_iff.mpr hs
  have hsi' : (usedOf sel).zipIdx[i]? = some (s, i) := by
    rw [List.getElem?_zipIdx, hs]; simp
  obtain ⟨sub, hsub, hadd⟩ := mapM_some_of_getElem? ch.subs hsi'
  obtain ⟨q, hq, hno⟩ := addSubProof_pred_not_revealed hadd hp
  refine ⟨q, hq, ?_, hno, C07_legacy_unrequested_hidden h hs hno, sub, hsub, ?_⟩
  · rw [ch.predicates]
    exact List.mem_flatMap.mpr ⟨(s, i), hsi, List.mem_map.mpr ⟨ref, hp, rfl⟩⟩
  · obtain ⟨schemaAttrs, ainfos, pinfos, _, _, _, hmp, hb⟩ := addSubProof_some hadd
    obtain ⟨_, _, _, _, _, _, _, hpreds, _⟩ := buildSub_some hb
    obtain ⟨q', hq', hlk⟩ := mapM_some_mem hmp hp
    rw [hq] at hlk; cases hlk
    rw [hpreds]
    exact mem_dedup.mpr (List.mem_map_of_mem (f := normPred) (List.mem_map_of_mem (f := predOfInfo) hq'))

/-! ## W3C format -/
section W3C
open AnonModel.VerifierW3C

/-- **Everything a W3C presentation discloses was selected as revealed.** If the W3C
`create_presentation` returns `p`, then for its `i`-th derived credential `c`, built from the `i`-th
used selection entry `s`:
* every entry of `c`'s subject is either the held credential's own entry (key and value) for an
  attribute named by a referent of `s` that the holder marked as revealed, or the marker `true` under
  the held credential's key of the attribute of a predicate referent of `s`;
* every (name, value) in the equality proof of `c`'s sub-proof is the normal form of a name asked for
  by a referent marked revealed, with the signed value. -/
theorem C07_w3c {pc : PCtx} {r : Request} {sel : List SelectedW3C} {holder session uid0 : Nat}
    {p : VerifierW3C.Presentation} (h : createPresentationW3C pc r sel holder session uid0 = some p)
    {i : Nat} {c : Cred} (hc : p.creds[i]? = some c) :
    ∃ s, (usedOfW3C sel)[i]? = some s ∧
      (∀ kv ∈ c.subject, SubjectEntryJustified r s kv) ∧
      (∀ n v, (n, v) ∈ c.sub.revealed → ∃ n0, MarkedRevealed r s.attrs n0 ∧ commonView n0 = n ∧
        s.cred.sym.attrs.lookup n = some v) := by
  obtain ⟨s, sub, subj, hs, hadd, hbuild, rfl⟩ := (createPresentationW3C_char h).cred i c hc
  refine ⟨s, hs, buildCredentialAttributes_justified hbuild, ?_⟩
  intro n v hnv
  exact addSubProof_revealed hadd hnv

/-- string and number entries of a derived credential's subject belong to attributes named by
referents the holder marked as revealed: the entry is the held credential's own entry for such a name -/
theorem C07_w3c_values {pc : PCtx} {r : Request} {sel : List SelectedW3C} {holder session uid0 : Nat}
    {p : VerifierW3C.Presentation} (h : createPresentationW3C pc r sel holder session uid0 = some p)
    {i : Nat} {c : Cred} (hc : p.creds[i]? = some c) {k : String} {v : SubjVal}
    (hkv : (k, v) ∈ c.subject) (hv : ∀ b, v ≠ .bool b) :
    ∃ s n, (usedOfW3C sel)[i]? = some s ∧ MarkedRevealed r s.attrs n ∧
      lookupNorm s.cred.subject n = some (k, v) := by
  obtain ⟨s, hs, hj, _⟩ := C07_w3c h hc
  rcases hj (k, v) hkv with ⟨n, hm, hl⟩ | ⟨hb, _⟩
  · exact ⟨s, n, hs, hm, hl⟩
  · exact absurd hb (hv true)

/-- boolean markers are only put for predicate attributes: if the held credential has no boolean
values of its own, every boolean entry of the derived subject is `true` under the held credential's
key of the attribute of a predicate referent served by the entry -/
theorem C07_w3c_markers {pc : PCtx} {r : Request} {sel : List SelectedW3C} {holder session uid0 : Nat}
    {p : VerifierW3C.Presentation} (h : createPresentationW3C pc r sel holder session uid0 = some p)
    {i : Nat} {c : Cred} (hc : p.creds[i]? = some c) {k : String} {b : Bool}
    (hkv : (k, .bool b) ∈ c.subject) :
    ∃ s, (usedOfW3C sel)[i]? = some s ∧
      ((∀ kv ∈ s.cred.subject, ∀ b', kv.2 ≠ .bool b') →
        b = true ∧ ∃ ref q v, ref ∈ s.preds ∧ r.preds.lookup ref = some q ∧
          lookupNorm s.cred.subject q.name = some (k, v)) := by
  obtain ⟨s, hs, hj, _⟩ := C07_w3c h hc
  refine ⟨s, hs, fun hnb => ?_⟩
  rcases hj (k, .bool b) hkv with ⟨n, _, hl⟩ | ⟨hb, hex⟩
  · exact absurd rfl (hnb _ (lookupNorm_some hl).1 b)
  · simp at hb
    exact ⟨hb, hex⟩

/-- **Members of an unrevealed group are not in the subject** (defect F8, fixed). If no referent of
the `i`-th used entry that the holder marked as revealed names attribute `n` — e.g. `n` is a member
of a `names` group the holder left unrevealed — then the derived credential has no string or number
entry for `n`: `W3CCredential::get_attribute` finds nothing. -/
theorem C07_w3c_unrevealed_group_hidden {pc : PCtx} {r : Request} {sel : List SelectedW3C}
    {holder session uid0 : Nat} {p : VerifierW3C.Presentation}
    (h : createPresentationW3C pc r sel holder session uid0 = some p)
    {i : Nat} {c : Cred} (hc : p.creds[i]? = some c) {s : SelectedW3C}
    (hs : (usedOfW3C sel)[i]? = some s) {n : String}
    (hno : ∀ n', commonView n' = commonView n → ¬ MarkedRevealed r s.attrs n') :
    getAttribute c n = none := by
  cases hg : getAttribute c n with
  | none => rfl
  | some av =>
    exfalso
    obtain ⟨a, v⟩ := av
    have hsl : subjLookup c n = some (a, v) ∧ ∀ b, v ≠ .bool b := by
      unfold getAttribute at hg
      split at hg
      · simp at hg; obtain ⟨rfl, rfl⟩ := hg
        rename_i h1; exact ⟨h1, fun b => by simp⟩
      · simp at hg; obtain ⟨rfl, rfl⟩ := hg
        rename_i h1; exact ⟨h1, fun b => by simp⟩
      · cases hg
    obtain ⟨hmem, hcv⟩ := lookupNorm_some hsl.1
    obtain ⟨s', n', hs', hm, hl⟩ := C07_w3c_values h hc hmem hsl.2
    rw [hs] at hs'; cases hs'
    exact hno n' ((lookupNorm_some hl).2.symm.trans hcv) hm

/-- `attrStep` form of the same: a referent marked `false` adds nothing to the subject -/
theorem C07_w3c_unrevealed_adds_nothing {r : Request} {c : HeldW3C} {ref : String}
    {subj subj' : List (String × SubjVal)} (h : attrStep r c subj (ref, false) = some subj') :
    subj' = subj := attrStep_unrevealed h

end W3C

/-! ## no secrets -/

/-- the part of a sub-proof that service code (and the wire form) exposes: revealed names and values,
and predicates; the other fields of `SymSub` are ghosts for the ideal functionality -/
def visibleSub (s : SymSub) : List (String × String) × List Pred := (s.revealed, s.preds)

/-- **The link secret, the credential signature and the revocation witness are not in a
presentation.** By construction: `Presentation`, `VerifierW3C.Presentation`/`Cred` and `SymSub` have
no field for any of them — the three equations list *all* their fields (`cred`, `nrp`, `ms`, `intact`,
`uid` of a sub-proof are ghosts read only by the ideal functionality: they say what the zero-knowledge
proof was built from, they are not data one can read off it). What the model can state beyond that:
the visible part of a presentation does not depend on the holder's link secret, the session's blinding
or the numbering of the sub-proofs — building it with other ones succeeds too and yields the same
`requested_proof`, identifiers, and revealed values / predicates of every sub-proof. The real check of
this clause is the harness scan of serialised presentations for the secret values. -/
theorem C07_no_secrets :
    (∀ p : Verifier.Presentation, p = ⟨p.revealed, p.groups, p.selfAttested, p.unrevealed, p.predicates,
      p.identifiers, p.subs, p.agg⟩) ∧
    (∀ c : VerifierW3C.Cred, c = ⟨c.issuer, c.subject, c.proofOk, c.verificationMethod, c.schemaId, c.credDefId,
      c.revRegId, c.timestamp, c.sub⟩) ∧
    (∀ s : SymSub, s = ⟨s.revealed, s.preds, s.cred, s.nrp, s.ms, s.intact, s.uid⟩) ∧
    (∀ {pc : PCtx} {r : Request} {sel : List Selected} {sa : List (String × String)}
      {holder session uid0 : Nat} {p : Verifier.Presentation} (holder' session' uid0' : Nat),
      createPresentation pc r sel sa holder session uid0 = some p →
      ∃ p', createPresentation pc r sel sa holder' session' uid0' = some p' ∧
        p'.revealed = p.revealed ∧ p'.groups = p.groups ∧ p'.selfAttested = p.selfAttested ∧
        p'.unrevealed = p.unrevealed ∧ p'.predicates = p.predicates ∧
        p'.identifiers = p.identifiers ∧ p'.subs.map visibleSub = p.subs.map visibleSub) := by
  refine ⟨fun _ => rfl, fun _ => rfl, fun _ => rfl, ?_⟩
  intro pc r sel sa holder session uid0 p holder' session' uid0' h
  unfold createPresentation at h ⊢
  simp only [] at h ⊢
  split at h
  · cases h
  · rename_i h1
    rw [if_neg h1]
    split at h
    · cases h
    · rename_i h2
      rw [if_neg h2]
      split at h
      · rename_i parts subs hp hs
        injection h with h
        subst h
        obtain ⟨subs', hs', hvis⟩ := mapM_indep (vis := visibleSub)
          (f := fun si : Selected × Nat => addSubProof pc r si.1 holder session (uid0 + si.2))
          (f' := fun si : Selected × Nat => addSubProof pc r si.1 holder' session' (uid0' + si.2))
          (fun si => ⟨fun sub => { sub with ms := (holder', session'), uid := uid0' + si.2 },
            addSubProof_indep .., fun _ => rfl⟩) hs
        rw [hp, hs']
        exact ⟨_, rfl, rfl, rfl, rfl, rfl, rfl, rfl, hvis⟩
      · cases h

/-! ## non-vacuity: a small concrete flow

Credential `a ↦ 25`, `b ↦ 7` (encoding carried as `"007"`), `cd ↦ 3`; the holder reveals `b` (single)
and the group `b`, `c D`, leaves `a` unrevealed and proves `a ≥ 18`. The presentation exposes `7`,
`007`, `3` at index 0 — and nothing of `a` (value `25`). -/
section Examples
private def xSym : SymCred := { key := 1, attrs := [("a", "25"), ("b", "7"), ("cd", "3")], holder := 5, rev := none }
private def xCred : HeldCred :=
  { schemaId := "s1", credDefId := "cd1", revRegId := none,
    values := [("A", ("25", "25")), ("b", ("7", "007")), ("C d", ("3", "3"))], sym := xSym }
private def xReq : Request :=
  { nonce := "n", nonRevoked := none,
    attrs := [("r1", { name := some "B", names := none, restrictions := none, nonRevoked := none }),
              ("r2", { name := some " a", names := none, restrictions := none, nonRevoked := none }),
              ("g1", { name := none, names := some ["b", "c D"], restrictions := none, nonRevoked := none })],
    preds := [("p1", { name := "A", ty := "GE", value := 18, restrictions := none, nonRevoked := none })] }
private def xSel : List Selected :=
  [{ cred := xCred, timestamp := none, revState := none,
     attrs := [("r1", true), ("r2", false), ("g1", true)], preds := ["p1"] }]
private def xPc : PCtx := { schemas := [("s1", ["a", "B", "c D"])], credDefs := ["cd1"] }
private def xSelW : List SelectedW3C :=
  [{ cred := { issuer := "iss", schemaId := "s1", credDefId := "cd1", revRegId := none,
               subject := [("A", .num 25), ("b", .str "7"), ("C d", .str "3")], sym := xSym },
     timestamp := none, revState := none,
     attrs := [("r1", true), ("r2", false), ("g1", true)], preds := ["p1"] }]

set_option maxRecDepth 100000 in
example : (createPresentation xPc xReq xSel [] 5 1 0).map disclosedLegacy =
    some [(0, "7"), (0, "007"), (0, "7"), (0, "007"), (0, "3"), (0, "3"), (0, "7"), (0, "3")] := by decide
set_option maxRecDepth 100000 in
example : (createPresentation xPc xReq xSel [] 5 1 0).map (disclosedNamesLegacy xReq) =
    some [(0, "b"), (0, "b"), (0, "cd"), (0, "b"), (0, "cd")] := by decide
set_option maxRecDepth 100000 in
example : (createPresentation xPc xReq xSel [] 5 1 0).map (fun p => (p.unrevealed, p.predicates)) =
    some ([("r2", 0)], [("p1", 0)]) := by decide
-- W3C: the subject has the revealed entries and the predicate marker, nothing else
set_option maxRecDepth 100000 in
example : (createPresentationW3C xPc xReq xSelW 5 1 0).map (fun p => p.creds.map (·.subject)) =
    some [[("b", .str "7"), ("C d", .str "3"), ("A", .bool true)]] := by decide
-- with the group left unrevealed (F8): only the single `b`
set_option maxRecDepth 100000 in
example : (createPresentationW3C xPc xReq
      (xSelW.map (fun s => { s with attrs := [("r1", true), ("r2", false), ("g1", false)] })) 5 1 0).map
      (fun p => p.creds.map (·.subject)) =
    some [[("b", .str "7"), ("A", .bool true)]] := by decide
end Examples

end AnonModel.Prover

import AnonModel.Model.Msgpack
import AnonModel.Props.C15B64
/-!
# C15 — the msgpack layer of every W3C proof value is lossless, self-delimiting and injective

`decode (enc v) = some v` for every value of the fragment (no bound on nesting, lengths below 2^32, integers within
`i64 ∪ u64`), also when bytes follow (`from_slice` ignores them); distinct values have distinct byte strings; and the whole
chain text → base64 → msgpack → tagged sequence returns the kind and payload that were written.
-/
namespace AnonModel.Msgpack
open AnonModel.Base64 (AllLt)

/-! ## big-endian numbers -/

theorem be_length : ∀ k n, (be k n).length = k
  | 0, _ => rfl
  | k + 1, n => by simp [be, be_length k n]

theorem be_lt : ∀ k n, AllLt 256 (be k n)
  | 0, _ => by intro x hx; cases hx
  | k + 1, n => by
    intro x hx
    simp only [be, List.mem_cons] at hx
    rcases hx with h | h
    · subst h; exact Nat.mod_lt _ (by decide)
    · exact be_lt k n x h

theorem foldl_be : ∀ k n a, (be k n).foldl (fun a b => a * 256 + b) a = a * 256 ^ k + n % 256 ^ k
  | 0, n, a => by simp [be, Nat.mod_one]
  | k + 1, n, a => by
    simp only [be, List.foldl_cons]
    rw [foldl_be k n]
    rw [Nat.mod_pow_succ, Nat.pow_succ, Nat.add_mul]
    have : a * 256 * 256 ^ k = a * (256 ^ k * 256) := by rw [Nat.mul_assoc, Nat.mul_comm 256]
    rw [this, Nat.mul_comm (n / 256 ^ k % 256)]
    omega

theorem beVal_be {k n : Nat} (h : n < 256 ^ k) : beVal (be k n) = n := by
  unfold beVal
  rw [foldl_be, Nat.zero_mul, Nat.zero_add, Nat.mod_eq_of_lt h]

theorem takeN_append (a b : List Nat) : takeN a.length (a ++ b) = some (a, b) := by
  unfold takeN
  simp

theorem readBe_be {k n : Nat} (h : n < 256 ^ k) (rest : List Nat) : readBe k (be k n ++ rest) = some (n, rest) := by
  unfold readBe
  have := takeN_append (be k n) rest
  rw [be_length] at this
  rw [this]
  simp only [beVal_be h]

theorem readRun_be {k : Nat} {s : List Nat} (h : s.length < 256 ^ k) (rest : List Nat) :
    readRun k (be k s.length ++ (s ++ rest)) = some (s, rest) := by
  unfold readRun
  rw [readBe_be h]
  exact takeN_append s rest

/-! ## the reader on each leading byte -/

theorem dec_pfix {b : Nat} (h : b < 128) (f : Nat) (rest : List Nat) : dec (f + 1) (b :: rest) = some (.int b, rest) := by
  simp [dec, h]

theorem dec_nfix {b : Nat} (h1 : 224 ≤ b) (h2 : b < 256) (f : Nat) (rest : List Nat) :
    dec (f + 1) (b :: rest) = some (.int ((b : Int) - 256), rest) := by
  simp only [dec]
  repeat (first | rw [if_neg (by omega)] | rw [if_pos (by omega)])

theorem dec_fixstr {n : Nat} (h : n < 32) (f : Nat) (rest : List Nat) :
    dec (f + 1) ((0xa0 + n) :: rest) = (match takeN n rest with | some (s, r) => some (.str s, r) | none => none) := by
  simp only [dec]
  rw [if_neg (by omega), if_neg (by omega), if_neg (by omega), if_pos (by omega)]
  simp <;> (split <;> simp_all)

theorem dec_fixarr {n : Nat} (h : n < 16) (f : Nat) (rest : List Nat) :
    dec (f + 1) ((0x90 + n) :: rest) = (match decN f n rest with | some (xs, r) => some (.arr xs, r) | none => none) := by
  simp only [dec]
  rw [if_neg (by omega), if_neg (by omega), if_pos (by omega)]
  simp <;> (split <;> simp_all)

theorem dec_fixmap {n : Nat} (h : n < 16) (f : Nat) (rest : List Nat) :
    dec (f + 1) ((0x80 + n) :: rest) = (match decN f (2 * n) rest with | some (xs, r) => some (.map xs, r) | none => none) := by
  simp only [dec]
  rw [if_neg (by omega), if_pos (by omega)]
  simp <;> (split <;> simp_all)

theorem dec_c0 (f : Nat) (rest : List Nat) : dec (f + 1) (0xc0 :: rest) = some (.nil, rest) := by simp [dec] <;> (split <;> simp_all)
theorem dec_c2 (f : Nat) (rest : List Nat) : dec (f + 1) (0xc2 :: rest) = some (.bool false, rest) := by simp [dec] <;> (split <;> simp_all)
theorem dec_c3 (f : Nat) (rest : List Nat) : dec (f + 1) (0xc3 :: rest) = some (.bool true, rest) := by simp [dec] <;> (split <;> simp_all)
theorem dec_c4 (f : Nat) (rest : List Nat) : dec (f + 1) (0xc4 :: rest) =
    (match readRun 1 rest with | some (s, r) => some (.bin s, r) | none => none) := by simp [dec] <;> (split <;> simp_all)
theorem dec_c5 (f : Nat) (rest : List Nat) : dec (f + 1) (0xc5 :: rest) =
    (match readRun 2 rest with | some (s, r) => some (.bin s, r) | none => none) := by simp [dec] <;> (split <;> simp_all)
theorem dec_c6 (f : Nat) (rest : List Nat) : dec (f + 1) (0xc6 :: rest) =
    (match readRun 4 rest with | some (s, r) => some (.bin s, r) | none => none) := by simp [dec] <;> (split <;> simp_all)
theorem dec_cc (f : Nat) (rest : List Nat) : dec (f + 1) (0xcc :: rest) =
    (match readBe 1 rest with | some (n, r) => some (.int n, r) | none => none) := by simp [dec] <;> (split <;> simp_all)
theorem dec_cd (f : Nat) (rest : List Nat) : dec (f + 1) (0xcd :: rest) =
    (match readBe 2 rest with | some (n, r) => some (.int n, r) | none => none) := by simp [dec] <;> (split <;> simp_all)
theorem dec_ce (f : Nat) (rest : List Nat) : dec (f + 1) (0xce :: rest) =
    (match readBe 4 rest with | some (n, r) => some (.int n, r) | none => none) := by simp [dec] <;> (split <;> simp_all)
theorem dec_cf (f : Nat) (rest : List Nat) : dec (f + 1) (0xcf :: rest) =
    (match readBe 8 rest with | some (n, r) => some (.int n, r) | none => none) := by simp [dec] <;> (split <;> simp_all)
theorem dec_d0 (f : Nat) (rest : List Nat) : dec (f + 1) (0xd0 :: rest) =
    (match readBe 1 rest with | some (n, r) => some (.int (sgn 1 n), r) | none => none) := by simp [dec] <;> (split <;> simp_all)
theorem dec_d1 (f : Nat) (rest : List Nat) : dec (f + 1) (0xd1 :: rest) =
    (match readBe 2 rest with | some (n, r) => some (.int (sgn 2 n), r) | none => none) := by simp [dec] <;> (split <;> simp_all)
theorem dec_d2 (f : Nat) (rest : List Nat) : dec (f + 1) (0xd2 :: rest) =
    (match readBe 4 rest with | some (n, r) => some (.int (sgn 4 n), r) | none => none) := by simp [dec] <;> (split <;> simp_all)
theorem dec_d3 (f : Nat) (rest : List Nat) : dec (f + 1) (0xd3 :: rest) =
    (match readBe 8 rest with | some (n, r) => some (.int (sgn 8 n), r) | none => none) := by simp [dec] <;> (split <;> simp_all)
theorem dec_d9 (f : Nat) (rest : List Nat) : dec (f + 1) (0xd9 :: rest) =
    (match readRun 1 rest with | some (s, r) => some (.str s, r) | none => none) := by simp [dec] <;> (split <;> simp_all)
theorem dec_da (f : Nat) (rest : List Nat) : dec (f + 1) (0xda :: rest) =
    (match readRun 2 rest with | some (s, r) => some (.str s, r) | none => none) := by simp [dec] <;> (split <;> simp_all)
theorem dec_db (f : Nat) (rest : List Nat) : dec (f + 1) (0xdb :: rest) =
    (match readRun 4 rest with | some (s, r) => some (.str s, r) | none => none) := by simp [dec] <;> (split <;> simp_all)
theorem dec_dc (f : Nat) (rest : List Nat) : dec (f + 1) (0xdc :: rest) = (match readBe 2 rest with
      | some (n, r) => (match decN f n r with | some (xs, r') => some (.arr xs, r') | none => none) | none => none) := by simp [dec] <;> (split <;> simp_all) <;> (split <;> simp_all)
theorem dec_dd (f : Nat) (rest : List Nat) : dec (f + 1) (0xdd :: rest) = (match readBe 4 rest with
      | some (n, r) => (match decN f n r with | some (xs, r') => some (.arr xs, r') | none => none) | none => none) := by simp [dec] <;> (split <;> simp_all) <;> (split <;> simp_all)
theorem dec_de (f : Nat) (rest : List Nat) : dec (f + 1) (0xde :: rest) = (match readBe 2 rest with
      | some (n, r) => (match decN f (2 * n) r with | some (xs, r') => some (.map xs, r') | none => none) | none => none) := by simp [dec] <;> (split <;> simp_all) <;> (split <;> simp_all)
theorem dec_df (f : Nat) (rest : List Nat) : dec (f + 1) (0xdf :: rest) = (match readBe 4 rest with
      | some (n, r) => (match decN f (2 * n) r with | some (xs, r') => some (.map xs, r') | none => none) | none => none) := by simp [dec] <;> (split <;> simp_all) <;> (split <;> simp_all)

/-! ## well-formed values and the recursion bound -/

mutual
/-- what the writer can write: integers of `i64 ∪ u64`, lengths that fit `u32`, maps as key / value pairs -/
def MV.WF : MV → Prop
  | .int i => -(9223372036854775808 : Int) ≤ i ∧ i < 18446744073709551616
  | .str bs => bs.length < 4294967296
  | .bin bs => bs.length < 4294967296
  | .arr xs => xs.length < 4294967296 ∧ WFs xs
  | .map kvs => kvs.length % 2 = 0 ∧ kvs.length / 2 < 4294967296 ∧ WFs kvs
  | _ => True
def WFs : List MV → Prop
  | [] => True
  | x :: xs => x.WF ∧ WFs xs
end

mutual
def sz : MV → Nat
  | .arr xs => 1 + szs xs
  | .map kvs => 1 + szs kvs
  | _ => 1
def szs : List MV → Nat
  | [] => 0
  | x :: xs => 1 + sz x + szs xs
end

theorem sz_pos (v : MV) : 1 ≤ sz v := by cases v <;> simp [sz] <;> omega

theorem dec_int {i : Int} (h1 : -(9223372036854775808 : Int) ≤ i) (h2 : i < 18446744073709551616) (f : Nat) (rest : List Nat) :
    dec (f + 1) (encInt i ++ rest) = some (.int i, rest) := by
  unfold encInt
  by_cases h0 : 0 ≤ i
  · rw [if_pos h0]
    obtain ⟨n, rfl⟩ := Int.eq_ofNat_of_zero_le h0
    simp only [Int.toNat_natCast]
    have hn : n < 18446744073709551616 := by omega
    by_cases c1 : n < 128
    · simp only [if_pos c1, List.cons_append, List.nil_append]; exact dec_pfix c1 f rest
    by_cases c2 : n < 256
    · simp only [if_neg c1, if_pos c2, List.cons_append]
      rw [dec_cc, readBe_be (by simpa using c2)]
    by_cases c3 : n < 65536
    · simp only [if_neg c1, if_neg c2, if_pos c3, List.cons_append]
      rw [dec_cd, readBe_be (by simpa using c3)]
    by_cases c4 : n < 4294967296
    · simp only [if_neg c1, if_neg c2, if_neg c3, if_pos c4, List.cons_append]
      rw [dec_ce, readBe_be (by simpa using c4)]
    · simp only [if_neg c1, if_neg c2, if_neg c3, if_neg c4, List.cons_append]
      rw [dec_cf, readBe_be (by simpa using hn)]
  · rw [if_neg h0]
    by_cases c1 : -32 ≤ i
    · simp only [if_pos c1, List.cons_append, List.nil_append]
      have hb : ((256 + i).toNat : Int) = 256 + i := Int.toNat_of_nonneg (by omega)
      rw [dec_nfix (by omega) (by omega)]
      simp only [hb]
      congr 2; congr 1; omega
    by_cases c2 : -128 ≤ i
    · simp only [if_neg c1, if_pos c2, List.cons_append]
      have hb : ((256 + i).toNat : Int) = 256 + i := Int.toNat_of_nonneg (by omega)
      rw [dec_d0, readBe_be (by simp; omega)]
      simp only [sgn]
      rw [if_neg (by simp; omega)]
      simp only [hb]
      congr 2; congr 1; simp; omega
    by_cases c3 : -32768 ≤ i
    · simp only [if_neg c1, if_neg c2, if_pos c3, List.cons_append]
      have hb : ((65536 + i).toNat : Int) = 65536 + i := Int.toNat_of_nonneg (by omega)
      rw [dec_d1, readBe_be (by simp; omega)]
      simp only [sgn]
      rw [if_neg (by simp; omega)]
      simp only [hb]
      congr 2; congr 1; simp; omega
    by_cases c4 : -2147483648 ≤ i
    · simp only [if_neg c1, if_neg c2, if_neg c3, if_pos c4, List.cons_append]
      have hb : ((4294967296 + i).toNat : Int) = 4294967296 + i := Int.toNat_of_nonneg (by omega)
      rw [dec_d2, readBe_be (by simp; omega)]
      simp only [sgn]
      rw [if_neg (by simp; omega)]
      simp only [hb]
      congr 2; congr 1; simp; omega
    · simp only [if_neg c1, if_neg c2, if_neg c3, if_neg c4, List.cons_append]
      have hb : ((18446744073709551616 + i).toNat : Int) = 18446744073709551616 + i := Int.toNat_of_nonneg (by omega)
      rw [dec_d3, readBe_be (by simp; omega)]
      simp only [sgn]
      rw [if_neg (by simp; omega)]
      simp only [hb]
      congr 2; congr 1; simp; omega

theorem dec_str {bs : List Nat} (h : bs.length < 4294967296) (f : Nat) (rest : List Nat) :
    dec (f + 1) (strHdr bs.length ++ bs ++ rest) = some (.str bs, rest) := by
  unfold strHdr
  by_cases c1 : bs.length < 32
  · simp only [if_pos c1, List.cons_append, List.nil_append]
    rw [dec_fixstr c1, takeN_append]
  by_cases c2 : bs.length < 256
  · simp only [if_neg c1, if_pos c2, List.cons_append, List.append_assoc]
    rw [dec_d9, readRun_be (by simpa using c2)]
  by_cases c3 : bs.length < 65536
  · simp only [if_neg c1, if_neg c2, if_pos c3, List.cons_append, List.append_assoc]
    rw [dec_da, readRun_be (by simpa using c3)]
  · simp only [if_neg c1, if_neg c2, if_neg c3, List.cons_append, List.append_assoc]
    rw [dec_db, readRun_be (by simpa using h)]

theorem dec_bin {bs : List Nat} (h : bs.length < 4294967296) (f : Nat) (rest : List Nat) :
    dec (f + 1) (binHdr bs.length ++ bs ++ rest) = some (.bin bs, rest) := by
  unfold binHdr
  by_cases c2 : bs.length < 256
  · simp only [if_pos c2, List.cons_append, List.append_assoc]
    rw [dec_c4, readRun_be (by simpa using c2)]
  by_cases c3 : bs.length < 65536
  · simp only [if_neg c2, if_pos c3, List.cons_append, List.append_assoc]
    rw [dec_c5, readRun_be (by simpa using c3)]
  · simp only [if_neg c2, if_neg c3, List.cons_append, List.append_assoc]
    rw [dec_c6, readRun_be (by simpa using h)]

/-- a sequence header followed by what `decN` reads -/
theorem dec_arrHdr {n : Nat} (h : n < 4294967296) (f : Nat) (tail : List Nat) :
    dec (f + 1) (arrHdr n ++ tail) = (match decN f n tail with | some (xs, r) => some (.arr xs, r) | none => none) := by
  unfold arrHdr
  by_cases c1 : n < 16
  · simp only [if_pos c1, List.cons_append, List.nil_append]
    exact dec_fixarr c1 f tail
  by_cases c3 : n < 65536
  · simp only [if_neg c1, if_pos c3, List.cons_append]
    rw [dec_dc, readBe_be (by simpa using c3)]
  · simp only [if_neg c1, if_neg c3, List.cons_append]
    rw [dec_dd, readBe_be (by simpa using h)]

theorem dec_mapHdr {n : Nat} (h : n < 4294967296) (f : Nat) (tail : List Nat) :
    dec (f + 1) (mapHdr n ++ tail) = (match decN f (2 * n) tail with | some (xs, r) => some (.map xs, r) | none => none) := by
  unfold mapHdr
  by_cases c1 : n < 16
  · simp only [if_pos c1, List.cons_append, List.nil_append]
    exact dec_fixmap c1 f tail
  by_cases c3 : n < 65536
  · simp only [if_neg c1, if_pos c3, List.cons_append]
    rw [dec_de, readBe_be (by simpa using c3)]
  · simp only [if_neg c1, if_neg c3, List.cons_append]
    rw [dec_df, readBe_be (by simpa using h)]

/-! ## reading back what was written -/

mutual
theorem dec_enc : ∀ (v : MV) (f : Nat) (rest : List Nat), v.WF → sz v ≤ f → dec f (enc v ++ rest) = some (v, rest)
  | .nil, f, rest, _, hf => by
    obtain ⟨g, rfl⟩ : ∃ g, f = g + 1 := ⟨f - 1, by simp [sz] at hf; omega⟩
    simp only [enc, List.cons_append, List.nil_append]; exact dec_c0 g rest
  | .bool false, f, rest, _, hf => by
    obtain ⟨g, rfl⟩ : ∃ g, f = g + 1 := ⟨f - 1, by simp [sz] at hf; omega⟩
    simp only [enc, List.cons_append, List.nil_append]; exact dec_c2 g rest
  | .bool true, f, rest, _, hf => by
    obtain ⟨g, rfl⟩ : ∃ g, f = g + 1 := ⟨f - 1, by simp [sz] at hf; omega⟩
    simp only [enc, List.cons_append, List.nil_append]; exact dec_c3 g rest
  | .int i, f, rest, hw, hf => by
    obtain ⟨g, rfl⟩ : ∃ g, f = g + 1 := ⟨f - 1, by simp [sz] at hf; omega⟩
    simp only [MV.WF] at hw
    simp only [enc]; exact dec_int hw.1 hw.2 g rest
  | .str bs, f, rest, hw, hf => by
    obtain ⟨g, rfl⟩ : ∃ g, f = g + 1 := ⟨f - 1, by simp [sz] at hf; omega⟩
    simp only [MV.WF] at hw
    simp only [enc]; exact dec_str hw g rest
  | .bin bs, f, rest, hw, hf => by
    obtain ⟨g, rfl⟩ : ∃ g, f = g + 1 := ⟨f - 1, by simp [sz] at hf; omega⟩
    simp only [MV.WF] at hw
    simp only [enc]; exact dec_bin hw g rest
  | .arr xs, f, rest, hw, hf => by
    obtain ⟨g, rfl⟩ : ∃ g, f = g + 1 := ⟨f - 1, by simp [sz] at hf; omega⟩
    simp only [MV.WF] at hw
    simp only [sz] at hf
    simp only [enc, List.append_assoc]
    rw [dec_arrHdr hw.1, decN_encs xs g rest hw.2 (by omega)]
  | .map kvs, f, rest, hw, hf => by
    obtain ⟨g, rfl⟩ : ∃ g, f = g + 1 := ⟨f - 1, by simp [sz] at hf; omega⟩
    simp only [MV.WF] at hw
    simp only [sz] at hf
    simp only [enc, List.append_assoc]
    have h2 : 2 * (kvs.length / 2) = kvs.length := by omega
    rw [dec_mapHdr hw.2.1, h2, decN_encs kvs g rest hw.2.2 (by omega)]
theorem decN_encs : ∀ (xs : List MV) (f : Nat) (rest : List Nat), WFs xs → szs xs ≤ f →
    decN f xs.length (encs xs ++ rest) = some (xs, rest)
  | [], f, rest, _, _ => by simp [encs, decN]
  | x :: xs, f, rest, hw, hf => by
    simp only [szs] at hf
    obtain ⟨g, rfl⟩ : ∃ g, f = g + 1 := ⟨f - 1, by omega⟩
    simp only [WFs] at hw
    simp only [encs, List.length_cons, decN, List.append_assoc]
    rw [dec_enc x g (encs xs ++ rest) hw.1 (by omega)]
    simp only []
    rw [decN_encs xs g rest hw.2 (by omega)]
end

/-! ## the recursion bound of `decode` is enough for everything the writer writes -/

theorem encInt_length_pos (i : Int) : 1 ≤ (encInt i).length := by
  unfold encInt
  simp only []
  repeat' split
  all_goals simp
theorem strHdr_length_pos (n : Nat) : 1 ≤ (strHdr n).length := by
  unfold strHdr; repeat' split
  all_goals simp
theorem binHdr_length_pos (n : Nat) : 1 ≤ (binHdr n).length := by
  unfold binHdr; repeat' split
  all_goals simp
theorem arrHdr_length_pos (n : Nat) : 1 ≤ (arrHdr n).length := by
  unfold arrHdr; repeat' split
  all_goals simp
theorem mapHdr_length_pos (n : Nat) : 1 ≤ (mapHdr n).length := by
  unfold mapHdr; repeat' split
  all_goals simp

mutual
theorem sz_le : ∀ v : MV, sz v + 1 ≤ 2 * (enc v).length
  | .nil => by simp [sz, enc]
  | .bool false => by simp [sz, enc]
  | .bool true => by simp [sz, enc]
  | .int i => by have := encInt_length_pos i; simp only [sz, enc]; omega
  | .str bs => by have := strHdr_length_pos bs.length; simp only [sz, enc, List.length_append]; omega
  | .bin bs => by have := binHdr_length_pos bs.length; simp only [sz, enc, List.length_append]; omega
  | .arr xs => by
    have := arrHdr_length_pos xs.length; have := szs_le xs
    simp only [sz, enc, List.length_append]; omega
  | .map kvs => by
    have := mapHdr_length_pos (kvs.length / 2); have := szs_le kvs
    simp only [sz, enc, List.length_append]; omega
theorem szs_le : ∀ xs : List MV, szs xs ≤ 2 * (encs xs).length
  | [] => by simp [szs]
  | x :: xs => by
    have := sz_le x; have := szs_le xs
    simp only [szs, encs, List.length_append]; omega
end

/-! ## property theorems -/

/-- **what is written is read back**, whatever follows it: for every value of the fragment, of any nesting depth -/
theorem C15_mp_decode_encode (v : MV) (hw : v.WF) (rest : List Nat) : decode (enc v ++ rest) = some v := by
  unfold decode
  have h := sz_le v
  rw [dec_enc v _ rest hw (by simp only [List.length_append]; omega)]
  rfl

/-- the encoding is self-delimiting: no value's bytes are the beginning of another value's bytes followed by something -/
theorem C15_mp_prefix_free (v₁ v₂ : MV) (h₁ : v₁.WF) (h₂ : v₂.WF) (r₁ r₂ : List Nat)
    (h : enc v₁ ++ r₁ = enc v₂ ++ r₂) : v₁ = v₂ ∧ r₁ = r₂ := by
  have e₁ := dec_enc v₁ (sz v₁ + sz v₂) r₁ h₁ (by omega)
  have e₂ := dec_enc v₂ (sz v₁ + sz v₂) r₂ h₂ (by omega)
  rw [h, e₂] at e₁
  cases e₁; exact ⟨rfl, rfl⟩

/-- distinct values have distinct byte strings -/
theorem C15_mp_injective (v₁ v₂ : MV) (h₁ : v₁.WF) (h₂ : v₂.WF) (h : enc v₁ = enc v₂) : v₁ = v₂ :=
  (C15_mp_prefix_free v₁ v₂ h₁ h₂ [] [] (by rw [h])).1

/-- a sequence of values written one after the other is read back element by element (the members of a structure) -/
theorem C15_mp_sequence (xs : List MV) (hw : WFs xs) (rest : List Nat) :
    decN (szs xs) xs.length (encs xs ++ rest) = some (xs, rest) := decN_encs xs _ rest hw (Nat.le_refl _)

/-- trailing bytes are not looked at (`from_slice`): a second spelling of every value exists at this layer; it is the
base64 layer's text-for-bytes theorem and the document comparison that pin the text -/
theorem C15_mp_trailing_ignored (v : MV) (hw : v.WF) (junk : List Nat) : decode (enc v ++ junk) = decode (enc v) := by
  rw [C15_mp_decode_encode v hw junk]
  have := C15_mp_decode_encode v hw []
  rw [List.append_nil] at this
  exact this.symm

/-- the reader accepts longer forms the writer never produces (here: 5 as an `i32`), so reading is not injective -/
theorem C15_mp_reader_accepts_wide_forms : decode [0xd2, 0, 0, 0, 5] = some (.int 5) ∧ enc (.int 5) = [5] := by
  constructor
  · simp [decode, dec, readBe, takeN, beVal, sgn]
  · simp [enc, encInt]

/-! ## the bytes written are bytes -/

theorem allLt_append {k : Nat} {a b : List Nat} (ha : AllLt k a) (hb : AllLt k b) : AllLt k (a ++ b) := by
  intro x hx
  rcases List.mem_append.mp hx with h | h
  · exact ha x h
  · exact hb x h

theorem allLt_cons {k x : Nat} {a : List Nat} (hx : x < k) (ha : AllLt k a) : AllLt k (x :: a) := by
  intro y hy
  rcases List.mem_cons.mp hy with h | h
  · subst h; exact hx
  · exact ha y h

theorem allLt_nil (k : Nat) : AllLt k [] := by intro x hx; cases hx

theorem encInt_lt {i : Int} (h1 : -(9223372036854775808 : Int) ≤ i) (h2 : i < 18446744073709551616) : AllLt 256 (encInt i) := by
  unfold encInt
  simp only []
  repeat' split
  all_goals first
    | exact allLt_cons (by omega) (be_lt _ _)
    | exact allLt_cons (by omega) (allLt_nil _)

theorem strHdr_lt (n : Nat) : AllLt 256 (strHdr n) := by
  unfold strHdr
  repeat' split
  all_goals first
    | exact allLt_cons (by omega) (be_lt _ _)
    | exact allLt_cons (by omega) (allLt_nil _)
theorem binHdr_lt (n : Nat) : AllLt 256 (binHdr n) := by
  unfold binHdr
  repeat' split
  all_goals exact allLt_cons (by omega) (be_lt _ _)
theorem arrHdr_lt (n : Nat) : AllLt 256 (arrHdr n) := by
  unfold arrHdr
  repeat' split
  all_goals first
    | exact allLt_cons (by omega) (be_lt _ _)
    | exact allLt_cons (by omega) (allLt_nil _)
theorem mapHdr_lt (n : Nat) : AllLt 256 (mapHdr n) := by
  unfold mapHdr
  repeat' split
  all_goals first
    | exact allLt_cons (by omega) (be_lt _ _)
    | exact allLt_cons (by omega) (allLt_nil _)

mutual
/-- the text and byte-string members hold bytes -/
def MV.Bytes : MV → Prop
  | .str bs => AllLt 256 bs
  | .bin bs => AllLt 256 bs
  | .arr xs => Bytess xs
  | .map kvs => Bytess kvs
  | _ => True
def Bytess : List MV → Prop
  | [] => True
  | x :: xs => x.Bytes ∧ Bytess xs
end

mutual
theorem enc_lt : ∀ v : MV, v.WF → v.Bytes → AllLt 256 (enc v)
  | .nil, _, _ => by simp only [enc]; exact allLt_cons (by omega) (allLt_nil _)
  | .bool false, _, _ => by simp only [enc]; exact allLt_cons (by omega) (allLt_nil _)
  | .bool true, _, _ => by simp only [enc]; exact allLt_cons (by omega) (allLt_nil _)
  | .int i, hw, _ => by simp only [MV.WF] at hw; simp only [enc]; exact encInt_lt hw.1 hw.2
  | .str bs, _, hb => by simp only [MV.Bytes] at hb; simp only [enc]; exact allLt_append (strHdr_lt _) hb
  | .bin bs, _, hb => by simp only [MV.Bytes] at hb; simp only [enc]; exact allLt_append (binHdr_lt _) hb
  | .arr xs, hw, hb => by
    simp only [MV.WF] at hw; simp only [MV.Bytes] at hb
    simp only [enc]; exact allLt_append (arrHdr_lt _) (encs_lt xs hw.2 hb)
  | .map kvs, hw, hb => by
    simp only [MV.WF] at hw; simp only [MV.Bytes] at hb
    simp only [enc]; exact allLt_append (mapHdr_lt _) (encs_lt kvs hw.2.2 hb)
theorem encs_lt : ∀ xs : List MV, WFs xs → Bytess xs → AllLt 256 (encs xs)
  | [], _, _ => by simp only [encs]; exact allLt_nil _
  | x :: xs, hw, hb => by
    simp only [WFs] at hw; simp only [Bytess] at hb
    simp only [encs]; exact allLt_append (enc_lt x hw.1 hb.1) (encs_lt xs hw.2 hb.2)
end

/-! ## the whole proof value: text → base64url → msgpack → tagged sequence -/

/-- `DataIntegrityProofValue::serialize` through `format::base64_msgpack::serialize` -/
def pvWrite (k : Nat) (p : MV) : List Char := AnonModel.Base64.envelopeEncode (enc (tagged k p))

/-- `format::base64_msgpack::deserialize` and the visitor of the tagged sequence, up to the typed payload -/
def pvRead (s : List Char) : Option (Nat × MV) := (AnonModel.Base64.envelopeDecode s).bind readTagged

theorem tagged_wf {k : Nat} {p : MV} (hk : k = 1 ∨ k = 2 ∨ k = 3) (hw : p.WF) : (tagged k p).WF := by
  simp only [tagged, MV.WF, WFs, List.length_cons, List.length_nil]
  refine ⟨by omega, ⟨by omega, by omega⟩, hw, trivial⟩

/-- **a proof value of kind `k` with payload `p` is read back as kind `k` with payload `p`** from the text written for it: all
three layers composed, for every payload tree -/
theorem C15_pv_chain (k : Nat) (hk : k = 1 ∨ k = 2 ∨ k = 3) (p : MV) (hw : p.WF) (hb : p.Bytes) :
    pvRead (pvWrite k p) = some (k, p) := by
  unfold pvRead pvWrite
  have hlt : AllLt 256 (enc (tagged k p)) :=
    enc_lt _ (tagged_wf hk hw) (by simp only [tagged, MV.Bytes, Bytess]; exact ⟨trivial, hb, trivial⟩)
  rw [AnonModel.Base64.C15_envelope_decode_encode _ hlt]
  simp only [Option.bind_some, readTagged]
  have := C15_mp_decode_encode (tagged k p) (tagged_wf hk hw) []
  rw [List.append_nil] at this
  rw [this]
  simp only [Option.bind_some, tagged, untag]
  rcases hk with h | h | h <;> subst h <;> simp

/-- two proof values with the same text are the same kind and payload -/
theorem C15_pv_chain_injective (k₁ k₂ : Nat) (h₁ : k₁ = 1 ∨ k₁ = 2 ∨ k₁ = 3) (h₂ : k₂ = 1 ∨ k₂ = 2 ∨ k₂ = 3)
    (p₁ p₂ : MV) (w₁ : p₁.WF) (w₂ : p₂.WF) (b₁ : p₁.Bytes) (b₂ : p₂.Bytes) (h : pvWrite k₁ p₁ = pvWrite k₂ p₂) :
    k₁ = k₂ ∧ p₁ = p₂ := by
  have e₁ := C15_pv_chain k₁ h₁ p₁ w₁ b₁
  have e₂ := C15_pv_chain k₂ h₂ p₂ w₂ b₂
  rw [h, e₂] at e₁
  cases e₁; exact ⟨rfl, rfl⟩

/-- a sequence with another tag, a third element, or no payload is refused whatever the payload is -/
theorem C15_pv_untag_shape (v : MV) (k : Nat) (p : MV) (h : untag v = some (k, p)) :
    v = .arr [.int k, p] ∧ (k = 1 ∨ k = 2 ∨ k = 3) := by
  unfold untag at h
  split at h
  · next t q =>
    repeat' split at h
    all_goals first
      | (cases h; done)
      | (cases h; rename_i ht; rw [ht]; simp)
  · cases h

/-! ## structures: every member written is the member found after the trip -/

theorem members_length (fields : List (List Nat × MV)) : (members fields).length = 2 * fields.length := by
  induction fields with
  | nil => rfl
  | cons f r ih => obtain ⟨k, v⟩ := f; simp only [members, List.length_cons, ih]; omega

theorem field_members : ∀ (fields : List (List Nat × MV)) (k : List Nat) (v : MV),
    (fields.map (·.1)).Nodup → (k, v) ∈ fields → field k (members fields) = some v
  | [], _, _, _, h => by cases h
  | (k', v') :: r, k, v, hn, hm => by
    simp only [List.map_cons, List.nodup_cons] at hn
    simp only [members, field]
    rcases List.mem_cons.mp hm with h | h
    · cases h; simp
    · have hne : k' ≠ k := by
        intro e; subst e
        exact hn.1 (List.mem_map.mpr ⟨(k', v), h, rfl⟩)
      rw [if_neg hne]
      exact field_members r k v hn.2 h

theorem field_absent : ∀ (fields : List (List Nat × MV)) (k : List Nat),
    k ∉ fields.map (·.1) → field k (members fields) = none
  | [], _, _ => rfl
  | (k', v') :: r, k, h => by
    simp only [List.map_cons, List.mem_cons, not_or] at h
    simp only [members, field]
    rw [if_neg (fun e => h.1 e.symm)]
    exact field_absent r k h.2

/-- a structure whose members are well formed is well formed (fewer than 2^32 members) -/
theorem structMV_wf (fields : List (List Nat × MV)) (hn : fields.length < 4294967296)
    (hk : ∀ f ∈ fields, f.1.length < 4294967296) (hv : ∀ f ∈ fields, f.2.WF) : (structMV fields).WF := by
  have hw : WFs (members fields) := by
    induction fields with
    | nil => simp [members, WFs]
    | cons f r ih =>
      obtain ⟨k, v⟩ := f
      simp only [members, WFs, MV.WF]
      refine ⟨hk (k, v) (by simp), hv (k, v) (by simp), ?_⟩
      exact ih (by simp at hn; omega) (fun f hf => hk f (by simp [hf])) (fun f hf => hv f (by simp [hf]))
  simp only [structMV, MV.WF, members_length]
  exact ⟨by omega, by omega, hw⟩

/-- **a structure survives the trip member by member**: from the bytes written for a structure with distinct member names,
the reader gets a map in which every member name leads to the value that was written, and no other name leads anywhere
(an optional member that was skipped is absent, hence `None`) -/
theorem C15_mp_struct_members (fields : List (List Nat × MV)) (hn : fields.length < 4294967296)
    (hk : ∀ f ∈ fields, f.1.length < 4294967296) (hv : ∀ f ∈ fields, f.2.WF) (hd : (fields.map (·.1)).Nodup)
    (rest : List Nat) :
    ∃ kvs, decode (enc (structMV fields) ++ rest) = some (.map kvs) ∧
      (∀ k v, (k, v) ∈ fields → field k kvs = some v) ∧ (∀ k, k ∉ fields.map (·.1) → field k kvs = none) :=
  ⟨members fields, C15_mp_decode_encode _ (structMV_wf fields hn hk hv) rest,
    fun k v h => field_members fields k v hd h, fun k h => field_absent fields k h⟩

/-! ## the typed layer on top: the visitor of `WirePv` on elements classified from the bytes -/

theorem itemOf_payload {p : MV} {j : Nat} (h : payloadKind p = some j) : itemOf p = .payload j := by
  cases p with
  | map kvs => simp only [itemOf, h]
  | _ => simp [payloadKind] at h

theorem payloadKind_range {p : MV} {j : Nat} (h : payloadKind p = some j) : j = 1 ∨ j = 2 ∨ j = 3 := by
  cases p with
  | map kvs =>
    simp only [payloadKind] at h
    repeat' split at h
    all_goals first
      | (cases h; simp)
      | cases h
  | _ => simp [payloadKind] at h

/-- **the bytes written for a proof value of kind `k` are read as kind `k`** when the payload has the members of structure
`k`, and are refused when it has those of another structure — the decision computed from the bytes, all layers composed -/
theorem C15_pv_typed (k j : Nat) (hk : k = 1 ∨ k = 2 ∨ k = 3) (p : MV) (hw : p.WF) (hp : payloadKind p = some j)
    (junk : List Nat) :
    readTyped (enc (tagged k p) ++ junk) = if j = k then some k else none := by
  unfold readTyped
  rw [C15_mp_decode_encode (tagged k p) (tagged_wf hk hw) junk]
  simp only [tagged, List.map_cons, List.map_nil, itemOf_payload hp]
  have hi : itemOf (.int (k : Int)) = .int k := by
    simp only [itemOf]
    rw [if_pos (by omega)]
  rw [hi]
  have hj := payloadKind_range hp
  rcases hk with h | h | h <;> subst h <;> rcases hj with g | g | g <;> subst g <;> decide

/-- and the text written for it, through the header and the base64 layer -/
theorem C15_pv_typed_text (k : Nat) (hk : k = 1 ∨ k = 2 ∨ k = 3) (p : MV) (hw : p.WF) (hb : p.Bytes)
    (hp : payloadKind p = some k) :
    (AnonModel.Base64.envelopeDecode (pvWrite k p)).bind readTyped = some k := by
  unfold pvWrite
  have hlt : AllLt 256 (enc (tagged k p)) :=
    enc_lt _ (tagged_wf hk hw) (by simp only [tagged, MV.Bytes, Bytess]; exact ⟨trivial, hb, trivial⟩)
  rw [AnonModel.Base64.C15_envelope_decode_encode _ hlt]
  simp only [Option.bind_some]
  have := C15_pv_typed k k hk p hw hp []
  rw [List.append_nil, if_pos rfl] at this
  exact this

/-! non-vacuity -/
example : enc (.map [.str [97], .int 300, .str [98], .arr [.nil, .bool true, .int (-33)]])
    = [0x82, 0xa1, 97, 0xcd, 1, 44, 0xa1, 98, 0x93, 0xc0, 0xc3, 0xd0, 223] := by
  simp [enc, encs, mapHdr, strHdr, arrHdr, encInt, be]
example : (MV.map [.str [97], .int 300, .str [98], .arr [.nil, .bool true, .int (-33)]]).WF := by
  simp [MV.WF, WFs]

end AnonModel.Msgpack

namespace AnonModel.Msgpack
open AnonModel.Base64 (AllLt)
/-! ## what the reader returns is well formed -/

theorem takeN_spec {n : Nat} {bs h r : List Nat} (e : takeN n bs = some (h, r)) : h.length = n ∧ bs = h ++ r := by
  unfold takeN at e
  split at e
  · cases e
  · next hl =>
    cases e
    refine ⟨by simp; omega, (List.take_append_drop n bs).symm⟩

theorem allLt_of_append {k : Nat} {a b : List Nat} (h : AllLt k (a ++ b)) : AllLt k a ∧ AllLt k b :=
  ⟨fun x hx => h x (List.mem_append.mpr (Or.inl hx)), fun x hx => h x (List.mem_append.mpr (Or.inr hx))⟩

theorem beVal_lt : ∀ (h : List Nat), AllLt 256 h → ∀ acc, h.foldl (fun a b => a * 256 + b) acc < (acc + 1) * 256 ^ h.length
  | [], _, acc => by simp
  | x :: xs, hl, acc => by
    simp only [List.foldl_cons, List.length_cons]
    have hx : x < 256 := hl x (by simp)
    have ih := beVal_lt xs (fun y hy => hl y (by simp [hy])) (acc * 256 + x)
    have : (acc * 256 + x + 1) * 256 ^ xs.length ≤ ((acc + 1) * 256) * 256 ^ xs.length :=
      Nat.mul_le_mul_right _ (by omega)
    rw [Nat.pow_succ, Nat.mul_comm (256 ^ xs.length) 256, ← Nat.mul_assoc]
    omega

theorem readBe_spec {k : Nat} {bs r : List Nat} {n : Nat} (hb : AllLt 256 bs) (e : readBe k bs = some (n, r)) :
    n < 256 ^ k ∧ AllLt 256 r ∧ r.length ≤ bs.length := by
  unfold readBe at e
  cases ht : takeN k bs with
  | none => simp [ht] at e
  | some p =>
    obtain ⟨h, r'⟩ := p
    rw [ht] at e
    simp only [Option.some.injEq, Prod.mk.injEq] at e
    obtain ⟨e1, e2⟩ := e
    subst e2
    obtain ⟨hl, hs⟩ := takeN_spec ht
    subst hs
    obtain ⟨h1, h2⟩ := allLt_of_append hb
    have := beVal_lt h h1 0
    rw [hl] at this
    refine ⟨by rw [← e1]; simpa [beVal] using this, h2, by simp⟩

theorem readRun_spec {k : Nat} {bs s r : List Nat} (hb : AllLt 256 bs) (e : readRun k bs = some (s, r)) :
    s.length < 256 ^ k ∧ AllLt 256 r ∧ r.length ≤ bs.length := by
  unfold readRun at e
  cases hr : readBe k bs with
  | none => simp [hr] at e
  | some p =>
    obtain ⟨n, r'⟩ := p
    rw [hr] at e
    simp only at e
    obtain ⟨h1, h2, h3⟩ := readBe_spec hb hr
    obtain ⟨hl, hs⟩ := takeN_spec e
    subst hs
    obtain ⟨_, h5⟩ := allLt_of_append h2
    refine ⟨by omega, h5, by simp at h3 ⊢; omega⟩


theorem sgn_i64 {k n : Nat} (hk : k = 1 ∨ k = 2 ∨ k = 4 ∨ k = 8) (h : n < 256 ^ k) :
    -(9223372036854775808 : Int) ≤ sgn k n ∧ sgn k n < 18446744073709551616 := by
  rcases hk with e | e | e | e <;> subst e <;> simp [sgn] at h ⊢ <;> split <;> omega

theorem dec_decN_wf : ∀ f : Nat,
    (∀ bs v r, AllLt 256 bs → dec f bs = some (v, r) → v.WF ∧ AllLt 256 r) ∧
    (∀ n bs xs r, AllLt 256 bs → decN f n bs = some (xs, r) → WFs xs ∧ xs.length = n ∧ AllLt 256 r) := by
  intro f
  induction f with
  | zero =>
    refine ⟨fun bs v r _ h => by simp [dec] at h, fun n bs xs r hb h => ?_⟩
    cases n with
    | zero => simp only [decN, Option.some.injEq, Prod.mk.injEq] at h; obtain ⟨h1, h2⟩ := h; subst h1; subst h2; exact ⟨trivial, rfl, hb⟩
    | succ n => simp [decN] at h
  | succ f ih =>
    obtain ⟨ihd, ihn⟩ := ih
    refine ⟨?_, ?_⟩
    · intro bs v r hb h
      cases bs with
      | nil => simp [dec] at h
      | cons b rest =>
        have hb256 : b < 256 := hb b (by simp)
        have hrest : AllLt 256 rest := fun x hx => hb x (by simp [hx])
        by_cases c1 : b < 128
        · rw [dec_pfix c1] at h
          simp only [Option.some.injEq, Prod.mk.injEq] at h; obtain ⟨h1, h2⟩ := h; subst h1; subst h2
          exact ⟨by simp only [MV.WF]; omega, hrest⟩
        by_cases c2 : b < 144
        · have e : b = 0x80 + (b - 128) := by omega
          rw [e, dec_fixmap (by omega)] at h
          cases hd : decN f (2 * (b - 128)) rest with
          | none => simp [hd] at h
          | some p =>
            obtain ⟨xs, r'⟩ := p
            rw [hd] at h
            simp only [Option.some.injEq, Prod.mk.injEq] at h; obtain ⟨h1, h2⟩ := h; subst h1; subst h2
            obtain ⟨w1, w2, w3⟩ := ihn _ _ _ _ hrest hd
            exact ⟨by simp only [MV.WF]; exact ⟨by omega, by omega, w1⟩, w3⟩
        by_cases c3 : b < 160
        · have e : b = 0x90 + (b - 144) := by omega
          rw [e, dec_fixarr (by omega)] at h
          cases hd : decN f (b - 144) rest with
          | none => simp [hd] at h
          | some p =>
            obtain ⟨xs, r'⟩ := p
            rw [hd] at h
            simp only [Option.some.injEq, Prod.mk.injEq] at h; obtain ⟨h1, h2⟩ := h; subst h1; subst h2
            obtain ⟨w1, w2, w3⟩ := ihn _ _ _ _ hrest hd
            exact ⟨by simp only [MV.WF]; exact ⟨by omega, w1⟩, w3⟩
        by_cases c4 : b < 192
        · have e : b = 0xa0 + (b - 160) := by omega
          rw [e, dec_fixstr (by omega)] at h
          cases hd : takeN (b - 160) rest with
          | none => simp [hd] at h
          | some p =>
            obtain ⟨s, r'⟩ := p
            rw [hd] at h
            simp only [Option.some.injEq, Prod.mk.injEq] at h; obtain ⟨h1, h2⟩ := h; subst h1; subst h2
            obtain ⟨w1, w2⟩ := takeN_spec hd
            subst w2
            exact ⟨by simp only [MV.WF]; omega, (allLt_of_append hrest).2⟩
        by_cases c5 : 224 ≤ b
        · rw [dec_nfix c5 hb256] at h
          simp only [Option.some.injEq, Prod.mk.injEq] at h; obtain ⟨h1, h2⟩ := h; subst h1; subst h2
          exact ⟨by simp only [MV.WF]; omega, hrest⟩
        have hcases : b = 192 ∨ b = 193 ∨ b = 194 ∨ b = 195 ∨ b = 196 ∨ b = 197 ∨ b = 198 ∨ b = 199 ∨ b = 200 ∨ b = 201 ∨ b = 202 ∨ b = 203 ∨ b = 204 ∨ b = 205 ∨ b = 206 ∨ b = 207 ∨ b = 208 ∨ b = 209 ∨ b = 210 ∨ b = 211 ∨ b = 212 ∨ b = 213 ∨ b = 214 ∨ b = 215 ∨ b = 216 ∨ b = 217 ∨ b = 218 ∨ b = 219 ∨ b = 220 ∨ b = 221 ∨ b = 222 ∨ b = 223 := by omega
        rcases hcases with e | e | e | e | e | e | e | e | e | e | e | e | e | e | e | e | e | e | e | e | e | e | e | e | e | e | e | e | e | e | e | e
        · subst e; rw [dec_c0] at h; simp only [Option.some.injEq, Prod.mk.injEq] at h; obtain ⟨h1, h2⟩ := h; subst h1; subst h2; exact ⟨by simp [MV.WF], hrest⟩
        · subst e; simp [dec] at h
        · subst e; rw [dec_c2] at h; simp only [Option.some.injEq, Prod.mk.injEq] at h; obtain ⟨h1, h2⟩ := h; subst h1; subst h2; exact ⟨by simp [MV.WF], hrest⟩
        · subst e; rw [dec_c3] at h; simp only [Option.some.injEq, Prod.mk.injEq] at h; obtain ⟨h1, h2⟩ := h; subst h1; subst h2; exact ⟨by simp [MV.WF], hrest⟩
        · subst e; rw [dec_c4] at h
          cases hd : readRun 1 rest with
          | none => simp [hd] at h
          | some p =>
            obtain ⟨s, r'⟩ := p
            rw [hd] at h
            simp only [Option.some.injEq, Prod.mk.injEq] at h; obtain ⟨h1, h2⟩ := h; subst h1; subst h2
            obtain ⟨w1, w2, _⟩ := readRun_spec hrest hd
            simp at w1
            exact ⟨by simp only [MV.WF]; omega, w2⟩
        · subst e; rw [dec_c5] at h
          cases hd : readRun 2 rest with
          | none => simp [hd] at h
          | some p =>
            obtain ⟨s, r'⟩ := p
            rw [hd] at h
            simp only [Option.some.injEq, Prod.mk.injEq] at h; obtain ⟨h1, h2⟩ := h; subst h1; subst h2
            obtain ⟨w1, w2, _⟩ := readRun_spec hrest hd
            simp at w1
            exact ⟨by simp only [MV.WF]; omega, w2⟩
        · subst e; rw [dec_c6] at h
          cases hd : readRun 4 rest with
          | none => simp [hd] at h
          | some p =>
            obtain ⟨s, r'⟩ := p
            rw [hd] at h
            simp only [Option.some.injEq, Prod.mk.injEq] at h; obtain ⟨h1, h2⟩ := h; subst h1; subst h2
            obtain ⟨w1, w2, _⟩ := readRun_spec hrest hd
            simp at w1
            exact ⟨by simp only [MV.WF]; omega, w2⟩
        · subst e; simp [dec] at h
        · subst e; simp [dec] at h
        · subst e; simp [dec] at h
        · subst e; simp [dec] at h
        · subst e; simp [dec] at h
        · subst e; rw [dec_cc] at h
          cases hd : readBe 1 rest with
          | none => simp [hd] at h
          | some p =>
            obtain ⟨n, r'⟩ := p
            rw [hd] at h
            simp only [Option.some.injEq, Prod.mk.injEq] at h; obtain ⟨h1, h2⟩ := h; subst h1; subst h2
            obtain ⟨w1, w2, _⟩ := readBe_spec hrest hd
            simp at w1
            exact ⟨by simp only [MV.WF]; omega, w2⟩
        · subst e; rw [dec_cd] at h
          cases hd : readBe 2 rest with
          | none => simp [hd] at h
          | some p =>
            obtain ⟨n, r'⟩ := p
            rw [hd] at h
            simp only [Option.some.injEq, Prod.mk.injEq] at h; obtain ⟨h1, h2⟩ := h; subst h1; subst h2
            obtain ⟨w1, w2, _⟩ := readBe_spec hrest hd
            simp at w1
            exact ⟨by simp only [MV.WF]; omega, w2⟩
        · subst e; rw [dec_ce] at h
          cases hd : readBe 4 rest with
          | none => simp [hd] at h
          | some p =>
            obtain ⟨n, r'⟩ := p
            rw [hd] at h
            simp only [Option.some.injEq, Prod.mk.injEq] at h; obtain ⟨h1, h2⟩ := h; subst h1; subst h2
            obtain ⟨w1, w2, _⟩ := readBe_spec hrest hd
            simp at w1
            exact ⟨by simp only [MV.WF]; omega, w2⟩
        · subst e; rw [dec_cf] at h
          cases hd : readBe 8 rest with
          | none => simp [hd] at h
          | some p =>
            obtain ⟨n, r'⟩ := p
            rw [hd] at h
            simp only [Option.some.injEq, Prod.mk.injEq] at h; obtain ⟨h1, h2⟩ := h; subst h1; subst h2
            obtain ⟨w1, w2, _⟩ := readBe_spec hrest hd
            simp at w1
            exact ⟨by simp only [MV.WF]; omega, w2⟩
        · subst e; rw [dec_d0] at h
          cases hd : readBe 1 rest with
          | none => simp [hd] at h
          | some p =>
            obtain ⟨n, r'⟩ := p
            rw [hd] at h
            simp only [Option.some.injEq, Prod.mk.injEq] at h; obtain ⟨h1, h2⟩ := h; subst h1; subst h2
            obtain ⟨w1, w2, _⟩ := readBe_spec hrest hd
            exact ⟨by simp only [MV.WF]; exact sgn_i64 (by decide) w1, w2⟩
        · subst e; rw [dec_d1] at h
          cases hd : readBe 2 rest with
          | none => simp [hd] at h
          | some p =>
            obtain ⟨n, r'⟩ := p
            rw [hd] at h
            simp only [Option.some.injEq, Prod.mk.injEq] at h; obtain ⟨h1, h2⟩ := h; subst h1; subst h2
            obtain ⟨w1, w2, _⟩ := readBe_spec hrest hd
            exact ⟨by simp only [MV.WF]; exact sgn_i64 (by decide) w1, w2⟩
        · subst e; rw [dec_d2] at h
          cases hd : readBe 4 rest with
          | none => simp [hd] at h
          | some p =>
            obtain ⟨n, r'⟩ := p
            rw [hd] at h
            simp only [Option.some.injEq, Prod.mk.injEq] at h; obtain ⟨h1, h2⟩ := h; subst h1; subst h2
            obtain ⟨w1, w2, _⟩ := readBe_spec hrest hd
            exact ⟨by simp only [MV.WF]; exact sgn_i64 (by decide) w1, w2⟩
        · subst e; rw [dec_d3] at h
          cases hd : readBe 8 rest with
          | none => simp [hd] at h
          | some p =>
            obtain ⟨n, r'⟩ := p
            rw [hd] at h
            simp only [Option.some.injEq, Prod.mk.injEq] at h; obtain ⟨h1, h2⟩ := h; subst h1; subst h2
            obtain ⟨w1, w2, _⟩ := readBe_spec hrest hd
            exact ⟨by simp only [MV.WF]; exact sgn_i64 (by decide) w1, w2⟩
        · subst e; simp [dec] at h
        · subst e; simp [dec] at h
        · subst e; simp [dec] at h
        · subst e; simp [dec] at h
        · subst e; simp [dec] at h
        · subst e; rw [dec_d9] at h
          cases hd : readRun 1 rest with
          | none => simp [hd] at h
          | some p =>
            obtain ⟨s, r'⟩ := p
            rw [hd] at h
            simp only [Option.some.injEq, Prod.mk.injEq] at h; obtain ⟨h1, h2⟩ := h; subst h1; subst h2
            obtain ⟨w1, w2, _⟩ := readRun_spec hrest hd
            simp at w1
            exact ⟨by simp only [MV.WF]; omega, w2⟩
        · subst e; rw [dec_da] at h
          cases hd : readRun 2 rest with
          | none => simp [hd] at h
          | some p =>
            obtain ⟨s, r'⟩ := p
            rw [hd] at h
            simp only [Option.some.injEq, Prod.mk.injEq] at h; obtain ⟨h1, h2⟩ := h; subst h1; subst h2
            obtain ⟨w1, w2, _⟩ := readRun_spec hrest hd
            simp at w1
            exact ⟨by simp only [MV.WF]; omega, w2⟩
        · subst e; rw [dec_db] at h
          cases hd : readRun 4 rest with
          | none => simp [hd] at h
          | some p =>
            obtain ⟨s, r'⟩ := p
            rw [hd] at h
            simp only [Option.some.injEq, Prod.mk.injEq] at h; obtain ⟨h1, h2⟩ := h; subst h1; subst h2
            obtain ⟨w1, w2, _⟩ := readRun_spec hrest hd
            simp at w1
            exact ⟨by simp only [MV.WF]; omega, w2⟩
        · subst e; rw [dec_dc] at h
          cases hd : readBe 2 rest with
          | none => simp [hd] at h
          | some p =>
            obtain ⟨n, r'⟩ := p
            rw [hd] at h
            simp only at h
            obtain ⟨w1, w2, _⟩ := readBe_spec hrest hd
            simp at w1
            cases hq : decN f n r' with
            | none => simp [hq] at h
            | some q =>
              obtain ⟨xs, r2⟩ := q
              rw [hq] at h
              simp only [Option.some.injEq, Prod.mk.injEq] at h; obtain ⟨h1, h2⟩ := h; subst h1; subst h2
              obtain ⟨v1, v2, v3⟩ := ihn _ _ _ _ w2 hq
              exact ⟨by simp only [MV.WF]; exact ⟨by omega, v1⟩, v3⟩
        · subst e; rw [dec_dd] at h
          cases hd : readBe 4 rest with
          | none => simp [hd] at h
          | some p =>
            obtain ⟨n, r'⟩ := p
            rw [hd] at h
            simp only at h
            obtain ⟨w1, w2, _⟩ := readBe_spec hrest hd
            simp at w1
            cases hq : decN f n r' with
            | none => simp [hq] at h
            | some q =>
              obtain ⟨xs, r2⟩ := q
              rw [hq] at h
              simp only [Option.some.injEq, Prod.mk.injEq] at h; obtain ⟨h1, h2⟩ := h; subst h1; subst h2
              obtain ⟨v1, v2, v3⟩ := ihn _ _ _ _ w2 hq
              exact ⟨by simp only [MV.WF]; exact ⟨by omega, v1⟩, v3⟩
        · subst e; rw [dec_de] at h
          cases hd : readBe 2 rest with
          | none => simp [hd] at h
          | some p =>
            obtain ⟨n, r'⟩ := p
            rw [hd] at h
            simp only at h
            obtain ⟨w1, w2, _⟩ := readBe_spec hrest hd
            simp at w1
            cases hq : decN f (2 * n) r' with
            | none => simp [hq] at h
            | some q =>
              obtain ⟨xs, r2⟩ := q
              rw [hq] at h
              simp only [Option.some.injEq, Prod.mk.injEq] at h; obtain ⟨h1, h2⟩ := h; subst h1; subst h2
              obtain ⟨v1, v2, v3⟩ := ihn _ _ _ _ w2 hq
              exact ⟨by simp only [MV.WF]; exact ⟨by omega, by omega, v1⟩, v3⟩
        · subst e; rw [dec_df] at h
          cases hd : readBe 4 rest with
          | none => simp [hd] at h
          | some p =>
            obtain ⟨n, r'⟩ := p
            rw [hd] at h
            simp only at h
            obtain ⟨w1, w2, _⟩ := readBe_spec hrest hd
            simp at w1
            cases hq : decN f (2 * n) r' with
            | none => simp [hq] at h
            | some q =>
              obtain ⟨xs, r2⟩ := q
              rw [hq] at h
              simp only [Option.some.injEq, Prod.mk.injEq] at h; obtain ⟨h1, h2⟩ := h; subst h1; subst h2
              obtain ⟨v1, v2, v3⟩ := ihn _ _ _ _ w2 hq
              exact ⟨by simp only [MV.WF]; exact ⟨by omega, by omega, v1⟩, v3⟩
    · intro n bs xs r hb h
      cases n with
      | zero => simp only [decN, Option.some.injEq, Prod.mk.injEq] at h; obtain ⟨h1, h2⟩ := h; subst h1; subst h2; exact ⟨trivial, rfl, hb⟩
      | succ n =>
        simp only [decN] at h
        cases hd : dec f bs with
        | none => simp [hd] at h
        | some p =>
          obtain ⟨x, r1⟩ := p
          rw [hd] at h
          simp only at h
          obtain ⟨wx, wr1⟩ := ihd _ _ _ hb hd
          cases hn : decN f n r1 with
          | none => simp [hn] at h
          | some q =>
            obtain ⟨ys, r2⟩ := q
            rw [hn] at h
            simp only [Option.some.injEq, Prod.mk.injEq] at h; obtain ⟨h1, h2⟩ := h; subst h1; subst h2
            obtain ⟨w1, w2, w3⟩ := ihn _ _ _ _ wr1 hn
            exact ⟨⟨wx, w1⟩, by simp [w2], w3⟩


/-- **everything the reader returns lies in the fragment the writer handles** (integers of `i64 ∪ u64`, lengths below 2^32, maps
as pairs), for every byte string, accepted in whatever form -/
theorem C15_mp_reader_output_wf (bs : List Nat) (hb : AllLt 256 bs) (v : MV) (h : decode bs = some v) : v.WF := by
  unfold decode at h
  cases hd : dec (2 * bs.length + 2) bs with
  | none => simp [hd] at h
  | some p =>
    obtain ⟨v', r⟩ := p
    rw [hd] at h
    simp only [Option.map_some, Option.some.injEq] at h
    subst h
    exact ((dec_decN_wf _).1 bs v' r hb hd).1

/-- **so what was read can be written again and is then read back as the same value**: serialising the deserialised object and
deserialising once more changes nothing, also when the bytes received were in a longer form or had bytes after them -/
theorem C15_mp_reread (bs : List Nat) (hb : AllLt 256 bs) (v : MV) (h : decode bs = some v) : decode (enc v) = some v := by
  have := C15_mp_decode_encode v (C15_mp_reader_output_wf bs hb v h) []
  rwa [List.append_nil] at this
end AnonModel.Msgpack

namespace AnonModel.Msgpack
/-! ## the recursion bound -/

/-- **the recursion bound never changes an answer**: an answer obtained with some bound is the answer with every larger one -/
theorem dec_decN_mono : ∀ f : Nat,
    (∀ bs p, dec f bs = some p → dec (f + 1) bs = some p) ∧
    (∀ n bs p, decN f n bs = some p → decN (f + 1) n bs = some p) := by
  intro f
  induction f with
  | zero =>
    refine ⟨fun bs p h => by simp [dec] at h, fun n bs p h => ?_⟩
    cases n with
    | zero => simpa [decN] using h
    | succ n => simp [decN] at h
  | succ f ih =>
    obtain ⟨ihd, ihn⟩ := ih
    refine ⟨?_, ?_⟩
    · intro bs p h
      cases bs with
      | nil => simp [dec] at h
      | cons b rest =>
        by_cases c1 : b < 128
        · rw [dec_pfix c1] at h ⊢; exact h
        by_cases c2 : b < 144
        · have e : b = 0x80 + (b - 128) := by omega
          rw [e, dec_fixmap (by omega)] at h ⊢
          cases hd : decN f (2 * (b - 128)) rest with
          | none => simp [hd] at h
          | some q => rw [hd] at h; rw [ihn _ _ _ hd]; exact h
        by_cases c3 : b < 160
        · have e : b = 0x90 + (b - 144) := by omega
          rw [e, dec_fixarr (by omega)] at h ⊢
          cases hd : decN f (b - 144) rest with
          | none => simp [hd] at h
          | some q => rw [hd] at h; rw [ihn _ _ _ hd]; exact h
        by_cases c4 : b < 192
        · have e : b = 0xa0 + (b - 160) := by omega
          rw [e, dec_fixstr (by omega)] at h ⊢; exact h
        by_cases c5 : 224 ≤ b
        · by_cases c6 : b < 256
          · rw [dec_nfix c5 c6] at h ⊢; exact h
          · simp only [dec] at h
            repeat (first | rw [if_neg (by omega)] at h)
            cases h
        have hcases : b = 192 ∨ b = 193 ∨ b = 194 ∨ b = 195 ∨ b = 196 ∨ b = 197 ∨ b = 198 ∨ b = 199 ∨ b = 200 ∨ b = 201 ∨ b = 202 ∨ b = 203 ∨ b = 204 ∨ b = 205 ∨ b = 206 ∨ b = 207 ∨ b = 208 ∨ b = 209 ∨ b = 210 ∨ b = 211 ∨ b = 212 ∨ b = 213 ∨ b = 214 ∨ b = 215 ∨ b = 216 ∨ b = 217 ∨ b = 218 ∨ b = 219 ∨ b = 220 ∨ b = 221 ∨ b = 222 ∨ b = 223 := by omega
        rcases hcases with e | e | e | e | e | e | e | e | e | e | e | e | e | e | e | e | e | e | e | e | e | e | e | e | e | e | e | e | e | e | e | e
        · subst e; rw [dec_c0] at h ⊢; exact h
        · subst e; simp [dec] at h
        · subst e; rw [dec_c2] at h ⊢; exact h
        · subst e; rw [dec_c3] at h ⊢; exact h
        · subst e; rw [dec_c4] at h ⊢; exact h
        · subst e; rw [dec_c5] at h ⊢; exact h
        · subst e; rw [dec_c6] at h ⊢; exact h
        · subst e; simp [dec] at h
        · subst e; simp [dec] at h
        · subst e; simp [dec] at h
        · subst e; simp [dec] at h
        · subst e; simp [dec] at h
        · subst e; rw [dec_cc] at h ⊢; exact h
        · subst e; rw [dec_cd] at h ⊢; exact h
        · subst e; rw [dec_ce] at h ⊢; exact h
        · subst e; rw [dec_cf] at h ⊢; exact h
        · subst e; rw [dec_d0] at h ⊢; exact h
        · subst e; rw [dec_d1] at h ⊢; exact h
        · subst e; rw [dec_d2] at h ⊢; exact h
        · subst e; rw [dec_d3] at h ⊢; exact h
        · subst e; simp [dec] at h
        · subst e; simp [dec] at h
        · subst e; simp [dec] at h
        · subst e; simp [dec] at h
        · subst e; simp [dec] at h
        · subst e; rw [dec_d9] at h ⊢; exact h
        · subst e; rw [dec_da] at h ⊢; exact h
        · subst e; rw [dec_db] at h ⊢; exact h
        · subst e; rw [dec_dc] at h ⊢
          cases hd : readBe 2 rest with
          | none => simp [hd] at h
          | some q =>
            obtain ⟨n, r'⟩ := q
            rw [hd] at h
            simp only at h ⊢
            cases hq : decN f n r' with
            | none => simp [hq] at h
            | some q2 => rw [hq] at h; rw [ihn _ _ _ hq]; exact h
        · subst e; rw [dec_dd] at h ⊢
          cases hd : readBe 4 rest with
          | none => simp [hd] at h
          | some q =>
            obtain ⟨n, r'⟩ := q
            rw [hd] at h
            simp only at h ⊢
            cases hq : decN f n r' with
            | none => simp [hq] at h
            | some q2 => rw [hq] at h; rw [ihn _ _ _ hq]; exact h
        · subst e; rw [dec_de] at h ⊢
          cases hd : readBe 2 rest with
          | none => simp [hd] at h
          | some q =>
            obtain ⟨n, r'⟩ := q
            rw [hd] at h
            simp only at h ⊢
            cases hq : decN f (2 * n) r' with
            | none => simp [hq] at h
            | some q2 => rw [hq] at h; rw [ihn _ _ _ hq]; exact h
        · subst e; rw [dec_df] at h ⊢
          cases hd : readBe 4 rest with
          | none => simp [hd] at h
          | some q =>
            obtain ⟨n, r'⟩ := q
            rw [hd] at h
            simp only at h ⊢
            cases hq : decN f (2 * n) r' with
            | none => simp [hq] at h
            | some q2 => rw [hq] at h; rw [ihn _ _ _ hq]; exact h
    · intro n bs p h
      cases n with
      | zero => simpa [decN] using h
      | succ n =>
        simp only [decN] at h ⊢
        cases hd : dec f bs with
        | none => simp [hd] at h
        | some q =>
          obtain ⟨x, r1⟩ := q
          rw [hd] at h
          rw [ihd _ _ hd]
          simp only at h ⊢
          cases hn : decN f n r1 with
          | none => simp [hn] at h
          | some q2 => rw [hn] at h; rw [ihn _ _ _ hn]; exact h

theorem dec_mono_le {f g : Nat} (hfg : f ≤ g) {bs : List Nat} {p : MV × List Nat} (h : dec f bs = some p) : dec g bs = some p := by
  induction hfg with
  | refl => exact h
  | step _ ih => exact (dec_decN_mono _).1 _ _ ih

/-- `decode` gives the answer of every smaller bound that gives one: its own bound only decides whether there is an answer
(and for everything the writer writes there is: `C15_mp_decode_encode`) -/
theorem C15_mp_bound_irrelevant (f : Nat) (bs : List Nat) (v : MV) (r : List Nat) (hf : f ≤ 2 * bs.length + 2)
    (h : dec f bs = some (v, r)) : decode bs = some v := by
  unfold decode
  rw [dec_mono_le hf h]
  rfl

end AnonModel.Msgpack

namespace AnonModel.Msgpack
/-! ## what the reader consumes -/

/-- `r` is what remains of `bs` after at least `k` bytes -/
def After (k : Nat) (bs r : List Nat) : Prop := ∃ pre, k ≤ pre.length ∧ bs = pre ++ r

theorem After.refl (bs : List Nat) : After 0 bs bs := ⟨[], Nat.le_refl _, rfl⟩
theorem After.cons {k : Nat} {bs r : List Nat} (b : Nat) (h : After k bs r) : After (k + 1) (b :: bs) r := by
  obtain ⟨pre, hl, e⟩ := h; exact ⟨b :: pre, by simp; omega, by simp [e]⟩
theorem After.trans {j k : Nat} {a b c : List Nat} (h1 : After j a b) (h2 : After k b c) : After (j + k) a c := by
  obtain ⟨p, hp, e1⟩ := h1; obtain ⟨q, hq, e2⟩ := h2
  exact ⟨p ++ q, by simp; omega, by rw [e1, e2, List.append_assoc]⟩
theorem After.weaken {j k : Nat} {a b : List Nat} (h : After k a b) (hj : j ≤ k) : After j a b := by
  obtain ⟨p, hp, e⟩ := h; exact ⟨p, by omega, e⟩

theorem takeN_after {n : Nat} {bs h r : List Nat} (e : takeN n bs = some (h, r)) : After n bs r := by
  obtain ⟨hl, hs⟩ := takeN_spec e; exact ⟨h, by omega, hs⟩
theorem readBe_after {k n : Nat} {bs r : List Nat} (e : readBe k bs = some (n, r)) : After k bs r := by
  unfold readBe at e
  cases ht : takeN k bs with
  | none => simp [ht] at e
  | some p =>
    obtain ⟨h, r'⟩ := p
    rw [ht] at e
    simp only [Option.some.injEq, Prod.mk.injEq] at e
    obtain ⟨_, e2⟩ := e
    subst e2
    exact takeN_after ht
theorem readRun_after {k : Nat} {bs s r : List Nat} (e : readRun k bs = some (s, r)) : After k bs r := by
  unfold readRun at e
  cases hr : readBe k bs with
  | none => simp [hr] at e
  | some p =>
    obtain ⟨n, r'⟩ := p
    rw [hr] at e
    simp only at e
    exact ((readBe_after hr).trans (takeN_after e)).weaken (by omega)

/-- every value takes at least one byte, and what the reader hands back is exactly the rest of the input -/
theorem dec_decN_after : ∀ f : Nat,
    (∀ bs v r, dec f bs = some (v, r) → After 1 bs r) ∧
    (∀ n bs xs r, decN f n bs = some (xs, r) → After n bs r) := by
  intro f
  induction f with
  | zero =>
    refine ⟨fun bs v r h => by simp [dec] at h, fun n bs xs r h => ?_⟩
    cases n with
    | zero => simp only [decN, Option.some.injEq, Prod.mk.injEq] at h; obtain ⟨_, h2⟩ := h; subst h2; exact After.refl _
    | succ n => simp [decN] at h
  | succ f ih =>
    obtain ⟨ihd, ihn⟩ := ih
    refine ⟨?_, ?_⟩
    · intro bs v r h
      cases bs with
      | nil => simp [dec] at h
      | cons b rest =>
        by_cases c1 : b < 128
        · rw [dec_pfix c1] at h
          simp only [Option.some.injEq, Prod.mk.injEq] at h; obtain ⟨_, h2⟩ := h; subst h2
          exact (After.refl _).cons b
        by_cases c2 : b < 144
        · have e : b = 0x80 + (b - 128) := by omega
          rw [e, dec_fixmap (by omega)] at h
          cases hd : decN f (2 * (b - 128)) rest with
          | none => simp [hd] at h
          | some p =>
            obtain ⟨xs, r'⟩ := p
            rw [hd] at h
            simp only [Option.some.injEq, Prod.mk.injEq] at h; obtain ⟨_, h2⟩ := h; subst h2
            exact ((ihn _ _ _ _ hd).cons _).weaken (by omega)
        by_cases c3 : b < 160
        · have e : b = 0x90 + (b - 144) := by omega
          rw [e, dec_fixarr (by omega)] at h
          cases hd : decN f (b - 144) rest with
          | none => simp [hd] at h
          | some p =>
            obtain ⟨xs, r'⟩ := p
            rw [hd] at h
            simp only [Option.some.injEq, Prod.mk.injEq] at h; obtain ⟨_, h2⟩ := h; subst h2
            exact ((ihn _ _ _ _ hd).cons _).weaken (by omega)
        by_cases c4 : b < 192
        · have e : b = 0xa0 + (b - 160) := by omega
          rw [e, dec_fixstr (by omega)] at h
          cases hd : takeN (b - 160) rest with
          | none => simp [hd] at h
          | some p =>
            obtain ⟨s, r'⟩ := p
            rw [hd] at h
            simp only [Option.some.injEq, Prod.mk.injEq] at h; obtain ⟨_, h2⟩ := h; subst h2
            exact ((takeN_after hd).cons _).weaken (by omega)
        by_cases c5 : 224 ≤ b
        · by_cases c6 : b < 256
          · rw [dec_nfix c5 c6] at h
            simp only [Option.some.injEq, Prod.mk.injEq] at h; obtain ⟨_, h2⟩ := h; subst h2
            exact (After.refl _).cons b
          · simp only [dec] at h
            repeat (first | rw [if_neg (by omega)] at h)
            cases h
        have hcases : b = 192 ∨ b = 193 ∨ b = 194 ∨ b = 195 ∨ b = 196 ∨ b = 197 ∨ b = 198 ∨ b = 199 ∨ b = 200 ∨ b = 201 ∨ b = 202 ∨ b = 203 ∨ b = 204 ∨ b = 205 ∨ b = 206 ∨ b = 207 ∨ b = 208 ∨ b = 209 ∨ b = 210 ∨ b = 211 ∨ b = 212 ∨ b = 213 ∨ b = 214 ∨ b = 215 ∨ b = 216 ∨ b = 217 ∨ b = 218 ∨ b = 219 ∨ b = 220 ∨ b = 221 ∨ b = 222 ∨ b = 223 := by omega
        rcases hcases with e | e | e | e | e | e | e | e | e | e | e | e | e | e | e | e | e | e | e | e | e | e | e | e | e | e | e | e | e | e | e | e
        · subst e; rw [dec_c0] at h; simp only [Option.some.injEq, Prod.mk.injEq] at h; obtain ⟨_, h2⟩ := h; subst h2; exact (After.refl _).cons _
        · subst e; simp [dec] at h
        · subst e; rw [dec_c2] at h; simp only [Option.some.injEq, Prod.mk.injEq] at h; obtain ⟨_, h2⟩ := h; subst h2; exact (After.refl _).cons _
        · subst e; rw [dec_c3] at h; simp only [Option.some.injEq, Prod.mk.injEq] at h; obtain ⟨_, h2⟩ := h; subst h2; exact (After.refl _).cons _
        · subst e; rw [dec_c4] at h
          cases hd : readRun 1 rest with
          | none => simp [hd] at h
          | some p =>
            obtain ⟨s, r'⟩ := p
            rw [hd] at h
            simp only [Option.some.injEq, Prod.mk.injEq] at h; obtain ⟨_, h2⟩ := h; subst h2
            exact ((readRun_after hd).cons _).weaken (by omega)
        · subst e; rw [dec_c5] at h
          cases hd : readRun 2 rest with
          | none => simp [hd] at h
          | some p =>
            obtain ⟨s, r'⟩ := p
            rw [hd] at h
            simp only [Option.some.injEq, Prod.mk.injEq] at h; obtain ⟨_, h2⟩ := h; subst h2
            exact ((readRun_after hd).cons _).weaken (by omega)
        · subst e; rw [dec_c6] at h
          cases hd : readRun 4 rest with
          | none => simp [hd] at h
          | some p =>
            obtain ⟨s, r'⟩ := p
            rw [hd] at h
            simp only [Option.some.injEq, Prod.mk.injEq] at h; obtain ⟨_, h2⟩ := h; subst h2
            exact ((readRun_after hd).cons _).weaken (by omega)
        · subst e; simp [dec] at h
        · subst e; simp [dec] at h
        · subst e; simp [dec] at h
        · subst e; simp [dec] at h
        · subst e; simp [dec] at h
        · subst e; rw [dec_cc] at h
          cases hd : readBe 1 rest with
          | none => simp [hd] at h
          | some p =>
            obtain ⟨s, r'⟩ := p
            rw [hd] at h
            simp only [Option.some.injEq, Prod.mk.injEq] at h; obtain ⟨_, h2⟩ := h; subst h2
            exact ((readBe_after hd).cons _).weaken (by omega)
        · subst e; rw [dec_cd] at h
          cases hd : readBe 2 rest with
          | none => simp [hd] at h
          | some p =>
            obtain ⟨s, r'⟩ := p
            rw [hd] at h
            simp only [Option.some.injEq, Prod.mk.injEq] at h; obtain ⟨_, h2⟩ := h; subst h2
            exact ((readBe_after hd).cons _).weaken (by omega)
        · subst e; rw [dec_ce] at h
          cases hd : readBe 4 rest with
          | none => simp [hd] at h
          | some p =>
            obtain ⟨s, r'⟩ := p
            rw [hd] at h
            simp only [Option.some.injEq, Prod.mk.injEq] at h; obtain ⟨_, h2⟩ := h; subst h2
            exact ((readBe_after hd).cons _).weaken (by omega)
        · subst e; rw [dec_cf] at h
          cases hd : readBe 8 rest with
          | none => simp [hd] at h
          | some p =>
            obtain ⟨s, r'⟩ := p
            rw [hd] at h
            simp only [Option.some.injEq, Prod.mk.injEq] at h; obtain ⟨_, h2⟩ := h; subst h2
            exact ((readBe_after hd).cons _).weaken (by omega)
        · subst e; rw [dec_d0] at h
          cases hd : readBe 1 rest with
          | none => simp [hd] at h
          | some p =>
            obtain ⟨s, r'⟩ := p
            rw [hd] at h
            simp only [Option.some.injEq, Prod.mk.injEq] at h; obtain ⟨_, h2⟩ := h; subst h2
            exact ((readBe_after hd).cons _).weaken (by omega)
        · subst e; rw [dec_d1] at h
          cases hd : readBe 2 rest with
          | none => simp [hd] at h
          | some p =>
            obtain ⟨s, r'⟩ := p
            rw [hd] at h
            simp only [Option.some.injEq, Prod.mk.injEq] at h; obtain ⟨_, h2⟩ := h; subst h2
            exact ((readBe_after hd).cons _).weaken (by omega)
        · subst e; rw [dec_d2] at h
          cases hd : readBe 4 rest with
          | none => simp [hd] at h
          | some p =>
            obtain ⟨s, r'⟩ := p
            rw [hd] at h
            simp only [Option.some.injEq, Prod.mk.injEq] at h; obtain ⟨_, h2⟩ := h; subst h2
            exact ((readBe_after hd).cons _).weaken (by omega)
        · subst e; rw [dec_d3] at h
          cases hd : readBe 8 rest with
          | none => simp [hd] at h
          | some p =>
            obtain ⟨s, r'⟩ := p
            rw [hd] at h
            simp only [Option.some.injEq, Prod.mk.injEq] at h; obtain ⟨_, h2⟩ := h; subst h2
            exact ((readBe_after hd).cons _).weaken (by omega)
        · subst e; simp [dec] at h
        · subst e; simp [dec] at h
        · subst e; simp [dec] at h
        · subst e; simp [dec] at h
        · subst e; simp [dec] at h
        · subst e; rw [dec_d9] at h
          cases hd : readRun 1 rest with
          | none => simp [hd] at h
          | some p =>
            obtain ⟨s, r'⟩ := p
            rw [hd] at h
            simp only [Option.some.injEq, Prod.mk.injEq] at h; obtain ⟨_, h2⟩ := h; subst h2
            exact ((readRun_after hd).cons _).weaken (by omega)
        · subst e; rw [dec_da] at h
          cases hd : readRun 2 rest with
          | none => simp [hd] at h
          | some p =>
            obtain ⟨s, r'⟩ := p
            rw [hd] at h
            simp only [Option.some.injEq, Prod.mk.injEq] at h; obtain ⟨_, h2⟩ := h; subst h2
            exact ((readRun_after hd).cons _).weaken (by omega)
        · subst e; rw [dec_db] at h
          cases hd : readRun 4 rest with
          | none => simp [hd] at h
          | some p =>
            obtain ⟨s, r'⟩ := p
            rw [hd] at h
            simp only [Option.some.injEq, Prod.mk.injEq] at h; obtain ⟨_, h2⟩ := h; subst h2
            exact ((readRun_after hd).cons _).weaken (by omega)
        · subst e; rw [dec_dc] at h
          cases hd : readBe 2 rest with
          | none => simp [hd] at h
          | some p =>
            obtain ⟨n, r'⟩ := p
            rw [hd] at h
            simp only at h
            cases hq : decN f n r' with
            | none => simp [hq] at h
            | some q =>
              obtain ⟨xs, r2⟩ := q
              rw [hq] at h
              simp only [Option.some.injEq, Prod.mk.injEq] at h; obtain ⟨_, h2⟩ := h; subst h2
              exact (((readBe_after hd).trans (ihn _ _ _ _ hq)).cons _).weaken (by omega)
        · subst e; rw [dec_dd] at h
          cases hd : readBe 4 rest with
          | none => simp [hd] at h
          | some p =>
            obtain ⟨n, r'⟩ := p
            rw [hd] at h
            simp only at h
            cases hq : decN f n r' with
            | none => simp [hq] at h
            | some q =>
              obtain ⟨xs, r2⟩ := q
              rw [hq] at h
              simp only [Option.some.injEq, Prod.mk.injEq] at h; obtain ⟨_, h2⟩ := h; subst h2
              exact (((readBe_after hd).trans (ihn _ _ _ _ hq)).cons _).weaken (by omega)
        · subst e; rw [dec_de] at h
          cases hd : readBe 2 rest with
          | none => simp [hd] at h
          | some p =>
            obtain ⟨n, r'⟩ := p
            rw [hd] at h
            simp only at h
            cases hq : decN f (2 * n) r' with
            | none => simp [hq] at h
            | some q =>
              obtain ⟨xs, r2⟩ := q
              rw [hq] at h
              simp only [Option.some.injEq, Prod.mk.injEq] at h; obtain ⟨_, h2⟩ := h; subst h2
              exact (((readBe_after hd).trans (ihn _ _ _ _ hq)).cons _).weaken (by omega)
        · subst e; rw [dec_df] at h
          cases hd : readBe 4 rest with
          | none => simp [hd] at h
          | some p =>
            obtain ⟨n, r'⟩ := p
            rw [hd] at h
            simp only at h
            cases hq : decN f (2 * n) r' with
            | none => simp [hq] at h
            | some q =>
              obtain ⟨xs, r2⟩ := q
              rw [hq] at h
              simp only [Option.some.injEq, Prod.mk.injEq] at h; obtain ⟨_, h2⟩ := h; subst h2
              exact (((readBe_after hd).trans (ihn _ _ _ _ hq)).cons _).weaken (by omega)
    · intro n bs xs r h
      cases n with
      | zero => simp only [decN, Option.some.injEq, Prod.mk.injEq] at h; obtain ⟨_, h2⟩ := h; subst h2; exact After.refl _
      | succ n =>
        simp only [decN] at h
        cases hd : dec f bs with
        | none => simp [hd] at h
        | some p =>
          obtain ⟨x, r1⟩ := p
          rw [hd] at h
          simp only at h
          cases hn : decN f n r1 with
          | none => simp [hn] at h
          | some q =>
            obtain ⟨ys, r2⟩ := q
            rw [hn] at h
            simp only [Option.some.injEq, Prod.mk.injEq] at h; obtain ⟨_, h2⟩ := h; subst h2
            exact ((ihd _ _ _ hd).trans (ihn _ _ _ _ hn)).weaken (by omega)

/-- **a value takes at least one byte and the reader hands back exactly the rest**: `n` values in a row take at least `n`
bytes, so a length field larger than the input can never be honoured -/
theorem C15_mp_reads_prefix (f : Nat) (bs : List Nat) (v : MV) (r : List Nat) (h : dec f bs = some (v, r)) :
    ∃ pre, pre ≠ [] ∧ bs = pre ++ r := by
  obtain ⟨pre, hl, e⟩ := (dec_decN_after f).1 bs v r h
  exact ⟨pre, by intro e'; subst e'; simp at hl, e⟩

theorem C15_mp_count_bounded (f n : Nat) (bs : List Nat) (xs : List MV) (r : List Nat) (h : decN f n bs = some (xs, r)) :
    n + r.length ≤ bs.length := by
  obtain ⟨pre, hl, e⟩ := (dec_decN_after f).2 n bs xs r h
  subst e; simp; omega

end AnonModel.Msgpack

namespace AnonModel.Msgpack
/-! ## the smallest sufficient bound -/

theorem decN_mono_le {f g : Nat} (hfg : f ≤ g) {n : Nat} {bs : List Nat} {p : List MV × List Nat} (h : decN f n bs = some p) :
    decN g n bs = some p := by
  induction hfg with
  | refl => exact h
  | step _ ih => exact (dec_decN_mono _).2 _ _ _ ih

theorem After.len {k : Nat} {bs r : List Nat} (h : After k bs r) : k + r.length ≤ bs.length := by
  obtain ⟨pre, hl, e⟩ := h; subst e; simp; omega

/-- an answer is obtained already with the bound `sz v` (the number of nodes, counted as in `sz`), and the value is small
against the bytes it took: `sz v + 1 ≤ 2 · consumed` -/
theorem dec_decN_min : ∀ f : Nat,
    (∀ bs v r, dec f bs = some (v, r) → dec (sz v) bs = some (v, r) ∧ sz v + 1 + 2 * r.length ≤ 2 * bs.length) ∧
    (∀ n bs xs r, decN f n bs = some (xs, r) → decN (szs xs) n bs = some (xs, r) ∧ szs xs + 2 * r.length ≤ 2 * bs.length) := by
  intro f
  induction f with
  | zero =>
    refine ⟨fun bs v r h => by simp [dec] at h, fun n bs xs r h => ?_⟩
    cases n with
    | zero => simp only [decN, Option.some.injEq, Prod.mk.injEq] at h; obtain ⟨h1, h2⟩ := h; subst h1; subst h2; exact ⟨by simp [szs, decN], by simp [szs]⟩
    | succ n => simp [decN] at h
  | succ f ih =>
    obtain ⟨ihd, ihn⟩ := ih
    refine ⟨?_, ?_⟩
    · intro bs v r h
      cases bs with
      | nil => simp [dec] at h
      | cons b rest =>
        by_cases c1 : b < 128
        · rw [dec_pfix c1] at h
          simp only [Option.some.injEq, Prod.mk.injEq] at h; obtain ⟨h1, h2⟩ := h; subst h1; subst h2
          exact ⟨by simp only [sz]; exact dec_pfix c1 0 _, by simp only [sz, List.length_cons]; omega⟩
        by_cases c2 : b < 144
        · have e : b = 0x80 + (b - 128) := by omega
          rw [e, dec_fixmap (by omega)] at h
          cases hd : decN f (2 * (b - 128)) rest with
          | none => simp [hd] at h
          | some p =>
            obtain ⟨xs, r'⟩ := p
            rw [hd] at h
            simp only [Option.some.injEq, Prod.mk.injEq] at h; obtain ⟨h1, h2⟩ := h; subst h1; subst h2
            obtain ⟨m1, m2⟩ := ihn _ _ _ _ hd
            refine ⟨?_, by simp only [sz, List.length_cons]; omega⟩
            simp only [sz]
            rw [Nat.add_comm 1, e, dec_fixmap (by omega), m1]
        by_cases c3 : b < 160
        · have e : b = 0x90 + (b - 144) := by omega
          rw [e, dec_fixarr (by omega)] at h
          cases hd : decN f (b - 144) rest with
          | none => simp [hd] at h
          | some p =>
            obtain ⟨xs, r'⟩ := p
            rw [hd] at h
            simp only [Option.some.injEq, Prod.mk.injEq] at h; obtain ⟨h1, h2⟩ := h; subst h1; subst h2
            obtain ⟨m1, m2⟩ := ihn _ _ _ _ hd
            refine ⟨?_, by simp only [sz, List.length_cons]; omega⟩
            simp only [sz]
            rw [Nat.add_comm 1, e, dec_fixarr (by omega), m1]
        by_cases c4 : b < 192
        · have e : b = 0xa0 + (b - 160) := by omega
          rw [e, dec_fixstr (by omega)] at h
          cases hd : takeN (b - 160) rest with
          | none => simp [hd] at h
          | some p =>
            obtain ⟨s, r'⟩ := p
            rw [hd] at h
            simp only [Option.some.injEq, Prod.mk.injEq] at h; obtain ⟨h1, h2⟩ := h; subst h1; subst h2
            have hl := (takeN_after hd).len
            refine ⟨?_, by simp only [sz, List.length_cons]; omega⟩
            simp only [sz]
            rw [e, dec_fixstr (by omega), hd]
        by_cases c5 : 224 ≤ b
        · by_cases c6 : b < 256
          · rw [dec_nfix c5 c6] at h
            simp only [Option.some.injEq, Prod.mk.injEq] at h; obtain ⟨h1, h2⟩ := h; subst h1; subst h2
            exact ⟨by simp only [sz]; exact dec_nfix c5 c6 0 _, by simp only [sz, List.length_cons]; omega⟩
          · simp only [dec] at h
            repeat (first | rw [if_neg (by omega)] at h)
            cases h
        have hcases : b = 192 ∨ b = 193 ∨ b = 194 ∨ b = 195 ∨ b = 196 ∨ b = 197 ∨ b = 198 ∨ b = 199 ∨ b = 200 ∨ b = 201 ∨ b = 202 ∨ b = 203 ∨ b = 204 ∨ b = 205 ∨ b = 206 ∨ b = 207 ∨ b = 208 ∨ b = 209 ∨ b = 210 ∨ b = 211 ∨ b = 212 ∨ b = 213 ∨ b = 214 ∨ b = 215 ∨ b = 216 ∨ b = 217 ∨ b = 218 ∨ b = 219 ∨ b = 220 ∨ b = 221 ∨ b = 222 ∨ b = 223 := by omega
        rcases hcases with e | e | e | e | e | e | e | e | e | e | e | e | e | e | e | e | e | e | e | e | e | e | e | e | e | e | e | e | e | e | e | e
        · subst e; rw [dec_c0] at h; simp only [Option.some.injEq, Prod.mk.injEq] at h; obtain ⟨h1, h2⟩ := h; subst h1; subst h2; exact ⟨by simp only [sz]; exact dec_c0 0 _, by simp only [sz, List.length_cons]; omega⟩
        · subst e; simp [dec] at h
        · subst e; rw [dec_c2] at h; simp only [Option.some.injEq, Prod.mk.injEq] at h; obtain ⟨h1, h2⟩ := h; subst h1; subst h2; exact ⟨by simp only [sz]; exact dec_c2 0 _, by simp only [sz, List.length_cons]; omega⟩
        · subst e; rw [dec_c3] at h; simp only [Option.some.injEq, Prod.mk.injEq] at h; obtain ⟨h1, h2⟩ := h; subst h1; subst h2; exact ⟨by simp only [sz]; exact dec_c3 0 _, by simp only [sz, List.length_cons]; omega⟩
        · subst e; rw [dec_c4] at h
          cases hd : readRun 1 rest with
          | none => simp [hd] at h
          | some p =>
            obtain ⟨s, r'⟩ := p
            rw [hd] at h
            simp only [Option.some.injEq, Prod.mk.injEq] at h; obtain ⟨h1, h2⟩ := h; subst h1; subst h2
            have hl := (readRun_after hd).len
            refine ⟨?_, by simp only [sz, List.length_cons]; omega⟩
            simp only [sz]
            rw [dec_c4, hd]
        · subst e; rw [dec_c5] at h
          cases hd : readRun 2 rest with
          | none => simp [hd] at h
          | some p =>
            obtain ⟨s, r'⟩ := p
            rw [hd] at h
            simp only [Option.some.injEq, Prod.mk.injEq] at h; obtain ⟨h1, h2⟩ := h; subst h1; subst h2
            have hl := (readRun_after hd).len
            refine ⟨?_, by simp only [sz, List.length_cons]; omega⟩
            simp only [sz]
            rw [dec_c5, hd]
        · subst e; rw [dec_c6] at h
          cases hd : readRun 4 rest with
          | none => simp [hd] at h
          | some p =>
            obtain ⟨s, r'⟩ := p
            rw [hd] at h
            simp only [Option.some.injEq, Prod.mk.injEq] at h; obtain ⟨h1, h2⟩ := h; subst h1; subst h2
            have hl := (readRun_after hd).len
            refine ⟨?_, by simp only [sz, List.length_cons]; omega⟩
            simp only [sz]
            rw [dec_c6, hd]
        · subst e; simp [dec] at h
        · subst e; simp [dec] at h
        · subst e; simp [dec] at h
        · subst e; simp [dec] at h
        · subst e; simp [dec] at h
        · subst e; rw [dec_cc] at h
          cases hd : readBe 1 rest with
          | none => simp [hd] at h
          | some p =>
            obtain ⟨s, r'⟩ := p
            rw [hd] at h
            simp only [Option.some.injEq, Prod.mk.injEq] at h; obtain ⟨h1, h2⟩ := h; subst h1; subst h2
            have hl := (readBe_after hd).len
            refine ⟨?_, by simp only [sz, List.length_cons]; omega⟩
            simp only [sz]
            rw [dec_cc, hd]
        · subst e; rw [dec_cd] at h
          cases hd : readBe 2 rest with
          | none => simp [hd] at h
          | some p =>
            obtain ⟨s, r'⟩ := p
            rw [hd] at h
            simp only [Option.some.injEq, Prod.mk.injEq] at h; obtain ⟨h1, h2⟩ := h; subst h1; subst h2
            have hl := (readBe_after hd).len
            refine ⟨?_, by simp only [sz, List.length_cons]; omega⟩
            simp only [sz]
            rw [dec_cd, hd]
        · subst e; rw [dec_ce] at h
          cases hd : readBe 4 rest with
          | none => simp [hd] at h
          | some p =>
            obtain ⟨s, r'⟩ := p
            rw [hd] at h
            simp only [Option.some.injEq, Prod.mk.injEq] at h; obtain ⟨h1, h2⟩ := h; subst h1; subst h2
            have hl := (readBe_after hd).len
            refine ⟨?_, by simp only [sz, List.length_cons]; omega⟩
            simp only [sz]
            rw [dec_ce, hd]
        · subst e; rw [dec_cf] at h
          cases hd : readBe 8 rest with
          | none => simp [hd] at h
          | some p =>
            obtain ⟨s, r'⟩ := p
            rw [hd] at h
            simp only [Option.some.injEq, Prod.mk.injEq] at h; obtain ⟨h1, h2⟩ := h; subst h1; subst h2
            have hl := (readBe_after hd).len
            refine ⟨?_, by simp only [sz, List.length_cons]; omega⟩
            simp only [sz]
            rw [dec_cf, hd]
        · subst e; rw [dec_d0] at h
          cases hd : readBe 1 rest with
          | none => simp [hd] at h
          | some p =>
            obtain ⟨s, r'⟩ := p
            rw [hd] at h
            simp only [Option.some.injEq, Prod.mk.injEq] at h; obtain ⟨h1, h2⟩ := h; subst h1; subst h2
            have hl := (readBe_after hd).len
            refine ⟨?_, by simp only [sz, List.length_cons]; omega⟩
            simp only [sz]
            rw [dec_d0, hd]
        · subst e; rw [dec_d1] at h
          cases hd : readBe 2 rest with
          | none => simp [hd] at h
          | some p =>
            obtain ⟨s, r'⟩ := p
            rw [hd] at h
            simp only [Option.some.injEq, Prod.mk.injEq] at h; obtain ⟨h1, h2⟩ := h; subst h1; subst h2
            have hl := (readBe_after hd).len
            refine ⟨?_, by simp only [sz, List.length_cons]; omega⟩
            simp only [sz]
            rw [dec_d1, hd]
        · subst e; rw [dec_d2] at h
          cases hd : readBe 4 rest with
          | none => simp [hd] at h
          | some p =>
            obtain ⟨s, r'⟩ := p
            rw [hd] at h
            simp only [Option.some.injEq, Prod.mk.injEq] at h; obtain ⟨h1, h2⟩ := h; subst h1; subst h2
            have hl := (readBe_after hd).len
            refine ⟨?_, by simp only [sz, List.length_cons]; omega⟩
            simp only [sz]
            rw [dec_d2, hd]
        · subst e; rw [dec_d3] at h
          cases hd : readBe 8 rest with
          | none => simp [hd] at h
          | some p =>
            obtain ⟨s, r'⟩ := p
            rw [hd] at h
            simp only [Option.some.injEq, Prod.mk.injEq] at h; obtain ⟨h1, h2⟩ := h; subst h1; subst h2
            have hl := (readBe_after hd).len
            refine ⟨?_, by simp only [sz, List.length_cons]; omega⟩
            simp only [sz]
            rw [dec_d3, hd]
        · subst e; simp [dec] at h
        · subst e; simp [dec] at h
        · subst e; simp [dec] at h
        · subst e; simp [dec] at h
        · subst e; simp [dec] at h
        · subst e; rw [dec_d9] at h
          cases hd : readRun 1 rest with
          | none => simp [hd] at h
          | some p =>
            obtain ⟨s, r'⟩ := p
            rw [hd] at h
            simp only [Option.some.injEq, Prod.mk.injEq] at h; obtain ⟨h1, h2⟩ := h; subst h1; subst h2
            have hl := (readRun_after hd).len
            refine ⟨?_, by simp only [sz, List.length_cons]; omega⟩
            simp only [sz]
            rw [dec_d9, hd]
        · subst e; rw [dec_da] at h
          cases hd : readRun 2 rest with
          | none => simp [hd] at h
          | some p =>
            obtain ⟨s, r'⟩ := p
            rw [hd] at h
            simp only [Option.some.injEq, Prod.mk.injEq] at h; obtain ⟨h1, h2⟩ := h; subst h1; subst h2
            have hl := (readRun_after hd).len
            refine ⟨?_, by simp only [sz, List.length_cons]; omega⟩
            simp only [sz]
            rw [dec_da, hd]
        · subst e; rw [dec_db] at h
          cases hd : readRun 4 rest with
          | none => simp [hd] at h
          | some p =>
            obtain ⟨s, r'⟩ := p
            rw [hd] at h
            simp only [Option.some.injEq, Prod.mk.injEq] at h; obtain ⟨h1, h2⟩ := h; subst h1; subst h2
            have hl := (readRun_after hd).len
            refine ⟨?_, by simp only [sz, List.length_cons]; omega⟩
            simp only [sz]
            rw [dec_db, hd]
        · subst e; rw [dec_dc] at h
          cases hd : readBe 2 rest with
          | none => simp [hd] at h
          | some p =>
            obtain ⟨n, r'⟩ := p
            rw [hd] at h
            simp only at h
            cases hq : decN f n r' with
            | none => simp [hq] at h
            | some q =>
              obtain ⟨xs, r2⟩ := q
              rw [hq] at h
              simp only [Option.some.injEq, Prod.mk.injEq] at h; obtain ⟨h1, h2⟩ := h; subst h1; subst h2
              obtain ⟨m1, m2⟩ := ihn _ _ _ _ hq
              have hl := (readBe_after hd).len
              refine ⟨?_, by simp only [sz, List.length_cons]; omega⟩
              simp only [sz]
              rw [Nat.add_comm 1, dec_dc, hd]
              simp only []
              rw [m1]
        · subst e; rw [dec_dd] at h
          cases hd : readBe 4 rest with
          | none => simp [hd] at h
          | some p =>
            obtain ⟨n, r'⟩ := p
            rw [hd] at h
            simp only at h
            cases hq : decN f n r' with
            | none => simp [hq] at h
            | some q =>
              obtain ⟨xs, r2⟩ := q
              rw [hq] at h
              simp only [Option.some.injEq, Prod.mk.injEq] at h; obtain ⟨h1, h2⟩ := h; subst h1; subst h2
              obtain ⟨m1, m2⟩ := ihn _ _ _ _ hq
              have hl := (readBe_after hd).len
              refine ⟨?_, by simp only [sz, List.length_cons]; omega⟩
              simp only [sz]
              rw [Nat.add_comm 1, dec_dd, hd]
              simp only []
              rw [m1]
        · subst e; rw [dec_de] at h
          cases hd : readBe 2 rest with
          | none => simp [hd] at h
          | some p =>
            obtain ⟨n, r'⟩ := p
            rw [hd] at h
            simp only at h
            cases hq : decN f (2 * n) r' with
            | none => simp [hq] at h
            | some q =>
              obtain ⟨xs, r2⟩ := q
              rw [hq] at h
              simp only [Option.some.injEq, Prod.mk.injEq] at h; obtain ⟨h1, h2⟩ := h; subst h1; subst h2
              obtain ⟨m1, m2⟩ := ihn _ _ _ _ hq
              have hl := (readBe_after hd).len
              refine ⟨?_, by simp only [sz, List.length_cons]; omega⟩
              simp only [sz]
              rw [Nat.add_comm 1, dec_de, hd]
              simp only []
              rw [m1]
        · subst e; rw [dec_df] at h
          cases hd : readBe 4 rest with
          | none => simp [hd] at h
          | some p =>
            obtain ⟨n, r'⟩ := p
            rw [hd] at h
            simp only at h
            cases hq : decN f (2 * n) r' with
            | none => simp [hq] at h
            | some q =>
              obtain ⟨xs, r2⟩ := q
              rw [hq] at h
              simp only [Option.some.injEq, Prod.mk.injEq] at h; obtain ⟨h1, h2⟩ := h; subst h1; subst h2
              obtain ⟨m1, m2⟩ := ihn _ _ _ _ hq
              have hl := (readBe_after hd).len
              refine ⟨?_, by simp only [sz, List.length_cons]; omega⟩
              simp only [sz]
              rw [Nat.add_comm 1, dec_df, hd]
              simp only []
              rw [m1]
    · intro n bs xs r h
      cases n with
      | zero => simp only [decN, Option.some.injEq, Prod.mk.injEq] at h; obtain ⟨h1, h2⟩ := h; subst h1; subst h2; exact ⟨by simp [szs, decN], by simp [szs]⟩
      | succ n =>
        simp only [decN] at h
        cases hd : dec f bs with
        | none => simp [hd] at h
        | some p =>
          obtain ⟨x, r1⟩ := p
          rw [hd] at h
          simp only at h
          cases hn : decN f n r1 with
          | none => simp [hn] at h
          | some q =>
            obtain ⟨ys, r2⟩ := q
            rw [hn] at h
            simp only [Option.some.injEq, Prod.mk.injEq] at h; obtain ⟨h1, h2⟩ := h; subst h1; subst h2
            obtain ⟨d1, d2⟩ := ihd _ _ _ hd
            obtain ⟨n1, n2⟩ := ihn _ _ _ _ hn
            refine ⟨?_, by simp only [szs]; omega⟩
            simp only [szs]
            have e : 1 + sz x + szs ys = (sz x + szs ys) + 1 := by omega
            rw [e]
            simp only [decN]
            rw [dec_mono_le (by omega) d1]
            simp only []
            rw [decN_mono_le (by omega) n1]

/-- **`decode` is the reader with no bound at all**: an answer obtained under *any* bound is `decode`'s answer -/
theorem C15_mp_decode_complete (f : Nat) (bs : List Nat) (v : MV) (r : List Nat) (h : dec f bs = some (v, r)) :
    decode bs = some v := by
  obtain ⟨h1, h2⟩ := (dec_decN_min f).1 bs v r h
  exact C15_mp_bound_irrelevant (sz v) bs v r (by omega) h1

end AnonModel.Msgpack

namespace AnonModel.Msgpack
/-! non-vacuity of the typed hypotheses: a map with the one required member of `PresentationProofValue` -/
example : payloadKind (.map [.str (key "aggregated"), .nil]) = some 3 := by
  simp [payloadKind, hasKeys, field, key]
end AnonModel.Msgpack

import AnonModel.Lemmas.Encode
/-!
# C13 — attribute encoding is the canonical, total, deterministic function

Property theorems only (helper lemmas are in `Lemmas/Encode.lean`).
`encode` is a total Lean function (no `Option`), so "never fails" and
"deterministic" are facts about its type; the theorems state *which* function it is.
-/
namespace AnonModel.Encode

/-- `cs` is an optionally signed, non-empty run of ASCII digits denoting `n`, and `n`
fits the signed 32-bit range. Zero padding, `+5`, `-0` are literals; `+`, `-`, the
empty string, non-ASCII digits, inner signs or spaces are not. -/
def IsI32Literal (cs : List Char) (n : Int) : Prop :=
  ∃ ds : List Char, ds ≠ [] ∧ AllDigits ds = true ∧ i32Min ≤ n ∧ n ≤ i32Max ∧
    (((cs = ds ∨ cs = '+' :: ds) ∧ n = (decVal ds : Int)) ∨ (cs = '-' :: ds ∧ n = -(decVal ds : Int)))

private theorem head_digit_ne {d : Char} (h : d.isDigit = true) : d ≠ '+' ∧ d ≠ '-' := by
  constructor <;> (intro e; subst e; revert h; decide)

private theorem parseI32_digits {ds : List Char} (hne : ds ≠ []) (hall : AllDigits ds = true) :
    parseI32 ds = loopPos 0 ds := by
  match ds, hne with
  | d :: rest, _ =>
    have hd : d.isDigit = true := by
      have := allDigits_iff.mp hall d (by simp); exact this
    obtain ⟨h1, h2⟩ := head_digit_ne hd
    unfold parseI32
    split <;> simp_all

private theorem parseI32_plus {ds : List Char} (hne : ds ≠ []) :
    parseI32 ('+' :: ds) = loopPos 0 ds := by
  match ds, hne with
  | d :: rest, _ => simp [parseI32]

private theorem parseI32_minus {ds : List Char} (hne : ds ≠ []) :
    parseI32 ('-' :: ds) = loopNeg 0 ds := by
  match ds, hne with
  | d :: rest, _ => simp [parseI32]

private theorem loopPos_nil_ne (n : Int) : loopPos 0 [] = some n → n = 0 := by
  simp [loopPos]; intro h; exact h.symm

/-- **parse ↔ spec**: the digit loop with checked arithmetic accepts exactly the
literals in range, with their value (the `-2^31` case is why the negative loop
subtracts). -/
theorem C13_parseI32_spec (cs : List Char) (n : Int) :
    parseI32 cs = some n ↔ IsI32Literal cs n := by
  constructor
  · intro h
    -- follow the match of `parseI32`
    match cs, h with
    | [], h => simp [parseI32] at h
    | ['+'], h => simp [parseI32] at h
    | ['-'], h => simp [parseI32] at h
    | '+' :: d :: rest, h =>
      rw [parseI32_plus (by simp), loopPos_zero] at h
      split at h
      · rename_i hc
        simp at h
        refine ⟨d :: rest, by simp, hc.1, ?_, ?_, Or.inl ⟨Or.inr rfl, h.symm⟩⟩
        · subst h; unfold i32Min; omega
        · subst h; exact hc.2
      · simp at h
    | '-' :: d :: rest, h =>
      rw [parseI32_minus (by simp), loopNeg_zero] at h
      split at h
      · rename_i hc
        simp at h
        refine ⟨d :: rest, by simp, hc.1, ?_, ?_, Or.inr ⟨rfl, h.symm⟩⟩
        · subst h; exact hc.2
        · subst h; unfold i32Max; omega
      · simp at h
    | c :: rest, h =>
      by_cases hp : c = '+'
      · subst hp
        cases rest with
        | nil => simp [parseI32] at h
        | cons d rest =>
          rw [parseI32_plus (by simp), loopPos_zero] at h
          split at h
          · rename_i hc
            simp at h
            refine ⟨d :: rest, by simp, hc.1, ?_, ?_, Or.inl ⟨Or.inr rfl, h.symm⟩⟩
            · subst h; unfold i32Min; omega
            · subst h; exact hc.2
          · simp at h
      · by_cases hm : c = '-'
        · subst hm
          cases rest with
          | nil => simp [parseI32] at h
          | cons d rest =>
            rw [parseI32_minus (by simp), loopNeg_zero] at h
            split at h
            · rename_i hc
              simp at h
              refine ⟨d :: rest, by simp, hc.1, ?_, ?_, Or.inr ⟨rfl, h.symm⟩⟩
              · subst h; exact hc.2
              · subst h; unfold i32Max; omega
            · simp at h
        · have e : parseI32 (c :: rest) = loopPos 0 (c :: rest) := by
            unfold parseI32; split <;> simp_all
          rw [e, loopPos_zero] at h
          split at h
          · rename_i hc
            simp at h
            refine ⟨c :: rest, by simp, hc.1, ?_, ?_, Or.inl ⟨Or.inl rfl, h.symm⟩⟩
            · subst h; unfold i32Min; omega
            · subst h; exact hc.2
          · simp at h
  · rintro ⟨ds, hne, hall, hlo, hhi, h⟩
    rcases h with ⟨hcs, hn⟩ | ⟨hcs, hn⟩
    · have : loopPos 0 ds = some n := by
        rw [loopPos_zero]; subst hn; simp [hall, hhi]
      rcases hcs with hcs | hcs
      · subst hcs; rw [parseI32_digits hne hall]; exact this
      · subst hcs; rw [parseI32_plus hne]; exact this
    · subst hcs; rw [parseI32_minus hne, loopNeg_zero]; subst hn; simp [hall, hlo]

/-- a string denotes at most one integer -/
theorem C13_literal_unique {cs : List Char} {n m : Int}
    (h1 : IsI32Literal cs n) (h2 : IsI32Literal cs m) : n = m := by
  have a := (C13_parseI32_spec cs n).mpr h1
  have b := (C13_parseI32_spec cs m).mpr h2
  rw [a] at b; exact Option.some.inj b

/-- **integer branch**: every in-range literal is mapped to that integer's decimal form -/
theorem C13_encode_int {s : String} {n : Int} (h : IsI32Literal s.toList n) :
    encode s = intToDec n := by
  simp [encode, (C13_parseI32_spec _ _).mpr h]

/-- **hash branch**: every other string is mapped to the decimal value of the
big-endian SHA-256 digest of its UTF-8 bytes -/
theorem C13_encode_sha {s : String} (h : ¬ ∃ n, IsI32Literal s.toList n) :
    encode s = Nat.repr (beNat (Sha256.sha256 s.toUTF8).toList) := by
  cases hp : parseI32 s.toList with
  | some n => exact absurd ⟨n, (C13_parseI32_spec _ _).mp hp⟩ h
  | none => simp [encode, hp, shaDec]

private theorem repr_toList_allDigits (m : Nat) : AllDigits (Nat.repr m).toList = true := by
  rw [allDigits_iff, Nat.toList_repr]
  intro c hc
  exact Nat.isDigit_of_mem_toDigits (by decide) (by decide) hc

private theorem repr_toList_ne_nil (m : Nat) : (Nat.repr m).toList ≠ [] := by
  rw [Nat.toList_repr]; exact Nat.toDigits_ne_nil

private theorem decVal_repr (m : Nat) : decVal (Nat.repr m).toList = m := by
  rw [Nat.toList_repr]; exact Nat.ofDigitChars_ten_toDigits

/-- **canonical form**: the decimal form of an in-range integer parses back to it -/
theorem C13_canonical {n : Int} (hlo : i32Min ≤ n) (hhi : n ≤ i32Max) :
    parseI32 (intToDec n).toList = some n := by
  rw [C13_parseI32_spec]
  by_cases hneg : n < 0
  · refine ⟨(Nat.repr n.natAbs).toList, repr_toList_ne_nil _, repr_toList_allDigits _, hlo, hhi,
      Or.inr ⟨?_, ?_⟩⟩
    · simp [intToDec, hneg, String.toList_append]
    · rw [decVal_repr]; omega
  · refine ⟨(Nat.repr n.natAbs).toList, repr_toList_ne_nil _, repr_toList_allDigits _, hlo, hhi,
      Or.inl ⟨Or.inl ?_, ?_⟩⟩
    · simp [intToDec, hneg]
    · rw [decVal_repr]; omega

/-- literals denote in-range integers (range part of the spec, extracted) -/
theorem C13_literal_range {cs : List Char} {n : Int} (h : IsI32Literal cs n) :
    i32Min ≤ n ∧ n ≤ i32Max := by
  obtain ⟨_, _, _, a, b, _⟩ := h; exact ⟨a, b⟩

/-- encoding an already encoded integer changes nothing -/
theorem C13_encode_idem_on_ints {s : String} {n : Int} (h : IsI32Literal s.toList n) :
    encode (encode s) = encode s := by
  obtain ⟨hlo, hhi⟩ := C13_literal_range h
  rw [C13_encode_int h]
  simp [encode, C13_canonical hlo hhi]

/-- decimal printing of naturals is injective (`BigNumber::to_dec` loses nothing) -/
theorem C13_natRepr_injective {a b : Nat} (h : Nat.repr a = Nat.repr b) : a = b := by
  have := congrArg (fun s => decVal s.toList) h
  simpa [decVal_repr] using this

/-- decimal printing of integers is injective -/
theorem C13_intToDec_injective {a b : Int} (h : intToDec a = intToDec b) : a = b := by
  unfold intToDec at h
  have hd : ∀ m : Nat, ((Nat.repr m).toList.head?) ≠ some '-' := by
    intro m hm
    have hall := repr_toList_allDigits m
    cases hl : (Nat.repr m).toList with
    | nil => simp [hl] at hm
    | cons c cs =>
      simp [hl] at hm
      subst hm
      have := allDigits_iff.mp hall '-' (by simp [hl])
      revert this; decide
  by_cases ha : a < 0 <;> by_cases hb : b < 0 <;> simp only [ha, hb, if_true, if_false] at h
  · have := congrArg String.toList h
    simp only [String.toList_append, List.append_cancel_left_eq] at this
    have := C13_natRepr_injective (String.toList_inj.mp this)
    omega
  · exfalso
    have := congrArg (fun s => s.toList.head?) h
    simp only [String.toList_append] at this
    exact hd _ (by simpa using this.symm)
  · exfalso
    have := congrArg (fun s => s.toList.head?) h
    simp only [String.toList_append] at this
    exact hd _ (by simpa using this)
  · have := C13_natRepr_injective h
    omega

/-- hence two literals are encoded alike iff they denote the same integer -/
theorem C13_encode_int_inj {s t : String} {n m : Int}
    (hs : IsI32Literal s.toList n) (ht : IsI32Literal t.toList m) :
    encode s = encode t ↔ n = m := by
  rw [C13_encode_int hs, C13_encode_int ht]
  exact ⟨C13_intToDec_injective, fun h => by rw [h]⟩

/-- the verifier's normalisation is the identity on every decimal natural number -/
theorem C13_normalize_natRepr (m : Nat) : normalizeEnc (Nat.repr m) = Nat.repr m := by
  unfold normalizeEnc
  cases hp : parseI32 (Nat.repr m).toList with
  | none => rfl
  | some n =>
    have hl := (C13_parseI32_spec _ _).mp hp
    have hl' : IsI32Literal (Nat.repr m).toList (m : Int) := by
      obtain ⟨hlo, hhi⟩ := C13_literal_range hl
      -- the string is its own digit run, so it denotes `m`
      have hm : IsI32Literal (Nat.repr m).toList (decVal (Nat.repr m).toList : Int) → n = (decVal (Nat.repr m).toList : Int) :=
        fun h' => C13_literal_unique hl h'
      obtain ⟨ds, hne, hall, _, _, hcase⟩ := hl
      have hall' := repr_toList_allDigits m
      rcases hcase with ⟨hcs | hcs, hn⟩ | ⟨hcs, hn⟩
      · refine ⟨ds, hne, hall, ?_, ?_, Or.inl ⟨Or.inl hcs, ?_⟩⟩
        · rw [← hcs, decVal_repr] at hn; omega
        · rw [← hcs, decVal_repr] at hn; omega
        · rw [← hcs, decVal_repr]
      · exfalso
        have := allDigits_iff.mp hall' '+' (by rw [hcs]; simp)
        revert this; decide
      · exfalso
        have := allDigits_iff.mp hall' '-' (by rw [hcs]; simp)
        revert this; decide
    have : n = (m : Int) := C13_literal_unique ((C13_parseI32_spec _ _).mp hp) hl'
    subst this
    simp [intToDec]

/-- the verifier's normalisation leaves every encoder output unchanged -/
theorem C13_normalize_encode (s : String) : normalizeEnc (encode s) = encode s := by
  unfold encode
  cases hp : parseI32 s.toList with
  | some n =>
    obtain ⟨hlo, hhi⟩ := C13_literal_range ((C13_parseI32_spec _ _).mp hp)
    simp [normalizeEnc, C13_canonical hlo hhi]
  | none => simp only [shaDec]; exact C13_normalize_natRepr _

/-- normalisation is idempotent -/
theorem C13_normalize_idem (s : String) : normalizeEnc (normalizeEnc s) = normalizeEnc s := by
  unfold normalizeEnc
  cases hp : parseI32 s.toList with
  | some n =>
    obtain ⟨hlo, hhi⟩ := C13_literal_range ((C13_parseI32_spec _ _).mp hp)
    simp [C13_canonical hlo hhi]
  | none => simp [hp]

/-- normalisation maps a literal and the canonical form of its value to the same string -/
theorem C13_normalize_literal {s : String} {n : Int} (h : IsI32Literal s.toList n) :
    normalizeEnc s = intToDec n := by
  simp [normalizeEnc, (C13_parseI32_spec _ _).mpr h]

/-! ### non-vacuity: concrete strings on both sides of every boundary -/
example : IsI32Literal "007".toList 7 := (C13_parseI32_spec _ _).mp (by decide)
example : IsI32Literal "+5".toList 5 := (C13_parseI32_spec _ _).mp (by decide)
example : IsI32Literal "-0".toList 0 := (C13_parseI32_spec _ _).mp (by decide)
example : IsI32Literal "-2147483648".toList (-2147483648) := (C13_parseI32_spec _ _).mp (by decide)
example : IsI32Literal "2147483647".toList 2147483647 := (C13_parseI32_spec _ _).mp (by decide)
example : ¬ ∃ n, IsI32Literal "2147483648".toList n := by
  rintro ⟨n, h⟩; have := (C13_parseI32_spec _ _).mpr h; rw [show parseI32 _ = none by decide] at this; cases this
example : ¬ ∃ n, IsI32Literal "-2147483649".toList n := by
  rintro ⟨n, h⟩; have := (C13_parseI32_spec _ _).mpr h; rw [show parseI32 _ = none by decide] at this; cases this
example : ¬ ∃ n, IsI32Literal "+".toList n := by
  rintro ⟨n, h⟩; have := (C13_parseI32_spec _ _).mpr h; rw [show parseI32 _ = none by decide] at this; cases this
example : ¬ ∃ n, IsI32Literal "".toList n := by
  rintro ⟨n, h⟩; have := (C13_parseI32_spec _ _).mpr h; rw [show parseI32 _ = none by decide] at this; cases this
example : ¬ ∃ n, IsI32Literal "١٢".toList n := by
  rintro ⟨n, h⟩; have := (C13_parseI32_spec _ _).mpr h; rw [show parseI32 _ = none by decide] at this; cases this
example : ¬ ∃ n, IsI32Literal " 1".toList n := by
  rintro ⟨n, h⟩; have := (C13_parseI32_spec _ _).mpr h; rw [show parseI32 _ = none by decide] at this; cases this
example : encode "0042" = "42" := by decide
example : encode "-0" = "0" := by decide

end AnonModel.Encode

import AnonModel.Model.PanicRegistry
/-!
# C12 — every panicking expression of the anchored code is accounted for

Regenerated table (`Gen/PanicSites.lean`, from `/repo` on every run) against the hand-written
registry of guards. `decide` over the whole generated table.
-/
namespace AnonModel.PanicRegistry
open AnonModel.Gen

/-- every `unwrap` / `expect` / `unreachable!` / `panic!` / index expression that the translator finds in
the non-test code of the files anchored by C12 is registered with the guard that makes it unreachable on
untrusted input (or is a prover-side site outside the claim) -/
theorem C12_all_sites_registered : ∀ s ∈ panicSites, s ∈ registeredSites := by decide

/-- conversely the registry holds no stale entries (a guard written down for code that no longer exists
would hide the fact that nobody re-examined the function) -/
theorem C12_no_stale_registration : ∀ s ∈ registeredSites, s ∈ panicSites := by decide

/-- the verifier files themselves contain no index expression and no `expect`/`unreachable!`/`panic!` -/
theorem C12_verifier_only_unwraps :
    ∀ s ∈ panicSites, (s.file = "src/services/verifier.rs" ∨ s.file = "src/services/w3c/verifier.rs") → s.kind = "unwrap" := by
  decide

/-- the W3C verifier has no panicking expression at all -/
theorem C12_w3c_verifier_has_no_sites : ∀ s ∈ panicSites, s.file ≠ "src/services/w3c/verifier.rs" := by decide

example : panicSites ≠ [] := by decide

end AnonModel.PanicRegistry

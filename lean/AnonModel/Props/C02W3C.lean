import AnonModel.Lemmas.VerifierW3C
import AnonModel.Props.C01W3C
import AnonModel.Props.C08
/-!
# C02 (W3C form) — what an accepted W3C presentation guarantees about non-revocation

Property theorems only. **The full claim of C02 is false for the code** (findings F3 and F4, W3C
form); it is kept visible as the definition `C02_w3c_full` and refuted by two concrete accepted
model presentations:
* `C02_w3c_refuted_no_nrp` (F3) — the request demands non-revocation, the definition is
  revocation-capable, the presentation names a registry and the timestamp of a supplied status list
  inside the interval, but the sub-proof carries **no non-revocation part**: `ProofVerifier::verify`
  silently skips the check and nothing in the service code requires the part to be present;
* `C02_w3c_refuted_strip_regid` (F4) — the same presentation with `rev_reg_id` (and `timestamp`)
  removed from the unauthenticated proof value: `check_credential_non_revoked_interval` is keyed
  on the presentation's registry id, so no interval is enforced at all.

What does hold (`_partial`): a non-revocation part that *is* present — with registry id, timestamp
and a revocation-capable definition — is verified against the accumulator of the last supplied
status list for exactly (registry id, timestamp), with the registry key of the supplied registry
definition, and is about the index the credential was issued with (`C02_w3c_partial`); a named
(registry, timestamp) pair must have a supplied list (`C02_w3c_needs_list`); whenever a registry
id is present the timestamp must exist and lie in the window demanded by each item the credential
serves (`C02_w3c_window`, `C02_w3c_window_timestamp`). `C02_w3c_partial_served` puts these together
in the shape of the full claim: exactly two hypotheses are missing — *the presentation names a
registry* and *the sub-proof has a non-revocation part* — both under the holder's control.
-/
namespace AnonModel.VerifierW3C
open AnonModel.Verifier AnonModel.IdealCL AnonModel
open AnonModel.Interval (Ivl)

/-! ### vocabulary and the full claim -/

/-- an item (requested attribute or predicate) with local interval `loc` demands non-revocation:
it has its own interval or the request has a request-wide one -/
def Demands (r : Request) (loc : Option Ivl) : Prop :=
  loc.isSome = true ∨ r.nonRevoked.isSome = true

/-- the credential comes from a revocation-capable credential definition -/
def Revocable (ctx : Ctx) (c : Cred) : Prop :=
  ∃ cd, ctx.credDefs.lookup c.credDefId = some cd ∧ cd.revocable = true

/-- non-revocation of `c` is proven: the presentation names a registry and a timestamp, the
verifier supplied a status list for exactly that pair, the timestamp lies in the interval the item
(local interval `loc`) demands, and the sub-proof has a non-revocation part whose witness is valid
for the accumulator of that list and for the index the credential was issued with -/
def NonRevocationProven (ctx : Ctx) (r : Request) (loc : Option Ivl) (c : Cred) : Prop :=
  ∃ rid ts n ls l i, c.revRegId = some rid ∧ c.timestamp = some ts ∧ c.sub.nrp = some n ∧
    ctx.lists = some ls ∧ findList ls rid ts = some l ∧ l.acc = some n.acc ∧ n.witOk = true ∧
    c.sub.cred.rev = some (n.regKey, n.idx) ∧
    Interval.C08_demand loc r.nonRevoked rid ctx.override = some i ∧ Interval.valid i ts = true

/-- **THE FULL CLAIM (C02, W3C form) — false for the code, see the two `_refuted` theorems.**
If the verifier returns `Ok(true)`, every item that demands non-revocation is served by a
credential which, when it comes from a revocation-capable definition, is proven non-revoked. -/
def C02_w3c_full : Prop :=
  ∀ (ctx : Ctx) (r : Request) (p : Presentation), verifyW3C ctx r p = .ok true →
    (∀ ra ∈ r.attrs, Demands r ra.2.nonRevoked → ∀ n ∈ ra.2.allNames,
      ∃ c ∈ p.creds, (Reveals c n ∨ HoldsAttr ctx c n) ∧
        (Revocable ctx c → NonRevocationProven ctx r ra.2.nonRevoked c)) ∧
    (∀ rq ∈ r.preds, Demands r rq.2.nonRevoked →
      ∃ c ∈ p.creds, ProvesPred c rq.2 ∧
        (Revocable ctx c → NonRevocationProven ctx r rq.2.nonRevoked c))

/-! ### what holds -/

/-- **a named (registry, timestamp) pair needs a supplied list**: in an accepted presentation,
for every credential that names both a registry and a timestamp the verifier supplied the registry
definition and a status list for exactly that registry and timestamp (carrying an accumulator) -/
theorem C02_w3c_needs_list {ctx : Ctx} {r : Request} {p : Presentation}
    (h : verifyW3C ctx r p = .ok true) :
    ∀ c ∈ p.creds, ∀ rid ts, c.revRegId = some rid → c.timestamp = some ts →
      ∃ defs ls d l, ctx.revRegDefs = some defs ∧ ctx.lists = some ls ∧ defs.lookup rid = some d ∧
        findList ls rid ts = some l ∧ l ∈ ls ∧ l.regId = some rid ∧ l.ts = some ts ∧
        l.acc.isSome = true := by
  intro c hc rid ts hrid hts
  obtain ⟨sctx, hs, _⟩ := ok_cred_facts h hc
  obtain ⟨sc, cd, regKey, acc, _, _, hrr, _, _⟩ := subCtxFor_some hs
  rw [hrid, hts] at hrr
  obtain ⟨defs, ls, d, l, hd, hl, hdl, hfl, _, _⟩ := revocationRegistry_some_some hrr
  obtain ⟨hm, h1, h2⟩ := findList_some hfl
  obtain ⟨_, _, _, _, _, hlok, _⟩ := verifyW3C_ok_true_iff.mp h
  exact ⟨defs, ls, d, l, hd, hl, hdl, hfl, hm, h1, h2, listsOk_mem hlok hl hm⟩

/-- **a present non-revocation part is verified** (the part of C02 that holds): in an accepted
presentation, for every credential of a revocation-capable definition that names a registry and a
timestamp and whose sub-proof has a non-revocation part `n`: the verifier supplied the registry
definition and a status list for exactly (registry, timestamp); `n`'s witness is valid for the
accumulator of the **last** such list, under the registry key of the supplied definition, for the
index the credential was issued with in that registry. Hence a credential revoked in that list is
not accepted *if it comes with a non-revocation part*. -/
theorem C02_w3c_partial {ctx : Ctx} {r : Request} {p : Presentation}
    (h : verifyW3C ctx r p = .ok true) :
    ∀ c ∈ p.creds, ∀ cd rid ts n, ctx.credDefs.lookup c.credDefId = some cd →
      cd.revocable = true → c.revRegId = some rid → c.timestamp = some ts → c.sub.nrp = some n →
      ∃ defs ls d l, ctx.revRegDefs = some defs ∧ ctx.lists = some ls ∧ defs.lookup rid = some d ∧
        findList ls rid ts = some l ∧ l.acc = some n.acc ∧ n.regKey = d.regKey ∧
        n.witOk = true ∧ c.sub.cred.rev = some (n.regKey, n.idx) := by
  intro c hc cd rid ts n hcd hrevo hrid hts hn
  obtain ⟨sctx, hs, _, hnrp, _⟩ := ok_cred_facts h hc
  obtain ⟨sc, cd', regKey, acc, _, hcd', hrr, rfl, _⟩ := subCtxFor_some hs
  rw [hcd] at hcd'
  simp only [Option.some.injEq] at hcd'
  subst hcd'
  rw [hrid, hts] at hrr
  obtain ⟨defs, ls, d, l, hd, hl, hdl, hfl, rfl, rfl⟩ := revocationRegistry_some_some hrr
  obtain ⟨hm, _, _⟩ := findList_some hfl
  obtain ⟨_, _, _, _, _, hlok, _⟩ := verifyW3C_ok_true_iff.mp h
  have hacc := listsOk_mem hlok hl hm
  have hchk : nrpChecked (⟨sc.attrNames.map Names.commonView, cd.key, cd.revocable,
      some d.regKey, l.acc⟩ : SubCtx) c.sub = true := by
    simp [nrpChecked, hn, hrevo, hacc]
  obtain ⟨hw, hk, ha, hr⟩ := nrpOk_some hn (hnrp hchk)
  simp only [Option.some.injEq] at hk
  exact ⟨defs, ls, d, l, hd, hl, hdl, hfl, ha, hk.symm, hw, hr⟩

/-- `conditionsOk` includes the interval check -/
theorem C02_w3c_conditions_window {ctx : Ctx} {r : Request} {c : Cred}
    {restr : Option Query.Query} {loc : Option Ivl} (h : conditionsOk ctx r c restr loc = true) :
    Interval.checkW3C loc r.nonRevoked c.revRegId ctx.override c.timestamp = true :=
  (conditionsOk_iff.mp h).2

/-- **window**: in an accepted presentation every requested attribute name and every requested
predicate is served by a sound credential that passes `check_credential_non_revoked_interval`
with the item's own interval -/
theorem C02_w3c_window {ctx : Ctx} {r : Request} {p : Presentation}
    (h : verifyW3C ctx r p = .ok true) :
    (∀ ra ∈ r.attrs, ∀ n ∈ ra.2.allNames, ∃ c ∈ p.creds,
      (Reveals c n ∨ HoldsAttr ctx c n) ∧ CredSound ctx c ∧
      Interval.checkW3C ra.2.nonRevoked r.nonRevoked c.revRegId ctx.override c.timestamp = true) ∧
    (∀ rq ∈ r.preds, ∃ c ∈ p.creds, ProvesPred c rq.2 ∧ CredSound ctx c ∧
      Interval.checkW3C rq.2.nonRevoked r.nonRevoked c.revRegId ctx.override c.timestamp = true) := by
  constructor
  · intro ra hra n hn
    rcases C01_w3c_attributes h ra hra n hn with ⟨c, hc, hr, hcond, hs⟩ | ⟨c, hc, hh, hcond, hs⟩
    · exact ⟨c, hc, Or.inl hr, hs, C02_w3c_conditions_window hcond⟩
    · exact ⟨c, hc, Or.inr hh, hs, C02_w3c_conditions_window hcond⟩
  · intro rq hrq
    obtain ⟨c, hc, hp, hcond, hs⟩ := C01_w3c_predicates h rq hrq
    exact ⟨c, hc, hp, hs, C02_w3c_conditions_window hcond⟩

/-- what passing the interval check means when the presentation names a registry and the item
demands non-revocation: a timestamp is present and lies in the demanded window (`C08_demand`:
own interval else request-wide, lower bound overridden) -/
theorem C02_w3c_window_timestamp {loc glob : Option Ivl} {rid : String}
    {ovr : Option Interval.Overrides} {ts : Option Nat}
    (h : Interval.checkW3C loc glob (some rid) ovr ts = true)
    (hdem : loc.isSome = true ∨ glob.isSome = true) :
    ∃ t i, ts = some t ∧ Interval.C08_demand loc glob rid ovr = some i ∧
      Interval.valid i t = true := by
  rw [Interval.C08_w3c_exact] at h
  cases hd : Interval.C08_demand loc glob rid ovr with
  | none =>
    exfalso
    cases loc with
    | some l => cases hd
    | none =>
      cases glob with
      | some g => cases hd
      | none => simp at hdem
  | some i =>
    rw [hd] at h
    cases ts with
    | none => cases h
    | some t => exact ⟨t, i, rfl, rfl, h⟩

/-- the pieces put together for one credential that passed an item's conditions: **if** the
presentation names a registry for it **and** its sub-proof has a non-revocation part, then (for a
revocation-capable definition and an item that demands non-revocation) it is proven non-revoked -/
theorem C02_w3c_proven_of {ctx : Ctx} {r : Request} {p : Presentation}
    (h : verifyW3C ctx r p = .ok true) {c : Cred} (hc : c ∈ p.creds) {loc : Option Ivl}
    (hwin : Interval.checkW3C loc r.nonRevoked c.revRegId ctx.override c.timestamp = true)
    (hdem : Demands r loc) (hrev : Revocable ctx c)
    (hrid : c.revRegId.isSome = true) (hnrp : c.sub.nrp.isSome = true) :
    NonRevocationProven ctx r loc c := by
  obtain ⟨rid, hrid'⟩ := Option.isSome_iff_exists.mp hrid
  obtain ⟨n, hn⟩ := Option.isSome_iff_exists.mp hnrp
  obtain ⟨cd, hcd, hrevo⟩ := hrev
  rw [hrid'] at hwin
  obtain ⟨t, i, hts, hd, hv⟩ := C02_w3c_window_timestamp hwin hdem
  obtain ⟨defs, ls, d, l, _, hl, _, hfl, ha, _, hw, hr⟩ :=
    C02_w3c_partial h c hc cd rid t n hcd hrevo hrid' hts hn
  exact ⟨rid, t, n, ls, l, i, hrid', hts, hn, hl, hfl, ha, hw, hr, hd, hv⟩

/-- **the full claim with its two missing hypotheses made explicit**: same shape as
`C02_w3c_full`, but non-revocation is guaranteed only for a serving credential for which the
presentation names a registry (`c.revRegId.isSome` — missing: F4) and whose sub-proof has a
non-revocation part (`c.sub.nrp.isSome` — missing: F3) -/
theorem C02_w3c_partial_served {ctx : Ctx} {r : Request} {p : Presentation}
    (h : verifyW3C ctx r p = .ok true) :
    (∀ ra ∈ r.attrs, Demands r ra.2.nonRevoked → ∀ n ∈ ra.2.allNames,
      ∃ c ∈ p.creds, (Reveals c n ∨ HoldsAttr ctx c n) ∧
        (Revocable ctx c → c.revRegId.isSome = true → c.sub.nrp.isSome = true →
          NonRevocationProven ctx r ra.2.nonRevoked c)) ∧
    (∀ rq ∈ r.preds, Demands r rq.2.nonRevoked →
      ∃ c ∈ p.creds, ProvesPred c rq.2 ∧
        (Revocable ctx c → c.revRegId.isSome = true → c.sub.nrp.isSome = true →
          NonRevocationProven ctx r rq.2.nonRevoked c)) := by
  obtain ⟨hA, hP⟩ := C02_w3c_window h
  constructor
  · intro ra hra hdem n hn
    obtain ⟨c, hc, hserve, _, hwin⟩ := hA ra hra n hn
    exact ⟨c, hc, hserve, fun hrev hrid hnrp => C02_w3c_proven_of h hc hwin hdem hrev hrid hnrp⟩
  · intro rq hrq hdem
    obtain ⟨c, hc, hserve, _, hwin⟩ := hP rq hrq
    exact ⟨c, hc, hserve, fun hrev hrid hnrp => C02_w3c_proven_of h hc hwin hdem hrev hrid hnrp⟩

/-! ### the refutations (findings F3, F4 in W3C form) -/

set_option maxRecDepth 100000 in
/-- F3 witness is accepted: request-wide interval `[5, 20]`, revocation-capable definition,
registry `rr` and timestamp `10` of a supplied list named, credential issued with revocation
(index 4) — and **no non-revocation part** in the sub-proof -/
theorem C02_w3c_no_nrp_accepted :
    verifyW3C DemoNoNrp.ctx DemoNoNrp.req DemoNoNrp.pres = .ok true ∧
    DemoNoNrp.req.nonRevoked = some ⟨some 5, some 20⟩ ∧
    DemoNoNrp.cred.revRegId = some "rr" ∧ DemoNoNrp.cred.timestamp = some 10 ∧
    DemoNoNrp.cred.sub.cred.rev = some (9, 4) ∧ DemoNoNrp.cred.sub.nrp = none := by
  refine ⟨by decide, rfl, rfl, rfl, rfl, rfl⟩

/-- **refuted (F3)**: the full claim fails on `DemoNoNrp` — the only credential of the accepted
presentation serves the requested predicate, its definition is revocation-capable, the request
demands non-revocation, and there is no non-revocation part -/
theorem C02_w3c_refuted_no_nrp : ¬ C02_w3c_full := by
  intro hfull
  obtain ⟨c, hc, _, hnr⟩ :=
    (hfull _ _ _ C02_w3c_no_nrp_accepted.1).2 _ (List.mem_cons_self ..) (Or.inr rfl)
  have hc' : c = DemoNoNrp.cred := by simpa [DemoNoNrp.pres] using hc
  subst hc'
  obtain ⟨_, _, n, _, _, _, _, _, hn, _⟩ := hnr ⟨_, rfl, rfl⟩
  simp [DemoNoNrp.cred, DemoNoNrp.sub] at hn

set_option maxRecDepth 100000 in
/-- F4 witness is accepted: as before but the presentation names neither registry nor timestamp -/
theorem C02_w3c_strip_regid_accepted :
    verifyW3C DemoNoNrp.ctx DemoNoNrp.req DemoStripRegId.pres = .ok true ∧
    DemoNoNrp.req.nonRevoked = some ⟨some 5, some 20⟩ ∧
    DemoStripRegId.cred.revRegId = none ∧ DemoStripRegId.cred.timestamp = none ∧
    DemoStripRegId.cred.sub.cred.rev = some (9, 4) := by
  refine ⟨by decide, rfl, rfl, rfl, rfl⟩

/-- **refuted (F4)**: the full claim fails on `DemoStripRegId` — without `rev_reg_id` the
request-wide interval is not enforced for the (revocation-capable) credential -/
theorem C02_w3c_refuted_strip_regid : ¬ C02_w3c_full := by
  intro hfull
  obtain ⟨c, hc, _, hnr⟩ :=
    (hfull _ _ _ C02_w3c_strip_regid_accepted.1).2 _ (List.mem_cons_self ..) (Or.inr rfl)
  have hc' : c = DemoStripRegId.cred := by simpa [DemoStripRegId.pres] using hc
  subst hc'
  obtain ⟨_, _, _, _, _, _, hrid, _⟩ := hnr ⟨_, rfl, rfl⟩
  simp [DemoStripRegId.cred] at hrid

/-! ### non-vacuity of the partial theorems -/

set_option maxRecDepth 100000 in
/-- an accepted presentation with a non-revocation part, for which all hypotheses of
`C02_w3c_partial` / `C02_w3c_partial_served` hold -/
example : verifyW3C DemoNoNrp.ctx DemoNoNrp.req DemoNrp.pres = .ok true ∧
    DemoNrp.cred.revRegId = some "rr" ∧ DemoNrp.cred.timestamp = some 10 ∧
    DemoNrp.cred.sub.nrp = some ⟨9, 4, 3, true⟩ ∧
    DemoNoNrp.ctx.credDefs.lookup DemoNrp.cred.credDefId = some ⟨"I", 1, true⟩ := by
  refine ⟨by decide, rfl, rfl, rfl, rfl⟩

set_option maxRecDepth 100000 in
/-- and the verification of the part is effective: a witness for another accumulator value
(stale revocation state) is not accepted -/
example :
    verifyW3C DemoNoNrp.ctx DemoNoNrp.req
      { DemoNrp.pres with creds := [{ DemoNrp.cred with sub := { DemoNrp.sub with
          nrp := some ⟨9, 4, 2, true⟩ } }] } = .ok false := by decide

end AnonModel.VerifierW3C

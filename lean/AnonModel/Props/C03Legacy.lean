import AnonModel.Lemmas.VerifierLegacy
/-!
# C03 (legacy format) — every value a verified presentation reveals is the value the issuer signed

Soundness direction for `Verifier.verifyLegacy` (model of `services/verifier.rs:
verify_presentation`) on top of the ideal CL functionality. "The value" is the **encoded** value:
`verify_revealed_attribute_value` compares `normalize_encoded_attr(encoded)` with the value the
sub-proof's equality proof reveals, and the (ideal) primary proof check makes that the signed one.

Not claimed, because not true of the code: the `raw` string next to `encoded` is **not
authenticated** by the verifier (nothing relates `raw` to `encoded`; a caller that wants the raw
value must re-encode it and compare — see also C06, finding F15, where restrictions are evaluated
on `raw`). Nothing in this file mentions `raw`.

Hypotheses on key uniqueness: none. `C03_legacy_revealed`, `C03_legacy_group`,
`C03_legacy_altered_rejected` quantify over *all entries* of the presentation's maps, which is what
the verifier iterates over. `C03_legacy_group_members` (every *member* of a revealed group, not only
every requested name) rests on `values.len() == distinct(names).len()` (fix commit "compare the
group size with the number of distinct requested names"; before it the size was compared with
`names.len()`, and a request repeating a name let an unrequested, unauthenticated member through):
every requested name is a key and there are as many members as distinct names, so by pigeonhole the
keys of the group are exactly the distinct requested names — and are unique
(`C03_legacy_group_keys_nodup`), which in the Rust `HashMap` holds by construction.
-/
namespace AnonModel.Verifier
open AnonModel.IdealCL

/-- **C03, single attributes**: for every entry of `revealed_attrs` of an accepted presentation, the
referent is a requested single attribute `n`, the sub-proof it points to is sound, and the
normalised `encoded` value is the signed value of an attribute of that credential whose name has the
same normal form as `n` -/
theorem C03_legacy_revealed {ctx : Ctx} {r : Request} {p : Presentation}
    (h : verifyLegacy ctx r p = .ok true) :
    ∀ kv ∈ p.revealed, ∃ a n s v, r.attrs.lookup kv.1 = some a ∧ a.name = some n ∧
      p.subs[kv.2.idx]? = some s ∧ SubSound ctx p kv.2.idx s ∧
      ∃ k, Names.commonView k = Names.commonView n ∧ s.cred.attrs.lookup k = some v ∧
        Encode.normalizeEnc kv.2.encoded = v := by
  rintro ⟨ref, info⟩ hm
  obtain ⟨-, -, -, hrev, -⟩ := (verifyLegacy_ok_true_iff ctx r p).mp h
  obtain ⟨a, n, s, ha, hn, hs, hv⟩ := revealedValuesOk_single hrev hm
  obtain ⟨kv, hkv, h1, h2⟩ := revealedValueOk_elim hv
  have hss := subSound_of_ok h _ s hs
  exact ⟨a, n, s, kv.2, ha, hn, hs, hss, kv.1, h1, hss.revealed_signed kv hkv, h2⟩

/-- **C03, attribute groups**: for every entry of `revealed_attr_groups` of an accepted presentation,
the referent is a requested group `names`, the sub-proof it points to is sound, the group has as
many members as *distinct* names were requested, and for every requested name the group has a member whose
normalised `encoded` value is the signed value of an attribute with the same normal-form name -/
theorem C03_legacy_group {ctx : Ctx} {r : Request} {p : Presentation}
    (h : verifyLegacy ctx r p = .ok true) :
    ∀ kv ∈ p.groups, ∃ a names s, r.attrs.lookup kv.1 = some a ∧ a.names = some names ∧
      p.subs[kv.2.idx]? = some s ∧ SubSound ctx p kv.2.idx s ∧
      kv.2.values.length = names.eraseDups.length ∧
      ∀ n ∈ names, ∃ re k v, kv.2.values.lookup n = some re ∧
        Names.commonView k = Names.commonView n ∧ s.cred.attrs.lookup k = some v ∧
        Encode.normalizeEnc re.2 = v := by
  rintro ⟨ref, g⟩ hm
  obtain ⟨-, -, -, hrev, -⟩ := (verifyLegacy_ok_true_iff ctx r p).mp h
  obtain ⟨a, names, s, ha, hn, hs, hlen, hv⟩ := revealedValuesOk_group hrev hm
  have hss := subSound_of_ok h _ s hs
  refine ⟨a, names, s, ha, hn, hs, hss, hlen, fun n hn' => ?_⟩
  obtain ⟨re, hre, hok⟩ := hv n hn'
  obtain ⟨kv, hkv, h1, h2⟩ := revealedValueOk_elim hok
  exact ⟨re, kv.1, kv.2, hre, h1, hss.revealed_signed kv hkv, h2⟩

/-- the keys of a revealed group of an accepted presentation are exactly the requested names, without
repetition (pigeonhole: as many members as distinct requested names, every requested name a key) -/
theorem C03_legacy_group_keys {ctx : Ctx} {r : Request} {p : Presentation}
    (h : verifyLegacy ctx r p = .ok true) :
    ∀ kv ∈ p.groups, ∀ a names, r.attrs.lookup kv.1 = some a → a.names = some names →
      (keys kv.2.values).Nodup ∧ ∀ n, n ∈ keys kv.2.values ↔ n ∈ names := by
  rintro ⟨ref, g⟩ hm a names ha hn
  obtain ⟨a', names', s, ha', hn', hs, -, hlen, hv⟩ := C03_legacy_group h _ hm
  simp only at ha ha' hn' hs hlen hv ⊢
  rw [ha] at ha'; cases ha'
  rw [hn] at hn'; cases hn'
  have hsub : names.eraseDups ⊆ keys g.values := by
    intro x hx
    obtain ⟨re', _, _, hre', _⟩ := hv x (List.mem_eraseDups.mp hx)
    exact mem_keys_of_lookup hre'
  obtain ⟨hsup, hknd⟩ :=
    subset_of_nodup_length (nodup_eraseDups names) hsub (by simp [keys, hlen])
  exact ⟨hknd, fun n => ⟨fun hk => List.mem_eraseDups.mp (hsup hk),
    fun hk => hsub (List.mem_eraseDups.mpr hk)⟩⟩

/-- **C03, every group member**: every member `(name, (raw, encoded))` of a revealed group of an
accepted presentation is one of the requested names, and its normalised `encoded` value is the
signed value of an attribute with the same normal-form name in the credential behind sub-proof
`g.idx`. (`(keys g.values).Nodup` — the Rust map is a `HashMap` — is kept as the hypothesis under
which "member" and "lookup result" coincide; it is in fact implied, see
`C03_legacy_group_keys`.) -/
theorem C03_legacy_group_members {ctx : Ctx} {r : Request} {p : Presentation}
    (h : verifyLegacy ctx r p = .ok true) :
    ∀ kv ∈ p.groups, (keys kv.2.values).Nodup →
      ∃ a names s, r.attrs.lookup kv.1 = some a ∧ a.names = some names ∧
        p.subs[kv.2.idx]? = some s ∧ SubSound ctx p kv.2.idx s ∧
        ∀ m ∈ kv.2.values, m.1 ∈ names ∧ ∃ k, Names.commonView k = Names.commonView m.1 ∧
          s.cred.attrs.lookup k = some (Encode.normalizeEnc m.2.2) := by
  rintro ⟨ref, g⟩ hm hknd
  obtain ⟨a, names, s, ha, hn, hs, hss, -, hv⟩ := C03_legacy_group h _ hm
  refine ⟨a, names, s, ha, hn, hs, hss, ?_⟩
  rintro ⟨n, re⟩ hmem
  simp only at ha hn hs hv hmem hknd ⊢
  have hnn : n ∈ names :=
    ((C03_legacy_group_keys h _ hm a names ha hn).2 n).mp (mem_keys.mpr ⟨re, hmem⟩)
  obtain ⟨re', k, v, hre', hk, hsig, henc⟩ := hv n hnn
  have : re' = re := by
    have := lookup_of_mem_nodup hknd hmem
    rw [hre'] at this; exact Option.some.inj this
  subst this
  exact ⟨hnn, k, hk, by rw [henc]; exact hsig⟩

/-- the same without any hypothesis (uniqueness of the group's keys is derived) -/
theorem C03_legacy_group_members' {ctx : Ctx} {r : Request} {p : Presentation}
    (h : verifyLegacy ctx r p = .ok true) :
    ∀ kv ∈ p.groups, ∃ a names s, r.attrs.lookup kv.1 = some a ∧ a.names = some names ∧
      p.subs[kv.2.idx]? = some s ∧ SubSound ctx p kv.2.idx s ∧
      ∀ m ∈ kv.2.values, m.1 ∈ names ∧ ∃ k, Names.commonView k = Names.commonView m.1 ∧
        s.cred.attrs.lookup k = some (Encode.normalizeEnc m.2.2) := by
  intro kv hm
  obtain ⟨a, names, s, ha, hn, -⟩ := C03_legacy_group h kv hm
  exact C03_legacy_group_members h kv hm (C03_legacy_group_keys h kv hm a names ha hn).1

/-- **unrequested group member rejected**: a revealed group with a member whose name is not among
the requested `names` makes the presentation unacceptable -/
theorem C03_legacy_extra_member_rejected {ctx : Ctx} {r : Request} {p : Presentation}
    {ref : String} {g : GroupInfo} (hm : (ref, g) ∈ p.groups)
    {a : AttrInfo} {names : List String} (ha : r.attrs.lookup ref = some a)
    (hn : a.names = some names) {m : String × (String × String)} (hmem : m ∈ g.values)
    (hextra : m.1 ∉ names) : verifyLegacy ctx r p ≠ .ok true := by
  intro h
  exact hextra (((C03_legacy_group_keys h _ hm a names ha hn).2 m.1).mp (mem_keys_of_mem hmem))

/-- **altered value rejected**: if an entry of `revealed_attrs` carries an `encoded` value such that no
attribute with the requested normal-form name of the credential behind the sub-proof it points to
has that (normalised) value as its signed value, the presentation is not accepted -/
theorem C03_legacy_altered_rejected {ctx : Ctx} {r : Request} {p : Presentation}
    {ref : String} {info : RevealedInfo} (hm : (ref, info) ∈ p.revealed)
    (hno : ∀ a n s k, r.attrs.lookup ref = some a → a.name = some n →
      p.subs[info.idx]? = some s → Names.commonView k = Names.commonView n →
      s.cred.attrs.lookup k ≠ some (Encode.normalizeEnc info.encoded)) :
    verifyLegacy ctx r p ≠ .ok true := by
  intro h
  obtain ⟨a, n, s, v, ha, hn, hs, -, k, hk, hsig, henc⟩ := C03_legacy_revealed h _ hm
  exact hno a n s k ha hn hs hk (by rw [henc]; exact hsig)

/-- **altered group value rejected**: same for a requested name of a revealed group -/
theorem C03_legacy_altered_group_rejected {ctx : Ctx} {r : Request} {p : Presentation}
    {ref : String} {g : GroupInfo} (hm : (ref, g) ∈ p.groups)
    {a : AttrInfo} {names : List String} (ha : r.attrs.lookup ref = some a)
    (hn : a.names = some names) {n : String} (hnn : n ∈ names)
    (hno : ∀ re s k, g.values.lookup n = some re → p.subs[g.idx]? = some s →
      Names.commonView k = Names.commonView n →
      s.cred.attrs.lookup k ≠ some (Encode.normalizeEnc re.2)) :
    verifyLegacy ctx r p ≠ .ok true := by
  intro h
  obtain ⟨a', names', s, ha', hn', hs, -, -, hv⟩ := C03_legacy_group h _ hm
  simp only at ha' hn' hs hv
  rw [ha] at ha'; cases ha'
  rw [hn] at hn'; cases hn'
  obtain ⟨re, k, v, hre, hk, hsig, henc⟩ := hv n hnn
  exact hno re s k hre hs hk (by rw [henc]; exact hsig)

/-! ### non-vacuity -/

section Examples
open Honest

-- the honest scenario is accepted and reveals `name = 7`, the signed value
example : verifyLegacy ctx req pres = .ok true := Honest.accepted
example : ("a1", ({ idx := 0, raw := "7", encoded := "7" } : RevealedInfo)) ∈ pres.revealed :=
  List.mem_cons_self ..
-- `encoded` is compared after normalisation: `+7`, `007` denote the signed `7`
example : verifyLegacy ctx req
    { pres with revealed := [("a1", { idx := 0, raw := "7", encoded := "+007" })] } = .ok true := by
  decide
-- an altered `encoded` is rejected (hypothesis of `C03_legacy_altered_rejected` satisfiable)
example : verifyLegacy ctx req
    { pres with revealed := [("a1", { idx := 0, raw := "7", encoded := "8" })] } = .err := by decide
-- a sub-proof that reveals something else than what was signed: rejected by the CL verifier
example : verifyLegacy ctx req
    { pres with revealed := [("a1", { idx := 0, raw := "8", encoded := "8" })],
                subs := [{ sub with revealed := [("name", "8")] }] } = .ok false := by decide
-- `raw` is not authenticated: any string goes
example : verifyLegacy ctx req
    { pres with revealed := [("a1", { idx := 0, raw := "anything", encoded := "7" })] } = .ok true := by
  decide
-- a group, accepted; with an altered member, rejected
example : verifyLegacy ctx
    { req with attrs := [("a1", { name := none, names := some ["name", "id"], restrictions := none,
                                  nonRevoked := none })] }
    { pres with revealed := [], unrevealed := [],
                groups := [("a1", { idx := 0, values := [("name", ("7", "7")), ("id", ("9", "9"))] })],
                subs := [{ sub with revealed := [("name", "7"), ("id", "9")] }] } = .ok true := by
  decide
example : verifyLegacy ctx
    { req with attrs := [("a1", { name := none, names := some ["name", "id"], restrictions := none,
                                  nonRevoked := none })] }
    { pres with revealed := [], unrevealed := [],
                groups := [("a1", { idx := 0, values := [("name", ("7", "7")), ("id", ("9", "10"))] })],
                subs := [{ sub with revealed := [("name", "7"), ("id", "9")] }] } = .err := by
  decide
-- a repeated requested name (`names = ["name", "name"]`) with the one group member: accepted …
example : verifyLegacy ctx
    { req with attrs := [("a1", ⟨none, some ["name", "name"], none, none⟩)], preds := [] }
    { pres with revealed := [], unrevealed := [], predicates := [],
                groups := [("a1", { idx := 0, values := [("name", ("7", "7"))] })] } = .ok true := by
  decide
-- … adding a member no requested name covers (the former finding): rejected
example : verifyLegacy ctx
    { req with attrs := [("a1", ⟨none, some ["name", "name"], none, none⟩)], preds := [] }
    { pres with revealed := [], unrevealed := [], predicates := [],
                groups := [("a1", { idx := 0, values := [("name", ("7", "7")), ("id", ("x", "666"))] })] }
    = .err := by decide
end Examples

end AnonModel.Verifier

import AnonModel.Lemmas.Base58
/-!
# C19 — "named by the base58 SHA-256 of its bytes": the name determines the digest

`bs58::encode` as modelled in `Model/Tails` (the crate's carry loop over little-endian base-58 digits) is injective on byte
strings of one length — in particular on 32-byte digests: two tails files with different SHA-256 digests never share a
name, so content addressing adds no collisions of its own to those of the hash function.
-/
namespace AnonModel.Tails

/-- the digits `bs58::encode` keeps spell the number the bytes spell -/
theorem C19_base58_digits_value (bytes : List UInt8) : dval (bytes.foldl feedByte []) = bval bytes := digits_bval bytes

theorem map_symbol_injective : ∀ (l₁ l₂ : List (Fin 58)),
    l₁.map (fun d => alphabet[d.val]'(by rw [alphabet_length]; exact d.isLt)) =
    l₂.map (fun d => alphabet[d.val]'(by rw [alphabet_length]; exact d.isLt)) → l₁ = l₂
  | [], [], _ => rfl
  | [], _ :: _, h => by simp at h
  | _ :: _, [], h => by simp at h
  | d :: l₁, e :: l₂, h => by
    simp only [List.map_cons, List.cons.injEq] at h
    rw [symbol_injective d e h.1, map_symbol_injective l₁ l₂ h.2]

/-- **base58 is injective**: no two byte strings, of whatever lengths, share a text (leading zero bytes are the leading `1`s,
the rest is the number in canonical base-58 digits) -/
theorem C19_base58_injective_any (a b : List UInt8) (h : base58 a = base58 b) : a = b := by
  unfold base58 at h
  simp only at h
  have h1 := congrArg String.toList h
  simp only [String.toList_ofList] at h1
  have h2 := List.reverse_inj.mp h1
  have hz : ∀ l : List UInt8, l.map (fun _ => (0 : Fin 58)) = List.replicate l.length 0 := by
    intro l; induction l with
    | nil => rfl
    | cons _ _ ih => simp [List.replicate_succ, ih]
  have h3 := map_symbol_injective _ _ h2
  rw [hz, hz] at h3
  have h4 := congrArg dval h3
  rw [dval_append, dval_append, dval_zeros, dval_zeros, Nat.mul_zero, Nat.mul_zero, Nat.add_zero, Nat.add_zero] at h4
  have hd : a.foldl feedByte [] = b.foldl feedByte [] :=
    canon_inj _ _ (digits_canon a [] canon_nil) (digits_canon b [] canon_nil) h4
  rw [hd] at h3
  have h5 := List.append_cancel_left h3
  have hlen : (a.takeWhile (· == 0)).length = (b.takeWhile (· == 0)).length := by
    have := congrArg List.length h5
    simpa using this
  have hv : bval a = bval b := by rw [← digits_bval a, ← digits_bval b, hd]
  obtain ⟨ra, ea, na, va⟩ := split_zeros a
  obtain ⟨rb, eb, nb, vb⟩ := split_zeros b
  have hr : ra = rb := nolead_inj ra rb na nb (by rw [← va, ← vb, hv])
  rw [ea, eb, hlen, hr]

/-- in particular on byte strings of one length (two digests) -/
theorem C19_base58_injective (a b : List UInt8) (_hl : a.length = b.length) (h : base58 a = base58 b) : a = b :=
  C19_base58_injective_any a b h

/-- **two tails files whose digests differ have different names** — content addressing adds no collisions of its own to those
of the hash function -/
theorem C19_name_injective (t₁ t₂ : List (List UInt8)) (h : fileName t₁ = fileName t₂) :
    sha256 (fileBytes t₁) = sha256 (fileBytes t₂) :=
  C19_base58_injective_any _ _ h

/-! non-vacuity: the hypothesis is the situation of two digests (both 32 bytes) -/
example : ([1, 2] : List UInt8).length = ([3, 4] : List UInt8).length := rfl

end AnonModel.Tails

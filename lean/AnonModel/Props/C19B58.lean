import AnonModel.Lemmas.Base58
/-!
# C19 — "named by the base58 SHA-256 of its bytes": the name determines the digest

`bs58::encode` as modelled in `Model/Tails` (the crate's carry loop over little-endian base-58 digits) is injective on byte
strings of one length — in particular on 32-byte digests: two tails files with different SHA-256 digests never share a
name, so content addressing adds no collisions of its own to those of the hash function.
-/
namespace AnonModel.Tails

/-- the digits `bs58::encode` keeps spell the number the bytes spell -/
theorem C19_base58_digits_value (bytes : List UInt8) : dval (bytes.foldl feedByte []) = bval bytes := digits_bval bytes

theorem map_symbol_injective : ∀ (l₁ l₂ : List (Fin 58)),
    l₁.map (fun d => alphabet[d.val]'(by rw [alphabet_length]; exact d.isLt)) =
    l₂.map (fun d => alphabet[d.val]'(by rw [alphabet_length]; exact d.isLt)) → l₁ = l₂
  | [], [], _ => rfl
  | [], _ :: _, h => by simp at h
  | _ :: _, [], h => by simp at h
  | d :: l₁, e :: l₂, h => by
    simp only [List.map_cons, List.cons.injEq] at h
    rw [symbol_injective d e h.1, map_symbol_injective l₁ l₂ h.2]

/-- **base58 is injective on byte strings of one length** -/
theorem C19_base58_injective (a b : List UInt8) (hl : a.length = b.length) (h : base58 a = base58 b) : a = b := by
  unfold base58 at h
  simp only at h
  have h1 := congrArg String.toList h
  simp only [String.toList_ofList] at h1
  have h2 := List.reverse_inj.mp h1
  have h3 : a.foldl feedByte [] ++ (a.takeWhile (· == 0)).map (fun _ => (0 : Fin 58))
      = b.foldl feedByte [] ++ (b.takeWhile (· == 0)).map (fun _ => (0 : Fin 58)) := by
    exact map_symbol_injective _ _ h2
  have h4 := congrArg dval h3
  have hz : ∀ l : List UInt8, l.map (fun _ => (0 : Fin 58)) = List.replicate l.length 0 := by
    intro l; induction l with
    | nil => rfl
    | cons _ _ ih => simp [List.replicate_succ, ih]
  rw [dval_append, dval_append, hz, hz, dval_zeros, dval_zeros, Nat.mul_zero, Nat.mul_zero, Nat.add_zero, Nat.add_zero,
    digits_bval, digits_bval] at h4
  exact bval_injective a b hl h4

/-- two tails files whose digests differ have different names -/
theorem C19_name_injective (t₁ t₂ : List (List UInt8))
    (hlen : (sha256 (fileBytes t₁)).length = (sha256 (fileBytes t₂)).length)
    (h : fileName t₁ = fileName t₂) : sha256 (fileBytes t₁) = sha256 (fileBytes t₂) :=
  C19_base58_injective _ _ hlen h

/-! non-vacuity: the hypothesis is the situation of two digests (both 32 bytes) -/
example : ([1, 2] : List UInt8).length = ([3, 4] : List UInt8).length := rfl

end AnonModel.Tails

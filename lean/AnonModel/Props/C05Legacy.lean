import AnonModel.Lemmas.VerifierLegacy
/-!
# C05 (legacy format) — a verified presentation is bound to the request nonce, one link secret,
the supplied definitions, and the proof it carries

Soundness direction for the model `Verifier.verifyLegacy` of `services/verifier.rs:
verify_presentation` on top of the ideal CL functionality (`Model/IdealCL.lean`). All theorems have
the form "`verifyLegacy ctx r p = .ok true` ⇒ …" or the contrapositive "… ⇒ not accepted".
`SubSound` (defined in `Lemmas/VerifierLegacy.lean`) is the per-sub-proof statement: intact, signed
by the key of the supplied credential definition, over the supplied schema, revealed values and
predicates true of the signed values.

No hypothesis on key uniqueness is needed in this file.
-/
namespace AnonModel.Verifier
open AnonModel.IdealCL

/-- **C05**: an accepted presentation carries an unaltered aggregated proof built for the nonce of
*this* request, over exactly the sub-proofs it carries and in this order; there is one sub-proof per
identifier; every sub-proof is sound for the schema and credential definition the verifier supplied
for the identifier at the same index; and all sub-proofs were made with one link secret (in one
session). -/
theorem C05_legacy {ctx : Ctx} {r : Request} {p : Presentation}
    (h : verifyLegacy ctx r p = .ok true) :
    p.agg.nonce = r.nonce ∧ p.agg.intact = true ∧ p.subs.length = p.identifiers.length ∧
    (∀ (i : Nat) s, p.subs[i]? = some s → SubSound ctx p i s) ∧
    (∀ s t, s ∈ p.subs → t ∈ p.subs → s.ms = t.ms) ∧
    p.agg.bound.map Prod.fst = p.subs.map (·.uid) := by
  obtain ⟨hlen, hint, hnonce, hms, cs, hcl, hbound, -⟩ := ok_subs h
  refine ⟨hnonce, hint, hlen, fun i s hs => subSound_of_ok h i s hs, hms, ?_⟩
  rw [hbound, List.map_map]
  have : (Prod.fst ∘ fun cs : SubCtx × SymSub => (cs.2.uid, nrpChecked cs.1 cs.2))
      = (fun s : SymSub => s.uid) ∘ Prod.snd := rfl
  rw [this, ← List.map_map, List.map_snd_zip (by omega)]

/-- a presentation made for another nonce is not accepted -/
theorem C05_other_nonce_rejected {ctx : Ctx} {r : Request} {p : Presentation}
    (hne : p.agg.nonce ≠ r.nonce) : verifyLegacy ctx r p ≠ .ok true :=
  fun h => hne (C05_legacy h).1

/-- sub-proofs made with two different link secrets (or in two sessions) are not accepted together -/
theorem C05_two_link_secrets_rejected {ctx : Ctx} {r : Request} {p : Presentation}
    {s t : SymSub} (hs : s ∈ p.subs) (ht : t ∈ p.subs) (hne : s.ms ≠ t.ms) :
    verifyLegacy ctx r p ≠ .ok true :=
  fun h => hne ((C05_legacy h).2.2.2.2.1 s t hs ht)

/-- a presentation with an altered sub-proof is not accepted -/
theorem C05_altered_subproof_rejected {ctx : Ctx} {r : Request} {p : Presentation}
    {s : SymSub} (hs : s ∈ p.subs) (halt : s.intact = false) :
    verifyLegacy ctx r p ≠ .ok true := by
  intro h
  obtain ⟨i, hi, rfl⟩ := List.mem_iff_getElem.mp hs
  obtain ⟨_, _, _, _, _, _, hint, _⟩ := (C05_legacy h).2.2.2.1 i _ (List.getElem?_eq_getElem hi)
  rw [halt] at hint; cases hint

/-- a presentation with an altered aggregated proof is not accepted -/
theorem C05_altered_aggregate_rejected {ctx : Ctx} {r : Request} {p : Presentation}
    (halt : p.agg.intact = false) : verifyLegacy ctx r p ≠ .ok true := by
  intro h
  have := (C05_legacy h).2.1
  rw [halt] at this; cases this

/-- a sub-proof made from a credential signed by a key other than the one in the credential
definition the verifier supplied for its identifier is not accepted -/
theorem C05_wrong_definition_rejected {ctx : Ctx} {r : Request} {p : Presentation}
    {i : Nat} {s : SymSub} {id : Identifier} {cd : CredDefInfo}
    (hs : p.subs[i]? = some s) (hid : p.identifiers[i]? = some id)
    (hcd : ctx.credDefs.lookup id.credDefId = some cd) (hne : s.cred.key ≠ cd.key) :
    verifyLegacy ctx r p ≠ .ok true := by
  intro h
  obtain ⟨id', cd', _, hid', hcd', _, _, hkey, _⟩ := (C05_legacy h).2.2.2.1 i s hs
  rw [hid] at hid'; cases hid'
  rw [hcd] at hcd'; cases hcd'
  exact hne hkey

/-- a presentation whose sub-proofs are not exactly those (in that order) the aggregated proof was
built over — one added, dropped, replaced or moved — is not accepted -/
theorem C05_spliced_rejected {ctx : Ctx} {r : Request} {p : Presentation}
    (hne : p.subs.map (·.uid) ≠ p.agg.bound.map Prod.fst) : verifyLegacy ctx r p ≠ .ok true :=
  fun h => hne (C05_legacy h).2.2.2.2.2.symm

/-- a presentation with fewer or more sub-proofs than identifiers is not accepted -/
theorem C05_length_mismatch_rejected {ctx : Ctx} {r : Request} {p : Presentation}
    (hne : p.subs.length ≠ p.identifiers.length) : verifyLegacy ctx r p ≠ .ok true :=
  fun h => hne (C05_legacy h).2.2.1

/-! ### non-vacuity -/

section Examples
open Honest

-- the hypothesis of `C05_legacy` is satisfiable
example : verifyLegacy ctx req pres = .ok true := Honest.accepted
-- … and each of the rejections fires on an alteration of the honest presentation
example : verifyLegacy ctx { req with nonce := "M" } pres = .ok false := by decide
example : verifyLegacy ctx req { pres with agg := { pres.agg with intact := false } } = .ok false := by
  decide
example : verifyLegacy ctx req { pres with subs := [{ sub with intact := false }] } = .ok false := by
  decide
example : verifyLegacy ctx req { pres with subs := [{ sub with cred := { sub.cred with key := 2 } }] }
    = .ok false := by decide
example : verifyLegacy ctx req { pres with subs := [{ sub with uid := 2 }] } = .ok false := by decide
-- two sub-proofs with different link-secret responses: `Err` from the CL verifier
example : verifyLegacy ctx req
    { pres with identifiers := pres.identifiers ++ pres.identifiers,
                subs := [sub, { sub with ms := (2, 1), uid := 2 }],
                agg := { pres.agg with bound := [(1, false), (2, false)] } } = .err := by decide
-- … the same two with one link secret are accepted
example : verifyLegacy ctx req
    { pres with identifiers := pres.identifiers ++ pres.identifiers,
                subs := [sub, { sub with uid := 2 }],
                agg := { pres.agg with bound := [(1, false), (2, false)] } } = .ok true := by decide
end Examples

end AnonModel.Verifier

import AnonModel.Lemmas.Prover
/-!
# C04 — the hypotheses of an honest, successful flow (`meetsDemands`, `meetsDemandsW3C`)

Executable (Bool-valued) predicates over what the verifier supplies (`ctx`), what the prover is given
(`pc`, the selection `sel`, self-attested values `sa`) and the request `r`. Every conjunct is a named
definition; `meetsConjuncts` lists them with their names for the driver op `meets_legacy`
(`Driver/OpsMeets.lean`), which the harness runs on every generated honest flow.

What is *not* here because `createPresentation … = some p` already implies it: the selection is valid
(`PresentCredentials::validate`: referents pairwise different, timestamp iff revocation state), the
prover knows schema and credential definition of every used credential, revealed referents and
predicate referents are requested and their names are attributes of the credential, the signed
attribute names are exactly the (normalised) schema attributes, predicates hold of the signed values,
no attribute is both revealed and under a predicate in one sub-proof.
-/
namespace AnonModel.Prover
open AnonModel.Verifier AnonModel.IdealCL AnonModel.Names
open AnonModel.Query (Query)

/-! ## the verifier's context agrees with the prover's -/

/-- *same schema attribute names under each schema id*: for every used credential the verifier
supplies its schema, with the same attribute names (up to case and spaces) as the prover's -/
def schemasAgree (ctx : Ctx) (pc : PCtx) (used : List Selected) : Bool :=
  used.all (fun s =>
    match pc.schemas.lookup s.cred.schemaId, ctx.schemas.lookup s.cred.schemaId with
    | some a, some sc => sameSet (sc.attrNames.map commonView) (a.map commonView)
    | _, _ => false)

/-- *every used credential definition is supplied and its key is the one that signed the credential* -/
def credDefsAgree (ctx : Ctx) (used : List Selected) : Bool :=
  used.all (fun s =>
    match ctx.credDefs.lookup s.cred.credDefId with
    | some cd => cd.key == s.cred.sym.key
    | none => false)

/-! ## credentials are well formed -/

/-- *correctly issued*: the `values` of every used credential agree with what was signed — for every
`name ↦ (raw, encoded)` the signed value of `commonView name` is `normalizeEnc encoded` (the credential
may carry a non-canonical encoding like `"007"`; the proof reveals `"7"`) -/
def valuesSigned (used : List Selected) : Bool :=
  used.all (fun s => s.cred.values.all (fun nv =>
    s.cred.sym.attrs.lookup (commonView nv.1) == some (Encode.normalizeEnc nv.2.2)))

/-! ## the selection serves the request -/

/-- the request's attribute referents are pairwise different (it is a JSON map) -/
def requestAttrsNodup (r : Request) : Bool := noDup (keys r.attrs)

/-- *every requested attribute has `name` or `names`* -/
def namesPresent (r : Request) : Bool :=
  r.attrs.all (fun kv => kv.2.name.isSome || kv.2.names.isSome)

/-- *every requested attribute referent is served by a selection entry or is self-attested* -/
def attrsServed (r : Request) (used : List Selected) (sa : List (String × String)) : Bool :=
  r.attrs.all (fun kv => used.any (fun s => (keys s.attrs).contains kv.1) || (keys sa).contains kv.1)

/-- *every requested predicate referent is served by a selection entry* -/
def predsServed (r : Request) (used : List Selected) : Bool :=
  r.preds.all (fun kv => used.any (fun s => s.preds.contains kv.1))

/-- *no self-attested value for a referent that is not requested* -/
def selfAttestedRequested (r : Request) (sa : List (String × String)) : Bool :=
  sa.all (fun kv => (keys r.attrs).contains kv.1)

/-- *an unrevealed referent is requested, and served by a credential that has the attribute(s)*: the
verifier's schema of the serving credential has every requested name (the prover checks this for
revealed referents only) -/
def unrevealedHeld (ctx : Ctx) (r : Request) (used : List Selected) : Bool :=
  used.all (fun s => s.attrs.all (fun rr => rr.2 ||
    match r.attrs.lookup rr.1, ctx.schemas.lookup s.cred.schemaId with
    | some info, some sc => info.allNames.all (hasNorm sc.attrNames)
    | _, _ => false))

/-! ## restrictions -/

/-- the selection entry serving an attribute referent, with the holder's revealed flag -/
def servingAttr (used : List Selected) (ref : String) : Option (Selected × Bool) :=
  used.findSome? (fun s => (s.attrs.lookup ref).map (fun b => (s, b)))

/-- the value map the verifier builds for a restricted attribute referent: requested name(s) ↦ raw
value if revealed, `none` if unrevealed; no map if the referent has neither `name` nor `names` -/
def attrValueMap (s : Selected) (flag : Bool) (info : AttrInfo) : Option (List (String × Option String)) :=
  match info.name with
  | some name => some [(name, if flag then (credValue s.cred name).map (·.1) else none)]
  | none =>
    match info.names with
    | some names => some (names.map (fun n => (n, if flag then (credValue s.cred n).map (·.1) else none)))
    | none => none

/-- the restriction `q` of attribute referent `ref` is true of the credential serving it -/
def attrRestrictionMet (ctx : Ctx) (used : List Selected) (ref : String) (info : AttrInfo) (q : Query) : Bool :=
  match servingAttr used ref with
  | none => false
  | some (s, flag) =>
    match gatherFilter ctx (identOf s), attrValueMap s flag info with
    | some f, some vals => Query.eval Ident.isLegacyDid vals f q
    | _, _ => false

/-- *self-attested referents are unrestricted; a restricted referent is served by a credential whose
metadata and revealed values satisfy the restriction*: each requested attribute is self-attested and
unrestricted (`is_self_attested`), or unrestricted, or its restriction evaluates to true for the
serving credential with the value map the verifier will build -/
def attrRestrictionsMet (ctx : Ctx) (r : Request) (used : List Selected) (sa : List (String × String)) : Bool :=
  r.attrs.all (fun kv =>
    Query.isSelfAttested kv.2.restrictions ((keys sa).contains kv.1) ||
    match kv.2.restrictions with
    | none => true
    | some q => attrRestrictionMet ctx used kv.1 kv.2 q)

/-- the selection entry serving a predicate referent, with its sub-proof index -/
def servingPred (used : List Selected) (ref : String) : Option (Selected × Nat) :=
  used.zipIdx.find? (fun si => si.1.preds.contains ref)

/-- the value map the verifier builds for a restricted predicate referent served by entry `s`
(sub-proof index `i`): the predicate's attribute, unrevealed, overlaid by the raw values of every
revealed group member and revealed single attribute of the same entry (later ones in front) -/
def predValueMapOf (r : Request) (s : Selected) (i : Nat) (info : PredInfo) : List (String × Option String) :=
  ((s.attrs.flatMap (grpOf r s.cred i)).flatMap (fun kv =>
      kv.2.values.map (fun nv => (nv.1, some nv.2.1)))).reverse ++
  ((s.attrs.flatMap (revOf r s.cred i)).flatMap (fun kv =>
      match (r.attrs.lookup kv.1).bind (·.name) with
      | some name => [(name, some kv.2.raw)]
      | none => [])).reverse ++
  [(info.name, none)]

/-- *a restricted predicate referent is served by a credential that satisfies the restriction* -/
def predRestrictionsMet (ctx : Ctx) (r : Request) (used : List Selected) : Bool :=
  r.preds.all (fun kv =>
    match kv.2.restrictions with
    | none => true
    | some q =>
      match servingPred used kv.1 with
      | none => false
      | some (s, i) =>
        match gatherFilter ctx (identOf s) with
        | none => false
        | some f => Query.eval Ident.isLegacyDid (predValueMapOf r s i kv.2) f q)

/-- *no mixing of legacy and new issuer tags* (`issuer_id` with `issuer_did`, …) -/
def tagsNotMixed (r : Request) : Bool := !tagsMixed r

/-! ## non-revocation -/

/-- local intervals the verifier attributes to entry `s` (sub-proof index `i`): those of its
revealed single referents, then of its revealed groups — not of unrevealed referents -/
def verifierAttrLocals (r : Request) (s : Selected) (i : Nat) : List (Option Interval.Ivl) :=
  ((s.attrs.flatMap (revOf r s.cred i)).map Prod.fst ++ (s.attrs.flatMap (grpOf r s.cred i)).map Prod.fst).map
    (fun ref => (r.attrs.lookup ref).bind (·.nonRevoked))

/-- local intervals of the predicate referents served by entry `s` -/
def verifierPredLocals (r : Request) (s : Selected) : List (Option Interval.Ivl) :=
  s.preds.map (fun ref => (r.preds.lookup ref).bind (·.nonRevoked))

/-- *the timestamp is valid for the interval the verifier demands*: for every used credential of a
revocable definition, either no interval applies (local ones on revealed / group / predicate
referents, else request-wide) or a timestamp is given and lies in it (`check_non_revoked_interval`) -/
def intervalsMet (ctx : Ctx) (r : Request) (used : List Selected) : Bool :=
  used.zipIdx.all (fun si =>
    match ctx.credDefs.lookup si.1.cred.credDefId with
    | none => false
    | some cd =>
      Interval.checkLegacy cd.revocable (Interval.foldLocals (verifierAttrLocals r si.1 si.2))
        (Interval.foldLocals (verifierPredLocals r si.1)) r.nonRevoked si.1.cred.revRegId ctx.override
        si.1.timestamp)

/-- registry definition and status list the verifier supplies for the credential's registry id and
the timestamp passed with it (the last list for that pair wins) -/
def registryFor (ctx : Ctx) (s : Selected) : Option (RevRegDefInfo × StatusListInfo) :=
  match s.cred.revRegId, s.timestamp with
  | some rid, some ts =>
    match ctx.revRegDefs, ctx.lists with
    | some defs, some ls =>
      match defs.lookup rid, findList ls rid ts with
      | some d, some l => some (d, l)
      | _, _ => none
    | _, _ => none
  | _, _ => none

/-- *registry definition and status list are supplied* for every used credential that has a registry
id and is presented with a timestamp (whether or not an interval applies) -/
def registriesSupplied (ctx : Ctx) (used : List Selected) : Bool :=
  used.all (fun s => !(s.cred.revRegId.isSome && s.timestamp.isSome) || (registryFor ctx s).isSome)

/-- *unrevoked, with a correct revocation state*: whenever the prover builds a non-revocation proof
for a used credential (an interval applies, the credential has a registry id, a state is passed), the
credential definition is revocable, the state's witness is good (`witOk`) for the registry key and
index the credential was issued at, the supplied registry definition has that registry key and the
supplied status list for (registry id, timestamp) has the state's accumulator -/
def nonRevProofsOk (ctx : Ctx) (r : Request) (used : List Selected) : Bool :=
  used.all (fun s =>
    match nrpOf r s with
    | none => true
    | some n =>
      match ctx.credDefs.lookup s.cred.credDefId, registryFor ctx s with
      | some cd, some (d, l) =>
        cd.revocable && n.witOk && d.regKey == n.regKey && l.acc == some n.acc &&
        s.cred.sym.rev == some (n.regKey, n.idx)
      | _, _ => false)

/-- *all supplied status lists are complete* (id, timestamp, accumulator) -/
def listsComplete (ctx : Ctx) : Bool := listsOk ctx

/-! ## all together -/

/-- the conjuncts of `meetsDemands`, named -/
def meetsConjuncts (ctx : Ctx) (pc : PCtx) (r : Request) (sel : List Selected)
    (sa : List (String × String)) : List (String × Bool) :=
  let used := usedOf sel
  [("schemasAgree", schemasAgree ctx pc used),
   ("credDefsAgree", credDefsAgree ctx used),
   ("valuesSigned", valuesSigned used),
   ("requestAttrsNodup", requestAttrsNodup r),
   ("namesPresent", namesPresent r),
   ("attrsServed", attrsServed r used sa),
   ("predsServed", predsServed r used),
   ("selfAttestedRequested", selfAttestedRequested r sa),
   ("unrevealedHeld", unrevealedHeld ctx r used),
   ("tagsNotMixed", tagsNotMixed r),
   ("attrRestrictionsMet", attrRestrictionsMet ctx r used sa),
   ("predRestrictionsMet", predRestrictionsMet ctx r used),
   ("intervalsMet", intervalsMet ctx r used),
   ("registriesSupplied", registriesSupplied ctx used),
   ("nonRevProofsOk", nonRevProofsOk ctx r used),
   ("listsComplete", listsComplete ctx)]

/-- the hypotheses of C04 (legacy format): what an honest flow satisfies besides
`createPresentation … = some p` -/
def meetsDemands (ctx : Ctx) (pc : PCtx) (r : Request) (sel : List Selected)
    (sa : List (String × String)) : Bool :=
  let used := usedOf sel
  schemasAgree ctx pc used && credDefsAgree ctx used && valuesSigned used &&
  requestAttrsNodup r && namesPresent r && attrsServed r used sa && predsServed r used &&
  selfAttestedRequested r sa && unrevealedHeld ctx r used &&
  tagsNotMixed r && attrRestrictionsMet ctx r used sa && predRestrictionsMet ctx r used &&
  intervalsMet ctx r used && registriesSupplied ctx used && nonRevProofsOk ctx r used &&
  listsComplete ctx

theorem meetsDemands_eq_all (ctx : Ctx) (pc : PCtx) (r : Request) (sel : List Selected)
    (sa : List (String × String)) :
    meetsDemands ctx pc r sel sa = (meetsConjuncts ctx pc r sel sa).all (·.2) := by
  simp only [meetsDemands, meetsConjuncts, List.all_cons, List.all_nil, Bool.and_true, Bool.and_assoc]


/-! ## W3C format -/
section W3C
open AnonModel.VerifierW3C

/-- the request's predicate referents are pairwise different (it is a JSON map) -/
def requestPredsNodup (r : Request) : Bool := noDup (keys r.preds)

/-- *the credential's issuer is the issuer of the supplied credential definition* -/
def issuersAgreeW3C (ctx : Ctx) (used : List SelectedW3C) : Bool :=
  used.all (fun s =>
    match ctx.credDefs.lookup s.cred.credDefId with
    | some cd => cd.issuerId == s.cred.issuer
    | none => false)

/-- *correctly issued*: every subject entry of a used credential is a string or a number, and the
signed value of its (normalised) name is the encoding of its string form -/
def subjectsSignedW3C (used : List SelectedW3C) : Bool :=
  used.all (fun s => s.cred.subject.all (fun kv =>
    (match kv.2 with | .bool _ => false | _ => true) &&
    s.cred.sym.attrs.lookup (commonView kv.1) == some (Encode.encode kv.2.toStr)))

/-- restriction and interval of one referent hold of the credential *derived* from entry `s`:
restrictions are evaluated with the derived credential's own subject as value map (known finding F19:
`attr::N::value` is looked up under the subject's spelling of the name), the interval check is
`check_credential_non_revoked_interval` on the entry's registry id and timestamp -/
def servedCondOkW3C (ctx : Ctx) (r : Request) (s : SelectedW3C) (restrictions : Option Query)
    (loc : Option Interval.Ivl) : Bool :=
  match buildCredentialAttributes r s with
  | some subj => conditionsOk ctx r (credOfW3C s default subj) restrictions loc
  | none => false

/-- *every requested attribute referent is served by a selection entry whose derived credential meets
the referent's restriction and non-revocation interval* (there are no self-attested attributes in
the W3C format) -/
def attrsServedW3C (ctx : Ctx) (r : Request) (used : List SelectedW3C) : Bool :=
  r.attrs.all (fun kv => used.any (fun s =>
    (keys s.attrs).contains kv.1 && servedCondOkW3C ctx r s kv.2.restrictions kv.2.nonRevoked))

/-- *every requested predicate referent is served likewise* -/
def predsServedW3C (ctx : Ctx) (r : Request) (used : List SelectedW3C) : Bool :=
  r.preds.all (fun kv => used.any (fun s =>
    s.preds.contains kv.1 && servedCondOkW3C ctx r s kv.2.restrictions kv.2.nonRevoked))

/-- the conjuncts of `meetsDemandsW3C`, named -/
def meetsConjunctsW3C (ctx : Ctx) (pc : PCtx) (r : Request) (sel : List SelectedW3C) :
    List (String × Bool) :=
  let used := usedOfW3C sel
  let usedL := used.map w3cAsSelected
  [("schemasAgree", schemasAgree ctx pc usedL),
   ("credDefsAgree", credDefsAgree ctx usedL),
   ("issuersAgree", issuersAgreeW3C ctx used),
   ("subjectsSigned", subjectsSignedW3C used),
   ("requestAttrsNodup", requestAttrsNodup r),
   ("requestPredsNodup", requestPredsNodup r),
   ("attrsServed", attrsServedW3C ctx r used),
   ("predsServed", predsServedW3C ctx r used),
   ("registriesSupplied", registriesSupplied ctx usedL),
   ("nonRevProofsOk", nonRevProofsOk ctx r usedL),
   ("listsComplete", listsComplete ctx)]

/-- the hypotheses of C04 (W3C format) -/
def meetsDemandsW3C (ctx : Ctx) (pc : PCtx) (r : Request) (sel : List SelectedW3C) : Bool :=
  let used := usedOfW3C sel
  let usedL := used.map w3cAsSelected
  schemasAgree ctx pc usedL && credDefsAgree ctx usedL && issuersAgreeW3C ctx used &&
  subjectsSignedW3C used && requestAttrsNodup r && requestPredsNodup r &&
  attrsServedW3C ctx r used && predsServedW3C ctx r used &&
  registriesSupplied ctx usedL && nonRevProofsOk ctx r usedL && listsComplete ctx

theorem meetsDemandsW3C_eq_all (ctx : Ctx) (pc : PCtx) (r : Request) (sel : List SelectedW3C) :
    meetsDemandsW3C ctx pc r sel = (meetsConjunctsW3C ctx pc r sel).all (·.2) := by
  simp only [meetsDemandsW3C, meetsConjunctsW3C, List.all_cons, List.all_nil, Bool.and_true, Bool.and_assoc]

end W3C

end AnonModel.Prover

import AnonModel.Gen.Consts
import AnonModel.Model.Tails
/-! # C19: the tails-file version tag the model was written for is the one in `/repo` now -/
namespace AnonModel.GenConsts
open AnonModel.Gen

/-- C19: two-byte version tag `[0, 2]` -/
theorem C19_version_tag_unchanged : tailsBlobTagSz = 2 ∧ tailsVersionTag = [0, 2] := by decide

end AnonModel.GenConsts

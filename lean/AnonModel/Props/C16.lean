import AnonModel.Lemmas.Query
/-!
# C16 — restriction syntax parses, prints and validates consistently

Statement: "Parsing a restriction, serialising it and parsing it again yields the same
query; the legacy list-of-filters form means the disjunction of its non-empty filters and
empty forms mean 'no restriction'; malformed restrictions (wrong operand types, unknown
operators, multi-key operator objects) are rejected with an error rather than accepted or
crashing; and version-1 requests are refused by validation when identifier tags carry fully
qualified identifiers."

*Totality* ("rather than crashing") is by construction: `parseRestriction`, `print`,
`validateQuery`, `validateRequest` are total Lean functions defined by structural
recursion, and every Rust `Err` is an explicit `none`; there is no `unwrap`/index on a path
that the model totalises (`map.into_iter().next().unwrap()` in `parse_operator` is guarded
by `map.len() == 1`, the pattern `[(op, x)]` here).

JSON objects are association lists iterated in list order; no theorem below needs the
keys to be sorted or unique.
-/
namespace AnonModel.Query
open AnonModel.Json

/-! ## 1. parse ∘ print ∘ parse = parse -/

/-- everything the parser returns satisfies the invariant `Good` (`Lemmas/Query.lean`):
no `or []`, no `exist []`, and no leaf whose tag is `$and`, `$or`, `$not` or `$exist` -/
theorem C16_parsed_good {j : Json} {q : Query} (h : parseRestriction j = some q) : Good q :=
  parseRestriction_good h

/-- on `Good` queries printing is a right inverse of parsing -/
theorem C16_print_parse_of_good {q : Query} (h : Good q) : parseRestriction (print q) = some q :=
  parse_print_of_good q h

/-- **round trip**: for every JSON value whatsoever, if it parses to `q` then the
serialisation of `q` parses to `q` again -/
theorem C16_parse_print_parse {j : Json} {q : Query} (h : parseRestriction j = some q) :
    parseRestriction (print q) = some q :=
  parse_print_of_good q (parseRestriction_good h)

/-- the restriction to parser outputs is necessary: queries which only Rust code can
build (never the parser) do not survive serialisation — `Or([])` (never satisfied) comes
back as `And([])` (always satisfied), `Exist([])` comes back as `And([])`, a leaf on the
tag `$and` does not parse, a `$neq` leaf on the tag `$not` comes back as a negated
equality on the tag `$neq`. -/
theorem C16_print_parse_outside_image :
    parseRestriction (print (.or [])) = some (.and []) ∧
    parseRestriction (print (.exist [])) = some (.and []) ∧
    parseRestriction (print (.eq "$and" "x")) = none ∧
    parseRestriction (print (.neq "$not" "x")) = some (.not (.eq "$neq" "x")) :=
  ⟨rfl, rfl, rfl, rfl⟩

/-- what `to_value` produces is a JSON object whose objects all have strictly increasing
(hence unique) keys — trivially: each has at most one key — so the association-list
reading of the printed value is the `BTreeMap` reading -/
theorem C16_print_wellformed (q : Query) : (∃ m, print q = .obj m) ∧ (print q).WF = true :=
  ⟨print_isObj q, print_wf q⟩

/-! ## 2. the accepted JSON shapes -/

/-- `WQLEntry k v`: the entry `k: v` of a query object is well formed.
`reserved = ["$and","$or","$not","$exist"]`, `cmpOps = ["$neq","$gt","$gte","$lt","$lte","$like"]`. -/
inductive WQLEntry : String → Json → Prop
  /-- `"$and": [ {…}, … ]` — every member a well-formed query object (`[]` allowed) -/
  | and {vs : List Json} : AllObj vs →
      (∀ m, Json.obj m ∈ vs → ∀ kv ∈ m, WQLEntry kv.1 kv.2) → WQLEntry "$and" (.arr vs)
  /-- `"$or": [ {…}, … ]` -/
  | or {vs : List Json} : AllObj vs →
      (∀ m, Json.obj m ∈ vs → ∀ kv ∈ m, WQLEntry kv.1 kv.2) → WQLEntry "$or" (.arr vs)
  /-- `"$not": {…}` -/
  | not {m : List (String × Json)} : (∀ kv ∈ m, WQLEntry kv.1 kv.2) → WQLEntry "$not" (.obj m)
  /-- `"$exist": "name"` -/
  | existStr {s : String} : WQLEntry "$exist" (.str s)
  /-- `"$exist": ["name", …]` -/
  | existArr {vs : List Json} : AllStr vs → WQLEntry "$exist" (.arr vs)
  /-- `"tag": "value"` -/
  | eq {k s : String} : k ∉ reserved → WQLEntry k (.str s)
  /-- `"tag": {"$neq"|"$gt"|"$gte"|"$lt"|"$lte"|"$like": "value"}` -/
  | cmp {k op s : String} : k ∉ reserved → op ∈ cmpOps → WQLEntry k (.obj [(op, .str s)])
  /-- `"tag": {"$in": ["value", …]}` -/
  | isIn {k : String} {vs : List Json} : k ∉ reserved → AllStr vs →
      WQLEntry k (.obj [("$in", .arr vs)])

/-- a well-formed query object: every entry is well formed (`{}` included) -/
def WQLObject (m : List (String × Json)) : Prop := ∀ kv ∈ m, WQLEntry kv.1 kv.2

/-- a well-formed restriction: a query object, or a (legacy) array of objects each of
which is a well-formed query object once its null-valued entries are removed -/
inductive WQL : Json → Prop
  | obj {m : List (String × Json)} : WQLObject m → WQL (.obj m)
  | legacy {vs : List Json} : AllObj vs →
      (∀ m, Json.obj m ∈ vs → WQLObject (dropNulls m)) → WQL (.arr vs)

private theorem entry_ok_of_wql {k : String} {j : Json} (h : WQLEntry k j) :
    (parseOperator k j).isSome := by
  induction h with
  | and hobj _ ih =>
    rw [parseOperator_isSome_iff]
    exact Or.inl ⟨Or.inl rfl, (parseListOperators_isSome_iff _).mpr
      ⟨hobj, fun m hm => (parseEntries_isSome_iff m).mpr (ih m hm)⟩⟩
  | or hobj _ ih =>
    rw [parseOperator_isSome_iff]
    exact Or.inl ⟨Or.inr rfl, (parseListOperators_isSome_iff _).mpr
      ⟨hobj, fun m hm => (parseEntries_isSome_iff m).mpr (ih m hm)⟩⟩
  | not _ ih =>
    rw [parseOperator_isSome_iff]
    exact Or.inl ⟨rfl, (parseEntries_isSome_iff _).mpr ih⟩
  | existStr => simp [parseOperator]
  | existArr hs => rw [parseOperator_isSome_iff]; exact Or.inr ⟨rfl, hs⟩
  | eq hk =>
    rw [parseOperator_isSome_iff]
    have := not_reserved_iff.mp hk
    exact ⟨this.1, this.2.1, this.2.2.1⟩
  | cmp hk hop =>
    rw [parseOperator_isSome_iff]
    exact Or.inr ⟨hk, _, _, rfl, (parseSingleOperator_isSome_iff _ _ _).mpr (Or.inl ⟨hop, _, rfl⟩)⟩
  | isIn hk hs =>
    rw [parseOperator_isSome_iff]
    exact Or.inr ⟨hk, _, _, rfl, (parseSingleOperator_isSome_iff _ _ _).mpr (Or.inr ⟨rfl, _, rfl, hs⟩)⟩

mutual
private theorem wql_of_entry_ok : ∀ (j : Json) (k : String), (parseOperator k j).isSome → WQLEntry k j
  | .arr vs, k, h => by
    rw [parseOperator_isSome_iff] at h
    rcases h with ⟨hk, hl⟩ | ⟨hk, hs⟩
    · have hobj := ((parseListOperators_isSome_iff vs).mp hl).1
      rcases hk with rfl | rfl
      · exact .and hobj (wql_of_list_ok vs hl)
      · exact .or hobj (wql_of_list_ok vs hl)
    · subst hk; exact .existArr hs
  | .obj m, k, h => by
    rw [parseOperator_isSome_iff] at h
    rcases h with ⟨hk, hm⟩ | ⟨hk, op, x, rfl, hs⟩
    · subst hk; exact .not (wql_of_entries_ok m hm)
    · rw [parseSingleOperator_isSome_iff] at hs
      rcases hs with ⟨hop, s, rfl⟩ | ⟨rfl, vs, rfl, hs⟩
      · exact .cmp hk hop
      · exact .isIn hk hs
  | .str s, k, h => by
    rw [parseOperator_isSome_iff] at h
    by_cases he : k = "$exist"
    · subst he; exact .existStr
    · exact .eq (not_reserved_iff.mpr ⟨h.1, h.2.1, h.2.2, he⟩)
  | .null, k, h => by simp [parseOperator] at h
  | .bool _, k, h => by simp [parseOperator] at h
  | .num _, k, h => by simp [parseOperator] at h
private theorem wql_of_entries_ok : ∀ (m : List (String × Json)), (parseEntries m).isSome →
    ∀ kv ∈ m, WQLEntry kv.1 kv.2
  | [], _ => by simp
  | (k, v) :: r, h => by
    rw [parseEntries_isSome_iff] at h
    intro kv hkv
    rcases List.mem_cons.mp hkv with rfl | hr
    · exact wql_of_entry_ok v k (h (k, v) (by simp))
    · exact wql_of_entries_ok r ((parseEntries_isSome_iff r).mpr fun kv hkv => h kv (by simp [hkv])) kv hr
private theorem wql_of_list_ok : ∀ (vs : List Json), (parseListOperators vs).isSome →
    ∀ m, Json.obj m ∈ vs → ∀ kv ∈ m, WQLEntry kv.1 kv.2
  | [], _ => by simp
  | j :: r, h => by
    rw [parseListOperators_isSome_iff] at h
    intro m hm
    rcases List.mem_cons.mp hm with e | hr
    · match j, e with
      | .obj m', e =>
        cases e
        exact wql_of_entries_ok m (h.2 m (by simp))
    · exact wql_of_list_ok r ((parseListOperators_isSome_iff r).mpr
        ⟨fun j hj => h.1 j (by simp [hj]), fun m hm => h.2 m (by simp [hm])⟩) m hr
end

/-- `parse_operator` succeeds on exactly the well-formed entries -/
theorem C16_entry_ok_iff_wellformed (k : String) (v : Json) :
    (∃ o, parseOperator k v = some o) ↔ WQLEntry k v := by
  rw [← Option.isSome_iff_exists]
  exact ⟨wql_of_entry_ok v k, entry_ok_of_wql⟩

/-- `parse_query` succeeds on exactly the well-formed query objects -/
theorem C16_object_ok_iff_wellformed (m : List (String × Json)) :
    (∃ q, parseQuery m = some q) ↔ WQLObject m := by
  rw [← Option.isSome_iff_exists, parseQuery_isSome_iff, parseEntries_isSome_iff]
  constructor
  · intro h kv hkv; exact wql_of_entry_ok _ _ (h kv hkv)
  · intro h kv hkv; exact entry_ok_of_wql (h kv hkv)

/-! ### the legacy list form -/

/-- the filters of a legacy list that count: null-valued entries removed, then the
filters left empty dropped -/
def legacyClean (ms : List (List (String × Json))) : List (List (String × Json)) :=
  (ms.map dropNulls).filter (fun m => !m.isEmpty)

private theorem legacyFilters_objs (ms : List (List (String × Json))) :
    legacyFilters (ms.map Json.obj) = some ((legacyClean ms).map Json.obj) := by
  induction ms with
  | nil => simp [legacyFilters, legacyClean]
  | cons m r ih =>
    simp only [List.map_cons, legacyFilters, ih]
    by_cases h : (dropNulls m).isEmpty = true <;> simp_all [legacyClean]

private theorem parseListOperators_objs (fs : List (List (String × Json))) :
    parseListOperators (fs.map Json.obj) = fs.mapM parseQuery := by
  induction fs with
  | nil => simp [parseListOperators]
  | cons m r ih =>
    simp only [List.map_cons, parseListOperators_cons_obj, ih, List.mapM_cons]
    cases parseQuery m <;> cases List.mapM parseQuery r <;> rfl

private theorem mapM_isSome_iff (fs : List (List (String × Json))) :
    (fs.mapM parseQuery).isSome ↔ ∀ m ∈ fs, (parseQuery m).isSome := by
  induction fs with
  | nil => simp
  | cons m r ih =>
    simp only [List.mapM_cons, List.mem_cons, forall_eq_or_imp, ← ih]
    cases parseQuery m <;> cases List.mapM parseQuery r <;> simp

private theorem allObj_iff_map (a : List Json) : AllObj a ↔ ∃ ms : List (List (String × Json)), a = ms.map Json.obj := by
  constructor
  · intro h
    induction a with
    | nil => exact ⟨[], rfl⟩
    | cons j r ih =>
      obtain ⟨m, rfl⟩ := h j (by simp)
      obtain ⟨ms, rfl⟩ := ih (fun j hj => h j (by simp [hj]))
      exact ⟨m :: ms, rfl⟩
  · rintro ⟨ms, rfl⟩ j hj
    simp only [List.mem_map] at hj
    obtain ⟨m, _, rfl⟩ := hj
    exact ⟨m, rfl⟩

private theorem legacyFilters_none {a : List Json} (h : ¬ AllObj a) : legacyFilters a = none := by
  induction a with
  | nil => exact absurd (by simp [AllObj]) h
  | cons j r ih =>
    cases j with
    | obj m =>
      have : ¬ AllObj r := by
        intro hr; apply h
        intro j hj
        rcases List.mem_cons.mp hj with rfl | hj
        · exact ⟨m, rfl⟩
        · exact hr j hj
      simp [legacyFilters, ih this]
    | _ => simp [legacyFilters]

/-- **legacy list, exactly**: for a list of objects let `fs` be the filters with their
null-valued entries removed and the then-empty ones dropped. If `fs` is empty the result
is `And([])`; otherwise every member of `fs` is parsed as a query object and the result is
`Or` of the parsed filters (an error if one of them fails). -/
theorem C16_legacy_array (ms : List (List (String × Json))) :
    parseRestriction (.arr (ms.map Json.obj)) =
      match legacyClean ms with
      | [] => some (.and [])
      | fs => (fs.mapM parseQuery).map Query.or := by
  simp only [parseRestriction, legacyFilters_objs]
  cases h : legacyClean ms with
  | nil => rfl
  | cons m r =>
    simp only [parseQuery, parseEntries, parseOperator, List.map_cons, List.isEmpty_cons,
      if_true, if_false, Bool.false_eq_true]
    rw [← List.map_cons, parseListOperators_objs]
    cases List.mapM parseQuery (m :: r) <;> simp [finish]

/-- a legacy list with a member which is not an object is rejected -/
theorem C16_legacy_nonobject_rejected {a : List Json} {j : Json} (hj : j ∈ a)
    (hno : ∀ m, j ≠ Json.obj m) : parseRestriction (.arr a) = none := by
  have : ¬ AllObj a := fun h => by obtain ⟨m, e⟩ := h j hj; exact hno m e
  simp [parseRestriction, legacyFilters_none this]

/-- **a one-filter list is not unwrapped**: `[f]` with `f` non-empty after null removal
parses to `Or([parse f])`, not to `parse f` (the unwrapping in `parse_query` applies to the
outer vector `[Or(..)]`, not to the members of the `$or`) -/
theorem C16_legacy_singleton (m : List (String × Json)) (h : dropNulls m ≠ []) :
    parseRestriction (.arr [.obj m]) = (parseQuery (dropNulls m)).map (fun q => .or [q]) := by
  have := C16_legacy_array [m]
  have hc : legacyClean [m] = [dropNulls m] := by
    cases hd : dropNulls m with
    | nil => exact absurd hd h
    | cons a r => simp [legacyClean, hd]
  simp only [List.map_cons, List.map_nil, hc, List.mapM_cons, List.mapM_nil] at this
  rw [this]
  cases parseQuery (dropNulls m) <;> rfl

/-- **meaning of the legacy list** under the evaluation of C06: no restriction when no
non-empty filter is left, otherwise the disjunction of the filters -/
theorem C16_legacy_meaning (ld : String → Bool) (vals : List (String × Option String)) (f : Filter)
    (ms : List (List (String × Json))) (qs : List Query)
    (hqs : (legacyClean ms).mapM parseQuery = some qs) :
    ∃ q, parseRestriction (.arr (ms.map Json.obj)) = some q ∧
      eval ld vals f q = (if legacyClean ms = [] then true else qs.any (eval ld vals f)) := by
  rw [C16_legacy_array]
  cases hc : legacyClean ms with
  | nil => exact ⟨.and [], rfl, by simp [eval, evalAll]⟩
  | cons m r =>
    rw [hc] at hqs
    exact ⟨.or qs, by simp [hqs], by simp [eval, evalAny_eq]⟩

/-- **parse succeeds ↔ well formed**: `Deserialize for Query` returns `Ok` on exactly the
values described by the grammar `WQL` -/
theorem C16_parse_ok_iff_wellformed (j : Json) : (∃ q, parseRestriction j = some q) ↔ WQL j := by
  cases j with
  | obj m =>
    simp only [parseRestriction, C16_object_ok_iff_wellformed]
    exact ⟨WQL.obj, fun h => by cases h; assumption⟩
  | arr a =>
    by_cases ha : AllObj a
    · obtain ⟨ms, rfl⟩ := (allObj_iff_map a).mp ha
      have hw : WQL (.arr (ms.map Json.obj)) ↔ ∀ m ∈ ms, WQLObject (dropNulls m) := by
        constructor
        · intro h m hm
          cases h with
          | legacy _ h => exact h m (List.mem_map.mpr ⟨m, hm, rfl⟩)
        · intro h
          refine .legacy ha ?_
          intro m hm
          simp only [List.mem_map] at hm
          obtain ⟨m', hm', e⟩ := hm
          cases e
          exact h m hm'
      rw [hw, C16_legacy_array, ← Option.isSome_iff_exists]
      have hmem : (∀ m ∈ legacyClean ms, (parseQuery m).isSome) ↔
          ∀ m ∈ ms, WQLObject (dropNulls m) := by
        simp only [legacyClean, List.mem_filter, List.mem_map]
        constructor
        · intro h m hm
          by_cases he : dropNulls m = []
          · rw [he]; intro kv hkv; cases hkv
          · rw [← C16_object_ok_iff_wellformed, ← Option.isSome_iff_exists]
            exact h _ ⟨⟨m, hm, rfl⟩, by cases hd : dropNulls m <;> simp_all⟩
        · rintro h _ ⟨⟨m, hm, rfl⟩, _⟩
          rw [Option.isSome_iff_exists, C16_object_ok_iff_wellformed]
          exact h m hm
      rw [← hmem, ← mapM_isSome_iff]
      cases hc : legacyClean ms with
      | nil => simp
      | cons m r => simp only [Option.isSome_map]
    · simp only [parseRestriction, legacyFilters_none ha]
      constructor
      · rintro ⟨q, h⟩; cases h
      · intro h; cases h with | legacy h _ => exact absurd h ha
  | null => exact ⟨fun ⟨q, h⟩ => (by cases h), fun h => (by cases h)⟩
  | bool b => exact ⟨fun ⟨q, h⟩ => (by cases h), fun h => (by cases h)⟩
  | num n => exact ⟨fun ⟨q, h⟩ => (by cases h), fun h => (by cases h)⟩
  | str s => exact ⟨fun ⟨q, h⟩ => (by cases h), fun h => (by cases h)⟩

/-! ### the rejected shapes, by name

Each is stated for one entry `key: value` (`parseOperator`); the propagation theorems
after them lift a rejected entry to the rejection of every restriction containing it. -/

/-- inversion of the grammar: the five ways an entry can be well formed -/
theorem C16_entry_inversion {k : String} {v : Json} (h : WQLEntry k v) :
    ((k = "$and" ∨ k = "$or") ∧ ∃ vs, v = .arr vs ∧ AllObj vs ∧ ∀ m, Json.obj m ∈ vs → WQLObject m) ∨
    (k = "$not" ∧ ∃ m, v = .obj m ∧ WQLObject m) ∨
    (k = "$exist" ∧ ((∃ s, v = .str s) ∨ ∃ vs, v = .arr vs ∧ AllStr vs)) ∨
    (k ∉ reserved ∧ ((∃ s, v = .str s) ∨ (∃ op s, op ∈ cmpOps ∧ v = .obj [(op, .str s)]) ∨
      (∃ vs, AllStr vs ∧ v = .obj [("$in", .arr vs)]))) := by
  cases h with
  | and ho ha => exact Or.inl ⟨Or.inl rfl, _, rfl, ho, ha⟩
  | or ho ha => exact Or.inl ⟨Or.inr rfl, _, rfl, ho, ha⟩
  | not hm => exact Or.inr (Or.inl ⟨rfl, _, rfl, hm⟩)
  | existStr => exact Or.inr (Or.inr (Or.inl ⟨rfl, Or.inl ⟨_, rfl⟩⟩))
  | existArr hs => exact Or.inr (Or.inr (Or.inl ⟨rfl, Or.inr ⟨_, rfl, hs⟩⟩))
  | eq hk => exact Or.inr (Or.inr (Or.inr ⟨hk, Or.inl ⟨_, rfl⟩⟩))
  | cmp hk hop => exact Or.inr (Or.inr (Or.inr ⟨hk, Or.inr (Or.inl ⟨_, _, hop, rfl⟩)⟩))
  | isIn hk hs => exact Or.inr (Or.inr (Or.inr ⟨hk, Or.inr (Or.inr ⟨_, hs, rfl⟩)⟩))

private theorem none_of_not_wql {k : String} {v : Json} (h : ¬ WQLEntry k v) :
    parseOperator k v = none := by
  cases hp : parseOperator k v with
  | none => rfl
  | some o => exact absurd ((C16_entry_ok_iff_wellformed k v).mp ⟨o, hp⟩) h

/-- a number, boolean or null is rejected under every key -/
theorem C16_reject_scalar_value (k : String) (v : Json)
    (hv : v = .null ∨ (∃ b, v = .bool b) ∨ (∃ n, v = .num n)) : parseOperator k v = none := by
  rcases hv with rfl | ⟨b, rfl⟩ | ⟨n, rfl⟩ <;> rfl

/-- an array is rejected as the value of a tag (any key but `$and`, `$or`, `$exist`) -/
theorem C16_reject_array_value {k : String} (vs : List Json)
    (hk : k ≠ "$and" ∧ k ≠ "$or" ∧ k ≠ "$exist") : parseOperator k (.arr vs) = none :=
  none_of_not_wql (fun h => by
    rcases C16_entry_inversion h with ⟨h1 | h1, _⟩ | ⟨_, m, e, _⟩ | ⟨h1, _⟩ |
      ⟨_, ⟨s, e⟩ | ⟨op, s, _, e⟩ | ⟨vs', _, e⟩⟩ <;> simp_all)

/-- a value object whose number of keys is not one is rejected -/
theorem C16_reject_multikey_object {k : String} {m : List (String × Json)} (hk : k ∉ reserved)
    (hm : m.length ≠ 1) : parseOperator k (.obj m) = none :=
  none_of_not_wql (fun h => by
    rcases C16_entry_inversion h with ⟨h1 | h1, _, e, _⟩ | ⟨h1, _⟩ | ⟨h1, _⟩ |
      ⟨_, ⟨s, e⟩ | ⟨op, s, _, e⟩ | ⟨vs', _, e⟩⟩ <;> simp_all [reserved])

/-- an unknown operator inside a value object is rejected -/
theorem C16_reject_unknown_operator {k op : String} (x : Json) (hk : k ∉ reserved)
    (hop : op ∉ cmpOps) (hin : op ≠ "$in") : parseOperator k (.obj [(op, x)]) = none :=
  none_of_not_wql (fun h => by
    rcases C16_entry_inversion h with ⟨h1 | h1, _, e, _⟩ | ⟨h1, _⟩ | ⟨h1, _⟩ |
      ⟨_, ⟨s, e⟩ | ⟨op, s, _, e⟩ | ⟨vs', _, e⟩⟩ <;> simp_all [reserved])

/-- `$neq`, `$gt`, `$gte`, `$lt`, `$lte`, `$like` with a non-string operand are rejected -/
theorem C16_reject_cmp_operand {k op : String} {x : Json} (hk : k ∉ reserved) (hop : op ∈ cmpOps)
    (hx : ∀ s, x ≠ .str s) : parseOperator k (.obj [(op, x)]) = none :=
  none_of_not_wql (fun h => by
    rcases C16_entry_inversion h with ⟨h1 | h1, _, e, _⟩ | ⟨h1, _⟩ | ⟨h1, _⟩ |
      ⟨_, ⟨s, e⟩ | ⟨op, s, _, e⟩ | ⟨vs', _, e⟩⟩ <;> simp_all [reserved, cmpOps])

/-- `$in` with an operand which is not an array of strings is rejected -/
theorem C16_reject_in_operand {k : String} {x : Json} (hk : k ∉ reserved)
    (hx : ∀ vs, x = .arr vs → ¬ AllStr vs) : parseOperator k (.obj [("$in", x)]) = none :=
  none_of_not_wql (fun h => by
    rcases C16_entry_inversion h with ⟨h1 | h1, _, e, _⟩ | ⟨h1, _⟩ | ⟨h1, _⟩ |
      ⟨_, ⟨s, e⟩ | ⟨op, s, hop, e⟩ | ⟨vs', hs, e⟩⟩
    · cases e
    · cases e
    · simp [h1, reserved] at hk
    · simp [h1, reserved] at hk
    · cases e
    · cases e; simp [cmpOps] at hop
    · cases e; exact hx _ rfl hs)

/-- `$and` / `$or` with a non-array, or with a member which is not an object, are rejected -/
theorem C16_reject_and_or_operand {k : String} {v : Json} (hk : k = "$and" ∨ k = "$or")
    (hv : ∀ vs, v = .arr vs → ¬ AllObj vs) : parseOperator k v = none :=
  none_of_not_wql (fun h => by
    rcases C16_entry_inversion h with ⟨_, vs, e, ho, _⟩ | ⟨h1, _⟩ | ⟨h1, _⟩ | ⟨h1, _⟩
    · exact hv vs e ho
    · rcases hk with rfl | rfl <;> simp at h1
    · rcases hk with rfl | rfl <;> simp at h1
    · rcases hk with rfl | rfl <;> simp [reserved] at h1)

/-- `$not` with anything but an object is rejected -/
theorem C16_reject_not_operand {v : Json} (hv : ∀ m, v ≠ .obj m) : parseOperator "$not" v = none :=
  none_of_not_wql (fun h => by
    rcases C16_entry_inversion h with ⟨h1 | h1, _⟩ | ⟨_, m, e, _⟩ | ⟨h1, _⟩ | ⟨h1, _⟩
    · simp at h1
    · simp at h1
    · exact hv m e
    · simp at h1
    · simp [reserved] at h1)

/-- `$exist` with anything but a string or an array of strings is rejected -/
theorem C16_reject_exist_operand {v : Json} (hs : ∀ s, v ≠ .str s)
    (hv : ∀ vs, v = .arr vs → ¬ AllStr vs) : parseOperator "$exist" v = none :=
  none_of_not_wql (fun h => by
    rcases C16_entry_inversion h with ⟨h1 | h1, _⟩ | ⟨h1, _⟩ | ⟨_, ⟨s, e⟩ | ⟨vs, e, ha⟩⟩ | ⟨h1, _⟩
    · simp at h1
    · simp at h1
    · simp at h1
    · exact hs s e
    · exact hv vs e ha
    · simp [reserved] at h1)

/-- a top-level string, number, boolean or null is rejected -/
theorem C16_reject_toplevel_scalar (j : Json)
    (hj : j = .null ∨ (∃ b, j = .bool b) ∨ (∃ n, j = .num n) ∨ (∃ s, j = .str s)) :
    parseRestriction j = none := by
  rcases hj with rfl | ⟨b, rfl⟩ | ⟨n, rfl⟩ | ⟨s, rfl⟩ <;> rfl

/-- one rejected entry makes the whole object rejected -/
theorem C16_reject_propagates_entry {m : List (String × Json)} {k : String} {v : Json}
    (hkv : (k, v) ∈ m) (h : parseOperator k v = none) : parseQuery m = none := by
  cases hp : parseQuery m with
  | none => rfl
  | some q =>
    have := (parseEntries_isSome_iff m).mp ((parseQuery_isSome_iff m).mp (by simp [hp])) (k, v) hkv
    simp [h] at this

/-- a rejected object makes the restriction, the `$not`, and any `$and`/`$or` list
containing it rejected -/
theorem C16_reject_propagates_object {m : List (String × Json)} (h : parseQuery m = none) :
    parseRestriction (.obj m) = none ∧ parseOperator "$not" (.obj m) = none ∧
    (∀ k vs, (k = "$and" ∨ k = "$or") → Json.obj m ∈ vs → parseOperator k (.arr vs) = none) := by
  have hno : ¬ WQLObject m := fun hw => by
    obtain ⟨q, hq⟩ := (C16_object_ok_iff_wellformed m).mpr hw
    rw [h] at hq; cases hq
  refine ⟨h, none_of_not_wql ?_, ?_⟩
  · intro hw
    rcases C16_entry_inversion hw with ⟨h1 | h1, _⟩ | ⟨_, m', e, hm'⟩ | ⟨h1, _⟩ | ⟨h1, _⟩
    · simp at h1
    · simp at h1
    · cases e; exact hno hm'
    · simp at h1
    · simp [reserved] at h1
  · intro k vs hk hm
    apply none_of_not_wql
    intro hw
    rcases C16_entry_inversion hw with ⟨_, vs', e, _, hall⟩ | ⟨h1, _⟩ | ⟨h1, _⟩ | ⟨h1, _⟩
    · cases e; exact hno (hall m hm)
    · rcases hk with rfl | rfl <;> simp at h1
    · rcases hk with rfl | rfl <;> simp at h1
    · rcases hk with rfl | rfl <;> simp [reserved] at h1

/-- a legacy filter which is rejected after null removal makes the list rejected -/
theorem C16_reject_propagates_legacy {a : List Json} {m : List (String × Json)}
    (hm : Json.obj m ∈ a) (h : parseQuery (dropNulls m) = none) :
    parseRestriction (.arr a) = none := by
  cases hp : parseRestriction (.arr a) with
  | none => rfl
  | some q =>
    have hw := (C16_parse_ok_iff_wellformed (.arr a)).mp ⟨q, hp⟩
    cases hw with
    | legacy _ hall =>
      obtain ⟨q', hq'⟩ := (C16_object_ok_iff_wellformed _).mpr (hall m hm)
      rw [h] at hq'; cases hq'

/-- *not* rejected, although it looks like an operator: at the top level of a query
object (and inside `$and`/`$or`/`$not`) any key other than the four reserved ones is a
tag name, so `{"$gt": "5"}` or `{"$foo": "x"}` parse to equality leaves on the tags `$gt`,
`$foo` (which the evaluation then never satisfies, C06). -/
theorem C16_dollar_key_is_a_tag :
    parseRestriction (.obj [("$gt", .str "5")]) = some (.eq "$gt" "5") ∧
    parseRestriction (.obj [("$foo", .str "x")]) = some (.eq "$foo" "x") :=
  ⟨rfl, rfl⟩

/-! ## 3. empty forms mean "no restriction" -/

/-- `{}`, `[]`, `{"$and":[]}`, `{"$or":[]}`, `{"$exist":[]}`, `[{}]`, `[{"a":null}]` all parse to `And([])` … -/
theorem C16_empty_forms :
    parseRestriction (.obj []) = some (.and []) ∧
    parseRestriction (.arr []) = some (.and []) ∧
    parseRestriction (.obj [("$and", .arr [])]) = some (.and []) ∧
    parseRestriction (.obj [("$or", .arr [])]) = some (.and []) ∧
    parseRestriction (.obj [("$exist", .arr [])]) = some (.and []) ∧
    parseRestriction (.arr [.obj []]) = some (.and []) ∧
    parseRestriction (.arr [.obj [("a", .null)]]) = some (.and []) :=
  ⟨rfl, rfl, rfl, rfl, rfl, rfl, rfl⟩

/-- … which every credential satisfies … -/
theorem C16_empty_is_unrestricted (ld : String → Bool) (vals : List (String × Option String))
    (f : Filter) : eval ld vals f (.and []) = true := rfl

/-- … and `is_self_attested` treats `And([])`, `Or([])` and an absent restriction alike
(a self-attested value is acceptable for the referent), any other restriction never -/
theorem C16_empty_self_attested (inSet : Bool) :
    isSelfAttested (some (.and [])) inSet = inSet ∧
    isSelfAttested (some (.or [])) inSet = inSet ∧
    isSelfAttested none inSet = inSet := ⟨rfl, rfl, rfl⟩

/-- any restriction other than the two empty ones rules a self-attested value out -/
theorem C16_nonempty_not_self_attested (q : Query) (inSet : Bool)
    (h1 : q ≠ .and []) (h2 : q ≠ .or []) : isSelfAttested (some q) inSet = false := by
  unfold isSelfAttested
  split <;> simp_all

/-- not every unsatisfiable-looking empty form is "no restriction": `{"$not": {}}` is
`Not(And([]))`, which no credential satisfies -/
theorem C16_not_empty_is_unsatisfiable (ld : String → Bool) (vals : List (String × Option String))
    (f : Filter) :
    parseRestriction (.obj [("$not", .obj [])]) = some (.not (.and [])) ∧
    eval ld vals f (.not (.and [])) = false := ⟨rfl, rfl⟩

/-! ## 4. validation of version-1 requests -/

mutual
/-- the `(tag, value)` pairs `_process_operator` hands to `_check_restriction`
(`$exist` names are checked with the empty value) -/
def leaves : Query → List (String × String)
  | .and l => leavesList l
  | .or l => leavesList l
  | .not q => leaves q
  | .eq k v => [(k, v)]
  | .neq k v => [(k, v)]
  | .gt k v => [(k, v)]
  | .gte k v => [(k, v)]
  | .lt k v => [(k, v)]
  | .lte k v => [(k, v)]
  | .like k v => [(k, v)]
  | .isIn k vs => vs.map (fun v => (k, v))
  | .exist ks => ks.map (fun k => (k, ""))
def leavesList : List Query → List (String × String)
  | [] => []
  | q :: r => leaves q ++ leavesList r
end

private theorem leavesList_eq (l : List Query) : leavesList l = l.flatMap leaves := by
  induction l with
  | nil => simp [leavesList]
  | cons q r ih => simp [leavesList, ih]

private theorem checkRestriction_false_iff (isUri : String → Bool) (k v : String) :
    checkRestriction isUri true k v = false ↔ k ∈ qualifiableTags ∧ isUri v = true := by
  simp [checkRestriction]

/-- **version 1**: a restriction is refused exactly when one of its leaves puts a fully
qualified (URI) value on one of the tags `issuer_did`, `cred_def_id`, `schema_id`,
`schema_issuer_did`, `rev_reg_id` — at any depth, under any operator, `$not` included -/
theorem C16_validate_v1 (isUri : String → Bool) (q : Query) :
    validateQuery isUri true q = false ↔
      ∃ tv ∈ leaves q, tv.1 ∈ qualifiableTags ∧ isUri tv.2 = true := by
  induction q using Query.induct with
  | and l ih =>
    simp only [validateQuery, validateAll_eq, leaves, leavesList_eq, List.mem_flatMap]
    rw [List.all_eq_false]
    constructor
    · rintro ⟨q, hq, h⟩
      obtain ⟨tv, htv, h'⟩ := (ih q hq).mp (by simpa using h)
      exact ⟨tv, ⟨q, hq, htv⟩, h'⟩
    · rintro ⟨tv, ⟨q, hq, htv⟩, h'⟩
      exact ⟨q, hq, by simpa using (ih q hq).mpr ⟨tv, htv, h'⟩⟩
  | or l ih =>
    simp only [validateQuery, validateAll_eq, leaves, leavesList_eq, List.mem_flatMap]
    rw [List.all_eq_false]
    constructor
    · rintro ⟨q, hq, h⟩
      obtain ⟨tv, htv, h'⟩ := (ih q hq).mp (by simpa using h)
      exact ⟨tv, ⟨q, hq, htv⟩, h'⟩
    · rintro ⟨tv, ⟨q, hq, htv⟩, h'⟩
      exact ⟨q, hq, by simpa using (ih q hq).mpr ⟨tv, htv, h'⟩⟩
  | not q ih => simpa only [validateQuery, leaves] using ih
  | isIn k vs =>
    simp only [validateQuery, leaves]
    rw [List.all_eq_false]
    simp only [Bool.not_eq_true, checkRestriction_false_iff, List.mem_map]
    constructor
    · rintro ⟨x, hx, hk, hu⟩; exact ⟨(k, x), ⟨x, hx, rfl⟩, hk, hu⟩
    · rintro ⟨_, ⟨x, hx, rfl⟩, hk, hu⟩; exact ⟨x, hx, hk, hu⟩
  | exist ks =>
    simp only [validateQuery, leaves]
    rw [List.all_eq_false]
    simp only [Bool.not_eq_true, checkRestriction_false_iff, List.mem_map]
    constructor
    · rintro ⟨x, hx, hk, hu⟩; exact ⟨(x, ""), ⟨x, hx, rfl⟩, hk, hu⟩
    · rintro ⟨_, ⟨x, hx, rfl⟩, hk, hu⟩; exact ⟨x, hx, hk, hu⟩
  | _ => simp [validateQuery, leaves, checkRestriction]

/-- **version 2**: every restriction passes -/
theorem C16_validate_v2 (isUri : String → Bool) (q : Query) :
    validateQuery isUri false q = true := by
  induction q using Query.induct with
  | and l ih => simpa [validateQuery, validateAll_eq] using ih
  | or l ih => simpa [validateQuery, validateAll_eq] using ih
  | not q ih => simpa [validateQuery] using ih
  | _ => simp [validateQuery, checkRestriction]

/-- the new-style tags `issuer_id` and `schema_issuer_id` are *not* among the checked
tags: a version-1 request may carry a fully qualified value on them -/
theorem C16_validate_v1_new_tags_unchecked (isUri : String → Bool) (v : String) :
    validateQuery isUri true (.eq "issuer_id" v) = true ∧
    validateQuery isUri true (.eq "schema_issuer_id" v) = true := by
  constructor <;> simp [validateQuery, checkRestriction, qualifiableTags]

/-- **request validation, structural clauses**: a request is valid iff it asks for
something, every requested attribute has exactly one of a non-empty `name` and a
non-empty `names` list, every predicate has a non-empty name, and every restriction
passes `validateQuery`. -/
theorem C16_validate_request_spec (isUri : String → Bool) (v1 : Bool)
    (attrs : List (Option String × Option (List String) × Option Query))
    (preds : List (String × Option Query)) :
    validateRequest isUri v1 attrs preds = true ↔
      (attrs ≠ [] ∨ preds ≠ []) ∧
      (∀ a ∈ attrs,
        ((∃ s, a.1 = some s ∧ s ≠ "") ↔ ¬ (∃ l, a.2.1 = some l ∧ l ≠ [])) ∧
        (∀ q, a.2.2 = some q → validateQuery isUri v1 q = true)) ∧
      (∀ p ∈ preds, p.1 ≠ "" ∧ (∀ q, p.2 = some q → validateQuery isUri v1 q = true)) := by
  have hopt : ∀ o : Option Query, validateOptQuery isUri v1 o = true ↔
      ∀ q, o = some q → validateQuery isUri v1 q = true := by
    intro o; cases o <;> simp [validateOptQuery]
  have hattr : ∀ a : Option String × Option (List String) × Option Query,
      validateAttr isUri v1 a = true ↔
        ((∃ s, a.1 = some s ∧ s ≠ "") ↔ ¬ (∃ l, a.2.1 = some l ∧ l ≠ [])) ∧
        (∀ q, a.2.2 = some q → validateQuery isUri v1 q = true) := by
    rintro ⟨n, ns, r⟩
    simp only [validateAttr, ← hopt]
    cases n with
    | none =>
      cases ns with
      | none => simp
      | some l => cases l <;> simp
    | some s =>
      by_cases hs : s = ""
      · cases ns with
        | none => simp [hs]
        | some l => cases l <;> simp [hs]
      · cases ns with
        | none => simp [hs]
        | some l => cases l <;> simp [hs]
  have hpred : ∀ p : String × Option Query, validatePred isUri v1 p = true ↔
      p.1 ≠ "" ∧ (∀ q, p.2 = some q → validateQuery isUri v1 q = true) := by
    rintro ⟨n, r⟩
    simp only [validatePred, ← hopt]
    by_cases hn : n = "" <;> simp [hn]
  unfold validateRequest
  by_cases he : attrs.isEmpty && preds.isEmpty
  · simp only [he, if_true]
    simp at he
    simp [he.1, he.2]
  · rw [if_neg he]
    simp only [Bool.and_eq_true, List.all_eq_true, hattr, hpred]
    simp at he
    constructor
    · rintro ⟨ha, hp⟩
      refine ⟨?_, ha, hp⟩
      by_cases h : attrs = []
      · exact Or.inr (he h)
      · exact Or.inl h
    · rintro ⟨_, ha, hp⟩; exact ⟨ha, hp⟩

/-- a version-1 request is refused as soon as one restriction (of an attribute or of a
predicate) carries a fully qualified value on a qualifiable tag -/
theorem C16_validate_request_v1_refused (isUri : String → Bool)
    (attrs : List (Option String × Option (List String) × Option Query))
    (preds : List (String × Option Query)) (q : Query)
    (hq : (∃ a ∈ attrs, a.2.2 = some q) ∨ (∃ p ∈ preds, p.2 = some q))
    (tv : String × String) (htv : tv ∈ leaves q) (htag : tv.1 ∈ qualifiableTags)
    (huri : isUri tv.2 = true) : validateRequest isUri true attrs preds = false := by
  have hbad : validateQuery isUri true q = false :=
    (C16_validate_v1 isUri q).mpr ⟨tv, htv, htag, huri⟩
  cases hv : validateRequest isUri true attrs preds with
  | false => rfl
  | true =>
    obtain ⟨_, ha, hp⟩ := (C16_validate_request_spec isUri true attrs preds).mp hv
    rcases hq with ⟨a, hmem, e⟩ | ⟨p, hmem, e⟩
    · have := (ha a hmem).2 q e; rw [hbad] at this; cases this
    · have := (hp p hmem).2 q e; rw [hbad] at this; cases this

/-! ## non-vacuity -/

/-- sample predicate standing for `is_uri_identifier` in the examples -/
private def sampleUri (s : String) : Bool := "did:".toList.isPrefixOf s.toList

example : parseRestriction (.obj [("a", .str "1"), ("b", .obj [("$in", .arr [.str "x", .str "y"])])])
    = some (.and [.eq "a" "1", .isIn "b" ["x", "y"]]) := rfl
example : print (.and [.eq "a" "1", .isIn "b" ["x", "y"]])
    = .obj [("$and", .arr [.obj [("a", .str "1")], .obj [("b", .obj [("$in", .arr [.str "x", .str "y"])])]])] := rfl
example : Good (.and [.eq "a" "1", .isIn "b" ["x", "y"]]) := by
  simp [Good, GoodL, reserved]
example : WQL (.obj [("a", .str "1"), ("$not", .obj [("b", .obj [("$like", .str "x%")])])]) :=
  (C16_parse_ok_iff_wellformed _).mp ⟨_, rfl⟩
example : ¬ WQL (.obj [("a", .obj [("$in", .arr [.str "x", .num 3])])]) :=
  fun h => by obtain ⟨q, hq⟩ := (C16_parse_ok_iff_wellformed _).mpr h; cases hq
example : ¬ WQL (.obj [("a", .obj [("$neq", .str "x"), ("$gt", .str "y")])]) :=
  fun h => by obtain ⟨q, hq⟩ := (C16_parse_ok_iff_wellformed _).mpr h; cases hq
example : ¬ WQL (.obj [("a", .obj [("$regex", .str "x")])]) :=
  fun h => by obtain ⟨q, hq⟩ := (C16_parse_ok_iff_wellformed _).mpr h; cases hq
example : ¬ WQL (.arr [.obj [("a", .str "1")], .str "b"]) :=
  fun h => by obtain ⟨q, hq⟩ := (C16_parse_ok_iff_wellformed _).mpr h; cases hq
example : parseRestriction (.arr [.obj [("a", .str "1"), ("b", .null)], .obj [], .obj [("c", .str "2")]])
    = some (.or [.eq "a" "1", .eq "c" "2"]) := rfl
example : parseRestriction (.arr [.obj [("a", .str "1")]]) = some (.or [.eq "a" "1"]) := rfl
example : parseRestriction (.arr [.obj [("a", .str "1"), ("b", .str "2")]])
    = some (.or [.and [.eq "a" "1", .eq "b" "2"]]) := rfl
example : validateQuery sampleUri true (.not (.or [.eq "x" "y", .isIn "schema_id" ["a", "did:sov:1"]])) = false := by
  decide
example : validateQuery sampleUri true (.eq "attr::schema_id::value" "did:sov:1") = true := by decide
example : validateRequest sampleUri false [(some "name", none, some (.eq "schema_id" "did:sov:1"))] [] = true := by
  decide
example : validateRequest sampleUri true [(some "name", none, some (.eq "schema_id" "did:sov:1"))] [] = false := by
  decide
example : validateRequest sampleUri true [] [] = false := by decide
example : validateRequest sampleUri true [(some "name", some ["a"], none)] [] = false := by decide
example : validateRequest sampleUri true [(some "", some [], none)] [] = false := by decide
example : validateRequest sampleUri true [(none, some ["a"], none)] [("age", none)] = true := by decide
example : validateRequest sampleUri true [] [("", none)] = false := by decide

end AnonModel.Query

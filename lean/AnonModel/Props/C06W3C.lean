import AnonModel.Lemmas.VerifierW3C
import AnonModel.Props.C01W3C
import AnonModel.Props.C03W3C
/-!
# C06 (W3C form) — restrictions hold for a credential that actually serves the requested item,
and are evaluated on authenticated values

Property theorems only. What `Query.eval` means (Boolean semantics of `$and/$or/$not/$in/$neq`,
which tags exist, legacy `*_did` tags) is `Props/C06Eval.lean`; this file states **for which
credential and which values** the W3C verifier evaluates a restriction:
`check_credential_restrictions` builds the filter from the schema and the credential definition
the verifier supplied for the ids of the *same* credential that reveals / holds the attribute or
proves the predicate, and the value map from that credential's subject.

Differences from the legacy verifier (remarks, nothing to prove here):
* the W3C format has **no self-attested attributes**: every requested name, restricted or not, must
  be served by a credential (`C01_w3c_attributes`), so "a restricted referent cannot be met by
  self-attestation" holds trivially;
* the W3C verifier has **no tag-mixing check** (`issuer_id` together with `issuer_did` in one
  request is rejected by the legacy verifier only); each restriction is evaluated as it is;
* the value map holds **every** string/number of the serving credential's subject (not only the
  values revealed under the referent), and all of them are authenticated
  (`C06_w3c_values_authenticated`) — the legacy finding F15 (value restrictions evaluated on the
  unauthenticated `raw`) has no W3C counterpart.
-/
namespace AnonModel.VerifierW3C
open AnonModel.Verifier AnonModel.IdealCL AnonModel
open AnonModel.Query (Query Filter)

/-- the filter `gather_filter_info` builds for a sound credential describes that credential: its
schema id and definition id, the name / version / issuer of the schema the verifier supplied for
that id, and the issuer of the supplied definition — which is the issuer the credential names -/
theorem C06_w3c_filter {ctx : Ctx} {c : Cred} {rr : Option String} {ts : Option Nat} {f : Filter}
    (hf : gatherFilter ctx ⟨c.schemaId, c.credDefId, rr, ts⟩ = some f) (hs : CredSound ctx c) :
    f.schemaId = c.schemaId ∧ f.credDefId = c.credDefId ∧ f.issuerId = c.issuer ∧
    ∃ sc cd, ctx.schemas.lookup c.schemaId = some sc ∧ ctx.credDefs.lookup c.credDefId = some cd ∧
      f.schemaName = sc.name ∧ f.schemaVersion = sc.version ∧ f.schemaIssuerId = sc.issuerId ∧
      f.issuerId = cd.issuerId ∧ c.sub.cred.key = cd.key := by
  obtain ⟨cd, sc, hcd, hsc, _, hkey, _, _, _, hiss, _⟩ := hs
  unfold gatherFilter at hf
  simp only [hsc, hcd, Option.some.injEq] at hf
  subst hf
  exact ⟨rfl, rfl, hiss, sc, cd, hsc, hcd, rfl, rfl, rfl, rfl, hkey⟩

/-- **restricted attribute**: if the W3C verifier returns `Ok(true)` and a requested attribute
carries the restriction `q`, then every requested name is revealed from (signed value) or held in
a sound credential of the presentation for whose own filter and subject values `q` evaluates to
true -/
theorem C06_w3c_attr {ctx : Ctx} {r : Request} {p : Presentation}
    (h : verifyW3C ctx r p = .ok true) {ra : String × AttrInfo} (hra : ra ∈ r.attrs) {q : Query}
    (hq : ra.2.restrictions = some q) :
    ∀ n ∈ ra.2.allNames, ∃ c ∈ p.creds, ∃ f,
      gatherFilter ctx ⟨c.schemaId, c.credDefId, c.revRegId, none⟩ = some f ∧
      Query.eval Ident.isLegacyDid (subjectValues c) f q = true ∧
      (Reveals c n ∨ HoldsAttr ctx c n) ∧ CredSound ctx c := by
  intro n hn
  rcases C01_w3c_attributes h ra hra n hn with ⟨c, hc, hr, hcond, hs⟩ | ⟨c, hc, hh, hcond, hs⟩
  · obtain ⟨f, hf, he⟩ := (conditionsOk_iff.mp hcond).1 q hq
    exact ⟨c, hc, f, hf, he, Or.inl hr, hs⟩
  · obtain ⟨f, hf, he⟩ := (conditionsOk_iff.mp hcond).1 q hq
    exact ⟨c, hc, f, hf, he, Or.inr hh, hs⟩

/-- **restricted predicate**: likewise, the requested predicate is proven by a sound credential
for whose own filter and subject values the predicate's restriction evaluates to true -/
theorem C06_w3c_pred {ctx : Ctx} {r : Request} {p : Presentation}
    (h : verifyW3C ctx r p = .ok true) {rq : String × PredInfo} (hrq : rq ∈ r.preds) {q : Query}
    (hq : rq.2.restrictions = some q) :
    ∃ c ∈ p.creds, ∃ f,
      gatherFilter ctx ⟨c.schemaId, c.credDefId, c.revRegId, none⟩ = some f ∧
      Query.eval Ident.isLegacyDid (subjectValues c) f q = true ∧
      ProvesPred c rq.2 ∧ CredSound ctx c := by
  obtain ⟨c, hc, hp, hcond, hs⟩ := C01_w3c_predicates h rq hrq
  obtain ⟨f, hf, he⟩ := (conditionsOk_iff.mp hcond).1 q hq
  exact ⟨c, hc, f, hf, he, hp, hs⟩

/-- **authenticated values**: under `Ok(true)` every entry of the value map a restriction is
evaluated on is a *revealed* value (never `None`), and it is the value the issuer signed: the
sub-proof reveals its encoding for that attribute and the signed credential has it -/
theorem C06_w3c_values_authenticated {ctx : Ctx} {r : Request} {p : Presentation}
    (h : verifyW3C ctx r p = .ok true) :
    ∀ c ∈ p.creds, ∀ k ov, (k, ov) ∈ subjectValues c →
      ∃ v, ov = some v ∧
        (∃ kv ∈ c.sub.revealed, Names.commonView kv.1 = Names.commonView k ∧
          kv.2 = Encode.encode v ∧ c.sub.cred.attrs.lookup kv.1 = some kv.2) ∧
        c.sub.cred.attrs.lookup (Names.commonView k) = some (Encode.encode v) := by
  intro c hc k ov hm
  obtain ⟨v, hkv, hnb, rfl⟩ := mem_subjectValues.mp hm
  exact ⟨v.toStr, rfl, (C03_w3c_subject h c hc k v hkv).1 hnb, C03_w3c_subject_signed h hc hkv hnb⟩

/-- **false restriction rejects**: if the restriction of a requested attribute is false for every
credential of the presentation (for its own filter and values), the presentation is not accepted -/
theorem C06_w3c_attr_rejected {ctx : Ctx} {r : Request} {p : Presentation}
    {ra : String × AttrInfo} (hra : ra ∈ r.attrs) {q : Query} (hq : ra.2.restrictions = some q)
    {n : String} (hn : n ∈ ra.2.allNames)
    (hfalse : ∀ c ∈ p.creds, ∀ f,
      gatherFilter ctx ⟨c.schemaId, c.credDefId, c.revRegId, none⟩ = some f →
      Query.eval Ident.isLegacyDid (subjectValues c) f q = false) :
    verifyW3C ctx r p ≠ .ok true := by
  intro h
  obtain ⟨c, hc, f, hf, he, _⟩ := C06_w3c_attr h hra hq n hn
  rw [hfalse c hc f hf] at he; cases he

/-- the same for a requested predicate -/
theorem C06_w3c_pred_rejected {ctx : Ctx} {r : Request} {p : Presentation}
    {rq : String × PredInfo} (hrq : rq ∈ r.preds) {q : Query} (hq : rq.2.restrictions = some q)
    (hfalse : ∀ c ∈ p.creds, ∀ f,
      gatherFilter ctx ⟨c.schemaId, c.credDefId, c.revRegId, none⟩ = some f →
      Query.eval Ident.isLegacyDid (subjectValues c) f q = false) :
    verifyW3C ctx r p ≠ .ok true := by
  intro h
  obtain ⟨c, hc, f, hf, he, _⟩ := C06_w3c_pred h hrq hq
  rw [hfalse c hc f hf] at he; cases he

/-! ### non-vacuity -/

set_option maxRecDepth 100000 in
/-- accepted presentation; the requested attribute and the requested predicate are restricted -/
example : verifyW3C Demo.ctx Demo.req Demo.pres = .ok true ∧
    (∀ ra ∈ Demo.req.attrs, ra.2.restrictions.isSome) ∧
    (∀ rq ∈ Demo.req.preds, rq.2.restrictions.isSome) := by decide

/-- the value map of the demo credential is not empty -/
example : ("N", some "25") ∈ subjectValues Demo.cred := by decide

set_option maxRecDepth 100000 in
/-- the same presentation against a request restricting the attribute to another definition:
hypotheses of `C06_w3c_attr_rejected` hold -/
example :
    verifyW3C Demo.ctx
      { Demo.req with attrs := [("r1", { name := some "n", names := none,
                                          restrictions := some (.eq "cred_def_id" "other"),
                                          nonRevoked := none })] }
      Demo.pres ≠ .ok true := by
  refine C06_w3c_attr_rejected (q := .eq "cred_def_id" "other") (n := "n")
    (List.mem_singleton.mpr rfl) rfl (by simp [AttrInfo.allNames]) ?_
  intro c hc f hf
  have hc' : c = Demo.cred := by simpa [Demo.pres] using hc
  subst hc'
  have : gatherFilter Demo.ctx ⟨Demo.cred.schemaId, Demo.cred.credDefId, Demo.cred.revRegId, none⟩ =
      some ⟨"s", "I", "nm", "1", "I", "cd"⟩ := by rfl
  rw [this] at hf
  simp only [Option.some.injEq] at hf
  subst hf
  decide

end AnonModel.VerifierW3C

import AnonModel.Model.FfiGlue
/-!
# C17 — the marshalling glue loses nothing and does not depend on the order of the flat lists

`buildOverride` / `presentCredentials` are `src/ffi/presentation.rs: _nonrevoke_interval_override / _present_credentials`
(see `Model/FfiGlue.lean`). The C ABI flows of `tools/ffi_check.py` exercise exactly these statements on the real symbols: override
tables with several rows per registry in every position, and every permutation of a two-credential prove list.
-/
namespace AnonModel.FfiGlue

/-! ## association-list facts -/

theorem lookup_filter_ne {β : Type} (m : List (String × β)) (k k' : String) (h : (k' == k) = false) :
    (m.filter (fun e => !(e.1 == k))).lookup k' = m.lookup k' := by
  induction m with
  | nil => rfl
  | cons e m ih =>
    obtain ⟨a, b⟩ := e
    by_cases hak : (a == k) = true
    · have hka : (k' == a) = false := by
        have : a = k := by simpa using hak
        subst this; exact h
      simp only [List.filter, hak, Bool.not_true, List.lookup, hka]
      exact ih
    · have hak' : (a == k) = false := by simpa using hak
      simp only [List.filter, hak', Bool.not_false, List.lookup]
      cases hk : (k' == a) <;> simp [ih]

theorem lookup_insert {β : Type} (m : List (String × β)) (k k' : String) (v : β) :
    (insert m k v).lookup k' = if (k' == k) = true then some v else m.lookup k' := by
  unfold insert
  cases h : (k' == k)
  · simp only [List.lookup, h, Bool.false_eq_true, if_false]
    exact lookup_filter_ne m k k' h
  · simp [List.lookup, h]

theorem lookupN_filter_ne {β : Type} (m : List (Nat × β)) (k k' : Nat) (h : (k' == k) = false) :
    (m.filter (fun e => !(e.1 == k))).lookup k' = m.lookup k' := by
  induction m with
  | nil => rfl
  | cons e m ih =>
    obtain ⟨a, b⟩ := e
    by_cases hak : (a == k) = true
    · have hka : (k' == a) = false := by
        have : a = k := by simpa using hak
        subst this; exact h
      simp only [List.filter, hak, Bool.not_true, List.lookup, hka]
      exact ih
    · have hak' : (a == k) = false := by simpa using hak
      simp only [List.filter, hak', Bool.not_false, List.lookup]
      cases hk : (k' == a) <;> simp [ih]

theorem lookup_insertN {β : Type} (m : List (Nat × β)) (k k' : Nat) (v : β) :
    (insertN m k v).lookup k' = if (k' == k) = true then some v else m.lookup k' := by
  unfold insertN
  cases h : (k' == k)
  · simp only [List.lookup, h, Bool.false_eq_true, if_false]
    exact lookupN_filter_ne m k k' h
  · simp [List.lookup, h]

/-! ## the override table -/

/-- one row added: that (registry, requested bound) now answers with the row's value, every other query is unchanged -/
theorem lookup2_addRow (m : List (String × List (Nat × Nat))) (r : Row) (id : String) (req : Nat) :
    lookup2 (addRow m r) id req =
      if (r.id == id && r.requested == req) = true then some r.override else lookup2 m id req := by
  unfold lookup2 addRow
  rw [lookup_insert]
  by_cases hid : (id == r.id) = true
  · have hid' : r.id = id := by simpa using (by simpa using hid : id = r.id).symm
    subst hid'
    simp only [beq_self_eq_true, if_true, Option.bind_some, Bool.true_and]
    rw [lookup_insertN]
    by_cases hr : (req == r.requested) = true
    · have : r.requested = req := (by simpa using hr : req = r.requested).symm
      simp [this]
    · have hr' : (req == r.requested) = false := by simpa using hr
      have hr'' : (r.requested == req) = false := by
        cases h : (r.requested == req)
        · rfl
        · have : r.requested = req := by simpa using h
          rw [this] at hr'; simp at hr'
      simp only [hr', Bool.false_eq_true, if_false, hr'']
      cases hm : m.lookup r.id <;> simp [Option.getD]
  · have hid' : (id == r.id) = false := by simpa using hid
    have hid'' : (r.id == id) = false := by
      cases h : (r.id == id)
      · rfl
      · have : r.id = id := by simpa using h
        rw [this] at hid'; simp at hid'
    simp [hid', hid'']

theorem lookup2_foldl (rows : List Row) (m : List (String × List (Nat × Nat))) (id : String) (req : Nat) :
    lookup2 (rows.foldl addRow m) id req =
      match lastRow rows id req with
      | some v => some v
      | none => lookup2 m id req := by
  induction rows generalizing m with
  | nil => simp [lastRow]
  | cons r rows ih =>
    simp only [List.foldl]
    rw [ih (addRow m r)]
    unfold lastRow
    simp only [List.reverse_cons, List.find?_append]
    cases hf : List.find? (fun r => r.id == id && r.requested == req) rows.reverse with
    | some x => simp
    | none =>
      simp only [Option.map_none, Option.none_or, List.find?]
      rw [lookup2_addRow]
      cases hp : (r.id == id && r.requested == req) <;> simp

/-- **every query is answered by the last row of the table with that registry and that requested bound** — in particular
rows for the same registry do not displace each other -/
theorem C17_override_lookup (rows : List Row) (id : String) (req : Nat) :
    lookup2 (buildOverride rows) id req = lastRow rows id req := by
  unfold buildOverride
  rw [lookup2_foldl]
  cases lastRow rows id req <;> simp [lookup2]

/-- **no row is lost**: whatever else the table holds, a row's own (registry, requested bound) is answered -/
theorem C17_override_row_findable (rows : List Row) (r : Row) (h : r ∈ rows) :
    (lookup2 (buildOverride rows) r.id r.requested).isSome = true := by
  rw [C17_override_lookup]
  unfold lastRow
  rw [Option.isSome_map]
  apply List.find?_isSome.mpr
  exact ⟨r, by simpa using h, by simp⟩

theorem inj_of_nodup_map {α β : Type} (f : α → β) (l : List α) (hd : (l.map f).Nodup) {a b : α}
    (ha : a ∈ l) (hb : b ∈ l) (h : f a = f b) : a = b := by
  induction l with
  | nil => cases ha
  | cons c l ih =>
    simp only [List.map_cons, List.nodup_cons, List.mem_map, not_exists, not_and] at hd
    rcases List.mem_cons.mp ha with rfl | ha' <;> rcases List.mem_cons.mp hb with rfl | hb'
    · rfl
    · exact absurd h.symm (hd.1 b hb')
    · exact absurd h (hd.1 a ha')
    · exact ih hd.2 ha' hb'

/-- keys `(registry, requested bound)` of a table -/
def keys (rows : List Row) : List (String × Nat) := rows.map (fun r => (r.id, r.requested))

/-- **with pairwise distinct keys the answer is the row itself, so the order of the rows does not matter** -/
theorem C17_override_distinct (rows : List Row) (hd : (keys rows).Nodup) (r : Row) (h : r ∈ rows) :
    lookup2 (buildOverride rows) r.id r.requested = some r.override := by
  rw [C17_override_lookup]
  unfold lastRow
  have hfind : ∀ x, rows.reverse.find? (fun q => q.id == r.id && q.requested == r.requested) = some x → x = r := by
    intro x hx
    have hxm : x ∈ rows := by simpa using List.mem_of_find?_eq_some hx
    have hxp := List.find?_some hx
    simp only [Bool.and_eq_true, beq_iff_eq] at hxp
    -- same key, both members, keys distinct
    have hk : (x.id, x.requested) = (r.id, r.requested) := by rw [hxp.1, hxp.2]
    unfold keys at hd
    exact inj_of_nodup_map _ rows hd hxm h hk
  cases hf : rows.reverse.find? (fun q => q.id == r.id && q.requested == r.requested) with
  | none =>
    have := List.find?_eq_none.mp hf r (by simpa using h)
    simp at this
  | some x => simp [hfind x hf]

theorem C17_override_order_irrelevant (rows rows' : List Row) (hp : rows.Perm rows') (hd : (keys rows).Nodup)
    (r : Row) (h : r ∈ rows) :
    lookup2 (buildOverride rows') r.id r.requested = lookup2 (buildOverride rows) r.id r.requested := by
  have hd' : (keys rows').Nodup := (List.Perm.nodup_iff (List.Perm.map _ hp)).mp hd
  rw [C17_override_distinct rows hd r h, C17_override_distinct rows' hd' r (hp.mem_iff.mp h)]

/-! ## the prove list -/

/-- **the call fails iff some item carries a negative index** (wherever it stands, whichever entry is being served) -/
theorem selectFor_none_iff (i : Nat) (l : List Prove) (s : Selection) :
    selectFor i l s = none ↔ ∃ p ∈ l, p.entryIdx < 0 := by
  induction l generalizing s with
  | nil => simp [selectFor]
  | cons p rest ih =>
    unfold selectFor
    by_cases hneg : p.entryIdx < 0
    · simp [hneg]
    · simp only [hneg, if_false, List.mem_cons, exists_eq_or_imp, false_or]
      split
      · exact ih s
      · split <;> exact ih _

theorem mem_preds_selectFor (i : Nat) (l : List Prove) (s s' : Selection) (h : selectFor i l s = some s') (x : String) :
    x ∈ s'.preds ↔ x ∈ s.preds ∨ askedPred l i x = true := by
  induction l generalizing s with
  | nil =>
    simp only [selectFor, Option.some.injEq] at h
    subst h; simp [askedPred]
  | cons p rest ih =>
    unfold selectFor at h
    by_cases hneg : p.entryIdx < 0
    · simp [hneg] at h
    · simp only [hneg, if_false] at h
      by_cases hidx : p.entryIdx ≠ (i : Int)
      · simp only [hidx, ne_eq, not_false_eq_true, if_true] at h
        have hb : (p.entryIdx == (i : Int)) = false := by simpa using hidx
        rw [ih s h]
        simp [askedPred, List.any_cons, hb]
      · have hidx' : p.entryIdx = (i : Int) := by simpa using hidx
        simp only [hidx', ne_eq, not_true_eq_false, if_false] at h
        by_cases hp : p.isPredicate = true
        · simp only [hp, if_true] at h
          rw [ih _ h]
          simp only [askedPred, List.any_cons, hidx', beq_self_eq_true, hp, Bool.true_and, Bool.or_eq_true, beq_iff_eq]
          by_cases hc : s.preds.contains p.referent = true
          · have hmem : p.referent ∈ s.preds := by simpa using hc
            simp only [hc, if_true]
            constructor
            · rintro (h1 | h1)
              · exact Or.inl h1
              · exact Or.inr (Or.inr h1)
            · rintro (h1 | h1 | h1)
              · exact Or.inl h1
              · exact Or.inl (h1 ▸ hmem)
              · exact Or.inr h1
          · simp only [hc, Bool.false_eq_true, if_false, List.mem_cons]
            constructor
            · rintro ((h1 | h1) | h1)
              · exact Or.inr (Or.inl h1.symm)
              · exact Or.inl h1
              · exact Or.inr (Or.inr h1)
            · rintro (h1 | h1 | h1)
              · exact Or.inl (Or.inr h1)
              · exact Or.inl (Or.inl h1.symm)
              · exact Or.inr h1
        · have hp' : p.isPredicate = false := by simpa using hp
          simp only [hp', Bool.false_eq_true, if_false] at h
          rw [ih _ h]
          simp [askedPred, List.any_cons, hp']

theorem mem_attrs_selectFor (i : Nat) (l : List Prove) (s s' : Selection) (h : selectFor i l s = some s') (x : String) :
    (s'.attrs.lookup x).isSome = true ↔ (s.attrs.lookup x).isSome = true ∨ askedAttr l i x = true := by
  induction l generalizing s with
  | nil =>
    simp only [selectFor, Option.some.injEq] at h
    subst h; simp [askedAttr]
  | cons p rest ih =>
    unfold selectFor at h
    by_cases hneg : p.entryIdx < 0
    · simp [hneg] at h
    · simp only [hneg, if_false] at h
      by_cases hidx : p.entryIdx ≠ (i : Int)
      · simp only [hidx, ne_eq, not_false_eq_true, if_true] at h
        have hb : (p.entryIdx == (i : Int)) = false := by simpa using hidx
        rw [ih s h]
        simp [askedAttr, List.any_cons, hb]
      · have hidx' : p.entryIdx = (i : Int) := by simpa using hidx
        simp only [hidx', ne_eq, not_true_eq_false, if_false] at h
        by_cases hp : p.isPredicate = true
        · simp only [hp, if_true] at h
          rw [ih _ h]
          simp [askedAttr, List.any_cons, hp]
        · have hp' : p.isPredicate = false := by simpa using hp
          simp only [hp', Bool.false_eq_true, if_false] at h
          rw [ih _ h, lookup_insert]
          have hcons : askedAttr (p :: rest) i x = ((p.referent == x) || askedAttr rest i x) := by
            simp [askedAttr, List.any_cons, hidx', hp']
          rw [hcons]
          by_cases hx : (x == p.referent) = true
          · have e : x = p.referent := by simpa using hx
            subst e
            simp
          · have hx' : (x == p.referent) = false := by simpa using hx
            have hne : (p.referent == x) = false := by
              cases hh : (p.referent == x)
              · rfl
              · have : p.referent = x := by simpa using hh
                rw [this] at hx'; simp at hx'
            rw [if_neg hx, hne]; simp

/-- **what entry `i` is told to prove depends only on WHICH items name it, not on where they stand in the list**: for two lists
with the same members (no negative index), entry `i` gets the same predicate referents and the same attribute referents -/
theorem C17_prove_list_order_irrelevant (i : Nat) (l l' : List Prove) (hp : l.Perm l') (s s' : Selection)
    (h : selectFor i l ⟨[], []⟩ = some s) (h' : selectFor i l' ⟨[], []⟩ = some s') (x : String) :
    (x ∈ s.preds ↔ x ∈ s'.preds) ∧ ((s.attrs.lookup x).isSome = (s'.attrs.lookup x).isSome) := by
  have hany : ∀ f : Prove → Bool, l.any f = l'.any f := by
    intro f
    cases h1 : l.any f <;> cases h2 : l'.any f <;> try rfl
    · obtain ⟨p, hm, hf⟩ := List.any_eq_true.mp h2
      have := List.any_eq_true.mpr ⟨p, hp.mem_iff.mpr hm, hf⟩
      rw [h1] at this; cases this
    · obtain ⟨p, hm, hf⟩ := List.any_eq_true.mp h1
      have := List.any_eq_true.mpr ⟨p, hp.mem_iff.mp hm, hf⟩
      rw [h2] at this; cases this
  constructor
  · rw [mem_preds_selectFor i l _ s h, mem_preds_selectFor i l' _ s' h']
    unfold askedPred; rw [hany]
  · have a := mem_attrs_selectFor i l _ s h x
    have b := mem_attrs_selectFor i l' _ s' h' x
    unfold askedAttr at a b
    rw [hany] at a
    cases h1 : (s.attrs.lookup x).isSome <;> cases h2 : (s'.attrs.lookup x).isSome <;> try rfl
    · rw [h1] at a; rw [h2] at b
      have := b.mp rfl
      have := a.mpr this
      cases this
    · rw [h1] at a; rw [h2] at b
      have := a.mp rfl
      have := b.mpr this
      cases this

/-- the whole call fails iff some item carries a negative index (and there is at least one entry to serve) -/
theorem C17_present_fails_iff (n : Nat) (proves : List Prove) (hn : 0 < n) :
    presentCredentials n proves = none ↔ ∃ p ∈ proves, p.entryIdx < 0 := by
  unfold presentCredentials
  constructor
  · intro h
    by_cases hex : ∃ p ∈ proves, p.entryIdx < 0
    · exact hex
    · exfalso
      have hall : ∀ i, ∃ s, selectFor i proves ⟨[], []⟩ = some s := by
        intro i
        cases hs : selectFor i proves ⟨[], []⟩ with
        | none => exact absurd ((selectFor_none_iff i proves _).mp hs) hex
        | some s => exact ⟨s, rfl⟩
      have : ∀ (l : List Nat), ∃ r, l.mapM (fun i => selectFor i proves ⟨[], []⟩) = some r := by
        intro l
        induction l with
        | nil => exact ⟨[], rfl⟩
        | cons a l ih =>
          obtain ⟨s, hs⟩ := hall a
          obtain ⟨r, hr⟩ := ih
          exact ⟨s :: r, by simp [List.mapM_cons, hs, hr]⟩
      obtain ⟨r, hr⟩ := this (List.range n)
      rw [hr] at h; cases h
  · intro hex
    have h0 : selectFor 0 proves ⟨[], []⟩ = none := (selectFor_none_iff 0 proves _).mpr hex
    cases n with
    | zero => omega
    | succ k =>
      rw [List.range_succ_eq_map]
      simp [List.mapM_cons, h0]

/-! ### non-vacuity -/
example : lookup2 (buildOverride [⟨"r", 20, 10⟩, ⟨"r", 30, 10⟩]) "r" 20 = some 10 := by decide
example : lookup2 (buildOverride [⟨"r", 20, 10⟩, ⟨"r", 30, 10⟩]) "r" 30 = some 10 := by decide
example : lookup2 (buildOverride [⟨"r", 20, 10⟩, ⟨"r", 20, 12⟩]) "r" 20 = some 12 := by decide
example : (presentCredentials 2 [⟨0, "a1", false, true⟩, ⟨1, "a2", false, true⟩, ⟨0, "p1", true, false⟩]).map (·.map (·.preds)) = some [["p1"], []] := by decide
example : presentCredentials 2 [⟨0, "a1", false, true⟩, ⟨-1, "a2", false, true⟩] = none := by decide

end AnonModel.FfiGlue

import AnonModel.Lemmas.VerifierLegacy
/-!
# C01 (legacy format) — a verified presentation proves exactly the requested predicates and attributes

Soundness direction for the model `Verifier.verifyLegacy` of `services/verifier.rs:
verify_presentation` on top of the ideal CL functionality. All theorems are of the form
"`verifyLegacy ctx r p = .ok true` ⇒ …" (or the contrapositive).

Vocabulary. `SubSound ctx p i s` (in `Lemmas/VerifierLegacy.lean`): sub-proof `s` at index `i` is
intact, made from a credential signed by the key of the credential definition the verifier supplied
for identifier `i`, over exactly the supplied schema's (normalised) attribute names, and everything
it reveals (`s.revealed`) or proves (`s.preds`) is true of the signed values `s.cred.attrs`.
For a requested attribute four ways of being served are distinguished (`C01_Revealed`,
`C01_RevealedGroup`, `C01_Held`, `C01_SelfAttested`).

Key uniqueness. The Rust maps are `HashMap`s; the model uses association lists with first-match
lookup. `C01_legacy_predicates` / `C01_legacy_attributes` quantify over *entries* of the request maps
and therefore need `(keys r.preds).Nodup` / `(keys r.attrs).Nodup` (otherwise a shadowed second entry
for the same referent is never looked at). The `_lookup` versions quantify over lookup results and
need no such hypothesis. No uniqueness hypothesis on the presentation's maps is needed: the
statements speak of `lookup` there, and `check_unique_attr_referents` (`uniqueReferents`) is part of
what acceptance establishes.
-/
namespace AnonModel.Verifier
open AnonModel.IdealCL

/-! ### predicates -/

/-- **requested predicates (by lookup)**: for every requested predicate `q` under referent `ref` an
accepted presentation names a sub-proof index `i`; the sub-proof at `i` carries a predicate with the
requested (normalised) attribute name, type and threshold; and that sub-proof is sound, so the
predicate holds of the value signed by the issuer key of the supplied definition -/
theorem C01_legacy_predicates_lookup {ctx : Ctx} {r : Request} {p : Presentation}
    (h : verifyLegacy ctx r p = .ok true) {ref : String} {q : PredInfo}
    (hq : r.preds.lookup ref = some q) :
    ∃ i s, p.predicates.lookup ref = some i ∧ p.subs[i]? = some s ∧
      (∃ pr ∈ s.preds, Names.commonView pr.attr = Names.commonView q.name ∧ pr.ty = q.ty ∧
        pr.value = q.value) ∧
      SubSound ctx p i s := by
  obtain ⟨-, -, hcmp, -, -, hpred, -, -, -⟩ := (verifyLegacy_ok_true_iff ctx r p).mp h
  have hk : ref ∈ keys p.predicates :=
    (((compareAttrs_iff r p).mp hcmp).2 ref).mp (mem_keys_of_lookup hq)
  obtain ⟨i, hi⟩ := lookup_of_mem_keys hk
  obtain ⟨q', s, hq', hs, hpr⟩ := predicatesOk_elim hpred (mem_of_lookup hi)
  rw [hq] at hq'; cases hq'
  exact ⟨i, s, hi, hs, hpr, subSound_of_ok h i s hs⟩

/-- **requested predicates**: the same for every entry of `requested_predicates` (unique referents) -/
theorem C01_legacy_predicates {ctx : Ctx} {r : Request} {p : Presentation}
    (h : verifyLegacy ctx r p = .ok true) (hnd : (keys r.preds).Nodup) :
    ∀ kv ∈ r.preds, ∃ i s, p.predicates.lookup kv.1 = some i ∧ p.subs[i]? = some s ∧
      (∃ pr ∈ s.preds, Names.commonView pr.attr = Names.commonView kv.2.name ∧ pr.ty = kv.2.ty ∧
        pr.value = kv.2.value) ∧
      SubSound ctx p i s := by
  rintro ⟨ref, q⟩ hm
  exact C01_legacy_predicates_lookup h (lookup_of_mem_nodup hnd hm)

/-- the proven predicate is true of the signed value: spelled out from `SubSound` -/
theorem C01_legacy_predicate_holds {ctx : Ctx} {r : Request} {p : Presentation}
    (h : verifyLegacy ctx r p = .ok true) {ref : String} {q : PredInfo}
    (hq : r.preds.lookup ref = some q) :
    ∃ i s attr, p.predicates.lookup ref = some i ∧ p.subs[i]? = some s ∧
      Names.commonView attr = Names.commonView q.name ∧
      predHolds s.cred.attrs ⟨attr, q.ty, q.value⟩ = true := by
  obtain ⟨i, s, hi, hs, ⟨pr, hpr, h1, h2, h3⟩, _, _, _, _, _, _, _, _, _, _, hp⟩ :=
    C01_legacy_predicates_lookup h hq
  refine ⟨i, s, pr.attr, hi, hs, h1, ?_⟩
  have := hp pr hpr
  rw [← h2, ← h3]; exact this

/-! ### attributes -/

/-- the requested attribute is revealed: a single `name`, served by sub-proof `info.idx`, which
reveals an attribute of the same normal-form name with value the normalised `encoded` -/
def C01_Revealed (ctx : Ctx) (p : Presentation) (ref : String) (a : AttrInfo) : Prop :=
  ∃ info n s, p.revealed.lookup ref = some info ∧ a.name = some n ∧
    p.subs[info.idx]? = some s ∧
    (∃ kv ∈ s.revealed, Names.commonView kv.1 = Names.commonView n ∧
      Encode.normalizeEnc info.encoded = kv.2) ∧
    SubSound ctx p info.idx s

/-- the requested attribute group (`names`) is revealed from one sub-proof, every requested name
with the normalised `encoded` value the sub-proof reveals -/
def C01_RevealedGroup (ctx : Ctx) (p : Presentation) (ref : String) (a : AttrInfo) : Prop :=
  ∃ g names s, p.groups.lookup ref = some g ∧ a.names = some names ∧ p.subs[g.idx]? = some s ∧
    (∀ n ∈ names, ∃ re kv, g.values.lookup n = some re ∧ kv ∈ s.revealed ∧
      Names.commonView kv.1 = Names.commonView n ∧ Encode.normalizeEnc re.2 = kv.2) ∧
    SubSound ctx p g.idx s

/-- the requested attribute is held but not revealed: the schema supplied for the credential the
referent points to has every requested name, and the sub-proof at that index is sound -/
def C01_Held (ctx : Ctx) (p : Presentation) (ref : String) (a : AttrInfo) : Prop :=
  ∃ i id sc s, p.unrevealed.lookup ref = some i ∧ p.identifiers[i]? = some id ∧
    ctx.schemas.lookup id.schemaId = some sc ∧
    (∀ n ∈ a.allNames, Names.hasNorm sc.attrNames n = true) ∧
    p.subs[i]? = some s ∧ SubSound ctx p i s

/-- the requested attribute is self-attested only — possible only if it is unrestricted
(`restrictions` absent, `$and: []` or `$or: []`) -/
def C01_SelfAttested (p : Presentation) (ref : String) (a : AttrInfo) : Prop :=
  ref ∈ keys p.selfAttested ∧ ref ∉ keys p.revealed ++ keys p.groups ++ keys p.unrevealed ∧
    Query.isSelfAttested a.restrictions true = true

/-- **requested attributes (by lookup)**: every requested attribute is served in one of the four
ways by an accepted presentation -/
theorem C01_legacy_attributes_lookup {ctx : Ctx} {r : Request} {p : Presentation}
    (h : verifyLegacy ctx r p = .ok true) {ref : String} {a : AttrInfo}
    (ha : r.attrs.lookup ref = some a) :
    C01_Revealed ctx p ref a ∨ C01_RevealedGroup ctx p ref a ∨ C01_Held ctx p ref a ∨
      C01_SelfAttested p ref a := by
  obtain ⟨-, -, hcmp, hrev, hunr, -, hres, -, -⟩ := (verifyLegacy_ok_true_iff ctx r p).mp h
  have hk := (((compareAttrs_iff r p).mp hcmp).1 ref).mp (mem_keys_of_lookup ha)
  by_cases h3 : ref ∈ keys p.revealed ++ keys p.groups ++ keys p.unrevealed
  · simp only [List.mem_append] at h3
    rcases h3 with (h1 | h2) | h3
    · -- revealed single
      obtain ⟨info, hi⟩ := lookup_of_mem_keys h1
      obtain ⟨a', n, s, ha', hn, hs, hv⟩ := revealedValuesOk_single hrev (mem_of_lookup hi)
      rw [ha] at ha'; cases ha'
      exact Or.inl ⟨info, n, s, hi, hn, hs, revealedValueOk_elim hv, subSound_of_ok h _ s hs⟩
    · -- revealed group
      obtain ⟨g, hg⟩ := lookup_of_mem_keys h2
      obtain ⟨a', names, s, ha', hn, hs, -, hv⟩ := revealedValuesOk_group hrev (mem_of_lookup hg)
      rw [ha] at ha'; cases ha'
      refine Or.inr (Or.inl ⟨g, names, s, hg, hn, hs, fun n hn' => ?_, subSound_of_ok h _ s hs⟩)
      obtain ⟨re, hre, hok⟩ := hv n hn'
      obtain ⟨kv, hkv, h1, h2⟩ := revealedValueOk_elim hok
      exact ⟨re, kv, hre, hkv, h1, h2⟩
    · -- unrevealed
      obtain ⟨i, hi⟩ := lookup_of_mem_keys h3
      obtain ⟨a', id, sc, ha', hid, hsc, hn⟩ := unrevealedOk_elim hunr (mem_of_lookup hi)
      rw [ha] at ha'; cases ha'
      obtain ⟨s, hs, hss⟩ := ok_sub_exists h hid
      exact Or.inr (Or.inr (Or.inl ⟨i, id, sc, s, hi, hid, hsc, hn, hs, hss⟩))
  · -- self-attested only
    have hself : ref ∈ keys p.selfAttested := by
      rcases List.mem_append.mp hk with hk | hk
      · exact absurd hk h3
      · exact hk
    refine Or.inr (Or.inr (Or.inr ⟨hself, h3, ?_⟩))
    have hcl := ((restrictionsOutcome_ok_true_iff ctx r p).mp hres).2.1 _ (mem_of_lookup ha)
    rcases attrClause_elim hcl with hsa | hnone | ⟨q, -, hok⟩
    · rwa [List.contains_iff_mem.mpr hself] at hsa
    · rw [hnone]; rfl
    · obtain ⟨i, -, -, hi, -⟩ := attrRestrictionOk_elim hok
      exact absurd (attrIdentifierIdx_mem hi) h3

/-- **requested attributes**: the same for every entry of `requested_attributes` (unique referents) -/
theorem C01_legacy_attributes {ctx : Ctx} {r : Request} {p : Presentation}
    (h : verifyLegacy ctx r p = .ok true) (hnd : (keys r.attrs).Nodup) :
    ∀ kv ∈ r.attrs, C01_Revealed ctx p kv.1 kv.2 ∨ C01_RevealedGroup ctx p kv.1 kv.2 ∨
      C01_Held ctx p kv.1 kv.2 ∨ C01_SelfAttested p kv.1 kv.2 := by
  rintro ⟨ref, a⟩ hm
  exact C01_legacy_attributes_lookup h (lookup_of_mem_nodup hnd hm)

/-- **nothing extra**: conversely every referent of the presentation's five maps is a requested one
(attribute referents for the four attribute maps, predicate referents for `predicates`) -/
theorem C01_legacy_only_requested {ctx : Ctx} {r : Request} {p : Presentation}
    (h : verifyLegacy ctx r p = .ok true) :
    (∀ ref, ref ∈ keys p.revealed ++ keys p.groups ++ keys p.unrevealed ++ keys p.selfAttested →
      ref ∈ keys r.attrs) ∧
    (∀ ref, ref ∈ keys p.predicates → ref ∈ keys r.preds) := by
  obtain ⟨-, -, hcmp, -⟩ := (verifyLegacy_ok_true_iff ctx r p).mp h
  obtain ⟨h1, h2⟩ := (compareAttrs_iff r p).mp hcmp
  exact ⟨fun ref => (h1 ref).mpr, fun ref => (h2 ref).mpr⟩

/-! ### a presentation made for another request is rejected -/

/-- **cross-request, wrong predicate**: if the sub-proof the presentation maps a requested predicate
referent to carries no predicate with the requested (normalised name, type, threshold) — e.g. the
presentation was made for a request with a weaker threshold — it is not accepted -/
theorem C01_legacy_cross_request {ctx : Ctx} {r : Request} {p : Presentation}
    {ref : String} {q : PredInfo} (hq : r.preds.lookup ref = some q)
    (hno : ∀ i s, p.predicates.lookup ref = some i → p.subs[i]? = some s →
      ∀ pr ∈ s.preds, ¬ (Names.commonView pr.attr = Names.commonView q.name ∧ pr.ty = q.ty ∧
        pr.value = q.value)) :
    verifyLegacy ctx r p ≠ .ok true := by
  intro h
  obtain ⟨i, s, hi, hs, ⟨pr, hpr, hh⟩, -⟩ := C01_legacy_predicates_lookup h hq
  exact hno i s hi hs pr hpr hh

/-- **cross-request, missing predicate referent**: a requested predicate the presentation has no
entry for ⇒ not accepted -/
theorem C01_legacy_cross_request_missing_pred {ctx : Ctx} {r : Request} {p : Presentation}
    {ref : String} (hreq : ref ∈ keys r.preds) (hmiss : ref ∉ keys p.predicates) :
    verifyLegacy ctx r p ≠ .ok true := by
  intro h
  obtain ⟨q, hq⟩ := lookup_of_mem_keys hreq
  obtain ⟨i, s, hi, -⟩ := C01_legacy_predicates_lookup h hq
  exact hmiss (mem_keys_of_lookup hi)

/-- **cross-request, missing attribute referent**: a requested attribute that occurs in none of the
four attribute maps of the presentation ⇒ not accepted -/
theorem C01_legacy_cross_request_missing_attr {ctx : Ctx} {r : Request} {p : Presentation}
    {ref : String} (hreq : ref ∈ keys r.attrs)
    (hmiss : ref ∉ keys p.revealed ++ keys p.groups ++ keys p.unrevealed ++ keys p.selfAttested) :
    verifyLegacy ctx r p ≠ .ok true := by
  intro h
  obtain ⟨-, -, hcmp, -⟩ := (verifyLegacy_ok_true_iff ctx r p).mp h
  exact hmiss ((((compareAttrs_iff r p).mp hcmp).1 ref).mp hreq)

/-- **cross-request, extra referent**: a presentation carrying a predicate or attribute referent the
request does not have ⇒ not accepted -/
theorem C01_legacy_cross_request_extra {ctx : Ctx} {r : Request} {p : Presentation}
    {ref : String}
    (hextra : (ref ∈ keys p.predicates ∧ ref ∉ keys r.preds) ∨
      (ref ∈ keys p.revealed ++ keys p.groups ++ keys p.unrevealed ++ keys p.selfAttested ∧
        ref ∉ keys r.attrs)) :
    verifyLegacy ctx r p ≠ .ok true := by
  intro h
  obtain ⟨h1, h2⟩ := C01_legacy_only_requested h
  rcases hextra with ⟨ha, hb⟩ | ⟨ha, hb⟩
  · exact hb (h2 ref ha)
  · exact hb (h1 ref ha)

/-! ### non-vacuity -/

section Examples
open Honest

-- the hypotheses are satisfiable: the honest scenario is accepted and has unique referents
example : verifyLegacy ctx req pres = .ok true := Honest.accepted
example : (keys req.attrs).Nodup ∧ (keys req.preds).Nodup := by decide
-- all three served shapes occur in it: `a1` revealed, `a2` held, `p1` a predicate
example : (req.attrs.lookup "a1").isSome = true ∧ (pres.revealed.lookup "a1").isSome = true := by
  decide
example : pres.unrevealed.lookup "a2" = some 0 ∧ pres.predicates.lookup "p1" = some 0 := by decide
-- F1 (fixed): a proof of `age ≥ 18` presented for a request of `age ≥ 60` is rejected
example : verifyLegacy ctx
    { req with preds := [("p1", { name := "age", ty := "GE", value := 60, restrictions := none,
                                  nonRevoked := none })] } pres = .err := by decide
-- … same for another type, another attribute, a missing and an extra referent
example : verifyLegacy ctx
    { req with preds := [("p1", { name := "age", ty := "GT", value := 18, restrictions := none,
                                  nonRevoked := none })] } pres = .err := by decide
example : verifyLegacy ctx
    { req with preds := [("p1", { name := "id", ty := "GE", value := 18, restrictions := none,
                                  nonRevoked := none })] } pres = .err := by decide
example : verifyLegacy ctx req { pres with predicates := [] } = .err := by decide
example : verifyLegacy ctx { req with preds := [] } pres = .err := by decide
-- normalisation of the requested name: `" A g e"` is the same attribute
example : verifyLegacy ctx
    { req with preds := [("p1", { name := " A g e", ty := "GE", value := 18, restrictions := none,
                                  nonRevoked := none })] } pres = .ok true := by decide
-- a self-attested value is accepted for an unrestricted attribute only
example : verifyLegacy ctx req
    { pres with unrevealed := [], selfAttested := [("a2", "x")] } = .ok true := by decide
example : verifyLegacy ctx req
    { pres with revealed := [], selfAttested := [("a1", "x")] } = .err := by decide
-- F2 (fixed): an unrevealed referent pointing to a credential whose schema lacks the attribute
example : verifyLegacy ctx
    { req with attrs := req.attrs.take 1 ++
        [("a2", ({ name := some "zip", names := none, restrictions := none, nonRevoked := none } :
                  AttrInfo))] }
    pres = .err := by decide
end Examples

end AnonModel.Verifier

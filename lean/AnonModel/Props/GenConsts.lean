import AnonModel.Gen.Consts
import AnonModel.Model.Ident
import AnonModel.Model.Query
import AnonModel.Model.Tails
/-!
# The constants and regex literals the models were written for are the ones in `/repo` now

`Gen/Consts.lean` is regenerated from the sources on every run; these equalities are the tie between
the hand-transcribed recognisers / constants and the literals in the code (C16, C19, C20).
-/
namespace AnonModel.GenConsts
open AnonModel.Gen

/-- C20: the five identifier patterns of `utils/validation.rs` are the ones `Model/Ident.lean` transcribes -/
theorem C20_regex_literals_unchanged :
    re_URI_IDENTIFIER = "^[a-zA-Z][a-zA-Z0-9\\+\\-\\.]*:.+$" ∧
    re_LEGACY_DID_IDENTIFIER = "^[1-9A-HJ-NP-Za-km-z]{21,22}$" ∧
    re_LEGACY_SCHEMA_IDENTIFIER = "^[1-9A-HJ-NP-Za-km-z]{21,22}:2:[^:]+:[0-9.]+$" ∧
    re_LEGACY_CRED_DEF_IDENTIFIER = "^[1-9A-HJ-NP-Za-km-z]{21,22}:3:CL:(([1-9][0-9]*)|([a-zA-Z0-9]{21,22}:2:[^:]+:[0-9.]+)):([^:]+)?$" ∧
    re_LEGACY_REV_REG_DEF_IDENTIFIER = "^[1-9A-HJ-NP-Za-km-z]{21,22}:4:[1-9A-HJ-NP-Za-km-z]{21,22}:3:CL:(([1-9][0-9]*)|([a-zA-Z0-9]{21,22}:2:[^:]+:[0-9.]+)):([^:]+):CL_ACCUM:([^:]+)?$" := by
  decide

/-- C20: `MAX_ATTRIBUTES_COUNT` -/
theorem C20_max_attributes_unchanged : maxAttributesCount = Ident.maxAttributesCount := by decide

/-- C06/C16: the internal-tag pattern of `services/verifier.rs` -/
theorem C16_internal_tag_literal_unchanged : re_INTERNAL_TAG_MATCHER = "^attr::([^:]+)::(value|marker)$" := by decide

/-- C16: `Credential::QUALIFIABLE_TAGS` -/
theorem C16_qualifiable_tags_unchanged : qualifiableTags = Query.qualifiableTags := by decide

/-- C19: two-byte version tag `[0, 2]` -/
theorem C19_version_tag_unchanged : tailsBlobTagSz = 2 ∧ tailsVersionTag = [0, 2] := by decide

end AnonModel.GenConsts

import AnonModel.Gen.StoreSrc
import AnonModel.Model.Store
/-!
# C17: how a handle argument is resolved — `load` for required handles, `opt_load` for optional ones

`optLoad` below is `ObjectHandle::opt_load`: handle `0` means "absent" and does not touch the store; any other handle is
resolved exactly like `load`, so a stale, unknown or never-issued handle is an *error*, never "absent". The equalities tie
the two definitions to the function bodies in `/repo` (regenerated on every run); the one-bad-handle probes of
`tools/ffi_check.py` exercise them through real entry points (required and optional positions).
-/
namespace AnonModel.Store

/-- `ObjectHandle::load` on a store content: "Invalid object handle" when absent -/
def loadH (m : Map) (h : Nat) : Except Unit Obj :=
  match mapGet m h with
  | some o => .ok o
  | none => .error ()

/-- `ObjectHandle::opt_load` -/
def optLoad (m : Map) (h : Nat) : Except Unit (Option Obj) :=
  if h = 0 then .ok none else (loadH m h).map some

theorem C17_optional_zero_is_absent (m : Map) : optLoad m 0 = .ok none := rfl

/-- a non-zero handle the store does not hold is refused in an optional position, exactly as in a required one -/
theorem C17_optional_stale_rejected (m : Map) (h : Nat) (h0 : h ≠ 0) (hs : mapGet m h = none) :
    optLoad m h = .error () ∧ loadH m h = .error () := by
  simp [optLoad, loadH, h0, hs, Except.map]

/-- a live handle resolves to its object in both positions -/
theorem C17_optional_live_resolves (m : Map) (h : Nat) (o : Obj) (h0 : h ≠ 0) (hs : mapGet m h = some o) :
    optLoad m h = .ok (some o) ∧ loadH m h = .ok o := by
  simp [optLoad, loadH, h0, hs, Except.map]

/-- never "absent" for a non-zero handle -/
theorem C17_optional_absent_iff (m : Map) (h : Nat) : optLoad m h = .ok none ↔ h = 0 := by
  unfold optLoad
  by_cases h0 : h = 0
  · simp [h0]
  · simp only [h0, if_false, iff_false]
    unfold loadH
    cases mapGet m h <;> simp [Except.map]

example : optLoad [(3, ⟨1, 7⟩)] 3 = .ok (some ⟨1, 7⟩) := rfl
example : optLoad [(3, ⟨1, 7⟩)] 4 = .error () := rfl

end AnonModel.Store

namespace AnonModel.GenConsts
open AnonModel.Gen

/-- `load` and `opt_load` as transcribed above -/
theorem C17_handle_resolution_sources_unchanged :
    storeSrc_load = "FFI_OBJECTS.lock().map_err(|_|err_msg!(\"Errorlockingobjectstore\"))?.get(&self).cloned().ok_or_else(||err_msg!(\"Invalidobjecthandle\"))" ∧
    storeSrc_opt_load = "ifself.0==0{Ok(None)}else{Some(FFI_OBJECTS.lock().map_err(|_|err_msg!(\"Errorlockingobjectstore\"))?.get(&self).cloned().ok_or_else(||err_msg!(\"Invalidobjecthandle\")),).transpose()}" := by
  refine ⟨?_, ?_⟩ <;> rfl

end AnonModel.GenConsts

import AnonModel.Lemmas.StatusList
/-!
# C09 — the status list is a faithful state machine of the issue/revoke history

Property theorems only (helpers: `Lemmas/StatusList.lean`; model: `Model/StatusList.lean`).

Reading of "in order": whether a request "would not change an entry" is judged against
the list the update starts from (that is what the two filters of
`update_revocation_status_list` do).  An index named in both sets is therefore issued
if it was revoked and revoked if it was valid; bits and accumulator agree on that
reading.  Statements about the accumulator are per initial mode (`byDefault`).
-/
namespace AnonModel.StatusList

/-- Declarative effect of one operation on the entries: entry `i` holding `true`
(revoked / not issued) and named in `issued` becomes `false`; entry `i` holding `false`
and named in `revoked` becomes `true`; every other entry keeps its value (`specBit`).
The list keeps its length, so indices `≥ L` name nothing. -/
def specStep (bits : List Bool) : Op → List Bool
  | .update I R _ => bits.mapIdx fun i b => specBit b (decide (i ∈ I.getD [])) (decide (i ∈ R.getD []))
  | .tsOnly _ => bits

/-- the per-entry rule, spelled out -/
theorem C09_specBit_cases (b inI inR : Bool) :
    specBit b inI inR =
      match b, inI, inR with
      | true, true, _ => false      -- revoked and requested issued: issued
      | true, false, _ => true      -- revoked, not requested issued: unchanged (a revoke request is a no-op)
      | false, _, true => true      -- valid and requested revoked: revoked
      | false, _, false => false := by  -- valid, not requested revoked: unchanged (an issue request is a no-op)
  cases b <;> cases inI <;> cases inR <;> rfl

/-- **one update, entry by entry**: the length is preserved and every existing entry
follows the rule, judged against the list the update starts from; entries that do not
exist (index `≥ L`) still do not exist. -/
theorem C09_update_entry (s : SL) (I R : Option (List Nat)) (ts : Option Nat) :
    (update s I R ts).bits.length = s.bits.length ∧
    ∀ i, (update s I R ts).bits[i]? =
      (s.bits[i]?).map fun b => specBit b (decide (i ∈ I.getD [])) (decide (i ∈ R.getD [])) :=
  ⟨length_update s I R ts, getElem?_update s I R ts⟩

/-- one operation acts on the bits as the declarative rule says -/
theorem C09_bits_step (s : SL) (op : Op) : (applyOp s op).bits = specStep s.bits op := by
  cases op with
  | tsOnly t => rfl
  | update I R t =>
    apply List.ext_getElem?
    intro i
    simp only [applyOp, specStep, getElem?_update, List.getElem?_mapIdx]

/-- **bits after any history** = fold of the declarative rule over the requests, in
order (timestamps and the accumulator play no role). -/
theorem C09_bits_spec (s : SL) (ops : List Op) :
    (final s ops).bits = ops.foldl specStep s.bits := by
  unfold final
  induction ops generalizing s with
  | nil => rfl
  | cons op ops ih => simp only [List.foldl_cons]; rw [ih, C09_bits_step]

/-- the length of the list never changes -/
theorem C09_length_preserved (s : SL) (ops : List Op) : (final s ops).bits.length = s.bits.length := by
  unfold final
  induction ops generalizing s with
  | nil => rfl
  | cons op ops ih =>
    simp only [List.foldl_cons]; rw [ih]
    cases op with
    | tsOnly t => rfl
    | update I R t => exact length_update s I R t

/-- the range check inside `RevocationStatusList::update` can never fire in
`update_revocation_status_list`: the filters have already dropped every index outside
the list, so the total `update` *is* the Rust function. -/
theorem C09_update_never_errs (s : SL) (I R : Option (List Nat)) (ts : Option Nat) :
    update? s I R ts = some (update s I R ts) := update?_eq_some s I R ts

/-- requests that would not change an entry, and indices outside the registry, are
ignored by bits *and* accumulator: an update none of whose issue requests hits a
revoked entry and none of whose revoke requests hits a valid entry changes neither. -/
theorem C09_noop_requests_ignored (s : SL) (I R : Option (List Nat)) (ts : Option Nat)
    (hI : ∀ i ∈ I.getD [], s.bits[i]? ≠ some true) (hR : ∀ i ∈ R.getD [], s.bits[i]? ≠ some false) :
    (update s I R ts).bits = s.bits ∧ (update s I R ts).acc = s.acc := by
  constructor
  · apply List.ext_getElem?
    intro i
    rw [getElem?_update]
    cases hb : s.bits[i]? with
    | none => rfl
    | some b =>
      cases b
      · have : i ∉ R.getD [] := fun h => hR i h hb
        simp [specBit, this]
      · have : i ∉ I.getD [] := fun h => hI i h hb
        simp [specBit, this]
  · funext j
    rw [acc_update]
    have h1 : ¬ (j ∈ I.getD [] ∧ s.bits[j]? = some true) := fun h => hI j h.1 h.2
    have h2 : ¬ (j ∈ R.getD [] ∧ s.bits[j]? = some false) := fun h => hR j h.1 h.2
    rw [if_neg h1, if_neg h2]; omega

/-- **accumulator invariant**: in every list reachable from a registry of size `L`
created in mode `byDefault`, the accumulator is
`base(mode) + Σ_{i < L, bits_i ≠ initBit(mode)} ±e_i` (`accOf`, proved by induction
over the history): by default `m_j = [1 ≤ j ≤ L] - [bits_j = 1]`, on demand
`m_j = [bits_j = 0]`.  (So position 0 revoked in a by-default registry gives `m_0 = -1`,
and index `L`, which has no position, stays at its initial value.) -/
theorem C09_acc_invariant {L : Nat} {byDefault : Bool} {s : SL} (h : Reachable L byDefault s) :
    s.bits.length = L ∧ s.acc = accOf L byDefault s.bits ∧
    (∀ j, accOf L true s.bits j = (if 1 ≤ j ∧ j ≤ L then 1 else 0) - (if s.bits[j]? = some true then 1 else 0)) ∧
    (∀ j, accOf L false s.bits j = if s.bits[j]? = some false then 1 else 0) :=
  ⟨reachable_length h, reachable_acc h, accOf_byDefault L s.bits, accOf_onDemand L s.bits⟩

/-- **path independence**: two lists of the same registry (same size, same mode) with
the same entries have the same accumulator — whatever histories led there. -/
theorem C09_acc_path_independent {L : Nat} {byDefault : Bool} {s t : SL}
    (hs : Reachable L byDefault s) (ht : Reachable L byDefault t) (hb : s.bits = t.bits) :
    s.acc = t.acc := by
  rw [reachable_acc hs, reachable_acc ht, hb]

/-- the same, for explicit histories: any two operation sequences (with repetitions,
overlapping, empty, absent or out-of-range sets, timestamp-only steps, different
creation timestamps) ending in the same entries end in the same accumulator. -/
theorem C09_acc_path_independent_runs (L : Nat) (byDefault : Bool) (ts₁ ts₂ : Option Nat)
    (ops₁ ops₂ : List Op)
    (hb : (final (create L byDefault ts₁) ops₁).bits = (final (create L byDefault ts₂) ops₂).bits) :
    (final (create L byDefault ts₁) ops₁).acc = (final (create L byDefault ts₂) ops₂).acc :=
  C09_acc_path_independent (final_reachable (.create ts₁) ops₁) (final_reachable (.create ts₂) ops₂) hb

/-- every state recorded by the runner is reachable (so the theorems above apply to
each element of a `run`) -/
theorem C09_run_reachable (L : Nat) (byDefault : Bool) (ts : Option Nat) (ops : List Op) :
    ∀ s ∈ run L byDefault ts ops, Reachable L byDefault s :=
  mem_runFrom_reachable (.create ts) ops

/-- **updates never modify the list they start from.**  In a functional model this is
true by construction (`update s …` is a new value, `s` is immutable); what can be
stated is its observable consequence: the states recorded for a history are not
disturbed by whatever is applied later.  (The Rust side — `current_list.clone()` then
mutate the clone — is checked by the harness, which compares the serialised input
list before and after the call.) -/
theorem C09_update_pure (s : SL) (ops more : List Op) :
    (runFrom s (ops ++ more)).take (ops.length + 1) = runFrom s ops ∧
    ∀ (i : Nat) (t : SL), (runFrom s ops)[i]? = some t → (runFrom s (ops ++ more))[i]? = some t :=
  ⟨runFrom_append_take s ops more, fun _ _ h => getElem?_runFrom_append h more⟩

/-- the timestamp changes only when one is supplied (and then to exactly that value);
a timestamp-only update always supplies one -/
theorem C09_timestamp_only_if_supplied (s : SL) (I R : Option (List Nat)) (t : Nat) :
    (update s I R none).ts = s.ts ∧ (update s I R (some t)).ts = some t ∧
    (updateTsOnly s t).ts = some t :=
  ⟨rfl, rfl, rfl⟩

/-- a timestamp-only update keeps entries and accumulator -/
theorem C09_ts_only_keeps_bits_acc (s : SL) (t : Nat) :
    (updateTsOnly s t).bits = s.bits ∧ (updateTsOnly s t).acc = s.acc := ⟨rfl, rfl⟩

/-- **a credential issued against a list embeds the accumulator that the list has
after the matching issue update** — for every list, size and index for which
`create_credential` succeeds (`1 ≤ k ≤ L`, position `k` exists): if entry `k` is set
(on-demand issuance) both add `k`; if it is clear (issuance by default) the issue
request is a no-op and the credential embeds the list's own accumulator. -/
theorem C09_issued_credential_embeds {L k : Nat} {s : SL} {A w : Acc}
    (h : issueAgainst L s k = some (A, w)) :
    A = (update s (some [k]) none none).acc := by
  obtain ⟨_, _, ⟨hb, hA, _⟩ | ⟨hb, hA, _⟩⟩ := issueAgainst_eq_some h
  · subst hA; funext j
    rw [acc_update]
    by_cases hj : j = k
    · subst hj; simp [accAdd, hb]
    · simp [accAdd, hj]
  · subst hA; funext j
    rw [acc_update]
    by_cases hj : j = k
    · subst hj; simp [hb]
    · simp [hj]

/-! ### non-vacuity -/

/-- issue 1 and 2 on demand, revoke 1, re-issue 1, touch out-of-range 7: same entries
and same accumulator class as issuing 2 then 1 in one history with repetitions -/
example :
    let a := final (create 4 false none)
      [.update (some [1, 2]) none none, .update none (some [1]) (some 5), .update (some [1, 7]) (some [7]) none]
    let b := final (create 4 false (some 9)) [.update (some [2, 2]) (some [3]) none, .update (some [1, 1, 9]) none none]
    a.bits = b.bits ∧ a.bits = [true, false, false, true] ∧ accEqB 5 a.acc b.acc = true := by decide

/-- by default, position 0 revoked: multiplicity -1 at index 0; index 4 (= L) still 1 -/
example :
    let a := final (create 4 true none) [.update none (some [0, 4, 9]) none]
    a.bits = [true, false, false, false] ∧ a.acc 0 = -1 ∧ a.acc 4 = 1 ∧ a.acc 5 = 0 := by decide

/-- index named in both sets: issued if it was revoked, revoked if it was valid -/
example :
    (update (create 3 false none) (some [1]) (some [1]) none).bits = [true, false, true] ∧
    (update (create 3 true none) (some [1]) (some [1]) none).bits = [false, true, false] := by decide

/-- both branches of `C09_issued_credential_embeds` are inhabited -/
example : (issueAgainst 3 (create 3 false none) 1).isSome = true ∧
    (issueAgainst 3 (create 3 true none) 1).isSome = true ∧
    (issueAgainst 3 (create 3 true none) 0).isSome = false ∧
    (issueAgainst 3 (create 3 true none) 3).isSome = false := by decide

example : Reachable 3 true (update (create 3 true none) none (some [0]) (some 1)) :=
  .update _ _ _ (.create _)

end AnonModel.StatusList

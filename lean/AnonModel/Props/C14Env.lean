import AnonModel.Model.Envelope
import AnonModel.Props.C14Doc
/-!
# C14 — the envelope of a W3C credential: which documents are "well-formed AnonCreds credentials"

"conversion of anything that is not a well-formed AnonCreds credential is refused": `Convert.W3CMeta` summarised the
envelope in four booleans supplied by the harness; here they are computed from the `@context` list, the `type` set and
the presence of `issuanceDate`, and the refusal is characterised on the document.
-/
namespace AnonModel.Envelope
open AnonModel.ProofDoc (Doc parse sigProof)

/-! ## helper lemmas -/

theorem version_some_iff (cs : List Ctx) (v : Ver) :
    version cs = some v ↔ ∃ t, cs = .uri (match v with | .v11 => .v11Base | .v20 => .v20Base) :: t := by
  cases cs with
  | nil => simp [version]
  | cons c t =>
    cases c with
    | obj k => simp [version]
    | uri u => cases u <;> cases v <;> simp [version]

theorem contains_congr {α : Type} [BEq α] [LawfulBEq α] (a : α) (l₁ l₂ : List α) (h : ∀ x, x ∈ l₁ ↔ x ∈ l₂) :
    l₁.contains a = l₂.contains a := by
  cases h1 : l₁.contains a <;> cases h2 : l₂.contains a <;> simp_all

/-! ## property theorems -/

/-- the contexts the library writes name the version they were written for -/
theorem C14_env_library_version (v : Ver) : version (libraryContexts v) = some v := by
  cases v <;> rfl

/-- **credentials the library builds are well-formed**, in both data-model versions (1.1 always gets an issuance date) -/
theorem C14_env_library_valid (v : Ver) (date : Bool) (h : v = .v11 → date = true) :
    credValid ⟨libraryContexts v, [credentialType], date⟩ = true := by
  cases v
  · have := h rfl; subst this
    simp [credValid, libraryContexts, version, ctxValid, vocab, credentialType]
  · simp [credValid, libraryContexts, version, ctxValid, vocab, credentialType]

/-- and so are the presentations -/
theorem C14_env_library_presentation_valid (v : Ver) : presValid (libraryContexts v) [presentationType] = true := by
  cases v <;> simp [presValid, libraryContexts, version, ctxValid, vocab, presentationType]

/-- **what "well-formed" means on the document**: the first context names a data-model version; a 1.1 document also lists
the data-integrity context and carries an issuance date; the issuer-dependent vocabulary is listed; the type set holds
`VerifiableCredential` -/
theorem C14_env_valid_iff (e : CredEnv) :
    credValid e = true ↔
      ∃ v, version e.contexts = some v ∧
        (v = .v11 → Ctx.uri .dataIntegrity ∈ e.contexts ∧ e.hasIssuanceDate = true) ∧
        vocab ∈ e.contexts ∧ credentialType ∈ e.types := by
  unfold credValid ctxValid
  cases hv : version e.contexts with
  | none => simp
  | some v =>
    cases v <;> simp <;> grind

/-- a document whose first context is anything but one of the two base contexts is refused, whatever follows -/
theorem C14_env_unknown_first_refused (cs : List Ctx) (ts : List String) (d : Bool) (h : version cs = none) :
    credValid ⟨cs, ts, d⟩ = false ∧ presValid cs ts = false := by
  simp [credValid, presValid, ctxValid, h]

/-- the version is read from the first entry only -/
theorem C14_env_first_decides_version (c : Ctx) (t₁ t₂ : List Ctx) : version (c :: t₁) = version (c :: t₂) := by
  cases c with
  | obj k => rfl
  | uri u => cases u <;> rfl

/-- behind the first entry neither order nor repetition matters -/
theorem C14_env_tail_order_irrelevant (c : Ctx) (t₁ t₂ : List Ctx) (ts : List String) (d : Bool)
    (h : ∀ x, x ∈ t₁ ↔ x ∈ t₂) :
    credValid ⟨c :: t₁, ts, d⟩ = credValid ⟨c :: t₂, ts, d⟩ ∧ presValid (c :: t₁) ts = presValid (c :: t₂) ts := by
  have hm : ∀ x, x ∈ c :: t₁ ↔ x ∈ c :: t₂ := by
    intro x; simp [h x]
  have h1 := contains_congr (Ctx.uri .dataIntegrity) _ _ hm
  have h2 := contains_congr vocab _ _ hm
  have hv := C14_env_first_decides_version c t₁ t₂
  simp only [credValid, presValid, ctxValid, hv, h1, h2, and_self]

/-! ## the conversion model with all its envelope inputs computed from the document -/

/-- the summary `credential_from_w3c` works with, computed from envelope and `proof` member -/
def metaOf (e : CredEnv) (d : Doc) : Convert.W3CMeta :=
  { contextOk := ctxValid e.contexts
    hasW3CType := e.types.contains credentialType
    v11 := version e.contexts == some .v11
    hasIssuanceDate := e.hasIssuanceDate
    signatureProofOk := (sigProof (parse d)).isSome }

theorem C14_env_meta_valid (e : CredEnv) (d : Doc) : Convert.w3cValid (metaOf e d) = credValid e := by
  unfold Convert.w3cValid metaOf credValid ctxValid
  cases hv : version e.contexts with
  | none => simp
  | some v => cases v <;> simp

/-- `credential_from_w3c` on a stored document -/
def fromW3CStored (e : CredEnv) (d : Doc) (subj : Convert.Subject) : Option Convert.Values :=
  Convert.fromW3C (metaOf e d) subj

/-- **refusal, on the document**: conversion is refused exactly when the envelope is not well-formed, or the first
AnonCreds proof of the `proof` member is not a credential signature, or the subject holds a value that cannot be encoded -/
theorem C14_env_conversion_refused_iff (e : CredEnv) (d : Doc) (subj : Convert.Subject) :
    fromW3CStored e d subj = none ↔
      credValid e = false ∨ sigProof (parse d) = none ∨ Convert.subjectEncode subj = none := by
  unfold fromW3CStored Convert.fromW3C
  rw [C14_env_meta_valid]
  cases hc : credValid e <;> cases hs : sigProof (parse d) <;> simp [metaOf, hs]

/-- a stored credential the library built converts back as the conversion functions say -/
theorem C14_env_stored_library_credential (v : Ver) (date : Bool) (h : v = .v11 → date = true) (i : Nat)
    (subj : Convert.Subject) (d : Doc) (hd : ProofDoc.emit (ProofDoc.newCredential i) = some d) :
    fromW3CStored ⟨libraryContexts v, [credentialType], date⟩ d subj = Convert.subjectEncode subj := by
  have hd' : d = .arr [.sc (.anon ⟨.assertion, .signature, i⟩)] := by
    simpa [ProofDoc.emit, ProofDoc.newCredential, ProofDoc.emitCP] using hd.symm
  subst hd'
  unfold fromW3CStored Convert.fromW3C
  rw [C14_env_meta_valid, C14_env_library_valid v date h]
  simp [metaOf, sigProof, parse, ProofDoc.find, ProofDoc.parseCP, ProofDoc.anonOfCP, ProofDoc.sigOf, List.findSome?]

/-! non-vacuity -/
example : credValid ⟨[.uri .v20Base, .obj 3, vocab, .uri (.other 1)], ["X", credentialType], false⟩ = true := by decide
example : credValid ⟨[.uri .dataIntegrity, .uri .v11Base, vocab], [credentialType], true⟩ = false := by decide
example : credValid ⟨[.uri .v11Base, vocab], [credentialType], true⟩ = false := by decide

end AnonModel.Envelope

-- Root of the `AnonModel` library: executable model, lemmas and property theorems.
import AnonModel.Model.Sha256
import AnonModel.Model.Encode
import AnonModel.Lemmas.Encode
import AnonModel.Props.C13

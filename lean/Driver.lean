import Lean.Data.Json
import AnonModel.Driver.Ops
/-!
Line-protocol driver: one JSON object per input line (`{"op": …, …}`), one JSON
value per output line (the model's outcome). Imports the executable model only
(no Mathlib, no proof files), so it links as a `lean_exe`.
-/
open Lean

partial def loop (h : IO.FS.Stream) (out : IO.FS.Stream) : IO Unit := do
  let line ← h.getLine
  if line.isEmpty then return ()
  let res : Json :=
    match Json.parse line with
    | .error e => Json.mkObj [("bad_line", Json.str e)]
    | .ok j => AnonModel.Driver.step j
  out.putStrLn res.compress
  loop h out

def main : IO Unit := do
  let stdin ← IO.getStdin
  let stdout ← IO.getStdout
  loop stdin stdout

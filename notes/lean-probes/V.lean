/-! mini verifier: calibrate the proof idiom for "verify = ok true → …" -/
inductive Outcome where | ok (b : Bool) | err | panic (site : Nat)
deriving DecidableEq, Repr

structure Pred where (attr : String) (ty : Nat) (val : Int) deriving DecidableEq, Repr
structure SubP where (preds : List Pred) (good : Bool) deriving Repr
structure Req where (preds : List (String × Pred)) deriving Repr
structure Pres where (predMap : List (String × Nat)) (subs : List SubP) deriving Repr

def lookup (k : String) : List (String × α) → Option α
  | [] => none
  | (a, b) :: r => if a = k then some b else lookup k r

def keysEq (a : List String) (b : List String) : Bool := a.all (b.contains ·) && b.all (a.contains ·)

def predOk (norm : String → String) (R : Req) (P : Pres) (ref : String) (i : Nat) : Bool :=
  match lookup ref R.preds, P.subs[i]? with
  | some q, some sub => sub.preds.any fun p => p.attr == norm q.attr && p.ty == q.ty && p.val == q.val
  | _, _ => false

def verify (norm : String → String) (cl : List SubP → Bool) (R : Req) (P : Pres) : Outcome :=
  if !keysEq (R.preds.map (·.1)) (P.predMap.map (·.1)) then .err
  else if !(P.predMap.all fun (ref, i) => predOk norm R P ref i) then .err
  else .ok (cl P.subs)

theorem lookup_mem {k : String} {l : List (String × α)} {v} (h : lookup k l = some v) : (k, v) ∈ l := by
  induction l with
  | nil => simp [lookup] at h
  | cons x r ih =>
    obtain ⟨a, b⟩ := x
    simp only [lookup] at h
    split at h
    · simp_all
    · exact List.mem_cons_of_mem _ (ih h)

theorem mem_lookup_some {k : String} {l : List (String × α)} {v} (h : (k, v) ∈ l) : ∃ w, lookup k l = some w := by
  induction l with
  | nil => simp at h
  | cons x r ih =>
    obtain ⟨a, b⟩ := x
    simp only [lookup]
    split
    · exact ⟨_, rfl⟩
    · rcases List.mem_cons.mp h with h | h
      · simp_all
      · exact ih h

theorem C01_mini (norm cl R P) (h : verify norm cl R P = .ok true) :
    ∀ ref q, (ref, q) ∈ R.preds → ∃ i sub q', lookup ref P.predMap = some i ∧ P.subs[i]? = some sub ∧
      lookup ref R.preds = some q' ∧
      (∃ p ∈ sub.preds, p.attr = norm q'.attr ∧ p.ty = q'.ty ∧ p.val = q'.val) ∧ cl P.subs = true := by
  intro ref q hq
  unfold verify at h
  split at h; · simp at h
  split at h; · simp at h
  rename_i hk hp
  simp only [Outcome.ok.injEq] at h
  have hk' : keysEq (R.preds.map (·.1)) (P.predMap.map (·.1)) = true := by simpa using hk
  have hp' : ∀ x ∈ P.predMap, predOk norm R P x.1 x.2 = true := by
    have : (P.predMap.all fun x => predOk norm R P x.1 x.2) = true := by simpa using hp
    exact List.all_eq_true.mp this
  -- ref is a key of the presentation's map
  have hkeys : ref ∈ P.predMap.map (·.1) := by
    simp only [keysEq, Bool.and_eq_true, List.all_eq_true, List.contains_iff_mem] at hk'
    exact hk'.1 ref (List.mem_map.mpr ⟨(ref, q), hq, rfl⟩)
  obtain ⟨⟨r', i⟩, hmem, hr⟩ := List.mem_map.mp hkeys
  simp only at hr; subst hr
  obtain ⟨i', hi'⟩ := mem_lookup_some hmem
  have hmem' := lookup_mem hi'
  have := hp' (r', i') hmem'
  simp only [predOk] at this
  split at this
  · rename_i q' sub hq' hsub
    refine ⟨i', sub, q', hi', hsub, hq', ?_, h⟩
    obtain ⟨p, hpm, hpp⟩ := List.any_eq_true.mp this
    refine ⟨p, hpm, ?_⟩
    simpa [and_assoc] using hpp
  · simp at this

/-! calibrate: Rust `str::parse::<i32>` digit loop ↔ mathematical range spec -/
def i32Max : Int := 2147483647
def i32Min : Int := -2147483648

def digitVal (c : Char) : Option Nat := if '0' ≤ c ∧ c ≤ '9' then some (c.toNat - 48) else none

/-- positive loop: checked_mul(10) then checked_add(d) -/
def loopPos : Int → List Char → Option Int
  | acc, [] => some acc
  | acc, c :: cs =>
    match digitVal c with
    | none => none
    | some d =>
      let m := acc * 10
      if m > i32Max then none else
      let a := m + d
      if a > i32Max then none else loopPos a cs

/-- negative loop: checked_mul(10) then checked_sub(d) -/
def loopNeg : Int → List Char → Option Int
  | acc, [] => some acc
  | acc, c :: cs =>
    match digitVal c with
    | none => none
    | some d =>
      let m := acc * 10
      if m < i32Min then none else
      let a := m - d
      if a < i32Min then none else loopNeg a cs

def parseI32 : List Char → Option Int
  | [] => none
  | ['+'] => none
  | ['-'] => none
  | '+' :: cs => loopPos 0 cs
  | '-' :: cs => loopNeg 0 cs
  | cs => loopPos 0 cs

/-- spec: value of a digit string, none if a non-digit occurs -/
def natVal : Nat → List Char → Option Nat
  | acc, [] => some acc
  | acc, c :: cs => match digitVal c with
    | none => none
    | some d => natVal (acc * 10 + d) cs

theorem natVal_ge (acc : Nat) (cs : List Char) (n : Nat) (h : natVal acc cs = some n) : acc ≤ n := by
  induction cs generalizing acc with
  | nil => simp [natVal] at h; omega
  | cons c cs ih =>
    simp only [natVal] at h
    split at h
    · simp at h
    · have := ih _ h; omega

theorem loopPos_spec (acc : Nat) (cs : List Char) (hacc : (acc : Int) ≤ i32Max) :
    loopPos acc cs = (match natVal acc cs with
      | some n => if (n : Int) ≤ i32Max then some (n : Int) else none
      | none => none) := by
  induction cs generalizing acc with
  | nil => simp [loopPos, natVal, hacc]
  | cons c cs ih =>
    simp only [loopPos, natVal]
    cases hd : digitVal c with
    | none => simp
    | some d =>
      simp only
      by_cases h1 : (acc : Int) * 10 > i32Max
      · simp only [h1, if_true]
        cases hn : natVal (acc * 10 + d) cs with
        | none => simp
        | some n =>
          have := natVal_ge _ _ _ hn
          have : ¬ ((n : Int) ≤ i32Max) := by unfold i32Max at *; omega
          simp [this]
      · simp only [h1, if_false]
        by_cases h2 : (acc : Int) * 10 + d > i32Max
        · simp only [h2, if_true]
          cases hn : natVal (acc * 10 + d) cs with
          | none => simp
          | some n =>
            have := natVal_ge _ _ _ hn
            have : ¬ ((n : Int) ≤ i32Max) := by unfold i32Max at *; omega
            simp [this]
        · simp only [h2, if_false]
          have := ih (acc * 10 + d) (by push_cast; omega)
          simpa using this
#print axioms loopPos_spec

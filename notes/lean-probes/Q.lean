inductive Json where
  | null | bool (b : Bool) | num (n : Int) | str (s : String)
  | arr (xs : List Json) | obj (kvs : List (String × Json))
deriving Repr, Inhabited

inductive Query where
  | and (qs : List Query) | or (qs : List Query) | not (q : Query)
  | eq (k v : String) | neq (k v : String) | gt (k v : String) | gte (k v : String)
  | lt (k v : String) | lte (k v : String) | like (k v : String)
  | isIn (k : String) (vs : List String) | exist (ks : List String)
deriving Repr, Inhabited

def strList? : List Json → Option (List String)
  | [] => some []
  | .str s :: r => (strList? r).map (s :: ·)
  | _ :: _ => none

def parseSingle (op key : String) (v : Json) : Except String Query :=
  match op, v with
  | "$neq", .str s => .ok (.neq key s)
  | "$gt", .str s => .ok (.gt key s)
  | "$gte", .str s => .ok (.gte key s)
  | "$lt", .str s => .ok (.lt key s)
  | "$lte", .str s => .ok (.lte key s)
  | "$like", .str s => .ok (.like key s)
  | "$in", .arr vs => match strList? vs with
      | some l => .ok (.isIn key l)
      | none => .error "in"
  | _, _ => .error "op"

def finish : Except String (List Query) → Except String Query
  | .error e => .error e
  | .ok [q] => .ok q
  | .ok qs => .ok (.and qs)

mutual
def parseOps : List (String × Json) → Except String (List Query)
  | [] => .ok []
  | (k, v) :: r =>
    match parseOp k v with
    | .error e => .error e
    | .ok o => match parseOps r with
      | .error e => .error e
      | .ok qs => .ok (match o with | some q => q :: qs | none => qs)
def parseOp (key : String) : Json → Except String (Option Query)
  | .arr vs =>
    if key = "$and" then (match vs with | [] => .ok none | _ => (parseList vs).map (fun l => some (.and l)))
    else if key = "$or" then (match vs with | [] => .ok none | _ => (parseList vs).map (fun l => some (.or l)))
    else if key = "$not" then .error "not"
    else if key = "$exist" then (match vs with
      | [] => .ok none
      | _ => match strList? vs with
        | some l => .ok (some (.exist l))
        | none => .error "exist")
    else .error "unsupported"
  | .obj m =>
    if key = "$and" then .error "and" else if key = "$or" then .error "or"
    else if key = "$not" then (finish (parseOps m)).map (fun q => some (.not q))
    else if key = "$exist" then .error "exist"
    else match m with
      | [(op, x)] => (parseSingle op key x).map some
      | _ => .error "len1"
  | .str s =>
    if key = "$and" then .error "and" else if key = "$or" then .error "or"
    else if key = "$not" then .error "not"
    else if key = "$exist" then .ok (some (.exist [s]))
    else .ok (some (.eq key s))
  | _ =>
    if key = "$and" then .error "and" else if key = "$or" then .error "or"
    else if key = "$not" then .error "not"
    else if key = "$exist" then .error "exist"
    else .error "unsupported"
def parseList : List Json → Except String (List Query)
  | [] => .ok []
  | .obj m :: r => match finish (parseOps m) with
    | .error e => .error e
    | .ok q => (parseList r).map (q :: ·)
  | _ :: _ => .error "list"
end

def parseQuery (kvs : List (String × Json)) := finish (parseOps kvs)

mutual
def print : Query → Json
  | .eq k v => .obj [(k, .str v)]
  | .neq k v => .obj [(k, .obj [("$neq", .str v)])]
  | .gt k v => .obj [(k, .obj [("$gt", .str v)])]
  | .gte k v => .obj [(k, .obj [("$gte", .str v)])]
  | .lt k v => .obj [(k, .obj [("$lt", .str v)])]
  | .lte k v => .obj [(k, .obj [("$lte", .str v)])]
  | .like k v => .obj [(k, .obj [("$like", .str v)])]
  | .isIn k vs => .obj [(k, .obj [("$in", .arr (vs.map .str))])]
  | .exist ks => .obj [("$exist", .arr (ks.map .str))]
  | .and [] => .obj []
  | .and (q :: qs) => .obj [("$and", .arr (print q :: printL qs))]
  | .or [] => .obj []
  | .or (q :: qs) => .obj [("$or", .arr (print q :: printL qs))]
  | .not q => .obj [("$not", print q)]
def printL : List Query → List Json
  | [] => []
  | q :: qs => print q :: printL qs
end

#eval parseQuery [("a", .str "1"), ("$or", .arr [.obj [("b", .obj [("$in", .arr [.str "x"])])]])]
#eval (fun q => parseQuery (match print q with | .obj m => m | _ => [])) (Query.and [.eq "a" "1", .not (.or [.eq "b" "2"])])

def objOf : Json → List (String × Json) | .obj m => m | _ => []

theorem finish_single (q : Query) : finish (.ok [q]) = .ok q := rfl

mutual
theorem rt (q : Query) (h : ∃ m, parseQuery m = .ok q) : parseQuery (objOf (print q)) = .ok q := by
  sorry
end

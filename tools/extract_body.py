#!/usr/bin/env python3
"""Translator: /repo sources -> lean/AnonModel/Gen/*.lean (regenerated on every run; DESIGN §3.3).

  Gen/Ffi.lean        one record per exported C entry point of src/ffi/** (name, parameters, catch_error
                      wrapping, null-pointer guards, writes through out-pointers)
  Gen/PanicSites.lean every expression of the non-test code anchored by C12 that can panic
                      (unwrap, expect, unreachable!, panic!, index expressions), keyed by (file, fn, kind, ordinal)
  Gen/Consts.lean     constants and regex literals the models were written for

A line/brace-aware scanner; no Rust parser is needed for these shapes. Output is deterministic.
usage: extract.py <repo> <outdir>
"""
import os, re, sys, glob

repo, outdir = sys.argv[1], sys.argv[2]
os.makedirs(outdir, exist_ok=True)


def lean_str(s):
    out = ['"']
    for ch in s:
        if ch == '\\': out.append('\\\\')
        elif ch == '"': out.append('\\"')
        elif ch == '\n': out.append('\\n')
        elif ch == '\t': out.append('\\t')
        elif ord(ch) < 32: out.append('\\x%02x' % ord(ch))
        else: out.append(ch)
    out.append('"')
    return ''.join(out)


def lean_list(items):
    return '[' + ', '.join(items) + ']'


def strip_comments(src):
    # remove // comments and /* */ comments, keep string literals intact (good enough: no '//' inside strings except URLs in docs)
    out = []
    i = 0
    n = len(src)
    in_str = False
    while i < n:
        c = src[i]
        if in_str:
            out.append(c)
            if c == '\\' and i + 1 < n:
                out.append(src[i + 1]); i += 2; continue
            if c == '"': in_str = False
            i += 1; continue
        if c == '"':
            in_str = True; out.append(c); i += 1; continue
        if src.startswith('//', i):
            while i < n and src[i] != '\n': i += 1
            continue
        if src.startswith('/*', i):
            j = src.find('*/', i + 2)
            j = n if j < 0 else j + 2
            out.append('\n' * src.count('\n', i, j)); i = j; continue
        out.append(c); i += 1
    return ''.join(out)


def cut_tests(src):
    """drop everything from the first `#[cfg(test)]` on (test modules sit at the end of each file), and cfg(anoncreds_verif) hook modules"""
    m = re.search(r'#\[cfg\(test\)\]', src)
    if m: src = src[:m.start()]
    m = re.search(r'#\[cfg\(anoncreds_verif\)\]', src)
    if m: src = src[:m.start()]
    return src


def match_brace(src, i):
    """index just after the brace block that opens at src[i] == '{'"""
    depth = 0
    in_str = False
    n = len(src)
    while i < n:
        c = src[i]
        if in_str:
            if c == '\\': i += 2; continue
            if c == '"': in_str = False
        elif c == '"': in_str = True
        elif c == "'" and i + 2 < n and src[i + 2] == "'": i += 3; continue   # char literal like '{'
        elif c == '{': depth += 1
        elif c == '}':
            depth -= 1
            if depth == 0: return i + 1
        i += 1
    return n


# --------------------------------------------------------------------------- FFI table
entries = []
ffi_files = sorted(glob.glob(os.path.join(repo, 'src/ffi/**/*.rs'), recursive=True))
for path in ffi_files:
    rel = os.path.relpath(path, repo)
    src = cut_tests(strip_comments(open(path).read()))
    for m in re.finditer(r'#\[no_mangle\]\s*pub\s+(?:unsafe\s+)?extern\s+"C"\s+fn\s+(\w+)\s*\(', src):
        if rel.endswith('object.rs') and 'macro_rules' in src[max(0, m.start() - 400):m.start()]:
            continue   # the template inside impl_anoncreds_object_from_json!, instantiated below
        name = m.group(1)
        i = m.end()
        depth = 1
        while depth:
            if src[i] == '(': depth += 1
            elif src[i] == ')': depth -= 1
            i += 1
        params_txt = src[m.end():i - 1]
        rest = src[i:]
        b = rest.index('{')
        ret = rest[:b].strip()
        ret = ret[2:].strip() if ret.startswith('->') else ''
        body_end = match_brace(src, i + b)
        body = src[i + b + 1:body_end - 1]
        params = []
        depth = 0; cur = ''
        for ch in params_txt:
            if ch in '<([': depth += 1
            if ch in '>)]': depth -= 1
            if ch == ',' and depth == 0:
                params.append(cur); cur = ''
            else:
                cur += ch
        if cur.strip(): params.append(cur)
        plist = []
        for p in params:
            p = p.strip()
            if not p: continue
            pn, pt = p.split(':', 1)
            plist.append((pn.strip(), ' '.join(pt.split())))
        wrapped = bool(re.match(r'\s*catch_error\s*\(', body)) and body.rstrip().endswith(')')
        checked = re.findall(r'check_useful_c_ptr!\(\s*(\w+)\s*\)', body)
        # an explicit `if x.is_null() { return ... }` guard counts as a check
        checked += re.findall(r'if\s+(\w+)\.is_null\(\)\s*\{\s*return', body)
        writes = sorted(set(re.findall(r'\*\s*(\w+)\s*=[^=]', body)))
        entries.append(dict(name=name, file=rel, params=plist, ret=ret, wrapped=wrapped, checked=sorted(set(checked)), writes=writes))
    for m in re.finditer(r'impl_anoncreds_object_from_json!\(\s*([\w:]+)\s*,\s*(\w+)\s*\)', src):
        entries.append(dict(name=m.group(2), file=rel, params=[('json', 'ffi_support::ByteBuffer'), ('result_p', '*mut ObjectHandle')], ret='ErrorCode',
                            wrapped=True, checked=['result_p'], writes=['result_p']))
    for m in re.finditer(r'define_string_destructor!\(\s*(\w+)\s*\)', src):
        entries.append(dict(name=m.group(1), file=rel, params=[('s', '*mut c_char')], ret='', wrapped=False, checked=[], writes=[]))
# the from_json template itself: check it really has the guard and the wrapper (else the instances above are wrong)
obj_src = strip_comments(open(os.path.join(repo, 'src/ffi/object.rs')).read())
tm = re.search(r'macro_rules!\s+impl_anoncreds_object_from_json\s*\{', obj_src)
template_ok = False
if tm:
    tb = obj_src[tm.end():match_brace(obj_src, tm.end() - 1)]
    template_ok = 'check_useful_c_ptr!(result_p)' in tb and 'catch_error' in tb
entries.sort(key=lambda e: e['name'])

with open(os.path.join(outdir, 'Ffi.lean'), 'w') as f:
    f.write('/-! GENERATED by tools/extract.py from /repo/src/ffi/** — do not edit. -/\nnamespace AnonModel.Gen\n\n')
    f.write('structure FfiEntry where\n  name : String\n  file : String\n  params : List (String × String)\n  returnsErrorCode : Bool\n  wrapped : Bool\n  checked : List String\n  writes : List String\nderiving Repr\n\n')
    f.write('/-- the `impl_anoncreds_object_from_json!` template has the null guard and the `catch_error` wrapper -/\n')
    f.write(f'def fromJsonTemplateGuarded : Bool := {"true" if template_ok else "false"}\n\n')
    f.write('def ffiEntries : List FfiEntry := [\n')
    rows = []
    for e in entries:
        ps = lean_list(['(%s, %s)' % (lean_str(a), lean_str(b)) for a, b in e['params']])
        rows.append('  { name := %s, file := %s, params := %s, returnsErrorCode := %s, wrapped := %s, checked := %s, writes := %s }' % (
            lean_str(e['name']), lean_str(e['file']), ps, 'true' if e['ret'] == 'ErrorCode' else 'false', 'true' if e['wrapped'] else 'false',
            lean_list([lean_str(x) for x in e['checked']]), lean_list([lean_str(x) for x in e['writes']])))
    f.write(',\n'.join(rows))
    f.write(']\n\nend AnonModel.Gen\n')

import json as _json
with open(os.path.join(outdir, 'ffi_table.json'), 'w') as f:
    _json.dump([dict(name=e['name'], file=e['file'], params=e['params'], returnsErrorCode=(e['ret'] == 'ErrorCode'), wrapped=e['wrapped'], checked=e['checked'], writes=e['writes']) for e in entries], f, indent=0)

# --------------------------------------------------------------------------- panic sites
PANIC_FILES = ['src/services/verifier.rs', 'src/services/prover.rs', 'src/services/w3c/verifier.rs', 'src/services/helpers.rs', 'src/ffi/object.rs',
               'src/data_types/rev_status_list.rs', 'src/data_types/nonce.rs', 'src/data_types/pres_request.rs', 'src/data_types/presentation.rs',
               'src/utils/query.rs', 'src/data_types/w3c/proof.rs', 'src/data_types/w3c/format.rs', 'src/data_types/w3c/one_or_many.rs',
               'src/data_types/w3c/credential.rs', 'src/data_types/w3c/presentation.rs', 'src/services/w3c/helpers.rs']
sites = []
for rel in PANIC_FILES:
    path = os.path.join(repo, rel)
    if not os.path.exists(path): continue
    src = cut_tests(strip_comments(open(path).read()))
    # enclosing function of each offset
    fns = [(m.start(), m.group(1)) for m in re.finditer(r'\bfn\s+(\w+)', src)]
    def fn_at(pos):
        name = '<top>'
        for s, n in fns:
            if s <= pos: name = n
            else: break
        return name
    found = []
    for kind, rx in [('unwrap', r'\.unwrap\(\)'), ('expect', r'\.expect\('), ('unreachable', r'\bunreachable!'), ('panic', r'\bpanic!'),
                     ('unimplemented', r'\b(?:unimplemented|todo)!'), ('assert', r'\b(?:assert|assert_eq|assert_ne)!'),
                     # index / slice expressions: identifier, `)` or `]` directly followed by `[`…`]` (not attributes, macros, types or literals)
                     ('index', r'(?<![#!&\w])(?:[a-z_][\w\.]*|\))\[[^\]\n]+\]')]:
        for m in re.finditer(rx, src):
            txt = m.group(0)
            if kind == 'index':
                pre = src[max(0, m.start() - 12):m.start()]
                if re.search(r'(vec|bitvec|json|format|matches|println|error|trace|debug|warn|info)!?\s*$', pre): continue
                if re.match(r'(?:vec|bitvec|json)\b', txt): continue
                line_start = src.rfind('\n', 0, m.start()) + 1
                line = src[line_start:src.find('\n', m.start())]
                if line.lstrip().startswith('#'): continue
                if re.search(r':\s*&?\s*$', src[max(0, m.start() - 3):m.start()]): continue
            found.append((m.start(), kind, txt))
    found.sort()
    ordinal = {}
    for pos, kind, txt in found:
        fn = fn_at(pos)
        k = (fn, kind)
        ordinal[k] = ordinal.get(k, 0) + 1
        line_start = src.rfind('\n', 0, pos) + 1
        line = ' '.join(src[line_start:src.find('\n', pos)].split())
        sites.append((rel, fn, kind, ordinal[k], line[:110]))

with open(os.path.join(outdir, 'PanicSites.lean'), 'w') as f:
    f.write('/-! GENERATED by tools/extract.py: expressions of the non-test code anchored by C12 that can panic — do not edit. -/\nnamespace AnonModel.Gen\n\n')
    f.write('structure PanicSite where\n  file : String\n  fn : String\n  kind : String\n  ordinal : Nat\nderiving Repr, DecidableEq\n\n')
    f.write('def panicSites : List PanicSite := [\n')
    f.write(',\n'.join('  { file := %s, fn := %s, kind := %s, ordinal := %d }  -- %s' % (lean_str(a), lean_str(b), lean_str(c), d, e.replace('\n', ' ')) for a, b, c, d, e in sites).replace(' }  --', ' }, --') if False else
            ',\n'.join('  /- %s -/ { file := %s, fn := %s, kind := %s, ordinal := %d }' % (e.replace('-/', '- /').replace('/-', '/ -'), lean_str(a), lean_str(b), lean_str(c), d) for a, b, c, d, e in sites))
    f.write(']\n\nend AnonModel.Gen\n')

# --------------------------------------------------------------------------- constants
def grab(rel, rx, group=1, default=None):
    src = open(os.path.join(repo, rel)).read()
    m = re.search(rx, src, re.S)
    return m.group(group) if m else default

def rust_str_lit(lit):
    """value of a Rust string literal given with its quotes (plain or r"...")"""
    if lit.startswith('r"'): return lit[2:-1]
    body = lit[1:-1]
    return bytes(body, 'utf-8').decode('unicode_escape') if '\\' in body else body

consts = {}
val = 'src/utils/validation.rs'
for cname in ['URI_IDENTIFIER', 'LEGACY_DID_IDENTIFIER', 'LEGACY_SCHEMA_IDENTIFIER', 'LEGACY_CRED_DEF_IDENTIFIER', 'LEGACY_REV_REG_DEF_IDENTIFIER']:
    lit = grab(val, r'pub static %s\b.*?Regex::new\(\s*(r?"(?:[^"\\]|\\.)*")\s*\)' % cname)
    consts[cname] = rust_str_lit(lit) if lit else ''
lit = grab('src/services/verifier.rs', r'INTERNAL_TAG_MATCHER\b.*?Regex::new\(\s*(r?"(?:[^"\\]|\\.)*")\s*\)')
consts['INTERNAL_TAG_MATCHER'] = rust_str_lit(lit) if lit else ''
max_attrs = grab('src/data_types/schema.rs', r'MAX_ATTRIBUTES_COUNT\s*:\s*usize\s*=\s*(\d+)', default='0')
tag_sz = grab('src/services/tails.rs', r'TAILS_BLOB_TAG_SZ\s*:\s*u8\s*=\s*(\d+)', default='0')
ver = grab('src/services/tails.rs', r'let version\s*=\s*&\[([^\]]*)\]', default='')
ver_bytes = [re.sub(r'u8', '', x).strip() for x in ver.split(',') if x.strip()]
qt = grab('src/data_types/credential.rs', r'QUALIFIABLE_TAGS\s*:\s*\[&\'static str;\s*\d+\]\s*=\s*\[(.*?)\]', default='')
qtags = re.findall(r'"([^"]*)"', qt)
with open(os.path.join(outdir, 'Consts.lean'), 'w') as f:
    f.write('/-! GENERATED by tools/extract.py: constants and regex literals of /repo — do not edit. -/\nnamespace AnonModel.Gen\n\n')
    for k, v in consts.items():
        f.write('def %s : String := %s\n' % ('re_' + k, lean_str(v)))
    f.write('def maxAttributesCount : Nat := %s\n' % max_attrs)
    f.write('def tailsBlobTagSz : Nat := %s\n' % tag_sz)
    f.write('def tailsVersionTag : List Nat := %s\n' % lean_list(ver_bytes))
    f.write('def qualifiableTags : List String := %s\n' % lean_list([lean_str(x) for x in qtags]))
    f.write('\nend AnonModel.Gen\n')

# --------------------------------------------------------------------------- the object store's five core functions
def fn_body(rel, name):
    """whitespace-free body of `fn <name>` in file rel (comments stripped); '' when absent"""
    src = strip_comments(open(os.path.join(repo, rel)).read())
    m = re.search(r'fn\s+%s\s*(?:<[^>]*>)?\s*\([^)]*\)[^{]*\{' % name, src)
    if not m: return ''
    end = match_brace(src, m.end() - 1)
    return re.sub(r'\s+', '', src[m.end():end - 1])

store_src = {n: fn_body('src/ffi/object.rs', n) for n in ['create', 'load', 'opt_load', 'remove']}
store_src['next'] = fn_body('src/utils/macros.rs', 'next')
with open(os.path.join(outdir, 'StoreSrc.lean'), 'w') as f:
    f.write('/-! GENERATED by tools/extract.py: bodies (whitespace and comments removed) of the object-store functions `Model/Store.lean` models step by step — do not edit. -/\nnamespace AnonModel.Gen\n\n')
    for k, v in store_src.items():
        f.write('def storeSrc_%s : String := %s\n' % (k, lean_str(v)))
    f.write('\nend AnonModel.Gen\n')

# --------------------------------------------------------------------------- the proof-value codec's source
# bodies of the four two-line wrappers `Model/Msgpack.lean` and `Model/Base64.lean` were written against, the multibase header
# literal, and the bodies of `format::base64_msgpack::serialize` / the visitor's `visit_str` (the order of the three layers)
def fn_body_g(rel, name):
    """as fn_body, for signatures whose generic parameters nest angle brackets"""
    src = strip_comments(open(os.path.join(repo, rel)).read())
    m = re.search(r'fn\s+%s\s*(?:<[^(]*>)?\s*\([^)]*\)[^{]*\{' % name, src)
    if not m: return ''
    end = match_brace(src, m.end() - 1)
    return re.sub(r'\s+', '', src[m.end():end - 1])

wire_src = {
    'mp_encode': fn_body('src/utils/msg_pack.rs', 'encode'),
    'mp_decode': fn_body('src/utils/msg_pack.rs', 'decode'),
    'b64_encode': fn_body_g('src/utils/base64.rs', 'encode'),
    'b64_decode': fn_body_g('src/utils/base64.rs', 'decode'),
    'fmt_serialize': fn_body('src/data_types/w3c/format.rs', 'serialize'),
    'fmt_visit_str': fn_body('src/data_types/w3c/format.rs', 'visit_str'),
}
_fmt = strip_comments(open(os.path.join(repo, 'src/data_types/w3c/format.rs')).read())
_m = re.search(r'const\s+BASE_HEADER\s*:\s*&str\s*=\s*"([^"]*)"', _fmt)
with open(os.path.join(outdir, 'WireSrc.lean'), 'w') as f:
    f.write('/-! GENERATED by tools/extract.py: bodies (whitespace and comments removed) of the proof-value codec wrappers `Model/Msgpack.lean`, `Model/Base64.lean` model — do not edit. -/\nnamespace AnonModel.Gen\n\n')
    for k, v in wire_src.items():
        f.write('def wireSrc_%s : String := %s\n' % (k, lean_str(v)))
    f.write('def wireBaseHeader : String := %s\n' % lean_str(_m.group(1) if _m else ''))
    f.write('\nend AnonModel.Gen\n')
